package c08

// Monitors: the property stated directly on the implementation's observable state.
// They are written against the keepers' observable behaviour (balances, stored records,
// GetSynced*, the result of MsgLiquidate) and never consult the Coq model.

import (
	. "kavaverif/lib"

	"fmt"
	"math/big"
	"strings"

	sdkmath "cosmossdk.io/math"
	sdk "github.com/cosmos/cosmos-sdk/types"

	auctiontypes "github.com/kava-labs/kava/x/auction/types"
	hardkeeper "github.com/kava-labs/kava/x/hard/keeper"
	hardtypes "github.com/kava-labs/kava/x/hard/types"
)

// pre holds what is computed before an operation on a discarded branch of the store:
// the target's position after the in-operation interest sync, and whether the
// liquidation-eligibility routine regards it as within range.
type pre struct {
	target    int
	syncOK    bool
	dep, bor  []*big.Int
	hasDep    bool
	hasBor    bool
	within    bool
	withinErr bool
	nAuctions int
	mk        []*hardtypes.MoneyMarket // the money-market store before the operation (nil = absent)
	stat      []int                    // status() before the operation
}

func zeros() []*big.Int { return vecOf(nil) }

func targetOf(op Op) int {
	switch op.Kind {
	case "deposit", "withdraw", "borrow":
		return op.A
	case "repay", "liquidate":
		return op.B
	}
	return -1
}

func (w *world) countAuctions(ctx sdk.Context) (n int) {
	w.tApp.GetAuctionKeeper().IterateAuctions(ctx, func(a auctiontypes.Auction) bool { n++; return false })
	return
}

func (w *world) preMonitor(op Op) *pre {
	p := &pre{target: targetOf(op), dep: zeros(), bor: zeros(), mk: make([]*hardtypes.MoneyMarket, nD)}
	for d := 0; d < nMkt; d++ {
		if m, ok := w.storeMarket(d); ok {
			m := m
			p.mk[d] = &m
		}
	}
	p.stat = w.status()
	if p.target < 0 {
		return p
	}
	p.nAuctions = w.countAuctions(w.ctx)
	ctx, _ := w.ctx.CacheContext()
	func() {
		defer func() {
			if r := recover(); r != nil {
				p.syncOK = false
			}
		}()
		a := w.addrs[p.target]
		w.hk.SyncBorrowInterest(ctx, a)
		w.hk.SyncSupplyInterest(ctx, a)
		d, hd := w.hk.GetDeposit(ctx, a)
		b, hb := w.hk.GetBorrow(ctx, a)
		p.hasDep, p.hasBor = hd, hb
		if hd {
			p.dep = vecOf(d.Amount)
		}
		if hb {
			p.bor = vecOf(b.Amount)
		}
		p.syncOK = true
		if hd && hb {
			in, err := w.hk.IsWithinValidLtvRange(ctx, d, b)
			p.within, p.withinErr = in, err != nil
		}
	}()
	return p
}

// liquidatable reports whether a third party can liquidate user u right now (tried on a
// discarded branch with the real MsgLiquidate handler).
func (w *world) liquidatable(u int) (ok bool) {
	defer func() {
		if r := recover(); r != nil {
			ok = false
		}
	}()
	ctx, _ := w.ctx.CacheContext()
	k := (u + 1) % nU
	m := hardtypes.NewMsgLiquidate(w.addrs[k], w.addrs[u])
	_, err := hardkeeper.NewMsgServerImpl(w.hk).Liquidate(sdk.WrapSDKContext(ctx), &m)
	return err == nil
}

func vecEq(a, b []*big.Int) bool {
	for i := range a {
		if a[i].Cmp(b[i]) != 0 {
			return false
		}
	}
	return true
}

func vecStr(a []*big.Int) string { return ZList(a) }

func snapRecordsEq(a, b *snap, except int) string {
	for u := 0; u < nU; u++ {
		if u == except {
			continue
		}
		if coqRec(a.dep[u]) != coqRec(b.dep[u]) {
			return fmt.Sprintf("deposit record of user %d changed: %s -> %s", u, coqRec(a.dep[u]), coqRec(b.dep[u]))
		}
		if coqRec(a.bor[u]) != coqRec(b.bor[u]) {
			return fmt.Sprintf("borrow record of user %d changed: %s -> %s", u, coqRec(a.bor[u]), coqRec(b.bor[u]))
		}
	}
	return ""
}

func (w *world) reservesExceed(s *snap, d int) bool {
	x := new(big.Int).Add(s.bal[hardAcc][d], s.tbor[d])
	return s.tres[d].Cmp(x) > 0
}

// exactValue returns sum over denoms of amount*price/cf (optionally times ltv) as a rational
func (w *world) exactValue(s *snap, v []*big.Int, withLtv bool) *big.Rat {
	tot := new(big.Rat)
	for d := 0; d < nMkt; d++ {
		if v[d].Sign() == 0 {
			continue
		}
		x := new(big.Rat).SetFrac(new(big.Int).Mul(v[d], s.price[d]), new(big.Int).Mul(w.cf[d], prec))
		if withLtv {
			if w.inForce[d] == nil {
				continue
			}
			x.Mul(x, new(big.Rat).SetFrac(decMant(w.inForce[d].LTV), prec))
		}
		tot.Add(tot, x)
	}
	return tot
}

func (w *world) monitor(op Op, cls Class, err error, p *pre, before, after *snap) (pred, sig, detail string) {
	isMsg := p.target >= 0
	// ---- refused => nothing changed
	if cls != ClassOk {
		if d := snapRecordsEq(before, after, -1); d != "" {
			return "failed-op-no-change", "failed-op-changed-state", d
		}
		for a := 0; a < nAcc; a++ {
			if !vecEq(before.bal[a], after.bal[a]) {
				return "failed-op-no-change", "failed-op-changed-state", fmt.Sprintf("balance of account %d", a)
			}
		}
		if !vecEq(before.tsup, after.tsup) || !vecEq(before.tbor, after.tbor) || !vecEq(before.tres, after.tres) {
			return "failed-op-no-change", "failed-op-changed-state", "totals"
		}
		// C02 side finding, reported under its own signature: a borrow that takes reserve coins
		// (accepted when cash == reserves exactly, because Coins.IsAnyGT skips a zero amount on the
		// other side) leaves cash + borrows == reserves with borrows > 0, and the next accruing
		// begin block divides by zero in CalculateUtilizationRatio
		if op.Kind == "block" && cls == ClassPanic {
			for d := 0; d < nMkt; d++ {
				if before.tbor[d].Sign() != 0 && new(big.Int).Add(before.bal[hardAcc][d], before.tbor[d]).Cmp(before.tres[d]) == 0 {
					return "begin-blocker-does-not-panic", "beginblocker-division-by-zero-cash-plus-borrows-equals-reserves",
						fmt.Sprintf("hard.BeginBlocker panics (%v): denom %s cash %s + borrowed %s = reserves %s", err, denoms[d], before.bal[hardAcc][d], before.tbor[d], before.tres[d])
				}
			}
			return "begin-blocker-does-not-panic", "beginblocker-panics", fmt.Sprintf("hard.BeginBlocker panics: %v", err)
		}
		// a user whose stored supply index fell below one can no longer touch the deposit at all
		if isMsg && cls == ClassPanic && err != nil && strings.Contains(err.Error(), "interest factor") && strings.Contains(err.Error(), "< 1") {
			return "deposit-remains-claimable", "position-locked-supply-index-below-one",
				fmt.Sprintf("%s by/for user %d panics: %v", op.Kind, p.target, err)
		}
	}

	// ---- with no action by the user, claimable deposit and owed borrow never decrease
	for u := 0; u < nU; u++ {
		if cls == ClassOk && u == p.target {
			continue
		}
		for side, pair := range [][2]synced{{before.sdep[u], after.sdep[u]}, {before.sbor[u], after.sbor[u]}} {
			name := []string{"deposit", "borrow"}[side]
			b, a := pair[0], pair[1]
			if b.kind != 2 {
				continue
			}
			if a.kind == 1 {
				sg := "synced-" + name + "-panics"
				for d := 0; d < nMkt; d++ {
					if side == 0 && w.reservesExceed(after, d) && before.dep[u] != nil && before.dep[u].amt[d].Sign() > 0 {
						sg = "supply-interest-negative-reserves-exceed-cash-plus-borrows"
					}
				}
				return "interest-monotone-" + name, sg, fmt.Sprintf("GetSynced%s of user %d panics after %s (was %s)", strings.Title(name), u, op.Kind, vecStr(b.amt))
			}
			if a.kind == 2 {
				for d := 0; d < nD; d++ {
					if a.amt[d].Cmp(b.amt[d]) < 0 {
						sg := "synced-" + name + "-decreased"
						if side == 0 && (w.reservesExceed(after, d) || w.reservesExceed(before, d)) {
							sg = "supply-interest-negative-reserves-exceed-cash-plus-borrows"
						}
						return "interest-monotone-" + name, sg, fmt.Sprintf("user %d denom %s: %s -> %s after %s", u, denoms[d], b.amt[d], a.amt[d], op.Kind)
					}
				}
			}
			if a.kind == 0 {
				return "interest-monotone-" + name, "record-of-inactive-user-removed", fmt.Sprintf("user %d lost the %s record after %s", u, name, op.Kind)
			}
		}
	}
	if cls != ClassOk {
		return "", "", ""
	}

	// ---- a successful operation changes only the target's records
	if isMsg {
		if d := snapRecordsEq(before, after, p.target); d != "" {
			return "others-untouched", "other-users-position-changed", d
		}
	}
	coins := vecOf(nil)
	if op.Kind == "deposit" || op.Kind == "withdraw" || op.Kind == "borrow" || op.Kind == "repay" {
		coins = vecOf(mkCoins(op.Coins))
	}
	expBal := func(acct int, d int, delta *big.Int) string {
		e := new(big.Int).Add(before.bal[acct][d], delta)
		if e.Cmp(after.bal[acct][d]) != 0 {
			return fmt.Sprintf("balance of account %d denom %s: expected %s got %s", acct, denoms[d], e, after.bal[acct][d])
		}
		return ""
	}
	amtAfter := func(r *rec) []*big.Int {
		if r == nil {
			return zeros()
		}
		return r.amt
	}
	neg := func(x *big.Int) *big.Int { return new(big.Int).Neg(x) }
	// the in-operation sync (SyncSupplyInterest / SyncBorrowInterest) and the query-level
	// GetSyncedDeposit / GetSyncedBorrow (loadSynced*) are separately written; what the user
	// saw as claimable / owed just before the operation is what the operation must start from
	if isMsg && p.syncOK {
		if q := before.sbor[p.target]; q.kind == 2 && op.Kind != "deposit" {
			for d := 0; d < nD; d++ {
				if q.amt[d].Cmp(p.bor[d]) != 0 {
					return "sync-agrees-with-query", "sync-borrow-disagrees-with-getsyncedborrow", fmt.Sprintf("user %d denom %s: GetSyncedBorrow %s, synced in %s %s", p.target, denoms[d], q.amt[d], op.Kind, p.bor[d])
				}
			}
		}
		if q := before.sdep[p.target]; q.kind == 2 && op.Kind != "repay" {
			// exact since fix 6c61e7a5b (loadSyncedDeposit rounds like SyncSupplyInterest): a withdrawal
			// capped by the handler's synced deposit is thereby capped by GetSyncedDeposit's figure
			for d := 0; d < nD; d++ {
				if q.amt[d].Cmp(p.dep[d]) != 0 {
					if op.Kind == "withdraw" && coins[d].Cmp(q.amt[d]) > 0 && q.amt[d].Cmp(p.dep[d]) < 0 {
						return "withdraw-capped", "withdraw-exceeds-getsynceddeposit", fmt.Sprintf("user %d denom %s: GetSyncedDeposit %s, withdrawn %s", p.target, denoms[d], q.amt[d], p.dep[d])
					}
					return "sync-agrees-with-query", "sync-deposit-disagrees-with-getsynceddeposit", fmt.Sprintf("user %d denom %s: GetSyncedDeposit %s, synced in %s %s", p.target, denoms[d], q.amt[d], op.Kind, p.dep[d])
				}
			}
		}
	}
	switch op.Kind {
	case "deposit":
		for d := 0; d < nD; d++ {
			if op.A != hardAcc {
				if m := expBal(op.A, d, neg(coins[d])); m != "" {
					return "deposit-exact", "inexact-delta", m
				}
				if m := expBal(hardAcc, d, coins[d]); m != "" {
					return "deposit-exact", "inexact-delta", m
				}
			}
			if e := new(big.Int).Add(p.dep[d], coins[d]); e.Cmp(amtAfter(after.dep[op.A])[d]) != 0 {
				return "deposit-exact", "inexact-record", fmt.Sprintf("denom %s expected %s got %s", denoms[d], e, amtAfter(after.dep[op.A])[d])
			}
		}
	case "withdraw":
		for d := 0; d < nD; d++ {
			moved := coins[d]
			if moved.Cmp(p.dep[d]) > 0 {
				moved = p.dep[d]
			}
			got := new(big.Int).Sub(after.bal[op.A][d], before.bal[op.A][d])
			if got.Cmp(p.dep[d]) > 0 {
				return "withdraw-capped", "withdraw-exceeds-synced-deposit", fmt.Sprintf("denom %s: received %s, synced deposit %s", denoms[d], got, p.dep[d])
			}
			// the property as the user observes it: never more than GetSyncedDeposit showed before the message
			if q := before.sdep[op.A]; q.kind == 2 && got.Cmp(q.amt[d]) > 0 {
				return "withdraw-capped", "withdraw-exceeds-getsynceddeposit", fmt.Sprintf("denom %s: received %s, GetSyncedDeposit %s", denoms[d], got, q.amt[d])
			}
			if m := expBal(op.A, d, moved); m != "" {
				return "withdraw-capped", "inexact-delta", m
			}
			if m := expBal(hardAcc, d, neg(moved)); m != "" {
				return "withdraw-capped", "inexact-delta", m
			}
			if e := new(big.Int).Sub(p.dep[d], moved); e.Cmp(amtAfter(after.dep[op.A])[d]) != 0 {
				return "withdraw-capped", "inexact-record", fmt.Sprintf("denom %s expected %s got %s", denoms[d], e, amtAfter(after.dep[op.A])[d])
			}
		}
	case "borrow":
		for d := 0; d < nD; d++ {
			if m := expBal(op.A, d, coins[d]); m != "" {
				return "borrow-exact", "inexact-delta", m
			}
			if m := expBal(hardAcc, d, neg(coins[d])); m != "" {
				return "borrow-exact", "inexact-delta", m
			}
			if e := new(big.Int).Add(p.bor[d], coins[d]); e.Cmp(amtAfter(after.bor[op.A])[d]) != 0 {
				return "borrow-exact", "inexact-record", fmt.Sprintf("denom %s expected %s got %s", denoms[d], e, amtAfter(after.bor[op.A])[d])
			}
		}
	case "repay":
		for d := 0; d < nD; d++ {
			pay := coins[d]
			if pay.Cmp(p.bor[d]) > 0 {
				pay = p.bor[d]
			}
			paid := new(big.Int).Sub(before.bal[op.A][d], after.bal[op.A][d])
			if paid.Cmp(p.bor[d]) > 0 {
				return "repay-capped", "repay-exceeds-synced-debt", fmt.Sprintf("denom %s: paid %s, synced debt %s", denoms[d], paid, p.bor[d])
			}
			if m := expBal(op.A, d, neg(pay)); m != "" {
				return "repay-capped", "inexact-delta", m
			}
			if m := expBal(hardAcc, d, pay); m != "" {
				return "repay-capped", "inexact-delta", m
			}
			if e := new(big.Int).Sub(p.bor[d], pay); e.Cmp(amtAfter(after.bor[op.B])[d]) != 0 {
				return "repay-capped", "inexact-record", fmt.Sprintf("denom %s expected %s got %s", denoms[d], e, amtAfter(after.bor[op.B])[d])
			}
		}
	case "liquidate":
		if !p.syncOK || !p.hasDep || !p.hasBor {
			return "liquidation-only-of-unsafe", "liquidated-without-position", fmt.Sprintf("borrower %d", op.B)
		}
		if p.within || p.withinErr {
			return "liquidation-only-of-unsafe", "liquidated-position-within-ltv", fmt.Sprintf("borrower %d: deposit %s borrow %s", op.B, vecStr(p.dep), vecStr(p.bor))
		}
		// materially safe positions (exact rational valuation, 1e-9 USD slack) are never liquidated
		bv, lim := w.exactValue(before, p.bor, false), w.exactValue(before, p.dep, true)
		if !w.dirty && new(big.Rat).Add(bv, big.NewRat(1, 1_000_000_000)).Cmp(lim) < 0 {
			return "liquidation-only-of-unsafe", "liquidated-materially-safe-position", fmt.Sprintf("borrowed %s < limit %s", bv.FloatString(20), lim.FloatString(20))
		}
		if after.dep[op.B] != nil || after.bor[op.B] != nil {
			return "liquidation-removes-position", "liquidated-position-not-removed", fmt.Sprintf("borrower %d", op.B)
		}
		for d := 0; d < nD; d++ {
			out := new(big.Int).Sub(before.bal[hardAcc][d], after.bal[hardAcc][d])
			if out.Sign() < 0 || out.Cmp(p.dep[d]) > 0 {
				return "liquidation-scope", "liquidation-moves-more-than-deposit", fmt.Sprintf("denom %s: %s left the module, deposit %s", denoms[d], out, p.dep[d])
			}
			gains := new(big.Int)
			for a := 0; a < nAcc; a++ {
				if a == hardAcc {
					continue
				}
				g := new(big.Int).Sub(after.bal[a][d], before.bal[a][d])
				if a != op.A && a != op.B && a != aucAcc && g.Sign() != 0 {
					return "liquidation-scope", "liquidation-pays-third-party", fmt.Sprintf("account %d denom %s: %s", a, denoms[d], g)
				}
				if g.Sign() < 0 {
					return "liquidation-scope", "liquidation-debits-an-account", fmt.Sprintf("account %d denom %s: %s", a, denoms[d], g)
				}
				gains.Add(gains, g)
			}
			if gains.Cmp(out) != 0 {
				return "liquidation-scope", "liquidation-not-conserving", fmt.Sprintf("denom %s: out %s, received %s", denoms[d], out, gains)
			}
			// the CONFIGURED share: read from the params in force (those the last successful begin
			// block saw), not from the money-market store the handler uses
			if op.A != op.B && d < nMkt && !w.dirty && w.inForce[d] != nil {
				share := new(big.Int).Mul(decMant(w.inForce[d].Keeper), p.dep[d])
				share.Quo(share, prec)
				if g := new(big.Int).Sub(after.bal[op.A][d], before.bal[op.A][d]); g.Cmp(share) > 0 {
					return "liquidation-scope", "keeper-reward-exceeds-share", fmt.Sprintf("denom %s: keeper got %s, share %s", denoms[d], g, share)
				}
			}
			// what stays in the pool stays only for lack of cash in that denom
			if stays := new(big.Int).Sub(p.dep[d], out); stays.Sign() > 0 && after.bal[hardAcc][d].Sign() != 0 {
				restVal := w.exactValue(before, func() []*big.Int { v := zeros(); v[d] = stays; return v }(), false)
				if restVal.Cmp(big.NewRat(1, 1_000_000_000)) > 0 && w.countAuctions(w.ctx) > p.nAuctions {
					return "liquidation-scope", "liquidation-rest-stays-despite-cash", fmt.Sprintf("denom %s: %s of the deposit stays, module still holds %s", denoms[d], stays, after.bal[hardAcc][d])
				}
			}
		}
	}

	// ---- LTV gate: after a successful borrow or withdrawal the position is within the limit
	// and nobody can liquidate it
	if op.Kind == "borrow" || op.Kind == "withdraw" {
		u := op.A
		dv, bv := amtAfter(after.dep[u]), amtAfter(after.bor[u])
		if after.bor[u] != nil {
			lim, val := w.exactValue(after, dv, true), w.exactValue(after, bv, false)
			if !w.dirty && val.Cmp(new(big.Rat).Add(lim, big.NewRat(1, 1_000_000_000))) > 0 {
				return "ltv-gate", "ltv-materially-exceeded-after-" + op.Kind, fmt.Sprintf("borrowed %s > limit %s", val.FloatString(20), lim.FloatString(20))
			}
			if after.dep[u] != nil {
				ctx, _ := w.ctx.CacheContext()
				d, _ := w.hk.GetDeposit(ctx, w.addrs[u])
				b, _ := w.hk.GetBorrow(ctx, w.addrs[u])
				in, e := w.hk.IsWithinValidLtvRange(ctx, d, b)
				if e == nil && !in {
					sg := "accepted-" + op.Kind + "-outside-ltv-range"
					if op.Kind == "borrow" && w.splitValuationGap(after, dv, p.bor, coins) {
						sg = "accepted-borrow-liquidatable-split-valuation"
					}
					return "ltv-gate", sg, fmt.Sprintf("user %d after %s %v: IsWithinValidLtvRange=false (deposit %s borrow %s, limit %s value %s)", u, op.Kind, op.Coins, vecStr(dv), vecStr(bv), lim.FloatString(19), val.FloatString(19))
				}
			}
			if w.liquidatable(u) {
				sg := "accepted-" + op.Kind + "-liquidatable"
				if op.Kind == "borrow" && w.splitValuationGap(after, dv, p.bor, coins) {
					sg = "accepted-borrow-liquidatable-split-valuation"
				}
				return "ltv-gate", sg, fmt.Sprintf("user %d can be liquidated right after a successful %s", u, op.Kind)
			}
		}
	}
	_ = sdkmath.ZeroInt
	return "", "", ""
}

// usdDec is the valuation expression of the keeper, in the library's own Dec arithmetic
func (w *world) usdDec(s *snap, d int, a *big.Int) sdk.Dec {
	return sdk.NewDecFromBigInt(a).Quo(sdk.NewDecFromBigInt(w.cf[d])).Mul(sdk.NewDecFromBigIntWithPrec(s.price[d], 18))
}

// splitValuationGap recognises the precise shape of the known disagreement between
// ValidateBorrow and IsWithinValidLtvRange: valued separately, old and new borrow are within
// the limit; valued as one sum per denom they exceed it.
func (w *world) splitValuationGap(s *snap, dep, old, add []*big.Int) (gap bool) {
	defer func() {
		if r := recover(); r != nil {
			gap = false
		}
	}()
	limit, split, joint := sdk.ZeroDec(), sdk.ZeroDec(), sdk.ZeroDec()
	for d := 0; d < nMkt; d++ {
		if dep[d].Sign() != 0 {
			if w.inForce[d] == nil {
				return false
			}
			limit = limit.Add(w.usdDec(s, d, dep[d]).Mul(dec(w.inForce[d].LTV)))
		}
		if old[d].Sign() != 0 {
			split = split.Add(w.usdDec(s, d, old[d]))
		}
		if add[d].Sign() != 0 {
			split = split.Add(w.usdDec(s, d, add[d]))
		}
		if sum := new(big.Int).Add(old[d], add[d]); sum.Sign() != 0 {
			joint = joint.Add(w.usdDec(s, d, sum))
		}
	}
	return split.LTE(limit) && joint.GT(limit)
}

// ------------------------------------------------------------ case splits

var allSplits = []string{
	"borrow:at-boundary:ok", "borrow:above-boundary:refused", "withdraw:at-boundary:ok", "withdraw:above-boundary:refused",
	"withdraw:capped-to-deposit", "withdraw:whole-denom-removed", "repay:capped-to-debt", "repay:third-party", "repay:whole-denom-removed",
	"sync:supply-interest-positive", "sync:borrow-interest-positive",
	"liq:refused-within-ltv", "liq:ok", "liq:auction-started", "liq:several-auctions", "liq:rest-stays-no-cash", "liq:deposit-returned-to-borrower",
	"liq:keeper-is-borrower", "liq:multi-denom-position",
	"accrue:interest-positive", "accrue:skipped-rounds-to-zero", "accrue:reserves-exceed-cash-plus-borrows", "accrue:cash-plus-borrows-equals-reserves", "accrue:dt-zero",
	"msg:malformed-refused", "price:none", "borrow:takes-reserve-coins",
	"params:market-changed", "params:keeper-share-only-changed", "params:market-removed", "params:market-readded-with-positions", "liq:after-keeper-share-change",
	// parameter shapes of the initial configurations (wide.go)
	"cfg:ltv-zero", "cfg:ltv-one", "cfg:reserve-zero", "cfg:reserve-one", "cfg:keeper-zero", "cfg:keeper-one", "cfg:keeper-differs-per-market",
	"cfg:has-max-limit", "cfg:no-max-limit", "cfg:min-borrow-zero", "cfg:min-borrow-large", "cfg:cf-1", "cfg:cf-1e6", "cfg:cf-1e8", "cfg:cf-1e18",
	"cfg:model-zero-slopes", "cfg:model-steep", "cfg:kink-zero", "cfg:kink-one", "cfg:shared-spot-market",
	// positions outside their range and what is tried from them
	"overlimit:by-price", "overlimit:by-interest", "overlimit:by-params-change",
	"overlimit:withdraw-zero-ltv-only:refused", "overlimit:withdraw-positive-ltv:refused", "overlimit:withdraw-mixed:refused",
	"overlimit:borrow:refused", "overlimit:repay:ok", "overlimit:deposit:ok", "liq:zero-ltv-collateral-seized",
	"ltv0:withdraw-ok-while-borrowing", "ltv0:sole-collateral-borrow-refused", "ltv1:borrow-at-boundary:ok",
	// exact synced amounts and one unit either side
	"withdraw:synced+0:ok", "withdraw:synced+1:ok", "withdraw:synced-1:ok", "withdraw:synced-exact-after-interest:ok",
	"repay:synced+0:ok", "repay:synced+1:ok", "repay:synced-1:ok", "repay:synced-exact-after-interest:ok", "repay:refused:dust-below-minimum",
	// the global borrow limit and the minimum borrow value
	"borrow:global-limit:at-boundary:ok", "borrow:global-limit:above:refused", "accrue:borrows-over-global-limit",
	"borrow:min-borrow:at-boundary:ok", "borrow:min-borrow:below:refused",
	// parameter shapes where they act
	"accrue:reserve-factor-one", "accrue:reserve-factor-zero", "accrue:kink-zero", "accrue:kink-one", "accrue:steep-model", "accrue:zero-rate-model",
	"liq:keeper-share-one", "liq:keeper-share-zero", "liq:keeper-share-differs-per-denom",
	"borrow:ok:cf-1", "borrow:ok:cf-1e6", "borrow:ok:cf-1e8", "borrow:ok:cf-1e18", "price:shared-spot-market", "borrow:ok:position-shares-spot-market",
	// which gate refused
	"gate:withdraw:outside-ltv-range", "gate:withdraw:deposit-not-found", "gate:withdraw:denom-not-deposited",
	"gate:borrow:insufficient-ltv", "gate:borrow:below-minimum-borrow", "gate:borrow:global-borrow-limit", "gate:borrow:exceeds-borrowable-cash",
	"gate:borrow:no-deposits", "gate:repay:borrow-not-found", "gate:repay:denom-not-borrowed", "gate:repay:below-minimum-borrow",
	"gate:liquidate:not-liquidatable", "gate:liquidate:borrow-not-found", "gate:liquidate:deposit-not-found",
}

func (w *world) countSplits(op Op, cls Class, err error, p *pre, before, after *snap, splits map[string]bool, cnt *Counters) {
	mark := func(k string) {
		splits[k] = true
		if cnt != nil {
			cnt.Inc("split:" + k)
		}
	}
	ok := cls == ClassOk
	tag := op.X2
	w.countWide(op, cls, err, p, before, after, mark)
	coins := vecOf(nil)
	if op.Kind == "deposit" || op.Kind == "withdraw" || op.Kind == "borrow" || op.Kind == "repay" {
		func() {
			defer func() { _ = recover() }()
			coins = vecOf(mkCoins(op.Coins))
		}()
	}
	if tag == "malformed" && !ok {
		mark("msg:malformed-refused")
	}
	if p.target >= 0 && p.syncOK && ok {
		if before.dep[p.target] != nil && !vecEq(before.dep[p.target].amt, p.dep) {
			mark("sync:supply-interest-positive")
		}
		if before.bor[p.target] != nil && !vecEq(before.bor[p.target].amt, p.bor) && op.Kind != "deposit" {
			mark("sync:borrow-interest-positive")
		}
	}
	if op.Kind == "borrow" && ok {
		for d := 0; d < nMkt; d++ {
			if coins[d].Sign() > 0 && after.bal[hardAcc][d].Cmp(after.tres[d]) < 0 {
				mark("borrow:takes-reserve-coins")
			}
		}
	}
	switch op.Kind {
	case "borrow", "withdraw":
		if strings.HasPrefix(tag, "boundary") {
			off := strings.TrimPrefix(tag, "boundary")
			if ok && (off == "+0" || off == "-1" || off == "-2") {
				mark(op.Kind + ":at-boundary:ok")
				mark("nt:boundary")
			}
			if !ok && (off == "+1" || off == "+2") {
				mark(op.Kind + ":above-boundary:refused")
			}
		}
		if op.Kind == "withdraw" && ok {
			for d := 0; d < nD; d++ {
				if coins[d].Cmp(p.dep[d]) > 0 {
					mark("withdraw:capped-to-deposit")
				}
				if coins[d].Sign() > 0 && coins[d].Cmp(p.dep[d]) >= 0 {
					mark("withdraw:whole-denom-removed")
				}
			}
		}
	case "repay":
		if ok {
			if op.A != op.B {
				mark("repay:third-party")
			}
			for d := 0; d < nD; d++ {
				if coins[d].Cmp(p.bor[d]) > 0 {
					mark("repay:capped-to-debt")
				}
				if coins[d].Sign() > 0 && coins[d].Cmp(p.bor[d]) >= 0 {
					mark("repay:whole-denom-removed")
				}
			}
		}
	case "liquidate":
		if !ok && p.syncOK && p.hasDep && p.hasBor && p.within {
			mark("liq:refused-within-ltv")
		}
		if ok {
			mark("liq:ok")
			mark("nt:liquidation")
			na := w.countAuctions(w.ctx) - p.nAuctions
			if na > 0 {
				mark("liq:auction-started")
			}
			if na > 1 {
				mark("liq:several-auctions")
			}
			if op.A == op.B {
				mark("liq:keeper-is-borrower")
			}
			if len(denomsOf(p.dep)) > 1 || len(denomsOf(p.bor)) > 1 {
				mark("liq:multi-denom-position")
			}
			for d := 0; d < nD; d++ {
				out := new(big.Int).Sub(before.bal[hardAcc][d], after.bal[hardAcc][d])
				if out.Cmp(p.dep[d]) < 0 && after.bal[hardAcc][d].Sign() == 0 {
					mark("liq:rest-stays-no-cash")
				}
				if op.A != op.B && after.bal[op.B][d].Cmp(before.bal[op.B][d]) > 0 {
					mark("liq:deposit-returned-to-borrower")
				}
			}
		}
	case "block":
		if op.T == 0 {
			mark("accrue:dt-zero")
		}
		if ok {
			for d := 0; d < nMkt; d++ {
				if after.tbor[d].Cmp(before.tbor[d]) > 0 {
					mark("accrue:interest-positive")
					mark("nt:accrual")
				}
				if before.tbor[d].Sign() > 0 && op.T > 0 && after.tbor[d].Cmp(before.tbor[d]) == 0 &&
					before.prev[d] != nil && after.prev[d] != nil && before.prev[d].Cmp(after.prev[d]) == 0 {
					mark("accrue:skipped-rounds-to-zero")
				}
				if op.T > 0 && before.tbor[d].Sign() != 0 && before.prev[d] != nil &&
					new(big.Int).Add(before.bal[hardAcc][d], before.tbor[d]).Cmp(before.tres[d]) == 0 {
					mark("accrue:cash-plus-borrows-equals-reserves") // the state that used to divide by zero
				}
				if w.reservesExceed(before, d) && after.tbor[d].Cmp(before.tbor[d]) > 0 {
					mark("accrue:reserves-exceed-cash-plus-borrows")
				}
			}
		}
	case "price":
		if op.X == "0" {
			mark("price:none")
		}
	}
	// parameter changes take effect at a begin block: compare the store before and after
	if op.Kind == "block" && ok {
		for d := 0; d < nMkt; d++ {
			b, a := before.mkts[d], after.mkts[d]
			switch {
			case b != "None" && a == "None":
				mark("params:market-removed")
			case b == "None" && a != "None":
				if after.tsup[d].Sign() > 0 || after.tbor[d].Sign() > 0 {
					mark("params:market-readded-with-positions")
				}
			case b != a:
				mark("params:market-changed")
				if w.prevForce != nil && w.prevForce[d] != nil && w.inForce[d] != nil {
					x, y := *w.prevForce[d], *w.inForce[d]
					x.Keeper = y.Keeper
					if x == y {
						mark("params:keeper-share-only-changed")
						w.keeperChanged = true
					}
				}
			}
		}
	}
	if op.Kind == "liquidate" && ok && w.keeperChanged {
		mark("liq:after-keeper-share-change")
	}
}
