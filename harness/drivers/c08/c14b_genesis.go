package c08

// Genesis re-import histories for the C14b component of C14 (added for C14b; the
// C08 driver does not use this file): ordinary C08 histories (same world, same
// generator and scripts) with in-place re-imports of the x/hard genesis at
// PRNG-chosen points,
//
//	gs := hard.ExportGenesis(branch of ctx); gs.Validate(); JSON round trip;
//	delete every key of the hard KV store and the module's parameters;
//	hard.InitGenesis(ctx, k, accountKeeper, gs)
//
// on the real keeper; the history continues on the re-imported store.  A second
// stream perturbs real exports one field at a time and compares the verdict of the
// real GenesisState.Validate / InitGenesis with the model's.  The model is
// Model/GenesisHard.v.

import (
	. "kavaverif/lib"

	"bytes"
	"encoding/json"
	"fmt"
	"math/big"
	"sort"
	"strings"
	"time"

	sdkmath "cosmossdk.io/math"
	sdk "github.com/cosmos/cosmos-sdk/types"
	paramstypes "github.com/cosmos/cosmos-sdk/x/params/types"

	"github.com/kava-labs/kava/x/hard"
	hardtypes "github.com/kava-labs/kava/x/hard/types"
)

const GenesisHeader = "From Kava Require Import Base.Prelude Base.Dec Model.Hard Model.GenesisHard."

var GenesisWanted = []string{
	"hard/reimport:ok", "hard/reimport:clean", "hard/reimport:with-deposits", "hard/reimport:with-borrows",
	"hard/reimport:export-settles-supply-interest", "hard/reimport:export-settles-borrow-interest",
	"hard/reimport:index-order-normalised", "hard/reimport:after-liquidation", "hard/reimport:market-removed-from-params",
	"hard/reimport:params-not-yet-applied", "hard/reimport:multi-denom-position", "hard/reimport:position-in-a-market-that-is-not-in-the-params",
	"hard/mutgen:valid=true", "hard/mutgen:valid=false", "hard/mutgen:init:ok", "hard/mutgen:invalid:init:panic",
	"hard/directed:export-panics-for-new-market-before-first-accrual",
}

type GenesisHist struct {
	Part string `json:"part"`
	Seed uint64 `json:"seed"`
	Idx  int    `json:"history"`
	Cfg  Cfg    `json:"cfg"`
	Ops  []Op   `json:"ops"`
}

func (w *world) userIdx(a sdk.AccAddress) int {
	for i := 0; i < nU; i++ {
		if w.addrs[i].Equals(a) {
			return i
		}
	}
	return -1
}

func coqCoinList(cs sdk.Coins) string {
	it := make([]string, len(cs))
	for i, c := range cs {
		a := new(big.Int)
		if !c.Amount.IsNil() {
			a = c.Amount.BigInt()
		}
		it[i] = fmt.Sprintf("(%s, %s)", Nat(denomIdx(c.Denom)), Z(a))
	}
	return List(it)
}

func coqMarketOf(m hardtypes.MoneyMarket) string {
	return fmt.Sprintf("(mkMarket %s %s %s %s %s %s %s %s %s %s)", Z(m.ConversionFactor.BigInt()), Z(m.BorrowLimit.LoanToValue.BigInt()), Bool(m.BorrowLimit.HasMaxLimit),
		Z(m.BorrowLimit.MaximumLimit.BigInt()), Z(m.ReserveFactor.BigInt()), Z(m.KeeperRewardPercentage.BigInt()), Z(m.InterestRateModel.BaseRateAPY.BigInt()),
		Z(m.InterestRateModel.BaseMultiplier.BigInt()), Z(m.InterestRateModel.Kink.BigInt()), Z(m.InterestRateModel.JumpMultiplier.BigInt()))
}

// coqGenesis renders a genesis state; deposits and borrows are listed by user number
// (the store lists them by address).
func (w *world) coqGenesis(gs hardtypes.GenesisState) string {
	mms := make([]string, len(gs.Params.MoneyMarkets))
	for i, m := range gs.Params.MoneyMarkets {
		mms[i] = fmt.Sprintf("(%s, %s)", Nat(denomIdx(m.Denom)), coqMarketOf(m))
	}
	gats := make([]string, len(gs.PreviousAccumulationTimes))
	for i, g := range gs.PreviousAccumulationTimes {
		gats[i] = fmt.Sprintf("mkGat %s %s %s %s", Nat(denomIdx(g.CollateralType)), Zi(g.PreviousAccumulationTime.Unix()), Z(g.SupplyInterestFactor.BigInt()), Z(g.BorrowInterestFactor.BigInt()))
	}
	type rr struct {
		u int
		s string
	}
	var deps, bors []rr
	for _, d := range gs.Deposits {
		ix := make([]string, len(d.Index))
		for i, f := range d.Index {
			ix[i] = fmt.Sprintf("(%s, %s)", Nat(denomIdx(f.Denom)), Z(f.Value.BigInt()))
		}
		u := w.userIdx(d.Depositor)
		deps = append(deps, rr{u, fmt.Sprintf("mkGRec %s %s %s", Nat(u), coqCoinList(d.Amount), List(ix))})
	}
	for _, b := range gs.Borrows {
		ix := make([]string, len(b.Index))
		for i, f := range b.Index {
			ix[i] = fmt.Sprintf("(%s, %s)", Nat(denomIdx(f.Denom)), Z(f.Value.BigInt()))
		}
		u := w.userIdx(b.Borrower)
		bors = append(bors, rr{u, fmt.Sprintf("mkGRec %s %s %s", Nat(u), coqCoinList(b.Amount), List(ix))})
	}
	sort.SliceStable(deps, func(i, j int) bool { return deps[i].u < deps[j].u })
	sort.SliceStable(bors, func(i, j int) bool { return bors[i].u < bors[j].u })
	ds, bs := make([]string, len(deps)), make([]string, len(bors))
	for i := range deps {
		ds[i] = deps[i].s
	}
	for i := range bors {
		bs[i] = bors[i].s
	}
	return fmt.Sprintf("(mkGen %s %s %s\n      %s\n      %s\n      %s %s %s)", Z(gs.Params.MinimumBorrowUSDValue.BigInt()), List(mms), List(gats), List(ds), List(bs),
		coqCoinList(gs.TotalSupplied), coqCoinList(gs.TotalBorrowed), coqCoinList(gs.TotalReserves))
}

func wipeHardParams(ctx sdk.Context, w *world) {
	st := ctx.KVStore(w.tApp.GetKVStoreKey(paramstypes.StoreKey))
	var keys [][]byte
	it := sdk.KVStorePrefixIterator(st, []byte(hardtypes.ModuleName+"/"))
	for ; it.Valid(); it.Next() {
		keys = append(keys, append([]byte(nil), it.Key()...))
	}
	it.Close()
	for _, k := range keys {
		st.Delete(k)
	}
}

type hardReimport struct {
	cls               Class
	genesis           string // "(Some g)" or "None"
	pred, sig, detail string
	clean             bool
	removed           bool   // some denom with state (factor, accrual time, position coin) is not in the params
	orphan            string // a deposit / borrow coin whose denom has no money market in the params ("" = none)
}

// ratWithin: |x - num/den| <= 1
func ratWithin(x *big.Int, num, den *big.Int) bool {
	r := new(big.Rat).SetFrac(num, den)
	r.Sub(r, new(big.Rat).SetInt(x))
	r.Abs(r)
	return r.Cmp(big.NewRat(1, 1)) <= 0
}

func (w *world) reimport(mark func(string)) hardReimport {
	key := w.tApp.GetKVStoreKey(hardtypes.StoreKey)
	cdc := w.tApp.AppCodec()
	out := hardReimport{genesis: "None"}
	stage := "export"
	set := func(p, s, d string) {
		if out.pred == "" {
			out.pred, out.sig, out.detail = p, s, d
		}
	}
	before := w.snap()
	cls, err := Atomically(w.ctx, func(ctx sdk.Context) error {
		bctx, _ := ctx.CacheContext()
		gs := hard.ExportGenesis(bctx, w.hk)
		out.genesis = "(Some " + w.coqGenesis(gs) + ")"
		stage = "validate"
		if e := gs.Validate(); e != nil {
			set("hard-exported-genesis-validates", "hard-export-fails-validation", e.Error())
		}
		stage = "json"
		bz := cdc.MustMarshalJSON(&gs)
		var gs2 hardtypes.GenesisState
		cdc.MustUnmarshalJSON(bz, &gs2)
		dumpBefore := DumpStore(ctx, key)
		stage = "import"
		WipeStore(ctx, key)
		wipeHardParams(ctx, w)
		hard.InitGenesis(ctx, w.hk, w.tApp.GetAccountKeeper(), gs2)
		stage = "compare"
		dumpAfter := DumpStore(ctx, key)

		// classification of the exported state
		inParams := map[string]bool{}
		paramVec := map[string]string{}
		for _, m := range gs.Params.MoneyMarkets {
			inParams[m.Denom] = true
			paramVec[m.Denom] = marketVec(m)
		}
		clean := true
		for d := 0; d < nD; d++ {
			stored := before.mkts[d] != "None"
			if stored != inParams[denoms[d]] || (stored && before.mkts[d] != paramVec[denoms[d]]) {
				clean = false
				mark("hard/reimport:params-not-yet-applied")
			}
			used := before.sfac[d] != nil || before.bfac[d] != nil || before.prev[d] != nil
			for u := 0; u < nU; u++ {
				held := (before.dep[u] != nil && before.dep[u].amt[d].Sign() != 0) || (before.bor[u] != nil && before.bor[u].amt[d].Sign() != 0)
				used = used || held
				if held && !inParams[denoms[d]] && out.orphan == "" {
					out.orphan = fmt.Sprintf("user %d holds a deposit or borrow of %s, which has no money market in the params at export time: its interest factors and accrual time are not exported", u, denoms[d])
				}
			}
			if used && !inParams[denoms[d]] {
				clean = false
				out.removed = true
				mark("hard/reimport:market-removed-from-params")
			}
		}
		out.clean = clean
		if clean {
			mark("hard/reimport:clean")
		}

		// the store after the import, key by key
		var diffs []string
		dpfx, bpfx := hardtypes.DepositsKeyPrefix[0], hardtypes.BorrowsKeyPrefix[0]
		for k, v := range dumpBefore {
			kb := hexBytes(k)
			a, ok := dumpAfter[k]
			switch kb[0] {
			case dpfx, bpfx:
				// deposits and borrows: same key; the amount grows by the interest the export settles
				// (within one unit of amount*(global factor/user factor) - amount per denom), the index
				// becomes one entry per coin holding the global factor
				if !ok {
					diffs = append(diffs, "position missing after import: "+k)
					continue
				}
				if d := w.checkSettled(kb[0] == dpfx, hexBytes(v), hexBytes(a), before, mark); d != "" {
					diffs = append(diffs, d)
				}
			default:
				if !clean {
					continue // markets / factors / accrual times of denoms outside the params are dropped or replaced
				}
				if !ok {
					diffs = append(diffs, "key missing after import: "+k)
				} else if a != v {
					diffs = append(diffs, "value changed: "+k+" "+v+" -> "+a)
				}
			}
		}
		for k, a := range dumpAfter {
			if _, ok := dumpBefore[k]; ok {
				continue
			}
			kb := hexBytes(k)
			switch {
			case kb[0] == hardtypes.SuppliedCoinsPrefix[0] || kb[0] == hardtypes.BorrowedCoinsPrefix[0] || kb[0] == hardtypes.TotalReservesPrefix[0]:
				if a != "" {
					diffs = append(diffs, "a total that was never stored is imported non-empty: "+k+" = "+a)
				}
			case kb[0] == hardtypes.SupplyInterestFactorPrefix[0] || kb[0] == hardtypes.BorrowInterestFactorPrefix[0]:
				// a money market of the params without a stored factor is exported with factor 1.0
				var dp sdk.DecProto
				cdc.MustUnmarshal(hexBytes(a), &dp)
				if !dp.Dec.Equal(sdk.OneDec()) || !inParams[string(kb[1:])] {
					diffs = append(diffs, "interest factor appears after import: "+k+" = "+dp.Dec.String())
				}
			default:
				if clean {
					diffs = append(diffs, "new key after import: "+k+" = "+a)
				}
			}
		}
		if len(diffs) > 0 {
			sort.Strings(diffs)
			if len(diffs) > 6 {
				diffs = diffs[:6]
			}
			set("hard-store-identical-after-reimport-apart-from-settled-interest", "hard-store-differs-after-reimport", strings.Join(diffs, "; "))
		}
		// what every user can claim / owes is exactly the same
		for u := 0; u < nU; u++ {
			sd, sb := w.syncedDeposit(ctx, w.addrs[u]), w.syncedBorrow(ctx, w.addrs[u])
			if allIn(before.dep[u], inParams) && coqSynced(sd) != coqSynced(before.sdep[u]) {
				set("hard-synced-deposit-same-after-reimport", "hard-synced-deposit-differs-after-reimport", fmt.Sprintf("user %d: %s before, %s after", u, coqSynced(before.sdep[u]), coqSynced(sd)))
			}
			if allIn(before.bor[u], inParams) && coqSynced(sb) != coqSynced(before.sbor[u]) {
				set("hard-synced-borrow-same-after-reimport", "hard-synced-borrow-differs-after-reimport", fmt.Sprintf("user %d: %s before, %s after", u, coqSynced(before.sbor[u]), coqSynced(sb)))
			}
		}
		// params
		p2 := w.hk.GetParams(ctx)
		if !bytes.Equal(cdc.MustMarshalJSON(&p2), cdc.MustMarshalJSON(&gs.Params)) {
			set("hard-params-identical-after-reimport", "hard-params-differ-after-reimport", "params changed by the round trip")
		}
		// re-export
		defer func() {
			if out.orphan != "" {
				// KNOWN FINDING (Coq: C14_hard_removed_market_refuted)
				mark("hard/reimport:position-in-a-market-that-is-not-in-the-params")
				set("hard-position-state-survives-reimport", "hard-removed-market-state-lost-by-reimport", out.orphan)
			}
		}()
		if clean {
			b2, _ := ctx.CacheContext()
			gs3 := hard.ExportGenesis(b2, w.hk)
			if bz3 := cdc.MustMarshalJSON(&gs3); !bytes.Equal(bz, bz3) {
				set("hard-reexport-identical", "hard-reexport-differs", fmt.Sprintf("first export %d bytes, re-export %d bytes", len(bz), len(bz3)))
			}
		}
		return nil
	})
	out.cls = cls
	mark("hard/reimport:" + cls.String())
	if cls != ClassOk {
		out.pred, out.sig, out.detail = "hard-reimport-does-not-panic", "hard-reimport-panics-at-"+stage, fmt.Sprint(err)
		if stage == "export" {
			out.genesis = "None"
		}
	}
	return out
}

func allIn(r *rec, in map[string]bool) bool {
	if r == nil {
		return true
	}
	for d := 0; d < nD; d++ {
		if r.amt[d].Sign() != 0 && !in[denoms[d]] {
			return false
		}
	}
	return true
}

func marketVec(m hardtypes.MoneyMarket) string {
	hm := big.NewInt(0)
	if m.BorrowLimit.HasMaxLimit {
		hm = big.NewInt(1)
	}
	return "(Some " + ZList([]*big.Int{m.ConversionFactor.BigInt(), m.BorrowLimit.LoanToValue.BigInt(), hm, m.BorrowLimit.MaximumLimit.BigInt(),
		m.ReserveFactor.BigInt(), m.KeeperRewardPercentage.BigInt(), m.InterestRateModel.BaseRateAPY.BigInt(), m.InterestRateModel.BaseMultiplier.BigInt(),
		m.InterestRateModel.Kink.BigInt(), m.InterestRateModel.JumpMultiplier.BigInt()}) + ")"
}

// checkSettled compares one stored position before the export with the same key after the import.
func (w *world) checkSettled(isDeposit bool, vb, va []byte, before *snap, mark func(string)) string {
	cdc := w.tApp.AppCodec()
	var addr sdk.AccAddress
	var amtB, amtA sdk.Coins
	idxB, idxA := map[string]sdk.Dec{}, [][2]string{}
	gf := before.sfac
	if isDeposit {
		var b, a hardtypes.Deposit
		cdc.MustUnmarshal(vb, &b)
		cdc.MustUnmarshal(va, &a)
		addr, amtB, amtA = b.Depositor, b.Amount, a.Amount
		if !a.Depositor.Equals(b.Depositor) {
			return "depositor changed"
		}
		for _, f := range b.Index {
			idxB[f.Denom] = f.Value
		}
		for _, f := range a.Index {
			idxA = append(idxA, [2]string{f.Denom, f.Value.BigInt().String()})
		}
		if len(b.Index) > 1 && !sort.SliceIsSorted(b.Index, func(i, j int) bool { return b.Index[i].Denom < b.Index[j].Denom }) {
			mark("hard/reimport:index-order-normalised")
		}
	} else {
		gf = before.bfac
		var b, a hardtypes.Borrow
		cdc.MustUnmarshal(vb, &b)
		cdc.MustUnmarshal(va, &a)
		addr, amtB, amtA = b.Borrower, b.Amount, a.Amount
		if !a.Borrower.Equals(b.Borrower) {
			return "borrower changed"
		}
		for _, f := range b.Index {
			idxB[f.Denom] = f.Value
		}
		for _, f := range a.Index {
			idxA = append(idxA, [2]string{f.Denom, f.Value.BigInt().String()})
		}
		if len(b.Index) > 1 && !sort.SliceIsSorted(b.Index, func(i, j int) bool { return b.Index[i].Denom < b.Index[j].Denom }) {
			mark("hard/reimport:index-order-normalised")
		}
	}
	who := fmt.Sprintf("user %d", w.userIdx(addr))
	if len(amtB) > 1 {
		mark("hard/reimport:multi-denom-position")
	}
	if len(idxA) != len(amtB) {
		return fmt.Sprintf("%s: %d index entries after import for %d coins", who, len(idxA), len(amtB))
	}
	for i, c := range amtB {
		d := denomIdx(c.Denom)
		g := gf[d]
		gs := "0"
		if g != nil {
			gs = g.String()
		}
		if idxA[i][0] != c.Denom || idxA[i][1] != gs {
			return fmt.Sprintf("%s: index entry %d after import is (%s, %s), expected (%s, global factor %s)", who, i, idxA[i][0], idxA[i][1], c.Denom, gs)
		}
		after := amtA.AmountOf(c.Denom).BigInt()
		uf, has := idxB[c.Denom]
		if g == nil || !has {
			if after.Cmp(c.Amount.BigInt()) != 0 {
				return fmt.Sprintf("%s: %s changed from %s to %s without an interest factor", who, c.Denom, c.Amount, after)
			}
			continue
		}
		// after - before within one unit of before*(g/uf) - before, and never negative
		interest := new(big.Int).Sub(after, c.Amount.BigInt())
		num := new(big.Int).Mul(c.Amount.BigInt(), new(big.Int).Sub(g, uf.BigInt()))
		if interest.Sign() < 0 || !ratWithin(interest, num, uf.BigInt()) {
			return fmt.Sprintf("%s: %s grew by %s, accrued interest is %s*(%s/%s - 1)", who, c.Denom, interest, c.Amount, g, uf.BigInt())
		}
		if interest.Sign() > 0 {
			if isDeposit {
				mark("hard/reimport:export-settles-supply-interest")
			} else {
				mark("hard/reimport:export-settles-borrow-interest")
			}
		}
	}
	for _, c := range amtA {
		if amtB.AmountOf(c.Denom).IsZero() {
			return fmt.Sprintf("%s: coin %s appears after import", who, c)
		}
	}
	return ""
}

func hexBytes(s string) []byte {
	bz := make([]byte, len(s)/2)
	for i := range bz {
		fmt.Sscanf(s[2*i:2*i+2], "%02x", &bz[i])
	}
	return bz
}

// ------------------------------------------------------------ mutated genesis states

const nHardMutations = 16

func (w *world) mutatedGenesis(kind, sel int, mark func(string)) (term string, ok, valid bool, cls Class, name string) {
	func() {
		defer func() {
			if r := recover(); r != nil {
				ok = false
			}
		}()
		bctx, _ := w.ctx.CacheContext()
		gs := hard.ExportGenesis(bctx, w.hk)
		// deep copies of what is perturbed
		gs.Deposits = append(hardtypes.Deposits(nil), gs.Deposits...)
		gs.Borrows = append(hardtypes.Borrows(nil), gs.Borrows...)
		gs.PreviousAccumulationTimes = append(hardtypes.GenesisAccumulationTimes(nil), gs.PreviousAccumulationTimes...)
		gs.Params.MoneyMarkets = append(hardtypes.MoneyMarkets(nil), gs.Params.MoneyMarkets...)
		gs.TotalSupplied = append(sdk.Coins(nil), gs.TotalSupplied...)
		gs.TotalBorrowed = append(sdk.Coins(nil), gs.TotalBorrowed...)
		gs.TotalReserves = append(sdk.Coins(nil), gs.TotalReserves...)
		nd, nb, ng, nm := len(gs.Deposits), len(gs.Borrows), len(gs.PreviousAccumulationTimes), len(gs.Params.MoneyMarkets)
		name = "none"
		one := sdkmath.OneInt()
		switch kind {
		case 0:
			if nd > 0 {
				gs.Deposits = append(gs.Deposits, gs.Deposits[sel%nd])
				name = "duplicate-depositor"
			}
		case 1:
			if nb > 0 {
				gs.Borrows = append(gs.Borrows, gs.Borrows[sel%nb])
				name = "duplicate-borrower"
			}
		case 2: // zero / negative amount of one coin of a deposit
			if nd > 0 {
				d := gs.Deposits[sel%nd]
				d.Amount = append(sdk.Coins(nil), d.Amount...)
				d.Amount[0].Amount = []sdkmath.Int{sdkmath.ZeroInt(), sdkmath.NewInt(-1), one}[(sel/nd)%3]
				gs.Deposits[sel%nd] = d
				name = "deposit-coin-amount-0-or-negative-or-1"
			}
		case 3: // coins out of order / duplicated denom
			if nd > 0 {
				d := gs.Deposits[sel%nd]
				d.Amount = append(sdk.Coins(nil), d.Amount...)
				if len(d.Amount) > 1 && (sel/nd)%2 == 0 {
					d.Amount[0], d.Amount[1] = d.Amount[1], d.Amount[0]
					name = "deposit-coins-unsorted"
				} else {
					d.Amount = append(d.Amount, d.Amount[len(d.Amount)-1])
					name = "deposit-coins-duplicate-denom"
				}
				gs.Deposits[sel%nd] = d
			}
		case 4: // index value negative / zero / below one
			if nd > 0 {
				d := gs.Deposits[sel%nd]
				d.Index = append(hardtypes.SupplyInterestFactors(nil), d.Index...)
				if len(d.Index) > 0 {
					d.Index[0].Value = []sdk.Dec{sdk.SmallestDec().Neg(), sdk.ZeroDec(), sdk.MustNewDecFromStr("0.5")}[(sel/nd)%3]
					gs.Deposits[sel%nd] = d
					name = "deposit-index-value-negative-or-zero-or-half"
				}
			}
		case 5:
			if nb > 0 {
				b := gs.Borrows[sel%nb]
				b.Index = append(hardtypes.BorrowInterestFactors(nil), b.Index...)
				if len(b.Index) > 0 {
					b.Index[0].Value = []sdk.Dec{sdk.SmallestDec().Neg(), sdk.ZeroDec()}[(sel/nb)%2]
					gs.Borrows[sel%nb] = b
					name = "borrow-index-value-negative-or-zero"
				}
			}
		case 6: // supply factor just below one / exactly one
			if ng > 0 {
				g := gs.PreviousAccumulationTimes[sel%ng]
				g.SupplyInterestFactor = []sdk.Dec{sdk.OneDec().Sub(sdk.SmallestDec()), sdk.OneDec(), sdk.ZeroDec()}[(sel/ng)%3]
				gs.PreviousAccumulationTimes[sel%ng] = g
				name = "supply-factor-around-one"
			}
		case 7:
			if ng > 0 {
				g := gs.PreviousAccumulationTimes[sel%ng]
				g.BorrowInterestFactor = []sdk.Dec{sdk.OneDec().Sub(sdk.SmallestDec()), sdk.OneDec()}[(sel/ng)%2]
				gs.PreviousAccumulationTimes[sel%ng] = g
				name = "borrow-factor-around-one"
			}
		case 8: // totals: zero / negative / duplicated denom / unsorted
			tgt := []*sdk.Coins{&gs.TotalSupplied, &gs.TotalBorrowed, &gs.TotalReserves}[sel%3]
			switch (sel / 3) % 4 {
			case 0:
				*tgt = append(*tgt, sdk.Coin{Denom: "zzz", Amount: sdkmath.ZeroInt()})
				name = "total-zero-amount"
			case 1:
				*tgt = append(*tgt, sdk.Coin{Denom: "zzz", Amount: sdkmath.NewInt(-5)})
				name = "total-negative-amount"
			case 2:
				*tgt = append(*tgt, sdk.Coin{Denom: "zzz", Amount: one}, sdk.Coin{Denom: "zzz", Amount: one})
				name = "total-duplicate-denom"
			default:
				*tgt = append(sdk.Coins{sdk.Coin{Denom: "zzz", Amount: one}}, *tgt...)
				if len(*tgt) > 1 {
					name = "total-unsorted"
				} else {
					name = "total-extra-coin"
				}
			}
		case 9: // money market parameters at and beyond their bounds
			if nm > 0 {
				m := gs.Params.MoneyMarkets[sel%nm]
				x := (sel / nm) % 12
				switch x {
				case 0:
					m.BorrowLimit.LoanToValue = sdk.OneDec().Add(sdk.SmallestDec())
				case 1:
					m.BorrowLimit.LoanToValue = sdk.OneDec()
				case 2:
					m.ReserveFactor = sdk.OneDec().Add(sdk.SmallestDec())
				case 3:
					m.ReserveFactor = sdk.SmallestDec().Neg()
				case 4:
					m.ConversionFactor = sdkmath.ZeroInt()
				case 5:
					m.KeeperRewardPercentage = sdk.OneDec().Add(sdk.SmallestDec())
				case 6:
					m.InterestRateModel.Kink = sdk.OneDec().Add(sdk.SmallestDec())
				case 7:
					m.InterestRateModel.BaseRateAPY = sdk.OneDec().Add(sdk.SmallestDec())
				case 8:
					m.InterestRateModel.JumpMultiplier = sdk.SmallestDec().Neg()
				case 9:
					m.InterestRateModel.BaseMultiplier = sdk.SmallestDec().Neg()
				case 10:
					m.BorrowLimit.MaximumLimit = sdk.SmallestDec().Neg()
				default:
					m.BorrowLimit.LoanToValue = sdk.SmallestDec().Neg()
				}
				gs.Params.MoneyMarkets[sel%nm] = m
				name = fmt.Sprintf("market-param-%d", x)
			}
		case 10:
			gs.Params.MinimumBorrowUSDValue = []sdk.Dec{sdk.SmallestDec().Neg(), sdk.ZeroDec()}[sel%2]
			name = "min-borrow-negative-or-zero"
		case 11: // totals that are not the sum of the positions (accepted: no cross-check)
			gs.TotalSupplied = gs.TotalSupplied.Add(sdk.NewCoin(denoms[sel%nMkt], sdkmath.NewInt(int64(1+sel%1000))))
			name = "total-supplied-not-sum-of-deposits"
		case 12: // an index entry for a denom that is not in the amount (accepted)
			if nd > 0 {
				d := gs.Deposits[sel%nd]
				d.Index = append(append(hardtypes.SupplyInterestFactors(nil), d.Index...), hardtypes.NewSupplyInterestFactor("zzz", sdk.OneDec()))
				gs.Deposits[sel%nd] = d
				name = "deposit-index-extra-denom"
			}
		case 13: // accumulation time entry dropped (accepted)
			if ng > 0 {
				i := sel % ng
				gs.PreviousAccumulationTimes = append(gs.PreviousAccumulationTimes[:i:i], gs.PreviousAccumulationTimes[i+1:]...)
				name = "accumulation-time-dropped"
			}
		case 14: // zero/negative coin in a borrow
			if nb > 0 {
				b := gs.Borrows[sel%nb]
				b.Amount = append(sdk.Coins(nil), b.Amount...)
				b.Amount[0].Amount = []sdkmath.Int{sdkmath.ZeroInt(), sdkmath.NewInt(-7)}[(sel/nb)%2]
				gs.Borrows[sel%nb] = b
				name = "borrow-coin-amount-0-or-negative"
			}
		default: // a deposit without coins (accepted: empty coins are valid)
			if nd > 0 {
				d := gs.Deposits[sel%nd]
				d.Amount, d.Index = sdk.Coins{}, nil
				gs.Deposits[sel%nd] = d
				name = "deposit-without-coins"
			}
		}
		term = w.coqGenesis(gs)
		valid = gs.Validate() == nil
		mark("hard/mutgen:" + name + fmt.Sprintf(":valid=%v", valid))
		mark(fmt.Sprintf("hard/mutgen:valid=%v", valid))
		ok = true
		// the real InitGenesis runs on EVERY perturbed genesis, also those Validate refuses (scratch branch,
		// never written back, panics recovered): InitGenesis is the only gate at chain start
		cls, _ = Atomically(w.ctx, func(ctx sdk.Context) error {
			c2, _ := ctx.CacheContext() // never written back
			WipeStore(c2, w.tApp.GetKVStoreKey(hardtypes.StoreKey))
			wipeHardParams(c2, w)
			hard.InitGenesis(c2, w.hk, w.tApp.GetAccountKeeper(), gs)
			return nil
		})
		if valid {
			mark("hard/mutgen:init:" + cls.String())
		} else {
			mark("hard/mutgen:invalid:init:" + cls.String())
		}
	}()
	return
}

// directedNewMarket: governance adds a money market that never accrued (denom zzz) and the chain
// is exported before the next begin blocker: ExportGenesis panics (documented in the code).
// Run on a discarded branch; returns "" when the export panics as the code says it does.
func (w *world) directedNewMarket() string {
	ctx, _ := w.ctx.CacheContext()
	p := w.hk.GetParams(ctx)
	if len(p.MoneyMarkets) == 0 {
		return ""
	}
	m := p.MoneyMarkets[0]
	m.Denom = "zzz"
	p.MoneyMarkets = append(append(hardtypes.MoneyMarkets(nil), p.MoneyMarkets...), m)
	w.hk.SetParams(ctx, p)
	panicked := false
	func() {
		defer func() {
			if r := recover(); r != nil {
				panicked = strings.Contains(fmt.Sprint(r), "expected previous accrual time")
			}
		}()
		hard.ExportGenesis(ctx, w.hk)
	}()
	if !panicked {
		return "ExportGenesis did not panic for a money market without a previous accrual time"
	}
	return ""
}

// ------------------------------------------------------------ history runner

// GenesisRun executes generated (explicit == false) or explicit operations on a fresh C08 world.
func GenesisRun(seed uint64, idx, n int, cfg *Cfg, ops []Op, explicit bool, cnt *Counters) (GenesisPartOut, Cfg, []Op) {
	r := NewRng(seed, uint64(idx)+6_000_000)
	var g *gen
	var usedCfg Cfg
	if !explicit {
		g = newGen(r)
		usedCfg = g.cfg
	} else {
		usedCfg = *cfg
		n = len(ops)
	}
	mark := func(k string) {
		if cnt != nil {
			cnt.Inc(k)
		}
	}
	// histories 0 and 1 are fixed: they reproduce the two known findings of x/hard on every run
	if !explicit && idx == 0 {
		ops, explicit = []Op{
			{Kind: "deposit", A: 0, Coins: []Coin{{D: 0, A: "250000000"}}},
			{Kind: "block", T: 3600},
			{Kind: "params", Mk: func() []*MarketCfg {
				mk := make([]*MarketCfg, nMkt)
				for d := 1; d < nMkt; d++ {
					m := usedCfg.Markets[d]
					mk[d] = &m
				}
				return mk
			}(), X2: "remove"},
			{Kind: "block", T: 6},
			{Kind: "reimport"},
		}, true
		n = len(ops)
	}
	if !explicit && idx == 1 {
		ops, explicit = []Op{{Kind: "deposit", A: 1, Coins: []Coin{{D: 1, A: "77000000"}}}}, true
		n = len(ops)
	}
	w := setup(usedCfg)
	out := GenesisPartOut{}
	prev := w.snap()
	header := w.coqEnvState(prev)
	var steps []string
	var done []Op
	forced := n/3 + r.Intn(n/2+1)
	reimports := 0
	probeNo := 0 // perturbation kinds rotate, offset by the history index: every kind is probed in every run
	liquidated := false
	for i := 0; i < n; i++ {
		var op Op
		if explicit {
			op = ops[i]
		} else {
			switch {
			case r.Chance(1, 7) || (i >= forced && reimports == 0):
				op = Op{Kind: "reimport"}
			case r.Chance(1, 5):
				op = Op{Kind: "mutgen", D: (idx*5 + probeNo) % nHardMutations, A: r.Intn(1 << 16)}
				probeNo++
			default:
				op = g.next(w, prev, nil)
			}
		}
		if op.Kind == "mutgen" {
			term, ok, valid, cls, name := w.mutatedGenesis(op.D, op.A, mark)
			done = append(done, op)
			if !ok {
				// the real export panicked (a state the re-import steps report): nothing to probe
				steps = append(steps, fmt.Sprintf("(GProbe (mkGen 0 [] [] [] [] [] [] []),\n    ObsProbe [1; 0])"))
				continue
			}
			v, c := int64(0), int64(cls)
			if valid {
				v = 1
			}
			steps = append(steps, fmt.Sprintf("(GProbe %s,\n    ObsProbe [%d; %s])", term, v, Zi(c)))
			if !valid && cls != ClassPanic && out.Fail == nil {
				out.Fail = &Failure{Step: i, Predicate: "invalid-genesis-imported:hard:" + name, Signature: "invalid-genesis-imported:hard:" + name,
					Detail: fmt.Sprintf("GenesisState.Validate refuses this genesis state (perturbation %s of a real export) but InitGenesis on an emptied store imports it: %s", name, term)}
			}
			continue
		}
		if op.Kind == "reimport" {
			reimports++
			ro := w.reimport(mark)
			after := w.snap()
			done = append(done, op)
			if ro.cls == ClassOk {
				has := false
				for u := 0; u < nU; u++ {
					if prev.dep[u] != nil {
						mark("hard/reimport:with-deposits")
						has = true
					}
					if prev.bor[u] != nil {
						mark("hard/reimport:with-borrows")
					}
				}
				if has {
					out.Nontriv = true
				}
				if liquidated {
					mark("hard/reimport:after-liquidation")
				}
			}
			steps = append(steps, fmt.Sprintf("(GReimport,\n    ObsReimport (%s) %s)", coqObs(ro.cls, prev, after), ro.genesis))
			if ro.pred != "" && out.Fail == nil {
				out.Fail = &Failure{Step: i, Predicate: ro.pred, Signature: ro.sig, Detail: ro.detail}
			}
			prev = after
			if ro.removed {
				// the interest factors and accrual time of a money market that is not in the params are
				// not exported (reported by the builder; Coq: C14_hard_removed_market_refuted): what
				// follows on this store is no longer comparable with the original chain - the history ends
				mark("hard/reimport:history-ends-after-reimport-without-a-market")
				break
			}
			continue
		}
		cls, _ := w.exec(&op)
		after := w.snap()
		done = append(done, op)
		if cnt != nil {
			cnt.Inc("hard/op:" + op.Kind + ":" + cls.String())
		}
		if op.Kind == "liquidate" && cls == ClassOk {
			liquidated = true
		}
		steps = append(steps, fmt.Sprintf("(GOp (%s),\n    ObsStep (%s))", coqOp(op, w.now), coqObs(cls, prev, after)))
		prev = after
	}
	if idx == 1 {
		// KNOWN FINDING (Coq: C14_hard_export_new_market_refuted): governance adds a money market, the
		// chain is exported before the next begin blocker gave it an accrual time: ExportGenesis panics
		if d := w.directedNewMarket(); d == "" {
			mark("hard/directed:export-panics-for-new-market-before-first-accrual")
			if out.Fail == nil {
				out.Fail = &Failure{Step: len(done), Predicate: "hard-export-succeeds-in-every-reachable-state", Signature: "hard-export-panics-for-market-without-accrual-time",
					Detail: "params gained a money market (denom zzz) in this block; ExportGenesis before the next begin blocker panics: expected previous accrual time to be set in state for zzz"}
			}
		}
	}
	out.NOps = len(done)
	out.Coq = fmt.Sprintf("mkGHist %s\n  %s", header, List(steps))
	out.Key = string(MustJSON(done))
	out.Desc = GenesisHist{Part: "hard", Seed: seed, Idx: idx, Cfg: usedCfg, Ops: done}
	return out, usedCfg, done
}

func GenesisPart(seed uint64, i, n int, cnt *Counters) GenesisPartOut {
	out, cfg, ops := GenesisRun(seed, i, n, nil, nil, false, cnt)
	if out.Fail != nil {
		sig := out.Fail.Signature
		upto := out.Fail.Step + 1
		if upto > len(ops) {
			upto = len(ops)
		}
		fails := func(cand []Op) bool {
			o2, _, _ := GenesisRun(seed, i, n, &cfg, cand, true, nil)
			return o2.Fail != nil && o2.Fail.Signature == sig
		}
		small := ops[:upto]
		if fails(small) {
			small = Shrink(small, fails)
		}
		if o2, _, _ := GenesisRun(seed, i, n, &cfg, small, true, nil); o2.Fail != nil {
			out.Fail = o2.Fail
		}
		out.Fail.Replay = MustJSON(GenesisHist{Part: "hard", Seed: seed, Idx: i, Cfg: cfg, Ops: small})
	}
	return out
}

func GenesisReplay(raw json.RawMessage, cnt *Counters) (GenesisPartOut, error) {
	var h GenesisHist
	if err := json.Unmarshal(raw, &h); err != nil {
		return GenesisPartOut{}, err
	}
	out, _, _ := GenesisRun(h.Seed, h.Idx, len(h.Ops), &h.Cfg, h.Ops, true, cnt)
	if out.Fail != nil {
		out.Fail.Replay = MustJSON(h)
	}
	return out, nil
}

var _ = time.Second
