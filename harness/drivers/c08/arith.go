package c08

// Arithmetic probes of the four interest computations of x/hard (see coq/Model/HardArith.v):
// the keeper's SyncBorrowInterest, GetSyncedBorrow, SyncSupplyInterest and GetSyncedDeposit are
// called on crafted one-coin records (stored amount, user index, global factor) that aim at the
// rounding corners — amount*factor/index an exact integer while amount/index does not terminate,
// indices with small denominators, factors equal to or one ulp beside the index — which block-by-
// block accrual reaches with negligible probability.  Each probe is compared with the model's
// bor_interest / sup_interest (vm_compute) and two Go monitors state the property clause
// "withdrawals and repayments never exceed the synced deposit and debt": the amount the handler
// syncs to equals the amount the query reported.

import (
	"fmt"
	"math/big"

	sdkmath "cosmossdk.io/math"
	sdk "github.com/cosmos/cosmos-sdk/types"

	hardtypes "github.com/kava-labs/kava/x/hard/types"
	. "kavaverif/lib"
)

const arithHeader = "From Kava Require Import Base.Prelude Base.Dec Model.Hard Model.HardArith."

type arithProbe struct {
	A, Uf, F                   *big.Int
	SyncB, ViewB, SyncS, ViewS *big.Int
}

func genArith(r *Rng) (a, uf, f *big.Int) {
	one := Pow10(18)
	mul := func(x *big.Int, k int64) *big.Int { return new(big.Int).Mul(x, big.NewInt(k)) }
	switch r.Pick(30, 20, 20, 15, 15) {
	case 0: // index k.0 with 1/k not terminating, factor a whole multiple: amount*f/uf is an integer
		k := []int64{3, 7, 9, 11, 13, 17, 6, 12}[r.Intn(8)]
		m := []int64{2, 3, 5, 10}[r.Intn(4)]
		uf = mul(one, k)
		f = mul(uf, m)
		a = big.NewInt(1 + r.Int63n(10_000_000_000_000))
		if r.Chance(1, 2) {
			a = new(big.Int).Exp(big.NewInt(10), big.NewInt(int64(1+r.Intn(18))), nil)
		}
	case 1: // arbitrary mantissas
		uf = new(big.Int).Add(one, r.BigBits(60))
		f = new(big.Int).Add(uf, r.BigBits(61))
		a = new(big.Int).Add(big.NewInt(1), r.BigBits(1+r.Intn(80)))
	case 2: // small denominators
		q := []int64{2, 4, 5, 8, 16, 25}[r.Intn(6)]
		uf = new(big.Int).Add(one, new(big.Int).Quo(mul(one, 1+r.Int63n(q*3)), big.NewInt(q)))
		f = mul(uf, []int64{1, 2, 3}[r.Intn(3)])
		a = big.NewInt(1 + r.Int63n(1_000_000_000))
	case 3: // factor equal to the index, or one ulp beside it
		uf = new(big.Int).Add(one, r.BigBits(62))
		f = new(big.Int).Add(uf, big.NewInt(int64(r.Intn(3))))
		a = big.NewInt(1 + r.Int63n(1_000_000_000_000))
	default: // tiny amounts, large factors
		uf = new(big.Int).Add(one, r.BigBits(59))
		f = new(big.Int).Add(mul(uf, 1+r.Int63n(1000)), r.BigBits(40))
		a = big.NewInt(1 + r.Int63n(20))
	}
	return
}

// arithProbes runs n probes on a fresh app and returns their Coq terms and monitor failures.
func arithProbes(seed uint64, n int, cnt *Counters) (terms []string, fails []Failure) {
	tApp := NewApp()
	tApp.InitializeFromGenesisStates()
	base := NewCtx(tApp, 2, GenesisTime)
	hk := tApp.GetHardKeeper()
	addr := Addrs(1)[0]
	const denom = "ukava"
	r := NewRng(seed, 0xA817)
	for i := 0; i < n; i++ {
		a, uf, f := genArith(r)
		p := arithProbe{A: a, Uf: uf, F: f}
		ok := func() (ok bool) {
			defer func() {
				if rec := recover(); rec != nil {
					ok = false
				}
			}()
			ctx, _ := base.CacheContext()
			coin := sdk.NewCoin(denom, sdkmath.NewIntFromBigInt(a))
			ufD, fD := sdk.NewDecFromBigIntWithPrec(uf, 18), sdk.NewDecFromBigIntWithPrec(f, 18)
			hk.SetBorrowInterestFactor(ctx, denom, fD)
			hk.SetSupplyInterestFactor(ctx, denom, fD)
			hk.SetBorrow(ctx, hardtypes.NewBorrow(addr, sdk.NewCoins(coin), hardtypes.BorrowInterestFactors{hardtypes.NewBorrowInterestFactor(denom, ufD)}))
			hk.SetDeposit(ctx, hardtypes.NewDeposit(addr, sdk.NewCoins(coin), hardtypes.SupplyInterestFactors{hardtypes.NewSupplyInterestFactor(denom, ufD)}))
			vb, _ := hk.GetSyncedBorrow(ctx, addr)
			vs, _ := hk.GetSyncedDeposit(ctx, addr)
			p.ViewB, p.ViewS = vb.Amount.AmountOf(denom).BigInt(), vs.Amount.AmountOf(denom).BigInt()
			hk.SyncBorrowInterest(ctx, addr)
			hk.SyncSupplyInterest(ctx, addr)
			sb, _ := hk.GetBorrow(ctx, addr)
			ss, _ := hk.GetDeposit(ctx, addr)
			p.SyncB, p.SyncS = sb.Amount.AmountOf(denom).BigInt(), ss.Amount.AmountOf(denom).BigInt()
			return true
		}()
		if !ok {
			cnt.Inc("arith:panicked")
			continue
		}
		cnt.Inc("arith:probes")
		if new(big.Int).Mod(new(big.Int).Mul(a, f), uf).Sign() == 0 {
			cnt.Inc("arith:amount-times-factor-over-index-is-an-integer")
		}
		terms = append(terms, fmt.Sprintf("(mkProbe %s %s %s %s %s %s %s)", Z(a), Z(uf), Z(f), Z(p.SyncB), Z(p.ViewB), Z(p.SyncS), Z(p.ViewS)))
		detail := fmt.Sprintf("stored amount %s, user index %s e-18, global factor %s e-18", a, uf, f)
		if p.SyncB.Cmp(p.ViewB) != 0 && len(fails) < 3 {
			fails = append(fails, Failure{History: -2, Step: i, Predicate: "repay-capped", Signature: "sync-borrow-disagrees-with-getsyncedborrow",
				Detail: fmt.Sprintf("%s: SyncBorrowInterest gives %s, GetSyncedBorrow reported %s (a repayment is capped by the former)", detail, p.SyncB, p.ViewB)})
		}
		if p.SyncS.Cmp(p.ViewS) != 0 && len(fails) < 3 {
			fails = append(fails, Failure{History: -2, Step: i, Predicate: "withdraw-capped", Signature: "sync-deposit-disagrees-with-getsynceddeposit",
				Detail: fmt.Sprintf("%s: SyncSupplyInterest gives %s, GetSyncedDeposit reported %s (a withdrawal is capped by the former)", detail, p.SyncS, p.ViewS)})
		}
	}
	return
}
