package c08

// Generators: a per-history money-market parameter set, a structured mostly-valid stream
// (boundary-directed amounts computed from the observed state with the implementation's own
// checks on a discarded branch of the store), a malformed stream, and two scripted prefixes
// (bad debt that pushes reserves above cash+borrows; two-step borrow of an 18-decimal asset
// at the LTV boundary).  The parameter shapes, the over-limit / exact-synced / global-limit /
// minimum-borrow scripts and the probes from over-limit positions are in wide.go.

import (
	. "kavaverif/lib"

	"errors"
	"fmt"
	"math/big"

	sdkmath "cosmossdk.io/math"
	sdk "github.com/cosmos/cosmos-sdk/types"

	hardtypes "github.com/kava-labs/kava/x/hard/types"
)

type gen struct {
	r      *Rng
	cfg    Cfg
	script []func(w *world, s *snap) (Op, bool) // scripted prefix; false = skip the step
	tag    string                               // set by amount generators: which mixture component was used
	removed map[int]*MarketCfg                  // markets removed from the params by this history (for re-adding)
}

func pick(r *Rng, xs ...string) string { return xs[r.Intn(len(xs))] }

// randPrice returns a Dec string; often with more than 13 decimals
func randPrice(r *Rng, base string) string {
	switch r.Pick(30, 40, 20, 10) {
	case 0:
		return base
	case 1: // base scaled, with a random 18-decimal tail
		b := dec(base).BigInt()
		f := big.NewInt(int64(500 + r.Intn(1500)))
		b.Mul(b, f).Quo(b, big.NewInt(1000))
		b.Add(b, big.NewInt(r.Int63n(1_000_000_000)))
		if b.Sign() <= 0 {
			b.SetInt64(1)
		}
		return sdk.NewDecFromBigIntWithPrec(b, 18).String()
	case 2: // a few ulps around a round value
		b := dec(base).BigInt()
		b.Add(b, big.NewInt(int64(r.Intn(9)-4)))
		if b.Sign() <= 0 {
			b.SetInt64(1)
		}
		return sdk.NewDecFromBigIntWithPrec(b, 18).String()
	default:
		return pick(r, "0.000001", "0.333333333333333333", "1234.567890123456789012", "0.4", "2.5")
	}
}

func newGen(r *Rng) *gen {
	g := &gen{r: r}
	basePrices := []string{"618.13", "1.0", "0.85", "2000.0"}
	cfs := []string{"100000000", "100000000", "1000000", "1000000000000000000"}
	// the scripted prefix: none, none (kept for the old "wild" profile), bad-debt, split-valuation, reserve-borrow,
	// market re-add, keeper-share change, over-limit, exact synced amounts, global limit, minimum borrow
	profile := r.Pick(24, 8, 9, 8, 4, 5, 5, 19, 8, 5, 5)
	// the parameter shape of the money markets is drawn independently of the script (a script then
	// fixes only the parameters it depends on): plain, wild, diverse (wide.go)
	shape := r.Pick(36, 16, 48)
	if profile == 1 {
		shape = 1
	}
	for d := 0; d < nMkt; d++ {
		g.cfg.Prices = append(g.cfg.Prices, randPrice(r, basePrices[d]))
	}
	for d := 0; d < nMkt; d++ {
		m := MarketCfg{CF: cfs[d], LTV: pick(r, "0.5", "0.6", "0.8", "0.75"), Max: "0.0",
			Reserve: pick(r, "0.025", "0.05", "0.1"), Keeper: pick(r, "0.05", "0.05", "0.01", "0.0"),
			Base: pick(r, "0.0", "0.05", "0.5"), Mult: pick(r, "0.1", "1.0", "2.0"), Kink: "0.8", Jump: pick(r, "0.5", "5.0")}
		switch shape {
		case 1:
			m.CF = pick(r, cfs[d], "1", "3", "1000000", "1000000000000000000", "7000")
			m.LTV = pick(r, "0.0", "1.0", "0.333333333333333333", "0.5", "0.8", "0.999999999999999999")
			m.Reserve = pick(r, "0.0", "1.0", "0.5", "0.05", "0.999")
			m.Keeper = pick(r, "0.0", "1.0", "0.5", "0.05", "0.000000000000000001")
			m.Base = pick(r, "0.0", "1.0", "0.3")
			m.Mult = pick(r, "0.0", "3.0", "0.1")
			m.Kink = pick(r, "0.0", "1.0", "0.8", "0.5")
			m.Jump = pick(r, "0.0", "10.0", "1.0")
			if r.Chance(1, 3) {
				m.HasMax = true
				// a global limit of about 200..20000 USD worth of units
				lim := new(big.Int).Mul(bigOf(m.CF), big.NewInt(int64(1+r.Intn(100))))
				m.Max = sdk.NewDecFromBigInt(lim).String()
			}
		case 2:
			g.shapeDiverse(d, &m)
		}
		g.cfg.Markets = append(g.cfg.Markets, m)
	}
	// one market whose collateral carries no borrowing power, next to markets that do
	if shape != 1 && r.Chance(2, 5) {
		z := r.Intn(nMkt)
		g.cfg.Markets[z].LTV = "0.0"
		o := (z + 1 + r.Intn(nMkt-1)) % nMkt
		if dec(g.cfg.Markets[o].LTV).IsZero() {
			g.cfg.Markets[o].LTV = pick(r, "0.5", "0.8", "1.0")
		}
	}
	g.cfg.MinBorrow = pick(r, "10.0", "10.0", "0.0", "1.0", "0.000000000000000001")
	switch shape {
	case 1:
		g.cfg.MinBorrow = pick(r, "0.0", "10.0", "0.000001", "100.0")
	case 2:
		g.cfg.MinBorrow = pick(r, "0.0", "0.0", "10.0", "0.000001", "100.0", "1000.0", "0.000000000000000001")
	}
	var avoid [][2]int
	switch profile {
	case 2:
		g.scriptBadDebt()
	case 3:
		g.scriptSplitValuation()
	case 4:
		g.scriptReserveBorrow()
	case 5:
		g.scriptMarketReadd()
	case 6:
		g.scriptKeeperShareChange()
	case 7:
		avoid = g.scriptOverLimit()
	case 8:
		g.scriptExactSynced()
	case 9:
		g.scriptGlobalLimit()
	case 10:
		g.scriptMinBorrow()
	}
	// two money markets priced by one spot market (never the pair a price-move script separates;
	// the older scripts value their two markets independently)
	if profile != 2 && profile != 3 && profile != 6 && r.Chance(1, 3) {
		g.shareSpot(avoid)
	}
	return g
}

// ------------------------------------------------------------ amounts

// unitsPerUSD: amount of denom d worth about usd (a rational num/den) at the current price
func (w *world) unitsFor(s *snap, d int, usdNum, usdDen int64) *big.Int {
	p := s.price[d]
	if d >= nMkt || p.Sign() == 0 {
		return big.NewInt(usdNum * 1000 / usdDen)
	}
	x := new(big.Int).Mul(w.cf[d], prec)
	x.Mul(x, big.NewInt(usdNum))
	x.Quo(x, new(big.Int).Mul(p, big.NewInt(usdDen)))
	return x
}

func one(d int, a *big.Int) []Coin {
	if a.Sign() <= 0 {
		a = big.NewInt(1)
	}
	return []Coin{{d, a.String()}}
}

func jitter(r *Rng, x *big.Int, span int) *big.Int {
	return new(big.Int).Add(x, big.NewInt(int64(r.Intn(2*span+1)-span)))
}

// maxBorrow finds by bisection, with the implementation's ValidateBorrow on a discarded
// branch (after the in-operation interest sync), the largest amount of denom d that user u
// may borrow as far as the loan-to-value rule is concerned.
func (w *world) maxBorrow(u, d int) *big.Int {
	ctx, _ := w.ctx.CacheContext()
	ok := func(x *big.Int) (res bool) {
		defer func() {
			if r := recover(); r != nil {
				res = false
			}
		}()
		err := w.hk.ValidateBorrow(ctx, w.addrs[u], sdk.NewCoins(sdk.NewCoin(denoms[d], sdkmath.NewIntFromBigInt(x))))
		return !errors.Is(err, hardtypes.ErrInsufficientLoanToValue)
	}
	func() {
		defer func() { _ = recover() }()
		w.hk.SyncSupplyInterest(ctx, w.addrs[u])
		w.hk.SyncBorrowInterest(ctx, w.addrs[u])
	}()
	hi := w.tApp.GetBankKeeper().GetBalance(ctx, w.addrs[hardAcc], denoms[d]).Amount.BigInt()
	if tr, found := w.hk.GetTotalReserves(ctx); found {
		hi = new(big.Int).Sub(hi, tr.AmountOf(denoms[d]).BigInt())
	}
	lo := big.NewInt(0)
	if hi.Sign() <= 0 {
		return lo
	}
	if _, found := w.hk.GetDeposit(ctx, w.addrs[u]); !found {
		return lo
	}
	if ok(hi) {
		return hi
	}
	for new(big.Int).Sub(hi, lo).Cmp(big.NewInt(1)) > 0 {
		mid := new(big.Int).Add(lo, hi)
		mid.Rsh(mid, 1)
		if ok(mid) {
			lo = mid
		} else {
			hi = mid
		}
	}
	return lo
}

// maxWithdraw: the largest amount of denom d that user u can withdraw (bisection on the real
// Withdraw, every trial on its own discarded branch).
func (w *world) maxWithdraw(u, d int, dep *big.Int) *big.Int {
	ok := func(x *big.Int) (res bool) {
		defer func() {
			if r := recover(); r != nil {
				res = false
			}
		}()
		ctx, _ := w.ctx.CacheContext()
		err := w.hk.Withdraw(ctx, w.addrs[u], sdk.NewCoins(sdk.NewCoin(denoms[d], sdkmath.NewIntFromBigInt(x))))
		return !errors.Is(err, hardtypes.ErrInvalidWithdrawAmount)
	}
	hi := new(big.Int).Add(dep, big.NewInt(1))
	lo := big.NewInt(0)
	if hi.Sign() <= 0 {
		return lo
	}
	if ok(hi) {
		return hi
	}
	for new(big.Int).Sub(hi, lo).Cmp(big.NewInt(1)) > 0 {
		mid := new(big.Int).Add(lo, hi)
		mid.Rsh(mid, 1)
		if mid.Sign() == 0 {
			break
		}
		if ok(mid) {
			lo = mid
		} else {
			hi = mid
		}
	}
	return lo
}

func usersWith(recs []*rec) []int {
	var out []int
	for u, r := range recs {
		if r != nil {
			out = append(out, u)
		}
	}
	return out
}

func denomsOf(v []*big.Int) []int {
	var out []int
	for d, x := range v {
		if x.Sign() != 0 {
			out = append(out, d)
		}
	}
	return out
}

func (g *gen) anyUser() int { return []int{0, 0, 1, 1, 2, 2, 3}[g.r.Intn(7)] }

// mktDenom: a money-market denom; when two markets share a spot market, often one of those two
// (so that positions hold both)
func (g *gen) mktDenom() int {
	if len(g.cfg.Spot) > 0 && g.r.Chance(1, 3) {
		for d := 0; d < nMkt; d++ {
			if g.cfg.spot(d) != d {
				return []int{d, g.cfg.spot(d)}[g.r.Intn(2)]
			}
		}
	}
	return g.r.Intn(nMkt)
}

// ------------------------------------------------------------ operations

// next yields the next operation.  A price change of a spot market shared by several money
// markets is one "price" operation per denom (the model keeps a price per denom), back to back.
func (g *gen) next(w *world, s *snap, cnt *Counters) Op {
	op := g.next0(w, s, cnt)
	if op.Kind == "price" && op.X2 != "shared-follow" {
		var follow []func(w *world, s *snap) (Op, bool)
		for _, d2 := range w.cfg.sharers(op.D) {
			if d2 != op.D {
				d2, x := d2, op.X
				follow = append(follow, func(w *world, s *snap) (Op, bool) { return Op{Kind: "price", D: d2, X: x, X2: "shared-follow"}, true })
			}
		}
		if len(follow) > 0 {
			g.script = append(follow, g.script...)
		}
	}
	return op
}

func (g *gen) next0(w *world, s *snap, cnt *Counters) Op {
	for len(g.script) > 0 {
		f := g.script[0]
		g.script = g.script[1:]
		if op, ok := f(w, s); ok {
			return op
		}
	}
	r := g.r
	g.tag = ""
	var op Op
	if r.Chance(5, 100) {
		return g.genParams(w, s, cnt)
	}
	// a position outside its range: try every kind of operation from it
	if over := w.usersOver(); len(over) > 0 && r.Chance(40, 100) {
		op = g.genProbe(w, s, over[r.Intn(len(over))])
		if cnt != nil {
			cnt.Inc("gen:" + op.Kind + ":" + g.tag)
		}
		op.X2 = g.tag
		return op
	}
	k := r.Pick(20, 22, 14, 12, 7, 8, 11, 2, 4)
	if (k == 3 || k == 4) && len(usersWith(s.bor)) == 0 && r.Chance(9, 10) {
		k = 1
	}
	if (k == 1 || k == 2) && len(usersWith(s.dep)) == 0 && r.Chance(9, 10) {
		k = 0
	}
	switch k {
	case 0:
		op = g.genDeposit(w, s)
	case 1:
		op = g.genBorrow(w, s)
	case 2:
		op = g.genWithdraw(w, s)
	case 3:
		op = g.genRepay(w, s)
	case 4:
		op = g.genLiquidate(w, s)
	case 5:
		op = g.genPrice(w, s)
	case 6:
		op = Op{Kind: "block", T: []int64{0, 1, 6, 60, 3600, 86400, 7 * 86400, 30 * 86400, 30 * 86400, 365 * 86400}[r.Intn(10)]}
	case 7:
		d := r.Intn(nD)
		op = Op{Kind: "donate", A: g.anyUser(), D: d, X: w.unitsFor(s, d, int64(1+r.Intn(50)), 1).String()}
		if r.Chance(1, 4) {
			op.X = fmt.Sprint(1 + r.Intn(5))
		}
	default:
		op = g.genMalformed(w, s)
	}
	if g.tag != "" && cnt != nil {
		cnt.Inc("gen:" + op.Kind + ":" + g.tag)
	}
	op.X2 = g.tag
	return op
}

func (g *gen) genDeposit(w *world, s *snap) Op {
	r := g.r
	u := g.anyUser()
	d := g.mktDenom()
	var a *big.Int
	switch r.Pick(12, 65, 6, 14, 3) {
	case 0:
		a = big.NewInt(int64(1 + r.Intn(20)))
	case 1:
		a = w.unitsFor(s, d, []int64{1, 12, 50, 300, 5000, 100000}[r.Intn(6)], 1)
		if u == nU-1 {
			a = w.unitsFor(s, d, []int64{1, 5, 12}[r.Intn(3)], 1)
		}
		a = jitter(r, a, 3)
	case 2:
		a = jitter(r, s.bal[u][d], 2)
	case 3:
		a = w.unitsFor(s, d, int64(1+r.Intn(1000)), int64(1+r.Intn(7)))
	default:
		a = r.BigBits(40 + r.Intn(80))
	}
	cs := one(d, a)
	if r.Chance(1, 5) {
		d2 := g.mktDenom()
		if d2 != d {
			cs = append(cs, one(d2, w.unitsFor(s, d2, int64(5+r.Intn(500)), 1))...)
			if d2 < d {
				cs[0], cs[1] = cs[1], cs[0]
			}
		}
	}
	return Op{Kind: "deposit", A: u, Coins: cs}
}

func (g *gen) genBorrow(w *world, s *snap) Op {
	r := g.r
	us := usersWith(s.dep)
	u := g.anyUser()
	if len(us) > 0 && r.Chance(19, 20) {
		u = us[r.Intn(len(us))]
	}
	d := g.mktDenom()
	// prefer a denom the module has cash in
	for k := 0; k < 3 && s.bal[hardAcc][d].Sign() == 0; k++ {
		d = g.mktDenom()
	}
	var a *big.Int
	k := r.Pick(40, 35, 6, 6, 10, 3)
	if rm := w.globalRoom(s, d); rm != nil && r.Chance(1, 3) { // at the market's global borrow limit
		off := int64(r.Intn(4) - 1)
		a = new(big.Int).Add(rm, big.NewInt(off))
		g.tag = fmt.Sprintf("global%+d", off)
		k = -1
	} else if s.bor[u] == nil && dec(w.cfg.MinBorrow).IsPositive() && r.Chance(1, 6) { // at the minimum borrow value
		if mn := w.minBorrowAmt(u, d); mn != nil {
			off := int64(r.Intn(3) - 1)
			a = new(big.Int).Add(mn, big.NewInt(off))
			g.tag = fmt.Sprintf("min%+d", off)
			k = -1
		}
	}
	switch k {
	case -1:
	case 0:
		mx := w.maxBorrow(u, d)
		off := int64(r.Intn(5) - 2)
		a = new(big.Int).Add(mx, big.NewInt(off))
		g.tag = fmt.Sprintf("boundary%+d", off)
	case 1:
		mx := w.maxBorrow(u, d)
		a = new(big.Int).Mul(mx, big.NewInt(int64(1+r.Intn(99))))
		a.Quo(a, big.NewInt(100))
		g.tag = "fraction"
	case 2:
		a = big.NewInt(int64(1 + r.Intn(20)))
	case 3:
		a = jitter(r, s.bal[hardAcc][d], 2)
		g.tag = "cash"
	case 4:
		a = w.unitsFor(s, d, []int64{9, 10, 11, 40, 200}[r.Intn(5)], 1)
	default:
		a = r.BigBits(40 + r.Intn(80))
	}
	cs := one(d, a)
	if r.Chance(1, 8) {
		d2 := g.mktDenom()
		if d2 != d {
			cs = append(cs, one(d2, w.unitsFor(s, d2, int64(1+r.Intn(30)), 1))...)
			if d2 < d {
				cs[0], cs[1] = cs[1], cs[0]
			}
		}
	}
	return Op{Kind: "borrow", A: u, Coins: cs}
}

func (g *gen) genWithdraw(w *world, s *snap) Op {
	r := g.r
	us := usersWith(s.dep)
	if len(us) == 0 {
		return Op{Kind: "withdraw", A: g.anyUser(), Coins: one(g.mktDenom(), big.NewInt(5))}
	}
	u := us[r.Intn(len(us))]
	if r.Chance(1, 20) { // possibly somebody without a deposit
		u = g.anyUser()
		if s.dep[u] == nil {
			g.tag = "no-deposit"
			return Op{Kind: "withdraw", A: u, Coins: one(g.mktDenom(), big.NewInt(int64(1+r.Intn(1000))))}
		}
	}
	ds := denomsOf(s.dep[u].amt)
	if r.Chance(1, 25) { // a denom that is not in the deposit (alone or next to one that is)
		for k := 0; k < 4; k++ {
			if d := g.mktDenom(); s.dep[u].amt[d].Sign() == 0 {
				cs := one(d, big.NewInt(int64(1+r.Intn(1000))))
				if r.Chance(1, 2) {
					d2 := ds[r.Intn(len(ds))]
					cs = sortCoins(append(cs, one(d2, big.NewInt(1))...))
				}
				g.tag = "denom-not-deposited"
				return Op{Kind: "withdraw", A: u, Coins: cs}
			}
		}
	}
	d := ds[r.Intn(len(ds))]
	cur := s.dep[u].amt[d]
	if s.sdep[u].kind == 2 {
		cur = s.sdep[u].amt[d]
	}
	var a *big.Int
	switch r.Pick(40, 15, 20, 15, 10) {
	case 0:
		mx := w.maxWithdraw(u, d, cur)
		off := int64(r.Intn(5) - 2)
		a = new(big.Int).Add(mx, big.NewInt(off))
		g.tag = fmt.Sprintf("boundary%+d", off)
	case 1:
		a = new(big.Int).Mul(cur, big.NewInt(1000))
		g.tag = "all"
	case 2:
		a = new(big.Int).Mul(cur, big.NewInt(int64(1+r.Intn(99))))
		a.Quo(a, big.NewInt(100))
	case 3:
		off := int64(r.Intn(5) - 2)
		a = new(big.Int).Add(cur, big.NewInt(off))
		g.tag = fmt.Sprintf("synced%+d", off)
	default:
		a = big.NewInt(int64(1 + r.Intn(20)))
	}
	cs := one(d, a)
	if len(ds) > 1 && r.Chance(1, 5) {
		d2 := ds[r.Intn(len(ds))]
		if d2 != d {
			cs = append(cs, one(d2, new(big.Int).Quo(s.dep[u].amt[d2], big.NewInt(int64(1+r.Intn(4)))))...)
			if d2 < d {
				cs[0], cs[1] = cs[1], cs[0]
			}
		}
	}
	return Op{Kind: "withdraw", A: u, Coins: cs}
}

func (g *gen) genRepay(w *world, s *snap) Op {
	r := g.r
	us := usersWith(s.bor)
	if len(us) == 0 {
		return Op{Kind: "repay", A: g.anyUser(), B: g.anyUser(), Coins: one(g.mktDenom(), big.NewInt(5))}
	}
	owner := us[r.Intn(len(us))]
	sender := owner
	if r.Chance(3, 10) {
		sender = g.anyUser()
	}
	ds := denomsOf(s.bor[owner].amt)
	if r.Chance(1, 25) { // a denom that was not borrowed (alone or next to one that was)
		for k := 0; k < 4; k++ {
			if d := g.mktDenom(); s.bor[owner].amt[d].Sign() == 0 {
				cs := one(d, big.NewInt(int64(1+r.Intn(1000))))
				if r.Chance(1, 2) {
					d2 := ds[r.Intn(len(ds))]
					cs = sortCoins(append(cs, one(d2, big.NewInt(1))...))
				}
				g.tag = "denom-not-borrowed"
				return Op{Kind: "repay", A: sender, B: owner, Coins: cs}
			}
		}
	}
	d := ds[r.Intn(len(ds))]
	cur := s.bor[owner].amt[d]
	if s.sbor[owner].kind == 2 {
		cur = s.sbor[owner].amt[d]
	}
	var a *big.Int
	switch r.Pick(30, 20, 35, 15) {
	case 0:
		off := int64(r.Intn(3) - 1)
		a = new(big.Int).Add(cur, big.NewInt(off))
		g.tag = fmt.Sprintf("synced%+d", off)
	case 1:
		a = new(big.Int).Mul(cur, big.NewInt(1000))
		g.tag = "all"
	case 2:
		a = new(big.Int).Mul(cur, big.NewInt(int64(1+r.Intn(99))))
		a.Quo(a, big.NewInt(100))
	default:
		a = big.NewInt(int64(1 + r.Intn(20)))
	}
	cs := one(d, a)
	if len(ds) > 1 && r.Chance(1, 4) {
		for _, d2 := range ds {
			if d2 != d {
				cs = append(cs, one(d2, new(big.Int).Mul(s.bor[owner].amt[d2], big.NewInt(int64(r.Intn(3)))))...)
				if d2 < d {
					cs[0], cs[1] = cs[1], cs[0]
				}
				break
			}
		}
	}
	return Op{Kind: "repay", A: sender, B: owner, Coins: cs}
}

func (g *gen) genLiquidate(w *world, s *snap) Op {
	r := g.r
	us := usersWith(s.bor)
	b := g.anyUser()
	if len(us) > 0 && r.Chance(9, 10) {
		b = us[r.Intn(len(us))]
	}
	if over := w.usersOver(); len(over) > 0 && r.Chance(1, 2) {
		b = over[r.Intn(len(over))]
	}
	k := g.anyUser()
	if r.Chance(1, 6) {
		k = b
	}
	return Op{Kind: "liquidate", A: k, B: b}
}

func (g *gen) genPrice(w *world, s *snap) Op {
	r := g.r
	d := g.mktDenom()
	cur := s.price[d]
	if cur.Sign() == 0 {
		cur = dec("1.0").BigInt()
	}
	p := new(big.Int)
	switch r.Pick(40, 25, 15, 10, 3, 7) {
	case 0: // move by -30% .. +30% with a random tail
		p.Mul(cur, big.NewInt(int64(700+r.Intn(600)))).Quo(p, big.NewInt(1000))
		p.Add(p, big.NewInt(r.Int63n(1_000_000)))
	case 1: // crash
		p.Mul(cur, big.NewInt(int64(20+r.Intn(500)))).Quo(p, big.NewInt(1000))
		p.Add(p, big.NewInt(r.Int63n(1_000_000)))
	case 2: // pump
		p.Mul(cur, big.NewInt(int64(1500+r.Intn(5000)))).Quo(p, big.NewInt(1000))
	case 3: // a few ulps
		p.Add(cur, big.NewInt(int64(r.Intn(7)-3)))
	case 4: // no valid price
		p.SetInt64(0)
	default:
		p = dec(randPrice(r, "1.0")).BigInt()
	}
	if p.Sign() < 0 {
		p.SetInt64(1)
	}
	return Op{Kind: "price", D: d, X: p.String()}
}

func (g *gen) genMalformed(w *world, s *snap) Op {
	r := g.r
	kind := pick(r, "deposit", "withdraw", "borrow", "repay")
	u := g.anyUser()
	op := Op{Kind: kind, A: u, B: g.anyUser()}
	switch r.Intn(7) {
	case 0:
		op.Coins = []Coin{{g.mktDenom(), "0"}}
	case 1:
		op.Coins = []Coin{{2, "5"}, {0, "7"}} // unsorted
	case 2:
		op.Coins = nil
	case 3:
		op.Coins = []Coin{{nD - 1, fmt.Sprint(1 + r.Intn(100))}} // no money market
	case 4:
		op.Coins = []Coin{{1, "5"}, {1, "7"}} // duplicate denom
	case 5:
		op.Coins = []Coin{{g.mktDenom(), "-3"}}
	default:
		op.Coins = []Coin{{g.mktDenom(), "1"}, {nD - 1, "1"}}
	}
	g.tag = "malformed"
	return op
}

// ------------------------------------------------------------ scripted prefixes

// bad debt: B is lent out at a high rate with a large reserve factor, the collateral A
// crashes, the big borrower is liquidated (the auction proceeds are outside this model, so the
// lent B does not come back) and a small borrower keeps the market accruing.
func (g *gen) scriptBadDebt() {
	r := g.r
	a, b := 0, 2
	if r.Chance(1, 2) {
		a, b = 2, 1
	}
	g.cfg.Markets[b].Reserve = pick(r, "0.5", "0.9", "1.0", "0.75")
	g.cfg.Markets[b].Base = pick(r, "1.0", "0.8")
	g.cfg.Markets[b].Mult = pick(r, "2.0", "3.0")
	g.cfg.Markets[b].Jump = pick(r, "10.0", "5.0")
	g.cfg.Markets[b].HasMax = false
	g.cfg.Markets[a].LTV = pick(r, "0.8", "0.75")
	g.cfg.Markets[a].HasMax = false
	g.cfg.MinBorrow = pick(r, "10.0", "0.0")
	supply := int64(600 + r.Intn(800))
	big1 := supply * int64(85+r.Intn(13)) / 100
	step := func(f func(w *world, s *snap) Op) func(w *world, s *snap) (Op, bool) {
		return func(w *world, s *snap) (Op, bool) { return f(w, s), true }
	}
	g.script = []func(w *world, s *snap) (Op, bool){
		step(func(w *world, s *snap) Op { return Op{Kind: "deposit", A: 0, Coins: one(b, w.unitsFor(s, b, supply, 1))} }),
		step(func(w *world, s *snap) Op { return Op{Kind: "deposit", A: 1, Coins: one(a, w.unitsFor(s, a, big1*100/70, 1))} }),
		step(func(w *world, s *snap) Op { return Op{Kind: "deposit", A: 2, Coins: one(a, w.unitsFor(s, a, 100, 1))} }),
		step(func(w *world, s *snap) Op { return Op{Kind: "borrow", A: 2, Coins: one(b, w.unitsFor(s, b, int64(11+r.Intn(20)), 1))} }),
		step(func(w *world, s *snap) Op { return Op{Kind: "borrow", A: 1, Coins: one(b, w.unitsFor(s, b, big1-40, 1))} }),
		step(func(w *world, s *snap) Op { return Op{Kind: "block", T: int64(200+r.Intn(400)) * 86400} }),
		step(func(w *world, s *snap) Op { return Op{Kind: "block", T: int64(100+r.Intn(400)) * 86400} }),
		step(func(w *world, s *snap) Op {
			p := new(big.Int).Quo(s.price[a], big.NewInt(int64(50+r.Intn(100))))
			return Op{Kind: "price", D: a, X: p.String()}
		}),
		step(func(w *world, s *snap) Op { return Op{Kind: "liquidate", A: 0, B: 1} }),
		step(func(w *world, s *snap) Op { return Op{Kind: "block", T: 86400} }),
		step(func(w *world, s *snap) Op { return Op{Kind: "block", T: int64(1+r.Intn(30)) * 86400} }),
		step(func(w *world, s *snap) Op { return Op{Kind: "withdraw", A: 0, Coins: one(b, big.NewInt(int64(1+r.Intn(1000))))} }),
		step(func(w *world, s *snap) Op { return Op{Kind: "block", T: int64(1+r.Intn(30)) * 86400} }),
		step(func(w *world, s *snap) Op { return Op{Kind: "withdraw", A: 0, Coins: one(b, big.NewInt(int64(1+r.Intn(1000))))} }),
	}
}

// split valuation: an 18-decimal asset (conversion factor 10^18) priced below one ulp per
// unit is borrowed in two steps, the second exactly at the boundary ValidateBorrow computes.
func (g *gen) scriptSplitValuation() {
	r := g.r
	const b = 3 // weth, cf 10^18
	g.cfg.Markets[b].CF = "1000000000000000000"
	g.cfg.Markets[b].HasMax = false
	g.cfg.Prices[b] = pick(r, "0.4", "0.3", "0.7", "0.45", "1.4", "0.123456789012345678", randPrice(r, "0.6"))
	g.cfg.MinBorrow = pick(r, "0.0", "10.0", "0.000000000000000001")
	col := r.Intn(3)
	g.cfg.Markets[col].HasMax = false
	step := func(f func(w *world, s *snap) Op) func(w *world, s *snap) (Op, bool) {
		return func(w *world, s *snap) (Op, bool) { return f(w, s), true }
	}
	usd := int64(20 + r.Intn(200))
	g.script = []func(w *world, s *snap) (Op, bool){
		step(func(w *world, s *snap) Op { return Op{Kind: "deposit", A: 0, Coins: one(b, w.unitsFor(s, b, 100000, 1))} }),
		step(func(w *world, s *snap) Op {
			return Op{Kind: "deposit", A: 1, Coins: one(col, jitter(r, w.unitsFor(s, col, usd, 1), 1000))}
		}),
		step(func(w *world, s *snap) Op {
			mx := w.maxBorrow(1, b)
			x := new(big.Int).Mul(mx, big.NewInt(int64(30+r.Intn(40))))
			x.Quo(x, big.NewInt(100))
			return Op{Kind: "borrow", A: 1, Coins: one(b, jitter(r, x, 5)), X2: "fraction"}
		}),
		step(func(w *world, s *snap) Op {
			return Op{Kind: "borrow", A: 1, Coins: one(b, w.maxBorrow(1, b)), X2: "boundary+0"}
		}),
		step(func(w *world, s *snap) Op { return Op{Kind: "liquidate", A: 2, B: 1} }),
	}
}

// reserve borrow (regression stream for the fixed begin-blocker division by zero): with a reserve factor of one all interest of a single
// borrower goes to the reserves; after the borrower repays and the only supplier withdraws,
// cash == reserves exactly and nothing is borrowed.  Any borrow of that denom is then accepted
// (Coins.IsAnyGT ignores the zero available amount); the next accruing begin block used to divide
// by zero in CalculateUtilizationRatio and must now succeed.
func (g *gen) scriptReserveBorrow() {
	r := g.r
	a, col := 0, 1
	g.cfg.Markets[a].Reserve = "1.0"
	g.cfg.Markets[a].Base = pick(r, "0.05", "0.5")
	g.cfg.Markets[a].HasMax = false
	g.cfg.Markets[col].HasMax = false
	g.cfg.Markets[col].LTV = "0.8"
	g.cfg.MinBorrow = "0.0"
	step := func(f func(w *world, s *snap) Op) func(w *world, s *snap) (Op, bool) {
		return func(w *world, s *snap) (Op, bool) { return f(w, s), true }
	}
	x := int64(1000 + r.Intn(9000))
	g.script = []func(w *world, s *snap) (Op, bool){
		step(func(w *world, s *snap) Op { return Op{Kind: "deposit", A: 0, Coins: one(a, w.unitsFor(s, a, x, 1))} }),
		step(func(w *world, s *snap) Op { return Op{Kind: "deposit", A: 1, Coins: one(col, w.unitsFor(s, col, 4*x, 1))} }),
		step(func(w *world, s *snap) Op { return Op{Kind: "borrow", A: 1, Coins: one(a, w.unitsFor(s, a, x/2, 1))} }),
		step(func(w *world, s *snap) Op { return Op{Kind: "block", T: int64(30+r.Intn(300)) * 86400} }),
		step(func(w *world, s *snap) Op {
			return Op{Kind: "repay", A: 1, B: 1, Coins: one(a, new(big.Int).Mul(w.unitsFor(s, a, x, 1), big.NewInt(1000)))}
		}),
		step(func(w *world, s *snap) Op {
			return Op{Kind: "withdraw", A: 0, Coins: one(a, new(big.Int).Mul(w.unitsFor(s, a, x, 1), big.NewInt(1000)))}
		}),
		step(func(w *world, s *snap) Op { return Op{Kind: "borrow", A: 1, Coins: one(a, big.NewInt(int64(1+r.Intn(3))))} }),
		step(func(w *world, s *snap) Op { return Op{Kind: "block", T: 86400} }),
	}
}

// ------------------------------------------------------------ governance parameter changes

// genParams writes new hard params (one market changed, removed or re-added); a begin block
// follows at once, as on a chain where governance acts in the end blocker.
func (g *gen) genParams(w *world, s *snap, cnt *Counters) Op {
	r := g.r
	mk := copyMarkets(w.cur)
	var gone []int
	for d := 0; d < nMkt; d++ {
		if mk[d] == nil {
			gone = append(gone, d)
		}
	}
	tag := ""
	if len(gone) > 0 && r.Chance(1, 2) {
		d := gone[r.Intn(len(gone))]
		m := g.cfg.Markets[d]
		if g.removed != nil && g.removed[d] != nil {
			m = *g.removed[d]
		}
		mk[d] = &m
		tag = "readd"
	} else {
		d := g.mktDenom()
		for k := 0; k < 4 && mk[d] == nil; k++ {
			d = g.mktDenom()
		}
		if mk[d] == nil {
			m := g.cfg.Markets[d]
			mk[d] = &m
			tag = "readd"
		} else {
			m := *mk[d]
			switch r.Pick(22, 18, 18, 22, 12, 8) {
			case 0:
				m.LTV = pick(r, "0.5", "0.6", "0.8", "0.75", "0.3", "0.9")
				tag = "ltv"
			case 1:
				m.Reserve = pick(r, "0.0", "0.025", "0.1", "0.5", "1.0")
				tag = "reserve"
			case 2:
				m.Base, m.Mult, m.Jump = pick(r, "0.0", "0.05", "0.5"), pick(r, "0.1", "1.0", "2.0"), pick(r, "0.5", "5.0")
				tag = "model"
			case 3:
				m.Keeper = pick(r, "0.0", "0.01", "0.05", "0.1", "0.5")
				tag = "keeper"
			case 4:
				if g.removed == nil {
					g.removed = map[int]*MarketCfg{}
				}
				c := m
				g.removed[d] = &c
				mk[d] = nil
				tag = "remove"
			default:
				m.LTV, m.Keeper, m.Reserve = pick(r, "0.5", "0.7"), pick(r, "0.02", "0.2"), pick(r, "0.05", "0.2")
				tag = "several"
			}
			if mk[d] != nil {
				mk[d] = &m
			}
		}
	}
	if cnt != nil {
		cnt.Inc("gen:params:" + tag)
	}
	t := []int64{0, 1, 6, 3600, 86400}[r.Intn(5)]
	g.script = append([]func(w *world, s *snap) (Op, bool){func(w *world, s *snap) (Op, bool) { return Op{Kind: "block", T: t}, true }}, g.script...)
	return Op{Kind: "params", Mk: mk, X2: tag}
}

func stepOf(f func(w *world, s *snap) Op) func(w *world, s *snap) (Op, bool) {
	return func(w *world, s *snap) (Op, bool) { return f(w, s), true }
}

// market re-add: a market with open positions and indexes above one is removed from the params
// and re-added a few blocks later; nobody's claimable or owed amount may fall.
func (g *gen) scriptMarketReadd() {
	r := g.r
	a, col := 2, 1 // ukava lent out, busd collateral
	g.cfg.Markets[a].Base = pick(r, "0.5", "0.05")
	g.cfg.Markets[a].HasMax, g.cfg.Markets[col].HasMax = false, false
	g.cfg.Markets[col].LTV = "0.8"
	g.cfg.MinBorrow = pick(r, "10.0", "0.0")
	x := int64(200 + r.Intn(2000))
	without := func(w *world) []*MarketCfg { mk := copyMarkets(w.cur); mk[a] = nil; return mk }
	with := func(w *world) []*MarketCfg { mk := copyMarkets(w.cur); m := g.cfg.Markets[a]; mk[a] = &m; return mk }
	g.script = []func(w *world, s *snap) (Op, bool){
		stepOf(func(w *world, s *snap) Op { return Op{Kind: "deposit", A: 0, Coins: one(a, w.unitsFor(s, a, x, 1))} }),
		stepOf(func(w *world, s *snap) Op { return Op{Kind: "deposit", A: 1, Coins: one(col, w.unitsFor(s, col, 2*x, 1))} }),
		stepOf(func(w *world, s *snap) Op { return Op{Kind: "borrow", A: 1, Coins: one(a, w.unitsFor(s, a, x/2, 1))} }),
		stepOf(func(w *world, s *snap) Op { return Op{Kind: "block", T: int64(30+r.Intn(300)) * 86400} }),
		stepOf(func(w *world, s *snap) Op { return Op{Kind: "params", Mk: without(w), X2: "remove"} }),
		stepOf(func(w *world, s *snap) Op { return Op{Kind: "block", T: int64(r.Intn(3)) * 3600} }),
		stepOf(func(w *world, s *snap) Op { return Op{Kind: "block", T: int64(1+r.Intn(10)) * 86400} }),
		stepOf(func(w *world, s *snap) Op { return Op{Kind: "params", Mk: with(w), X2: "readd"} }),
		stepOf(func(w *world, s *snap) Op { return Op{Kind: "block", T: int64(r.Intn(2)) * 86400} }),
		stepOf(func(w *world, s *snap) Op { return Op{Kind: "block", T: 86400} }),
	}
}

// keeper-share change: governance changes ONLY the keeper reward of the collateral's market;
// a liquidation after the next begin block must pay the newly configured share.
func (g *gen) scriptKeeperShareChange() {
	r := g.r
	col, b := 0, 2
	g.cfg.Markets[col].Keeper = pick(r, "0.05", "0.1")
	g.cfg.Markets[col].LTV = "0.8"
	g.cfg.Markets[col].HasMax, g.cfg.Markets[b].HasMax = false, false
	g.cfg.MinBorrow = pick(r, "10.0", "0.0")
	x := int64(200 + r.Intn(2000))
	newShare := pick(r, "0.01", "0.0", "0.02")
	g.script = []func(w *world, s *snap) (Op, bool){
		stepOf(func(w *world, s *snap) Op { return Op{Kind: "deposit", A: 0, Coins: one(b, w.unitsFor(s, b, 3*x, 1))} }),
		stepOf(func(w *world, s *snap) Op { return Op{Kind: "deposit", A: 1, Coins: one(col, w.unitsFor(s, col, x, 1))} }),
		stepOf(func(w *world, s *snap) Op { return Op{Kind: "borrow", A: 1, Coins: one(b, w.unitsFor(s, b, x*7/10, 1))} }),
		stepOf(func(w *world, s *snap) Op {
			mk := copyMarkets(w.cur)
			m := *mk[col]
			m.Keeper = newShare
			mk[col] = &m
			return Op{Kind: "params", Mk: mk, X2: "keeper"}
		}),
		stepOf(func(w *world, s *snap) Op { return Op{Kind: "block", T: int64(r.Intn(3)) * 3600} }),
		stepOf(func(w *world, s *snap) Op {
			p := new(big.Int).Quo(new(big.Int).Mul(s.price[col], big.NewInt(int64(40+r.Intn(40)))), big.NewInt(100))
			return Op{Kind: "price", D: col, X: p.String()}
		}),
		stepOf(func(w *world, s *snap) Op { return Op{Kind: "liquidate", A: 2, B: 1} }),
	}
}
