package c08

// The fixed histories run after the generated ones on every check.
//
// witnessSyncedDepositRounding: the history on which loadSyncedDeposit, before fix 6c61e7a5b,
// reported 1 ukava (amount/index*factor, two roundings) while MsgWithdraw synced to and paid 2
// (amount*factor/index): user 2 deposits 1 ukava at supply index 1.148673 and a later accrual
// doubles the index exactly (supply interest = total supply).  The monitors require
// GetSyncedDeposit before a message = the deposit the message syncs to, exactly; a copy of the
// history is in /verif/corpus/C08/.

import "encoding/json"

const witnessSyncedDepositRounding = `{"seed": 0, "history": 0, "cfg": {"markets": [{"cf": "100000000", "ltv": "0.8", "has_max": false, "max": "0", "reserve": "0.025", "keeper": "0.05", "base": "0.8", "mult": "2.0", "kink": "0.8", "jump": "10.0"}, {"cf": "100000000", "ltv": "0.6", "has_max": false, "max": "0", "reserve": "0.025", "keeper": "0.05", "base": "0.8", "mult": "2.0", "kink": "0.8", "jump": "10.0"}, {"cf": "1000000", "ltv": "0.6", "has_max": false, "max": "0", "reserve": "0.0", "keeper": "0.05", "base": "0.8", "mult": "2.0", "kink": "0.8", "jump": "10.0"}, {"cf": "1000000000000000000", "ltv": "0.75", "has_max": false, "max": "0", "reserve": "0.05", "keeper": "0.05", "base": "0.8", "mult": "2.0", "kink": "0.8", "jump": "10.0"}], "min_borrow": "0.0", "prices": ["300.0", "1.0", "1.0", "2000.0"]}, "ops": [{"kind": "deposit", "coins": [{"d": 2, "a": "1000000"}]}, {"kind": "deposit", "a": 1, "coins": [{"d": 0, "a": "100000000000"}]}, {"kind": "borrow", "a": 1, "coins": [{"d": 2, "a": "1000000"}]}, {"kind": "block", "t": 2592000}, {"kind": "deposit", "a": 2, "coins": [{"d": 2, "a": "1"}]}, {"kind": "block", "t": 12962013}, {"kind": "deposit", "coins": [{"d": 2, "a": "1000"}]}, {"kind": "withdraw", "a": 2, "coins": [{"d": 2, "a": "10"}]}]}`

func fixedHists() []Hist {
	var out []Hist
	for _, js := range []string{witnessSyncedDepositRounding} {
		var h Hist
		if err := json.Unmarshal([]byte(js), &h); err != nil {
			panic(err)
		}
		out = append(out, h)
	}
	return out
}
