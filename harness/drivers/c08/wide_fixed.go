package c08

// A second fixed history, run after the generated ones on every check (task B10).
//
// witnessOverLimitZeroLtv: user 1 deposits ukava (loan-to-value 0.8) and weth (loan-to-value 0:
// seized at a liquidation, backs no borrowing), borrows busd close to the limit and does nothing
// for a year; accrued interest takes the position over its limit.  Every withdrawal of the
// zero-LTV collateral (all of it, one unit) and a further borrow must then be refused, and the
// liquidation that follows seizes both collaterals.  A Withdraw that skips the range check when only
// zero-LTV denoms leave (seeded change C08/3) accepts the first of these withdrawals; the
// loan-to-value monitor and the model comparison both report it.  Copy in /verif/corpus/C08/.

import "encoding/json"

const witnessOverLimitZeroLtv = `{"seed": 0, "history": 0, "cfg": {"markets": [{"cf": "100000000", "ltv": "0.6", "has_max": false, "max": "0.0", "reserve": "0.05", "keeper": "0.05", "base": "0.05", "mult": "2.0", "kink": "0.8", "jump": "10.0"}, {"cf": "1000000", "ltv": "0.8", "has_max": false, "max": "0.0", "reserve": "0.05", "keeper": "0.05", "base": "0.05", "mult": "2.0", "kink": "0.8", "jump": "10.0"}, {"cf": "1000000", "ltv": "0.8", "has_max": false, "max": "0.0", "reserve": "0.05", "keeper": "0.05", "base": "0.05", "mult": "2.0", "kink": "0.8", "jump": "10.0"}, {"cf": "1000000000000000000", "ltv": "0.0", "has_max": false, "max": "0.0", "reserve": "0.05", "keeper": "0.05", "base": "0.05", "mult": "2.0", "kink": "0.8", "jump": "10.0"}], "min_borrow": "1.0", "prices": ["300.0", "1.0", "2.0", "0.25"]}, "ops": [{"kind": "deposit", "a": 0, "coins": [{"d": 1, "a": "1000000000"}]}, {"kind": "deposit", "a": 1, "coins": [{"d": 2, "a": "100000000"}, {"d": 3, "a": "1000000000000000000000"}]}, {"kind": "borrow", "a": 1, "coins": [{"d": 1, "a": "159000000"}]}, {"kind": "withdraw", "a": 1, "coins": [{"d": 3, "a": "1000000000000000000"}]}, {"kind": "block", "t": 86400}, {"kind": "block", "t": 31536000}, {"kind": "withdraw", "a": 1, "coins": [{"d": 3, "a": "999000000000000000000"}]}, {"kind": "withdraw", "a": 1, "coins": [{"d": 3, "a": "1"}]}, {"kind": "borrow", "a": 1, "coins": [{"d": 1, "a": "1"}]}, {"kind": "liquidate", "a": 2, "b": 1}]}`

func wideFixedHists() []Hist {
	var out []Hist
	for _, js := range []string{witnessOverLimitZeroLtv} {
		var h Hist
		if err := json.Unmarshal([]byte(js), &h); err != nil {
			panic(err)
		}
		out = append(out, h)
	}
	return out
}
