package c08

// Configuration diversity (task B10): a wider generator of VALID MoneyMarket parameter sets
// (loan-to-value 0 and 1, reserve factor 0 and 1, keeper reward 0 / 1 / different per market,
// binding and absent global borrow limits, minimum borrow 0 and large, conversion factors
// 1 / 10^6 / 10^8 / 10^18, flat and steep interest models with the kink at 0 and at 1, spot
// markets shared between denoms) and streams directed at what those parameters gate:
//   - positions pushed over their limit by a price move, by accrued interest or by a lowered
//     loan-to-value, and then every kind of withdrawal / borrow / repayment / deposit from them;
//   - withdrawals and repayments of the exact synced amount and one unit either side;
//   - liquidations of positions that hold zero-LTV collateral;
//   - borrows at the global borrow limit and at the minimum borrow value.

import (
	. "kavaverif/lib"

	"errors"
	"fmt"
	"math/big"
	"os"

	sdkmath "cosmossdk.io/math"
	sdk "github.com/cosmos/cosmos-sdk/types"
	sdkerrors "github.com/cosmos/cosmos-sdk/types/errors"

	hardtypes "github.com/kava-labs/kava/x/hard/types"
	pftypes "github.com/kava-labs/kava/x/pricefeed/types"
)

// ------------------------------------------------------------ position status

const (
	stNone   = 0 // no borrow, no deposit, or the range check reports an error
	stWithin = 1
	stOver   = 2
)

// status: for every user, whether the position (after the interest sync every handler
// performs first) is within its loan-to-value range; computed on a discarded branch and cached
// until the next operation.  Used by the generator and the counters only, never by a monitor.
func (w *world) status() []int {
	if w.statSeq == w.opSeq && w.statCache != nil {
		return w.statCache
	}
	out := make([]int, nU)
	for u := 0; u < nU; u++ {
		func() {
			defer func() { _ = recover() }()
			a := w.addrs[u]
			if _, ok := w.hk.GetBorrow(w.ctx, a); !ok {
				return
			}
			ctx, _ := w.ctx.CacheContext()
			w.hk.SyncBorrowInterest(ctx, a)
			w.hk.SyncSupplyInterest(ctx, a)
			d, hd := w.hk.GetDeposit(ctx, a)
			b, hb := w.hk.GetBorrow(ctx, a)
			if !hd || !hb {
				return
			}
			in, err := w.hk.IsWithinValidLtvRange(ctx, d, b)
			if err != nil {
				return
			}
			if in {
				out[u] = stWithin
			} else {
				out[u] = stOver
			}
		}()
	}
	w.statSeq, w.statCache = w.opSeq, out
	return out
}

func (w *world) usersOver() []int {
	var out []int
	for u, s := range w.status() {
		if s == stOver {
			out = append(out, u)
		}
	}
	return out
}

// storeMarket reads the money-market store (what the handlers use)
func (w *world) storeMarket(d int) (hardtypes.MoneyMarket, bool) {
	if d >= nMkt {
		return hardtypes.MoneyMarket{}, false
	}
	return w.hk.GetMoneyMarket(w.ctx, denoms[d])
}

func (w *world) ltvZero(d int) bool {
	m, ok := w.storeMarket(d)
	return ok && m.BorrowLimit.LoanToValue.IsZero()
}

// ------------------------------------------------------------ parameter shapes

func usdUnits(cf, price string, usd int64) *big.Int {
	p := dec(price).BigInt()
	if p.Sign() == 0 {
		return big.NewInt(usd)
	}
	x := new(big.Int).Mul(bigOf(cf), prec)
	x.Mul(x, big.NewInt(usd))
	return x.Quo(x, p)
}

// smallLimit: a global borrow limit worth about 15 .. 2000 USD at the initial price, so that it
// binds in ordinary histories; MaximumLimit is a Dec, sometimes with a fractional part
func smallLimit(r *Rng, cf, price string) string {
	u := usdUnits(cf, price, []int64{15, 60, 250, 1000, 2000}[r.Intn(5)])
	u.Add(u, big.NewInt(int64(r.Intn(3))))
	s := u.String()
	if r.Chance(1, 3) {
		s += pick(r, ".5", ".000000000000000001", ".999999999999999999")
	} else {
		s += ".0"
	}
	return s
}

func (g *gen) shapeDiverse(d int, m *MarketCfg) {
	r := g.r
	m.CF = pick(r, "1", "1000000", "100000000", "1000000000000000000")
	m.LTV = pick(r, "0.0", "1.0", "0.5", "0.8", "0.75", "0.333333333333333333", "0.999999999999999999", "0.000000000000000001", "0.6")
	m.Reserve = pick(r, "0.0", "1.0", "0.05", "0.5", "0.1", "0.025")
	m.Keeper = pick(r, "0.0", "1.0", "0.05", "0.5", "0.01", "0.000000000000000001", "0.1")
	switch r.Pick(22, 22, 12, 44) {
	case 0: // flat: no interest at any utilisation
		m.Base, m.Mult, m.Jump = "0.0", "0.0", "0.0"
	case 1: // steep (1 + APY stays far below the APYToSPY bound of 179)
		m.Base, m.Mult, m.Jump = pick(r, "1.0", "0.5"), pick(r, "3.0", "20.0"), pick(r, "10.0", "100.0")
	case 2: // constant rate: zero slopes, positive base
		m.Base, m.Mult, m.Jump = pick(r, "0.05", "0.3", "1.0"), "0.0", "0.0"
	default:
		m.Base, m.Mult, m.Jump = pick(r, "0.0", "0.05", "0.5"), pick(r, "0.1", "1.0", "2.0"), pick(r, "0.5", "5.0")
	}
	m.Kink = pick(r, "0.0", "1.0", "0.8", "0.5")
	m.HasMax, m.Max = false, "0.0"
	if r.Chance(1, 3) {
		m.HasMax = true
		m.Max = smallLimit(r, m.CF, g.cfg.Prices[d])
	}
}

// shareSpot makes two money markets use one pricefeed market; avoid lists pairs that must keep
// separate prices (a script that moves one against the other)
func (g *gen) shareSpot(avoid [][2]int) {
	r := g.r
	for try := 0; try < 6; try++ {
		a := r.Intn(nMkt)
		b := r.Intn(nMkt)
		if a == b {
			continue
		}
		if a > b {
			a, b = b, a
		}
		bad := false
		for _, p := range avoid {
			if (p[0] == a && p[1] == b) || (p[0] == b && p[1] == a) {
				bad = true
			}
		}
		if bad {
			continue
		}
		g.cfg.Spot = make([]int, nMkt)
		for d := range g.cfg.Spot {
			g.cfg.Spot[d] = d
		}
		g.cfg.Spot[b] = a
		g.cfg.Prices[b] = g.cfg.Prices[a]
		return
	}
}

// ------------------------------------------------------------ amounts

func syncedAmt(s *snap, side int, u, d int) *big.Int {
	rs, ss := s.dep, s.sdep
	if side == 1 {
		rs, ss = s.bor, s.sbor
	}
	if ss[u].kind == 2 {
		return ss[u].amt[d]
	}
	if rs[u] != nil {
		return rs[u].amt[d]
	}
	return new(big.Int)
}

// globalRoom: how much of denom d can still be borrowed under the market's global limit
// (floor(MaximumLimit) - total borrowed); nil when the market has no limit
func (w *world) globalRoom(s *snap, d int) *big.Int {
	m, ok := w.storeMarket(d)
	if !ok || !m.BorrowLimit.HasMaxLimit {
		return nil
	}
	return new(big.Int).Sub(m.BorrowLimit.MaximumLimit.TruncateInt().BigInt(), s.tbor[d])
}

// minBorrowAmt: the smallest amount of denom d that user u may borrow as far as the minimum
// borrow value is concerned (bisection on the real ValidateBorrow after the handler's sync, on
// a discarded branch); nil when even the module's cash is below the minimum
func (w *world) minBorrowAmt(u, d int) *big.Int {
	ctx, _ := w.ctx.CacheContext()
	func() {
		defer func() { _ = recover() }()
		w.hk.SyncSupplyInterest(ctx, w.addrs[u])
		w.hk.SyncBorrowInterest(ctx, w.addrs[u])
	}()
	below := func(x *big.Int) (res bool) {
		defer func() {
			if r := recover(); r != nil {
				res = true
			}
		}()
		err := w.hk.ValidateBorrow(ctx, w.addrs[u], sdk.NewCoins(sdk.NewCoin(denoms[d], sdkmath.NewIntFromBigInt(x))))
		return errors.Is(err, hardtypes.ErrBelowMinimumBorrowValue)
	}
	hi := w.tApp.GetBankKeeper().GetBalance(ctx, w.addrs[hardAcc], denoms[d]).Amount.BigInt()
	if tr, found := w.hk.GetTotalReserves(ctx); found {
		hi = new(big.Int).Sub(hi, tr.AmountOf(denoms[d]).BigInt())
	}
	if hi.Sign() <= 0 || below(hi) {
		return nil
	}
	lo := big.NewInt(0) // "below" (a borrow of nothing is refused earlier; treat as below)
	if !below(big.NewInt(1)) {
		return big.NewInt(1)
	}
	lo.SetInt64(1)
	for new(big.Int).Sub(hi, lo).Cmp(big.NewInt(1)) > 0 {
		mid := new(big.Int).Add(lo, hi)
		mid.Rsh(mid, 1)
		if below(mid) {
			lo = mid
		} else {
			hi = mid
		}
	}
	return hi
}

func sortCoins(cs []Coin) []Coin {
	for i := 1; i < len(cs); i++ {
		for j := i; j > 0 && cs[j].D < cs[j-1].D; j-- {
			cs[j], cs[j-1] = cs[j-1], cs[j]
		}
	}
	return cs
}

// ------------------------------------------------------------ probes from an over-limit position

// genProbe: one operation by / on user u, whose position is outside its range: every kind of
// withdrawal (zero-LTV denoms only, a positive-LTV denom, mixed, everything), borrows, a
// repayment, a deposit, a liquidation.
func (g *gen) genProbe(w *world, s *snap, u int) Op {
	r := g.r
	var zs, ps []int
	for d := 0; d < nMkt; d++ {
		if syncedAmt(s, 0, u, d).Sign() > 0 {
			if w.ltvZero(d) {
				zs = append(zs, d)
			} else {
				ps = append(ps, d)
			}
		}
	}
	amtOf := func(d int) *big.Int {
		cur := syncedAmt(s, 0, u, d)
		switch r.Intn(6) {
		case 0:
			return big.NewInt(1)
		case 1:
			return new(big.Int).Rsh(cur, 1)
		case 2:
			return new(big.Int).Sub(cur, big.NewInt(1))
		case 3:
			return new(big.Int).Set(cur)
		case 4:
			return new(big.Int).Add(cur, big.NewInt(1))
		}
		return new(big.Int).Mul(cur, big.NewInt(1000))
	}
	k := r.Pick(30, 12, 12, 6, 12, 8, 6, 14)
	if k == 0 && len(zs) == 0 {
		k = 1
	}
	if k == 2 && (len(zs) == 0 || len(ps) == 0) {
		k = 3
	}
	if (k == 1 || k == 3) && len(zs)+len(ps) == 0 {
		k = 4
	}
	switch k {
	case 0: // zero-LTV denoms only
		g.tag = "ol:withdraw-zero-ltv"
		d := zs[r.Intn(len(zs))]
		cs := one(d, amtOf(d))
		if len(zs) > 1 && r.Chance(1, 2) {
			cs = nil
			for _, d := range zs {
				cs = append(cs, one(d, amtOf(d))...)
			}
		}
		return Op{Kind: "withdraw", A: u, Coins: sortCoins(cs)}
	case 1: // one denom that carries borrowing power (or whatever is there)
		g.tag = "ol:withdraw-positive-ltv"
		ds := ps
		if len(ds) == 0 {
			ds = zs
		}
		d := ds[r.Intn(len(ds))]
		return Op{Kind: "withdraw", A: u, Coins: one(d, amtOf(d))}
	case 2:
		g.tag = "ol:withdraw-mixed"
		dz, dp := zs[r.Intn(len(zs))], ps[r.Intn(len(ps))]
		return Op{Kind: "withdraw", A: u, Coins: sortCoins(append(one(dz, amtOf(dz)), one(dp, amtOf(dp))...))}
	case 3:
		g.tag = "ol:withdraw-everything"
		var cs []Coin
		for _, d := range append(append([]int{}, zs...), ps...) {
			cs = append(cs, one(d, new(big.Int).Mul(syncedAmt(s, 0, u, d), big.NewInt(1000)))...)
		}
		return Op{Kind: "withdraw", A: u, Coins: sortCoins(cs)}
	case 4:
		g.tag = "ol:borrow"
		d := g.mktDenom()
		for k := 0; k < 4 && s.bal[hardAcc][d].Cmp(s.tres[d]) <= 0; k++ {
			d = g.mktDenom()
		}
		a := big.NewInt(1)
		if r.Chance(1, 2) {
			a = w.unitsFor(s, d, int64(1+r.Intn(20)), 1)
		}
		return Op{Kind: "borrow", A: u, Coins: one(d, a)}
	case 5:
		g.tag = "ol:repay"
		ds := denomsOf(syncedVec(s, 1, u))
		if len(ds) == 0 {
			return Op{Kind: "liquidate", A: (u + 1) % nU, B: u}
		}
		d := ds[r.Intn(len(ds))]
		cur := syncedAmt(s, 1, u, d)
		a := new(big.Int).Quo(new(big.Int).Mul(cur, big.NewInt(int64(1+r.Intn(30)))), big.NewInt(100))
		return Op{Kind: "repay", A: u, B: u, Coins: one(d, a)}
	case 6:
		g.tag = "ol:deposit"
		d := g.mktDenom()
		if len(zs) > 0 && r.Chance(2, 3) {
			d = zs[r.Intn(len(zs))]
		}
		return Op{Kind: "deposit", A: u, Coins: one(d, w.unitsFor(s, d, int64(1+r.Intn(10)), 1))}
	}
	g.tag = "ol:liquidate"
	k2 := g.anyUser()
	if k2 == u && r.Chance(2, 3) { // sometimes the borrower liquidates himself
		k2 = (u + 1) % nU
	}
	return Op{Kind: "liquidate", A: k2, B: u}
}

func syncedVec(s *snap, side int, u int) []*big.Int {
	out := make([]*big.Int, nD)
	for d := 0; d < nD; d++ {
		out[d] = syncedAmt(s, side, u, d)
	}
	return out
}

// ------------------------------------------------------------ scripted prefixes

func perm4(r *Rng) [4]int {
	p := [4]int{0, 1, 2, 3}
	for i := 3; i > 0; i-- {
		j := r.Intn(i + 1)
		p[i], p[j] = p[j], p[i]
	}
	return p
}

func tagged(op Op, tag string) Op { op.X2 = tag; return op }

// over limit: user 1 holds collateral with borrowing power (c1) and zero-LTV collateral (z) and
// borrows b up to the limit; a price move, accrued interest or a lowered loan-to-value takes
// the position over its limit; then the probes, and usually a liquidation that seizes both
// collaterals.
func (g *gen) scriptOverLimit() (avoid [][2]int) {
	r := g.r
	p := perm4(r)
	c1, z, b := p[0], p[1], p[2]
	g.cfg.Markets[c1].LTV = pick(r, "0.5", "0.8", "0.75", "1.0", "0.6", "0.333333333333333333")
	g.cfg.Markets[z].LTV = "0.0"
	g.cfg.Markets[b].HasMax = false
	g.cfg.MinBorrow = pick(r, "0.0", "10.0", "1.0")
	switch r.Intn(6) { // the keeper's share of the seized collateral: everything, nothing
	case 0:
		g.cfg.Markets[[]int{c1, z}[r.Intn(2)]].Keeper = "1.0"
	case 1:
		g.cfg.Markets[[]int{c1, z}[r.Intn(2)]].Keeper = "0.0"
	}
	cause := r.Pick(30, 15, 35, 20) // collateral price down, debt price up, interest, loan-to-value lowered
	if cause == 2 {
		g.cfg.Markets[b].Base = pick(r, "0.5", "1.0", "0.3")
	}
	x := int64(100 + r.Intn(4000))
	y := int64(10 + r.Intn(3000))
	nProbe := 5 + r.Intn(4)
	oneMsg := r.Chance(1, 2)
	steps := []func(w *world, s *snap) (Op, bool){
		stepOf(func(w *world, s *snap) Op {
			return Op{Kind: "deposit", A: 0, Coins: one(b, w.unitsFor(s, b, 3*x+50, 1))}
		}),
	}
	if oneMsg {
		steps = append(steps, stepOf(func(w *world, s *snap) Op {
			return Op{Kind: "deposit", A: 1, Coins: sortCoins(append(one(c1, w.unitsFor(s, c1, x, 1)), one(z, w.unitsFor(s, z, y, 1))...))}
		}))
	} else {
		steps = append(steps,
			stepOf(func(w *world, s *snap) Op { return Op{Kind: "deposit", A: 1, Coins: one(z, w.unitsFor(s, z, y, 1))} }),
			stepOf(func(w *world, s *snap) Op { return Op{Kind: "deposit", A: 1, Coins: one(c1, w.unitsFor(s, c1, x, 1))} }))
	}
	steps = append(steps, stepOf(func(w *world, s *snap) Op {
		mx := w.maxBorrow(1, b)
		switch r.Intn(4) {
		case 0:
			return tagged(Op{Kind: "borrow", A: 1, Coins: one(b, new(big.Int).Sub(mx, big.NewInt(1)))}, "boundary-1")
		case 1:
			f := new(big.Int).Quo(new(big.Int).Mul(mx, big.NewInt(int64(90+r.Intn(10)))), big.NewInt(100))
			return tagged(Op{Kind: "borrow", A: 1, Coins: one(b, f)}, "fraction")
		}
		return tagged(Op{Kind: "borrow", A: 1, Coins: one(b, mx)}, "boundary+0")
	}))
	if r.Chance(1, 2) { // while the position is within its limit the zero-LTV collateral is free to go
		steps = append(steps, stepOf(func(w *world, s *snap) Op {
			a := new(big.Int).Quo(syncedAmt(s, 0, 1, z), big.NewInt(int64(2+r.Intn(20))))
			return tagged(Op{Kind: "withdraw", A: 1, Coins: one(z, a)}, "zero-ltv-healthy")
		}))
	}
	switch cause {
	case 0:
		avoid = append(avoid, [2]int{c1, b})
		steps = append(steps, stepOf(func(w *world, s *snap) Op {
			np := new(big.Int).Quo(new(big.Int).Mul(s.price[c1], big.NewInt(int64(400+r.Intn(590)))), big.NewInt(1000))
			return Op{Kind: "price", D: c1, X: np.String()}
		}))
	case 1:
		avoid = append(avoid, [2]int{c1, b})
		steps = append(steps, stepOf(func(w *world, s *snap) Op {
			np := new(big.Int).Quo(new(big.Int).Mul(s.price[b], big.NewInt(int64(1010+r.Intn(1500)))), big.NewInt(1000))
			return Op{Kind: "price", D: b, X: np.String()}
		}))
	case 2:
		steps = append(steps,
			stepOf(func(w *world, s *snap) Op { return Op{Kind: "block", T: int64(1+r.Intn(30)) * 86400} }),
			stepOf(func(w *world, s *snap) Op { return Op{Kind: "block", T: int64(30+r.Intn(336)) * 86400} }))
	default:
		steps = append(steps,
			stepOf(func(w *world, s *snap) Op {
				mk := copyMarkets(w.cur)
				m := *mk[c1]
				m.LTV = sdk.NewDecFromBigIntWithPrec(new(big.Int).Quo(new(big.Int).Mul(decMant(m.LTV), big.NewInt(int64(300+r.Intn(650)))), big.NewInt(1000)), 18).String()
				mk[c1] = &m
				return Op{Kind: "params", Mk: mk, X2: "ltv"}
			}),
			stepOf(func(w *world, s *snap) Op { return Op{Kind: "block", T: []int64{0, 1, 6, 3600}[r.Intn(4)]} }))
	}
	for i := 0; i < nProbe; i++ {
		steps = append(steps, func(w *world, s *snap) (Op, bool) {
			if w.status()[1] != stOver {
				return Op{}, false
			}
			g.tag = ""
			op := g.genProbe(w, s, 1)
			if op.Kind == "liquidate" { // keep the position for the other probes; the script ends with a liquidation
				op = Op{Kind: "withdraw", A: 1, Coins: one(z, syncedAmt(s, 0, 1, z))}
				g.tag = "ol:withdraw-zero-ltv"
			}
			op.X2 = g.tag
			return op, true
		})
	}
	if r.Chance(3, 4) {
		steps = append(steps, stepOf(func(w *world, s *snap) Op { return tagged(Op{Kind: "liquidate", A: 2, B: 1}, "ol:liquidate") }))
	}
	g.script = steps
	return
}

// exact synced amounts: after interest accrued, a supplier withdraws and the borrower repays
// exactly what GetSyncedDeposit / GetSyncedBorrow report, or one unit more or less.
func (g *gen) scriptExactSynced() {
	r := g.r
	p := perm4(r)
	a, col := p[0], p[1]
	g.cfg.Markets[a].Base = pick(r, "0.05", "0.5", "1.0")
	g.cfg.Markets[a].HasMax, g.cfg.Markets[col].HasMax = false, false
	if dec(g.cfg.Markets[col].LTV).LT(dec("0.3")) {
		g.cfg.Markets[col].LTV = pick(r, "0.8", "0.75", "1.0")
	}
	if dec(g.cfg.Markets[a].Reserve).Equal(sdk.OneDec()) { // with a reserve factor of one suppliers earn nothing
		g.cfg.Markets[a].Reserve = pick(r, "0.0", "0.05", "0.5")
	}
	g.cfg.MinBorrow = pick(r, "0.0", "0.0", "10.0")
	x := int64(400 + r.Intn(4000))
	used := map[string]bool{}
	off := func(kind string) int64 { // the first withdrawal and the first repayment are exact
		if !used[kind] {
			used[kind] = true
			return 0
		}
		return int64(r.Intn(3) - 1)
	}
	syn := func(side, u int, kind string, sender int) func(w *world, s *snap) (Op, bool) {
		return func(w *world, s *snap) (Op, bool) {
			cur := syncedAmt(s, side, u, a)
			if cur.Sign() == 0 {
				return Op{}, false
			}
			o := off(kind)
			op := Op{Kind: kind, A: sender, B: u, Coins: one(a, new(big.Int).Add(cur, big.NewInt(o)))}
			if kind == "withdraw" {
				op.B = 0
			}
			return tagged(op, fmt.Sprintf("synced%+d", o)), true
		}
	}
	g.script = []func(w *world, s *snap) (Op, bool){
		stepOf(func(w *world, s *snap) Op { return Op{Kind: "deposit", A: 0, Coins: one(a, w.unitsFor(s, a, x, 1))} }),
		stepOf(func(w *world, s *snap) Op {
			return Op{Kind: "deposit", A: 2, Coins: one(a, jitter(r, w.unitsFor(s, a, x/5, 1), 3))}
		}),
		stepOf(func(w *world, s *snap) Op {
			return Op{Kind: "deposit", A: 1, Coins: one(col, w.unitsFor(s, col, 4*x, 1))}
		}),
		stepOf(func(w *world, s *snap) Op {
			return Op{Kind: "borrow", A: 1, Coins: one(a, jitter(r, w.unitsFor(s, a, x/2, 1), 3))}
		}),
		stepOf(func(w *world, s *snap) Op { return Op{Kind: "block", T: int64(1+r.Intn(30)) * 86400} }),
		stepOf(func(w *world, s *snap) Op { return Op{Kind: "block", T: int64(20+r.Intn(400)) * 86400} }),
		syn(0, 2, "withdraw", 2),
		syn(1, 1, "repay", []int{1, 1, 0}[r.Intn(3)]),
		stepOf(func(w *world, s *snap) Op { return Op{Kind: "block", T: int64(1+r.Intn(60)) * 86400} }),
		syn(1, 1, "repay", 1),
		syn(0, 2, "withdraw", 2),
		syn(0, 0, "withdraw", 0),
	}
}

// global limit: the borrowed market has a small MaximumLimit; borrows exactly up to it, one unit
// beyond, then interest takes the total over the limit, a repayment makes room again.
func (g *gen) scriptGlobalLimit() {
	r := g.r
	p := perm4(r)
	b, col := p[0], p[1]
	g.cfg.Markets[b].HasMax = true
	g.cfg.Markets[b].Max = smallLimit(r, g.cfg.Markets[b].CF, g.cfg.Prices[b])
	if g.cfg.Markets[b].Base == "0.0" {
		g.cfg.Markets[b].Base = pick(r, "0.05", "0.5")
	}
	if dec(g.cfg.Markets[col].LTV).LT(dec("0.3")) {
		g.cfg.Markets[col].LTV = pick(r, "0.8", "0.75", "1.0")
	}
	g.cfg.MinBorrow = pick(r, "0.0", "0.0", "10.0")
	room := func(w *world, s *snap, u int, o int64) (Op, bool) {
		rm := w.globalRoom(s, b)
		if rm == nil {
			return Op{}, false
		}
		return tagged(Op{Kind: "borrow", A: u, Coins: one(b, new(big.Int).Add(rm, big.NewInt(o)))}, fmt.Sprintf("global%+d", o)), true
	}
	lim := func(w *world) *big.Int {
		m, ok := w.storeMarket(b)
		if !ok {
			return big.NewInt(1)
		}
		return m.BorrowLimit.MaximumLimit.TruncateInt().BigInt()
	}
	g.script = []func(w *world, s *snap) (Op, bool){
		stepOf(func(w *world, s *snap) Op {
			return Op{Kind: "deposit", A: 0, Coins: one(b, new(big.Int).Mul(lim(w), big.NewInt(int64(3+r.Intn(8)))))}
		}),
		stepOf(func(w *world, s *snap) Op {
			return Op{Kind: "deposit", A: 1, Coins: one(col, w.unitsFor(s, col, 100000, 1))}
		}),
		stepOf(func(w *world, s *snap) Op {
			return Op{Kind: "deposit", A: 2, Coins: one(col, w.unitsFor(s, col, 100000, 1))}
		}),
		stepOf(func(w *world, s *snap) Op {
			f := new(big.Int).Quo(new(big.Int).Mul(lim(w), big.NewInt(int64(30+r.Intn(40)))), big.NewInt(100))
			return tagged(Op{Kind: "borrow", A: 1, Coins: one(b, f)}, "fraction")
		}),
		func(w *world, s *snap) (Op, bool) { return room(w, s, 2, []int64{1, 2, 1}[r.Intn(3)]) },
		func(w *world, s *snap) (Op, bool) { return room(w, s, 2, []int64{0, 0, -1}[r.Intn(3)]) },
		func(w *world, s *snap) (Op, bool) { return room(w, s, 1, 1) },
		stepOf(func(w *world, s *snap) Op { return Op{Kind: "block", T: int64(1+r.Intn(30)) * 86400} }),
		stepOf(func(w *world, s *snap) Op { return Op{Kind: "block", T: int64(30+r.Intn(300)) * 86400} }),
		stepOf(func(w *world, s *snap) Op {
			return tagged(Op{Kind: "borrow", A: 1, Coins: one(b, big.NewInt(1))}, "global-over")
		}),
		stepOf(func(w *world, s *snap) Op {
			cur := syncedAmt(s, 1, 2, b)
			return Op{Kind: "repay", A: 2, B: 2, Coins: one(b, new(big.Int).Quo(cur, big.NewInt(int64(1+r.Intn(3)))))}
		}),
		func(w *world, s *snap) (Op, bool) { return room(w, s, 1, []int64{0, 1}[r.Intn(2)]) },
	}
}

// minimum borrow: a large MinimumBorrowUSDValue; borrows one unit below and exactly at it,
// repayments that would leave less than the minimum, a full repayment.
func (g *gen) scriptMinBorrow() {
	r := g.r
	p := perm4(r)
	b, col := p[0], p[1]
	g.cfg.MinBorrow = pick(r, "100.0", "1000.0", "10.0", "250.5")
	g.cfg.Markets[b].HasMax = false
	if dec(g.cfg.Markets[col].LTV).LT(dec("0.3")) {
		g.cfg.Markets[col].LTV = pick(r, "0.8", "0.75", "1.0")
	}
	at := func(o int64) func(w *world, s *snap) (Op, bool) {
		return func(w *world, s *snap) (Op, bool) {
			mn := w.minBorrowAmt(1, b)
			if mn == nil {
				return Op{}, false
			}
			return tagged(Op{Kind: "borrow", A: 1, Coins: one(b, new(big.Int).Add(mn, big.NewInt(o)))}, fmt.Sprintf("min%+d", o)), true
		}
	}
	g.script = []func(w *world, s *snap) (Op, bool){
		stepOf(func(w *world, s *snap) Op {
			return Op{Kind: "deposit", A: 0, Coins: one(b, w.unitsFor(s, b, 20000, 1))}
		}),
		stepOf(func(w *world, s *snap) Op {
			return Op{Kind: "deposit", A: 1, Coins: one(col, w.unitsFor(s, col, 50000, 1))}
		}),
		at(-1),
		at(int64(r.Intn(2))),
		stepOf(func(w *world, s *snap) Op {
			return tagged(Op{Kind: "repay", A: 1, B: 1, Coins: one(b, big.NewInt(int64(1+r.Intn(3))))}, "dust")
		}),
		stepOf(func(w *world, s *snap) Op {
			return Op{Kind: "borrow", A: 1, Coins: one(b, w.unitsFor(s, b, int64(1+r.Intn(50)), 1))}
		}),
		stepOf(func(w *world, s *snap) Op {
			cur := syncedAmt(s, 1, 1, b)
			return tagged(Op{Kind: "repay", A: 1, B: 1, Coins: one(b, new(big.Int).Sub(cur, big.NewInt(int64(1+r.Intn(3)))))}, "dust")
		}),
		stepOf(func(w *world, s *snap) Op { return Op{Kind: "block", T: int64(1+r.Intn(30)) * 86400} }),
		stepOf(func(w *world, s *snap) Op {
			return tagged(Op{Kind: "repay", A: 1, B: 1, Coins: one(b, new(big.Int).Mul(syncedAmt(s, 1, 1, b), big.NewInt(1000)))}, "all")
		}),
	}
}

// ------------------------------------------------------------ which gate refused

var gateErrs = []struct {
	name string
	err  error
}{
	{"outside-ltv-range", hardtypes.ErrInvalidWithdrawAmount},
	{"insufficient-ltv", hardtypes.ErrInsufficientLoanToValue},
	{"below-minimum-borrow", hardtypes.ErrBelowMinimumBorrowValue},
	{"global-borrow-limit", hardtypes.ErrGreaterThanAssetBorrowLimit},
	{"exceeds-borrowable-cash", hardtypes.ErrExceedsProtocolBorrowableBalance},
	{"reserves-exceed-cash", hardtypes.ErrReservesExceedCash},
	{"exceeds-module-balance", hardtypes.ErrBorrowExceedsAvailableBalance},
	{"no-deposits", hardtypes.ErrDepositsNotFound},
	{"deposit-not-found", hardtypes.ErrDepositNotFound},
	{"borrow-not-found", hardtypes.ErrBorrowNotFound},
	{"denom-not-deposited", hardtypes.ErrInvalidWithdrawDenom},
	{"denom-not-borrowed", hardtypes.ErrInvalidRepaymentDenom},
	{"insufficient-balance-for-repay", hardtypes.ErrInsufficientBalanceForRepay},
	{"not-liquidatable", hardtypes.ErrBorrowNotLiquidatable},
	{"no-price", hardtypes.ErrPriceNotFound},
	{"no-market", hardtypes.ErrMarketNotFound},
	{"invalid-deposit-denom", hardtypes.ErrInvalidDepositDenom},
	{"insufficient-coins-for-auction", hardtypes.ErrInsufficientCoins},
	{"no-price", pftypes.ErrNoValidPrice},
	{"insufficient-funds", sdkerrors.ErrInsufficientFunds},
	{"invalid-coins", sdkerrors.ErrInvalidCoins},
}

func gateOf(err error) string {
	for _, g := range gateErrs {
		if errors.Is(err, g.err) {
			return g.name
		}
	}
	return "other"
}

func cfClass(cf *big.Int) string {
	switch cf.String() {
	case "1":
		return "1"
	case "1000000":
		return "1e6"
	case "100000000":
		return "1e8"
	case "1000000000000000000":
		return "1e18"
	}
	return "other"
}

// countCfg counts the parameter shapes of a history's initial configuration
func countCfg(cfg Cfg, mark func(string)) {
	keepers := map[string]bool{}
	for d := 0; d < nMkt; d++ {
		m := cfg.Markets[d]
		one := sdk.OneDec()
		if dec(m.LTV).IsZero() {
			mark("cfg:ltv-zero")
		}
		if dec(m.LTV).Equal(one) {
			mark("cfg:ltv-one")
		}
		if dec(m.Reserve).IsZero() {
			mark("cfg:reserve-zero")
		}
		if dec(m.Reserve).Equal(one) {
			mark("cfg:reserve-one")
		}
		if dec(m.Keeper).IsZero() {
			mark("cfg:keeper-zero")
		}
		if dec(m.Keeper).Equal(one) {
			mark("cfg:keeper-one")
		}
		keepers[dec(m.Keeper).String()] = true
		if m.HasMax {
			mark("cfg:has-max-limit")
		} else {
			mark("cfg:no-max-limit")
		}
		mark("cfg:cf-" + cfClass(bigOf(m.CF)))
		if dec(m.Mult).IsZero() && dec(m.Jump).IsZero() {
			mark("cfg:model-zero-slopes")
		}
		if dec(m.Mult).GTE(dec("3.0")) && dec(m.Jump).GTE(dec("10.0")) {
			mark("cfg:model-steep")
		}
		if dec(m.Kink).IsZero() {
			mark("cfg:kink-zero")
		}
		if dec(m.Kink).Equal(one) {
			mark("cfg:kink-one")
		}
		if cfg.spot(d) != d {
			mark("cfg:shared-spot-market")
		}
	}
	if len(keepers) > 1 {
		mark("cfg:keeper-differs-per-market")
	}
	if dec(cfg.MinBorrow).IsZero() {
		mark("cfg:min-borrow-zero")
	}
	if dec(cfg.MinBorrow).GTE(dec("100.0")) {
		mark("cfg:min-borrow-large")
	}
}

// ------------------------------------------------------------ case splits of the wide streams

// countWide counts, from the implementation's observable state only, which of the wide case
// splits an executed operation fell into.
func (w *world) countWide(op Op, cls Class, err error, p *pre, before, after *snap, mark func(string)) {
	ok := cls == ClassOk
	tag := op.X2
	one := sdk.OneDec()
	coins := vecOf(nil)
	validCoins := false
	if op.Kind == "deposit" || op.Kind == "withdraw" || op.Kind == "borrow" || op.Kind == "repay" {
		func() {
			defer func() { _ = recover() }()
			cs := mkCoins(op.Coins)
			if cs.Validate() == nil && len(cs) > 0 {
				coins = vecOf(cs)
				validCoins = true
			}
		}()
	}
	ltvOf := func(d int) *sdk.Dec {
		if d < nMkt && p.mk[d] != nil {
			return &p.mk[d].BorrowLimit.LoanToValue
		}
		return nil
	}
	// which gate refused
	if cls == ClassErr && err != nil && tag != "malformed" && p.target >= 0 {
		mark("gate:" + op.Kind + ":" + gateOf(err))
		if gateOf(err) == "other" && os.Getenv("C08_DEBUG") != "" {
			fmt.Fprintf(os.Stderr, "other gate: %s %v: %v\n", op.Kind, op.Coins, err)
		}
	}

	// into and out of the range without the user's action
	now := w.status()
	for u := 0; u < nU; u++ {
		if p.stat[u] == stWithin && now[u] == stOver && ok {
			switch op.Kind {
			case "price":
				mark("overlimit:by-price")
				w.overCause[u] = "price"
			case "block":
				changed := false
				for d := 0; d < nMkt; d++ {
					if before.mkts[d] != after.mkts[d] {
						changed = true
					}
				}
				if changed {
					mark("overlimit:by-params-change")
					w.overCause[u] = "params"
				} else {
					mark("overlimit:by-interest")
					w.overCause[u] = "interest"
				}
			}
		}
	}

	over := p.target >= 0 && p.syncOK && p.hasDep && p.hasBor && !p.within && !p.withinErr
	if over && validCoins {
		switch op.Kind {
		case "withdraw":
			nz, np, inDep := 0, 0, true
			for d := 0; d < nD; d++ {
				if coins[d].Sign() == 0 {
					continue
				}
				if p.dep[d].Sign() == 0 {
					inDep = false
				}
				if l := ltvOf(d); l != nil && l.IsZero() {
					nz++
				} else {
					np++
				}
			}
			if inDep && !ok && errors.Is(err, hardtypes.ErrInvalidWithdrawAmount) {
				switch {
				case nz > 0 && np == 0:
					mark("overlimit:withdraw-zero-ltv-only:refused")
					if c := w.overCause[p.target]; c != "" {
						mark("overlimit:withdraw-zero-ltv-only:refused:after-" + c)
					}
				case nz == 0:
					mark("overlimit:withdraw-positive-ltv:refused")
				default:
					mark("overlimit:withdraw-mixed:refused")
				}
			}
			if ok {
				mark("overlimit:withdraw:ok") // never expected: the loan-to-value monitor reports it
			}
		case "borrow":
			if !ok && errors.Is(err, hardtypes.ErrInsufficientLoanToValue) {
				mark("overlimit:borrow:refused")
			}
		case "repay":
			if ok {
				mark("overlimit:repay:ok")
				if now[p.target] == stWithin {
					mark("overlimit:repay:cures")
				}
			}
		case "deposit":
			if ok {
				mark("overlimit:deposit:ok")
				if now[p.target] == stWithin {
					mark("overlimit:deposit:cures")
				}
			}
		}
	}
	if over && op.Kind == "liquidate" && ok {
		for d := 0; d < nMkt; d++ {
			if l := ltvOf(d); p.dep[d].Sign() > 0 && l != nil && l.IsZero() {
				mark("liq:zero-ltv-collateral-seized")
			}
		}
	}

	// zero and full loan-to-value where they act
	if p.target >= 0 && p.syncOK && validCoins {
		if op.Kind == "withdraw" && ok && p.hasBor {
			for d := 0; d < nMkt; d++ {
				if l := ltvOf(d); coins[d].Sign() > 0 && l != nil && l.IsZero() {
					mark("ltv0:withdraw-ok-while-borrowing")
				}
			}
		}
		if op.Kind == "borrow" && p.hasDep {
			allZero, anyOne := true, false
			for d := 0; d < nMkt; d++ {
				if p.dep[d].Sign() > 0 {
					l := ltvOf(d)
					if l == nil || !l.IsZero() {
						allZero = false
					}
					if l != nil && l.Equal(one) {
						anyOne = true
					}
				}
			}
			if allZero && !ok && errors.Is(err, hardtypes.ErrInsufficientLoanToValue) {
				mark("ltv0:sole-collateral-borrow-refused")
			}
			if anyOne && ok && (tag == "boundary+0" || tag == "boundary-1" || tag == "boundary-2") {
				mark("ltv1:borrow-at-boundary:ok")
			}
		}
	}

	// exact synced amounts (what GetSyncedDeposit / GetSyncedBorrow showed before the message)
	if len(tag) == 8 && tag[:6] == "synced" && (op.Kind == "withdraw" || op.Kind == "repay") {
		off := tag[6:]
		if off == "+0" || off == "+1" || off == "-1" {
			if ok {
				mark(op.Kind + ":synced" + off + ":ok")
				if off == "+0" && p.syncOK {
					rc, synced := before.dep, p.dep
					if op.Kind == "repay" {
						rc, synced = before.bor, p.bor
					}
					if rc[p.target] != nil && !vecEq(rc[p.target].amt, synced) {
						mark(op.Kind + ":synced-exact-after-interest:ok")
					}
				}
			}
		}
	}
	if op.Kind == "repay" && !ok && errors.Is(err, hardtypes.ErrBelowMinimumBorrowValue) {
		mark("repay:refused:dust-below-minimum")
	}

	// global borrow limit, minimum borrow value
	if op.Kind == "borrow" && len(tag) >= 8 && tag[:6] == "global" {
		off := tag[6:]
		if ok && (off == "+0" || off == "-1") {
			mark("borrow:global-limit:at-boundary:ok")
		}
		if !ok && errors.Is(err, hardtypes.ErrGreaterThanAssetBorrowLimit) {
			mark("borrow:global-limit:above:refused")
		}
	}
	if op.Kind == "borrow" && len(tag) == 5 && tag[:3] == "min" {
		off := tag[3:]
		if ok && off == "+0" {
			mark("borrow:min-borrow:at-boundary:ok")
		}
		if !ok && off == "-1" && errors.Is(err, hardtypes.ErrBelowMinimumBorrowValue) {
			mark("borrow:min-borrow:below:refused")
		}
	}
	if op.Kind == "borrow" && ok && validCoins {
		for d := 0; d < nMkt; d++ {
			if coins[d].Sign() > 0 && p.mk[d] != nil {
				mark("borrow:ok:cf-" + cfClass(p.mk[d].ConversionFactor.BigInt()))
			}
		}
		seen := map[int]bool{}
		for d := 0; d < nMkt; d++ {
			if after.dep[op.A] != nil && after.dep[op.A].amt[d].Sign() > 0 || after.bor[op.A] != nil && after.bor[op.A].amt[d].Sign() > 0 {
				if sp := w.cfg.spot(d); seen[sp] {
					mark("borrow:ok:position-shares-spot-market")
				} else {
					seen[sp] = true
				}
			}
		}
	}
	if op.Kind == "price" && len(w.cfg.sharers(op.D)) > 1 && tag != "shared-follow" {
		mark("price:shared-spot-market")
	}

	// interest under the parameter shapes
	if op.Kind == "block" && ok {
		for d := 0; d < nMkt; d++ {
			m := p.mk[d]
			if m == nil {
				continue
			}
			irm := m.InterestRateModel
			if after.tbor[d].Cmp(before.tbor[d]) > 0 {
				if m.ReserveFactor.Equal(one) {
					mark("accrue:reserve-factor-one")
				}
				if m.ReserveFactor.IsZero() {
					mark("accrue:reserve-factor-zero")
				}
				if irm.Kink.IsZero() {
					mark("accrue:kink-zero")
				}
				if irm.Kink.Equal(one) {
					mark("accrue:kink-one")
				}
				if irm.BaseMultiplier.GTE(dec("3.0")) && irm.JumpMultiplier.GTE(dec("10.0")) {
					mark("accrue:steep-model")
				}
				if m.BorrowLimit.HasMaxLimit && sdk.NewDecFromBigInt(after.tbor[d]).GT(m.BorrowLimit.MaximumLimit) && !sdk.NewDecFromBigInt(before.tbor[d]).GT(m.BorrowLimit.MaximumLimit) {
					mark("accrue:borrows-over-global-limit")
				}
			}
			if op.T > 0 && before.tbor[d].Sign() > 0 && irm.BaseRateAPY.IsZero() && irm.BaseMultiplier.IsZero() && irm.JumpMultiplier.IsZero() &&
				after.tbor[d].Cmp(before.tbor[d]) == 0 && before.prev[d] != nil && after.prev[d] != nil && before.prev[d].Cmp(after.prev[d]) != 0 {
				mark("accrue:zero-rate-model")
			}
		}
	}

	// keeper share shapes at a liquidation
	if op.Kind == "liquidate" && ok {
		shares := map[string]bool{}
		for d := 0; d < nMkt; d++ {
			if p.dep[d].Sign() > 0 && p.mk[d] != nil {
				k := p.mk[d].KeeperRewardPercentage
				shares[k.String()] = true
				if k.Equal(one) {
					mark("liq:keeper-share-one")
				}
				if k.IsZero() {
					mark("liq:keeper-share-zero")
				}
			}
		}
		if len(shares) > 1 {
			mark("liq:keeper-share-differs-per-denom")
		}
	}
}
