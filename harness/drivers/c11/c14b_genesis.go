package c11

// Genesis re-import histories for the C14b component of C14 (added for C14b; the
// C11 driver does not use this file): ordinary C11 histories (same world, same
// generator: savings deposits and withdrawals with several denoms, earn vaults on
// the savings strategy whose depositor is the earn module account) with in-place
// re-imports of the x/savings genesis at PRNG-chosen points,
//
//	gs := savings.ExportGenesis(branch of ctx); gs.Validate(); JSON round trip;
//	delete every key of the savings KV store and the module's parameters;
//	savings.InitGenesis(ctx, k, accountKeeper, gs)
//
// on the real keeper; the history continues on the re-imported store.  A second
// stream perturbs real exports one field at a time and compares the verdict of the
// real GenesisState.Validate / InitGenesis with the model's (Model/GenesisSavings.v).

import (
	. "kavaverif/lib"

	"bytes"
	"encoding/json"
	"fmt"
	"sort"
	"strings"

	sdkmath "cosmossdk.io/math"
	sdk "github.com/cosmos/cosmos-sdk/types"
	paramstypes "github.com/cosmos/cosmos-sdk/x/params/types"

	"github.com/kava-labs/kava/x/savings"
	savingstypes "github.com/kava-labs/kava/x/savings/types"
)

const GenesisHeader = "From Kava Require Import Base.Prelude Base.Dec Model.Savings Model.Earn Model.GenesisSavings."

var GenesisWanted = []string{
	"savings/reimport:ok", "savings/reimport:with-deposits", "savings/reimport:multi-denom-deposit", "savings/reimport:several-depositors",
	"savings/reimport:earn-module-account-is-a-depositor", "savings/reimport:empty-store",
	"savings/mutgen:valid=true", "savings/mutgen:valid=false", "savings/mutgen:init:ok", "savings/mutgen:invalid:init:panic",
}

type GenesisHist struct {
	Part string `json:"part"`
	Seed uint64 `json:"seed"`
	Idx  int    `json:"history"`
	Ops  []op   `json:"ops"`
}

func denomIdx11(s string) int {
	for i, d := range denoms {
		if d == s {
			return i
		}
	}
	return -1
}

func (w *world) coqSavGenesis(gs savingstypes.GenesisState, keepOrder bool) string {
	sup := make([]int, len(gs.Params.SupportedDenoms))
	for i, d := range gs.Params.SupportedDenoms {
		sup[i] = denomIdx11(d)
	}
	type rec struct {
		a int
		s string
	}
	var ds []rec
	for _, d := range gs.Deposits {
		a, ok := w.idx[d.Depositor.String()]
		if !ok {
			a = 99
		}
		cs := make([]string, len(d.Amount))
		for i, c := range d.Amount {
			x := "0"
			if !c.Amount.IsNil() {
				x = Z(c.Amount.BigInt())
			}
			cs[i] = fmt.Sprintf("(%s, %s)", Nat(denomIdx11(c.Denom)), x)
		}
		ds = append(ds, rec{a, fmt.Sprintf("(%s, %s)", Nat(a), List(cs))})
	}
	if !keepOrder {
		sort.Ints(sup)
		sort.SliceStable(ds, func(i, j int) bool { return ds[i].a < ds[j].a })
	}
	dl := make([]string, len(ds))
	for i := range ds {
		dl[i] = ds[i].s
	}
	return fmt.Sprintf("(mkGen %s %s)", natList(sup), List(dl))
}

func wipeSavParams(ctx sdk.Context, w *world) {
	st := ctx.KVStore(w.tApp.GetKVStoreKey(paramstypes.StoreKey))
	var keys [][]byte
	it := sdk.KVStorePrefixIterator(st, []byte(savingstypes.ModuleName+"/"))
	for ; it.Valid(); it.Next() {
		keys = append(keys, append([]byte(nil), it.Key()...))
	}
	it.Close()
	for _, k := range keys {
		st.Delete(k)
	}
}

func (w *world) savInvariants(ctx sdk.Context) (route, msg string) {
	defer func() {
		if r := recover(); r != nil {
			route, msg = "invariant-evaluation-panic", fmt.Sprint(r)
		}
	}()
	ck := w.tApp.GetCrisisKeeper()
	for _, r := range ck.Routes() {
		if r.ModuleName != savingstypes.ModuleName {
			continue
		}
		if m, broken := r.Invar(ctx); broken {
			return r.Route, m
		}
	}
	return "", ""
}

type savReimport struct {
	cls               Class
	genesis           string
	pred, sig, detail string
}

func (w *world) reimport(mark func(string)) savReimport {
	key := w.tApp.GetKVStoreKey(savingstypes.StoreKey)
	cdc := w.tApp.AppCodec()
	out := savReimport{genesis: "(mkGen [] [])"}
	stage := "export"
	set := func(p, s, d string) {
		if out.pred == "" {
			out.pred, out.sig, out.detail = p, s, d
		}
	}
	cls, err := Atomically(w.ctx, func(ctx sdk.Context) error {
		bctx, _ := ctx.CacheContext()
		gs := savings.ExportGenesis(bctx, w.sk)
		out.genesis = w.coqSavGenesis(gs, false)
		stage = "validate"
		if e := gs.Validate(); e != nil {
			set("savings-exported-genesis-validates", "savings-export-fails-validation", e.Error())
		}
		stage = "json"
		bz := cdc.MustMarshalJSON(&gs)
		var gs2 savingstypes.GenesisState
		cdc.MustUnmarshalJSON(bz, &gs2)
		dumpBefore := DumpStore(ctx, key)
		stage = "import"
		WipeStore(ctx, key)
		wipeSavParams(ctx, w)
		savings.InitGenesis(ctx, w.sk, w.tApp.GetAccountKeeper(), gs2)
		stage = "compare"
		if d := DiffDumps(dumpBefore, DumpStore(ctx, key), nil); len(d) > 0 {
			set("savings-store-identical-after-reimport", "savings-store-differs-after-reimport", strings.Join(d, "; "))
		}
		p2 := w.sk.GetParams(ctx)
		if !bytes.Equal(cdc.MustMarshalJSON(&p2), cdc.MustMarshalJSON(&gs.Params)) {
			set("savings-params-identical-after-reimport", "savings-params-differ-after-reimport", "params changed by the round trip")
		}
		b2, _ := ctx.CacheContext()
		gs3 := savings.ExportGenesis(b2, w.sk)
		if bz3 := cdc.MustMarshalJSON(&gs3); !bytes.Equal(bz, bz3) {
			set("savings-reexport-identical", "savings-reexport-differs", fmt.Sprintf("first export %d bytes, re-export %d bytes", len(bz), len(bz3)))
		}
		if r, m := w.savInvariants(ctx); r != "" {
			set("savings-invariants-hold-after-reimport", "savings-invariant-broken-after-reimport:"+r, m)
		}
		return nil
	})
	out.cls = cls
	mark("savings/reimport:" + cls.String())
	if cls != ClassOk {
		out.pred, out.sig, out.detail = "savings-reimport-does-not-panic", "savings-reimport-panics-at-"+stage, fmt.Sprint(err)
	}
	return out
}

const nSavMutations = 9

func (w *world) mutatedGenesis(kind, sel int, mark func(string)) (term string, valid bool, cls Class, name string) {
	bctx, _ := w.ctx.CacheContext()
	gs := savings.ExportGenesis(bctx, w.sk)
	gs.Deposits = append(savingstypes.Deposits(nil), gs.Deposits...)
	gs.Params.SupportedDenoms = append([]string(nil), gs.Params.SupportedDenoms...)
	nd := len(gs.Deposits)
	name = "none"
	switch kind {
	case 0:
		if nd > 0 {
			gs.Deposits = append(gs.Deposits, gs.Deposits[sel%nd])
			name = "duplicate-depositor"
		}
	case 1: // zero / negative / one
		if nd > 0 {
			d := gs.Deposits[sel%nd]
			d.Amount = append(sdk.Coins(nil), d.Amount...)
			if len(d.Amount) > 0 {
				d.Amount[(sel/nd)%len(d.Amount)].Amount = []sdkmath.Int{sdkmath.ZeroInt(), sdkmath.NewInt(-4), sdkmath.OneInt()}[(sel/nd/4)%3]
				gs.Deposits[sel%nd] = d
				name = "deposit-coin-amount-0-or-negative-or-1"
			}
		}
	case 2: // coins out of order / duplicated denom
		if nd > 0 {
			d := gs.Deposits[sel%nd]
			d.Amount = append(sdk.Coins(nil), d.Amount...)
			if len(d.Amount) > 1 && (sel/nd)%2 == 0 {
				d.Amount[0], d.Amount[1] = d.Amount[1], d.Amount[0]
				name = "deposit-coins-unsorted"
			} else if len(d.Amount) > 0 {
				d.Amount = append(d.Amount, d.Amount[len(d.Amount)-1])
				name = "deposit-coins-duplicate-denom"
			}
			gs.Deposits[sel%nd] = d
		}
	case 3:
		if len(gs.Params.SupportedDenoms) > 0 {
			gs.Params.SupportedDenoms = append(gs.Params.SupportedDenoms, gs.Params.SupportedDenoms[sel%len(gs.Params.SupportedDenoms)])
			name = "duplicate-supported-denom"
		}
	case 4: // a deposit in a denom that is not supported (accepted: no cross-check)
		if nd > 0 {
			d := gs.Deposits[sel%nd]
			d.Amount = d.Amount.Add(sdk.NewCoin("usdx", sdkmath.NewInt(int64(1+sel%50))))
			gs.Deposits[sel%nd] = d
			name = "deposit-in-unsupported-denom"
		}
	case 5: // a deposit without coins (accepted: empty coins are valid)
		if nd > 0 {
			d := gs.Deposits[sel%nd]
			d.Amount = sdk.Coins{}
			gs.Deposits[sel%nd] = d
			name = "deposit-without-coins"
		}
	case 6: // more deposited than the module account holds (accepted: no cross-check)
		if nd > 0 {
			d := gs.Deposits[sel%nd]
			if len(d.Amount) > 0 {
				d.Amount = d.Amount.Add(sdk.NewCoin(d.Amount[0].Denom, sdkmath.NewInt(1_000_000_000)))
				gs.Deposits[sel%nd] = d
				name = "deposit-not-backed-by-module-balance"
			}
		}
	case 7: // every supported denom removed while deposits exist (accepted)
		gs.Params.SupportedDenoms = nil
		name = "no-supported-denoms"
	default: // a depositor's record dropped (accepted)
		if nd > 0 {
			i := sel % nd
			gs.Deposits = append(gs.Deposits[:i:i], gs.Deposits[i+1:]...)
			name = "deposit-dropped"
		}
	}
	term = w.coqSavGenesis(gs, true)
	valid = gs.Validate() == nil
	mark("savings/mutgen:" + name + fmt.Sprintf(":valid=%v", valid))
	mark(fmt.Sprintf("savings/mutgen:valid=%v", valid))
	// the real InitGenesis runs on EVERY perturbed genesis, also those Validate refuses (scratch branch,
	// never written back, panics recovered): InitGenesis is the only gate at chain start
	cls, _ = Atomically(w.ctx, func(ctx sdk.Context) error {
		c2, _ := ctx.CacheContext() // never written back
		WipeStore(c2, w.tApp.GetKVStoreKey(savingstypes.StoreKey))
		wipeSavParams(c2, w)
		savings.InitGenesis(c2, w.sk, w.tApp.GetAccountKeeper(), gs)
		return nil
	})
	if valid {
		mark("savings/mutgen:init:" + cls.String())
	} else {
		mark("savings/mutgen:invalid:init:" + cls.String())
	}
	return
}

// GenesisRun executes generated (explicit == false) or explicit operations on a fresh C11 world.
func GenesisRun(seed uint64, idx, n int, ops []op, explicit bool, cnt *Counters) (GenesisPartOut, []op) {
	w := setup()
	r := NewRng(seed, uint64(idx)+8_000_000)
	mark := func(k string) {
		if cnt != nil {
			cnt.Inc(k)
		}
	}
	out := GenesisPartOut{}
	prev := w.snap()
	header := coqEnvState(prev)
	var steps []string
	var done []op
	if explicit {
		n = len(ops)
	}
	forced := n/3 + r.Intn(n/2+1)
	reimports := 0
	probeNo := 0 // perturbation kinds rotate, offset by the history index: every kind is probed in every run
	for i := 0; i < n; i++ {
		var o op
		if explicit {
			o = ops[i]
		} else {
			switch {
			case r.Chance(1, 7) || (i >= forced && reimports == 0):
				o = op{Kind: "reimport"}
			case r.Chance(1, 8):
				o = op{Kind: "mutgen", D: (idx*5 + probeNo) % nSavMutations, Strat: r.Intn(1 << 16)}
				probeNo++
			case r.Chance(1, 3): // more savings traffic than the C11 mix
				u := r.Intn(nUsers)
				if r.Chance(3, 5) {
					o = op{Kind: "sdep", U: u, Coins: genSavCoins(r, prev, u, false)}
				} else {
					o = op{Kind: "swd", U: u, Coins: genSavCoins(r, prev, u, true)}
				}
			default:
				o = genOp(r, prev, nil)
			}
		}
		done = append(done, o)
		if o.Kind == "mutgen" {
			term, valid, cls, name := w.mutatedGenesis(o.D, o.Strat, mark)
			v, c := int64(0), int64(cls)
			if valid {
				v = 1
			}
			steps = append(steps, fmt.Sprintf("(GProbe %s,\n    ObsProbe [%d; %s])", term, v, Zi(c)))
			if !valid && cls != ClassPanic && out.Fail == nil {
				out.Fail = &Failure{Step: i, Predicate: "invalid-genesis-imported:savings:" + name, Signature: "invalid-genesis-imported:savings:" + name,
					Detail: fmt.Sprintf("GenesisState.Validate refuses this genesis state (perturbation %s of a real export) but InitGenesis on an emptied store imports it: %s", name, term)}
			}
			continue
		}
		if o.Kind == "reimport" {
			reimports++
			ro := w.reimport(mark)
			after := w.snap()
			if ro.cls == ClassOk {
				nDep := 0
				for a := 0; a < nAcc; a++ {
					k := 0
					for d := 0; d < nDen; d++ {
						if prev.sdep[a][d].Sign() != 0 {
							k++
						}
					}
					if k > 0 {
						nDep++
						if a == accEarn {
							mark("savings/reimport:earn-module-account-is-a-depositor")
						}
					}
					if k > 1 {
						mark("savings/reimport:multi-denom-deposit")
					}
				}
				if nDep == 0 {
					mark("savings/reimport:empty-store")
				} else {
					mark("savings/reimport:with-deposits")
					out.Nontriv = true
				}
				if nDep > 1 {
					mark("savings/reimport:several-depositors")
				}
			}
			steps = append(steps, fmt.Sprintf("(GReimport,\n    ObsReimport (%s) %s)", coqObs(ro.cls, zero(), prev, after), ro.genesis))
			if ro.pred != "" && out.Fail == nil {
				out.Fail = &Failure{Step: i, Predicate: ro.pred, Signature: ro.sig, Detail: ro.detail}
			}
			if after.sinv != "" && out.Fail == nil {
				out.Fail = &Failure{Step: i, Predicate: "savings-invariants-hold-after-reimport", Signature: "savings-keeper-invariant-broken-after-reimport", Detail: after.sinv}
			}
			prev = after
			continue
		}
		cls, _, outv := w.exec(o)
		after := w.snap()
		if cnt != nil {
			cnt.Inc("savings/op:" + o.Kind + ":" + cls.String())
		}
		if term, ok := coqOp(o, cls, prev, after); ok {
			steps = append(steps, fmt.Sprintf("(GOp (%s),\n    ObsStep (%s))", term, coqObs(cls, outv, prev, after)))
		}
		prev = after
	}
	out.NOps = len(done)
	out.Coq = fmt.Sprintf("mkGHist %s\n  %s", header, List(steps))
	out.Key = string(MustJSON(done))
	out.Desc = GenesisHist{Part: "savings", Seed: seed, Idx: idx, Ops: done}
	return out, done
}

func GenesisPart(seed uint64, i, n int, cnt *Counters) GenesisPartOut {
	out, ops := GenesisRun(seed, i, n, nil, false, cnt)
	if out.Fail != nil {
		sig := out.Fail.Signature
		upto := out.Fail.Step + 1
		if upto > len(ops) {
			upto = len(ops)
		}
		fails := func(cand []op) bool {
			o2, _ := GenesisRun(seed, i, n, cand, true, nil)
			return o2.Fail != nil && o2.Fail.Signature == sig
		}
		small := ops[:upto]
		if fails(small) {
			small = Shrink(small, fails)
		}
		if o2, _ := GenesisRun(seed, i, n, small, true, nil); o2.Fail != nil {
			out.Fail = o2.Fail
		}
		out.Fail.Replay = MustJSON(GenesisHist{Part: "savings", Seed: seed, Idx: i, Ops: small})
	}
	return out
}

func GenesisReplay(raw json.RawMessage, cnt *Counters) (GenesisPartOut, error) {
	var h GenesisHist
	if err := json.Unmarshal(raw, &h); err != nil {
		return GenesisPartOut{}, err
	}
	out, _ := GenesisRun(h.Seed, h.Idx, len(h.Ops), h.Ops, true, cnt)
	if out.Fail != nil {
		out.Fail.Replay = MustJSON(h)
	}
	return out, nil
}
