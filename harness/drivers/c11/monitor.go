package c11

import (
	. "kavaverif/lib"

	"fmt"
	"math/big"

	sdk "github.com/cosmos/cosmos-sdk/types"
)

// Monitors: C11 stated directly on the implementation's observable state,
// recomputed from raw store records and bank balances (independent of the Coq
// model).  Each returns predicate, signature, detail ("" = holds).

type verdict struct{ pred, sig, detail string }

func eq(a, b *big.Int) bool { return a.Cmp(b) == 0 }

func nonneg(x *big.Int) *big.Int {
	if x.Sign() < 0 {
		return zero()
	}
	return x
}

func sameState(a, b *snap) (bool, string) {
	for x := 0; x < nAcc; x++ {
		for d := 0; d < nDen; d++ {
			if !eq(a.bal[x][d], b.bal[x][d]) {
				return false, fmt.Sprintf("balance of account %d in %s: %s -> %s", x, denoms[d], a.bal[x][d], b.bal[x][d])
			}
			if !eq(a.sdep[x][d], b.sdep[x][d]) {
				return false, fmt.Sprintf("savings deposit of account %d in %s: %s -> %s", x, denoms[d], a.sdep[x][d], b.sdep[x][d])
			}
		}
	}
	for d := 0; d < nDen; d++ {
		if !eq(a.hval[d], b.hval[d]) {
			return false, fmt.Sprintf("hard position %s: %s -> %s", denoms[d], a.hval[d], b.hval[d])
		}
		if (a.vrec[d] == nil) != (b.vrec[d] == nil) || (a.vrec[d] != nil && !eq(a.vrec[d], b.vrec[d])) {
			return false, fmt.Sprintf("vault record %s: %v -> %v", denoms[d], a.vrec[d], b.vrec[d])
		}
		if !eq(a.sdepT[d], b.sdepT[d]) {
			return false, fmt.Sprintf("total savings deposits %s", denoms[d])
		}
	}
	if ok, det := sameHolders(a, b, ""); !ok {
		return false, det
	}
	return true, ""
}

// sameHolders: the raw share records of every address except `except` are unchanged
func sameHolders(a, b *snap, except string) (bool, string) {
	am := map[string]holder{}
	for _, h := range a.hold {
		am[h.addr] = h
	}
	bm := map[string]holder{}
	for _, h := range b.hold {
		bm[h.addr] = h
	}
	for _, h := range a.hold {
		if h.addr == except {
			continue
		}
		g, ok := bm[h.addr]
		if !ok {
			return false, "share record of " + h.addr + " disappeared"
		}
		for d := 0; d < nDen; d++ {
			if !eq(h.shares[d], g.shares[d]) {
				return false, fmt.Sprintf("shares of %s in %s: %s -> %s", h.addr, denoms[d], h.shares[d], g.shares[d])
			}
		}
	}
	for _, g := range b.hold {
		if g.addr == except {
			continue
		}
		if _, ok := am[g.addr]; !ok {
			return false, "share record of " + g.addr + " appeared"
		}
	}
	return true, ""
}

// stateMonitor: the equations that must hold in every state
func stateMonitor(s *snap) *verdict {
	if s.sinv != "" {
		return &verdict{"savings-keeper-invariants", "savings-invariant-broken", s.sinv}
	}
	if s.einv != "" {
		return &verdict{"earn-keeper-invariants", "earn-invariant-broken", s.einv}
	}
	for d := 0; d < nDen; d++ {
		// savings: module balance = sum of all recorded deposits
		if !eq(s.bal[accSav][d], s.sdepT[d]) {
			return &verdict{"savings-solvent", "savings-balance-differs-from-deposits",
				fmt.Sprintf("%s: module balance %s, sum of deposits %s", denoms[d], s.bal[accSav][d], s.sdepT[d])}
		}
		if vaultStrat[d] == 0 {
			continue
		}
		// earn: total shares = sum of account shares (all raw records)
		sum := zero()
		for _, h := range s.hold {
			if h.shares[d].Sign() < 0 {
				return &verdict{"earn-shares-nonnegative", "negative-shares", h.addr}
			}
			sum.Add(sum, h.shares[d])
		}
		tot := zero()
		if s.vrec[d] != nil {
			tot = s.vrec[d]
			if tot.Sign() <= 0 {
				return &verdict{"earn-vault-record-positive", "vault-record-not-positive", fmt.Sprintf("%s: %s", denoms[d], tot)}
			}
		}
		if !eq(tot, sum) {
			return &verdict{"earn-shares-sum", "total-shares-differ-from-sum",
				fmt.Sprintf("%s: vault record %s, sum of account shares %s", denoms[d], tot, sum)}
		}
		// keeper's total value = raw strategy position
		pos := s.position(d)
		if !eq(s.tv[d], pos) {
			return &verdict{"earn-total-value-is-strategy-position", "total-value-differs-from-position",
				fmt.Sprintf("%s: GetVaultTotalValue %s, position %s", denoms[d], s.tv[d], pos)}
		}
		// earn: sum of redeemable values <= strategy position (recomputed: sum of floors)
		if tot.Sign() > 0 {
			red := zero()
			for _, h := range s.hold {
				v := new(big.Int).Mul(pos, h.shares[d])
				v.Quo(v, tot)
				red.Add(red, v)
			}
			if red.Cmp(pos) > 0 {
				return &verdict{"earn-solvent", "redeemable-exceeds-position",
					fmt.Sprintf("%s: sum of redeemable values %s > position %s", denoms[d], red, pos)}
			}
		}
		// and the same through the keeper's own GetVaultAccountValue for the users
		kv := zero()
		for u := 0; u < nUsers; u++ {
			kv.Add(kv, nonneg(s.vals[u][d]))
			// keeper value agrees with floor(V*s/S)
			if s.vals[u][d].Sign() >= 0 && tot.Sign() > 0 {
				v := new(big.Int).Mul(pos, s.shr[u][d])
				v.Quo(v, tot)
				if !eq(v, s.vals[u][d]) {
					return &verdict{"earn-account-value-formula", "account-value-not-floor",
						fmt.Sprintf("%s user %d: keeper %s, floor(V*s/S) %s", denoms[d], u, s.vals[u][d], v)}
				}
			}
		}
		if kv.Cmp(pos) > 0 {
			return &verdict{"earn-solvent", "redeemable-exceeds-position",
				fmt.Sprintf("%s: sum of GetVaultAccountValue %s > position %s", denoms[d], kv, pos)}
		}
		// the strategy position is backed by coins in the strategy's module account
		switch vaultStrat[d] {
		case 2:
			if s.bal[accSav][d].Cmp(pos) < 0 {
				return &verdict{"earn-position-backed", "savings-position-unbacked", denoms[d]}
			}
		}
	}
	return nil
}

// opMonitor: the per-operation clauses
func (w *world) opMonitor(o op, cls Class, out *big.Int, before, after *snap) *verdict {
	if cls == ClassPanic {
		return &verdict{"no-panic", "operation-panicked", o.Kind}
	}
	if cls != ClassOk {
		if ok, det := sameState(before, after); !ok {
			return &verdict{"failed-op-no-change", "failed-op-changed-state", det}
		}
		return nil
	}
	if v := stateMonitor(after); v != nil {
		return v
	}
	exp := *before // expected balances / deposits, adjusted below
	cp := func(x *[nAcc][nDen]*big.Int) {
		for a := 0; a < nAcc; a++ {
			for d := 0; d < nDen; d++ {
				x[a][d] = new(big.Int).Set(x[a][d])
			}
		}
	}
	cp(&exp.bal)
	cp(&exp.sdep)
	actor := ""
	if o.Kind != "tick" && o.Kind != "flow" {
		actor = w.addrs[o.U].String()
	}
	switch o.Kind {
	case "sdep", "swd":
		coins := mkCoins(o.Coins)
		if !coins.IsValid() || coins.IsZero() {
			return &verdict{"invalid-coins-refused", "invalid-coins-accepted", coins.String()}
		}
		for _, cn := range coins {
			d := denomIndex(cn.Denom)
			if d < 0 || d >= nDen {
				return &verdict{"unknown-denom-refused", "unknown-denom-accepted", cn.Denom}
			}
			x := cn.Amount.BigInt()
			if o.Kind == "sdep" {
				if !savSupported[d] {
					return &verdict{"unsupported-denom-refused", "unsupported-denom-accepted", cn.Denom}
				}
				exp.bal[o.U][d].Sub(exp.bal[o.U][d], x)
				exp.bal[accSav][d].Add(exp.bal[accSav][d], x)
				exp.sdep[o.U][d].Add(exp.sdep[o.U][d], x)
			} else {
				// pays min(request, deposit) and deducts the same
				paid := x
				if before.sdep[o.U][d].Cmp(x) < 0 {
					paid = before.sdep[o.U][d]
				}
				if before.sdep[o.U][d].Sign() == 0 {
					return &verdict{"savings-withdraw-exact", "withdraw-of-undeposited-denom-accepted", cn.Denom}
				}
				exp.bal[o.U][d].Add(exp.bal[o.U][d], paid)
				exp.bal[accSav][d].Sub(exp.bal[accSav][d], paid)
				exp.sdep[o.U][d].Sub(exp.sdep[o.U][d], paid)
			}
		}
		if v := cmpTables("savings-exact", "savings-inexact-delta", &exp, after); v != nil {
			return v
		}
		if ok, det := sameHolders(before, after, ""); !ok {
			return &verdict{"others-untouched", "savings-op-changed-shares", det}
		}
		for d := 0; d < nDen; d++ {
			if !eq(before.hval[d], after.hval[d]) {
				return &verdict{"others-untouched", "savings-op-changed-hard-position", denoms[d]}
			}
		}
	case "edep":
		d := o.D
		x := amt(o.A).BigInt()
		if x.Sign() <= 0 || d >= nDen || vaultStrat[d] == 0 || o.Strat != vaultStrat[d] {
			return &verdict{"invalid-deposit-refused", "invalid-deposit-accepted", fmt.Sprintf("%+v", o)}
		}
		if vaultPrivate[d] && !isAllowed(o.U) {
			return &verdict{"private-vault-refused", "private-vault-deposit-accepted", fmt.Sprintf("user %d", o.U)}
		}
		// coins: depositor -x, strategy module account +x, earn module account unchanged; position +x
		exp.bal[o.U][d].Sub(exp.bal[o.U][d], x)
		smod := accSav
		if vaultStrat[d] == 1 {
			smod = accHard
		} else {
			exp.sdep[accEarn][d].Add(exp.sdep[accEarn][d], x)
		}
		exp.bal[smod][d].Add(exp.bal[smod][d], x)
		if v := cmpTables("earn-deposit-exact", "earn-deposit-inexact-delta", &exp, after); v != nil {
			return v
		}
		if want := new(big.Int).Add(before.position(d), x); !eq(after.position(d), want) {
			return &verdict{"earn-deposit-exact", "position-not-increased-by-deposit", fmt.Sprintf("%s -> %s, deposit %s", before.position(d), after.position(d), x)}
		}
		if v := othersUntouched(before, after, actor, o.U, d); v != nil {
			return v
		}
		// shares of the depositor grew, in this vault only
		if after.shr[o.U][d].Cmp(before.shr[o.U][d]) <= 0 {
			return &verdict{"deposit-issues-shares", "deposit-issued-no-shares", denoms[d]}
		}
		// depositing then immediately withdrawing never yields a profit:
		// value after <= value before + x, and an actual withdrawal of everything
		// allowed (on a discarded branch of the state) returns no more
		vb := nonneg(before.vals[o.U][d])
		lim := new(big.Int).Add(vb, x)
		// classify: the known defect is a first deposit into a vault without shares whose
		// strategy still holds value (left there by the dust sweep): the depositor's value
		// is then exactly deposit + leftover; any other profit is something else
		sig := "roundtrip-profit"
		if before.vrec[d] == nil && before.position(d).Sign() > 0 &&
			after.vals[o.U][d].Cmp(new(big.Int).Add(lim, before.position(d))) <= 0 {
			sig = "deposit-captures-orphaned-value"
		}
		if after.vals[o.U][d].Cmp(lim) > 0 {
			return &verdict{"earn-roundtrip-no-profit", sig,
				fmt.Sprintf("%s user %d: value before %s, deposit %s, value after %s (vault had position %s, record %v)", denoms[d], o.U, vb, x, after.vals[o.U][d], before.position(d), before.vrec[d])}
		}
		if after.vals[o.U][d].Sign() > 0 {
			cctx, _ := w.ctx.CacheContext()
			got, err := w.ek.Withdraw(cctx, w.addrs[o.U], sdk.NewCoin(denoms[d], sdk.NewIntFromBigInt(after.vals[o.U][d])), vaultStratType(d))
			if err == nil && got.Amount.BigInt().Cmp(lim) > 0 {
				return &verdict{"earn-roundtrip-no-profit", sig, fmt.Sprintf("%s user %d: deposit %s then withdraw returns %s (value before %s)", denoms[d], o.U, x, got.Amount, vb)}
			}
		}
	case "ewd":
		d := o.D
		x := amt(o.A).BigInt()
		if x.Sign() <= 0 || d >= nDen || vaultStrat[d] == 0 || o.Strat != vaultStrat[d] {
			return &verdict{"invalid-withdraw-refused", "invalid-withdraw-accepted", fmt.Sprintf("%+v", o)}
		}
		vb := nonneg(before.vals[o.U][d])
		// never pays more than the account's redeemable value, nor more than requested
		if out.Cmp(vb) > 0 {
			return &verdict{"earn-withdraw-capped", "withdraw-exceeds-account-value", fmt.Sprintf("%s user %d: paid %s, value %s", denoms[d], o.U, out, vb)}
		}
		if out.Cmp(x) > 0 {
			return &verdict{"earn-withdraw-capped", "withdraw-exceeds-request", fmt.Sprintf("paid %s, requested %s", out, x)}
		}
		exp.bal[o.U][d].Add(exp.bal[o.U][d], out)
		smod := accSav
		if vaultStrat[d] == 1 {
			smod = accHard
		} else {
			exp.sdep[accEarn][d].Sub(exp.sdep[accEarn][d], out)
		}
		exp.bal[smod][d].Sub(exp.bal[smod][d], out)
		if v := cmpTables("earn-withdraw-exact", "earn-withdraw-inexact-delta", &exp, after); v != nil {
			return v
		}
		if want := new(big.Int).Sub(before.position(d), out); !eq(after.position(d), want) {
			return &verdict{"earn-withdraw-exact", "position-not-decreased-by-payout", fmt.Sprintf("%s -> %s, paid %s", before.position(d), after.position(d), out)}
		}
		if v := othersUntouched(before, after, actor, o.U, d); v != nil {
			return v
		}
		if after.shr[o.U][d].Cmp(before.shr[o.U][d]) >= 0 {
			return &verdict{"withdraw-burns-shares", "withdraw-burned-no-shares", denoms[d]}
		}

		// the shares burnt beyond the payout are dust: what the account gives up
		// (value before - paid - value after) is at most one coin of rounding
		loss := new(big.Int).Sub(vb, out)
		loss.Sub(loss, nonneg(after.vals[o.U][d]))
		if loss.Cmp(big.NewInt(1)) > 0 {
			// classify: the known defect is the dust rule of Withdraw, which values the
			// remaining shares r = s - floor(x*T/V) at floor((V-w)*r/T) (total value
			// already reduced, total shares not yet) and deletes them when that is 0
			sig := "withdraw-forfeits-value-unexplained"
			if before.vrec[d] != nil && before.position(d).Sign() > 0 && after.shr[o.U][d].Sign() == 0 {
				T, V := before.vrec[d], before.position(d)
				ws0 := new(big.Int).Mul(x, T)
				ws0.Quo(ws0, V)
				r := new(big.Int).Sub(before.shr[o.U][d], ws0)
				est := new(big.Int).Sub(V, out)
				est.Mul(est, r)
				est.Quo(est, T)
				if r.Sign() > 0 && est.Sign() == 0 {
					sig = "dust-sweep-forfeits-more-than-dust"
				}
			}
			return &verdict{"earn-dust-sweep-is-dust", sig,
				fmt.Sprintf("%s user %d: value before %s, requested %s, paid %s, value after %s: %s units forfeited (vault position %s -> %s, record %v -> %v)",
					denoms[d], o.U, vb, x, out, nonneg(after.vals[o.U][d]), loss, before.position(d), after.position(d), before.vrec[d], after.vrec[d])}
		}
	case "tick":
		// accrual: records untouched, positions never shrink
		if ok, det := sameHolders(before, after, ""); !ok {
			return &verdict{"others-untouched", "tick-changed-shares", det}
		}
		for d := 0; d < nDen; d++ {
			if after.hval[d].Cmp(before.hval[d]) < 0 {
				return &verdict{"oracle-side-condition", "hard-position-shrank-by-accrual", fmt.Sprintf("%s: %s -> %s", denoms[d], before.hval[d], after.hval[d])}
			}
		}
		if v := cmpTables("tick-moves-no-coins", "tick-moved-coins", &exp, after); v != nil {
			return v
		}
	case "donate":
		d := o.D
		x := amt(o.A).BigInt()
		exp.bal[o.U][d].Sub(exp.bal[o.U][d], x)
		exp.bal[accEarn][d].Add(exp.bal[accEarn][d], x)
		if v := cmpTables("bank-send-exact", "bank-send-inexact", &exp, after); v != nil {
			return v
		}
		if ok, det := sameHolders(before, after, ""); !ok {
			return &verdict{"others-untouched", "bank-send-changed-shares", det}
		}
		// coins held by the earn module account are not vault value
		for u := 0; u < nUsers; u++ {
			for dd := 0; dd < nDen; dd++ {
				if !eq(before.vals[u][dd], after.vals[u][dd]) {
					return &verdict{"module-balance-is-not-vault-value", "bank-send-changed-account-value", fmt.Sprintf("user %d %s", u, denoms[dd])}
				}
			}
		}
	case "flow":
		if ok, det := sameHolders(before, after, ""); !ok {
			return &verdict{"others-untouched", "third-party-hard-op-changed-shares", det}
		}
		for d := 0; d < nDen; d++ {
			if !eq(before.hval[d], after.hval[d]) {
				return &verdict{"others-untouched", "third-party-hard-op-changed-position", denoms[d]}
			}
		}
	}
	return nil
}

func isAllowed(u int) bool {
	for _, a := range privateAllowed {
		if a == u {
			return true
		}
	}
	return false
}

func denomIndex(s string) int {
	for i, d := range denoms {
		if d == s {
			return i
		}
	}
	return -1
}

// cmpTables compares expected bank balances and savings deposits of every model account
func cmpTables(pred, sig string, exp, after *snap) *verdict {
	for a := 0; a < nAcc; a++ {
		for d := 0; d < nDen; d++ {
			if !eq(exp.bal[a][d], after.bal[a][d]) {
				return &verdict{pred, sig, fmt.Sprintf("balance of account %d in %s: expected %s, got %s", a, denoms[d], exp.bal[a][d], after.bal[a][d])}
			}
			if !eq(exp.sdep[a][d], after.sdep[a][d]) {
				return &verdict{pred, sig, fmt.Sprintf("savings deposit of account %d in %s: expected %s, got %s", a, denoms[d], exp.sdep[a][d], after.sdep[a][d])}
			}
		}
	}
	return nil
}

// othersUntouched: an earn operation by u on vault d leaves every other
// account's shares and savings deposit, u's shares in other vaults, and every
// other vault's record unchanged; the redeemable value of the others does not fall
func othersUntouched(before, after *snap, actor string, u, d int) *verdict {
	if ok, det := sameHolders(before, after, actor); !ok {
		return &verdict{"others-untouched", "operation-changed-other-accounts-shares", det}
	}
	for dd := 0; dd < nDen; dd++ {
		if dd != d {
			if !eq(before.shr[u][dd], after.shr[u][dd]) {
				return &verdict{"others-untouched", "operation-changed-shares-in-other-vault", denoms[dd]}
			}
			if (before.vrec[dd] == nil) != (after.vrec[dd] == nil) || (before.vrec[dd] != nil && !eq(before.vrec[dd], after.vrec[dd])) {
				return &verdict{"others-untouched", "operation-changed-other-vault-record", denoms[dd]}
			}
			if !eq(before.position(dd), after.position(dd)) {
				return &verdict{"others-untouched", "operation-changed-other-vault-position", denoms[dd]}
			}
		}
	}
	for w := 0; w < nUsers; w++ {
		if w == u {
			continue
		}
		if nonneg(after.vals[w][d]).Cmp(nonneg(before.vals[w][d])) < 0 {
			return &verdict{"others-value-not-reduced", "operation-reduced-other-accounts-value",
				fmt.Sprintf("%s: user %d value %s -> %s after an operation of user %d", denoms[d], w, before.vals[w][d], after.vals[w][d], u)}
		}
	}
	return nil
}

func toFailure(v *verdict, hist, step int) *Failure {
	return &Failure{History: hist, Step: step, Predicate: v.pred, Signature: v.sig, Detail: v.detail}
}
