// Package c11 — earn and savings: exact share accounting.
//
// Histories of savings deposits/withdrawals, earn deposits/withdrawals into a
// hard-strategy vault (usdx), a savings-strategy vault (ukava) and a private
// savings-strategy vault (busd), direct bank transfers to the (unblocked) earn
// module account, third-party borrowing in hard and block ticks that accrue
// hard interest — on the real keepers of a fresh app.TestApp — with monitors
// stating C11 on the implementation and Coq case files for Model/Earn.v.
package c11

import (
	. "kavaverif/lib"

	"fmt"
	"math/big"
	"time"

	sdkmath "cosmossdk.io/math"
	"github.com/cosmos/cosmos-sdk/store/prefix"
	sdk "github.com/cosmos/cosmos-sdk/types"

	"github.com/kava-labs/kava/app"
	earnkeeper "github.com/kava-labs/kava/x/earn/keeper"
	earntypes "github.com/kava-labs/kava/x/earn/types"
	"github.com/kava-labs/kava/x/hard"
	hardkeeper "github.com/kava-labs/kava/x/hard/keeper"
	hardtypes "github.com/kava-labs/kava/x/hard/types"
	pricefeedtypes "github.com/kava-labs/kava/x/pricefeed/types"
	savingskeeper "github.com/kava-labs/kava/x/savings/keeper"
	savingstypes "github.com/kava-labs/kava/x/savings/types"
)

// denoms by model index (string order); index 4 is a denom nobody holds and no module knows
var denoms = []string{"bnb", "busd", "ukava", "usdx", "zzz"}

const (
	nDen    = 4 // tracked denoms
	nUsers  = 3
	nAcc    = 6
	accEarn = 3
	accSav  = 4
	accHard = 5

	dBnb   = 0
	dBusd  = 1
	dUkava = 2
	dUsdx  = 3
)

// earn vault configuration by denom index: 0 none, 1 hard, 2 savings
var vaultStrat = []int{0, 2, 2, 1, 0}

// the busd vault is private; users 0 and 1 may deposit
var vaultPrivate = []bool{false, true, false, false, false}
var privateAllowed = []int{0, 1}

// savings supports bnb (no vault), busd, ukava; usdx is not supported
var savSupported = []bool{true, true, true, false, false}

// hard money markets
var hardMM = []bool{true, false, false, true, false}

type coin struct {
	D int    `json:"d"`
	A string `json:"a"`
}

type op struct {
	Kind  string `json:"kind"`            // sdep | swd | edep | ewd | tick | flow | donate
	U     int    `json:"u"`               // acting account (user index)
	Coins []coin `json:"coins,omitempty"` // savings operations
	D     int    `json:"d"`               // denom index (earn, donate, flow)
	A     string `json:"a,omitempty"`     // amount (earn, donate, flow: signed change of the hard module balance)
	Strat int    `json:"strat,omitempty"` // earn strategy argument
	Secs  int64  `json:"secs,omitempty"`  // tick
}

type world struct {
	tApp     app.TestApp
	ctx      sdk.Context
	ek       earnkeeper.Keeper
	sk       savingskeeper.Keeper
	hk       hardkeeper.Keeper
	addrs    []sdk.AccAddress // model accounts 0..5
	whale    sdk.AccAddress
	borrower sdk.AccAddress
	idx      map[string]int // address -> model index
}

func c(d string, a int64) sdk.Coin { return sdk.NewInt64Coin(d, a) }

func setup() *world {
	tApp := NewApp()
	all := Addrs(nUsers + 2)
	users, whale, borrower := all[:nUsers], all[nUsers], all[nUsers+1]
	cdc := tApp.AppCodec()

	far := GenesisTime.Add(100000 * time.Hour)
	pf := pricefeedtypes.GenesisState{
		Params: pricefeedtypes.Params{Markets: []pricefeedtypes.Market{
			{MarketID: "usdx:usd", BaseAsset: "usdx", QuoteAsset: "usd", Oracles: []sdk.AccAddress{}, Active: true},
			{MarketID: "bnb:usd", BaseAsset: "bnb", QuoteAsset: "usd", Oracles: []sdk.AccAddress{}, Active: true},
		}},
		PostedPrices: []pricefeedtypes.PostedPrice{
			{MarketID: "usdx:usd", OracleAddress: sdk.AccAddress{}, Price: sdk.MustNewDecFromStr("1.00"), Expiry: far},
			{MarketID: "bnb:usd", OracleAddress: sdk.AccAddress{}, Price: sdk.MustNewDecFromStr("10.00"), Expiry: far},
		},
	}
	irm := hardtypes.NewInterestRateModel(sdk.MustNewDecFromStr("0.5"), sdk.MustNewDecFromStr("10"), sdk.MustNewDecFromStr("0.8"), sdk.MustNewDecFromStr("10"))
	hg := hardtypes.NewGenesisState(hardtypes.NewParams(hardtypes.MoneyMarkets{
		hardtypes.NewMoneyMarket("usdx", hardtypes.NewBorrowLimit(false, sdk.ZeroDec(), sdk.MustNewDecFromStr("0.8")), "usdx:usd", sdkmath.NewInt(1000000), irm, sdk.MustNewDecFromStr("0.05"), sdk.ZeroDec()),
		hardtypes.NewMoneyMarket("bnb", hardtypes.NewBorrowLimit(false, sdk.ZeroDec(), sdk.MustNewDecFromStr("0.8")), "bnb:usd", sdkmath.NewInt(100000000), irm, sdk.MustNewDecFromStr("0.05"), sdk.ZeroDec()),
	}, sdk.NewDec(10)),
		hardtypes.DefaultAccumulationTimes, hardtypes.DefaultDeposits, hardtypes.DefaultBorrows,
		hardtypes.DefaultTotalSupplied, hardtypes.DefaultTotalBorrowed, hardtypes.DefaultTotalReserves)
	var sup []string
	for d := 0; d < nDen; d++ {
		if savSupported[d] {
			sup = append(sup, denoms[d])
		}
	}
	sg := savingstypes.NewGenesisState(savingstypes.NewParams(sup), nil)
	var vaults earntypes.AllowedVaults
	for d := 0; d < nDen; d++ {
		if vaultStrat[d] == 0 {
			continue
		}
		var allowed []sdk.AccAddress
		if vaultPrivate[d] {
			for _, u := range privateAllowed {
				allowed = append(allowed, users[u])
			}
		}
		vaults = append(vaults, earntypes.NewAllowedVault(denoms[d], earntypes.StrategyTypes{earntypes.StrategyType(vaultStrat[d])}, vaultPrivate[d], allowed))
	}
	eg := earntypes.NewGenesisState(earntypes.NewParams(vaults), earntypes.VaultRecords{}, earntypes.VaultShareRecords{})

	b := app.NewAuthBankGenesisBuilder()
	funds := []sdk.Coins{
		sdk.NewCoins(c("bnb", 1_000_000), c("busd", 1_000_000), c("ukava", 2_000_000), c("usdx", 3_000_000)),
		sdk.NewCoins(c("bnb", 5_000), c("busd", 70_000), c("ukava", 123_457), c("usdx", 1_000_003)),
		sdk.NewCoins(c("bnb", 30), c("busd", 1_000), c("ukava", 1_000), c("usdx", 2_500)),
	}
	for i := 0; i < nUsers; i++ {
		b.WithSimpleAccount(users[i], funds[i])
	}
	b.WithSimpleAccount(whale, sdk.NewCoins(c("usdx", 100_000_000_000)))
	b.WithSimpleAccount(borrower, sdk.NewCoins(c("bnb", 1_000_000_000_000_000), c("usdx", 50_000_000_000)))

	tApp.InitializeFromGenesisStatesWithTime(GenesisTime,
		b.BuildMarshalled(cdc),
		app.GenesisState{
			pricefeedtypes.ModuleName: cdc.MustMarshalJSON(&pf),
			hardtypes.ModuleName:      cdc.MustMarshalJSON(&hg),
			savingstypes.ModuleName:   cdc.MustMarshalJSON(&sg),
			earntypes.ModuleName:      cdc.MustMarshalJSON(&eg),
		})
	ctx := NewCtx(tApp, 2, GenesisTime.Add(10*time.Second))
	w := &world{tApp: tApp, ctx: ctx, ek: tApp.GetEarnKeeper(), sk: tApp.GetSavingsKeeper(), hk: tApp.GetHardKeeper(),
		whale: whale, borrower: borrower, idx: map[string]int{}}
	ak := tApp.GetAccountKeeper()
	w.addrs = append(w.addrs, users...)
	w.addrs = append(w.addrs,
		ak.GetModuleAccount(ctx, earntypes.ModuleName).GetAddress(),
		ak.GetModuleAccount(ctx, savingstypes.ModuleAccountName).GetAddress(),
		ak.GetModuleAccount(ctx, hardtypes.ModuleAccountName).GetAddress())
	for i, a := range w.addrs {
		w.idx[a.String()] = i
	}
	// hard: a supplier and a borrower of usdx so that supply interest accrues
	hard.BeginBlocker(w.ctx, w.hk)
	must(w.hk.Deposit(w.ctx, whale, sdk.NewCoins(c("usdx", 20_000_000_000))))
	must(w.hk.Deposit(w.ctx, borrower, sdk.NewCoins(c("bnb", 1_000_000_000_000_000))))
	must(w.hk.Borrow(w.ctx, borrower, sdk.NewCoins(c("usdx", 15_000_000_000))))
	w.tick(60)
	return w
}

func must(err error) {
	if err != nil {
		panic(err)
	}
}

// tick advances the block time and runs hard's begin blocker (interest accrual)
func (w *world) tick(secs int64) {
	w.ctx = w.ctx.WithBlockHeight(w.ctx.BlockHeight() + 1).WithBlockTime(w.ctx.BlockTime().Add(time.Duration(secs) * time.Second))
	hard.BeginBlocker(w.ctx, w.hk)
}

// ---------------------------------------------------------------- observation

type holder struct {
	addr   string
	idx    int // model index or -1
	shares [nDen]*big.Int
}

type snap struct {
	bal   [nAcc][nDen]*big.Int
	sdep  [nAcc][nDen]*big.Int // raw savings deposits of the model accounts
	sdepT [nDen]*big.Int       // sum of all raw savings deposits (every depositor)
	hval  [nDen]*big.Int       // hard: synced deposit of the earn module account
	vrec  [nDen]*big.Int       // raw vault records (nil = no record)
	shr   [nAcc][nDen]*big.Int // raw share records of the model accounts
	hold  []holder             // all raw share records
	vals  [nUsers][nDen]*big.Int
	tv    [nDen]*big.Int // keeper GetVaultTotalValue (-1 = error)
	hfree *big.Int       // hard: usdx cash not set aside as reserves (what a third party can still borrow)
	sinv  string         // savings keeper invariants
	einv  string         // earn keeper invariants
}

func zero() *big.Int { return new(big.Int) }

func (w *world) snap() *snap {
	s := &snap{}
	bk := w.tApp.GetBankKeeper()
	cdc := w.tApp.AppCodec()
	for a := 0; a < nAcc; a++ {
		for d := 0; d < nDen; d++ {
			s.bal[a][d] = bk.GetBalance(w.ctx, w.addrs[a], denoms[d]).Amount.BigInt()
			s.sdep[a][d] = zero()
			s.shr[a][d] = zero()
		}
	}
	for d := 0; d < nDen; d++ {
		s.sdepT[d] = zero()
		s.hval[d] = zero()
	}
	// savings deposits, raw
	st := prefix.NewStore(w.ctx.KVStore(w.tApp.GetKVStoreKey(savingstypes.StoreKey)), savingstypes.DepositsKeyPrefix)
	it := sdk.KVStorePrefixIterator(st, []byte{})
	for ; it.Valid(); it.Next() {
		var dep savingstypes.Deposit
		cdc.MustUnmarshal(it.Value(), &dep)
		i, tracked := w.idx[dep.Depositor.String()]
		for d := 0; d < nDen; d++ {
			amt := dep.Amount.AmountOf(denoms[d]).BigInt()
			s.sdepT[d].Add(s.sdepT[d], amt)
			if tracked {
				s.sdep[i][d] = amt
			}
		}
	}
	it.Close()
	// hard position of the earn module account
	if dep, found := w.hk.GetSyncedDeposit(w.ctx, w.addrs[accEarn]); found {
		for d := 0; d < nDen; d++ {
			s.hval[d] = dep.Amount.AmountOf(denoms[d]).BigInt()
		}
	}
	// earn records, raw
	est := w.ctx.KVStore(w.tApp.GetKVStoreKey(earntypes.StoreKey))
	vst := prefix.NewStore(est, earntypes.VaultRecordKeyPrefix)
	it = sdk.KVStorePrefixIterator(vst, []byte{})
	for ; it.Valid(); it.Next() {
		var r earntypes.VaultRecord
		cdc.MustUnmarshal(it.Value(), &r)
		for d := 0; d < nDen; d++ {
			if r.TotalShares.Denom == denoms[d] {
				s.vrec[d] = r.TotalShares.Amount.BigInt()
			}
		}
	}
	it.Close()
	sst := prefix.NewStore(est, earntypes.VaultShareRecordKeyPrefix)
	it = sdk.KVStorePrefixIterator(sst, []byte{})
	for ; it.Valid(); it.Next() {
		var r earntypes.VaultShareRecord
		cdc.MustUnmarshal(it.Value(), &r)
		h := holder{addr: r.Depositor.String(), idx: -1}
		if i, ok := w.idx[h.addr]; ok {
			h.idx = i
		}
		for d := 0; d < nDen; d++ {
			h.shares[d] = zero()
		}
		for _, sh := range r.Shares {
			for d := 0; d < nDen; d++ {
				if sh.Denom == denoms[d] {
					h.shares[d] = sh.Amount.BigInt()
				}
			}
		}
		if h.idx >= 0 {
			s.shr[h.idx] = h.shares
		}
		s.hold = append(s.hold, h)
	}
	it.Close()
	for u := 0; u < nUsers; u++ {
		for d := 0; d < nDen; d++ {
			v, err := w.ek.GetVaultAccountValue(w.ctx, denoms[d], w.addrs[u])
			if err != nil {
				s.vals[u][d] = big.NewInt(-1)
			} else {
				s.vals[u][d] = v.Amount.BigInt()
			}
		}
	}
	for d := 0; d < nDen; d++ {
		v, err := w.ek.GetVaultTotalValue(w.ctx, denoms[d])
		if err != nil {
			s.tv[d] = big.NewInt(-1)
		} else {
			s.tv[d] = v.Amount.BigInt()
		}
	}
	s.hfree = new(big.Int).Set(s.bal[accHard][dUsdx])
	if res, found := w.hk.GetTotalReserves(w.ctx); found {
		s.hfree.Sub(s.hfree, res.AmountOf("usdx").BigInt())
	}
	if msg, broken := savingskeeper.AllInvariants(w.sk)(w.ctx); broken {
		s.sinv = msg
	}
	if msg, broken := earnkeeper.AllInvariants(w.ek)(w.ctx); broken {
		s.einv = msg
	}
	return s
}

// position is the raw strategy position behind vault d
func (s *snap) position(d int) *big.Int {
	switch vaultStrat[d] {
	case 1:
		return s.hval[d]
	case 2:
		return s.sdep[accEarn][d]
	}
	return zero()
}

// ---------------------------------------------------------------- execution

func amt(a string) sdkmath.Int {
	x, ok := new(big.Int).SetString(a, 10)
	if !ok {
		panic("bad amount " + a)
	}
	return sdkmath.NewIntFromBigInt(x)
}

func mkCoins(cs []coin) sdk.Coins {
	out := make(sdk.Coins, len(cs))
	for i, x := range cs {
		out[i] = sdk.Coin{Denom: denoms[x.D], Amount: amt(x.A)}
	}
	return out
}

// exec runs one operation with message-level atomicity; out is the coin amount
// returned by an earn withdrawal.
func (w *world) exec(o op) (cls Class, err error, out *big.Int) {
	out = zero()
	if o.Kind == "tick" {
		// a begin blocker is not a message: it runs on the block context
		defer func() {
			if r := recover(); r != nil {
				cls, err = ClassPanic, fmt.Errorf("panic: %v", r)
			}
		}()
		w.tick(o.Secs)
		return ClassOk, nil, out
	}
	cls, err = Atomically(w.ctx, func(ctx sdk.Context) error {
		switch o.Kind {
		case "sdep":
			msg := savingstypes.NewMsgDeposit(w.addrs[o.U], mkCoins(o.Coins))
			if e := msg.ValidateBasic(); e != nil {
				return e
			}
			_, e := savingskeeper.NewMsgServerImpl(w.sk).Deposit(sdk.WrapSDKContext(ctx), &msg)
			return e
		case "swd":
			msg := savingstypes.NewMsgWithdraw(w.addrs[o.U], mkCoins(o.Coins))
			if e := msg.ValidateBasic(); e != nil {
				return e
			}
			_, e := savingskeeper.NewMsgServerImpl(w.sk).Withdraw(sdk.WrapSDKContext(ctx), &msg)
			return e
		case "edep":
			msg := earntypes.NewMsgDeposit(w.addrs[o.U].String(), sdk.Coin{Denom: denoms[o.D], Amount: amt(o.A)}, earntypes.StrategyType(o.Strat))
			if e := msg.ValidateBasic(); e != nil {
				return e
			}
			_, e := earnkeeper.NewMsgServerImpl(w.ek).Deposit(sdk.WrapSDKContext(ctx), msg)
			return e
		case "ewd":
			msg := earntypes.NewMsgWithdraw(w.addrs[o.U].String(), sdk.Coin{Denom: denoms[o.D], Amount: amt(o.A)}, earntypes.StrategyType(o.Strat))
			if e := msg.ValidateBasic(); e != nil {
				return e
			}
			// the keeper method behind the message server, called directly to obtain the returned coin
			got, e := w.ek.Withdraw(ctx, w.addrs[o.U], msg.Amount, msg.Strategy)
			if e == nil {
				out = got.Amount.BigInt()
			}
			return e
		case "donate":
			return w.tApp.GetBankKeeper().SendCoins(ctx, w.addrs[o.U], w.addrs[accEarn], sdk.NewCoins(sdk.Coin{Denom: denoms[o.D], Amount: amt(o.A)}))
		case "flow":
			x := amt(o.A)
			if x.IsNegative() {
				return w.hk.Borrow(ctx, w.borrower, sdk.NewCoins(sdk.NewCoin(denoms[o.D], x.Neg())))
			}
			return w.hk.Repay(ctx, w.borrower, w.borrower, sdk.NewCoins(sdk.NewCoin(denoms[o.D], x)))
		}
		panic("unknown op kind " + o.Kind)
	})
	if cls != ClassOk {
		out = zero()
	}
	return
}
