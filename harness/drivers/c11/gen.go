package c11

import (
	. "kavaverif/lib"

	"math/big"
)

func bi(x int64) *big.Int { return big.NewInt(x) }

func pos1(x *big.Int) *big.Int {
	if x.Sign() <= 0 {
		return bi(1)
	}
	return x
}

func pickVault(r *Rng) int {
	switch r.Pick(45, 35, 20) {
	case 0:
		return dUsdx
	case 1:
		return dUkava
	}
	return dBusd
}

func nearPow10(r *Rng) *big.Int {
	x := Pow10(1 + r.Intn(6))
	return x.Add(x, bi(int64(r.Intn(5)-2)))
}

// isqrt of a non-negative big integer
func isqrt(x *big.Int) *big.Int { return new(big.Int).Sqrt(x) }

// dustEdge: the largest k such that withdrawing (value-k) makes the code treat
// the remaining shares as dust:  (V - val + k) * k / V < 1   (computed from the
// observed state; the dust check uses the reduced total value with the old total shares)
func dustEdge(V, val *big.Int) *big.Int {
	if V.Sign() <= 0 {
		return bi(0)
	}
	b := new(big.Int).Sub(V, val)
	disc := new(big.Int).Mul(b, b)
	disc.Add(disc, new(big.Int).Mul(bi(4), V))
	k := isqrt(disc)
	k.Sub(k, b)
	k.Quo(k, bi(2))
	return k
}

func genDepositAmount(r *Rng, s *snap, u, d int) *big.Int {
	balU := s.bal[u][d]
	x := new(big.Int)
	switch r.Pick(30, 15, 20, 17, 14, 4) {
	case 0:
		x.SetInt64(int64(1 + r.Intn(20)))
	case 1:
		x = nearPow10(r)
	case 2: // near the balance
		x.Add(balU, bi(int64(r.Intn(5)-2)))
	case 3: // a fraction of the balance
		x.Quo(balU, bi(int64(2+r.Intn(20))))
	case 4: // relative to the vault: about the position, or one share price
		p := s.position(d)
		if p.Sign() > 0 && r.Chance(1, 2) {
			x.Add(p, bi(int64(r.Intn(3)-1)))
		} else if s.vrec[d] != nil && p.Sign() > 0 {
			// ceil(V*10^18/S): the price of one whole share
			x.Mul(p, Pow10(18))
			x.Quo(x, s.vrec[d])
			x.Add(x, bi(int64(r.Intn(3))))
		} else {
			x.SetInt64(int64(1 + r.Intn(1000)))
		}
	default: // huge
		x = r.BigBits(20 + r.Intn(60))
	}
	if x.Cmp(balU) > 0 && r.Chance(3, 4) { // mostly affordable
		x.Sub(balU, bi(int64(r.Intn(3))))
	}
	return pos1(x)
}

func genWithdrawAmount(r *Rng, s *snap, u, d int, cnt *Counters) *big.Int {
	val := nonneg(s.vals[u][d])
	V := s.position(d)
	x := new(big.Int)
	switch r.Pick(20, 22, 14, 12, 12, 12, 8) {
	case 0: // full, +-2
		x.Add(val, bi(int64(r.Intn(5)-2)))
	case 1: // around the edge of the dust rule
		k := dustEdge(V, val)
		k.Add(k, bi(int64(r.Intn(5)-2)))
		x.Sub(val, k)
	case 2: // leave 1..3
		x.Sub(val, bi(int64(1+r.Intn(3))))
	case 3: // small (pays zero when the share price is above one)
		x.SetInt64(int64(1 + r.Intn(5)))
	case 4: // uniform in [1, value]
		if val.Sign() > 0 {
			x = r.BigBits(val.BitLen() + 1)
			x.Mod(x, val)
			x.Add(x, bi(1))
		}
	case 5: // over-sized
		switch r.Intn(3) {
		case 0:
			x.Add(val, bi(int64(1+r.Intn(10))))
		case 1:
			x.Mul(val, bi(2))
		default:
			x = r.BigBits(30 + r.Intn(60))
		}
	default: // the whole vault position +-1
		x.Add(V, bi(int64(r.Intn(3)-1)))
	}
	return pos1(x)
}

func genSavCoins(r *Rng, s *snap, u int, withdraw bool) []coin {
	var cs []coin
	cand := []int{dBnb, dBusd, dUkava}
	for _, d := range cand {
		if !r.Chance(45, 100) {
			continue
		}
		ref := s.bal[u][d]
		if withdraw {
			ref = s.sdep[u][d]
			if ref.Sign() == 0 && r.Chance(9, 10) {
				continue
			}
		}
		x := new(big.Int)
		switch r.Pick(35, 30, 20, 15) {
		case 0:
			x.SetInt64(int64(1 + r.Intn(50)))
		case 1:
			x.Add(ref, bi(int64(r.Intn(5)-2)))
		case 2:
			x.Quo(ref, bi(int64(2+r.Intn(5))))
		default:
			if withdraw {
				x.Mul(ref, bi(3))
			} else {
				x.Quo(ref, bi(3))
			}
		}
		cs = append(cs, coin{d, pos1(x).String()})
	}
	if len(cs) == 0 {
		d := cand[r.Intn(3)]
		if withdraw {
			for _, dd := range cand {
				if s.sdep[u][dd].Sign() > 0 {
					d = dd
				}
			}
		}
		cs = append(cs, coin{d, bi(int64(1 + r.Intn(100))).String()})
	}
	return cs
}

func genOp(r *Rng, s *snap, cnt *Counters) op {
	u := r.Intn(nUsers)
	// malformed stream
	if r.Chance(7, 100) {
		d := pickVault(r)
		switch r.Intn(11) {
		case 0: // wrong strategy
			return op{Kind: "edep", U: u, D: d, A: "10", Strat: 3 - vaultStrat[d]}
		case 1:
			return op{Kind: "ewd", U: u, D: d, A: "10", Strat: []int{0, 3, 3 - vaultStrat[d]}[r.Intn(3)]}
		case 2: // a denom without a vault
			return op{Kind: "edep", U: u, D: []int{dBnb, 4}[r.Intn(2)], A: "10", Strat: 1 + r.Intn(2)}
		case 3:
			return op{Kind: "ewd", U: u, D: []int{dBnb, 4}[r.Intn(2)], A: "10", Strat: 1 + r.Intn(2)}
		case 4: // zero and negative amounts
			return op{Kind: []string{"edep", "ewd"}[r.Intn(2)], U: u, D: d, A: []string{"0", "-1", "-100"}[r.Intn(3)], Strat: vaultStrat[d]}
		case 5: // private vault, not on the list
			return op{Kind: "edep", U: 2, D: dBusd, A: "10", Strat: 2}
		case 6: // invalid coin sets
			bad := [][]coin{{}, {{dUkava, "5"}, {dBnb, "5"}}, {{dBnb, "5"}, {dBnb, "6"}}, {{dBnb, "0"}}, {{dBnb, "-4"}}, {{dBnb, "3"}, {dUkava, "0"}}}
			return op{Kind: []string{"sdep", "swd"}[r.Intn(2)], U: u, Coins: bad[r.Intn(len(bad))]}
		case 7: // denom savings does not support / nobody knows
			return op{Kind: "sdep", U: u, Coins: []coin{{[]int{dUsdx, 4}[r.Intn(2)], "5"}}}
		case 8: // withdraw a denom that was never deposited
			return op{Kind: "swd", U: u, Coins: []coin{{dUsdx, "5"}}}
		case 9: // withdraw without any shares / from an empty vault
			return op{Kind: "ewd", U: u, D: d, A: "1", Strat: vaultStrat[d]}
		default: // deposit more than the balance
			x := new(big.Int).Add(s.bal[u][d], bi(int64(1+r.Intn(3))))
			return op{Kind: "edep", U: u, D: d, A: x.String(), Strat: vaultStrat[d]}
		}
	}
	switch r.Pick(27, 31, 8, 9, 14, 4, 4) {
	case 0:
		d := pickVault(r)
		if d == dBusd && u == 2 {
			u = r.Intn(2)
		}
		return op{Kind: "edep", U: u, D: d, A: genDepositAmount(r, s, u, d).String(), Strat: vaultStrat[d]}
	case 1:
		// prefer an account and vault with shares
		var cands [][2]int
		for uu := 0; uu < nUsers; uu++ {
			for d := 0; d < nDen; d++ {
				if s.shr[uu][d].Sign() > 0 {
					cands = append(cands, [2]int{uu, d})
				}
			}
		}
		d := pickVault(r)
		if len(cands) > 0 && r.Chance(9, 10) {
			c := cands[r.Intn(len(cands))]
			u, d = c[0], c[1]
		} else if len(cands) == 0 && r.Chance(4, 5) {
			if d == dBusd && u == 2 {
				u = r.Intn(2)
			}
			return op{Kind: "edep", U: u, D: d, A: genDepositAmount(r, s, u, d).String(), Strat: vaultStrat[d]}
		}
		return op{Kind: "ewd", U: u, D: d, A: genWithdrawAmount(r, s, u, d, cnt).String(), Strat: vaultStrat[d]}
	case 2:
		return op{Kind: "sdep", U: u, Coins: genSavCoins(r, s, u, false)}
	case 3:
		has := false
		for d := 0; d < nDen; d++ {
			if s.sdep[u][d].Sign() > 0 {
				has = true
			}
		}
		if !has && r.Chance(4, 5) {
			return op{Kind: "sdep", U: u, Coins: genSavCoins(r, s, u, false)}
		}
		return op{Kind: "swd", U: u, Coins: genSavCoins(r, s, u, true)}
	case 4:
		secs := []int64{0, 1, 7, 60, 3600, 86400, 7 * 86400, 30 * 86400, 365 * 86400}[r.Intn(9)]
		if r.Chance(1, 3) {
			secs = 1 + r.Int63n(40*86400)
		}
		return op{Kind: "tick", Secs: secs}
	case 5:
		d := []int{dUsdx, dUsdx, dUkava, dBusd, dBnb}[r.Intn(5)]
		x := pos1(new(big.Int).Quo(s.bal[u][d], bi(int64(50+r.Intn(1000)))))
		return op{Kind: "donate", U: u, D: d, A: x.String()}
	default:
		// third-party borrow (negative) / repay (positive) in hard; sometimes drains the liquidity
		liq := s.hfree
		x := new(big.Int)
		switch r.Intn(4) {
		case 0:
			x.Neg(new(big.Int).Sub(liq, bi(int64(r.Intn(3000)))))
		case 1:
			x.Neg(new(big.Int).Quo(liq, bi(int64(2+r.Intn(5)))))
		case 2:
			x.SetInt64(1_000_000_000 + r.Int63n(4_000_000_000))
		default:
			x.SetInt64(-(10_000_000 + r.Int63n(1_000_000_000)))
		}
		if x.Sign() == 0 {
			x.SetInt64(-10_000_000)
		}
		return op{Kind: "flow", D: dUsdx, A: x.String()}
	}
}
