package c11

import (
	. "kavaverif/lib"

	"encoding/json"
	"fmt"
	"math/big"
	"os"
	"strings"

	earntypes "github.com/kava-labs/kava/x/earn/types"
)

func init() { Registry["C11"] = run }

const defaultLen = 45

const coqHeader = "From Kava Require Import Base.Prelude Model.Savings Model.Earn."

func vaultStratType(d int) earntypes.StrategyType { return earntypes.StrategyType(vaultStrat[d]) }

// ------------------------------------------------------------ Coq rendering

func natList(xs []int) string {
	it := make([]string, len(xs))
	for i, x := range xs {
		it[i] = Nat(x)
	}
	return List(it)
}

func rows(t *[nAcc][nDen]*big.Int) string {
	it := make([]string, nAcc)
	for a := 0; a < nAcc; a++ {
		it[a] = ZList(t[a][:])
	}
	return List(it)
}

func vrecZ(x *big.Int) *big.Int {
	if x == nil {
		return big.NewInt(-1)
	}
	return x
}

func coqEnvState(s *snap) string {
	allowed := make([]string, len(denoms))
	for d := range denoms {
		row := make([]bool, nAcc)
		for a := 0; a < nAcc; a++ {
			row[a] = !vaultPrivate[d] || (a < nUsers && isAllowed(a))
		}
		allowed[d] = BoolList(row)
	}
	env := fmt.Sprintf("(mk_env %s %s %s %s %s %s %s %s %s)", Nat(nAcc), Nat(accSav), Nat(accEarn), Nat(accHard),
		natList([]int{0, 1, 2, 3}), BoolList(savSupported), natList(vaultStrat), List(allowed), BoolList(hardMM))
	vr := make([]*big.Int, nDen)
	for d := 0; d < nDen; d++ {
		vr[d] = vrecZ(s.vrec[d])
	}
	st := fmt.Sprintf("(mk_state %s %s %s %s %s)", rows(&s.bal), rows(&s.sdep), ZList(s.hval[:]), ZList(vr), rows(&s.shr))
	return env + "\n  " + st
}

func coqCoins(cs []coin) string {
	it := make([]string, len(cs))
	for i, x := range cs {
		it[i] = fmt.Sprintf("(%s, %s)", Nat(x.D), Z(amt(x.A).BigInt()))
	}
	return List(it)
}

// coqOp renders the operation; ok=false when the operation has no counterpart
// in the model (a failed third-party hard operation changes nothing)
func coqOp(o op, cls Class, before, after *snap) (string, bool) {
	switch o.Kind {
	case "sdep":
		return fmt.Sprintf("SDeposit %s %s", Nat(o.U), coqCoins(o.Coins)), true
	case "swd":
		return fmt.Sprintf("SWithdraw %s %s", Nat(o.U), coqCoins(o.Coins)), true
	case "edep":
		return fmt.Sprintf("EDeposit %s %s %s %s", Nat(o.U), Nat(o.D), Z(amt(o.A).BigInt()), Nat(o.Strat)), true
	case "ewd":
		return fmt.Sprintf("EWithdraw %s %s %s %s", Nat(o.U), Nat(o.D), Z(amt(o.A).BigInt()), Nat(o.Strat)), true
	case "tick":
		// the new value of the hard position is the oracle input
		return fmt.Sprintf("Accrue %s %s", Nat(dUsdx), Z(after.hval[dUsdx])), true
	case "donate":
		return fmt.Sprintf("Donate %s %s %s", Nat(o.U), Nat(o.D), Z(amt(o.A).BigInt())), true
	case "flow":
		if cls != ClassOk {
			return "", false
		}
		return fmt.Sprintf("HardFlow %s %s", Nat(o.D), Z(new(big.Int).Sub(after.bal[accHard][o.D], before.bal[accHard][o.D]))), true
	}
	panic("kind")
}

func coqObs(cls Class, out *big.Int, before, after *snap) string {
	var db, dsd, dh, dv, dsh []string
	for a := 0; a < nAcc; a++ {
		for d := 0; d < nDen; d++ {
			if !eq(before.bal[a][d], after.bal[a][d]) {
				db = append(db, fmt.Sprintf("(%s, %s, %s)", Nat(a), Nat(d), Z(after.bal[a][d])))
			}
			if !eq(before.sdep[a][d], after.sdep[a][d]) {
				dsd = append(dsd, fmt.Sprintf("(%s, %s, %s)", Nat(a), Nat(d), Z(after.sdep[a][d])))
			}
			if !eq(before.shr[a][d], after.shr[a][d]) {
				dsh = append(dsh, fmt.Sprintf("(%s, %s, %s)", Nat(a), Nat(d), Z(after.shr[a][d])))
			}
		}
	}
	for d := 0; d < nDen; d++ {
		if !eq(before.hval[d], after.hval[d]) {
			dh = append(dh, fmt.Sprintf("(%s, %s)", Nat(d), Z(after.hval[d])))
		}
		if !eq(vrecZ(before.vrec[d]), vrecZ(after.vrec[d])) {
			dv = append(dv, fmt.Sprintf("(%s, %s)", Nat(d), Z(vrecZ(after.vrec[d]))))
		}
	}
	vals := make([]string, nUsers)
	for u := 0; u < nUsers; u++ {
		vals[u] = ZList(after.vals[u][:])
	}
	return fmt.Sprintf("mkObs %s %s %s %s %s %s %s %s", cls.Coq(), Z(out), List(db), List(dsd), List(dh), List(dv), List(dsh), List(vals))
}

// ------------------------------------------------------------ history runner

type hist struct {
	Seed uint64 `json:"seed"`
	Idx  int    `json:"history"`
	Ops  []op   `json:"ops"`
}

func errKind(err error) string {
	if err == nil {
		return "none"
	}
	m := err.Error()
	for _, k := range []string{"insufficient funds", "insufficient vault account value", "vault share record not found", "vault record not found",
		"invalid vault strategy", "invalid vault denom", "insufficient amount", "account deposit not allowed", "invalid coins", "share count is zero",
		"total value of vault is zero", "no deposit found", "invalid withdraw denom", "invalid deposit denom", "invalid strategy", "exceeds", "borrow"} {
		if strings.Contains(m, k) {
			return strings.ReplaceAll(k, " ", "-")
		}
	}
	// unclassified: keep a digit-free prefix of the text so that the evidence shows what it was
	var b strings.Builder
	for _, r := range m {
		if (r >= 'a' && r <= 'z') || (r >= 'A' && r <= 'Z') || r == ' ' {
			b.WriteRune(r)
		}
		if b.Len() >= 48 {
			break
		}
	}
	return "other:" + strings.ReplaceAll(strings.TrimSpace(b.String()), " ", "-")
}

func countSplits(o op, cls Class, out *big.Int, before, after *snap, splits map[string]bool, cnt *Counters) {
	mark := func(k string) {
		splits[k] = true
		if cnt != nil {
			cnt.Inc("split:" + k)
		}
	}
	if cls != ClassOk {
		if o.Kind == "ewd" && o.D < nDen && before.shr[o.U][o.D].Sign() > 0 {
			mark("ewd:refused-with-shares")
		}
		return
	}
	switch o.Kind {
	case "edep":
		st := []string{"", "hard", "savings"}[vaultStrat[o.D]]
		if before.vrec[o.D] == nil {
			if before.position(o.D).Sign() > 0 {
				mark("edep:first-with-orphaned-value")
			} else {
				mark("edep:first:" + st)
			}
		} else {
			mark("edep:existing:" + st)
			// share price above / below / at one
			c := new(big.Int).Mul(before.position(o.D), Pow10(18)).Cmp(before.vrec[o.D])
			mark(fmt.Sprintf("edep:price-cmp-one=%d", c))
		}
	case "ewd":
		st := []string{"", "hard", "savings"}[vaultStrat[o.D]]
		mark("ewd:" + st)
		if out.Sign() == 0 {
			mark("ewd:pays-zero")
		}
		if after.shr[o.U][o.D].Sign() == 0 {
			loss := new(big.Int).Sub(nonneg(before.vals[o.U][o.D]), out)
			if loss.Sign() == 0 {
				mark("ewd:full-exact")
			} else if loss.Cmp(big.NewInt(1)) > 0 {
				mark("ewd:dust-sweep-large")
			} else {
				mark("ewd:dust-sweep-small")
			}
		} else {
			mark("ewd:partial")
		}
		if after.vrec[o.D] == nil {
			mark("ewd:record-deleted")
			if after.position(o.D).Sign() > 0 {
				mark("ewd:orphans-value")
			}
		}
		others := false
		for _, h := range before.hold {
			if h.idx != o.U && h.shares[o.D].Sign() > 0 {
				others = true
			}
		}
		if others {
			mark("ewd:with-other-holders")
		}
	case "swd":
		capped := false
		for _, cn := range o.Coins {
			if amt(cn.A).BigInt().Cmp(before.sdep[o.U][cn.D]) > 0 {
				capped = true
			}
		}
		if capped {
			mark("swd:capped")
		} else {
			mark("swd:within")
		}
	case "sdep":
		mark("sdep")
	case "tick":
		if after.hval[dUsdx].Cmp(before.hval[dUsdx]) > 0 {
			mark("tick:position-grew")
		} else {
			mark("tick:no-growth")
		}
	case "donate":
		mark("donate")
	case "flow":
		mark("flow")
	}
}

// W1: deposit 100, withdraw 91 (9 coins swept as "dust" and left without an owner);
// W2: another account deposits 1 and withdraws 10
var knownStream = []op{
	{Kind: "edep", U: 0, D: dUkava, A: "100", Strat: 2},
	{Kind: "ewd", U: 0, D: dUkava, A: "91", Strat: 2},
	{Kind: "edep", U: 1, D: dUkava, A: "1", Strat: 2},
	{Kind: "ewd", U: 1, D: dUkava, A: "10", Strat: 2},
}

var allSplits = []string{
	"edep:first:hard", "edep:first:savings", "edep:existing:hard", "edep:existing:savings", "edep:first-with-orphaned-value",
	"edep:price-cmp-one=1", "edep:price-cmp-one=0",
	"ewd:hard", "ewd:savings", "ewd:pays-zero", "ewd:full-exact", "ewd:dust-sweep-small", "ewd:dust-sweep-large", "ewd:partial",
	"ewd:record-deleted", "ewd:orphans-value", "ewd:with-other-holders", "ewd:refused-with-shares", "ewd:strategy-illiquid",
	"swd:capped", "swd:within", "sdep", "tick:position-grew", "tick:no-growth", "donate", "flow",
}

// runHist executes generated (ops == nil) or explicit operations; returns the
// executed ops, the Coq term, the first monitor failure, and the splits hit.
func runHist(seed uint64, idx, n int, ops []op, cnt *Counters) (exec []op, coq string, fails []*Failure, okOps int, splits map[string]bool) {
	w := setup()
	r := NewRng(seed, uint64(idx))
	splits = map[string]bool{}
	prev := w.snap()
	header := coqEnvState(prev)
	var steps []string
	seenSig := map[string]bool{}
	record := func(v *verdict, step int) {
		if v != nil && !seenSig[v.sig] { // the first failure of every signature
			seenSig[v.sig] = true
			fails = append(fails, toFailure(v, idx, step))
		}
	}
	record(stateMonitor(prev), 0)
	if ops != nil {
		n = len(ops)
	}
	for i := 0; i < n; i++ {
		var o op
		if ops != nil {
			o = ops[i]
		} else if idx == 0 && i < len(knownStream) {
			o = knownStream[i] // dedicated stream: reproduces the two recorded findings on every run
		} else {
			o = genOp(r, prev, cnt)
		}
		cls, err, out := w.exec(o)
		after := w.snap()
		exec = append(exec, o)
		if cnt != nil {
			cnt.Inc("op:" + o.Kind + ":" + cls.String())
			if cls == ClassErr {
				cnt.Inc("err:" + o.Kind + ":" + errKind(err))
				if o.Kind == "ewd" && errKind(err) == "insufficient-funds" {
					cnt.Inc("split:ewd:strategy-illiquid")
				}
			}
		}
		if cls == ClassOk && o.Kind != "tick" && o.Kind != "flow" {
			okOps++
		}
		countSplits(o, cls, out, prev, after, splits, cnt)
		if term, ok := coqOp(o, cls, prev, after); ok {
			steps = append(steps, fmt.Sprintf("(%s,\n    %s)", term, coqObs(cls, out, prev, after)))
		}
		record(w.opMonitor(o, cls, out, prev, after), i)
		prev = after
	}
	coq = fmt.Sprintf("mkHist %s\n  %s", header, List(steps))
	return
}

func run(o Opts) (*Result, error) {
	n := o.Len
	if n == 0 {
		n = defaultLen
	}
	res := &Result{Property: "C11", Seed: o.Seed,
		Rule: fmt.Sprintf("histories of %d operations (savings and earn messages of 3 accounts on a hard-strategy, a savings-strategy and a private savings-strategy vault, bank sends to the earn module account, third-party hard borrows/repays, block ticks accruing hard interest) generated from splitmix64(seed, history index) on a fresh app.TestApp; a history is non-trivial when it contains a successful operation that exercises the dust sweep, a zero payout, a full exit from a vault, a deposit into a vault holding ownerless value, a capped savings withdrawal, or a deposit at a share price above one (after interest accrued); distinct by hash of the operation list", n)}
	cnt := NewCounters()

	if o.Replay != "" {
		bz, err := os.ReadFile(o.Replay)
		if err != nil {
			return nil, err
		}
		var h hist
		if err := json.Unmarshal(bz, &h); err != nil {
			return nil, err
		}
		_, coq, fails, _, _ := runHist(h.Seed, h.Idx, 0, h.Ops, cnt)
		name, err := WriteShard(o.OutDir, 0, coqHeader, []string{coq}, "mismatches")
		if err != nil {
			return nil, err
		}
		res.Shards = []string{name}
		res.HistIndex = []HistRef{{Shard: 0, Pos: 0, Hist: h.Idx, Desc: MustJSON(h)}}
		res.Histories, res.Evaluations = 1, len(h.Ops)
		for _, fail := range fails {
			fail.Replay = MustJSON(h)
			res.Failures = append(res.Failures, *fail)
		}
		res.Counters = cnt.Map()
		return res, nil
	}

	type outT struct {
		ops    []op
		coq    string
		fails  []*Failure
		okOps  int
		splits map[string]bool
	}
	outs := make([]outT, o.N)
	ParallelFor(o.N, o.Workers, func(i int) {
		ops, coq, fails, okOps, splits := runHist(o.Seed, i, n, nil, cnt)
		for _, f := range fails {
			f.Replay = MustJSON(hist{o.Seed, i, ops[:f.Step+1]})
		}
		outs[i] = outT{ops, coq, fails, okOps, splits}
	})
	// shrink, for every signature, its failures in the two lowest-numbered histories (deterministic choice)
	type job struct{ i, k int }
	perSig := map[string]int{}
	var toShrink []job
	for i := range outs {
		for k, f := range outs[i].fails {
			if perSig[f.Signature] < 2 {
				perSig[f.Signature]++
				toShrink = append(toShrink, job{i, k})
			}
		}
	}
	ParallelFor(len(toShrink), o.Workers, func(j int) {
		i, k := toShrink[j].i, toShrink[j].k
		fail := outs[i].fails[k]
		sig := fail.Signature
		has := func(cand []op) *Failure {
			_, _, fs, _, _ := runHist(o.Seed, i+1000000, 0, cand, nil) // explicit ops: the index only labels the history
			for _, f := range fs {
				if f.Signature == sig {
					return f
				}
			}
			return nil
		}
		small := Shrink(outs[i].ops[:fail.Step+1], func(cand []op) bool { return has(cand) != nil })
		if f2 := has(small); f2 != nil {
			f2.History = i
			f2.Step = fail.Step
			f2.Replay = MustJSON(hist{o.Seed, i, small})
			outs[i].fails[k] = f2
		}
	})

	seen := map[string]bool{}
	perShard := 25
	var cases []string
	shard := 0
	flush := func() error {
		if len(cases) == 0 {
			return nil
		}
		name, err := WriteShard(o.OutDir, shard, coqHeader, cases, "mismatches")
		if err != nil {
			return err
		}
		res.Shards = append(res.Shards, name)
		shard++
		cases = nil
		return nil
	}
	interesting := map[string]bool{"ewd:dust-sweep-small": true, "ewd:dust-sweep-large": true, "ewd:pays-zero": true, "ewd:full-exact": true,
		"edep:first-with-orphaned-value": true, "swd:capped": true, "edep:price-cmp-one=1": true, "ewd:orphans-value": true}
	for i, ot := range outs {
		res.Histories++
		res.Evaluations += len(ot.ops)
		h := hist{o.Seed, i, ot.ops}
		key := string(MustJSON(ot.ops))
		nontrivial := false
		for k := range ot.splits {
			if interesting[k] {
				nontrivial = true
			}
		}
		if nontrivial && ot.okOps > 0 && !seen[key] {
			seen[key] = true
			res.DistinctNontrivial++
		}
		if i < 2 {
			res.Samples = append(res.Samples, h)
		}
		res.HistIndex = append(res.HistIndex, HistRef{Shard: shard, Pos: len(cases), Hist: i, Desc: MustJSON(h)})
		cases = append(cases, ot.coq)
		if len(cases) == perShard {
			if err := flush(); err != nil {
				return nil, err
			}
		}
	}
	// shrunk failures first, so that the check reports a minimised replay per signature
	isShrunk := map[job]bool{}
	for _, j := range toShrink {
		isShrunk[j] = true
		res.Failures = append(res.Failures, *outs[j.i].fails[j.k])
	}
	for i, ot := range outs {
		for k, f := range ot.fails {
			if !isShrunk[job{i, k}] {
				res.Failures = append(res.Failures, *f)
			}
		}
	}
	if err := flush(); err != nil {
		return nil, err
	}
	res.Counters = cnt.Map()
	okc, tot := 0, 0
	for k, v := range res.Counters {
		if strings.HasPrefix(k, "op:") {
			tot += v
			if strings.HasSuffix(k, ":ok") {
				okc += v
			}
		}
	}
	res.Extra = map[string]any{"ops_ok_percent": 100 * okc / max1(tot)}
	for _, k := range allSplits {
		if res.Counters["split:"+k] == 0 {
			res.QualityGate = append(res.QualityGate, k)
		}
	}
	return res, nil
}

func max1(x int) int {
	if x < 1 {
		return 1
	}
	return x
}
