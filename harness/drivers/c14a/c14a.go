// Package c14a is a component of the C14 check (genesis export/import round
// trip): per-module in-place re-imports on the real keepers of x/cdp, x/auction
// and x/bep3 inside ordinary operation histories, tied to the Coq round-trip
// models (Model/GenesisCdp.v, GenesisAuction.v, GenesisBep3.v).
package c14a

import (
	. "kavaverif/lib"

	"encoding/json"
	"fmt"
	"os"

	"kavaverif/drivers/c06"
	"kavaverif/drivers/c13"
)

func init() { Registry["C14a"] = run }

const rule = "histories of the module's ordinary operations (the C04 / C06 / C13 worlds and generators) with in-place genesis re-imports (ExportGenesis, Validate, JSON round trip, empty the module's KV store, InitGenesis) at PRNG-chosen points, continued on the re-imported store; a history is non-trivial when a re-import succeeded on a store holding at least one record (cdp / auction / swap); distinct by module and operation list"

type part struct {
	name   string
	header string
	mism   string
	share  int // share of the histories, in 12ths
	run    func(seed uint64, i, n int, cnt *Counters) partOut
	replay func(raw json.RawMessage, cnt *Counters) (partOut, error)
	length int
}

var parts = []part{
	{"cdp", cdpHeader, "gmismatches", 4, cdpPart, cdpReplay, 24},
	{"auction", c06.GenesisHeader, "gmismatches", 4, c06.GenesisPart, c06.GenesisReplay, 36},
	{"bep3", c13.GenesisHeader, "gmismatches", 4, c13.GenesisPart, c13.GenesisReplay, 36},
}

func run(o Opts) (*Result, error) {
	res := &Result{Property: "C14a", Seed: o.Seed, Rule: rule}
	cnt := NewCounters()
	if o.Replay != "" {
		bz, err := os.ReadFile(o.Replay)
		if err != nil {
			return nil, err
		}
		var probe struct {
			Part string `json:"part"`
		}
		if err := json.Unmarshal(bz, &probe); err != nil {
			return nil, err
		}
		for _, p := range parts {
			if p.name != probe.Part {
				continue
			}
			ro, err := p.replay(bz, cnt)
			if err != nil {
				return nil, err
			}
			name, err := WriteShard(o.OutDir, 0, p.header, []string{ro.Coq}, p.mism)
			if err != nil {
				return nil, err
			}
			res.Shards = []string{name}
			res.HistIndex = []HistRef{{Shard: 0, Pos: 0, Hist: 0, Desc: MustJSON(ro.Desc)}}
			res.Histories, res.Evaluations = 1, ro.NOps
			if ro.Fail != nil {
				res.Failures = append(res.Failures, *ro.Fail)
			}
			res.Counters = cnt.Map()
			return res, nil
		}
		return nil, fmt.Errorf("replay file names no part of C14a (part=%q)", probe.Part)
	}

	total := 0
	for _, p := range parts {
		total += p.share
	}
	shard := 0
	seen := map[string]bool{}
	hid := 0
	for _, p := range parts {
		n := o.N * p.share / total
		if n < 1 {
			n = 1
		}
		length := p.length
		if o.Len > 0 {
			length = o.Len
		}
		outs := make([]partOut, n)
		p := p
		ParallelFor(n, o.Workers, func(i int) { outs[i] = p.run(o.Seed, i, length, cnt) })
		perShard := 20
		var cases []string
		flush := func() error {
			if len(cases) == 0 {
				return nil
			}
			name, err := WriteShard(o.OutDir, shard, p.header, cases, p.mism)
			if err != nil {
				return err
			}
			res.Shards = append(res.Shards, name)
			shard++
			cases = nil
			return nil
		}
		for _, ot := range outs {
			res.Histories++
			res.Evaluations += ot.NOps
			if ot.Nontriv && !seen[p.name+ot.Key] {
				seen[p.name+ot.Key] = true
				res.DistinctNontrivial++
			}
			if len(res.Samples) < 3 && ot.Nontriv {
				res.Samples = append(res.Samples, ot.Desc)
			}
			res.HistIndex = append(res.HistIndex, HistRef{Shard: shard, Pos: len(cases), Hist: hid, Desc: MustJSON(ot.Desc)})
			cases = append(cases, ot.Coq)
			if ot.Fail != nil {
				ot.Fail.History = hid
				res.Failures = append(res.Failures, *ot.Fail)
			}
			hid++
			if len(cases) == perShard {
				if err := flush(); err != nil {
					return nil, err
				}
			}
		}
		if err := flush(); err != nil {
			return nil, err
		}
	}
	res.Counters = cnt.Map()
	for _, k := range wanted {
		if res.Counters[k] == 0 {
			res.QualityGate = append(res.QualityGate, k)
		}
	}
	return res, nil
}

// states in which a re-import must have happened at least once per run
var wanted = []string{
	"cdp/reimport:with-cdps", "cdp/reimport:with-accrued-fees", "cdp/reimport:with-third-party-deposits",
	"cdp/reimport:export-synchronises-interest", "cdp/reimport:after-liquidation",
}

func init() { wanted = append(append(wanted, c06.GenesisWanted...), c13.GenesisWanted...) }
