package c14a

// x/cdp part of the C14a component: ordinary C04 histories (package cdpcommon:
// world, generators, raw snapshots) with in-place genesis re-imports at
// PRNG-chosen points.  A re-import is
//
//	gs := cdp.ExportGenesis(branch of ctx)   (the export synchronises every cdp: its writes stay in the branch)
//	gs.Validate(); JSON round trip of gs through the app codec
//	delete every key of the cdp KV store; cdp.InitGenesis(ctx, ..., gs)
//
// on the real keeper, with the real bank / price feed / account keepers left as
// they are; the history then continues on the re-imported store.

import (
	. "kavaverif/lib"

	"bytes"
	"encoding/hex"
	"encoding/json"
	"fmt"
	"strings"
	"time"

	sdk "github.com/cosmos/cosmos-sdk/types"

	"github.com/kava-labs/kava/x/cdp"
	cdptypes "github.com/kava-labs/kava/x/cdp/types"
	"kavaverif/drivers/cdpcommon"
)

const cdpHeader = "From Kava Require Import Base.Prelude Base.Dec Model.Cdp Model.GenesisCdp."

type cdpHist struct {
	Part string            `json:"part"`
	Seed uint64            `json:"seed"`
	Idx  int               `json:"history"`
	Cfg  cdpcommon.Config  `json:"config"`
	Ops  []cdpcommon.Op    `json:"ops"`
}

type partOut = GenesisPartOut

type finding struct{ pred, sig, detail string }

// cdpReimport performs the in-place re-import; the returned finding is a monitor failure.
func cdpReimport(w *cdpcommon.World, prev *cdpcommon.Snap, cnt *Counters) (Class, *finding) {
	var f *finding
	key := w.App.GetKVStoreKey(cdptypes.StoreKey)
	cdc := w.App.AppCodec()
	stage := "export"
	cls, err := Atomically(w.Ctx, func(ctx sdk.Context) error {
		bctx, _ := ctx.CacheContext()
		gs := cdp.ExportGenesis(bctx, w.K)
		exported := DumpStore(bctx, key)
		stage = "validate"
		if e := gs.Validate(); e != nil && f == nil {
			f = &finding{"cdp-exported-genesis-validates", "cdp-export-fails-validation", e.Error()}
		}
		stage = "json"
		bz := cdc.MustMarshalJSON(&gs)
		var gs2 cdptypes.GenesisState
		cdc.MustUnmarshalJSON(bz, &gs2)
		stage = "import"
		WipeStore(ctx, key)
		cdp.InitGenesis(ctx, w.K, w.App.GetPriceFeedKeeper(), w.App.GetAccountKeeper(), gs2)
		stage = "compare"
		imported := DumpStore(ctx, key)
		// what the genesis file does not carry is re-derived: market status flags (from the
		// current prices); an interest factor / total principal that was not stored is exported as
		// 1.0 / 0 and stored by the import.  Everything else must be byte-identical.
		statusP := hex.EncodeToString(cdptypes.PricefeedStatusKeyPrefix)
		ifacP := hex.EncodeToString(cdptypes.InterestFactorPrefix)
		prinP := hex.EncodeToString(cdptypes.PrincipalKeyPrefix)
		exempt := func(k string) bool {
			if strings.HasPrefix(k, statusP) {
				return true
			}
			if _, had := exported[k]; !had && (strings.HasPrefix(k, ifacP) || strings.HasPrefix(k, prinP)) {
				return true // checked through the keeper just below
			}
			return false
		}
		for _, tc := range w.Cfg.Types {
			if _, had := w.K.GetInterestFactor(bctx, tc.Name); !had {
				if fac, ok := w.K.GetInterestFactor(ctx, tc.Name); (!ok || !fac.Equal(sdk.OneDec())) && f == nil {
					f = &finding{"cdp-store-identical-after-reimport", "cdp-unset-interest-factor-not-one-after-reimport", tc.Name}
				}
			}
			if !w.K.GetTotalPrincipal(ctx, tc.Name, "usdx").Equal(w.K.GetTotalPrincipal(bctx, tc.Name, "usdx")) && f == nil {
				f = &finding{"cdp-store-identical-after-reimport", "cdp-total-principal-differs-after-reimport", tc.Name}
			}
		}
		if d := DiffDumps(exported, imported, exempt); len(d) > 0 && f == nil {
			f = &finding{"cdp-store-identical-after-reimport", "cdp-store-differs-after-reimport", strings.Join(d, "; ")}
		}
		// status flags after the import are the current price validity of each collateral's markets
		pk := w.App.GetPriceFeedKeeper()
		for _, tc := range w.Cfg.Types {
			for _, m := range []int{tc.Spot, tc.LiqM} {
				_, perr := pk.GetCurrentPrice(ctx, cdpcommon.Markets[m])
				if w.K.GetMarketStatus(ctx, cdpcommon.Markets[m]) != (perr == nil) && f == nil {
					f = &finding{"cdp-market-status-rederived", "cdp-market-status-wrong-after-reimport", cdpcommon.Markets[m]}
				}
			}
		}
		// re-export of the imported store yields the identical genesis
		b2, _ := ctx.CacheContext()
		gs3 := cdp.ExportGenesis(b2, w.K)
		if bz3 := cdc.MustMarshalJSON(&gs3); !bytes.Equal(bz, bz3) && f == nil {
			f = &finding{"cdp-reexport-identical", "cdp-reexport-differs", fmt.Sprintf("first export %d bytes, re-export %d bytes", len(bz), len(bz3))}
		}
		return nil
	})
	if cnt != nil {
		cnt.Inc("cdp/reimport:" + cls.String())
	}
	if cls != ClassOk {
		// the only panic the code announces: a collateral type without a previous accrual time
		// (export before the first begin blocker accumulated interest for it)
		noTime := false
		for _, t := range prev.PTime {
			if t < 0 {
				noTime = true
			}
		}
		if stage == "export" && noTime && err != nil && strings.Contains(err.Error(), "expected previous accrual time") {
			if cnt != nil {
				cnt.Inc("cdp/reimport:export-panics-without-accrual-time")
			}
			return cls, nil
		}
		return cls, &finding{"cdp-reimport-does-not-panic", "cdp-reimport-panics-at-" + stage, fmt.Sprint(err)}
	}
	return cls, f
}

func cdpCoqOp(op cdpcommon.Op) string {
	if op.Kind == "reimport" {
		return "GReimport"
	}
	return "GOp (" + cdpcommon.CoqOp(op) + ")"
}

// ------------------------------------------------------------ probes: perturbed genesis files

// cdpMutations are the single-field perturbations of a real export (name, needs a cdp / deposit / ...).
var cdpMutations = []string{
	"none", "cdp-id-eq-start", "cdp-id-gt-start", "cdp-id-zero", "start-id-lower", "fees-negative", "principal-negative",
	"collateral-negative", "collateral-changed", "unknown-type", "fees-updated-zero", "fees-updated-below-one-second",
	"fees-updated-one-second", "dup-cdp", "drop-cdp", "deposit-id-zero", "deposit-negative", "deposit-orphan", "drop-deposit",
	"acc-factor-below-one", "acc-factor-one", "acc-time-zero", "acc-time-below-one-second", "acc-unknown-type", "drop-acc",
	"tprin-negative", "tprin-changed", "drop-tprin",
}

func cdpMutate(gs *cdptypes.GenesisState, mut string, i int) (applied bool) {
	defer func() {
		applied = applied || mut == "none"
	}()
	nc, nd, na, nt := len(gs.CDPs), len(gs.Deposits), len(gs.PreviousAccumulationTimes), len(gs.TotalPrincipals)
	neg := sdk.NewInt(-1)
	switch mut {
	case "cdp-id-eq-start":
		if nc > 0 {
			applied = true
			gs.CDPs[i%nc].ID = gs.StartingCdpID
		}
	case "cdp-id-gt-start":
		if nc > 0 {
			applied = true
			gs.CDPs[i%nc].ID = gs.StartingCdpID + 5
		}
	case "cdp-id-zero":
		if nc > 0 {
			applied = true
			gs.CDPs[i%nc].ID = 0
		}
	case "start-id-lower":
		if nc > 0 {
			applied = true
			gs.StartingCdpID = gs.CDPs[i%nc].ID
		}
	case "fees-negative":
		if nc > 0 {
			applied = true
			gs.CDPs[i%nc].AccumulatedFees.Amount = neg
		}
	case "principal-negative":
		if nc > 0 {
			applied = true
			gs.CDPs[i%nc].Principal.Amount = neg
		}
	case "collateral-negative":
		if nc > 0 {
			applied = true
			gs.CDPs[i%nc].Collateral.Amount = neg
		}
	case "collateral-changed":
		if nc > 0 {
			applied = true
			gs.CDPs[i%nc].Collateral.Amount = gs.CDPs[i%nc].Collateral.Amount.AddRaw(1)
		}
	case "unknown-type":
		if nc > 0 {
			applied = true
			gs.CDPs[i%nc].Type = "nope-a"
		}
	case "fees-updated-zero":
		if nc > 0 {
			applied = true
			gs.CDPs[i%nc].FeesUpdated = time.Unix(0, 0).UTC()
		}
	case "fees-updated-below-one-second":
		if nc > 0 {
			applied = true
			gs.CDPs[i%nc].FeesUpdated = time.Unix(0, 999_999_999).UTC()
		}
	case "fees-updated-one-second":
		if nc > 0 {
			applied = true
			gs.CDPs[i%nc].FeesUpdated = time.Unix(1, 0).UTC()
		}
	case "dup-cdp":
		if nc > 0 {
			applied = true
			gs.CDPs = append(gs.CDPs, gs.CDPs[i%nc])
		}
	case "drop-cdp":
		if nc > 0 {
			applied = true
			gs.CDPs = append(append(cdptypes.CDPs{}, gs.CDPs[:i%nc]...), gs.CDPs[i%nc+1:]...)
		}
	case "deposit-id-zero":
		if nd > 0 {
			applied = true
			gs.Deposits[i%nd].CdpID = 0
		}
	case "deposit-negative":
		if nd > 0 {
			applied = true
			gs.Deposits[i%nd].Amount.Amount = neg
		}
	case "deposit-orphan":
		if nd > 0 {
			applied = true
			gs.Deposits[i%nd].CdpID = gs.StartingCdpID + 7
		}
	case "drop-deposit":
		if nd > 0 {
			applied = true
			gs.Deposits = append(append(cdptypes.Deposits{}, gs.Deposits[:i%nd]...), gs.Deposits[i%nd+1:]...)
		}
	case "acc-factor-below-one":
		if na > 0 {
			applied = true
			gs.PreviousAccumulationTimes[i%na].InterestFactor = sdk.MustNewDecFromStr("0.999999999999999999")
		}
	case "acc-factor-one":
		if na > 0 {
			applied = true
			gs.PreviousAccumulationTimes[i%na].InterestFactor = sdk.OneDec()
		}
	case "acc-time-zero":
		if na > 0 {
			applied = true
			gs.PreviousAccumulationTimes[i%na].PreviousAccumulationTime = time.Unix(0, 0).UTC()
		}
	case "acc-time-below-one-second":
		if na > 0 {
			applied = true
			gs.PreviousAccumulationTimes[i%na].PreviousAccumulationTime = time.Unix(0, 999_999_999).UTC()
		}
	case "acc-unknown-type":
		if na > 0 {
			applied = true
			gs.PreviousAccumulationTimes[i%na].CollateralType = "nope-a"
		}
	case "drop-acc":
		if na > 0 {
			applied = true
			gs.PreviousAccumulationTimes = append(append(cdptypes.GenesisAccumulationTimes{}, gs.PreviousAccumulationTimes[:i%na]...), gs.PreviousAccumulationTimes[i%na+1:]...)
		}
	case "tprin-negative":
		if nt > 0 {
			applied = true
			gs.TotalPrincipals[i%nt].TotalPrincipal = neg
		}
	case "tprin-changed":
		if nt > 0 {
			applied = true
			gs.TotalPrincipals[i%nt].TotalPrincipal = gs.TotalPrincipals[i%nt].TotalPrincipal.AddRaw(3)
		}
	case "drop-tprin":
		if nt > 0 {
			applied = true
			gs.TotalPrincipals = append(append(cdptypes.GenesisTotalPrincipals{}, gs.TotalPrincipals[:i%nt]...), gs.TotalPrincipals[i%nt+1:]...)
		}
	}
	return applied
}

// cdpGenesisCoq renders a genesis state as a term of Model/GenesisCdp.v.
func cdpGenesisCoq(w *cdpcommon.World, gs *cdptypes.GenesisState) string {
	var cs, ds, as, ts []string
	for _, c := range gs.CDPs {
		cs = append(cs, fmt.Sprintf("mkCdp %s %s %s %s %s %s %s %s", Nat(int(c.ID)), Nat(w.AddrIndex(c.Owner)), Nat(w.TypeIndex(c.Type)),
			Z(c.Collateral.Amount.BigInt()), Z(c.Principal.Amount.BigInt()), Z(c.AccumulatedFees.Amount.BigInt()),
			Zi(c.FeesUpdated.UnixNano()), Z(cdpcommon.Mant(c.InterestFactor))))
	}
	for _, d := range gs.Deposits {
		ds = append(ds, fmt.Sprintf("(%s, %s, %s)", Nat(int(d.CdpID)), Nat(w.AddrIndex(d.Depositor)), Z(d.Amount.Amount.BigInt())))
	}
	for _, a := range gs.PreviousAccumulationTimes {
		as = append(as, fmt.Sprintf("(%s, %s, %s)", Nat(w.TypeIndex(a.CollateralType)), Zi(a.PreviousAccumulationTime.UnixNano()), Z(cdpcommon.Mant(a.InterestFactor))))
	}
	for _, t := range gs.TotalPrincipals {
		ts = append(ts, fmt.Sprintf("(%s, %s)", Nat(w.TypeIndex(t.CollateralType)), Z(t.TotalPrincipal.BigInt())))
	}
	return fmt.Sprintf("(mkGen %s %s %s %s %s)", List(cs), List(ds), Nat(int(gs.StartingCdpID)), List(as), List(ts))
}

// cdpProbe exports on a discarded branch, perturbs one field, runs the real Validate and the real InitGenesis
// (empty store, discarded branch, recover) and renders the perturbed genesis with both verdicts.
func cdpProbe(w *cdpcommon.World, mut string, i int, cnt *Counters) (string, *finding) {
	key := w.App.GetKVStoreKey(cdptypes.StoreKey)
	var gs cdptypes.GenesisState
	exported := false
	func() {
		defer func() { _ = recover() }()
		bctx, _ := w.Ctx.CacheContext()
		gs = cdp.ExportGenesis(bctx, w.K)
		exported = true
	}()
	if !exported {
		// the export panics (a type without accrual time): probe the empty genesis with the same parameters
		gs = cdptypes.NewGenesisState(w.K.GetParams(w.Ctx), cdptypes.CDPs{}, cdptypes.Deposits{}, w.K.GetNextCdpID(w.Ctx),
			w.K.GetDebtDenom(w.Ctx), w.K.GetGovDenom(w.Ctx), nil, nil)
		mut = "none"
	}
	applied := cdpMutate(&gs, mut, i)
	valid := gs.Validate() == nil
	cls := ClassOk
	func() {
		defer func() {
			if r := recover(); r != nil {
				cls = ClassPanic
			}
		}()
		ictx, _ := w.Ctx.CacheContext()
		WipeStore(ictx, key)
		cdp.InitGenesis(ictx, w.K, w.App.GetPriceFeedKeeper(), w.App.GetAccountKeeper(), gs)
	}()
	if cnt != nil {
		cnt.Inc(fmt.Sprintf("cdp/probe:%s:valid=%v:init=%s", mut, valid, cls))
	}
	var f *finding
	if want, ok := cdpExpect[mut]; ok && applied && exported && (want[0] != valid || want[1] != (cls == ClassOk)) {
		f = &finding{"cdp-genesis-verdicts:" + mut, "cdp-probe-verdict-" + mut,
			fmt.Sprintf("perturbation %s (index %d) of the exported genesis: Validate passes=%v (expected %v), InitGenesis ok=%v (expected %v)", mut, i, valid, want[0], cls == ClassOk, want[1])}
	}
	// stated on the implementation alone: a genesis state GenesisState.Validate refuses is never imported
	if !valid && cls == ClassOk {
		f = &finding{"invalid-genesis-imported:cdp:" + mut, "invalid-genesis-imported:cdp:" + mut,
			fmt.Sprintf("GenesisState.Validate refuses this genesis state (perturbation %s, index %d, of a real export) but InitGenesis on an emptied store imports it: %s", mut, i, cdpGenesisCoq(w, &gs))}
	}
	return fmt.Sprintf("GProbe %s %s %s", cdpGenesisCoq(w, &gs), Bool(valid), cls.Coq()), f
}

// cdpExpect: what GenesisState.Validate / InitGenesis must say about a perturbed export (validate passes, init ok),
// stated independently of the model, for the perturbations whose verdict does not depend on the state
var cdpExpect = map[string][2]bool{
	"none": {true, true}, "cdp-id-zero": {false, false}, "fees-negative": {false, false}, "principal-negative": {false, false},
	"collateral-negative": {false, false}, "fees-updated-zero": {false, false}, "fees-updated-below-one-second": {false, false},
	"fees-updated-one-second": {true, true}, "deposit-id-zero": {false, false}, "deposit-negative": {false, false},
	"acc-factor-below-one": {false, false}, "tprin-negative": {false, false}, "cdp-id-eq-start": {true, false},
	"start-id-lower": {true, false}, "unknown-type": {true, false}, "cdp-id-gt-start": {true, true}, "deposit-orphan": {true, true},
	"collateral-changed": {true, true}, "acc-time-zero": {true, true}, "drop-deposit": {true, true},
}

// cdpExportValidates: the monitor "every reachable state exports a genesis that passes validation"
func cdpExportValidates(w *cdpcommon.World, prev *cdpcommon.Snap) *finding {
	for _, t := range prev.PTime {
		if t < 0 {
			return nil // the export panics by design before the first accrual time is set
		}
	}
	var f *finding
	func() {
		defer func() {
			if r := recover(); r != nil {
				f = &finding{"cdp-export-does-not-panic", "cdp-export-panics", fmt.Sprint(r)}
			}
		}()
		bctx, _ := w.Ctx.CacheContext()
		gs := cdp.ExportGenesis(bctx, w.K)
		if e := gs.Validate(); e != nil {
			f = &finding{"cdp-exported-genesis-validates", "cdp-export-fails-validation", e.Error()}
		}
	}()
	return f
}

// runCdp executes generated (ops == nil) or explicit operations on a fresh world.
func runCdp(seed uint64, idx, n int, cfg *cdpcommon.Config, ops []cdpcommon.Op, cnt *Counters) (partOut, cdpcommon.Config, []cdpcommon.Op) {
	r := NewRng(seed, uint64(idx)+1_000_000)
	var c cdpcommon.Config
	if cfg != nil {
		c = *cfg
	} else {
		c = cdpcommon.GenConfig(r, "c04")
		// the export needs a previous accrual time for every type: mostly start with one
		if !r.Chance(1, 8) {
			for i := range c.Types {
				c.Types[i].GenFac, c.Types[i].GenTime = true, true
			}
		}
	}
	w := cdpcommon.Setup(c)
	g := &cdpcommon.Gen{R: r, W: w, Mode: "c04", Cnt: nil}
	prev := w.Snap()
	header := w.CoqEnvState(prev)
	tol := &cdpcommon.Tol{}
	var steps []string
	var done []cdpcommon.Op
	out := partOut{}
	if ops != nil {
		n = len(ops)
	}
	forced := n/2 + r.Intn(n/2+1)
	liquidated := false
	probes := 0
	for i := 0; i < n; i++ {
		var op cdpcommon.Op
		if ops != nil {
			op = ops[i]
		} else {
			interesting := len(prev.Cdps) > 0
			if probes > 0 {
				probes--
				op = cdpcommon.Op{Kind: "probe", X: cdpMutations[r.Intn(len(cdpMutations))], O: r.Intn(8)}
			} else if i == forced || (interesting && r.Chance(1, 6)) || (!interesting && r.Chance(1, 30)) {
				op = cdpcommon.Op{Kind: "reimport"}
			} else {
				op = g.GenOp(prev)
			}
		}
		var cls Class
		var f *finding
		coqOp := ""
		if op.Kind == "probe" {
			coqOp, f = cdpProbe(w, op.X, op.O, cnt)
			cls = ClassOk
		} else if op.Kind == "reimport" {
			probes = 2
			cls, f = cdpReimport(w, prev, cnt)
			if cls == ClassOk && cnt != nil {
				// what state was re-imported
				fees, third, synced := false, false, false
				for _, cr := range prev.Cdps {
					if cr.Fees.Sign() > 0 {
						fees = true
					}
					if len(prev.Deps) > len(prev.Cdps) {
						third = true
					}
					if cr.T < len(prev.Ifac) && prev.Ifac[cr.T].Sign() > 0 && cr.Ifac.Cmp(prev.Ifac[cr.T]) != 0 {
						synced = true
					}
				}
				if len(prev.Cdps) > 0 {
					cnt.Inc("cdp/reimport:with-cdps")
				}
				if fees {
					cnt.Inc("cdp/reimport:with-accrued-fees")
				}
				if third {
					cnt.Inc("cdp/reimport:with-third-party-deposits")
				}
				if synced {
					cnt.Inc("cdp/reimport:export-synchronises-interest")
				}
				if liquidated {
					cnt.Inc("cdp/reimport:after-liquidation")
				}
			}
		} else {
			cls, _ = w.Exec(op)
			if cnt != nil {
				cnt.Inc("cdp/op:" + op.Kind + ":" + cls.String())
			}
		}
		after := w.Snap()
		if cls == ClassOk && (op.Kind == "liquidate" || (op.Kind == "block" && len(after.Cdps) < len(prev.Cdps))) {
			liquidated = true
		}
		done = append(done, op)
		tol.Step(prev, after)
		if cls == ClassOk && op.Kind == "reimport" && len(prev.Cdps) > 0 {
			out.Nontriv = true
		}
		if coqOp == "" {
			coqOp = cdpCoqOp(op)
		}
		steps = append(steps, fmt.Sprintf("(%s,\n    %s)", coqOp, cdpcommon.CoqObs(cls, prev, after)))
		if out.Fail == nil {
			if f == nil && cls == ClassOk && op.Kind != "probe" {
				f = cdpExportValidates(w, after)
			}
			if f == nil {
				if inv := w.InvariantsC04(after, tol); inv != nil {
					f = &finding{"cdp-invariants-after-" + map[bool]string{true: "reimport", false: "operation"}[op.Kind == "reimport"] + ":" + inv.Pred, "cdp-" + inv.Sig, inv.Detail}
				}
			}
			if f != nil {
				out.Fail = &Failure{History: idx, Step: i, Predicate: f.pred, Signature: "C14a:" + f.sig, Detail: f.detail}
			}
		}
		prev = after
	}
	out.NOps = n
	out.Coq = fmt.Sprintf("mkGHist %s\n  %s", header, List(steps))
	out.Key = string(MustJSON(done))
	return out, c, done
}

func cdpPart(seed uint64, i, n int, cnt *Counters) partOut {
	ro, cfg, ops := runCdp(seed, i, n, nil, nil, cnt)
	if ro.Fail != nil {
		sig := ro.Fail.Signature
		fails := func(cand []cdpcommon.Op) bool {
			r2, _, _ := runCdp(seed, i, 0, &cfg, cand, nil)
			return r2.Fail != nil && r2.Fail.Signature == sig
		}
		small := Shrink(ops[:ro.Fail.Step+1], fails)
		r2, _, _ := runCdp(seed, i, 0, &cfg, small, nil)
		if r2.Fail != nil {
			r2.Fail.History = i
			r2.Fail.Replay = MustJSON(cdpHist{"cdp", seed, i, cfg, small})
			ro.Fail = r2.Fail
		} else {
			ro.Fail.Replay = MustJSON(cdpHist{"cdp", seed, i, cfg, ops[:ro.Fail.Step+1]})
		}
	}
	ro.Desc = cdpHist{"cdp", seed, i, cfg, ops}
	return ro
}

func cdpReplay(raw json.RawMessage, cnt *Counters) (partOut, error) {
	var h cdpHist
	if err := json.Unmarshal(raw, &h); err != nil {
		return partOut{}, err
	}
	if len(h.Cfg.Types) == 0 {
		return partOut{}, fmt.Errorf("replay file has no cdp history")
	}
	ro, _, _ := runCdp(h.Seed, h.Idx, 0, &h.Cfg, h.Ops, cnt)
	if ro.Fail != nil {
		ro.Fail.Replay = MustJSON(h)
	}
	ro.Desc = h
	return ro, nil
}
