package c15

// C15 — ante gating.  Transactions (random and exhaustively enumerated trees of
// real authz.MsgExec / authz.MsgGrant around real message types, with every
// combination of extension options) are signed with the test keys and run
// through the REAL composed ante handler of a fresh app (the handler that
// app.NewApp installed, read back from baseapp) in CheckTx, ReCheckTx,
// simulate and DeliverTx mode, with the authenticated mempool on or off.
// Monitors state the property directly on the constructed sdk.Tx; the same
// evaluations are written as Coq terms for Model/Ante.v.

import (
	. "kavaverif/lib"

	"encoding/json"
	"errors"
	"fmt"
	"math/big"
	"os"
	"reflect"
	"sort"
	"strings"
	"sync"
	"time"
	"unsafe"

	errorsmod "cosmossdk.io/errors"
	sdkmath "cosmossdk.io/math"
	tmdb "github.com/cometbft/cometbft-db"
	abci "github.com/cometbft/cometbft/abci/types"
	"github.com/cometbft/cometbft/libs/log"
	tmproto "github.com/cometbft/cometbft/proto/tendermint/types"
	"github.com/cosmos/cosmos-sdk/baseapp"
	"github.com/cosmos/cosmos-sdk/client"
	clienttx "github.com/cosmos/cosmos-sdk/client/tx"
	"github.com/cosmos/cosmos-sdk/codec"
	codectypes "github.com/cosmos/cosmos-sdk/codec/types"
	cryptotypes "github.com/cosmos/cosmos-sdk/crypto/types"
	sdk "github.com/cosmos/cosmos-sdk/types"
	sdkerrors "github.com/cosmos/cosmos-sdk/types/errors"
	"github.com/cosmos/cosmos-sdk/types/tx/signing"
	authsigning "github.com/cosmos/cosmos-sdk/x/auth/signing"
	authtx "github.com/cosmos/cosmos-sdk/x/auth/tx"
	vestingtypes "github.com/cosmos/cosmos-sdk/x/auth/vesting/types"
	"github.com/cosmos/cosmos-sdk/x/authz"
	banktypes "github.com/cosmos/cosmos-sdk/x/bank/types"
	stakingtypes "github.com/cosmos/cosmos-sdk/x/staking/types"
	"github.com/ethereum/go-ethereum/common"
	ethtypes "github.com/ethereum/go-ethereum/core/types"
	"github.com/evmos/ethermint/crypto/ethsecp256k1"
	etherminttests "github.com/evmos/ethermint/tests"
	etherminttypes "github.com/evmos/ethermint/types"
	evmtypes "github.com/evmos/ethermint/x/evm/types"
	feemarkettypes "github.com/evmos/ethermint/x/feemarket/types"

	"github.com/kava-labs/kava/app"
	kavaante "github.com/kava-labs/kava/app/ante"
	bep3types "github.com/kava-labs/kava/x/bep3/types"
	hardtypes "github.com/kava-labs/kava/x/hard/types"
	pricefeedtypes "github.com/kava-labs/kava/x/pricefeed/types"
)

func init() { Registry["C15"] = runC15 }

const (
	c15NKeys    = 6 // cosmos test keys 0..5
	c15EthIdx   = 6 // the Ethereum key
	c15DefaultL = 24
	c15Gas      = 10_000_000
)

var c15Modes = []string{"check", "recheck", "simulate", "deliver"}

const (
	urlExec     = "/cosmos.authz.v1beta1.MsgExec"
	urlGrant    = "/cosmos.authz.v1beta1.MsgGrant"
	urlEth      = "/ethermint.evm.v1.MsgEthereumTx"
	urlVest     = "/cosmos.vesting.v1beta1.MsgCreateVestingAccount"
	urlPerm     = "/cosmos.vesting.v1beta1.MsgCreatePermanentLockedAccount"
	urlPeriodic = "/cosmos.vesting.v1beta1.MsgCreatePeriodicVestingAccount"
	optEth      = "/ethermint.evm.v1.ExtensionOptionsEthereumTx"
	optWeb3     = "/ethermint.types.v1.ExtensionOptionsWeb3Tx"
	optDynFee   = "/ethermint.types.v1.ExtensionOptionDynamicFeeTx"
	optUnknown  = "/kava.verif.v1.UnknownExtensionOption"
)

// the property's own lists, written here independently of model and source
var c15Blocked = map[string]bool{urlEth: true, urlVest: true, urlPerm: true, urlPeriodic: true}
var c15VestingTop = map[string]bool{urlVest: true, urlPerm: true, urlPeriodic: true}

// ------------------------------------------------------------ descriptions

// node describes one message of the tree.
type node struct {
	K string `json:"k"`           // send kava eth vest perm periodic exec grant
	A int    `json:"a"`           // acting account (signer of this message)
	C []node `json:"c,omitempty"` // exec: inner messages
	G string `json:"g,omitempty"` // grant: generic | send | stake
	T string `json:"t,omitempty"` // grant (generic): target kind (send kava eth vest perm periodic exec grant delegate)
}

type txDesc struct {
	Msgs  []node   `json:"msgs"`
	Opts  []string `json:"opts,omitempty"`   // eth web3 dynfee unknown
	NCrit []string `json:"ncrit,omitempty"`  // non-critical extension options (the router must ignore them)
	Flaw  string   `json:"flaw,omitempty"`   // "", badsig, stalenonce (eth tx)
	EthTx bool     `json:"eth_tx,omitempty"` // a wire-format Ethereum tx (built by MsgEthereumTx.BuildTx)
}

type cfgDesc struct {
	Auth    bool  `json:"auth"`    // MempoolEnableAuth
	Manual  []int `json:"manual"`  // MempoolAuthAddresses
	Oracles []int `json:"oracles"` // pricefeed oracles
	Deputy  int   `json:"deputy"`  // bep3 deputy (-1: none)
}

// unitDesc: AuthzLimiterDecorator alone, with an arbitrary disabled list
type unitDesc struct {
	Dis  []string `json:"dis"` // kinds (send kava eth vest perm periodic exec grant delegate)
	Msgs []node   `json:"msgs"`
}

type c15Hist struct {
	Seed  uint64     `json:"seed"`
	Idx   int        `json:"history"`
	Cfg   cfgDesc    `json:"cfg"`
	Txs   []txDesc   `json:"txs"`
	Units []unitDesc `json:"units,omitempty"`
	// Modes restricts the modes evaluated for every tx (default: all four)
	Modes []string `json:"modes,omitempty"`
}

// ------------------------------------------------------------ world

type c15World struct {
	tApp    app.TestApp
	handler sdk.AnteHandler
	txCfg   client.TxConfig
	cdc     codec.Codec
	keys    []cryptotypes.PrivKey // 0..5 cosmos keys, 6 eth key
	addrs   []sdk.AccAddress
	ethPriv *ethsecp256k1.PrivKey
	base    sdk.Context
	acct    sdk.Context // where account numbers, sequences and the eth nonce are read when building a tx
	accNum0 bool        // sign with account number 0 (what the SDK expects while the check state is still at height 0)
	cfg     cfgDesc
	authSet map[int]bool
	evmDen  string
	valAddr sdk.ValAddress
}

// realAnteHandler reads back the handler that app.NewApp passed to
// baseapp.SetAnteHandler (baseapp has no getter for it).
func realAnteHandler(b *baseapp.BaseApp) sdk.AnteHandler {
	f := reflect.ValueOf(b).Elem().FieldByName("anteHandler")
	if !f.IsValid() {
		panic("baseapp.BaseApp has no field anteHandler")
	}
	f = reflect.NewAt(f.Type(), unsafe.Pointer(f.UnsafeAddr())).Elem()
	h, ok := f.Interface().(sdk.AnteHandler)
	if !ok || h == nil {
		panic("no ante handler installed")
	}
	return h
}

func c15EthKey() *ethsecp256k1.PrivKey {
	k := make([]byte, 32)
	for i := range k {
		k[i] = byte(0x42 + i)
	}
	return &ethsecp256k1.PrivKey{Key: k}
}

var c15ConfigOnce sync.Once

func c15Setup(cfg cfgDesc) *c15World {
	c15ConfigOnce.Do(func() { NewApp() }) // sets the sdk config once
	keys, addrs := app.GeneratePrivKeyAddressPairs(c15NKeys)
	ethPriv := c15EthKey()
	keys = append(keys, ethPriv)
	addrs = append(addrs, sdk.AccAddress(ethPriv.PubKey().Address()))

	enc := app.MakeEncodingConfig()
	opts := app.DefaultOptions
	opts.MempoolEnableAuth = cfg.Auth
	for _, i := range cfg.Manual {
		opts.MempoolAuthAddresses = append(opts.MempoolAuthAddresses, addrs[i])
	}
	tApp := app.TestApp{App: *app.NewApp(log.NewNopLogger(), tmdb.NewMemDB(), app.DefaultNodeHome, nil, enc, opts, baseapp.SetChainID(app.TestChainId))}
	cdc := tApp.AppCodec()

	evmGen := evmtypes.DefaultGenesisState()
	evmGen.Params.EvmDenom = "akava"
	fmGen := feemarkettypes.DefaultGenesisState()
	fmGen.Params.EnableHeight = 1
	fmGen.Params.NoBaseFee = false
	gs := []app.GenesisState{
		app.NewFundedGenStateWithSameCoins(cdc, sdk.NewCoins(sdk.NewInt64Coin("ukava", 1e12)), addrs),
		{evmtypes.ModuleName: cdc.MustMarshalJSON(evmGen), feemarkettypes.ModuleName: cdc.MustMarshalJSON(fmGen)},
	}
	if len(cfg.Oracles) > 0 {
		var or []sdk.AccAddress
		for _, i := range cfg.Oracles {
			or = append(or, addrs[i])
		}
		pf := pricefeedtypes.GenesisState{Params: pricefeedtypes.Params{Markets: []pricefeedtypes.Market{
			{MarketID: "btc:usd", BaseAsset: "btc", QuoteAsset: "usd", Oracles: or, Active: true}}}}
		gs = append(gs, app.GenesisState{pricefeedtypes.ModuleName: cdc.MustMarshalJSON(&pf)})
	}
	if cfg.Deputy >= 0 {
		b3 := bep3types.GenesisState{
			Params: bep3types.Params{AssetParams: bep3types.AssetParams{bep3types.AssetParam{
				Denom: "bnb", CoinID: 714,
				SupplyLimit: bep3types.SupplyLimit{Limit: sdkmath.NewInt(350000000000000), TimeLimited: false, TimeBasedLimit: sdk.ZeroInt(), TimePeriod: time.Hour},
				Active:      true, DeputyAddress: addrs[cfg.Deputy], FixedFee: sdkmath.NewInt(1000),
				MinSwapAmount: sdk.OneInt(), MaxSwapAmount: sdkmath.NewInt(1000000000000),
				MinBlockLock: bep3types.DefaultMinBlockLock, MaxBlockLock: bep3types.DefaultMaxBlockLock,
			}}},
			Supplies: bep3types.AssetSupplies{bep3types.NewAssetSupply(
				sdk.NewCoin("bnb", sdk.ZeroInt()), sdk.NewCoin("bnb", sdk.ZeroInt()), sdk.NewCoin("bnb", sdk.ZeroInt()), sdk.NewCoin("bnb", sdk.ZeroInt()), time.Duration(0))},
			PreviousBlockTime: bep3types.DefaultPreviousBlockTime,
		}
		gs = append(gs, app.GenesisState{bep3types.ModuleName: cdc.MustMarshalJSON(&b3)})
	}
	tApp = tApp.InitializeFromGenesisStatesWithTimeAndChainID(GenesisTime, app.TestChainId, gs...)

	w := &c15World{tApp: tApp, handler: realAnteHandler(tApp.BaseApp), txCfg: enc.TxConfig, cdc: cdc,
		keys: keys, addrs: addrs, ethPriv: ethPriv, cfg: cfg, authSet: map[int]bool{}, evmDen: "akava"}
	w.base = tApp.NewContext(false, tmproto.Header{Height: tApp.LastBlockHeight() + 1, Time: GenesisTime, ChainID: app.TestChainId})
	// as baseapp does for its check and deliver states
	w.base = w.base.WithConsensusParams(tApp.BaseApp.GetConsensusParams(w.base))
	vals := tApp.GetStakingKeeper().GetAllValidators(w.base)
	if len(vals) > 0 {
		w.valAddr = vals[0].GetOperator()
		if ca, err := vals[0].GetConsAddr(); err == nil {
			h := w.base.BlockHeader()
			h.ProposerAddress = ca
			w.base = w.base.WithBlockHeader(h)
		}
	}
	w.acct = w.base
	if cfg.Auth {
		for _, i := range cfg.Manual {
			w.authSet[i] = true
		}
		for _, i := range cfg.Oracles {
			w.authSet[i] = true
		}
		if cfg.Deputy >= 0 {
			w.authSet[cfg.Deputy] = true
		}
	}
	return w
}

func (w *c15World) addrIndex(a sdk.AccAddress) int {
	for i, x := range w.addrs {
		if x.Equals(a) {
			return i
		}
	}
	return 99
}

// ------------------------------------------------------------ building real messages

var c15Future = time.Date(9000, 1, 1, 0, 0, 0, 0, time.UTC)

func (w *c15World) kindURL(k string) string {
	switch k {
	case "send":
		return sdk.MsgTypeURL(&banktypes.MsgSend{})
	case "kava":
		return sdk.MsgTypeURL(&hardtypes.MsgDeposit{})
	case "eth":
		return sdk.MsgTypeURL(&evmtypes.MsgEthereumTx{})
	case "vest":
		return sdk.MsgTypeURL(&vestingtypes.MsgCreateVestingAccount{})
	case "perm":
		return sdk.MsgTypeURL(&vestingtypes.MsgCreatePermanentLockedAccount{})
	case "periodic":
		return sdk.MsgTypeURL(&vestingtypes.MsgCreatePeriodicVestingAccount{})
	case "exec":
		return sdk.MsgTypeURL(&authz.MsgExec{})
	case "grant":
		return sdk.MsgTypeURL(&authz.MsgGrant{})
	case "delegate":
		return sdk.MsgTypeURL(&stakingtypes.MsgDelegate{})
	}
	panic("unknown kind " + k)
}

// ethMsg returns a fresh, signed MsgEthereumTx (a plain value transfer) with
// the sender's current nonce (+delta).
func (w *c15World) ethMsg(delta uint64) *evmtypes.MsgEthereumTx {
	chainID := w.tApp.GetEvmKeeper().ChainID()
	from := common.BytesToAddress(w.ethPriv.PubKey().Address().Bytes())
	nonce := w.tApp.GetEvmKeeper().GetNonce(w.acct, from) + delta
	gasPrice := big.NewInt(1_000_000_000)
	if bf := w.tApp.GetFeeMarketKeeper().GetBaseFee(w.base); bf != nil && bf.Sign() > 0 {
		gasPrice = new(big.Int).Mul(bf, big.NewInt(2))
	}
	to := common.BytesToAddress(w.addrs[0].Bytes())
	m := evmtypes.NewTx(chainID, nonce, &to, big.NewInt(1000), 21000, gasPrice, nil, nil, nil, nil)
	m.From = from.Hex()
	if err := m.Sign(ethtypes.LatestSignerForChainID(chainID), etherminttests.NewSigner(w.ethPriv)); err != nil {
		panic(err)
	}
	m.From = ""
	return m
}

func (w *c15World) build(n node, staleNonce bool) sdk.Msg {
	a := w.addrs[n.A%c15NKeys]
	b := w.addrs[(n.A+1)%c15NKeys]
	coin := sdk.NewCoins(sdk.NewInt64Coin("ukava", 1000))
	switch n.K {
	case "send":
		return banktypes.NewMsgSend(a, b, coin)
	case "kava":
		m := hardtypes.NewMsgDeposit(a, coin)
		return &m
	case "eth":
		d := uint64(0)
		if staleNonce {
			d = 7
		}
		return w.ethMsg(d)
	case "vest":
		return vestingtypes.NewMsgCreateVestingAccount(a, b, coin, c15Future.Unix(), false)
	case "perm":
		return vestingtypes.NewMsgCreatePermanentLockedAccount(a, b, coin)
	case "periodic":
		return vestingtypes.NewMsgCreatePeriodicVestingAccount(a, b, GenesisTime.Unix(), []vestingtypes.Period{{Length: 100, Amount: coin}})
	case "exec":
		inner := make([]sdk.Msg, len(n.C))
		for i, c := range n.C {
			inner[i] = w.build(c, staleNonce)
		}
		m := authz.NewMsgExec(a, inner)
		return &m
	case "grant":
		var au authz.Authorization
		switch n.G {
		case "send":
			au = banktypes.NewSendAuthorization(coin, nil)
		case "stake":
			val := w.valAddr
			if val.Empty() {
				val = sdk.ValAddress(w.addrs[5])
			}
			sa, err := stakingtypes.NewStakeAuthorization([]sdk.ValAddress{val}, nil, stakingtypes.AuthorizationType_AUTHORIZATION_TYPE_DELEGATE, nil)
			if err != nil {
				panic(err)
			}
			au = sa
		default:
			au = authz.NewGenericAuthorization(w.kindURL(n.T))
		}
		exp := c15Future
		m, err := authz.NewMsgGrant(a, b, au, &exp)
		if err != nil {
			panic(err)
		}
		return m
	}
	panic("unknown node kind " + n.K)
}

func optAny(k string) *codectypes.Any {
	switch k {
	case "eth":
		a, _ := codectypes.NewAnyWithValue(&evmtypes.ExtensionOptionsEthereumTx{})
		return a
	case "web3":
		a, _ := codectypes.NewAnyWithValue(&etherminttypes.ExtensionOptionsWeb3Tx{TypedDataChainID: 2221, FeePayer: "", FeePayerSig: nil})
		return a
	case "dynfee":
		a, _ := codectypes.NewAnyWithValue(&etherminttypes.ExtensionOptionDynamicFeeTx{MaxPriorityPrice: sdkmath.NewInt(1)})
		return a
	default:
		return &codectypes.Any{TypeUrl: optUnknown, Value: []byte{1, 2, 3}}
	}
}

// buildTx constructs and signs the real transaction.
func (w *c15World) buildTx(d txDesc) (sdk.Tx, error) {
	if d.EthTx {
		// the wire format of an Ethereum transaction: one MsgEthereumTx, the
		// ExtensionOptionsEthereumTx option, fee and gas from the tx data, no signatures
		delta := uint64(0)
		if d.Flaw == "stalenonce" {
			delta = 7
		}
		m := w.ethMsg(delta)
		return m.BuildTx(w.txCfg.NewTxBuilder(), w.evmDen)
	}
	msgs := make([]sdk.Msg, len(d.Msgs))
	for i, n := range d.Msgs {
		msgs[i] = w.build(n, false)
	}
	txb := w.txCfg.NewTxBuilder()
	if err := txb.SetMsgs(msgs...); err != nil {
		return nil, err
	}
	txb.SetGasLimit(c15Gas)
	txb.SetFeeAmount(sdk.NewCoins())
	if len(d.Opts) > 0 {
		eb, ok := txb.(authtx.ExtensionOptionsTxBuilder)
		if !ok {
			return nil, errors.New("builder cannot set extension options")
		}
		anys := make([]*codectypes.Any, len(d.Opts))
		for i, k := range d.Opts {
			anys[i] = optAny(k)
		}
		eb.SetExtensionOptions(anys...)
	}
	if len(d.NCrit) > 0 {
		eb, ok := txb.(authtx.ExtensionOptionsTxBuilder)
		if !ok {
			return nil, errors.New("builder cannot set extension options")
		}
		anys := make([]*codectypes.Any, len(d.NCrit))
		for i, k := range d.NCrit {
			anys[i] = optAny(k)
		}
		eb.SetNonCriticalExtensionOptions(anys...)
	}
	// signers as the SDK derives them; sign with the keys we have
	signers := txb.GetTx().GetSigners()
	type sg struct {
		priv     cryptotypes.PrivKey
		num, seq uint64
	}
	var sgs []sg
	for _, s := range signers {
		i := w.addrIndex(s)
		if i == 99 {
			continue
		}
		acc := w.tApp.GetAccountKeeper().GetAccount(w.acct, s)
		if acc == nil {
			continue
		}
		num := acc.GetAccountNumber()
		if w.accNum0 {
			num = 0
		}
		sgs = append(sgs, sg{w.keys[i], num, acc.GetSequence()})
	}
	mode := w.txCfg.SignModeHandler().DefaultMode()
	sigs := make([]signing.SignatureV2, len(sgs))
	for i, s := range sgs {
		sigs[i] = signing.SignatureV2{PubKey: s.priv.PubKey(), Data: &signing.SingleSignatureData{SignMode: mode}, Sequence: s.seq}
	}
	if err := txb.SetSignatures(sigs...); err != nil {
		return nil, err
	}
	chainID := app.TestChainId
	if d.Flaw == "badsig" {
		chainID = "some-other-chain_1-1"
	}
	for i, s := range sgs {
		sd := authsigning.SignerData{ChainID: chainID, AccountNumber: s.num, Sequence: s.seq}
		sig, err := clienttx.SignWithPrivKey(mode, sd, txb, s.priv, w.txCfg, s.seq)
		if err != nil {
			return nil, err
		}
		sigs[i] = sig
	}
	if err := txb.SetSignatures(sigs...); err != nil {
		return nil, err
	}
	return txb.GetTx(), nil
}

// wire sends the transaction through the encoder and decoder, as a node
// receives it; transactions that do not decode (unregistered option type) are
// used as constructed.
func (w *c15World) wire(tx sdk.Tx) (sdk.Tx, bool) {
	bz, err := w.txCfg.TxEncoder()(tx)
	if err != nil {
		return tx, false
	}
	tx2, err := w.txCfg.TxDecoder()(bz)
	if err != nil {
		return tx, false
	}
	return tx2, true
}

// ------------------------------------------------------------ running

func (w *c15World) ctxFor(mode string) (sdk.Context, bool) {
	ctx, _ := w.base.CacheContext()
	switch mode {
	case "check":
		return ctx.WithIsCheckTx(true), false
	case "recheck":
		return ctx.WithIsCheckTx(true).WithIsReCheckTx(true), false
	case "simulate":
		return ctx.WithIsCheckTx(true), true
	case "deliver":
		return ctx, false
	}
	panic("unknown mode " + mode)
}

func resetEthFrom(msgs []sdk.Msg) {
	for _, m := range msgs {
		switch x := m.(type) {
		case *evmtypes.MsgEthereumTx:
			x.From = ""
		case *authz.MsgExec:
			if inner, err := x.GetMessages(); err == nil {
				resetEthFrom(inner)
			}
		}
	}
}

func (w *c15World) run(tx sdk.Tx, mode string) (err error) {
	defer func() {
		if r := recover(); r != nil {
			err = fmt.Errorf("harness-visible panic: %v", r)
		}
	}()
	resetEthFrom(tx.GetMsgs())
	ctx, sim := w.ctxFor(mode)
	_, err = w.handler(ctx, tx, sim)
	return err
}

// classify maps the handler's error to the coarse observation class.
func classify(err error) string {
	if err == nil {
		return "accept"
	}
	msg := err.Error()
	switch {
	case errors.Is(err, sdkerrors.ErrInvalidRequest) && strings.Contains(msg, "more than 1 extension option"):
		return "extmany"
	case errors.Is(err, sdkerrors.ErrUnknownExtensionOptions) && strings.Contains(msg, "unsupported extension option"):
		return "extunknown"
	case errors.Is(err, sdkerrors.ErrInvalidType) && strings.Contains(msg, "MsgEthereumTx needs to be contained"):
		return "ethmsg"
	case errors.Is(err, sdkerrors.ErrUnauthorized) && strings.Contains(msg, "no signers authorized for this mempool"):
		return "mempool"
	case errors.Is(err, sdkerrors.ErrUnauthorized) && strings.Contains(msg, "MsgTypeURL") && strings.Contains(msg, "not supported"):
		return "vesting"
	case errors.Is(err, sdkerrors.ErrUnauthorized) && strings.Contains(msg, "found disabled msg type"):
		return "authz"
	}
	return "rest"
}

func errKind(err error) string {
	if err == nil {
		return "none"
	}
	cs, code, _ := errorsmod.ABCIInfo(err, false)
	return fmt.Sprintf("%s/%d", cs, code)
}

// ------------------------------------------------------------ through baseapp itself

// abciStage sends a few of the history's transactions, as wire bytes, through
// baseapp's CheckTx and DeliverTx and compares with what the handler said when
// called directly (and applies the monitors to what baseapp said).  "Accepted
// for execution" in DeliverTx is observed on the state: the ante handler's
// writes (sequence increment of the first signer) are committed exactly when
// it accepted, whatever the messages do afterwards.
func (w *c15World) abciStage(txs []txDesc, direct [][]stepOut, modes []string, cnt *Counters) *Failure {
	var fail *Failure
	hdr := w.base.BlockHeader()
	idx := func(m string) int {
		for i, x := range modes {
			if x == m {
				return i
			}
		}
		return -1
	}
	ic, id := idx("check"), idx("deliver")
	if ic < 0 || id < 0 {
		return nil
	}
	lastLog := ""
	note := func(i int, d txDesc, f txFacts, mode, cls, want string) {
		if cnt != nil {
			cnt.Inc("abci:" + mode + ":" + cls)
		}
		if fail != nil {
			return
		}
		if pred, sig, detail := w.monitor(d, f, mode, cls); pred != "" {
			fail = &Failure{Step: i, Predicate: pred, Signature: sig, Detail: "through baseapp: " + detail + " (log: " + lastLog + ")"}
			return
		}
		if (cls == "accept") != (want == "accept") {
			fail = &Failure{Step: i, Predicate: "baseapp-runs-the-handler-in-the-modelled-mode", Signature: "abci-disagrees-with-handler",
				Detail: fmt.Sprintf("tx %d mode %s: baseapp says %s, the handler called directly said %s (log: %s)", i, mode, cls, want, lastLog)}
		}
	}
	for i, d := range txs {
		if i >= 8 || d.Flaw != "" {
			continue
		}
		// CheckTx, sequences from the check state
		w.acct = w.tApp.NewContext(true, hdr)
		w.accNum0 = w.tApp.NewContext(true, tmproto.Header{}).BlockHeight() == 0 && w.tApp.LastBlockHeight() <= 1
		tx, err := w.buildTx(d)
		w.accNum0 = false
		if err != nil {
			continue
		}
		f := w.facts(tx)
		bz, err := w.txCfg.TxEncoder()(tx)
		if err != nil {
			continue
		}
		rc := w.tApp.CheckTx(abci.RequestCheckTx{Tx: bz, Type: abci.CheckTxType_New})
		cls := "accept"
		lastLog = rc.Log
		if rc.Code != 0 {
			cls = "rest"
		}
		note(i, d, f, "check", cls, direct[i][ic].Class)

		// DeliverTx, sequences from the deliver state
		w.acct = w.tApp.NewContext(false, hdr)
		tx, err = w.buildTx(d)
		if err != nil {
			continue
		}
		f = w.facts(tx)
		bz, err = w.txCfg.TxEncoder()(tx)
		if err != nil {
			continue
		}
		seq := func() (uint64, bool) {
			if len(f.signers) == 0 || f.signers[0] == 99 {
				return 0, false
			}
			acc := w.tApp.GetAccountKeeper().GetAccount(w.tApp.NewContext(false, hdr), w.addrs[f.signers[0]])
			if acc == nil {
				return 0, false
			}
			return acc.GetSequence(), true
		}
		before, ok := seq()
		rd := w.tApp.DeliverTx(abci.RequestDeliverTx{Tx: bz})
		after, _ := seq()
		lastLog = rd.Log
		cls = "rest"
		if (ok && after == before+1) || (!ok && rd.Code == 0) {
			cls = "accept"
		}
		if rd.Code == 0 && cls != "accept" {
			cls = "accept" // executed, so it was accepted
		}
		note(i, d, f, "deliver", cls, direct[i][id].Class)
	}
	w.acct = w.base
	return fail
}

// ------------------------------------------------------------ the authz limiter in isolation

var unitKinds = []string{"send", "kava", "eth", "vest", "perm", "periodic", "exec", "grant", "delegate"}

func genUnit(r *Rng) unitDesc {
	var u unitDesc
	n := r.Intn(5)
	for i := 0; i < n; i++ {
		u.Dis = append(u.Dis, unitKinds[r.Intn(len(unitKinds))])
	}
	var any func(depth int) node
	any = func(depth int) node {
		if depth > 0 && r.Chance(45, 100) {
			x := node{K: "exec", A: r.Intn(c15NKeys)}
			w := 1 + r.Intn(3)
			for i := 0; i < w; i++ {
				x.C = append(x.C, any(depth-1))
			}
			return x
		}
		if r.Chance(30, 100) {
			g := node{K: "grant", A: r.Intn(c15NKeys), G: []string{"generic", "generic", "send", "stake"}[r.Intn(4)]}
			g.T = unitKinds[r.Intn(len(unitKinds))]
			return g
		}
		return node{K: leafKinds[r.Intn(len(leafKinds))], A: r.Intn(c15NKeys)}
	}
	m := 1 + r.Intn(3)
	for i := 0; i < m; i++ {
		u.Msgs = append(u.Msgs, any(r.Intn(5)))
	}
	return u
}

// unitBlocked: the property's own reading for an arbitrary disabled list — a
// disabled URL on a message inside some Exec, or as the target of any Grant.
func unitBlocked(msgs []sdk.Msg, dis map[string]bool, depth int) bool {
	for _, m := range msgs {
		if depth > 0 && dis[sdk.MsgTypeURL(m)] {
			return true
		}
		switch x := m.(type) {
		case *authz.MsgGrant:
			if au, err := x.GetAuthorization(); err == nil && dis[au.MsgTypeURL()] {
				return true
			}
		case *authz.MsgExec:
			if inner, err := x.GetMessages(); err == nil && unitBlocked(inner, dis, depth+1) {
				return true
			}
		}
	}
	return false
}

// runUnit drives ante.NewAuthzLimiterDecorator(dis...) with a pass-through next handler.
func (w *c15World) runUnit(u unitDesc, cnt *Counters) (coq string, fail *Failure) {
	urls := make([]string, len(u.Dis))
	dis := map[string]bool{}
	for i, k := range u.Dis {
		urls[i] = w.kindURL(k)
		dis[urls[i]] = true
	}
	msgs := make([]sdk.Msg, len(u.Msgs))
	for i, n := range u.Msgs {
		msgs[i] = w.build(n, false)
	}
	txb := w.txCfg.NewTxBuilder()
	if err := txb.SetMsgs(msgs...); err != nil {
		panic(err)
	}
	tx, _ := w.wire(txb.GetTx())
	dec := kavaante.NewAuthzLimiterDecorator(urls...)
	_, err := dec.AnteHandle(w.base, tx, false, func(ctx sdk.Context, _ sdk.Tx, _ bool) (sdk.Context, error) { return ctx, nil })
	ok := err == nil
	blocked := unitBlocked(tx.GetMsgs(), dis, 0)
	if cnt != nil {
		cnt.Inc(fmt.Sprintf("unit:blocked=%v:accepted=%v", blocked, ok))
	}
	if ok && blocked {
		fail = &Failure{Predicate: "authz-limiter-refuses-disabled-types-inside", Signature: "authz-limiter-unit-accepts-blocked", Detail: fmt.Sprintf("disabled list %v", urls)}
	}
	if !ok && !blocked {
		fail = &Failure{Predicate: "authz-limiter-refuses-nothing-else", Signature: "authz-limiter-unit-rejects-clean", Detail: fmt.Sprintf("disabled list %v: %v", urls, err)}
	}
	ms := tx.GetMsgs()
	it := make([]string, len(ms))
	for i, m := range ms {
		it[i] = "(" + coqMsg(m) + ")"
	}
	return fmt.Sprintf("(mkUnit %s %s %s)", coqStrList(urls), List(it), Bool(ok)), fail
}

// ------------------------------------------------------------ facts about the constructed tx (independent of the model)

type txFacts struct {
	blockedInside   bool // a blocked URL inside some Exec, or as a Grant target anywhere
	blockedDepth    int  // depth of the shallowest such occurrence (1 = directly inside a top-level Exec; 0 = top-level grant)
	blockedPos      string
	vestingTop      bool
	ethAnywhere     bool
	ethTop          bool
	allTopEth       bool
	nTop            int
	optURLs         []string
	signers         []int
	hasAuthz        bool
	maxDepth        int
	maxWidth        int
	grantBlocked    bool
	grantBlockedNst bool // blocked grant target nested inside an exec
}

func scanMsgs(msgs []sdk.Msg, depth int, f *txFacts) {
	if len(msgs) > f.maxWidth {
		f.maxWidth = len(msgs)
	}
	for i, m := range msgs {
		u := sdk.MsgTypeURL(m)
		pos := "middle"
		if i == 0 {
			pos = "first"
		}
		if i == len(msgs)-1 && i > 0 {
			pos = "last"
		}
		hit := func(d int) {
			if !f.blockedInside || d < f.blockedDepth {
				f.blockedDepth = d
				f.blockedPos = pos
			}
			f.blockedInside = true
		}
		if u == urlEth {
			f.ethAnywhere = true
		}
		if depth > 0 && c15Blocked[u] {
			hit(depth)
		}
		switch x := m.(type) {
		case *authz.MsgGrant:
			f.hasAuthz = true
			if au, err := x.GetAuthorization(); err == nil && c15Blocked[au.MsgTypeURL()] {
				f.grantBlocked = true
				if depth > 0 {
					f.grantBlockedNst = true
				}
				hit(depth)
			}
		case *authz.MsgExec:
			f.hasAuthz = true
			if depth+1 > f.maxDepth {
				f.maxDepth = depth + 1
			}
			if inner, err := x.GetMessages(); err == nil {
				scanMsgs(inner, depth+1, f)
			}
		}
	}
}

func (w *c15World) facts(tx sdk.Tx) txFacts {
	f := txFacts{allTopEth: true}
	msgs := tx.GetMsgs()
	f.nTop = len(msgs)
	for _, m := range msgs {
		u := sdk.MsgTypeURL(m)
		if c15VestingTop[u] {
			f.vestingTop = true
		}
		if u == urlEth {
			f.ethTop = true
		} else {
			f.allTopEth = false
		}
	}
	scanMsgs(msgs, 0, &f)
	if et, ok := tx.(interface{ GetExtensionOptions() []*codectypes.Any }); ok {
		for _, o := range et.GetExtensionOptions() {
			f.optURLs = append(f.optURLs, o.GetTypeUrl())
		}
	}
	if st, ok := tx.(authsigning.SigVerifiableTx); ok {
		for _, s := range st.GetSigners() {
			f.signers = append(f.signers, w.addrIndex(s))
		}
	}
	return f
}

func (w *c15World) authorised(signers []int) bool {
	for _, s := range signers {
		if w.authSet[s] {
			return true
		}
	}
	return false
}

// oracle gives the two oracle bits: do the SDK / ethermint decorators that the
// model does not describe accept this (by construction well-formed or
// deliberately flawed) transaction in this mode — [pre] those placed before
// Kava's gates in the chain, [post] those after?  Written from the
// construction, not from the observed result.
func oracle(d txDesc, f txFacts, mode string) (pre, post bool) {
	switch {
	case len(f.optURLs) == 1 && f.optURLs[0] == optEth:
		// Ethereum path.  A wire-format eth tx passes set-up, fee, ValidateBasic and
		// signature verification; a stale nonce fails in the sequence decorator
		// (after the gate).  A single MsgEthereumTx wrapped in an ordinarily signed
		// cosmos tx fails EthValidateBasicDecorator (signatures, fee) — which, like
		// the gas decorator, is skipped on recheck.
		if d.EthTx {
			return true, d.Flaw == ""
		}
		// Several MsgEthereumTx in one wrapper: each is validly signed, so signature
		// verification passes on recheck for any count; they all carry the sender's
		// current nonce, so from the second one on the sequence decorator (after the
		// gate) refuses.
		return mode == "recheck" && f.allTopEth && f.nTop >= 1, f.nTop == 1
	case len(f.optURLs) == 1 && f.optURLs[0] == optWeb3:
		// EIP-712 path with an ordinary (SIGN_MODE_DIRECT) signature: the legacy
		// EIP-712 verification is skipped on recheck, stops after the sequence
		// check when simulating (one signer only), and fails otherwise
		switch mode {
		case "recheck":
			return true, true
		case "simulate":
			return true, len(f.signers) == 1
		}
		return true, false
	default:
		if d.Flaw == "badsig" {
			return true, mode == "recheck" || mode == "simulate"
		}
		return true, true
	}
}

// ------------------------------------------------------------ monitors

func (w *c15World) monitor(d txDesc, f txFacts, mode string, cls string) (pred, sig, detail string) {
	acc := cls == "accept"
	onEthPath := len(f.optURLs) == 1 && f.optURLs[0] == optEth
	if acc && f.blockedInside {
		return "blocked-type-inside-authz-rejected", "blocked-type-accepted-inside-authz",
			fmt.Sprintf("mode %s: accepted with a blocked type at depth %d (%s)", mode, f.blockedDepth, f.blockedPos)
	}
	if acc && f.vestingTop {
		return "vesting-creation-rejected-at-top-level", "vesting-top-level-accepted", "mode " + mode
	}
	if acc && f.ethAnywhere && !onEthPath {
		return "eth-msg-only-on-eth-path", "eth-msg-accepted-off-eth-path", fmt.Sprintf("mode %s options %v", mode, f.optURLs)
	}
	if acc && onEthPath && !f.allTopEth {
		return "eth-path-only-eth-msgs", "non-eth-msg-accepted-on-eth-path", "mode " + mode
	}
	if acc && len(f.optURLs) >= 2 {
		return "several-extension-options-rejected", "several-extension-options-accepted", fmt.Sprint(f.optURLs)
	}
	if acc && len(f.optURLs) == 1 && f.optURLs[0] != optEth && f.optURLs[0] != optWeb3 {
		return "unknown-extension-option-rejected", "unknown-extension-option-accepted", f.optURLs[0]
	}
	gate := w.cfg.Auth && (mode == "check" || mode == "recheck")
	if acc && gate && !w.authorised(f.signers) {
		if onEthPath {
			return "mempool-admits-only-authorised-signers", "mempool-gate-bypassed-by-eth-tx",
				fmt.Sprintf("mode %s: Ethereum tx from signer %v admitted, authorised set %v", mode, f.signers, sortedSet(w.authSet))
		}
		return "mempool-admits-only-authorised-signers", "mempool-gate-unauthorised-accepted",
			fmt.Sprintf("mode %s signers %v authorised %v", mode, f.signers, sortedSet(w.authSet))
	}
	// the other direction: a transaction with nothing blocked, properly signed,
	// on the plain path, is refused only by the active gate
	clean := !f.blockedInside && !f.vestingTop && !f.ethAnywhere && len(f.optURLs) == 0 && d.Flaw == ""
	if !acc && clean {
		if !gate {
			s := "clean-tx-rejected"
			if w.cfg.Auth && (mode == "deliver" || mode == "simulate") {
				s = "execution-affected-by-mempool-auth"
			}
			return "clean-tx-accepted-when-gate-inactive", s, fmt.Sprintf("mode %s class %s", mode, cls)
		}
		if w.authorised(f.signers) {
			return "authorised-signer-admitted", "authorised-signer-rejected", fmt.Sprintf("mode %s class %s signers %v", mode, cls, f.signers)
		}
	}
	if d.EthTx && d.Flaw == "" && !acc && (!gate || w.authorised(f.signers)) {
		s := "eth-tx-rejected-on-eth-path"
		if w.cfg.Auth && !gate {
			s = "execution-affected-by-mempool-auth"
		}
		return "eth-tx-accepted-on-eth-path", s, fmt.Sprintf("mode %s class %s signers %v", mode, cls, f.signers)
	}
	return "", "", ""
}

func sortedSet(m map[int]bool) []int {
	var out []int
	for k := range m {
		out = append(out, k)
	}
	sort.Ints(out)
	return out
}

// ------------------------------------------------------------ Coq rendering (abstraction of the REAL tx object)

func coqStr(s string) string { return "\"" + strings.ReplaceAll(s, "\"", "\"\"") + "\"%string" }

func coqMsg(m sdk.Msg) string {
	switch x := m.(type) {
	case *authz.MsgExec:
		inner, err := x.GetMessages()
		if err != nil {
			return "Plain " + coqStr("?exec-unpack-error")
		}
		it := make([]string, len(inner))
		for i, c := range inner {
			it[i] = coqMsg(c)
		}
		return "Exec " + List(it)
	case *authz.MsgGrant:
		au, err := x.GetAuthorization()
		if err != nil {
			return "Plain " + coqStr("?grant-unpack-error")
		}
		return "Grant " + coqStr(au.MsgTypeURL())
	}
	return "Plain " + coqStr(sdk.MsgTypeURL(m))
}

func coqTx(tx sdk.Tx, f txFacts) string {
	ms := tx.GetMsgs()
	it := make([]string, len(ms))
	for i, m := range ms {
		it[i] = "(" + coqMsg(m) + ")"
	}
	os := make([]string, len(f.optURLs))
	for i, o := range f.optURLs {
		os[i] = coqStr(o)
	}
	ss := make([]string, len(f.signers))
	for i, s := range f.signers {
		ss[i] = Nat(s)
	}
	return fmt.Sprintf("(mkTx %s %s %s)", List(it), List(os), List(ss))
}

var coqMode = map[string]string{"check": "CheckTx", "recheck": "ReCheckTx", "simulate": "Simulate", "deliver": "DeliverTx"}
var coqClass = map[string]string{"accept": "OAccept", "extmany": "(OReject RExtMany)", "extunknown": "(OReject RExtUnknown)",
	"ethmsg": "(OReject REthMsg)", "mempool": "(OReject RMempool)", "vesting": "(OReject RVesting)", "authz": "(OReject RAuthz)", "rest": "(OReject RRest)"}

func coqStrList(xs []string) string {
	it := make([]string, len(xs))
	for i, x := range xs {
		it[i] = coqStr(x)
	}
	return List(it)
}

func (w *c15World) coqCfg() string {
	au := sortedSet(w.authSet)
	it := make([]string, len(au))
	for i, a := range au {
		it[i] = Nat(a)
	}
	return fmt.Sprintf("(mkCfg %s %s)", Bool(w.cfg.Auth), List(it))
}

// ------------------------------------------------------------ generation

var leafKinds = []string{"send", "kava", "eth", "vest", "perm", "periodic"}
var blockedKinds = []string{"eth", "vest", "perm", "periodic"}
var targetKinds = []string{"send", "kava", "delegate", "exec", "grant", "eth", "vest", "perm", "periodic"}

func genClean(r *Rng, depth int, actor int) node {
	if depth > 0 && r.Chance(45, 100) {
		n := node{K: "exec", A: actor}
		w := 1 + r.Intn(3)
		if r.Chance(1, 10) {
			w = 4 + r.Intn(3)
		}
		for i := 0; i < w; i++ {
			n.C = append(n.C, genClean(r, depth-1, r.Intn(c15NKeys)))
		}
		return n
	}
	switch r.Pick(50, 20, 30) {
	case 0:
		return node{K: "send", A: actor}
	case 1:
		return node{K: "kava", A: actor}
	default:
		g := node{K: "grant", A: actor}
		switch r.Pick(60, 20, 20) {
		case 0:
			g.G = "generic"
			g.T = targetKinds[r.Intn(5)] // allowed targets only
		case 1:
			g.G = "send"
		default:
			g.G = "stake"
		}
		return g
	}
}

// chain of execs of the given length ending in leaf, with clean siblings around
func genDeep(r *Rng, depth int, leaf node, actor int) node {
	if depth == 0 {
		return leaf
	}
	n := node{K: "exec", A: actor}
	before := r.Intn(3)
	after := r.Intn(3)
	for i := 0; i < before; i++ {
		n.C = append(n.C, genClean(r, r.Intn(2), r.Intn(c15NKeys)))
	}
	n.C = append(n.C, genDeep(r, depth-1, leaf, r.Intn(c15NKeys)))
	for i := 0; i < after; i++ {
		n.C = append(n.C, genClean(r, r.Intn(2), r.Intn(c15NKeys)))
	}
	return n
}

func genPoison(r *Rng) node {
	if r.Chance(40, 100) {
		return node{K: "grant", A: r.Intn(c15NKeys), G: "generic", T: blockedKinds[r.Intn(4)]}
	}
	return node{K: blockedKinds[r.Intn(4)], A: r.Intn(c15NKeys)}
}

func c15GenTx(r *Rng, cfg cfgDesc, authIdx []int) txDesc {
	var d txDesc
	// signer policy: with the gate on, aim at both sides of it
	pickActor := func() int {
		if len(authIdx) > 0 && r.Chance(70, 100) {
			return authIdx[r.Intn(len(authIdx))]
		}
		return r.Intn(c15NKeys)
	}
	main := pickActor()
	kind := r.Pick(64, 16, 4, 5, 5, 6)
	switch kind {
	case 0: // clean
		n := 1 + r.Intn(3)
		for i := 0; i < n; i++ {
			a := main
			if r.Chance(1, 5) {
				a = r.Intn(c15NKeys)
			}
			d.Msgs = append(d.Msgs, genClean(r, r.Intn(7), a))
		}
	case 1: // a blocked type somewhere inside, or as a grant target
		n := 1 + r.Intn(3)
		at := r.Intn(n)
		for i := 0; i < n; i++ {
			if i == at {
				depth := 1 + r.Intn(6)
				p := genPoison(r)
				if p.K == "grant" && r.Chance(1, 4) {
					depth = 0 // top-level grant of a blocked type
				}
				d.Msgs = append(d.Msgs, genDeep(r, depth, p, main))
			} else {
				d.Msgs = append(d.Msgs, genClean(r, r.Intn(4), main))
			}
		}
	case 2: // blocked type at top level
		n := 1 + r.Intn(3)
		at := r.Intn(n)
		for i := 0; i < n; i++ {
			if i == at {
				d.Msgs = append(d.Msgs, node{K: blockedKinds[r.Intn(4)], A: main})
			} else {
				d.Msgs = append(d.Msgs, genClean(r, r.Intn(3), main))
			}
		}
	case 3: // wire-format Ethereum tx
		d.EthTx = true
		d.Msgs = []node{{K: "eth", A: c15EthIdx}}
		d.Opts = []string{"eth"}
		if r.Chance(1, 6) {
			d.Flaw = "stalenonce"
		}
		return d
	case 4: // extension options on cosmos-shaped transactions
		n := 1 + r.Intn(2)
		for i := 0; i < n; i++ {
			switch r.Pick(60, 25, 15) {
			case 0:
				d.Msgs = append(d.Msgs, genClean(r, r.Intn(4), main))
			case 1:
				d.Msgs = append(d.Msgs, genDeep(r, 1+r.Intn(4), genPoison(r), main))
			default:
				d.Msgs = append(d.Msgs, node{K: blockedKinds[r.Intn(4)], A: main})
			}
		}
		opts := []string{"eth", "web3", "dynfee", "unknown"}
		switch r.Pick(30, 40, 12, 8, 10) {
		case 0:
			d.Opts = []string{"eth"}
		case 1:
			d.Opts = []string{"web3"}
		case 2:
			d.Opts = []string{"dynfee"}
		case 3:
			d.Opts = []string{"unknown"}
		default:
			d.Opts = []string{opts[r.Intn(4)], opts[r.Intn(4)]}
			if r.Chance(1, 4) {
				d.Opts = append(d.Opts, opts[r.Intn(4)])
			}
		}
	default: // several extension options / eth message with wrong or no option
		switch r.Intn(3) {
		case 0:
			d.Msgs = []node{{K: "eth", A: main}}
			d.Opts = [][]string{{"eth", "eth"}, {"eth", "web3"}, {"web3"}, {"dynfee"}, nil}[r.Intn(5)]
		case 1:
			d.Msgs = []node{{K: "eth", A: main}, genClean(r, 1, main)}
			d.Opts = [][]string{{"eth"}, nil, {"web3"}}[r.Intn(3)]
		default:
			d.Msgs = []node{genClean(r, 2, main), genDeep(r, 1+r.Intn(3), node{K: "eth", A: main}, main)}
			d.Opts = [][]string{{"eth"}, nil, {"web3"}, {"eth", "eth"}}[r.Intn(4)]
		}
	}
	if r.Chance(5, 100) {
		d.Flaw = "badsig"
	}
	if r.Chance(4, 100) {
		// non-critical extension options do not select a path
		d.NCrit = [][]string{{"eth"}, {"web3"}, {"dynfee"}, {"eth", "web3"}}[r.Intn(4)]
	}
	return d
}

func c15GenCfg(r *Rng, idx int) cfgDesc {
	c := cfgDesc{Deputy: -1}
	if idx%3 == 0 {
		// authenticated mempool off (addresses configured or not: they must be ignored)
		if r.Chance(1, 2) {
			c.Manual = []int{r.Intn(c15NKeys)}
		}
		return c
	}
	c.Auth = true
	switch r.Intn(4) {
	case 0:
		c.Manual = []int{r.Intn(c15NKeys)}
	case 1:
		c.Oracles = []int{r.Intn(c15NKeys)}
	case 2:
		c.Deputy = r.Intn(c15NKeys)
	default:
		c.Manual = []int{r.Intn(c15NKeys)}
		o1 := r.Intn(c15NKeys)
		c.Oracles = []int{o1, (o1 + 1 + r.Intn(c15NKeys-1)) % c15NKeys}
		if r.Chance(1, 2) {
			c.Deputy = r.Intn(c15NKeys)
		}
	}
	if r.Chance(1, 8) {
		// enabled with nobody authorised
		c.Manual, c.Oracles, c.Deputy = nil, nil, -1
	}
	if r.Chance(1, 3) {
		// the Ethereum account is on the manual list
		c.Manual = append(c.Manual, c15EthIdx)
	}
	return c
}

// ------------------------------------------------------------ exhaustive small domain

// the 5-type alphabet of the exhaustive sweep
var exhLeaves = []node{
	{K: "send"}, {K: "eth"}, {K: "periodic"},
	{K: "grant", G: "generic", T: "send"}, {K: "grant", G: "generic", T: "eth"},
}

// enumTrees lists all trees of depth <= d whose Execs have 1..w children.
func enumTrees(d, w int) []node {
	out := append([]node(nil), exhLeaves...)
	if d == 0 {
		return out
	}
	sub := enumTrees(d-1, w)
	var rec func(k int, cur []node)
	rec = func(k int, cur []node) {
		if k == 0 {
			out = append(out, node{K: "exec", C: append([]node(nil), cur...)})
			return
		}
		for _, s := range sub {
			rec(k-1, append(cur, s))
		}
	}
	for k := 1; k <= w; k++ {
		rec(k, nil)
	}
	return out
}

// ------------------------------------------------------------ thorough tier: the full sweep (monitors only)

// sweepTree decodes index i of the enumeration of all trees with Exec nesting
// <= 2 and width <= 3 over the 5-type alphabet: 5 leaves, then Exec of 1, 2, 3
// children drawn from the 160 trees of nesting <= 1.
func sweepTree(i int, sub []node) node {
	n := len(sub)
	if i < len(exhLeaves) {
		return exhLeaves[i]
	}
	i -= len(exhLeaves)
	for k, size := 1, n; k <= 3; k, size = k+1, size*n {
		if i < size {
			c := make([]node, k)
			for j := 0; j < k; j++ {
				c[j] = sub[i%n]
				i /= n
			}
			return node{K: "exec", C: c}
		}
		i -= size
	}
	panic("sweep index out of range")
}

func sweepSize(n int) int { return len(exhLeaves) + n + n*n + n*n*n }

// c15Sweep runs every tree of the sweep through the real handler in one mode
// (DeliverTx for even indexes, CheckTx for odd ones) and applies the monitors.
func c15Sweep(o Opts, cnt *Counters) (evals int, fails []Failure) {
	sub := enumTrees(1, 3)
	total := sweepSize(len(sub))
	if lim := os.Getenv("C15_SWEEP_LIMIT"); lim != "" {
		var l int
		fmt.Sscan(lim, &l)
		if l > 0 && l < total {
			total = l
		}
	}
	const chunk = 20000
	nchunks := (total + chunk - 1) / chunk
	res := make([][]Failure, nchunks)
	ParallelFor(nchunks, o.Workers, func(c int) {
		cfg := cfgDesc{Deputy: -1}
		if c%2 == 1 {
			cfg.Auth = true
			cfg.Manual = []int{(c / 2) % c15NKeys}
		}
		w := c15Setup(cfg)
		actor := (c / 4) % c15NKeys
		if cfg.Auth {
			actor = cfg.Manual[0] // authorised: the gate lets the tx through to the scan
		}
		hi := (c + 1) * chunk
		if hi > total {
			hi = total
		}
		for i := c * chunk; i < hi; i++ {
			d := txDesc{Msgs: []node{withActor(sweepTree(i, sub), actor)}}
			mode := "deliver"
			if i%2 == 1 {
				mode = "check"
			}
			tx, err := w.buildTx(d)
			if err != nil {
				panic(err)
			}
			f := w.facts(tx)
			cls := classify(w.run(tx, mode))
			cnt.Inc("sweep:" + mode + ":" + cls)
			if pred, sig, detail := w.monitor(d, f, mode, cls); pred != "" {
				dup := false
				for _, x := range res[c] {
					if x.Signature == sig {
						dup = true
					}
				}
				if !dup {
					res[c] = append(res[c], Failure{History: -2 - c, Step: i, Predicate: pred, Signature: sig, Detail: fmt.Sprintf("sweep tree %d: %s", i, detail),
						Replay: MustJSON(c15Hist{Seed: o.Seed, Idx: -2 - c, Cfg: cfg, Txs: []txDesc{d}, Modes: []string{mode}})})
				}
			}
		}
	})
	for _, r := range res {
		fails = append(fails, r...)
	}
	return total, fails
}

// ------------------------------------------------------------ history runner

type stepOut struct {
	Mode  string
	Class string
	Err   string
}

type histOut struct {
	hist     c15Hist
	coq      string
	fails    []*Failure
	evals    int
	nontriv  []string
	accepted int
}

func (w *c15World) evalTx(d txDesc, modes []string, cnt *Counters) (steps []string, outs []stepOut, fails []*Failure, f txFacts, err error) {
	tx, err := w.buildTx(d)
	if err != nil {
		return nil, nil, nil, f, err
	}
	tx, wired := w.wire(tx)
	f = w.facts(tx)
	if cnt != nil {
		if wired {
			cnt.Inc("tx:wire-roundtrip")
		} else {
			cnt.Inc("tx:as-constructed")
		}
	}
	ctx := coqTx(tx, f)
	for _, mode := range modes {
		e := w.run(tx, mode)
		cls := classify(e)
		pre, post := oracle(d, f, mode)
		outs = append(outs, stepOut{mode, cls, errKind(e)})
		steps = append(steps, fmt.Sprintf("(mkStep %s %s (mkOracle %s %s) %s)", coqMode[mode], ctx, Bool(pre), Bool(post), coqClass[cls]))
		if cnt != nil {
			c15Count(cnt, w, d, f, mode, cls, e)
		}
		if pred, sig, detail := w.monitor(d, f, mode, cls); pred != "" && !hasSig(fails, sig) {
			if e != nil {
				detail += " (handler error: " + e.Error() + ")"
			}
			fails = append(fails, &Failure{Predicate: pred, Signature: sig, Detail: detail})
		}
	}
	return
}

func hasSig(fs []*Failure, sig string) bool {
	for _, f := range fs {
		if f.Signature == sig {
			return true
		}
	}
	return false
}

func c15Count(cnt *Counters, w *c15World, d txDesc, f txFacts, mode, cls string, e error) {
	cnt.Inc("mode:" + mode)
	cnt.Inc("class:" + cls)
	if cls == "rest" {
		cnt.Inc("err:" + errKind(e))
	}
	path := "cosmos"
	switch {
	case len(f.optURLs) >= 2:
		path = "extmany"
	case len(f.optURLs) == 1 && f.optURLs[0] == optEth:
		path = "eth"
	case len(f.optURLs) == 1 && f.optURLs[0] == optWeb3:
		path = "web3"
	case len(f.optURLs) == 1:
		path = "extunknown"
	}
	cnt.Inc("split:path=" + path)
	if cls == "accept" {
		cnt.Inc("split:accept:" + path + ":" + mode)
	}
	if f.blockedInside {
		dd := f.blockedDepth
		if dd > 6 {
			dd = 6
		}
		cnt.Inc(fmt.Sprintf("split:blocked-depth=%d", dd))
		cnt.Inc("split:blocked-pos=" + f.blockedPos)
	}
	if f.grantBlocked {
		cnt.Inc("split:grant-target-blocked")
	}
	if f.grantBlockedNst {
		cnt.Inc("split:grant-target-blocked-nested")
	}
	if f.vestingTop {
		cnt.Inc("split:vesting-top")
	}
	if f.ethTop && path == "cosmos" {
		cnt.Inc("split:eth-top-on-cosmos")
	}
	if w.cfg.Auth {
		if mode == "check" || mode == "recheck" {
			if w.authorised(f.signers) {
				cnt.Inc("split:gate=active-authorised:" + mode)
				if path == "eth" && d.EthTx {
					cnt.Inc("split:eth-gate=authorised")
				}
			} else {
				cnt.Inc("split:gate=active-unauthorised:" + mode)
				if path == "eth" && d.EthTx {
					cnt.Inc("split:eth-gate=unauthorised")
				}
			}
		} else {
			cnt.Inc("split:gate=inactive-auth-on:" + mode)
		}
	} else {
		cnt.Inc("split:gate=off")
	}
	if len(f.signers) > 1 {
		cnt.Inc("split:multi-signer")
	}
	if d.Flaw != "" {
		cnt.Inc("split:flaw=" + d.Flaw + ":" + cls)
	}
	if len(d.NCrit) > 0 {
		cnt.Inc("split:noncritical-option:" + path)
	}
	if f.maxDepth >= 4 {
		cnt.Inc("split:depth>=4")
	}
	if f.maxWidth >= 4 {
		cnt.Inc("split:width>=4")
	}
}

var c15AllSplits = []string{
	"path=cosmos", "path=eth", "path=web3", "path=extmany", "path=extunknown",
	"accept:cosmos:check", "accept:cosmos:recheck", "accept:cosmos:simulate", "accept:cosmos:deliver",
	"accept:eth:check", "accept:eth:deliver", "accept:web3:recheck", "eth-gate=authorised", "eth-gate=unauthorised",
	"blocked-depth=0", "blocked-depth=1", "blocked-depth=2", "blocked-depth=3", "blocked-depth=4", "blocked-depth=5", "blocked-depth=6",
	"blocked-pos=first", "blocked-pos=middle", "blocked-pos=last",
	"grant-target-blocked", "grant-target-blocked-nested", "vesting-top", "eth-top-on-cosmos",
	"gate=active-authorised:check", "gate=active-unauthorised:check", "gate=active-authorised:recheck", "gate=active-unauthorised:recheck",
	"gate=inactive-auth-on:deliver", "gate=inactive-auth-on:simulate", "gate=off", "multi-signer",
	"depth>=4", "width>=4",
}

func tablesCoq(t anteTables) string {
	return fmt.Sprintf("%s\n  %s\n  %s\n  %s\n  %s", coqStrList(t.Chain), coqStrList(t.EthChain), coqStrList(t.Router), coqStrList(t.Disabled), coqStrList(t.Vesting))
}

// c15Run executes one history (generated when h.Txs == nil).
func c15Run(h c15Hist, n int, tables anteTables, cnt *Counters, exh []node) histOut {
	r := NewRng(h.Seed, uint64(h.Idx))
	gen := h.Txs == nil
	if gen {
		h.Cfg = c15GenCfg(r, h.Idx)
	}
	w := c15Setup(h.Cfg)
	modes := h.Modes
	if len(modes) == 0 {
		modes = c15Modes
	}
	var authIdx []int
	for _, a := range sortedSet(w.authSet) {
		if a < c15NKeys {
			authIdx = append(authIdx, a)
		}
	}
	if gen {
		if exh != nil {
			for _, t := range exh {
				// the actor of every node: vary with the history so that both sides of the gate occur
				t2 := withActor(t, h.Idx%c15NKeys)
				h.Txs = append(h.Txs, txDesc{Msgs: []node{t2}})
			}
		} else {
			for i := 0; i < n; i++ {
				h.Txs = append(h.Txs, c15GenTx(r, h.Cfg, authIdx))
			}
			for i := 0; i < n; i++ {
				h.Units = append(h.Units, genUnit(r))
			}
		}
	}
	out := histOut{}
	var steps []string
	var direct [][]stepOut
	stream := "random"
	if exh != nil {
		stream = "exhaustive"
	}
	for i, d := range h.Txs {
		st, outs, fails, f, err := w.evalTx(d, modes, cnt)
		direct = append(direct, outs)
		if err != nil {
			// construction failure: a harness problem, not a verdict
			panic(fmt.Sprintf("cannot build tx %d of history %d: %v (%s)", i, h.Idx, err, MustJSON(d)))
		}
		steps = append(steps, st...)
		out.evals += len(outs)
		for _, o := range outs {
			if cnt != nil {
				cnt.Inc("stream:" + stream + ":evaluations")
			}
			if o.Class == "accept" {
				out.accepted++
				if cnt != nil {
					cnt.Inc("stream:" + stream + ":accepted")
				}
			}
		}
		if f.hasAuthz || len(f.optURLs) > 0 || w.cfg.Auth {
			out.nontriv = append(out.nontriv, string(MustJSON(struct {
				C cfgDesc
				T txDesc
			}{h.Cfg, d})))
		}
		for _, fail := range fails {
			if hasSig(out.fails, fail.Signature) {
				continue
			}
			fail.History = h.Idx
			fail.Step = i * len(modes)
			// shrink: the evaluation is stateless, so the failing tx alone, then its tree
			small := c15Shrink(w, d, modes, fail.Signature)
			_, _, f2s, _, _ := w.evalTx(small, modes, nil)
			kept := false
			for _, f2 := range f2s {
				if f2.Signature == fail.Signature {
					f2.History, f2.Step = h.Idx, 0
					f2.Replay = MustJSON(c15Hist{Seed: h.Seed, Idx: h.Idx, Cfg: h.Cfg, Txs: []txDesc{small}, Modes: h.Modes})
					out.fails = append(out.fails, f2)
					kept = true
					break
				}
			}
			if !kept {
				fail.Replay = MustJSON(c15Hist{Seed: h.Seed, Idx: h.Idx, Cfg: h.Cfg, Txs: []txDesc{d}, Modes: h.Modes})
				out.fails = append(out.fails, fail)
			}
		}
	}
	// a few transactions of every history also go through baseapp's CheckTx / DeliverTx
	if exh == nil || h.Idx%4 == 0 {
		if fa := w.abciStage(h.Txs, direct, modes, cnt); fa != nil && !hasSig(out.fails, fa.Signature) {
			fa.History = h.Idx
			i := fa.Step
			fa.Step = i * len(modes)
			fa.Replay = MustJSON(c15Hist{Seed: h.Seed, Idx: h.Idx, Cfg: h.Cfg, Txs: []txDesc{h.Txs[i]}, Modes: h.Modes})
			out.fails = append(out.fails, fa)
		}
	}
	var units []string
	for i, u := range h.Units {
		cq, fa := w.runUnit(u, cnt)
		units = append(units, cq)
		out.evals++
		if fa != nil && !hasSig(out.fails, fa.Signature) {
			fa.History, fa.Step = h.Idx, len(steps)+i
			fa.Replay = MustJSON(c15Hist{Seed: h.Seed, Idx: h.Idx, Cfg: h.Cfg, Txs: []txDesc{}, Units: []unitDesc{u}, Modes: h.Modes})
			out.fails = append(out.fails, fa)
		}
	}
	out.hist = h
	out.coq = fmt.Sprintf("mkHist %s\n  %s\n  %s\n  %s", w.coqCfg(), tablesCoq(tables), List(steps), List(units))
	return out
}

func withActor(n node, a int) node {
	n.A = a
	if len(n.C) > 0 {
		c := make([]node, len(n.C))
		for i, x := range n.C {
			c[i] = withActor(x, a)
		}
		n.C = c
	}
	return n
}

// c15Shrink removes top-level messages and subtrees while the failure persists.
func c15Shrink(w *c15World, d txDesc, modes []string, sig string) txDesc {
	fails := func(c txDesc) bool {
		if len(c.Msgs) == 0 {
			return false
		}
		_, _, fs, _, err := w.evalTx(c, modes, nil)
		return err == nil && hasSig(fs, sig)
	}
	if d.EthTx {
		return d
	}
	cur := d
	cur.Msgs = Shrink(cur.Msgs, func(ms []node) bool { c := cur; c.Msgs = ms; return fails(c) })
	// shrink inside each tree: try to delete every child of every exec, then to
	// replace an exec by one of its children
	for changed := true; changed; {
		changed = false
		paths := allPaths(cur.Msgs)
		for i := len(paths) - 1; i >= 0; i-- {
			cand := cur
			cand.Msgs = deletePath(cur.Msgs, paths[i])
			if cand.Msgs != nil && fails(cand) {
				cur = cand
				changed = true
				break
			}
		}
		if changed {
			continue
		}
		// hoist: replace an Exec (not a top-level one: its signer signs the tx) by one of its children
		for _, p := range paths {
			n := nodeAt(cur.Msgs, p)
			for k := range n.C {
				cand := cur
				cand.Msgs = replaceAt(cur.Msgs, p, n.C[k])
				if fails(cand) {
					cur = cand
					changed = true
					break
				}
			}
			if changed {
				break
			}
		}
	}
	return cur
}

func nodeAt(ms []node, p []int) node {
	n := ms[p[0]]
	for _, i := range p[1:] {
		n = n.C[i]
	}
	return n
}

func replaceAt(ms []node, p []int, by node) []node {
	out := append([]node(nil), ms...)
	if len(p) == 1 {
		out[p[0]] = by
		return out
	}
	n := out[p[0]]
	n.C = replaceAt(n.C, p[1:], by)
	out[p[0]] = n
	return out
}

func allPaths(ms []node) [][]int {
	var out [][]int
	var rec func(ns []node, prefix []int)
	rec = func(ns []node, prefix []int) {
		for i, n := range ns {
			p := append(append([]int(nil), prefix...), i)
			if len(prefix) > 0 { // top-level deletions were tried already
				out = append(out, p)
			}
			rec(n.C, p)
		}
	}
	rec(ms, nil)
	return out
}

func deletePath(ms []node, p []int) []node {
	if len(p) == 1 {
		if len(ms) <= 1 {
			return nil // keep at least one child (an empty Exec is a different shape)
		}
		return append(append([]node(nil), ms[:p[0]]...), ms[p[0]+1:]...)
	}
	out := append([]node(nil), ms...)
	n := out[p[0]]
	c := deletePath(n.C, p[1:])
	if c == nil {
		return nil
	}
	n.C = c
	out[p[0]] = n
	return out
}

// ------------------------------------------------------------ entry point

const c15Header = "From Coq Require Import String.\nFrom Kava Require Import Base.Prelude Model.Ante."

func runC15(o Opts) (*Result, error) {
	n := o.Len
	if n == 0 {
		n = c15DefaultL
	}
	res := &Result{Property: "C15", Seed: o.Seed,
		Rule: "every transaction (random trees of depth <= 6 plus the exhaustive sweep) is evaluated by the real composed ante handler in CheckTx, ReCheckTx, simulate and DeliverTx mode; an evaluation is non-trivial when the transaction contains an authz Exec or Grant, carries an extension option, or runs with the authenticated mempool enabled; distinct by hash of (mempool configuration, transaction description)"}
	cnt := NewCounters()
	c15ConfigOnce.Do(func() { NewApp() })
	enc := app.MakeEncodingConfig().InterfaceRegistry
	tables := readAnteTables(enc)
	diffs := compareTables(tables)
	res.Extra = map[string]any{"tables_read_from_source": tables, "repo": repoDir()}
	if len(diffs) > 0 {
		res.Failures = append(res.Failures, Failure{History: -1, Step: 0, Predicate: "ante-tables-as-proved",
			Signature: "ante-table-mismatch", Detail: strings.Join(diffs, "; "),
			Replay: MustJSON(map[string]any{"kind": "table", "differences": diffs, "source": tables, "model": expectedTables})})
	}

	if o.Replay != "" {
		bz, err := os.ReadFile(o.Replay)
		if err != nil {
			return nil, err
		}
		var h c15Hist
		if err := json.Unmarshal(bz, &h); err != nil {
			return nil, err
		}
		if h.Txs == nil {
			// a table replay (or an empty file): nothing to execute beyond the table comparison
			res.Counters = cnt.Map()
			return res, nil
		}
		out := c15Run(h, 0, tables, cnt, nil)
		name, err := WriteShard(o.OutDir, 0, c15Header, []string{out.coq}, "mismatches")
		if err != nil {
			return nil, err
		}
		res.Shards = []string{name}
		res.HistIndex = []HistRef{{0, 0, h.Idx, MustJSON(out.hist)}}
		res.Histories, res.Evaluations = 1, out.evals
		for _, f := range out.fails {
			res.Failures = append(res.Failures, *f)
		}
		res.Counters = cnt.Map()
		return res, nil
	}

	// exhaustive part: all single-message transactions over the 5-type alphabet with
	// Exec nesting <= 1 / width <= 3 (160 trees) and Exec nesting <= 2 / width <= 2
	// (1265 trees), in chunks of 40 transactions, each chunk under the
	// configuration of its history index
	var exh []node
	exh = append(exh, enumTrees(1, 3)...)
	exh = append(exh, enumTrees(2, 2)...)
	const chunk = 40
	nExh := (len(exh) + chunk - 1) / chunk
	total := o.N + nExh
	outs := make([]histOut, total)
	ParallelFor(total, o.Workers, func(i int) {
		h := c15Hist{Seed: o.Seed, Idx: i}
		if i < o.N {
			outs[i] = c15Run(h, n, tables, cnt, nil)
			return
		}
		k := i - o.N
		hi := (k + 1) * chunk
		if hi > len(exh) {
			hi = len(exh)
		}
		outs[i] = c15Run(h, 0, tables, cnt, exh[k*chunk:hi])
	})

	seen := map[string]bool{}
	perShard := 6
	var cases []string
	shard := 0
	flush := func() error {
		if len(cases) == 0 {
			return nil
		}
		name, err := WriteShard(o.OutDir, shard, c15Header, cases, "mismatches")
		if err != nil {
			return err
		}
		res.Shards = append(res.Shards, name)
		shard++
		cases = nil
		return nil
	}
	accepted := 0
	for i, ot := range outs {
		res.Histories++
		res.Evaluations += ot.evals
		accepted += ot.accepted
		for _, k := range ot.nontriv {
			if !seen[k] {
				seen[k] = true
				res.DistinctNontrivial++
			}
		}
		if i < 2 {
			s := ot.hist
			if len(s.Txs) > 4 {
				s.Txs = s.Txs[:4]
			}
			res.Samples = append(res.Samples, s)
		}
		res.HistIndex = append(res.HistIndex, HistRef{shard, len(cases), i, MustJSON(ot.hist)})
		cases = append(cases, ot.coq)
		if len(cases) == perShard {
			if err := flush(); err != nil {
				return nil, err
			}
		}
		for _, f := range ot.fails {
			res.Failures = append(res.Failures, *f)
		}
	}
	if err := flush(); err != nil {
		return nil, err
	}
	if o.Tier == "thorough" {
		// all 4 121 765 single-message trees with Exec nesting <= 2 and width <= 3 over
		// the 5-type alphabet, one mode each, monitors only (no Coq case files)
		n, fs := c15Sweep(o, cnt)
		res.Evaluations += n
		res.Failures = append(res.Failures, fs...)
		res.Extra["sweep_trees"] = n
	}
	res.Counters = cnt.Map()
	res.Counters["accepted-evaluations"] = accepted
	res.Counters["exhaustive-trees"] = len(exh)
	for _, k := range c15AllSplits {
		if res.Counters["split:"+k] == 0 {
			res.QualityGate = append(res.QualityGate, k)
		}
	}
	return res, nil
}
