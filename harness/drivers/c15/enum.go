package c15

// Source enumerator for C15: re-reads, on every run, from app/ante/ante.go and
// app/ante/vesting.go of the tree the harness was built against
//
//   - the decorator chain of newCosmosAnteHandler, in order, with the
//     conditions under which a decorator is appended;
//   - the decorator chain of newEthAnteHandler;
//   - the cases of the extension-option switch of NewAnteHandler;
//   - the list of message types passed to NewAuthzLimiterDecorator;
//   - the list of message types of NewVestingAccountDecorator,
//
// and compares them with the tables the Coq model (Model/Ante.v: chain_names,
// eth_chain_names, router_names, disabled_types, vesting_types) was proved
// against.  go/parser only: no type checking is needed for these shapes.

import (
	"bytes"
	"fmt"
	"go/ast"
	"go/parser"
	"go/printer"
	"go/token"
	"os"
	"path/filepath"
	"reflect"
	"strconv"
	"strings"

	codectypes "github.com/cosmos/cosmos-sdk/codec/types"
	sdk "github.com/cosmos/cosmos-sdk/types"
)

type anteTables struct {
	Chain    []string `json:"cosmos_chain"`
	EthChain []string `json:"eth_chain"`
	Router   []string `json:"router"`
	Disabled []string `json:"disabled_types"` // type URLs
	Vesting  []string `json:"vesting_types"`  // type URLs
	Problems []string `json:"problems,omitempty"`
}

// the tables of Model/Ante.v (kept in step with it by the Coq-side comparison
// [tables_ok], which every case file evaluates on the tables read from source)
var expectedTables = anteTables{
	Chain: []string{
		"evmante.RejectMessagesDecorator",
		"authante.NewSetUpContextDecorator",
		"[!options.isEIP712]authante.NewExtensionOptionsDecorator",
		"[len(options.AddressFetchers) > 0]NewAuthenticatedMempoolDecorator",
		"NewEvmMinGasFilter",
		"NewVestingAccountDecorator",
		"NewAuthzLimiterDecorator",
		"authante.NewValidateBasicDecorator",
		"authante.NewTxTimeoutHeightDecorator",
		"authante.NewValidateMemoDecorator",
		"authante.NewConsumeGasForTxSizeDecorator",
		"authante.NewDeductFeeDecorator",
		"authante.NewSetPubKeyDecorator",
		"authante.NewValidateSigCountDecorator",
		"authante.NewSigGasConsumeDecorator",
		"sigVerification=authante.NewSigVerificationDecorator|[options.isEIP712]evmante.NewLegacyEip712SigVerificationDecorator",
		"authante.NewIncrementSequenceDecorator",
		"ibcante.NewRedundantRelayDecorator",
	},
	EthChain: []string{
		"evmante.NewEthSetUpContextDecorator",
		"evmante.NewEthMempoolFeeDecorator",
		"evmante.NewEthValidateBasicDecorator",
		"evmante.NewEthSigVerificationDecorator",
		"[len(options.AddressFetchers) > 0]NewAuthenticatedMempoolDecorator",
		"evmante.NewEthAccountVerificationDecorator",
		"evmante.NewCanTransferDecorator",
		"evmante.NewEthGasConsumeDecorator",
		"evmante.NewEthIncrementSenderSequenceDecorator",
		"evmante.NewEthEmitEventDecorator",
	},
	Router: []string{
		"/ethermint.evm.v1.ExtensionOptionsEthereumTx=>newEthAnteHandler",
		"/ethermint.types.v1.ExtensionOptionsWeb3Tx=>newCosmosAnteHandler",
	},
	Disabled: []string{
		"/ethermint.evm.v1.MsgEthereumTx",
		"/cosmos.vesting.v1beta1.MsgCreateVestingAccount",
		"/cosmos.vesting.v1beta1.MsgCreatePermanentLockedAccount",
		"/cosmos.vesting.v1beta1.MsgCreatePeriodicVestingAccount",
	},
	Vesting: []string{
		"/cosmos.vesting.v1beta1.MsgCreateVestingAccount",
		"/cosmos.vesting.v1beta1.MsgCreatePermanentLockedAccount",
		"/cosmos.vesting.v1beta1.MsgCreatePeriodicVestingAccount",
	},
}

func repoDir() string {
	if d := os.Getenv("VERIF_REPO"); d != "" {
		return d
	}
	return "/repo"
}

func render(fset *token.FileSet, n ast.Node) string {
	var b bytes.Buffer
	_ = printer.Fprint(&b, fset, n)
	return strings.Join(strings.Fields(b.String()), " ")
}

// importMap: local package name -> import path
func importMap(f *ast.File) map[string]string {
	m := map[string]string{}
	for _, im := range f.Imports {
		p, _ := strconv.Unquote(im.Path.Value)
		name := p[strings.LastIndex(p, "/")+1:]
		if im.Name != nil {
			name = im.Name.Name
		}
		m[name] = p
	}
	return m
}

// goTypeToURL maps "import/path.TypeName" of every registered sdk.Msg
// implementation to its type URL.
func goTypeToURL(reg codectypes.InterfaceRegistry) map[string]string {
	out := map[string]string{}
	for _, u := range reg.ListImplementations(sdk.MsgInterfaceProtoName) {
		m, err := reg.Resolve(u)
		if err != nil {
			continue
		}
		t := reflect.TypeOf(m)
		for t.Kind() == reflect.Ptr {
			t = t.Elem()
		}
		out[t.PkgPath()+"."+t.Name()] = u
	}
	return out
}

// urlOfExpr resolves sdk.MsgTypeURL(&pkg.Type{}) to the type URL.
func urlOfExpr(fset *token.FileSet, e ast.Expr, imports map[string]string, types map[string]string) (string, error) {
	call, ok := e.(*ast.CallExpr)
	if !ok || render(fset, call.Fun) != "sdk.MsgTypeURL" || len(call.Args) != 1 {
		if lit, ok := e.(*ast.BasicLit); ok && lit.Kind == token.STRING {
			s, _ := strconv.Unquote(lit.Value)
			return s, nil
		}
		return "", fmt.Errorf("unrecognised type-URL expression %q", render(fset, e))
	}
	arg := call.Args[0]
	if u, ok := arg.(*ast.UnaryExpr); ok && u.Op == token.AND {
		arg = u.X
	}
	cl, ok := arg.(*ast.CompositeLit)
	if !ok {
		return "", fmt.Errorf("unrecognised message expression %q", render(fset, call.Args[0]))
	}
	sel, ok := cl.Type.(*ast.SelectorExpr)
	if !ok {
		return "", fmt.Errorf("unqualified message type %q", render(fset, cl.Type))
	}
	pkg := render(fset, sel.X)
	path, ok := imports[pkg]
	if !ok {
		return "", fmt.Errorf("unknown package %q", pkg)
	}
	u, ok := types[path+"."+sel.Sel.Name]
	if !ok {
		return "", fmt.Errorf("type %s.%s is not a registered sdk.Msg", path, sel.Sel.Name)
	}
	return u, nil
}

func funcDecl(f *ast.File, name string) *ast.FuncDecl {
	for _, d := range f.Decls {
		if fd, ok := d.(*ast.FuncDecl); ok && fd.Recv == nil && fd.Name.Name == name {
			return fd
		}
	}
	return nil
}

type chainWalker struct {
	fset     *token.FileSet
	vars     map[string]string // tracked decorator variables: name -> rendering
	chain    []string
	slice    string // name of the decorator slice
	limiter  *ast.CallExpr
	problems []string
	frozen   bool // variable renderings are final
}

func (w *chainWalker) decoratorName(e ast.Expr) string {
	switch x := e.(type) {
	case *ast.CallExpr:
		name := render(w.fset, x.Fun)
		if name == "NewAuthzLimiterDecorator" {
			w.limiter = x
		}
		return name
	case *ast.CompositeLit:
		return render(w.fset, x.Type)
	case *ast.Ident:
		if v, ok := w.vars[x.Name]; ok {
			return x.Name + "=" + v
		}
		return x.Name
	}
	return render(w.fset, e)
}

func (w *chainWalker) stmts(list []ast.Stmt, cond string) {
	for _, s := range list {
		switch st := s.(type) {
		case *ast.DeclStmt:
			gd, ok := st.Decl.(*ast.GenDecl)
			if !ok {
				continue
			}
			for _, sp := range gd.Specs {
				vs, ok := sp.(*ast.ValueSpec)
				if !ok {
					continue
				}
				for i, n := range vs.Names {
					if i < len(vs.Values) && !w.frozen {
						if c, ok := vs.Values[i].(*ast.CallExpr); ok {
							w.vars[n.Name] = render(w.fset, c.Fun)
						}
					}
				}
			}
		case *ast.AssignStmt:
			if len(st.Lhs) != 1 || len(st.Rhs) != 1 {
				continue
			}
			lhs := render(w.fset, st.Lhs[0])
			if call, ok := st.Rhs[0].(*ast.CallExpr); ok && render(w.fset, call.Fun) == "append" && len(call.Args) >= 1 && render(w.fset, call.Args[0]) == lhs {
				if w.slice == "" {
					w.slice = lhs
				}
				if lhs != w.slice {
					continue
				}
				for _, a := range call.Args[1:] {
					w.chain = append(w.chain, cond+w.decoratorName(a))
				}
				continue
			}
			if cl, ok := st.Rhs[0].(*ast.CompositeLit); ok && st.Tok == token.DEFINE && strings.HasSuffix(render(w.fset, cl.Type), "AnteDecorator") {
				// decorators := []sdk.AnteDecorator{ d1, d2, ... }
				if w.slice == "" {
					w.slice = lhs
				}
				if lhs == w.slice {
					for _, e := range cl.Elts {
						w.chain = append(w.chain, cond+w.decoratorName(e))
					}
				}
				continue
			}
			if _, tracked := w.vars[lhs]; tracked {
				if w.frozen {
					continue
				}
				if c, ok := st.Rhs[0].(*ast.CallExpr); ok {
					w.vars[lhs] += "|" + cond + render(w.fset, c.Fun)
				} else {
					w.vars[lhs] += "|" + cond + render(w.fset, st.Rhs[0])
				}
				continue
			}
			if st.Tok == token.DEFINE && !w.frozen {
				if c, ok := st.Rhs[0].(*ast.CallExpr); ok {
					w.vars[lhs] = render(w.fset, c.Fun)
				}
			}
		case *ast.IfStmt:
			c := "[" + render(w.fset, st.Cond) + "]"
			w.stmts(st.Body.List, cond+c)
			if st.Else != nil {
				if blk, ok := st.Else.(*ast.BlockStmt); ok {
					w.stmts(blk.List, cond+"[!("+render(w.fset, st.Cond)+")]")
				} else {
					w.problems = append(w.problems, "else-if in decorator chain construction")
				}
			}
		case *ast.ReturnStmt:
			// return sdk.ChainAnteDecorators(decorators...)  or  (d1, d2, ...)
			if len(st.Results) != 1 {
				continue
			}
			call, ok := st.Results[0].(*ast.CallExpr)
			if !ok || render(w.fset, call.Fun) != "sdk.ChainAnteDecorators" {
				w.problems = append(w.problems, "handler does not return sdk.ChainAnteDecorators(...): "+render(w.fset, st.Results[0]))
				continue
			}
			if call.Ellipsis.IsValid() {
				if len(call.Args) != 1 || render(w.fset, call.Args[0]) != w.slice {
					w.problems = append(w.problems, "ChainAnteDecorators applied to "+render(w.fset, call.Args[0]))
				}
				continue
			}
			for _, a := range call.Args {
				w.chain = append(w.chain, cond+w.decoratorName(a))
			}
		case *ast.ExprStmt, *ast.EmptyStmt:
		default:
			w.problems = append(w.problems, fmt.Sprintf("unexpected statement in handler construction: %s", render(w.fset, s)))
		}
	}
}

// two passes: the first collects the renderings of decorator variables (a
// variable may be reassigned under a condition before it is appended), the
// second builds the chain with those renderings.
func walkChain(fset *token.FileSet, fd *ast.FuncDecl) *chainWalker {
	w1 := &chainWalker{fset: fset, vars: map[string]string{}}
	w1.stmts(fd.Body.List, "")
	w2 := &chainWalker{fset: fset, vars: w1.vars, frozen: true}
	w2.stmts(fd.Body.List, "")
	return w2
}

func readAnteTables(reg codectypes.InterfaceRegistry) anteTables {
	var t anteTables
	dir := filepath.Join(repoDir(), "app", "ante")
	fset := token.NewFileSet()
	types := goTypeToURL(reg)

	f, err := parser.ParseFile(fset, filepath.Join(dir, "ante.go"), nil, 0)
	if err != nil {
		t.Problems = append(t.Problems, "cannot parse ante.go: "+err.Error())
		return t
	}
	imports := importMap(f)

	if fd := funcDecl(f, "newCosmosAnteHandler"); fd == nil {
		t.Problems = append(t.Problems, "newCosmosAnteHandler not found")
	} else {
		w := walkChain(fset, fd)
		t.Chain = w.chain
		t.Problems = append(t.Problems, w.problems...)
		if w.limiter == nil {
			t.Problems = append(t.Problems, "NewAuthzLimiterDecorator is not in the cosmos chain")
		} else {
			for _, a := range w.limiter.Args {
				u, err := urlOfExpr(fset, a, imports, types)
				if err != nil {
					t.Problems = append(t.Problems, "disabled list: "+err.Error())
					u = "?" + render(fset, a)
				}
				t.Disabled = append(t.Disabled, u)
			}
		}
	}

	if fd := funcDecl(f, "newEthAnteHandler"); fd == nil {
		t.Problems = append(t.Problems, "newEthAnteHandler not found")
	} else {
		w := walkChain(fset, fd)
		t.EthChain = w.chain
		t.Problems = append(t.Problems, w.problems...)
	}

	if fd := funcDecl(f, "NewAnteHandler"); fd == nil {
		t.Problems = append(t.Problems, "NewAnteHandler not found")
	} else {
		ast.Inspect(fd, func(n ast.Node) bool {
			sw, ok := n.(*ast.SwitchStmt)
			if !ok {
				return true
			}
			for _, c := range sw.Body.List {
				cc := c.(*ast.CaseClause)
				for _, e := range cc.List {
					lit, ok := e.(*ast.BasicLit)
					if !ok || lit.Kind != token.STRING {
						continue
					}
					url, _ := strconv.Unquote(lit.Value)
					handler := "?"
					for _, s := range cc.Body {
						if as, ok := s.(*ast.AssignStmt); ok && len(as.Rhs) == 1 {
							if call, ok := as.Rhs[0].(*ast.CallExpr); ok {
								handler = render(fset, call.Fun)
							}
						}
					}
					t.Router = append(t.Router, url+"=>"+handler)
				}
			}
			return true
		})
	}

	fv, err := parser.ParseFile(fset, filepath.Join(dir, "vesting.go"), nil, 0)
	if err != nil {
		t.Problems = append(t.Problems, "cannot parse vesting.go: "+err.Error())
		return t
	}
	vimports := importMap(fv)
	if fd := funcDecl(fv, "NewVestingAccountDecorator"); fd == nil {
		t.Problems = append(t.Problems, "NewVestingAccountDecorator not found")
	} else {
		found := false
		ast.Inspect(fd, func(n ast.Node) bool {
			kv, ok := n.(*ast.KeyValueExpr)
			if !ok || render(fset, kv.Key) != "disabledMsgTypeUrls" {
				return true
			}
			cl, ok := kv.Value.(*ast.CompositeLit)
			if !ok {
				return true
			}
			found = true
			for _, e := range cl.Elts {
				u, err := urlOfExpr(fset, e, vimports, types)
				if err != nil {
					t.Problems = append(t.Problems, "vesting list: "+err.Error())
					u = "?" + render(fset, e)
				}
				t.Vesting = append(t.Vesting, u)
			}
			return false
		})
		if !found {
			t.Problems = append(t.Problems, "disabledMsgTypeUrls literal not found in NewVestingAccountDecorator")
		}
	}
	return t
}

func diffList(name string, got, want []string) []string {
	var out []string
	n := len(got)
	if len(want) > n {
		n = len(want)
	}
	for i := 0; i < n; i++ {
		g, w := "<missing>", "<missing>"
		if i < len(got) {
			g = got[i]
		}
		if i < len(want) {
			w = want[i]
		}
		if g != w {
			out = append(out, fmt.Sprintf("%s[%d]: source has %q, model table has %q", name, i, g, w))
		}
	}
	return out
}

// compareTables returns the rows where the source differs from the tables of the model.
func compareTables(got anteTables) []string {
	var d []string
	d = append(d, got.Problems...)
	d = append(d, diffList("cosmos_chain", got.Chain, expectedTables.Chain)...)
	d = append(d, diffList("eth_chain", got.EthChain, expectedTables.EthChain)...)
	d = append(d, diffList("router", got.Router, expectedTables.Router)...)
	d = append(d, diffList("disabled_types", got.Disabled, expectedTables.Disabled)...)
	d = append(d, diffList("vesting_types", got.Vesting, expectedTables.Vesting)...)
	return d
}
