// Package c02: blocks always process and registered invariants hold at every
// height.  Multi-module histories run through the full ABCI cycle with recover()
// around BeginBlock / DeliverTx / EndBlock; after every block every invariant
// route registered with the crisis keeper (Kava's modules and bank, staking,
// distribution, gov) is evaluated.
package c02

import (
	. "kavaverif/lib"

	"encoding/json"
	"fmt"
	"os"
	"strings"
	"time"

	sdkmath "cosmossdk.io/math"
	tmproto "github.com/cometbft/cometbft/proto/tendermint/types"
	sdk "github.com/cosmos/cosmos-sdk/types"

	upgradetypes "github.com/cosmos/cosmos-sdk/x/upgrade/types"
	"github.com/kava-labs/kava/app"
	cdptypes "github.com/kava-labs/kava/x/cdp/types"
	committeetypes "github.com/kava-labs/kava/x/committee/types"
	issuancetypes "github.com/kava-labs/kava/x/issuance/types"
	pricefeedtypes "github.com/kava-labs/kava/x/pricefeed/types"
	"kavaverif/drivers/world"
)

func init() { Registry["C02"] = run }

type hist struct {
	Seed     uint64 `json:"seed"`
	Idx      int    `json:"history"`
	Blocks   int    `json:"blocks"`
	Scenario string `json:"scenario,omitempty"`
}

type finding struct {
	Height int64        `json:"height"`
	What   string       `json:"what"`
	Detail string       `json:"detail"`
	Txs    []string     `json:"txs"`
	Config world.Config `json:"config"`
}

// checkInvariants evaluates every registered invariant route.
func checkInvariants(tApp app.TestApp, height int64, t time.Time) (route, msg string) {
	defer func() {
		if r := recover(); r != nil {
			route, msg = "invariant-evaluation-panic", fmt.Sprint(r)
		}
	}()
	// after Commit the deliver state is gone; the check state is the committed state
	ctx := tApp.NewContext(true, tmproto.Header{Height: height, Time: t, ChainID: app.TestChainId})
	ck := tApp.GetCrisisKeeper()
	for _, r := range ck.Routes() {
		if m, broken := r.Invar(ctx); broken {
			return r.ModuleName + "/" + r.Route, m
		}
	}
	// coherence of derived indexes and custody that no registered invariant covers
	if n, m := world.ExtendedInvariants(tApp, ctx); n != "" {
		return "extended:" + n, m
	}
	return "", ""
}

func panicSig(p string) string {
	p = strings.ToLower(p)
	switch {
	case strings.Contains(p, "debt is smaller than"):
		return "beginblock-panic:cdp-auction-debt-exceeds-liquidator-debt"
	case strings.Contains(p, "beginblock"):
		w := strings.Fields(p)
		if len(w) > 6 {
			w = w[:6]
		}
		return "beginblock-panic:" + strings.Join(w[2:], "-")
	}
	return "block-panic"
}

func runHistory(seed uint64, idx, nBlocks int, cnt *Counters) (*finding, int, int, []string) {
	r := NewRng(seed, uint64(idx)+0xC02)
	cfg := world.RandomConfig(r)
	w := world.NewWorld(cfg, seed*1000+uint64(idx), cnt)
	A := w.Start(NewApp())
	height, t := int64(2), world.Genesis0
	nTx, okTx := 0, 0
	var sample []string
	for b := 0; b < nBlocks; b++ {
		w.Height, w.Time = height, t
		txs, descs := w.GenBlockTxs(r, A, 1+r.Intn(7))
		ra := world.Deliver(A, height, txs)
		for i, tr := range ra.Txs {
			nTx++
			if tr.Code == 0 {
				okTx++
				cnt.Inc("tx-ok:" + descs[i])
			} else {
				cnt.Inc("tx-fail:" + descs[i])
			}
			if len(sample) < 10 {
				sample = append(sample, fmt.Sprintf("h%d %s code=%d", height, descs[i], tr.Code))
			}
		}
		if ra.Panic != "" {
			return &finding{height, "deliver-or-endblock-panic", ra.Panic, descs, cfg}, nTx, okTx, sample
		}
		if route, msg := checkInvariants(A, height, t); route != "" {
			return &finding{height, "invariant-broken:" + route, msg, descs, cfg}, nTx, okTx, sample
		}
		height++
		t = t.Add(world.NextGap(r))
		if _, p := world.Begin(A, height, t); p != "" {
			if strings.Contains(p, "UPGRADE") && strings.Contains(p, "NEEDED") {
				// an enacted software-upgrade plan halts the chain at its height by design
				// (governance decision, binary switch); not a user-caused halt
				cnt.Inc("history-ended-by-enacted-upgrade-plan")
				break
			}
			return &finding{height, panicSig(p), p, descs, cfg}, nTx, okTx, sample
		}
		cnt.Inc("blocks")
	}
	return nil, nTx, okTx, sample
}

// scenarioCdpTwoDeposits: a CDP with two equal deposits (owner + third party) and an odd
// debt is liquidated by the begin blocker after a price drop.
func scenarioCdpTwoDeposits(seed uint64) *finding {
	cfg := world.RandomConfig(NewRng(seed, 1))
	cfg.LiqRatioXrp, cfg.XrpPrice, cfg.StabilityFee = "1.5", "1.0", "1.0"
	w := world.NewWorld(cfg, seed, NewCounters())
	A := w.Start(NewApp())
	height, t := int64(2), world.Genesis0
	w.Height, w.Time = height, t
	m1 := cdptypes.NewMsgCreateCDP(w.Addrs[0], sdk.NewInt64Coin("xrp", 20_000_000), sdk.NewInt64Coin("usdx", 10_000_003), "xrp-a")
	m2 := cdptypes.NewMsgDeposit(w.Addrs[0], w.Addrs[1], sdk.NewInt64Coin("xrp", 20_000_000), "xrp-a")
	txs := [][]byte{w.Sign(A, 0, &m1), w.Sign(A, 1, &m2)}
	ra := world.Deliver(A, height, txs)
	if ra.Panic != "" || ra.Txs[0].Code != 0 || ra.Txs[1].Code != 0 {
		return &finding{height, "scenario-setup-failed", fmt.Sprintf("%+v", ra), nil, cfg}
	}
	height++
	t = t.Add(6 * time.Second)
	if _, p := world.Begin(A, height, t); p != "" {
		return &finding{height, panicSig(p), p, nil, cfg}
	}
	w.Height, w.Time = height, t
	var ptx [][]byte
	for _, o := range w.Oracles {
		ptx = append(ptx, w.Sign(A, o, pricefeedtypes.NewMsgPostPrice(w.Addrs[o].String(), "xrp:usd", sdk.MustNewDecFromStr("0.3"), t.Add(time.Hour))))
	}
	rb := world.Deliver(A, height, ptx)
	if rb.Panic != "" {
		return &finding{height, "deliver-or-endblock-panic", rb.Panic, nil, cfg}
	}
	height++
	t = t.Add(6 * time.Second)
	if _, p := world.Begin(A, height, t); p != "" {
		return &finding{height, panicSig(p), p, []string{"cdp.create xrp-a 20000000xrp/10000003usdx by user0", "cdp.deposit 20000000xrp by user1", "pricefeed.post xrp:usd 0.3 by all oracles", "next BeginBlock"}, cfg}
	}
	if route, msg := checkInvariants(A, height, t); route != "" {
		return &finding{height, "invariant-broken:" + route, msg, nil, cfg}
	}
	_ = sdkmath.ZeroInt
	return nil
}

// scenarioIssuanceSeizeLocked: the asset owner blocks an address whose balance of the
// issued denom is partly locked by a vesting schedule; the next begin blocker seizes.
func scenarioIssuanceSeizeLocked(seed uint64) *finding {
	cfg := world.RandomConfig(NewRng(seed, 2))
	w := world.NewWorld(cfg, seed, NewCounters())
	A := w.Start(NewApp())
	height, t := int64(2), world.Genesis0
	w.Height, w.Time = height, t
	vesting := w.Addrs[world.NUsers-1]
	m := issuancetypes.NewMsgBlockAddress(w.Addrs[1].String(), "busd", vesting.String())
	ra := world.Deliver(A, height, [][]byte{w.Sign(A, 1, m)})
	if ra.Panic != "" || ra.Txs[0].Code != 0 {
		return &finding{height, "scenario-setup-failed", fmt.Sprintf("%+v", ra), nil, cfg}
	}
	height++
	t = t.Add(6 * time.Second)
	if _, p := world.Begin(A, height, t); p != "" {
		sig := panicSig(p)
		if strings.Contains(p, "busd") {
			sig = "beginblock-panic:issuance-seize-locked-vesting-coins"
		}
		return &finding{height, sig, p, []string{"issuance.block busd <periodic vesting account with locked busd> by the asset owner", "next BeginBlock"}, cfg}
	}
	if route, msg := checkInvariants(A, height, t); route != "" {
		return &finding{height, "invariant-broken:" + route, msg, nil, cfg}
	}
	return nil
}

// stepBlock delivers txs at the current height, checks invariants, then begins the next block.
func stepBlock(A app.TestApp, w *world.World, height *int64, t *time.Time, cfg world.Config, txs [][]byte, gap time.Duration, needOK bool) *finding {
	w.Height, w.Time = *height, *t
	ra := world.Deliver(A, *height, txs)
	if ra.Panic != "" {
		return &finding{*height, "deliver-or-endblock-panic", ra.Panic, nil, cfg}
	}
	if needOK {
		for i, tr := range ra.Txs {
			if tr.Code != 0 {
				return &finding{*height, "scenario-setup-failed", fmt.Sprintf("tx %d: %s", i, tr.Log), nil, cfg}
			}
		}
	}
	if route, msg := checkInvariants(A, *height, *t); route != "" {
		return &finding{*height, "invariant-broken:" + route, msg, nil, cfg}
	}
	*height++
	*t = t.Add(gap)
	if _, p := world.Begin(A, *height, *t); p != "" {
		return &finding{*height, panicSig(p), p, nil, cfg}
	}
	return nil
}

// scenarioStaleCommitteeProposal: an upgrade plan for a height that has passed by the time
// the deciding votes arrive; the committee begin blocker must close it, not halt the chain.
func scenarioStaleCommitteeProposal(seed uint64) *finding {
	cfg := world.RandomConfig(NewRng(seed, 3))
	w := world.NewWorld(cfg, seed, NewCounters())
	A := w.Start(NewApp())
	height, t := int64(2), world.Genesis0
	w.Height, w.Time = height, t
	plan := upgradetypes.NewSoftwareUpgradeProposal("up", "plan", upgradetypes.Plan{Name: "stale-plan", Height: 4})
	m, err := committeetypes.NewMsgSubmitProposal(plan, w.Addrs[0], 1)
	if err != nil {
		return &finding{height, "scenario-setup-failed", err.Error(), nil, cfg}
	}
	if f := stepBlock(A, w, &height, &t, cfg, [][]byte{w.Sign(A, 0, m)}, 6*time.Second, true); f != nil {
		return f
	}
	for i := 0; i < 3; i++ { // heights 3,4,5 pass without votes
		if f := stepBlock(A, w, &height, &t, cfg, nil, 6*time.Second, false); f != nil {
			return f
		}
	}
	w.Height, w.Time = height, t
	votes := [][]byte{
		w.Sign(A, 0, committeetypes.NewMsgVote(w.Addrs[0], 1, committeetypes.VOTE_TYPE_YES)),
		w.Sign(A, w.Member, committeetypes.NewMsgVote(w.Addrs[w.Member], 1, committeetypes.VOTE_TYPE_YES)),
	}
	if f := stepBlock(A, w, &height, &t, cfg, votes, 6*time.Second, true); f != nil {
		if strings.HasPrefix(f.What, "beginblock-panic") {
			f.What = "beginblock-panic:committee-stale-proposal"
			f.Txs = []string{"committee.submit upgrade plan height 4 at height 2", "3 empty blocks", "both members vote yes at height 6", "next BeginBlock"}
		}
		return f
	}
	return stepBlock(A, w, &height, &t, cfg, nil, 6*time.Second, false)
}

// scenarioCdpDepositorWithdrawsAll: a third-party depositor withdraws exactly its whole
// deposit, then the CDP is liquidated by the begin blocker after a price drop.
func scenarioCdpDepositorWithdrawsAll(seed uint64) *finding {
	cfg := world.RandomConfig(NewRng(seed, 4))
	cfg.LiqRatioXrp, cfg.XrpPrice, cfg.StabilityFee = "1.5", "1.0", "1.0"
	w := world.NewWorld(cfg, seed, NewCounters())
	A := w.Start(NewApp())
	height, t := int64(2), world.Genesis0
	w.Height, w.Time = height, t
	m1 := cdptypes.NewMsgCreateCDP(w.Addrs[0], sdk.NewInt64Coin("xrp", 40_000_000), sdk.NewInt64Coin("usdx", 20_000_001), "xrp-a")
	m2 := cdptypes.NewMsgDeposit(w.Addrs[0], w.Addrs[1], sdk.NewInt64Coin("xrp", 5_000_000), "xrp-a")
	if f := stepBlock(A, w, &height, &t, cfg, [][]byte{w.Sign(A, 0, &m1), w.Sign(A, 1, &m2)}, 6*time.Second, true); f != nil {
		return f
	}
	w.Height, w.Time = height, t
	m3 := cdptypes.NewMsgWithdraw(w.Addrs[0], w.Addrs[1], sdk.NewInt64Coin("xrp", 5_000_000), "xrp-a")
	if f := stepBlock(A, w, &height, &t, cfg, [][]byte{w.Sign(A, 1, &m3)}, 6*time.Second, true); f != nil {
		return f
	}
	w.Height, w.Time = height, t
	var ptx [][]byte
	for _, o := range w.Oracles {
		ptx = append(ptx, w.Sign(A, o, pricefeedtypes.NewMsgPostPrice(w.Addrs[o].String(), "xrp:usd", sdk.MustNewDecFromStr("0.3"), t.Add(time.Hour))))
	}
	if f := stepBlock(A, w, &height, &t, cfg, ptx, 6*time.Second, true); f != nil {
		return f
	}
	return stepBlock(A, w, &height, &t, cfg, nil, 6*time.Second, false)
}

var scenarios = map[string]func(uint64) *finding{
	"committee-stale-upgrade-proposal": scenarioStaleCommitteeProposal,
	"cdp-depositor-withdraws-all":      scenarioCdpDepositorWithdrawsAll,
	"issuance-seize-locked-vesting":    scenarioIssuanceSeizeLocked,
	"cdp-two-deposits-odd-debt":        scenarioCdpTwoDeposits,
}

func mkFailure(idx int, f *finding, h hist) Failure {
	return Failure{History: idx, Step: int(f.Height), Predicate: "blocks-process-and-invariants-hold", Signature: f.What, Detail: string(MustJSON(f)), Replay: MustJSON(h)}
}

func run(o Opts) (*Result, error) {
	nBlocks := o.Len
	if nBlocks == 0 {
		nBlocks = 25
	}
	res := &Result{Property: "C02", Seed: o.Seed,
		Rule: fmt.Sprintf("multi-module histories of %d blocks (1-7 signed txs each over cdp, hard, swap, savings, earn, bep3, pricefeed, auction, incentive, staking, liquid, gov, committee, issuance, bank; varying prices and block gaps 1ns..20d) through BeginBlock/DeliverTx/EndBlock/Commit with every crisis invariant route evaluated after every block, plus directed scenarios; non-trivial when at least 5 transactions succeeded; distinct by (seed, history index)", nBlocks)}
	cnt := NewCounters()
	if o.Replay != "" {
		bz, err := os.ReadFile(o.Replay)
		if err != nil {
			return nil, err
		}
		var h hist
		if err := json.Unmarshal(bz, &h); err != nil {
			return nil, err
		}
		res.Histories = 1
		if h.Scenario != "" {
			if f := scenarios[h.Scenario](h.Seed); f != nil {
				res.Failures = append(res.Failures, mkFailure(-1, f, h))
			}
			res.Evaluations = 1
		} else {
			if h.Blocks == 0 {
				h.Blocks = nBlocks
			}
			f, nTx, _, _ := runHistory(h.Seed, h.Idx, h.Blocks, cnt)
			res.Evaluations = nTx
			if f != nil {
				res.Failures = append(res.Failures, mkFailure(h.Idx, f, h))
			}
		}
		res.Counters = cnt.Map()
		return res, nil
	}
	for _, name := range SortedKeys(map[string]int{"cdp-two-deposits-odd-debt": 1, "issuance-seize-locked-vesting": 1, "committee-stale-upgrade-proposal": 1, "cdp-depositor-withdraws-all": 1}) {
		if f := scenarios[name](o.Seed); f != nil {
			res.Failures = append(res.Failures, mkFailure(-1, f, hist{Seed: o.Seed, Idx: -1, Scenario: name}))
		}
		cnt.Inc("scenario:" + name)
	}
	type out struct {
		f       *finding
		nTx, ok int
		sample  []string
	}
	outs := make([]out, o.N)
	ParallelFor(o.N, o.Workers, func(i int) {
		f, nTx, ok, sample := runHistory(o.Seed, i, nBlocks, cnt)
		outs[i] = out{f, nTx, ok, sample}
	})
	for i, ot := range outs {
		res.Histories++
		res.Evaluations += ot.nTx
		if ot.ok >= 5 {
			res.DistinctNontrivial++
		}
		if i < 2 {
			res.Samples = append(res.Samples, map[string]any{"seed": o.Seed, "history": i, "blocks": nBlocks, "first_txs": ot.sample})
		}
		if ot.f != nil {
			res.Failures = append(res.Failures, mkFailure(i, ot.f, hist{Seed: o.Seed, Idx: i, Blocks: nBlocks}))
		}
	}
	res.Counters = cnt.Map()
	return res, nil
}
