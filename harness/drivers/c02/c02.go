// Package c02: blocks always process and registered invariants hold at every
// height.  Multi-module histories run through the full ABCI cycle with recover()
// around BeginBlock / DeliverTx / EndBlock; after every block every invariant
// route registered with the crisis keeper (Kava's modules and bank, staking,
// distribution, gov) is evaluated, plus the extended invariants of the world
// package (index coherence, custody, the x/auction invariants that the module
// never registers, hard interest factors, bep3 supply counters).
//
// The genesis parameters are drawn from wide valid ranges (world/config.go),
// valid parameter changes are voted through the params committee mid-history
// (world/params.go), and a set of directed scenario streams (scenarios.go)
// drives the blocker branches that random histories reach rarely.
package c02

import (
	. "kavaverif/lib"

	"encoding/json"
	"fmt"
	"os"
	"regexp"
	"sort"
	"strings"
	"time"

	tmproto "github.com/cometbft/cometbft/proto/tendermint/types"

	"github.com/kava-labs/kava/app"
	"kavaverif/drivers/world"
)

func init() { Registry["C02"] = run }

type hist struct {
	Seed     uint64 `json:"seed"`
	Idx      int    `json:"history"`
	Blocks   int    `json:"blocks"`
	Scenario string `json:"scenario,omitempty"`
}

type finding struct {
	Height int64        `json:"height"`
	What   string       `json:"what"`
	Detail string       `json:"detail"`
	Txs    []string     `json:"txs"`
	Config world.Config `json:"config"`
}

// checkInvariants evaluates every registered invariant route.
func checkInvariants(tApp app.TestApp, height int64, t time.Time) (route, msg string) {
	defer func() {
		if r := recover(); r != nil {
			route, msg = "invariant-evaluation-panic", fmt.Sprint(r)
		}
	}()
	// after Commit the deliver state is gone; the check state is the committed state
	ctx := tApp.NewContext(true, tmproto.Header{Height: height, Time: t, ChainID: app.TestChainId})
	ck := tApp.GetCrisisKeeper()
	for _, r := range ck.Routes() {
		if m, broken := r.Invar(ctx); broken {
			return r.ModuleName + "/" + r.Route, m
		}
	}
	// coherence of derived indexes and custody that no registered invariant covers
	if n, m := world.ExtendedInvariants(tApp, ctx); n != "" {
		return "extended:" + n, m
	}
	return "", ""
}

// checkStoredParams: every Kava module's stored parameters pass the module's own
// Params.Validate (after the committed block) and none of them equals a malformed value that
// was proposed, and the proposals the next begin blocker is about to enact leave them so (see
// world.WouldStoreInvalidParams).  nextT is the time of the next block.
func checkStoredParams(w *world.World, tApp app.TestApp, height int64, t, nextT time.Time) (what, msg string) {
	ctx := tApp.NewContext(true, tmproto.Header{Height: height, Time: t, ChainID: app.TestChainId})
	if m, e := w.MalformedStored(tApp, ctx); m != "" {
		return "stored-params-invalid:" + m, e
	}
	if m, e := world.StoredParamsInvalid(tApp, ctx); m != "" {
		return "stored-params-invalid:" + m, e
	}
	if m, e := world.WouldStoreInvalidParams(w, tApp, height+1, nextT); m != "" {
		return "stored-params-invalid:" + m, "enacted by the committee begin blocker of the next block: " + e
	}
	return "", ""
}

var digits = regexp.MustCompile(`[0-9]+`)

func panicSig(p string) string {
	p = strings.ToLower(p)
	switch {
	case strings.Contains(p, "debt is smaller than"):
		return "beginblock-panic:cdp-auction-debt-exceeds-liquidator-debt"
	case strings.Contains(p, "beginblock"):
		w := strings.Fields(digits.ReplaceAllString(p, "N"))
		if len(w) > 6 {
			w = w[:6]
		}
		return "beginblock-panic:" + strings.Join(w[2:], "-")
	}
	return "block-panic"
}

func isUpgradeHalt(p string) bool {
	return strings.Contains(p, "UPGRADE") && strings.Contains(p, "NEEDED")
}

func runHistory(seed uint64, idx, nBlocks int, cnt *Counters) (*finding, int, int, []string) {
	r := NewRng(seed, uint64(idx)+0xC02)
	cfg := world.RandomConfig(r)
	w := world.NewWorld(cfg, seed*1000+uint64(idx), cnt)
	w.ParamChanges = true
	w.MalformedParams = true
	w.CommitteeTraffic = true
	A := w.Start(NewApp())
	height, t := int64(2), world.Genesis0
	nTx, okTx := 0, 0
	var sample []string
	for b := 0; b < nBlocks; b++ {
		w.Height, w.Time = height, t
		txs, descs := w.GenBlockTxs(r, A, 1+r.Intn(7))
		ra := world.DeliverC(A, height, txs, cnt)
		for i, tr := range ra.Txs {
			nTx++
			if tr.Code == 0 {
				okTx++
				cnt.Inc("tx-ok:" + descs[i])
			} else {
				cnt.Inc("tx-fail:" + descs[i])
				if strings.HasPrefix(descs[i], "committee.submit.malformed:") {
					cnt.Inc("malformed-param-change-refused")
				}
				if dbg := os.Getenv("C02_DEBUG_FAIL"); dbg != "" && strings.HasPrefix(descs[i], dbg) {
					cnt.Inc("dbg:" + descs[i] + ":" + tr.Log)
				}
			}
			if len(sample) < 10 {
				sample = append(sample, fmt.Sprintf("h%d %s code=%d", height, descs[i], tr.Code))
			}
		}
		if ra.Panic != "" {
			return &finding{height, "deliver-or-endblock-panic", ra.Panic, descs, cfg}, nTx, okTx, sample
		}
		if route, msg := checkInvariants(A, height, t); route != "" {
			return &finding{height, "invariant-broken:" + route, msg, descs, cfg}, nTx, okTx, sample
		}
		probe := world.TakeProbe(A, height, t)
		height++
		prevT := t
		t = t.Add(world.NextGapAware(r, A, height-1, t))
		if what, msg := checkStoredParams(w, A, height-1, prevT, t); what != "" {
			return &finding{height - 1, what, msg, descs, cfg}, nTx, okTx, sample
		}
		if _, p := world.BeginC(A, height, t, cnt); p != "" {
			if isUpgradeHalt(p) {
				// an enacted software-upgrade plan halts the chain at its height by design
				// (governance decision, binary switch); not a user-caused halt
				cnt.Inc("history-ended-by-enacted-upgrade-plan")
				break
			}
			return &finding{height, panicSig(p), p, descs, cfg}, nTx, okTx, sample
		}
		probe.After(A, height, t, cnt)
		if r.Chance(1, 3) { // an akava transfer through precisebank (what an EVM value transfer does): fractional balances, reserve, remainder
			op := w.GenFracOp(r)
			switch res := w.ApplyFracOp(A, height, t, op); {
			case strings.HasPrefix(res, "panic"):
				return &finding{height, "precisebank-transfer-panics", fmt.Sprintf("%+v: %s", op, res), descs, cfg}, nTx, okTx, sample
			case res == "":
				cnt.Inc("hook-ok:precisebank.send")
			default:
				cnt.Inc("hook-fail:precisebank.send")
			}
		}
		cnt.Inc("blocks")
	}
	return nil, nTx, okTx, sample
}

func mkFailure(idx int, f *finding, h hist) Failure {
	return Failure{History: idx, Step: int(f.Height), Predicate: "blocks-process-and-invariants-hold", Signature: f.What, Detail: string(MustJSON(f)), Replay: MustJSON(h)}
}

// gates are the blocker branches / case splits a run is expected to exercise; the ones a
// run did not reach are reported as the quality gate.
var gates = []string{
	"begin:auction_start:surplus", "begin:auction_start:debt", "begin:auction_start:collateral",
	"branch:cdp-net-surplus-and-debt", "begin:cdp_liquidation", "tx:cdp_liquidation", "tx:hard_liquidation",
	"branch:hard-market-added-to-store", "branch:hard-market-removed-from-store",
	"branch:hard-market-removed-with-open-borrows", "branch:hard-market-readded-with-history",
	"branch:auction-closed:collateral-forward:with-bids", "branch:auction-closed:collateral-reverse:with-bids",
	"branch:auction-closed:surplus:with-bids", "branch:auction-closed:debt:with-bids", "branch:auction-closed-at-max-end-time",
	"begin:proposal_close:Passed", "begin:proposal_close:Invalid", "begin:proposal_close:Failed",
	"begin:swaps_expired", "tx:claim_atomic_swap", "tx:refund_atomic_swap",
	"branch:incentive-period-ended-in-block-gap", "branch:incentive-claim-end-passed", "tx:claim_reward",
	"begin:kavadist", "begin:staking_rewards_paid", "begin:inflation_stop", "end:market_price_updated",
	"tx-ok:committee.submit.param:hard-remove-market", "tx-ok:committee.submit.param:hard-readd-market",
	"tx-ok:committee.submit.param:cdp-collateral", "tx-ok:committee.submit.param:cdp-auction-thresholds",
	"tx-ok:committee.submit.param:incentive-periods", "tx-ok:committee.submit.param:pricefeed-toggle-market",
	"tx-ok:committee.submit.param:auction-durations",
	"malformed-param-change-refused", "branch:incentive-earn-indexes-for-derivative-vault", "branch:liquid-module-delegation-gone-validator-stays",
	"tx-ok:liquid.mint", "tx-ok:liquid.burn", "hook-ok:precisebank.send", "tx-ok:committee.submit.c2", "tx-ok:committee.submit.c3",
}

func scenarioNames() []string {
	names := make([]string, 0, len(scenarios))
	for n := range scenarios {
		names = append(names, n)
	}
	sort.Strings(names)
	return names
}

func run(o Opts) (*Result, error) {
	nBlocks := o.Len
	if nBlocks == 0 {
		nBlocks = 25
	}
	res := &Result{Property: "C02", Seed: o.Seed,
		Rule: fmt.Sprintf("multi-module histories of %d blocks (1-7 signed txs each over cdp, hard, swap, savings, earn, bep3, pricefeed, auction, incentive, staking, liquid, gov, committee, issuance, bank; module parameters drawn from wide valid ranges; valid parameter changes voted through the params committee mid-history; varying prices and block gaps 1ns..20d) through BeginBlock/DeliverTx/EndBlock/Commit with every crisis invariant route and the extended invariants evaluated after every block, plus %d directed scenario streams; non-trivial when at least 5 transactions succeeded; distinct by (seed, history index)", nBlocks, len(scenarios))}
	cnt := NewCounters()
	if o.Replay != "" {
		bz, err := os.ReadFile(o.Replay)
		if err != nil {
			return nil, err
		}
		var h hist
		if err := json.Unmarshal(bz, &h); err != nil {
			return nil, err
		}
		res.Histories = 1
		if h.Scenario != "" {
			sc, ok := scenarios[h.Scenario]
			if !ok {
				return nil, fmt.Errorf("unknown scenario %q", h.Scenario)
			}
			if f := sc(h.Seed, cnt); f != nil {
				res.Failures = append(res.Failures, mkFailure(-1, f, h))
			}
			res.Evaluations = 1
		} else {
			if h.Blocks == 0 {
				h.Blocks = nBlocks
			}
			f, nTx, _, _ := runHistory(h.Seed, h.Idx, h.Blocks, cnt)
			res.Evaluations = nTx
			if f != nil {
				res.Failures = append(res.Failures, mkFailure(h.Idx, f, h))
			}
		}
		res.Counters = cnt.Map()
		return res, nil
	}
	// directed scenario streams: each fixed shape is run with a few PRNG draws of its amounts / timings
	names := scenarioNames()
	reps := 3
	if o.Tier == "thorough" {
		reps = 12
	}
	type sjob struct {
		name string
		seed uint64
	}
	var jobs []sjob
	for _, name := range names {
		for k := 0; k < reps; k++ {
			jobs = append(jobs, sjob{name, o.Seed + uint64(k)*1_000_003})
		}
	}
	sres := make([]*finding, len(jobs))
	ParallelFor(len(jobs), o.Workers, func(i int) {
		sres[i] = scenarios[jobs[i].name](jobs[i].seed, cnt)
		cnt.Inc("scenario:" + jobs[i].name)
	})
	for i, f := range sres {
		if f != nil {
			res.Failures = append(res.Failures, mkFailure(-1, f, hist{Seed: jobs[i].seed, Idx: -1, Scenario: jobs[i].name}))
		}
	}
	type out struct {
		f       *finding
		nTx, ok int
		sample  []string
	}
	outs := make([]out, o.N)
	ParallelFor(o.N, o.Workers, func(i int) {
		f, nTx, ok, sample := runHistory(o.Seed, i, nBlocks, cnt)
		outs[i] = out{f, nTx, ok, sample}
	})
	for i, ot := range outs {
		res.Histories++
		res.Evaluations += ot.nTx
		if ot.ok >= 5 {
			res.DistinctNontrivial++
		}
		if i < 2 {
			res.Samples = append(res.Samples, map[string]any{"seed": o.Seed, "history": i, "blocks": nBlocks, "first_txs": ot.sample})
		}
		if ot.f != nil {
			// the generator is deterministic on prefixes: the blocks up to the failing height reproduce it
			nb := int(ot.f.Height) - 1
			if nb > nBlocks || nb < 1 {
				nb = nBlocks
			}
			res.Failures = append(res.Failures, mkFailure(i, ot.f, hist{Seed: o.Seed, Idx: i, Blocks: nb}))
		}
	}
	res.Counters = cnt.Map()
	for _, g := range gates {
		if res.Counters[g] == 0 {
			res.QualityGate = append(res.QualityGate, g)
		}
	}
	return res, nil
}
