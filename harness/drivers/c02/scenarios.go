package c02

// Directed scenario streams: fixed-shape histories with PRNG amounts / timings for
// the blocker branches that random histories reach rarely.  Every step goes through
// signed transactions and full blocks; after every block all invariants are
// evaluated exactly as in the random histories.

import (
	. "kavaverif/lib"

	"crypto/sha256"
	"fmt"
	"strings"
	"time"

	sdkmath "cosmossdk.io/math"
	tmproto "github.com/cometbft/cometbft/proto/tendermint/types"
	sdk "github.com/cosmos/cosmos-sdk/types"
	paramsproposal "github.com/cosmos/cosmos-sdk/x/params/types/proposal"
	stakingtypes "github.com/cosmos/cosmos-sdk/x/staking/types"
	upgradetypes "github.com/cosmos/cosmos-sdk/x/upgrade/types"

	"github.com/kava-labs/kava/app"
	auctiontypes "github.com/kava-labs/kava/x/auction/types"
	bep3types "github.com/kava-labs/kava/x/bep3/types"
	cdptypes "github.com/kava-labs/kava/x/cdp/types"
	committeetypes "github.com/kava-labs/kava/x/committee/types"
	earntypes "github.com/kava-labs/kava/x/earn/types"
	hardtypes "github.com/kava-labs/kava/x/hard/types"
	incentivetypes "github.com/kava-labs/kava/x/incentive/types"
	issuancetypes "github.com/kava-labs/kava/x/issuance/types"
	liquidtypes "github.com/kava-labs/kava/x/liquid/types"
	pricefeedtypes "github.com/kava-labs/kava/x/pricefeed/types"
	"kavaverif/drivers/world"
)

// sc is one running scenario chain.
type sc struct {
	cfg world.Config
	w   *world.World
	A   app.TestApp
	h   int64
	t   time.Time
	cnt *Counters
	log []string
}

// newSc draws a configuration (PRNG stream `salt` of the seed), lets the scenario adjust it and starts the chain.
func newSc(seed, salt uint64, cnt *Counters, tweak func(cfg *world.Config, r *Rng)) (*sc, *Rng) {
	r := NewRng(seed, salt)
	cfg := world.RandomConfig(r)
	if tweak != nil {
		tweak(&cfg, r)
	}
	w := world.NewWorld(cfg, seed, cnt)
	s := &sc{cfg: cfg, w: w, cnt: cnt, h: 2, t: world.Genesis0}
	s.A = w.Start(NewApp())
	w.Height, w.Time = s.h, s.t
	return s, r
}

func (s *sc) note(format string, a ...any) { s.log = append(s.log, fmt.Sprintf(format, a...)) }

func (s *sc) fail(what, detail string) *finding {
	return &finding{s.h, what, detail, s.log, s.cfg}
}

func (s *sc) ctx() sdk.Context {
	return s.A.NewContext(false, tmproto.Header{Height: s.h, Time: s.t, ChainID: app.TestChainId})
}

func (s *sc) sign(i int, m sdk.Msg) []byte { return s.w.Sign(s.A, i, m) }

// block delivers txs at the current height, checks all invariants, then begins the next block
// `gap` later.  With needOK every transaction must succeed (scenario set-up steps).
func (s *sc) block(gap time.Duration, needOK bool, txs ...[]byte) *finding {
	s.w.Height, s.w.Time = s.h, s.t
	ra := world.DeliverC(s.A, s.h, txs, s.cnt)
	if ra.Panic != "" {
		return s.fail("deliver-or-endblock-panic", ra.Panic)
	}
	for i, tr := range ra.Txs {
		if tr.Code != 0 {
			s.note("  h%d tx %d failed: %s", s.h, i, tr.Log)
			if needOK {
				return s.fail("scenario-setup-failed", fmt.Sprintf("tx %d: %s", i, tr.Log))
			}
		}
	}
	if route, msg := checkInvariants(s.A, s.h, s.t); route != "" {
		return s.fail("invariant-broken:"+route, msg)
	}
	probe := world.TakeProbe(s.A, s.h, s.t)
	if what, msg := checkStoredParams(s.w, s.A, s.h, s.t, s.t.Add(gap)); what != "" {
		return s.fail(what, msg)
	}
	s.h++
	s.t = s.t.Add(gap)
	if _, p := world.BeginC(s.A, s.h, s.t, s.cnt); p != "" {
		s.note("BeginBlock h%d (+%s)", s.h, gap)
		return s.fail(panicSig(p), p)
	}
	probe.After(s.A, s.h, s.t, s.cnt)
	s.w.Height, s.w.Time = s.h, s.t
	return nil
}

// postAll has every oracle post the price (the median moves to it).
func (s *sc) postAll(market, price string) [][]byte {
	var txs [][]byte
	for _, o := range s.w.Oracles {
		txs = append(txs, s.sign(o, pricefeedtypes.NewMsgPostPrice(s.w.Addrs[o].String(), market, sdk.MustNewDecFromStr(price), s.t.Add(1000*time.Hour))))
	}
	s.note("h%d all oracles post %s = %s", s.h, market, price)
	return txs
}

// proposeAndVote returns the submission by the committee member and the deciding vote by user 0 (same block).
func (s *sc) proposeAndVote(content committeetypes.PubProposal) ([][]byte, error) {
	id, err := s.A.GetCommitteeKeeper().GetNextProposalID(s.ctx())
	if err != nil {
		return nil, err
	}
	m, err := committeetypes.NewMsgSubmitProposal(content, s.w.Addrs[s.w.Member], 1)
	if err != nil {
		return nil, err
	}
	return [][]byte{s.sign(s.w.Member, m), s.sign(0, committeetypes.NewMsgVote(s.w.Addrs[0], id, committeetypes.VOTE_TYPE_YES))}, nil
}

func legacyXrp(cfg *world.Config) { // the xrp-a set-up the cdp scenarios rely on
	cfg.LiqRatioXrp, cfg.XrpPrice = "1.5", "1.0"
	if cfg.Wide != nil {
		cfg.Wide.DebtFloor = 10_000_000
		cfg.Wide.LiqInterval = 1
		for i := range cfg.Wide.Collaterals {
			if cfg.Wide.Collaterals[i].Type == "xrp-a" {
				cfg.Wide.Collaterals[i].DebtLimit = 1_000_000_000_000
			}
		}
	}
}

// scenarioCdpTwoDeposits: a CDP with two equal deposits (owner + third party) and an odd
// debt is liquidated by the begin blocker after a price drop.
func scenarioCdpTwoDeposits(seed uint64, cnt *Counters) *finding {
	s, _ := newSc(seed, 1, cnt, func(cfg *world.Config, r *Rng) { legacyXrp(cfg); cfg.StabilityFee = "1.0" })
	m1 := cdptypes.NewMsgCreateCDP(s.w.Addrs[0], sdk.NewInt64Coin("xrp", 20_000_000), sdk.NewInt64Coin("usdx", 10_000_003), "xrp-a")
	m2 := cdptypes.NewMsgDeposit(s.w.Addrs[0], s.w.Addrs[1], sdk.NewInt64Coin("xrp", 20_000_000), "xrp-a")
	s.note("cdp.create xrp-a 20000000xrp/10000003usdx by user0; cdp.deposit 20000000xrp by user1")
	if f := s.block(6*time.Second, true, s.sign(0, &m1), s.sign(1, &m2)); f != nil {
		return f
	}
	if f := s.block(6*time.Second, false, s.postAll("xrp:usd", "0.3")...); f != nil {
		return f
	}
	return s.block(6*time.Second, false)
}

// scenarioIssuanceSeizeLocked: the asset owner blocks an address whose balance of the
// issued denom is partly locked by a vesting schedule; the next begin blocker seizes.
func scenarioIssuanceSeizeLocked(seed uint64, cnt *Counters) *finding {
	s, _ := newSc(seed, 2, cnt, nil)
	vesting := s.w.Addrs[world.NUsers-1]
	m := issuancetypes.NewMsgBlockAddress(s.w.Addrs[1].String(), "busd", vesting.String())
	s.note("issuance.block busd <periodic vesting account with locked busd> by the asset owner")
	if f := s.block(6*time.Second, true, s.sign(1, m)); f != nil {
		if strings.HasPrefix(f.What, "beginblock-panic") && strings.Contains(f.Detail, "busd") {
			f.What = "beginblock-panic:issuance-seize-locked-vesting-coins"
		}
		return f
	}
	return s.block(6*time.Second, false)
}

// scenarioStaleCommitteeProposal: an upgrade plan for a height that has passed by the time
// the deciding votes arrive; the committee begin blocker must close it, not halt the chain.
func scenarioStaleCommitteeProposal(seed uint64, cnt *Counters) *finding {
	s, r := newSc(seed, 3, cnt, func(cfg *world.Config, r *Rng) {
		if cfg.Wide != nil {
			cfg.Wide.ProposalDurSec = 7 * 86400
		}
	})
	plan := upgradetypes.NewSoftwareUpgradeProposal("up", "plan", upgradetypes.Plan{Name: "stale-plan", Height: 4})
	m, err := committeetypes.NewMsgSubmitProposal(plan, s.w.Addrs[0], 1)
	if err != nil {
		return s.fail("scenario-setup-failed", err.Error())
	}
	empty := 1 + r.Intn(3) // the votes arrive at height 4..6; the plan (height 4) is stale when the next begin blocker enacts
	s.note("committee.submit upgrade plan height 4 at height 2; %d empty blocks; both members vote yes at height %d", empty, 3+empty)
	if f := s.block(6*time.Second, true, s.sign(0, m)); f != nil {
		return f
	}
	for i := 0; i < empty; i++ { // blocks without votes
		if f := s.block(6*time.Second, false); f != nil {
			return f
		}
	}
	votes := [][]byte{
		s.sign(0, committeetypes.NewMsgVote(s.w.Addrs[0], 1, committeetypes.VOTE_TYPE_YES)),
		s.sign(s.w.Member, committeetypes.NewMsgVote(s.w.Addrs[s.w.Member], 1, committeetypes.VOTE_TYPE_YES)),
	}
	if f := s.block(6*time.Second, true, votes...); f != nil {
		if strings.HasPrefix(f.What, "beginblock-panic") {
			f.What = "beginblock-panic:committee-stale-proposal"
		}
		return f
	}
	return s.block(6*time.Second, false)
}

// scenarioCdpDepositorWithdrawsAll: a third-party depositor withdraws exactly its whole
// deposit, then the CDP is liquidated by the begin blocker after a price drop.
func scenarioCdpDepositorWithdrawsAll(seed uint64, cnt *Counters) *finding {
	s, _ := newSc(seed, 4, cnt, func(cfg *world.Config, r *Rng) { legacyXrp(cfg); cfg.StabilityFee = "1.0" })
	m1 := cdptypes.NewMsgCreateCDP(s.w.Addrs[0], sdk.NewInt64Coin("xrp", 40_000_000), sdk.NewInt64Coin("usdx", 20_000_001), "xrp-a")
	m2 := cdptypes.NewMsgDeposit(s.w.Addrs[0], s.w.Addrs[1], sdk.NewInt64Coin("xrp", 5_000_000), "xrp-a")
	s.note("cdp.create 40000000xrp/20000001usdx by user0; cdp.deposit 5000000xrp by user1; user1 withdraws 5000000xrp; price drop")
	if f := s.block(6*time.Second, true, s.sign(0, &m1), s.sign(1, &m2)); f != nil {
		return f
	}
	m3 := cdptypes.NewMsgWithdraw(s.w.Addrs[0], s.w.Addrs[1], sdk.NewInt64Coin("xrp", 5_000_000), "xrp-a")
	if f := s.block(6*time.Second, true, s.sign(1, &m3)); f != nil {
		return f
	}
	if f := s.block(6*time.Second, true, s.postAll("xrp:usd", "0.3")...); f != nil {
		return f
	}
	return s.block(6*time.Second, false)
}

// openCdps has users 0..n-1 open xrp-a CDPs (price 1.0, ratio 1.5) with PRNG collateral; frac is
// the part of the maximal debt drawn, in percent.
func (s *sc) openCdps(r *Rng, n int, fracLo, fracHi int, maxCol int64) *finding {
	var txs [][]byte
	for u := 0; u < n; u++ {
		col := int64(30_000_000) + r.Int63n(maxCol)
		max := col * 2 / 3 // usdx base units at price 1.0 and ratio 1.5 (both 6 decimals)
		debt := max * int64(fracLo+r.Intn(fracHi-fracLo+1)) / 100
		if debt < 10_000_000 {
			debt = 10_000_000
		}
		m := cdptypes.NewMsgCreateCDP(s.w.Addrs[u], sdk.NewInt64Coin("xrp", col), sdk.NewInt64Coin("usdx", debt), "xrp-a")
		s.note("h%d cdp.create xrp-a %dxrp/%dusdx by user%d", s.h, col, debt, u)
		txs = append(txs, s.sign(u, &m))
	}
	return s.block(time.Duration(1+r.Intn(10))*time.Second, true, txs...)
}

// scenarioSurplus: stability fees accumulate as liquidator surplus past the surplus auction
// threshold; the lot is above (variant 0) or below (variant 1) the threshold.
func scenarioSurplus(lotAbove bool) func(uint64, *Counters) *finding {
	return func(seed uint64, cnt *Counters) *finding {
		s, r := newSc(seed, 5, cnt, func(cfg *world.Config, r *Rng) {
			legacyXrp(cfg)
			cfg.StabilityFee = []string{"1.000000051034942716", "1.000000012857214317", "1.000000004431822130"}[r.Intn(3)]
			thr := int64(1+r.Intn(9)) * []int64{100, 1000, 10_000, 100_000}[r.Intn(4)]
			cfg.Wide.SurplusThreshold = thr
			if lotAbove {
				cfg.Wide.SurplusLot = thr * int64(2+r.Intn(2000))
			} else {
				cfg.Wide.SurplusLot = thr/int64(1+r.Intn(50)) + 1
				if cfg.Wide.SurplusLot > thr {
					cfg.Wide.SurplusLot = thr
				}
			}
			cfg.Wide.AuctionFwdSec, cfg.Wide.AuctionRevSec, cfg.Wide.AuctionMaxSec = 600, 300, 3600
		})
		s.note("surplus threshold %d lot %d fee %s", s.cfg.Wide.SurplusThreshold, s.cfg.Wide.SurplusLot, s.cfg.StabilityFee)
		if f := s.openCdps(r, 3, 50, 95, 30_000_000_000); f != nil {
			return f
		}
		gaps := []time.Duration{time.Second, 7 * time.Second, time.Minute, 10 * time.Minute, time.Hour, 5 * time.Hour, 30 * time.Hour, 20 * time.Minute, 2 * time.Hour}
		for i, g := range gaps {
			g += time.Duration(r.Intn(1000)) * time.Millisecond
			var txs [][]byte
			// bid on an open surplus auction (ukava for usdx), so that it closes with a winner later
			for _, a := range s.A.GetAuctionKeeper().GetAllAuctions(s.ctx()) {
				if sa, ok := a.(*auctiontypes.SurplusAuction); ok && i%2 == 1 {
					bid := sdk.NewCoin(sa.Bid.Denom, sa.Bid.Amount.MulRaw(2).AddRaw(1+r.Int63n(1000)))
					m := auctiontypes.NewMsgPlaceBid(sa.ID, s.w.Addrs[3].String(), bid)
					s.note("h%d user3 bids %s on surplus auction %d", s.h, bid, sa.ID)
					txs = append(txs, s.sign(3, &m))
					break
				}
			}
			if f := s.block(g, false, txs...); f != nil {
				return f
			}
		}
		return nil
	}
}

// scenarioDebt: CDPs liquidated at a loss; the collateral auctions get only a small bid and
// expire, the liquidator is left with debt past the debt auction threshold; the debt auction is
// bid on and closes (gov coins minted to the winner).
func scenarioDebt(seed uint64, cnt *Counters) *finding {
	s, r := newSc(seed, 6, cnt, func(cfg *world.Config, r *Rng) {
		legacyXrp(cfg)
		cfg.StabilityFee = []string{"1.0", "1.000000001547125958"}[r.Intn(2)]
		cfg.Wide.DebtThreshold = int64(1+r.Intn(20)) * 1_000_000
		cfg.Wide.DebtLot = 1 + r.Int63n(cfg.Wide.DebtThreshold)
		cfg.Wide.SurplusThreshold, cfg.Wide.SurplusLot = 500_000_000_000, 10_000_000_000
		cfg.Wide.AuctionFwdSec, cfg.Wide.AuctionRevSec, cfg.Wide.AuctionMaxSec = 60, 30, 300
		for i := range cfg.Wide.Collaterals {
			if cfg.Wide.Collaterals[i].Type == "xrp-a" {
				cfg.Wide.Collaterals[i].AuctionSize = []int64{5_000_000_000, 50_000_000_000, 1_000_000_000}[r.Intn(3)]
			}
		}
	})
	s.note("debt threshold %d lot %d", s.cfg.Wide.DebtThreshold, s.cfg.Wide.DebtLot)
	if f := s.openCdps(r, 3, 90, 100, 30_000_000_000); f != nil {
		return f
	}
	if f := s.block(6*time.Second, true, s.postAll("xrp:usd", []string{"0.1", "0.3", "0.05"}[r.Intn(3)])...); f != nil {
		return f
	}
	// liquidated by this begin blocker; bid a little on every collateral auction
	for round := 0; round < 10; round++ {
		var txs [][]byte
		bidder := 3 + round%2
		nBids := 0
		for _, a := range s.A.GetAuctionKeeper().GetAllAuctions(s.ctx()) {
			switch au := a.(type) {
			case *auctiontypes.CollateralAuction:
				if !au.HasReceivedBids && nBids == 0 {
					bid := sdk.NewCoin(au.Bid.Denom, sdkmath.NewInt(1+r.Int63n(1000)))
					m := auctiontypes.NewMsgPlaceBid(au.ID, s.w.Addrs[bidder].String(), bid)
					s.note("h%d user%d bids %s on collateral auction %d (max bid %s)", s.h, bidder, bid, au.ID, au.MaxBid)
					txs = append(txs, s.sign(bidder, &m))
					nBids++
				}
			case *auctiontypes.DebtAuction:
				if nBids == 0 && round%2 == 1 {
					lot := sdk.NewCoin(au.Lot.Denom, au.Lot.Amount.MulRaw(int64(30+r.Intn(60))).QuoRaw(100))
					m := auctiontypes.NewMsgPlaceBid(au.ID, s.w.Addrs[bidder].String(), lot)
					s.note("h%d user%d bids lot %s on debt auction %d", s.h, bidder, lot, au.ID)
					txs = append(txs, s.sign(bidder, &m))
					nBids++
				}
			}
		}
		gap := time.Duration(20+r.Intn(100)) * time.Second
		if round%3 == 2 {
			gap = 6 * time.Minute
		}
		if f := s.block(gap, false, txs...); f != nil {
			return f
		}
	}
	return nil
}

// scenarioAuctionPhases: a collateral auction is kept alive by forward bids until late in its
// life, converted to the reverse phase inside the last ReverseBidDuration before MaxEndTime,
// bid on in the reverse phase, and must be closed by the block at MaxEndTime.
func scenarioAuctionPhases(seed uint64, cnt *Counters) *finding {
	s, r := newSc(seed, 7, cnt, func(cfg *world.Config, r *Rng) {
		legacyXrp(cfg)
		cfg.StabilityFee = "1.0"
		fwd := []int64{60, 600, 1200, 3600}[r.Intn(4)]
		rev := []int64{30, 300, 600, 1800}[r.Intn(4)]
		if rev > 2*fwd {
			rev = 2 * fwd
		}
		max := fwd
		if rev > max {
			max = rev
		}
		cfg.Wide.AuctionFwdSec, cfg.Wide.AuctionRevSec, cfg.Wide.AuctionMaxSec = fwd, rev, max*int64(2+r.Intn(4))
		cfg.Wide.IncCollateral = []string{"0.05", "0.01", "0"}[r.Intn(3)]
		cfg.Wide.DebtThreshold, cfg.Wide.DebtLot = 100_000_000_000, 10_000_000_000
		cfg.Wide.SurplusThreshold, cfg.Wide.SurplusLot = 500_000_000_000, 10_000_000_000
		for i := range cfg.Wide.Collaterals {
			if cfg.Wide.Collaterals[i].Type == "xrp-a" {
				cfg.Wide.Collaterals[i].AuctionSize = 1_000_000_000_000 // one auction per deposit
			}
		}
	})
	wd := s.cfg.Wide
	fwd, rev := time.Duration(wd.AuctionFwdSec)*time.Second, time.Duration(wd.AuctionRevSec)*time.Second
	s.note("auction durations forward %s reverse %s max %ds increment %s", fwd, rev, wd.AuctionMaxSec, wd.IncCollateral)
	if f := s.openCdps(r, 2, 90, 100, 10_000_000_000); f != nil {
		return f
	}
	if f := s.block(6*time.Second, true, s.postAll("xrp:usd", "0.6")...); f != nil {
		return f
	}
	var id uint64
	var found bool
	for _, a := range s.A.GetAuctionKeeper().GetAllAuctions(s.ctx()) {
		if _, ok := a.(*auctiontypes.CollateralAuction); ok {
			id, found = a.GetID(), true
			break
		}
	}
	if !found {
		return s.fail("scenario-setup-failed", "no collateral auction after the price drop")
	}
	get := func() *auctiontypes.CollateralAuction {
		a, ok := s.A.GetAuctionKeeper().GetAuction(s.ctx(), id)
		if !ok {
			return nil
		}
		return a.(*auctiontypes.CollateralAuction)
	}
	bid := func(user int, c sdk.Coin) []byte {
		m := auctiontypes.NewMsgPlaceBid(id, s.w.Addrs[user].String(), c)
		s.note("h%d t=+%s user%d bids %s on auction %d", s.h, s.t.Sub(world.Genesis0), user, c, id)
		return s.sign(user, &m)
	}
	au := get()
	first := sdk.NewCoin(au.Bid.Denom, sdkmath.NewInt(1+r.Int63n(1000)))
	// the first bid fixes MaxEndTime = now + MaxAuctionDuration
	maxEnd := s.t.Add(time.Duration(wd.AuctionMaxSec) * time.Second)
	// the conversion lands inside the last ReverseBidDuration before MaxEndTime
	flipAt := maxEnd.Add(-time.Duration(1+r.Int63n(int64(rev)-1)) * time.Nanosecond)
	if r.Chance(1, 3) {
		flipAt = maxEnd.Add(-rev / 2)
	}
	tx := bid(3, first)
	user := 4
	for step := 0; step < 40; step++ {
		au = get()
		end := s.t.Add(fwd) // what the pending bid will set (capped by MaxEndTime)
		if end.After(maxEnd) {
			end = maxEnd
		}
		next := end.Add(-time.Duration(1+r.Intn(900)) * time.Millisecond)
		if !next.Before(flipAt) {
			next = flipAt
		}
		if !next.After(s.t) {
			next = s.t.Add(time.Millisecond)
		}
		if f := s.block(next.Sub(s.t), true, tx); f != nil {
			return f
		}
		au = get()
		if au == nil {
			return s.fail("scenario-setup-failed", "auction closed before the conversion")
		}
		if !au.MaxEndTime.Equal(maxEnd) {
			return s.fail("scenario-setup-failed", fmt.Sprintf("MaxEndTime %s, expected %s", au.MaxEndTime, maxEnd))
		}
		if s.t.Equal(flipAt) {
			break
		}
		// next forward bid: the minimum increment (at least one unit), below MaxBid
		inc := sdk.NewDecFromInt(au.Bid.Amount).Mul(sdk.MustNewDecFromStr(wd.IncCollateral)).RoundInt()
		if inc.LT(sdkmath.OneInt()) {
			inc = sdkmath.OneInt()
		}
		nb := au.Bid.Amount.Add(inc).AddRaw(r.Int63n(50))
		if nb.GTE(au.MaxBid.Amount) {
			nb = au.MaxBid.Amount.SubRaw(1)
			if nb.LTE(au.Bid.Amount) {
				return s.fail("scenario-setup-failed", "forward bids reached MaxBid before the conversion time")
			}
		}
		tx = bid(user, sdk.NewCoin(au.Bid.Denom, nb))
		user = 7 - user
	}
	if !s.t.Equal(flipAt) {
		return s.fail("scenario-setup-failed", "conversion time not reached")
	}
	// the bid that reaches MaxBid converts the auction to the reverse phase
	au = get()
	s.note("conversion bid at MaxEndTime - %s", maxEnd.Sub(s.t))
	left := maxEnd.Sub(s.t)
	g1 := time.Duration(1 + r.Int63n(int64(left)))
	if g1 >= left {
		g1 = left / 2
	}
	if g1 <= 0 {
		g1 = 1
	}
	if f := s.block(g1, true, bid(user, au.MaxBid)); f != nil {
		return f
	}
	au = get()
	if au != nil && !au.IsReversePhase() {
		return s.fail("scenario-setup-failed", "auction not in the reverse phase after a MaxBid bid")
	}
	if au != nil && s.t.Before(maxEnd) {
		// a reverse bid: a smaller lot for the same bid
		dec := sdk.NewDecFromInt(au.Lot.Amount).Mul(sdk.MustNewDecFromStr(wd.IncCollateral)).RoundInt()
		if dec.LT(sdkmath.OneInt()) {
			dec = sdkmath.OneInt()
		}
		lot := au.Lot.Amount.Sub(dec).SubRaw(r.Int63n(1000))
		if lot.IsNegative() {
			lot = sdkmath.ZeroInt()
		}
		user = 7 - user
		if f := s.block(maxEnd.Sub(s.t), true, bid(user, sdk.NewCoin(au.Lot.Denom, lot))); f != nil {
			return f
		}
	} else if s.t.Before(maxEnd) {
		if f := s.block(maxEnd.Sub(s.t), false); f != nil {
			return f
		}
	}
	// the begin blocker of the block at (or after) MaxEndTime closes the auction
	if a := get(); a != nil {
		return s.fail("auction-open-past-max-end-time", fmt.Sprintf("block time %s, auction %s", s.t, a))
	}
	return s.block(time.Second, false)
}

// scenarioHardReadd: a money market with open deposits and borrows is removed from the
// parameters by a committee proposal, the chain runs on, and the same denom is added back.
func scenarioHardReadd(seed uint64, cnt *Counters) *finding {
	s, r := newSc(seed, 8, cnt, func(cfg *world.Config, r *Rng) {
		cfg.HardLTV = "0.8"
		cfg.Wide.MinBorrowUSD = "0.000001"
		cfg.Wide.ProposalDurSec = 7 * 86400
		for i := range cfg.Wide.HardMarkets {
			m := &cfg.Wide.HardMarkets[i]
			if m.Denom == "bnb" || m.Denom == "usdx" {
				m.LTV, m.HasMaxLimit = "0.8", false
				m.IRM = [][4]string{{"0.05", "2", "0.8", "10"}, {"0", "0.1", "1", "0"}, {"1", "0.5", "0.5", "5"}}[r.Intn(3)]
			}
		}
	})
	denom := "bnb"
	dep := 1_000_000_000 + r.Int63n(20_000_000_000)
	usdxDep := 5_000_000_000 + r.Int63n(10_000_000_000)
	bor := 1_000_000 + r.Int63n(dep/20)
	d0 := hardtypes.NewMsgDeposit(s.w.Addrs[0], sdk.NewCoins(sdk.NewInt64Coin(denom, dep)))
	d1 := hardtypes.NewMsgDeposit(s.w.Addrs[1], sdk.NewCoins(sdk.NewInt64Coin("usdx", usdxDep)))
	s.note("user0 deposits %d%s, user1 deposits %dusdx and borrows %d%s", dep, denom, usdxDep, bor, denom)
	if f := s.block(time.Duration(1+r.Intn(30))*time.Second, true, s.sign(0, &d0), s.sign(1, &d1)); f != nil {
		return f
	}
	b1 := hardtypes.NewMsgBorrow(s.w.Addrs[1], sdk.NewCoins(sdk.NewInt64Coin(denom, bor)))
	if f := s.block(time.Duration(1+r.Intn(3600))*time.Second, true, s.sign(1, &b1)); f != nil {
		return f
	}
	if f := s.block(time.Duration(1+r.Intn(86400))*time.Second, false); f != nil {
		return f
	}
	cur := s.A.GetHardKeeper().GetParams(s.ctx()).MoneyMarkets
	var without hardtypes.MoneyMarkets
	var removed hardtypes.MoneyMarket
	for _, m := range cur {
		if m.Denom == denom {
			removed = m
		} else {
			without = append(without, m)
		}
	}
	propose := func(mms hardtypes.MoneyMarkets, what string) *finding {
		ch := world.HardMarketsChange(s.A, s.ctx(), mms)
		if ch == nil {
			return s.fail("scenario-setup-failed", "invalid money markets")
		}
		txs, err := s.proposeAndVote(paramsproposal.NewParameterChangeProposal("p", what, ch))
		if err != nil {
			return s.fail("scenario-setup-failed", err.Error())
		}
		s.note("h%d committee proposal: %s (submitted and voted through)", s.h, what)
		return s.block(time.Duration(1+r.Intn(600))*time.Second, true, txs...)
	}
	if f := propose(without, "remove the "+denom+" money market"); f != nil {
		return f
	}
	if _, ok := s.A.GetHardKeeper().GetMoneyMarket(s.ctx(), denom); ok {
		return s.fail("scenario-setup-failed", "money market still in the store after the removal was enacted")
	}
	for i, n := 0, 1+r.Intn(3); i < n; i++ {
		if f := s.block(time.Duration(1+r.Intn(7200))*time.Second, false); f != nil {
			return f
		}
	}
	if r.Chance(1, 2) { // add it back with changed parameters
		removed.ReserveFactor = sdk.MustNewDecFromStr([]string{"0", "0.1", "1"}[r.Intn(3)])
	}
	if f := propose(append(without, removed), "add the "+denom+" money market back"); f != nil {
		return f
	}
	for i := 0; i < 3; i++ {
		var txs [][]byte
		if i == 1 {
			rp := hardtypes.NewMsgRepay(s.w.Addrs[1], s.w.Addrs[1], sdk.NewCoins(sdk.NewInt64Coin(denom, bor/2+1)))
			wd := hardtypes.NewMsgWithdraw(s.w.Addrs[0], sdk.NewCoins(sdk.NewInt64Coin(denom, dep/3)))
			txs = [][]byte{s.sign(1, &rp), s.sign(0, &wd)}
		}
		if f := s.block(time.Duration(1+r.Intn(100_000))*time.Second, false, txs...); f != nil {
			return f
		}
	}
	return nil
}

// scenarioBep3Expiry: incoming swaps claimed in the last block before their expiry, in the block
// of their expiry (refused) and refunded afterwards; an outgoing swap left to expire.
func scenarioBep3Expiry(seed uint64, cnt *Counters) *finding {
	s, r := newSc(seed, 10, cnt, func(cfg *world.Config, r *Rng) {
		b := &cfg.Wide.Bep3
		b.Limit, b.TimeLimited, b.MaxSwap, b.FixedFee, b.MinSwap = 350_000_000_000_000, r.Chance(1, 2), 1_000_000_000_000, 1000, 1001
		b.TimeLimit = 50_000_000_000
		b.MinLock = uint64(1 + r.Intn(3))
		b.MaxLock = b.MinLock + uint64(r.Intn(3))
	})
	span := s.cfg.Wide.Bep3.MinLock
	dep := s.w.Addrs[s.w.Deputy]
	type sw struct {
		id, secret []byte
		user       int
	}
	var sws []sw
	var txs [][]byte
	ts := s.t.Unix()
	// the deputy signs one transaction per block, so the three incoming swaps go into one multi-message transaction
	var msgs []sdk.Msg
	for u := 0; u < 3; u++ {
		secret := sha256.Sum256([]byte(fmt.Sprintf("scenario-secret-%d-%d", seed, u)))
		hash := bep3types.CalculateRandomHash(secret[:], ts)
		amount := 2000 + r.Int63n(400_000_000)
		m := bep3types.NewMsgCreateAtomicSwap(dep.String(), s.w.Addrs[u].String(), "0xrecipient", fmt.Sprintf("0xsender%d", u), hash, ts, sdk.NewCoins(sdk.NewInt64Coin("bnb", amount)), span)
		msgs = append(msgs, &m)
		sws = append(sws, sw{bep3types.CalculateSwapID(hash, dep, fmt.Sprintf("0xsender%d", u)), secret[:], u})
		s.note("h%d deputy creates incoming swap of %dbnb for user%d, span %d", s.h, amount, u, span)
	}
	txs = append(txs, s.w.Sign(s.A, s.w.Deputy, msgs...))
	created := s.h
	if f := s.block(6*time.Second, true, txs...); f != nil {
		return f
	}
	expire := created + int64(span)
	for s.h < expire-1 {
		if f := s.block(time.Duration(1+r.Intn(10))*time.Second, false); f != nil {
			return f
		}
	}
	claim := func(x sw) []byte {
		m := bep3types.NewMsgClaimAtomicSwap(s.w.Addrs[x.user].String(), x.id, x.secret)
		return s.sign(x.user, &m)
	}
	if s.h == expire-1 && s.h > created { // the last block in which the swap is open
		s.note("h%d user0 claims in the last block before expiry", s.h)
		if f := s.block(6*time.Second, true, claim(sws[0])); f != nil {
			return f
		}
	}
	// now at the expiry height: the begin blocker has expired the open swaps
	s.note("h%d (expiry height %d) user1 claims, user2's swap is refunded", s.h, expire)
	rf := bep3types.NewMsgRefundAtomicSwap(s.w.Addrs[2].String(), sws[2].id)
	var out []byte
	if sup, ok := s.A.GetBep3Keeper().GetAssetSupply(s.ctx(), "bnb"); ok && sup.CurrentSupply.Amount.GT(sdkmath.NewInt(5000)) {
		secret := sha256.Sum256([]byte(fmt.Sprintf("scenario-secret-out-%d", seed)))
		hash := bep3types.CalculateRandomHash(secret[:], s.t.Unix())
		amt := 1001 + r.Int63n(sup.CurrentSupply.Amount.Int64()-1001)
		m := bep3types.NewMsgCreateAtomicSwap(s.w.Addrs[0].String(), dep.String(), "0xrecipient", "0xsenderout", hash, s.t.Unix(), sdk.NewCoins(sdk.NewInt64Coin("bnb", amt)), span)
		out = s.sign(0, &m)
		sws = append(sws, sw{bep3types.CalculateSwapID(hash, s.w.Addrs[0], "0xsenderout"), secret[:], 0})
		s.note("h%d user0 creates an outgoing swap of %dbnb", s.h, amt)
	}
	txs = [][]byte{claim(sws[1]), s.sign(2, &rf)}
	if out != nil {
		txs = append(txs, out)
	}
	if f := s.block(6*time.Second, false, txs...); f != nil {
		return f
	}
	for i := 0; i < int(span)+2; i++ {
		var t2 [][]byte
		if i == int(span) && len(sws) == 4 {
			rf2 := bep3types.NewMsgRefundAtomicSwap(s.w.Addrs[3].String(), sws[3].id)
			t2 = append(t2, s.sign(3, &rf2))
			rf1 := bep3types.NewMsgRefundAtomicSwap(s.w.Addrs[1].String(), sws[1].id)
			t2 = append(t2, s.sign(1, &rf1))
		}
		if f := s.block(time.Duration(1+r.Intn(4000))*time.Second, false, t2...); f != nil {
			return f
		}
	}
	return nil
}

// scenarioEarnBkavaAllBurned: an incentive earn reward period for "bkava" is in force; users
// liquid-stake to the validator, deposit the derivative in the earn bkava vault for a few blocks
// (incentive stores reward indexes for that derivative denom), withdraw everything and burn ALL
// derivative of the validator: the validator still exists, the liquid module account holds no
// delegation to it any more, and incentive still knows the vault.  The following begin blockers
// must complete.
func scenarioEarnBkavaAllBurned(seed uint64, cnt *Counters) *finding {
	s, r := newSc(seed, 11, cnt, func(cfg *world.Config, r *Rng) {
		cfg.Wide.EarnVaults = []string{"usdx:hard", "bkava:savings", "busd:savings"}
		cfg.Wide.SavingsDenoms = []string{"ukava", "bkava", "busd"}
		cfg.Wide.BkavaEarnRate = 1 + r.Int63n(200_000)
		cfg.Wide.IncentiveStart = []int64{-86400, 0}[r.Intn(2)]
		cfg.Wide.IncentiveEnds[6] = []int64{400 * 86400, 30 * 86400}[r.Intn(2)]
	})
	val := s.w.ValAddr
	bk := "bkava-" + val.String()
	n := 1 + r.Intn(3) // users 0..n-1 liquid-stake; user n-1 may keep its derivative outside earn
	outside := n > 1 && r.Chance(1, 2)
	gap := func() time.Duration {
		return []time.Duration{time.Second, 6 * time.Second, time.Minute, time.Hour, 26 * time.Hour}[r.Intn(5)] + time.Duration(r.Intn(1000))*time.Millisecond
	}
	var txs [][]byte
	stake := make([]int64, n)
	for u := 0; u < n; u++ {
		stake[u] = int64(1+r.Intn(3000)) * 1_000_000 // whole shares of the genesis validator (10^6 ukava per share)
		s.note("h%d user%d delegates %dukava", s.h, u, stake[u])
		txs = append(txs, s.sign(u, stakingtypes.NewMsgDelegate(s.w.Addrs[u], val, sdk.NewInt64Coin("ukava", stake[u]))))
	}
	if f := s.block(gap(), true, txs...); f != nil {
		return f
	}
	txs = nil
	for u := 0; u < n; u++ {
		m := liquidtypes.NewMsgMintDerivative(s.w.Addrs[u], val, sdk.NewInt64Coin("ukava", stake[u]))
		s.note("h%d user%d mints derivative for %dukava", s.h, u, stake[u])
		txs = append(txs, s.sign(u, &m))
	}
	if f := s.block(gap(), true, txs...); f != nil {
		return f
	}
	txs = nil
	for u := 0; u < n; u++ {
		bal := s.A.GetBankKeeper().GetBalance(s.ctx(), s.w.Addrs[u], bk)
		if !bal.IsPositive() {
			return s.fail("scenario-setup-failed", fmt.Sprintf("user%d holds no %s after minting", u, bk))
		}
		if outside && u == n-1 {
			continue
		}
		s.note("h%d user%d deposits %s in the earn bkava vault", s.h, u, bal)
		txs = append(txs, s.sign(u, earntypes.NewMsgDeposit(s.w.Addrs[u].String(), bal, earntypes.STRATEGY_TYPE_SAVINGS)))
	}
	if f := s.block(gap(), true, txs...); f != nil {
		return f
	}
	for i, k := 0, 2+r.Intn(3); i < k; i++ { // reward indexes for the derivative denom are stored
		var t2 [][]byte
		if i == 1 && r.Chance(1, 2) {
			m := incentivetypes.NewMsgClaimEarnReward(s.w.Addrs[0].String(), incentivetypes.Selections{incentivetypes.NewSelection("ukava", "large")})
			t2 = append(t2, s.sign(0, &m))
		}
		if f := s.block(gap(), false, t2...); f != nil {
			return f
		}
	}
	if _, found := s.A.GetIncentiveKeeper().GetEarnRewardIndexes(s.ctx(), bk); found {
		s.cnt.Inc("branch:incentive-earn-indexes-for-derivative-vault")
	}
	txs = nil
	for u := 0; u < n; u++ {
		ek := s.A.GetEarnKeeper()
		if v, err := ek.GetVaultAccountValue(s.ctx(), bk, s.w.Addrs[u]); err == nil && v.Amount.IsPositive() {
			s.note("h%d user%d withdraws %s from earn", s.h, u, v)
			txs = append(txs, s.sign(u, earntypes.NewMsgWithdraw(s.w.Addrs[u].String(), v, earntypes.STRATEGY_TYPE_SAVINGS)))
		}
	}
	if f := s.block(gap(), true, txs...); f != nil {
		return f
	}
	// burn everything, in one block or one user per block
	oneBlock := r.Chance(1, 2)
	txs = nil
	for u := 0; u < n; u++ {
		bal := s.A.GetBankKeeper().GetBalance(s.ctx(), s.w.Addrs[u], bk)
		if !bal.IsPositive() {
			continue
		}
		m := liquidtypes.NewMsgBurnDerivative(s.w.Addrs[u], val, bal)
		s.note("h%d user%d burns %s", s.h, u, bal)
		txs = append(txs, s.sign(u, &m))
		if !oneBlock {
			if f := s.block(gap(), true, txs...); f != nil {
				return f
			}
			txs = nil
		}
	}
	if len(txs) > 0 {
		if f := s.block(gap(), true, txs...); f != nil {
			return f
		}
	}
	if sup := s.A.GetBankKeeper().GetSupply(s.ctx(), bk); !sup.IsZero() {
		return s.fail("scenario-setup-failed", "derivative supply left after burning everything: "+sup.String())
	}
	liq := s.A.GetAccountKeeper().GetModuleAddress(liquidtypes.ModuleAccountName)
	if _, found := s.A.GetStakingKeeper().GetDelegation(s.ctx(), liq, val); !found {
		s.cnt.Inc("branch:liquid-module-delegation-gone-validator-stays")
	}
	for i := 0; i < 3; i++ {
		if f := s.block(gap(), false); f != nil {
			return f
		}
	}
	return nil
}

// scenarioMalformedParams: every entry of world.Malformations (one malformed field of one
// parameter key at a time, for every module whose parameters the committee can change) is
// submitted to the params committee and voted for in the same block.  Expected: the submission
// is refused by the dry run (or the proposal is closed as invalid); the malformed set is never
// stored and no block halts.  The entries are visited in a PRNG-chosen rotation, with ordinary
// traffic in between so that the blockers have state to work on.
func scenarioMalformedParams(seed uint64, cnt *Counters) *finding {
	s, r := newSc(seed, 12, cnt, func(cfg *world.Config, r *Rng) {
		cfg.Wide.ProposalDurSec = 7 * 86400
		cfg.Wide.IncentiveStart = []int64{-86400, 0}[r.Intn(2)]
	})
	for i := 0; i < 4; i++ { // ordinary traffic first: positions for the blockers to work on
		s.w.Height, s.w.Time = s.h, s.t
		txs, _ := s.w.GenBlockTxs(r, s.A, 6)
		if f := s.block(time.Duration(1+r.Intn(600))*time.Second, false, txs...); f != nil {
			return f
		}
	}
	s.log = nil
	n := len(world.Malformations)
	off := r.Intn(n)
	for k := 0; k < n; k++ {
		m := world.Malformations[(k+off)%n]
		ch := m.Build(s.w, s.A, s.ctx())
		if len(ch) == 0 {
			continue
		}
		s.w.RecordMalformed(m, ch)
		txs, err := s.proposeAndVote(paramsproposal.NewParameterChangeProposal("p", m.Module+" "+m.What, ch))
		if err != nil {
			return s.fail("scenario-setup-failed", err.Error())
		}
		before := len(s.log)
		s.note("h%d committee proposal with a malformed %s parameter: %s", s.h, m.Module, m.What)
		f := s.block(time.Duration(1+r.Intn(3600))*time.Second, false, txs...)
		if f != nil {
			return f
		}
		if len(s.log) > before+1 { // the submission was refused (its failure was noted)
			s.cnt.Inc("malformed-param-change-refused")
			s.log = s.log[:before] // keep the log short: only accepted submissions matter
		} else {
			s.cnt.Inc("malformed-param-change-ACCEPTED:" + m.Module + ":" + m.What)
		}
	}
	return s.block(time.Minute, false)
}

var scenarios = map[string]func(uint64, *Counters) *finding{
	"committee-malformed-parameter-changes":  scenarioMalformedParams,
	"earn-bkava-vault-all-derivative-burned": scenarioEarnBkavaAllBurned,
	"committee-stale-upgrade-proposal":       scenarioStaleCommitteeProposal,
	"cdp-depositor-withdraws-all":            scenarioCdpDepositorWithdrawsAll,
	"issuance-seize-locked-vesting":          scenarioIssuanceSeizeLocked,
	"cdp-two-deposits-odd-debt":              scenarioCdpTwoDeposits,
	"cdp-surplus-lot-above-threshold":        scenarioSurplus(true),
	"cdp-surplus-lot-below-threshold":        scenarioSurplus(false),
	"cdp-debt-past-threshold":                scenarioDebt,
	"auction-both-phases-near-max-end-time":  scenarioAuctionPhases,
	"hard-market-removed-and-readded":        scenarioHardReadd,
	"bep3-claims-and-expiry-in-one-block":    scenarioBep3Expiry,
}
