package c10

// World of one C10 history: a fresh app.TestApp with a working EVM (ethermint
// genesis, fee market, block proposer), the real compiled ERC20 contracts of
// x/evmutil/types deployed through the keeper, users that own both an sdk
// account and the EVM address with the same 20 bytes, and the observation
// functions (bank, raw registry store, raw ERC20 storage slots cross-checked
// against the keeper's EVM query helpers of erc20.go).

import (
	. "kavaverif/lib"

	"fmt"
	"math/big"

	abci "github.com/cometbft/cometbft/abci/types"
	"github.com/cometbft/cometbft/crypto/tmhash"
	tmproto "github.com/cometbft/cometbft/proto/tendermint/types"
	tmversion "github.com/cometbft/cometbft/proto/tendermint/version"
	"github.com/cometbft/cometbft/version"
	sdk "github.com/cosmos/cosmos-sdk/types"
	bankkeeper "github.com/cosmos/cosmos-sdk/x/bank/keeper"
	banktypes "github.com/cosmos/cosmos-sdk/x/bank/types"
	stakingtypes "github.com/cosmos/cosmos-sdk/x/staking/types"
	"github.com/ethereum/go-ethereum/common"
	"github.com/ethereum/go-ethereum/crypto"
	"github.com/evmos/ethermint/crypto/ethsecp256k1"
	evmtypes "github.com/evmos/ethermint/x/evm/types"
	feemarkettypes "github.com/evmos/ethermint/x/feemarket/types"

	"github.com/kava-labs/kava/app"
	evmutilkeeper "github.com/kava-labs/kava/x/evmutil/keeper"
	evmutiltypes "github.com/kava-labs/kava/x/evmutil/types"
)

const (
	nUsers  = 4
	accM    = 4 // the evmutil module account (bank side) / types.ModuleEVMAddress (EVM side)
	accHard = 5 // another module account: blocked as a recipient of coins, has no key
	nAcc    = 6
	nPair   = 3
	maxCtr  = 8 // pair contracts + at most one wrapped contract per cosmos denom that can be allowed
)

// denoms by model index
// denoms by model index: 0..6 the real ones, then look-alikes of every pair denom and of
// every cosmos denom that can be allowed (a case variant and a prefix/suffix variant each).
// A look-alike is an ordinary bank denom: it is never a pair denom, never a bep3 asset,
// never on the allow list, so every conversion of it must be refused.
var denoms = []string{"bnb", "btcb", "erc20/usdc", "hard", "usdx", "xrpb", "xyz",
	"BNB", "bnbx", "BTCB", "btc", "ERC20/USDC", "erc20/usd", "HARD", "hardx", "USDX", "usd", "XRPB", "xrpbx"}

const (
	nDenom    = 19
	nRealDen  = 7
	firstLook = 7
)

// lookalikes[d] = indexes of the look-alike denoms of real denom d
var lookalikes = map[int][]int{0: {7, 8}, 1: {9, 10}, 2: {11, 12}, 3: {13, 14}, 4: {15, 16}, 5: {17, 18}}

// universe of EVM-native conversion pairs: pair contract id -> denom index
var pairDenom = []int{0, 2, 1} // contract 0 <-> bnb (bep3), 1 <-> erc20/usdc, 2 <-> btcb (bep3)

func padBools(b []bool) []bool {
	out := make([]bool, nDenom)
	copy(out, b)
	return out
}

// the keeper's bep3 denoms that occur here (bnb, btcb, xrpb): exact names only
var isBep3 = padBools([]bool{true, true, false, false, false, true, false})

// cosmos denoms for which token metadata exists (can be put on the allow list)
var allowable = padBools([]bool{true, false, false, true, true, true, false})

var k10 = Pow10(10)

type world struct {
	tApp   app.TestApp
	ctx    sdk.Context
	k      evmutilkeeper.Keeper
	bank   bankkeeper.Keeper
	bankMs banktypes.MsgServer
	ms     evmutiltypes.MsgServer
	addrs  []sdk.AccAddress
	eaddrs []common.Address
	ctr    []evmutiltypes.InternalEVMAddress // contract id -> address (pairs first, then wrapped in order of deployment)
	ctrID  map[common.Address]int
	// current params (model view)
	enabled []bool // per pair contract
	allowed []bool // per denom
}

func fixedKey(b byte) *ethsecp256k1.PrivKey {
	k := make([]byte, 32)
	for i := range k {
		k[i] = b
	}
	return &ethsecp256k1.PrivKey{Key: k}
}

func setup() *world {
	tApp := NewApp()
	users := Addrs(nUsers)
	cdc := tApp.AppCodec()

	evmGenesis := evmtypes.DefaultGenesisState()
	evmGenesis.Params.EvmDenom = "akava"
	feemarketGenesis := feemarkettypes.DefaultGenesisState()
	feemarketGenesis.Params.EnableHeight = 1
	feemarketGenesis.Params.NoBaseFee = false

	b := app.NewAuthBankGenesisBuilder()
	for i := 0; i < nUsers; i++ {
		funds := sdk.NewCoins(
			sdk.NewInt64Coin("hard", int64(1000*(i+1))),
			sdk.NewInt64Coin("usdx", 50),
			sdk.NewInt64Coin("xrpb", 30_000_000_000),
			sdk.NewInt64Coin("xyz", 77),
			sdk.NewInt64Coin("ukava", 1_000_000_000),
		)
		// look-alike denoms, held through the bank by some users
		for d := firstLook; d < nDenom; d++ {
			if (d+i)%2 == 0 {
				funds = funds.Add(sdk.NewInt64Coin(denoms[d], int64(100*(i+1)+d)))
			}
		}
		b.WithSimpleAccount(users[i], funds)
	}
	gs := app.GenesisState{
		evmtypes.ModuleName:       cdc.MustMarshalJSON(evmGenesis),
		feemarkettypes.ModuleName: cdc.MustMarshalJSON(feemarketGenesis),
	}
	tApp.InitializeFromGenesisStatesWithTime(GenesisTime, b.BuildMarshalled(cdc), gs)

	consPriv := fixedKey(0x42)
	consAddress := sdk.ConsAddress(consPriv.PubKey().Address())
	header := tmproto.Header{
		Height:          tApp.LastBlockHeight() + 1,
		ChainID:         app.TestChainId,
		Time:            GenesisTime.Add(10e9),
		ProposerAddress: consAddress.Bytes(),
		Version:         tmversion.Consensus{Block: version.BlockProtocol},
		LastBlockId: tmproto.BlockID{
			Hash:          tmhash.Sum([]byte("block_id")),
			PartSetHeader: tmproto.PartSetHeader{Total: 11, Hash: tmhash.Sum([]byte("partset_header"))},
		},
		AppHash:            tmhash.Sum([]byte("app")),
		DataHash:           tmhash.Sum([]byte("data")),
		EvidenceHash:       tmhash.Sum([]byte("evidence")),
		ValidatorsHash:     tmhash.Sum([]byte("validators")),
		NextValidatorsHash: tmhash.Sum([]byte("next_validators")),
		ConsensusHash:      tmhash.Sum([]byte("consensus")),
		LastResultsHash:    tmhash.Sum([]byte("last_result")),
	}
	ctx := tApp.NewContext(false, header)

	// the EVM looks up the block proposer's validator (coinbase)
	valAddr := sdk.ValAddress(common.Address{}.Bytes())
	validator, err := stakingtypes.NewValidator(valAddr, consPriv.PubKey(), stakingtypes.Description{})
	if err != nil {
		panic(err)
	}
	if err := tApp.GetStakingKeeper().SetValidatorByConsAddr(ctx, validator); err != nil {
		panic(err)
	}
	tApp.GetStakingKeeper().SetValidator(ctx, validator)

	// commit so that the fee market's begin blocker sets the base fee
	_ = tApp.Commit()
	header.Height++
	tApp.BeginBlock(abci.RequestBeginBlock{Header: header})
	ctx = tApp.NewContext(false, header)

	ak := tApp.GetAccountKeeper()
	w := &world{tApp: tApp, ctx: ctx, k: tApp.GetEvmutilKeeper(), bank: tApp.GetBankKeeper(), ctrID: map[common.Address]int{}}
	w.bankMs = bankkeeper.NewMsgServerImpl(w.bank)
	w.ms = evmutilkeeper.NewMsgServerImpl(w.k)
	w.addrs = make([]sdk.AccAddress, nAcc)
	copy(w.addrs, users)
	w.addrs[accM] = ak.GetModuleAccount(ctx, evmutiltypes.ModuleName).GetAddress()
	w.addrs[accHard] = ak.GetModuleAccount(ctx, "hard").GetAddress()
	for _, a := range w.addrs {
		w.eaddrs = append(w.eaddrs, common.BytesToAddress(a.Bytes()))
	}
	if w.eaddrs[accM] != evmutiltypes.ModuleEVMAddress {
		panic("module EVM address mismatch")
	}

	// the universe of EVM-native pair contracts: the real compiled ERC20MintableBurnable, owned by the module
	for i := 0; i < nPair; i++ {
		addr, err := w.k.DeployTestMintableERC20Contract(ctx, fmt.Sprintf("TOK%d", i), fmt.Sprintf("TOK%d", i), 18)
		if err != nil {
			panic(err)
		}
		w.ctrID[addr.Address] = len(w.ctr)
		w.ctr = append(w.ctr, addr)
	}
	w.enabled = []bool{true, true, false}
	w.allowed = padBools([]bool{false, false, false, true, false, true, false})
	w.setParams()
	return w
}

func tokenMeta(d int) evmutiltypes.AllowedCosmosCoinERC20Token {
	name := denoms[d]
	return evmutiltypes.NewAllowedCosmosCoinERC20Token(name, "Kava-wrapped "+name, "k"+name, 6)
}

func (w *world) setParams() {
	var pairs evmutiltypes.ConversionPairs
	for c := 0; c < nPair; c++ {
		if w.enabled[c] {
			pairs = append(pairs, evmutiltypes.NewConversionPair(w.ctr[c], denoms[pairDenom[c]]))
		}
	}
	var toks evmutiltypes.AllowedCosmosCoinERC20Tokens
	for d := 0; d < nDenom; d++ {
		if w.allowed[d] && allowable[d] {
			toks = append(toks, tokenMeta(d))
		}
	}
	p := evmutiltypes.NewParams(pairs, toks)
	if err := p.Validate(); err != nil {
		panic(err)
	}
	w.k.SetParams(w.ctx, p)
}

// ------------------------------------------------------------ raw ERC20 storage

// OpenZeppelin ERC20 layout: slot 0 _balances, slot 1 _allowances, slot 2 _totalSupply.
func balanceSlot(a common.Address) common.Hash {
	buf := make([]byte, 64)
	copy(buf[12:32], a.Bytes())
	return crypto.Keccak256Hash(buf)
}

func (w *world) rawBalance(ctx sdk.Context, c int, a common.Address) *big.Int {
	h := w.tApp.GetEvmKeeper().GetState(ctx, w.ctr[c].Address, balanceSlot(a))
	return new(big.Int).SetBytes(h.Bytes())
}

func (w *world) rawTotal(ctx sdk.Context, c int) *big.Int {
	h := w.tApp.GetEvmKeeper().GetState(ctx, w.ctr[c].Address, common.BigToHash(big.NewInt(2)))
	return new(big.Int).SetBytes(h.Bytes())
}

// ------------------------------------------------------------ snapshot

type snap struct {
	bal [][]*big.Int // [acc][denom]
	sup []*big.Int   // [denom]
	erc [][]*big.Int // [contract][acc]
	tot []*big.Int   // [contract]
	reg []int        // [denom] -> contract id or -1 (raw store iteration)
	n   int          // number of deployed contracts known (pairs + registry)
}

func denomIndex(s string) int {
	for i, d := range denoms {
		if d == s {
			return i
		}
	}
	return -1
}

// readRegistry iterates the raw store prefix of deployed cosmos-coin contracts
// and assigns model ids to new contract addresses in order of appearance.
func (w *world) readRegistry(ctx sdk.Context) []int {
	reg := make([]int, nDenom)
	for i := range reg {
		reg[i] = -1
	}
	store := ctx.KVStore(w.tApp.GetKVStoreKey(evmutiltypes.StoreKey))
	it := sdk.KVStorePrefixIterator(store, evmutiltypes.DeployedCosmosCoinContractKeyPrefix)
	defer it.Close()
	type ent struct {
		d    int
		addr common.Address
	}
	var fresh []ent
	for ; it.Valid(); it.Next() {
		d := denomIndex(string(it.Key()[1:]))
		if d < 0 {
			panic("registry has an unknown denom " + string(it.Key()[1:]))
		}
		addr := common.BytesToAddress(it.Value())
		if id, ok := w.ctrID[addr]; ok {
			reg[d] = id
		} else {
			fresh = append(fresh, ent{d, addr})
		}
	}
	// at most one contract is deployed per operation; several would get ids in denom order
	for _, f := range fresh {
		id := len(w.ctr)
		w.ctrID[f.addr] = id
		w.ctr = append(w.ctr, evmutiltypes.NewInternalEVMAddress(f.addr))
		reg[f.d] = id
	}
	return reg
}

func (w *world) snapshot() *snap {
	ctx := w.ctx
	s := &snap{}
	s.reg = w.readRegistry(ctx)
	s.n = len(w.ctr)
	for a := 0; a < nAcc; a++ {
		row := make([]*big.Int, nDenom)
		for d, dn := range denoms {
			row[d] = w.bank.GetBalance(ctx, w.addrs[a], dn).Amount.BigInt()
		}
		s.bal = append(s.bal, row)
	}
	for _, dn := range denoms {
		s.sup = append(s.sup, w.bank.GetSupply(ctx, dn).Amount.BigInt())
	}
	for c := 0; c < s.n; c++ {
		row := make([]*big.Int, nAcc)
		for a := 0; a < nAcc; a++ {
			row[a] = w.rawBalance(ctx, c, w.eaddrs[a])
		}
		s.erc = append(s.erc, row)
		s.tot = append(s.tot, w.rawTotal(ctx, c))
	}
	return s
}

// queryBalance / queryTotal go through the keeper's EVM query helpers (erc20.go).
func (w *world) queryBalance(c, a int) *big.Int {
	cctx, _ := w.ctx.CacheContext()
	v, err := w.k.QueryERC20BalanceOf(cctx, w.ctr[c], evmutiltypes.NewInternalEVMAddress(w.eaddrs[a]))
	if err != nil {
		panic(fmt.Sprintf("QueryERC20BalanceOf(%d,%d): %v", c, a, err))
	}
	return v
}

func (w *world) queryTotal(c int) *big.Int {
	cctx, _ := w.ctx.CacheContext()
	v, err := w.k.QueryERC20TotalSupply(cctx, w.ctr[c])
	if err != nil {
		panic(fmt.Sprintf("QueryERC20TotalSupply(%d): %v", c, err))
	}
	return v
}
