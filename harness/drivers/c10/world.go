package c10

// World of one C10 history: a fresh app.TestApp with a working EVM (ethermint
// genesis, fee market, block proposer), the real compiled ERC20 contracts of
// x/evmutil/types deployed through the keeper plus one adversarial ERC20 (test
// data: hand-assembled bytecode whose transfer() grants the sender an allowance
// over the recipient's tokens and emits Approval), users that own both an sdk
// account and the EVM address with the same 20 bytes, the zero address, and the
// observation functions (bank, raw registry store, parameters read back from the
// keeper, raw ERC20 storage slots cross-checked against the keeper's EVM query
// helpers of erc20.go).
//
// Notes for maintainers (measured):
//   - one keeper / one msg server instance serves the whole history, as on a node:
//     messages go through the app's MsgServiceRouter (the instance registered by the
//     module), direct calls through a copy of app.evmutilKeeper (reference-typed
//     fields of the keeper are shared between the copies);
//   - every operation / transaction runs on a cached context that is discarded on
//     error, which is what baseapp does with a failed transaction;
//   - CallEVM needs the sender's auth account to exist (GetSequence): the zero
//     address has none until coins are sent to it, so it never signs here;
//   - OpenZeppelin layout: slot 0 _balances, slot 1 _allowances, slot 2 _totalSupply;
//     the adversarial token keeps balance[a] at slot uint(a), allowance[o][s] at
//     keccak(pad32(o) ++ pad32(s)) and has no total supply.

import (
	. "kavaverif/lib"

	"encoding/hex"
	"fmt"
	"math/big"

	sdkmath "cosmossdk.io/math"
	abci "github.com/cometbft/cometbft/abci/types"
	"github.com/cometbft/cometbft/crypto/tmhash"
	tmproto "github.com/cometbft/cometbft/proto/tendermint/types"
	tmversion "github.com/cometbft/cometbft/proto/tendermint/version"
	"github.com/cometbft/cometbft/version"
	sdk "github.com/cosmos/cosmos-sdk/types"
	bankkeeper "github.com/cosmos/cosmos-sdk/x/bank/keeper"
	banktypes "github.com/cosmos/cosmos-sdk/x/bank/types"
	stakingtypes "github.com/cosmos/cosmos-sdk/x/staking/types"
	"github.com/ethereum/go-ethereum/common"
	"github.com/ethereum/go-ethereum/crypto"
	"github.com/evmos/ethermint/crypto/ethsecp256k1"
	evmtypes "github.com/evmos/ethermint/x/evm/types"
	feemarkettypes "github.com/evmos/ethermint/x/feemarket/types"

	"github.com/kava-labs/kava/app"
	evmutilkeeper "github.com/kava-labs/kava/x/evmutil/keeper"
	evmutiltypes "github.com/kava-labs/kava/x/evmutil/types"
)

const (
	nUsers  = 4
	accM    = 4 // the evmutil module account (bank side) / types.ModuleEVMAddress (EVM side)
	accHard = 5 // another module account: blocked as a recipient of coins, has no key
	accZero = 6 // 0x0000000000000000000000000000000000000000 / the sdk address of 20 zero bytes
	nAcc    = 7
	nPair   = 5
	// ids >= noCodeBase name addresses without code (never reached by the deployment counter)
	noCodeBase = 100
)

// denoms by model index: 0..6 the real ones, then look-alikes of every pair denom and of
// every cosmos denom that can be allowed (a case variant and a prefix/suffix variant each),
// then the denom of the adversarial pair.
// A look-alike is an ordinary bank denom: it is never a pair denom, never a bep3 asset,
// never on the allow list, so every conversion of it must be refused.
var denoms = []string{"bnb", "btcb", "erc20/usdc", "hard", "usdx", "xrpb", "xyz",
	"BNB", "bnbx", "BTCB", "btc", "ERC20/USDC", "erc20/usd", "HARD", "hardx", "USDX", "usd", "XRPB", "xrpbx",
	"erc20/rfnd", "erc20/nrvt"}

const (
	nDenom    = 21
	nRealDen  = 7
	firstLook = 7
	lastLook  = 18
	denRfnd   = 19
	denNR     = 20
)

func isLook(d int) bool { return d >= firstLook && d <= lastLook }

// lookalikes[d] = indexes of the look-alike denoms of real denom d
var lookalikes = map[int][]int{0: {7, 8}, 1: {9, 10}, 2: {11, 12}, 3: {13, 14}, 4: {15, 16}, 5: {17, 18}}

// the table of EVM-native conversion pairs governance chooses from: pair contract id -> denom index
// contract 0 <-> bnb (bep3), 1 <-> erc20/usdc, 2 <-> btcb (bep3), 3 <-> erc20/rfnd (adversarial bytecode)
// 4 <-> erc20/nrvt (old-style bytecode: transfer() returns false instead of reverting)
var pairDenom = []int{0, 2, 1, denRfnd, denNR}

// evilCtr[c]: table contract c runs the adversarial bytecode
var evilCtr = []bool{false, false, false, true, false}

// nrCtr[c]: table contract c runs the old-style bytecode
var nrCtr = []bool{false, false, false, false, true}

func isNR(c int) bool { return c >= 0 && c < nPair && nrCtr[c] }

// noRevertInitCode is the creation code of the old-style token (an input of the check, assembled by
// hand; tools/asm_old_style_token.py is the listing and re-assembles it): selectors balanceOf, totalSupply, mint (open to
// anybody; to the zero address and past 2^256 in total reverts), transfer (to the zero address
// reverts; a balance that is too small: RETURNS FALSE and moves nothing; otherwise moves the tokens
// and returns true); anything else reverts.  balances[a] lives in slot uint(a), the total in slot 2^160.
const noRevertInitCode = "6100b98061000d6000396000f360003560e01c806370a0823114610038578063a9059cbb1461008057806340c10f191461005457806318160ddd14610045575b60006000fd5b6004355460005260206000f35b600160a01b5460005260206000f35b6004351561003257602435600160a01b54810181811061003257600160a01b5560043580548201905550005b600435156100325760243533548181106100ae57819003335560043580548201905550600160005260206000f35b600060005260206000f3"

func isEvil(c int) bool { return c >= 0 && c < nPair && evilCtr[c] }

func padBools(b []bool) []bool {
	out := make([]bool, nDenom)
	copy(out, b)
	return out
}

// the keeper's bep3 denoms that occur here (bnb, btcb, xrpb): exact names only
var isBep3 = padBools([]bool{true, true, false, false, false, true, false})

// cosmos denoms the generator puts on the allow list
var allowable = padBools([]bool{true, false, false, true, true, true, false})

var k10 = Pow10(10)

// refundableInitCode is the creation code of the adversarial token (an input of the check, not
// part of it): selectors balanceOf, mint (open to anybody, unchecked), transfer (moves the tokens,
// sets allowance[to][sender] = amount, logs Transfer and Approval), transferFrom; anything else reverts.
const refundableInitCode = "61011d8061000d6000396000f360003560e01c806370a082311461003757806340c10f1914610044578063a9059cbb1461005257806323b872dd146100da575b600080fd5b6004355460005260206000f35b602435600435805482019055005b60243533548181106100325781900333556004358054820181558060005233602052816040600020558160005280337fddf252ad1be2c89b69c2b068fc378daa952ba7f163c4a11628f55a4df523b3ef60206000a333907f8c5be1e5ebec7d5bd14f71427d1e84f3dd0314c0f7b2291e5b200ac8c7c3b92560206000a3600160005260206000f35b6044356004358060005233602052604060002080548381106100325783900390558054828110610032578290039055602435805482019055600160005260206000f3"

// bigFunds: genesis coins on top of the small ones: user, denom index, amount
var bigFunds = []struct {
	a, d int
	x    string
}{
	{2, 3, "18446744073709551616"},                    // hard: 2^64 (+ 3000)
	{3, 5, "340282366920938463463374607431768211456"}, // xrpb: 2^128 (+ 3*10^10)
	{2, 4, "9223372036854775808"},                     // usdx: 2^63 (+ 50)
	{1, 5, "1000000000000000000000000000000"},         // xrpb: 10^30 (+ 3*10^10)
}

type world struct {
	tApp   app.TestApp
	ctx    sdk.Context
	k      evmutilkeeper.Keeper
	bank   bankkeeper.Keeper
	bankMs banktypes.MsgServer
	addrs  []sdk.AccAddress
	eaddrs []common.Address
	ctr    []evmutiltypes.InternalEVMAddress // contract id -> address (pairs first, then wrapped in order of deployment)
	ctrID  map[common.Address]int
}

func fixedKey(b byte) *ethsecp256k1.PrivKey {
	k := make([]byte, 32)
	for i := range k {
		k[i] = b
	}
	return &ethsecp256k1.PrivKey{Key: k}
}

func setup() *world {
	tApp := NewApp()
	users := Addrs(nUsers)
	cdc := tApp.AppCodec()

	evmGenesis := evmtypes.DefaultGenesisState()
	evmGenesis.Params.EvmDenom = "akava"
	feemarketGenesis := feemarkettypes.DefaultGenesisState()
	feemarketGenesis.Params.EnableHeight = 1
	feemarketGenesis.Params.NoBaseFee = false

	b := app.NewAuthBankGenesisBuilder()
	for i := 0; i < nUsers; i++ {
		funds := sdk.NewCoins(
			sdk.NewInt64Coin("hard", int64(1000*(i+1))),
			sdk.NewInt64Coin("usdx", 50),
			sdk.NewInt64Coin("xrpb", 30_000_000_000),
			sdk.NewInt64Coin("xyz", 77),
			sdk.NewInt64Coin("ukava", 1_000_000_000),
		)
		// balances at and above the word boundaries, so that conversions of cosmos coins carry amounts
		// that do not fit int64 / uint64 / two words (the other users keep the small balances)
		for _, e := range bigFunds {
			if e.a == i {
				x, _ := new(big.Int).SetString(e.x, 10)
				funds = funds.Add(sdk.NewCoin(denoms[e.d], sdkmath.NewIntFromBigInt(x)))
			}
		}
		// look-alike denoms, held through the bank by some users
		for d := firstLook; d <= lastLook; d++ {
			if (d+i)%2 == 0 {
				funds = funds.Add(sdk.NewInt64Coin(denoms[d], int64(100*(i+1)+d)))
			}
		}
		b.WithSimpleAccount(users[i], funds)
	}
	gs := app.GenesisState{
		evmtypes.ModuleName:       cdc.MustMarshalJSON(evmGenesis),
		feemarkettypes.ModuleName: cdc.MustMarshalJSON(feemarketGenesis),
	}
	tApp.InitializeFromGenesisStatesWithTime(GenesisTime, b.BuildMarshalled(cdc), gs)

	consPriv := fixedKey(0x42)
	consAddress := sdk.ConsAddress(consPriv.PubKey().Address())
	header := tmproto.Header{
		Height:          tApp.LastBlockHeight() + 1,
		ChainID:         app.TestChainId,
		Time:            GenesisTime.Add(10e9),
		ProposerAddress: consAddress.Bytes(),
		Version:         tmversion.Consensus{Block: version.BlockProtocol},
		LastBlockId: tmproto.BlockID{
			Hash:          tmhash.Sum([]byte("block_id")),
			PartSetHeader: tmproto.PartSetHeader{Total: 11, Hash: tmhash.Sum([]byte("partset_header"))},
		},
		AppHash:            tmhash.Sum([]byte("app")),
		DataHash:           tmhash.Sum([]byte("data")),
		EvidenceHash:       tmhash.Sum([]byte("evidence")),
		ValidatorsHash:     tmhash.Sum([]byte("validators")),
		NextValidatorsHash: tmhash.Sum([]byte("next_validators")),
		ConsensusHash:      tmhash.Sum([]byte("consensus")),
		LastResultsHash:    tmhash.Sum([]byte("last_result")),
	}
	ctx := tApp.NewContext(false, header)

	// the EVM looks up the block proposer's validator (coinbase)
	valAddr := sdk.ValAddress(common.Address{}.Bytes())
	validator, err := stakingtypes.NewValidator(valAddr, consPriv.PubKey(), stakingtypes.Description{})
	if err != nil {
		panic(err)
	}
	if err := tApp.GetStakingKeeper().SetValidatorByConsAddr(ctx, validator); err != nil {
		panic(err)
	}
	tApp.GetStakingKeeper().SetValidator(ctx, validator)

	// commit so that the fee market's begin blocker sets the base fee
	_ = tApp.Commit()
	header.Height++
	tApp.BeginBlock(abci.RequestBeginBlock{Header: header})
	ctx = tApp.NewContext(false, header)

	ak := tApp.GetAccountKeeper()
	w := &world{tApp: tApp, ctx: ctx, k: tApp.GetEvmutilKeeper(), bank: tApp.GetBankKeeper(), ctrID: map[common.Address]int{}}
	w.bankMs = bankkeeper.NewMsgServerImpl(w.bank)
	w.addrs = make([]sdk.AccAddress, nAcc)
	copy(w.addrs, users)
	w.addrs[accM] = ak.GetModuleAccount(ctx, evmutiltypes.ModuleName).GetAddress()
	w.addrs[accHard] = ak.GetModuleAccount(ctx, "hard").GetAddress()
	w.addrs[accZero] = sdk.AccAddress(make([]byte, 20))
	for _, a := range w.addrs {
		w.eaddrs = append(w.eaddrs, common.BytesToAddress(a.Bytes()))
	}
	if w.eaddrs[accM] != evmutiltypes.ModuleEVMAddress {
		panic("module EVM address mismatch")
	}

	// the table of EVM-native pair contracts: the real compiled ERC20MintableBurnable, owned by
	// the module, and the adversarial token
	initCode, err := hex.DecodeString(refundableInitCode)
	if err != nil {
		panic(err)
	}
	nrCode, err := hex.DecodeString(noRevertInitCode)
	if err != nil {
		panic(err)
	}
	for i := 0; i < nPair; i++ {
		var addr evmutiltypes.InternalEVMAddress
		if evilCtr[i] || nrCtr[i] {
			initCode := initCode
			if nrCtr[i] {
				initCode = nrCode
			}
			nonce, err := ak.GetSequence(ctx, evmutiltypes.ModuleEVMAddress.Bytes())
			if err != nil {
				panic(err)
			}
			if _, err := w.k.CallEVMWithData(ctx, evmutiltypes.ModuleEVMAddress, nil, initCode); err != nil {
				panic(err)
			}
			addr = evmutiltypes.NewInternalEVMAddress(crypto.CreateAddress(evmutiltypes.ModuleEVMAddress, nonce))
		} else {
			addr, err = w.k.DeployTestMintableERC20Contract(ctx, fmt.Sprintf("TOK%d", i), fmt.Sprintf("TOK%d", i), 18)
			if err != nil {
				panic(err)
			}
		}
		if !w.hasCode(ctx, addr.Address) {
			panic("pair contract without code")
		}
		w.ctrID[addr.Address] = len(w.ctr)
		w.ctr = append(w.ctr, addr)
	}
	// genesis parameters: pairs 0, 1, the adversarial pair and the old-style pair enabled; hard and xrpb allowed
	p := evmutiltypes.NewParams(
		evmutiltypes.ConversionPairs{w.pairOf(0), w.pairOf(1), w.pairOf(3), w.pairOf(4)},
		evmutiltypes.AllowedCosmosCoinERC20Tokens{tokenMeta(3), tokenMeta(5)})
	if err := p.Validate(); err != nil {
		panic(err)
	}
	w.k.SetParams(w.ctx, p)
	return w
}

func (w *world) pairOf(c int) evmutiltypes.ConversionPair {
	return evmutiltypes.NewConversionPair(w.ctr[c], denoms[pairDenom[c]])
}

func tokenMeta(d int) evmutiltypes.AllowedCosmosCoinERC20Token {
	name := denoms[d]
	return evmutiltypes.NewAllowedCosmosCoinERC20Token(name, "Kava-wrapped "+name, "k"+name, 6)
}

func (w *world) hasCode(ctx sdk.Context, a common.Address) bool {
	acc := w.tApp.GetEvmKeeper().GetAccount(ctx, a)
	if acc == nil {
		return false
	}
	return len(w.tApp.GetEvmKeeper().GetCode(ctx, common.BytesToHash(acc.CodeHash))) > 0
}

// ------------------------------------------------------------ raw ERC20 storage

func pad32(a common.Address) []byte {
	buf := make([]byte, 32)
	copy(buf[12:], a.Bytes())
	return buf
}

func (w *world) slot(ctx sdk.Context, c int, key common.Hash) *big.Int {
	h := w.tApp.GetEvmKeeper().GetState(ctx, w.ctr[c].Address, key)
	return new(big.Int).SetBytes(h.Bytes())
}

func (w *world) rawBalance(ctx sdk.Context, c int, a common.Address) *big.Int {
	if isEvil(c) || isNR(c) {
		return w.slot(ctx, c, common.BytesToHash(a.Bytes()))
	}
	return w.slot(ctx, c, crypto.Keccak256Hash(append(pad32(a), make([]byte, 32)...)))
}

func (w *world) rawTotal(ctx sdk.Context, c int) *big.Int {
	if isEvil(c) {
		return big.NewInt(0) // the adversarial token keeps no total supply
	}
	if isNR(c) {
		return w.slot(ctx, c, common.BigToHash(new(big.Int).Lsh(big.NewInt(1), 160)))
	}
	return w.slot(ctx, c, common.BigToHash(big.NewInt(2)))
}

func (w *world) rawAllowance(ctx sdk.Context, c int, owner, spender common.Address) *big.Int {
	if isNR(c) {
		return big.NewInt(0) // the old-style token has no allowances
	}
	if isEvil(c) {
		return w.slot(ctx, c, crypto.Keccak256Hash(append(pad32(owner), pad32(spender)...)))
	}
	one := make([]byte, 32)
	one[31] = 1
	inner := crypto.Keccak256(append(pad32(owner), one...))
	return w.slot(ctx, c, crypto.Keccak256Hash(append(pad32(spender), inner...)))
}

// ------------------------------------------------------------ snapshot

type snap struct {
	bal     [][]*big.Int   // [acc][denom]
	sup     []*big.Int     // [denom]
	erc     [][]*big.Int   // [contract][acc]
	tot     []*big.Int     // [contract]
	allow   [][][]*big.Int // [contract][owner][spender]
	reg     []int          // [denom] -> contract id or -1 (raw store iteration)
	n       int            // number of deployed contracts known (pairs + registry)
	pairs   [][2]int       // params.EnabledConversionPairs read back: (contract id, denom index)
	allowed []int          // params.AllowedCosmosDenoms read back: denom indexes, in order
	// what the parameters contain that no model value stands for (a monitor fails on any of these)
	badParams string
}

func denomIndex(s string) int {
	for i, d := range denoms {
		if d == s {
			return i
		}
	}
	return -1
}

func dummyContract(c int) evmutiltypes.InternalEVMAddress {
	return evmutiltypes.NewInternalEVMAddress(common.BytesToAddress([]byte{0xde, 0xad, byte(c)}))
}

// contractAddr: the address of contract id c; ids that are not deployed name addresses without code
func (w *world) contractAddr(c int) evmutiltypes.InternalEVMAddress {
	if c >= 0 && c < len(w.ctr) {
		return w.ctr[c]
	}
	return dummyContract(c)
}

func (w *world) contractID(a common.Address) int {
	if id, ok := w.ctrID[a]; ok {
		return id
	}
	for k := 0; k < 256; k++ {
		if dummyContract(k).Address == a {
			return k
		}
	}
	return -1
}

// readRegistry iterates the raw store prefix of deployed cosmos-coin contracts
// and assigns model ids to new contract addresses in order of appearance.
func (w *world) readRegistry(ctx sdk.Context) []int {
	reg := make([]int, nDenom)
	for i := range reg {
		reg[i] = -1
	}
	store := ctx.KVStore(w.tApp.GetKVStoreKey(evmutiltypes.StoreKey))
	it := sdk.KVStorePrefixIterator(store, evmutiltypes.DeployedCosmosCoinContractKeyPrefix)
	defer it.Close()
	type ent struct {
		d    int
		addr common.Address
	}
	var fresh []ent
	for ; it.Valid(); it.Next() {
		d := denomIndex(string(it.Key()[1:]))
		if d < 0 {
			panic("registry has an unknown denom " + string(it.Key()[1:]))
		}
		addr := common.BytesToAddress(it.Value())
		if id, ok := w.ctrID[addr]; ok {
			reg[d] = id
		} else {
			fresh = append(fresh, ent{d, addr})
		}
	}
	// at most one contract is deployed per operation; several would get ids in denom order
	for _, f := range fresh {
		id := len(w.ctr)
		w.ctrID[f.addr] = id
		w.ctr = append(w.ctr, evmutiltypes.NewInternalEVMAddress(f.addr))
		reg[f.d] = id
	}
	return reg
}

// forget drops the contract ids assigned since the table had n entries (a discarded transaction)
func (w *world) forget(n int) {
	for len(w.ctr) > n {
		delete(w.ctrID, w.ctr[len(w.ctr)-1].Address)
		w.ctr = w.ctr[:len(w.ctr)-1]
	}
}

func (w *world) snapshot(ctx sdk.Context) *snap {
	s := &snap{}
	s.reg = w.readRegistry(ctx)
	s.n = len(w.ctr)
	for a := 0; a < nAcc; a++ {
		row := make([]*big.Int, nDenom)
		for d, dn := range denoms {
			row[d] = w.bank.GetBalance(ctx, w.addrs[a], dn).Amount.BigInt()
		}
		s.bal = append(s.bal, row)
	}
	for _, dn := range denoms {
		s.sup = append(s.sup, w.bank.GetSupply(ctx, dn).Amount.BigInt())
	}
	for c := 0; c < s.n; c++ {
		row := make([]*big.Int, nAcc)
		al := make([][]*big.Int, nAcc)
		for a := 0; a < nAcc; a++ {
			row[a] = w.rawBalance(ctx, c, w.eaddrs[a])
			al[a] = make([]*big.Int, nAcc)
			for sp := 0; sp < nAcc; sp++ {
				al[a][sp] = w.rawAllowance(ctx, c, w.eaddrs[a], w.eaddrs[sp])
			}
		}
		s.erc = append(s.erc, row)
		s.allow = append(s.allow, al)
		s.tot = append(s.tot, w.rawTotal(ctx, c))
	}
	// the parameters as the keeper reads them
	p := w.k.GetParams(ctx)
	for _, pr := range p.EnabledConversionPairs {
		c, d := -1, denomIndex(pr.Denom)
		if len(pr.KavaERC20Address) == common.AddressLength && common.BytesToAddress(pr.KavaERC20Address) != (common.Address{}) {
			c = w.contractID(common.BytesToAddress(pr.KavaERC20Address))
		}
		if c < 0 || d < 0 {
			s.badParams = fmt.Sprintf("enabled pair {%x %q} has no well-formed address/denom", []byte(pr.KavaERC20Address), pr.Denom)
			continue
		}
		s.pairs = append(s.pairs, [2]int{c, d})
	}
	for _, t := range p.AllowedCosmosDenoms {
		d := denomIndex(t.CosmosDenom)
		if d < 0 {
			s.badParams = fmt.Sprintf("allowed token %q is no known denom", t.CosmosDenom)
			continue
		}
		s.allowed = append(s.allowed, d)
	}
	return s
}

func (s *snap) isAllowed(d int) bool {
	for _, x := range s.allowed {
		if x == d {
			return true
		}
	}
	return false
}

// pairOfDenom / denomOfCtr: the first enabled pair with that denom / that contract (-1: none)
func (s *snap) pairOfDenom(d int) int {
	for _, p := range s.pairs {
		if p[1] == d {
			return p[0]
		}
	}
	return -1
}

func (s *snap) denomOfCtr(c int) int {
	for _, p := range s.pairs {
		if p[0] == c {
			return p[1]
		}
	}
	return -1
}

// queryBalance / queryTotal go through the keeper's EVM query helpers (erc20.go).
func (w *world) queryBalance(ctx sdk.Context, c, a int) *big.Int {
	cctx, _ := ctx.CacheContext()
	v, err := w.k.QueryERC20BalanceOf(cctx, w.ctr[c], evmutiltypes.NewInternalEVMAddress(w.eaddrs[a]))
	if err != nil {
		panic(fmt.Sprintf("QueryERC20BalanceOf(%d,%d): %v", c, a, err))
	}
	return v
}

func (w *world) queryTotal(ctx sdk.Context, c int) *big.Int {
	cctx, _ := ctx.CacheContext()
	v, err := w.k.QueryERC20TotalSupply(cctx, w.ctr[c])
	if err != nil {
		panic(fmt.Sprintf("QueryERC20TotalSupply(%d): %v", c, err))
	}
	return v
}
