package c10

// C10 — evmutil: converted assets are always fully backed on the other side.
// Histories of the four conversion messages (through ValidateBasic + the msg
// server, or the keeper method directly), plain ERC20 transfers and mints in
// the real EVM, bank MsgSend and parameter changes; monitors state the
// property on the implementation; the same histories are written as Coq terms
// for Model/Evmutil.v.

import (
	. "kavaverif/lib"

	"encoding/json"
	"fmt"
	"math/big"
	"os"
	"strings"

	evmutilkeeper "github.com/kava-labs/kava/x/evmutil/keeper"
)

func init() { Registry["C10"] = run }

const defaultLen = 30

func eq(a, b *big.Int) bool { return a.Cmp(b) == 0 }

func cloneSnap(s *snap) *snap {
	c := &snap{n: s.n}
	for _, row := range s.bal {
		r := make([]*big.Int, len(row))
		for i, v := range row {
			r[i] = new(big.Int).Set(v)
		}
		c.bal = append(c.bal, r)
	}
	for _, v := range s.sup {
		c.sup = append(c.sup, new(big.Int).Set(v))
	}
	for _, row := range s.erc {
		r := make([]*big.Int, len(row))
		for i, v := range row {
			r[i] = new(big.Int).Set(v)
		}
		c.erc = append(c.erc, r)
	}
	for _, v := range s.tot {
		c.tot = append(c.tot, new(big.Int).Set(v))
	}
	c.reg = append([]int(nil), s.reg...)
	return c
}

// diff returns a description of the first difference between two snapshots ("" if equal)
func diff(exp, got *snap) string {
	if exp.n != got.n {
		return fmt.Sprintf("deployed contracts: expected %d got %d", exp.n, got.n)
	}
	for d := range exp.reg {
		if exp.reg[d] != got.reg[d] {
			return fmt.Sprintf("registry[%s]: expected %d got %d", denoms[d], exp.reg[d], got.reg[d])
		}
	}
	for a := range exp.bal {
		for d := range exp.bal[a] {
			if !eq(exp.bal[a][d], got.bal[a][d]) {
				return fmt.Sprintf("bank balance of account %d in %s: expected %s got %s", a, denoms[d], exp.bal[a][d], got.bal[a][d])
			}
		}
	}
	for d := range exp.sup {
		if !eq(exp.sup[d], got.sup[d]) {
			return fmt.Sprintf("supply of %s: expected %s got %s", denoms[d], exp.sup[d], got.sup[d])
		}
	}
	for c := range exp.erc {
		for a := range exp.erc[c] {
			if !eq(exp.erc[c][a], got.erc[c][a]) {
				return fmt.Sprintf("ERC20 balance of account %d in contract %d: expected %s got %s", a, c, exp.erc[c][a], got.erc[c][a])
			}
		}
		if !eq(exp.tot[c], got.tot[c]) {
			return fmt.Sprintf("ERC20 total supply of contract %d: expected %s got %s", c, exp.tot[c], got.tot[c])
		}
	}
	return ""
}

type failure struct{ pred, sig, detail string }

// ------------------------------------------------------------ monitors

// backing states both backing equations directly on the observed state.
func (w *world) backing(s *snap) *failure {
	for d := 0; d < nDenom; d++ {
		if c := s.reg[d]; c >= 0 {
			if !eq(s.tot[c], s.bal[accM][d]) {
				return &failure{"cosmos-native-backed", "cosmos-backing-broken",
					fmt.Sprintf("%s: wrapper %d total supply %s, module account holds %s", denoms[d], c, s.tot[c], s.bal[accM][d])}
			}
		}
	}
	for c := 0; c < nPair; c++ {
		d := pairDenom[c]
		need := new(big.Int).Set(s.sup[d])
		if isBep3[d] {
			need.Mul(need, k10)
		}
		if need.Cmp(s.erc[c][accM]) > 0 {
			sig := "evm-backing-broken"
			if !w.enabled[c] {
				sig = "evm-backing-broken-disabled-pair"
			}
			return &failure{"evm-native-backed", sig,
				fmt.Sprintf("pair %d (%s): coin supply %s needs %s locked, module EVM address holds %s", c, denoms[d], s.sup[d], need, s.erc[c][accM])}
		}
	}
	// the keeper's own invariant functions (the EVM-native one is not registered)
	cctx, _ := w.ctx.CacheContext() // the keeper's EVM queries write nonces; discard them
	if msg, broken := evmutilkeeper.CosmosCoinsFullyBackedInvariant(w.bank, w.k)(cctx); broken {
		return &failure{"keeper-invariant-cosmos-coins-fully-backed", "cosmos-backing-broken", strings.TrimSpace(msg)}
	}
	if msg, broken := evmutilkeeper.BackedCoinsInvariant(w.bank, w.k)(cctx); broken {
		return &failure{"keeper-invariant-backed-coins(unregistered)", "evm-backing-broken", strings.TrimSpace(msg)}
	}
	return nil
}

// crossCheck compares the raw storage reads with the keeper's EVM query helpers
func (w *world) crossCheck(s *snap, c int, accs ...int) *failure {
	if c < 0 || c >= s.n {
		return nil
	}
	for _, a := range append(accs, accM) {
		if q := w.queryBalance(c, a); !eq(q, s.erc[c][a]) {
			return &failure{"raw-storage-equals-keeper-query", "raw-vs-query", fmt.Sprintf("balanceOf contract %d account %d: query %s raw %s", c, a, q, s.erc[c][a])}
		}
	}
	if q := w.queryTotal(c); !eq(q, s.tot[c]) {
		return &failure{"raw-storage-equals-keeper-query", "raw-vs-query", fmt.Sprintf("totalSupply contract %d: query %s raw %s", c, q, s.tot[c])}
	}
	return nil
}

func enabledPairOfDenom(en []bool, d int) int {
	for c := 0; c < nPair; c++ {
		if en[c] && pairDenom[c] == d {
			return c
		}
	}
	return -1
}

func sub(a **big.Int, x *big.Int) { *a = new(big.Int).Sub(*a, x) }
func add(a **big.Int, x *big.Int) { *a = new(big.Int).Add(*a, x) }

// monitor states the property for one executed operation.  en/al are the
// parameters in force when the operation ran.
func (w *world) monitor(o op, cls Class, before, after *snap, en, al []bool, blockedAcc []bool) *failure {
	if cls != ClassOk {
		if d := diff(before, after); d != "" {
			return &failure{"failed-or-disabled-no-change", "failed-op-changed-state", d}
		}
		return w.backing(after)
	}
	x := o.amount()
	exp := cloneSnap(before)
	kind := o.Kind
	bad := func(pred, sig, detail string) *failure { return &failure{pred, sig, detail} }
	switch kind {
	case "c2e":
		c := enabledPairOfDenom(en, o.D)
		if c < 0 {
			sig := "disabled-conversion-accepted"
			if o.D >= firstLook {
				sig = "lookalike-denom-conversion-accepted"
			}
			return bad("conversion-of-a-denom-that-is-not-exactly-an-enabled-pair-denom-refused", sig,
				fmt.Sprintf("ConvertCoinToERC20 of %q succeeded (enabled pairs: %v)", denoms[o.D], en))
		}
		if x.Sign() < 0 || (!o.Direct && x.Sign() == 0) {
			return bad("non-positive-amount-refused", "non-positive-amount-accepted", o.X)
		}
		if x.Cmp(before.bal[o.I][o.D]) > 0 {
			return bad("overdraw-refused", "overdraw-accepted", fmt.Sprintf("amount %s > balance %s", x, before.bal[o.I][o.D]))
		}
		u := new(big.Int).Set(x)
		if isBep3[o.D] {
			u.Mul(u, k10)
		}
		if o.R == accM && u.Sign() > 0 {
			// the coins are burned and the tokens never leave the module: the receiver is credited nothing
			return bad("conversion-value", "unlock-to-module-itself-accepted", fmt.Sprintf("amount %s", x))
		}
		sub(&exp.bal[o.I][o.D], x)
		sub(&exp.sup[o.D], x)
		sub(&exp.erc[c][accM], u)
		add(&exp.erc[c][o.R], u)
		if f := w.crossCheck(after, c, o.R); f != nil {
			return f
		}
	case "e2c":
		if o.C >= nPair || !en[o.C] {
			return bad("disabled-conversion-refused", "disabled-conversion-accepted", fmt.Sprintf("ConvertERC20ToCoin of contract %d", o.C))
		}
		if x.Sign() < 0 || (!o.Direct && x.Sign() == 0) {
			return bad("non-positive-amount-refused", "non-positive-amount-accepted", o.X)
		}
		d := pairDenom[o.C]
		mint := new(big.Int).Set(x)
		lock := new(big.Int).Set(x)
		if isBep3[d] {
			mint.Div(x, k10)
			lock.Mul(mint, k10)
			if mint.Sign() == 0 {
				return bad("dust-only-conversion-refused", "dust-only-conversion-accepted", o.X)
			}
		}
		if lock.Cmp(before.erc[o.C][o.I]) > 0 {
			return bad("overdraw-refused", "overdraw-accepted", fmt.Sprintf("lock %s > balance %s", lock, before.erc[o.C][o.I]))
		}
		if blockedAcc[o.R] {
			return bad("blocked-recipient-refused", "blocked-recipient-accepted", fmt.Sprint(o.R))
		}
		if o.I == accM && lock.Sign() > 0 {
			// a "lock" from the module's own address locks nothing
			return bad("conversion-value", "lock-from-module-itself-accepted", fmt.Sprintf("amount %s", x))
		}
		// dust smaller than one sdk unit is never taken from the user
		debit := new(big.Int).Sub(before.erc[o.C][o.I], after.erc[o.C][o.I])
		if debit.Cmp(lock) > 0 {
			return bad("dust-kept", "dust-taken", fmt.Sprintf("amount %s: user debited %s, coins minted %s (= %s tokens)", x, debit, mint, lock))
		}
		sub(&exp.erc[o.C][o.I], lock)
		add(&exp.erc[o.C][accM], lock)
		add(&exp.bal[o.R][d], mint)
		add(&exp.sup[d], mint)
		if f := w.crossCheck(after, o.C, o.I); f != nil {
			return f
		}
	case "cos2e":
		if !al[o.D] {
			sig := "not-allowed-denom-accepted"
			if o.D >= firstLook {
				sig = "lookalike-denom-conversion-accepted"
			}
			return bad("disabled-conversion-refused", sig, fmt.Sprintf("ConvertCosmosCoinToERC20 of %q succeeded", denoms[o.D]))
		}
		if x.Sign() < 0 || (!o.Direct && x.Sign() == 0) {
			return bad("non-positive-amount-refused", "non-positive-amount-accepted", o.X)
		}
		if x.Cmp(before.bal[o.I][o.D]) > 0 {
			return bad("overdraw-refused", "overdraw-accepted", fmt.Sprintf("amount %s > balance %s", x, before.bal[o.I][o.D]))
		}
		c := before.reg[o.D]
		if c < 0 { // deployed on first use
			c = before.n
			exp.n++
			exp.reg[o.D] = c
			row := make([]*big.Int, nAcc)
			for a := range row {
				row[a] = big.NewInt(0)
			}
			exp.erc = append(exp.erc, row)
			exp.tot = append(exp.tot, big.NewInt(0))
		}
		sub(&exp.bal[o.I][o.D], x)
		add(&exp.bal[accM][o.D], x)
		add(&exp.erc[c][o.R], x)
		add(&exp.tot[c], x)
		if f := w.crossCheck(after, after.reg[o.D], o.R); f != nil {
			return f
		}
	case "e2cos":
		c := before.reg[o.D]
		if c < 0 {
			return bad("disabled-conversion-refused", "unregistered-denom-accepted", "ConvertCosmosCoinFromERC20 of "+denoms[o.D])
		}
		if x.Sign() < 0 || (!o.Direct && x.Sign() == 0) {
			return bad("non-positive-amount-refused", "non-positive-amount-accepted", o.X)
		}
		if x.Cmp(before.erc[c][o.I]) > 0 {
			return bad("overdraw-refused", "overdraw-accepted", fmt.Sprintf("amount %s > balance %s", x, before.erc[c][o.I]))
		}
		if blockedAcc[o.R] {
			return bad("blocked-recipient-refused", "blocked-recipient-accepted", fmt.Sprint(o.R))
		}
		sub(&exp.erc[c][o.I], x)
		sub(&exp.tot[c], x)
		sub(&exp.bal[accM][o.D], x)
		add(&exp.bal[o.R][o.D], x)
		if f := w.crossCheck(after, c, o.I); f != nil {
			return f
		}
	case "xfer":
		if o.C < before.n {
			v := new(big.Int).Mod(x, u256)
			sub(&exp.erc[o.C][o.I], v)
			add(&exp.erc[o.C][o.R], v)
			if v.Cmp(before.erc[o.C][o.I]) > 0 {
				return bad("erc20-ledger", "erc20-overdraw-accepted", o.X)
			}
		}
	case "mint":
		if o.C < before.n {
			if o.C >= nPair {
				return bad("erc20-ledger", "wrapper-minted-by-non-owner", fmt.Sprint(o.C))
			}
			v := new(big.Int).Mod(x, u256)
			add(&exp.erc[o.C][o.R], v)
			add(&exp.tot[o.C], v)
		}
	case "send":
		if blockedAcc[o.R] {
			return bad("blocked-recipient-refused", "bank-send-to-blocked-accepted", fmt.Sprint(o.R))
		}
		sub(&exp.bal[o.I][o.D], x)
		add(&exp.bal[o.R][o.D], x)
	case "params":
	}
	if d := diff(exp, after); d != "" {
		sig := "inexact-delta-" + kind
		return &failure{"conversion-value", sig, d}
	}
	return w.backing(after)
}

// roundTrip: when op undoes the previous successful conversion prev (same
// parties swapped, the amount that was credited), it must succeed and restore
// every balance and supply observed before prev.
func roundTrip(prev op, prevBefore *snap, cur op, cls Class, after *snap, en, al []bool) *failure {
	inv, ok := inverseOf(prev, prevBefore, nil)
	if !ok || inv.Kind != cur.Kind || inv.I != cur.I || inv.R != cur.R || inv.X != cur.X || inv.Direct != cur.Direct {
		return nil
	}
	if (cur.Kind == "c2e" || cur.Kind == "cos2e" || cur.Kind == "e2cos") && inv.D != cur.D {
		return nil
	}
	if cur.Kind == "e2c" && inv.C != cur.C {
		return nil
	}
	x := cur.amount()
	// cases in which the way back is legitimately closed
	if cur.Kind == "cos2e" && !al[cur.D] {
		return nil
	}
	if x.Sign() == 0 && (!cur.Direct || (cur.Kind == "e2c" && isBep3[pairDenom[cur.C]])) {
		return nil
	}
	if cls != ClassOk {
		return &failure{"round-trip", "round-trip-refused", fmt.Sprintf("%s back after %s", cur.Kind, prev.Kind)}
	}
	exp := cloneSnap(prevBefore)
	// contracts deployed by the first leg stay deployed, with nothing in them
	for c := exp.n; c < after.n; c++ {
		row := make([]*big.Int, nAcc)
		for a := range row {
			row[a] = big.NewInt(0)
		}
		exp.erc = append(exp.erc, row)
		exp.tot = append(exp.tot, big.NewInt(0))
	}
	exp.n = after.n
	exp.reg = append([]int(nil), after.reg...)
	if d := diff(exp, after); d != "" {
		return &failure{"round-trip", "round-trip-not-restored", d}
	}
	return nil
}

// ------------------------------------------------------------ Coq rendering

func coqOp(o op) string {
	x := Z(o.amount())
	switch o.Kind {
	case "c2e":
		return fmt.Sprintf("ConvCoinToERC20 %s %s %s %s %s", Bool(o.Direct), Nat(o.I), Nat(o.R), Nat(o.D), x)
	case "e2c":
		return fmt.Sprintf("ConvERC20ToCoin %s %s %s %s %s", Bool(o.Direct), Nat(o.I), Nat(o.R), Nat(o.C), x)
	case "cos2e":
		return fmt.Sprintf("ConvCosmosToERC20 %s %s %s %s %s", Bool(o.Direct), Nat(o.I), Nat(o.R), Nat(o.D), x)
	case "e2cos":
		return fmt.Sprintf("ConvCosmosFromERC20 %s %s %s %s %s", Bool(o.Direct), Nat(o.I), Nat(o.R), Nat(o.D), x)
	case "xfer":
		return fmt.Sprintf("ErcTransfer %s %s %s %s", Nat(o.C), Nat(o.I), Nat(o.R), x)
	case "mint":
		return fmt.Sprintf("ErcMint %s %s %s", Nat(o.C), Nat(o.R), x)
	case "send":
		return fmt.Sprintf("BankSend %s %s %s %s", Nat(o.I), Nat(o.R), Nat(o.D), x)
	default:
		return fmt.Sprintf("SetParams %s %s", BoolList(o.En), BoolList(o.Al))
	}
}

func coqObs(cls Class, before, after *snap) string {
	var db, ds, de, dt, dr []string
	for a := 0; a < nAcc; a++ {
		for d := 0; d < nDenom; d++ {
			if !eq(before.bal[a][d], after.bal[a][d]) {
				db = append(db, fmt.Sprintf("(%s, %s, %s)", Nat(a), Nat(d), Z(after.bal[a][d])))
			}
		}
	}
	for d := 0; d < nDenom; d++ {
		if !eq(before.sup[d], after.sup[d]) {
			ds = append(ds, fmt.Sprintf("(%s, %s)", Nat(d), Z(after.sup[d])))
		}
		if before.reg[d] != after.reg[d] {
			dr = append(dr, fmt.Sprintf("(%s, %s)", Nat(d), Nat(after.reg[d])))
		}
	}
	zero := big.NewInt(0)
	for c := 0; c < after.n; c++ {
		for a := 0; a < nAcc; a++ {
			old := zero
			if c < before.n {
				old = before.erc[c][a]
			}
			if !eq(old, after.erc[c][a]) {
				de = append(de, fmt.Sprintf("(%s, %s, %s)", Nat(c), Nat(a), Z(after.erc[c][a])))
			}
		}
		old := zero
		if c < before.n {
			old = before.tot[c]
		}
		if !eq(old, after.tot[c]) {
			dt = append(dt, fmt.Sprintf("(%s, %s)", Nat(c), Z(after.tot[c])))
		}
	}
	return fmt.Sprintf("mkObs %s %s %s %s %s %s %s", cls.Coq(), List(db), List(ds), List(de), List(dt), List(dr), Nat(after.n))
}

func natList(xs []int) string {
	it := make([]string, len(xs))
	for i, x := range xs {
		it[i] = Nat(x)
	}
	return List(it)
}

func (w *world) blockedList() []bool {
	out := make([]bool, nAcc)
	for a := range out {
		out[a] = w.bank.BlockedAddr(w.addrs[a])
	}
	return out
}

func (w *world) coqEnvState(s *snap) string {
	env := fmt.Sprintf("(mk_env %s %s %s %s %s %s)", Nat(nAcc), Nat(nDenom), Nat(accM), BoolList(w.blockedList()), natList(pairDenom), BoolList(isBep3))
	brows := make([]string, nAcc)
	for a := range brows {
		brows[a] = ZList(s.bal[a])
	}
	crows := make([]string, s.n)
	for c := range crows {
		crows[c] = fmt.Sprintf("(%s, %s)", Z(s.tot[c]), ZList(s.erc[c]))
	}
	var rg []string
	for d := 0; d < nDenom; d++ {
		if s.reg[d] >= 0 {
			rg = append(rg, fmt.Sprintf("(%s, %s)", Nat(d), Nat(s.reg[d])))
		}
	}
	st := fmt.Sprintf("(mk_state %s %s %s %s %s %s)", List(brows), ZList(s.sup), List(crows), List(rg), BoolList(w.enabled), BoolList(w.allowed))
	return env + "\n  " + st
}

// ------------------------------------------------------------ history runner

type hist struct {
	Seed uint64 `json:"seed"`
	Idx  int    `json:"history"`
	Ops  []op   `json:"ops"`
}

const coqHeader = "From Kava Require Import Base.Prelude Model.Erc20 Model.Evmutil."

type runOut struct {
	ops    []op
	coq    string
	fail   *Failure
	okOps  int
	splits map[string]bool
}

// initialMints gives the users EVM-native tokens before the history starts
// (part of the initial state that the Coq history records).
func (w *world) initialMints() {
	type m struct {
		c, a int
		x    string
	}
	for _, e := range []m{
		{0, 0, "70000000005"}, {0, 1, "30000000000"}, {0, 2, "9999999999"},
		{1, 0, "1000"}, {1, 3, "25"},
		{2, 1, "20000000001"}, {2, 3, "123456789012345678"},
	} {
		x, _ := new(big.Int).SetString(e.x, 10)
		if err := w.k.MintERC20(w.ctx, w.ctr[e.c], iaddr(w.eaddrs[e.a]), x); err != nil {
			panic(err)
		}
	}
}

// runHistory executes generated (ops == nil) or explicit operations.
func runHistory(seed uint64, idx, n int, ops []op, cnt *Counters) runOut {
	w := setup()
	w.initialMints()
	r := NewRng(seed, uint64(idx))
	out := runOut{splits: map[string]bool{}}
	prev := w.snapshot()
	header := w.coqEnvState(prev)
	blockedAcc := w.blockedList()
	g := &gen{r: r, w: w, cnt: cnt}
	var steps []string
	if ops != nil {
		n = len(ops)
	}
	var lastConv *op
	var lastConvBefore *snap
	mark := func(k string) {
		out.splits[k] = true
		if cnt != nil {
			cnt.Inc("split:" + k)
		}
	}
	for i := 0; i < n; i++ {
		var o op
		if ops != nil {
			o = ops[i]
		} else {
			g.s = prev
			o = g.next()
		}
		en, al := append([]bool(nil), w.enabled...), append([]bool(nil), w.allowed...)
		cls, err := w.exec(o)
		after := w.snapshot()
		out.ops = append(out.ops, o)
		if cnt != nil {
			cnt.Inc("op:" + o.Kind + ":" + cls.String())
			if cls == ClassErr {
				cnt.Inc("err:" + errKind(err))
			}
		}
		steps = append(steps, fmt.Sprintf("(%s,\n    %s)", coqOp(o), coqObs(cls, prev, after)))
		var f *failure
		if cls == ClassPanic {
			f = &failure{"no-panic", "panic-in-" + o.Kind, fmt.Sprint(err)}
		}
		if f == nil {
			f = w.monitor(o, cls, prev, after, en, al, blockedAcc)
		}
		if f == nil && lastConv != nil {
			f = roundTrip(*lastConv, lastConvBefore, o, cls, after, en, al)
			if f == nil && cls == ClassOk {
				if inv, ok := inverseOf(*lastConv, nil, nil); ok && inv.Kind == o.Kind && inv.X == o.X && inv.I == o.I && inv.R == o.R {
					mark("roundtrip:" + lastConv.Kind)
				}
			}
		}
		if f != nil && out.fail == nil {
			out.fail = &Failure{History: idx, Step: i, Predicate: f.pred, Signature: f.sig, Detail: f.detail}
		}
		if cls == ClassOk {
			out.okOps++
		}
		splits(o, cls, err, prev, after, en, al, blockedAcc, mark)
		isConv := o.Kind == "c2e" || o.Kind == "e2c" || o.Kind == "cos2e" || o.Kind == "e2cos"
		if cls == ClassOk && isConv {
			oc := o
			lastConv, lastConvBefore = &oc, prev
			g.last, g.lastSnap = &oc, prev
		} else if cls == ClassOk {
			// anything else in between ends the round-trip window
			lastConv, g.last = nil, nil
		}
		prev = after
	}
	out.coq = fmt.Sprintf("mkHist %s\n  %s", header, List(steps))
	return out
}

func errKind(err error) string {
	if err == nil {
		return "none"
	}
	m := err.Error()
	switch {
	case strings.Contains(m, "insufficient funds") || strings.Contains(m, "is smaller than"):
		return "insufficient-funds"
	case strings.Contains(m, "conversion not enabled") || strings.Contains(m, "not enabled"):
		return "not-enabled"
	case strings.Contains(m, "no erc20 contract found"):
		return "unregistered"
	case strings.Contains(m, "less than 1 native unit") || strings.Contains(m, "insufficient conversion amount"):
		return "dust-only"
	case strings.Contains(m, "not allowed to receive"):
		return "blocked-recipient"
	case strings.Contains(m, "invalid token balance"):
		return "balance-delta-check"
	case strings.Contains(m, "execution reverted") || strings.Contains(m, "evm"):
		return "evm-revert"
	case strings.Contains(m, "amount cannot be zero") || strings.Contains(m, "invalid coins") || strings.Contains(m, "negative") || strings.Contains(m, "invalid request"):
		return "validate-basic"
	}
	return "other"
}

// splits counts the proof-relevant case splits an operation exercised.
func splits(o op, cls Class, err error, before, after *snap, en, al []bool, blockedAcc []bool, mark func(string)) {
	x := o.amount()
	ok := cls == ClassOk
	ek := errKind(err)
	switch o.Kind {
	case "c2e":
		c := enabledPairOfDenom(en, o.D)
		if o.D >= firstLook && !ok {
			mark("c2e:lookalike-denom-refused")
		}
		switch {
		case c < 0:
			mark("c2e:disabled-refused")
		case ok && isBep3[o.D]:
			mark("c2e:ok:bep3")
		case ok:
			mark("c2e:ok:plain")
		case x.Cmp(before.bal[o.I][o.D]) > 0:
			mark("c2e:overdraw-refused")
		case ek == "balance-delta-check":
			mark("c2e:balance-delta-check-refused")
		}
		if ok && x.Sign() > 0 && eq(x, before.bal[o.I][o.D]) {
			mark("amount:exact-balance-ok")
		}
		if ok && x.Sign() == 0 {
			mark("amount:zero-direct-ok")
		}
	case "e2c":
		switch {
		case o.C >= nPair || !en[o.C]:
			mark("e2c:disabled-refused")
		case ok && isBep3[pairDenom[o.C]] && new(big.Int).Mod(x, k10).Sign() > 0:
			mark("e2c:ok:bep3-with-dust")
		case ok && isBep3[pairDenom[o.C]]:
			mark("e2c:ok:bep3-no-dust")
		case ok:
			mark("e2c:ok:plain")
		case ek == "dust-only":
			mark("e2c:dust-only-refused")
		case ek == "blocked-recipient":
			mark("e2c:blocked-recipient-refused")
		case ek == "evm-revert":
			mark("e2c:overdraw-refused")
		case ek == "balance-delta-check":
			mark("e2c:balance-delta-check-refused")
		}
		if ok && x.Sign() > 0 && eq(x, before.erc[o.C][o.I]) {
			mark("amount:exact-balance-ok")
		}
	case "cos2e":
		if o.D >= firstLook && !ok {
			mark("cos2e:lookalike-denom-refused")
		}
		switch {
		case !al[o.D]:
			mark("cos2e:not-allowed-refused")
		case ok && before.reg[o.D] < 0:
			mark("cos2e:ok:deploy")
		case ok:
			mark("cos2e:ok:existing")
		case x.Cmp(before.bal[o.I][o.D]) > 0:
			mark("cos2e:overdraw-refused")
		}
		if ok && x.Sign() == 0 {
			mark("amount:zero-direct-ok")
		}
		if ok && x.Sign() > 0 && eq(x, before.bal[o.I][o.D]) {
			mark("amount:exact-balance-ok")
		}
	case "e2cos":
		c := before.reg[o.D]
		if o.D >= firstLook && !ok {
			mark("e2cos:lookalike-denom-refused")
		}
		switch {
		case c < 0:
			mark("e2cos:unregistered-refused")
		case ok && !al[o.D]:
			mark("e2cos:ok:denom-no-longer-allowed")
		case ok:
			mark("e2cos:ok")
		case x.Cmp(before.erc[c][o.I]) > 0:
			mark("e2cos:overdraw-refused")
		case ek == "blocked-recipient":
			mark("e2cos:blocked-recipient-refused")
		}
	case "xfer":
		if ok && o.C < before.n && o.R == accM && x.Sign() > 0 {
			mark("xfer:to-module-address")
		}
		if o.C < before.n && (x.Sign() < 0 || x.Cmp(u256) >= 0) {
			mark("xfer:uint256-wrap")
		}
		if ok && o.C >= before.n {
			mark("xfer:no-code")
		}
	case "mint":
		if !ok && o.C < nPair {
			mark("mint:total-supply-overflow-refused")
		}
		if !ok && o.C >= nPair && o.C < before.n {
			mark("mint:wrapper-not-owner-refused")
		}
	case "send":
		if !ok && blockedAcc[o.R] && x.Sign() > 0 {
			mark("send:blocked-recipient-refused")
		}
	case "params":
		mark("params")
	}
}

var allSplits = []string{
	"c2e:disabled-refused", "c2e:ok:bep3", "c2e:ok:plain", "c2e:overdraw-refused", "c2e:balance-delta-check-refused",
	"e2c:disabled-refused", "e2c:ok:bep3-with-dust", "e2c:ok:bep3-no-dust", "e2c:ok:plain", "e2c:dust-only-refused",
	"e2c:blocked-recipient-refused", "e2c:overdraw-refused", "e2c:balance-delta-check-refused",
	"cos2e:not-allowed-refused", "cos2e:ok:deploy", "cos2e:ok:existing", "cos2e:overdraw-refused",
	"e2cos:unregistered-refused", "e2cos:ok", "e2cos:ok:denom-no-longer-allowed", "e2cos:overdraw-refused", "e2cos:blocked-recipient-refused",
	"xfer:to-module-address", "xfer:uint256-wrap", "mint:total-supply-overflow-refused", "mint:wrapper-not-owner-refused",
	"send:blocked-recipient-refused", "params",
	"amount:exact-balance-ok", "amount:zero-direct-ok",
	"roundtrip:cos2e", "roundtrip:e2cos", "roundtrip:c2e", "roundtrip:e2c",
	"c2e:lookalike-denom-refused", "cos2e:lookalike-denom-refused", "e2cos:lookalike-denom-refused",
}

func run(o Opts) (*Result, error) {
	n := o.Len
	if n == 0 {
		n = defaultLen
	}
	res := &Result{Property: "C10", Seed: o.Seed,
		Rule: "histories of " + fmt.Sprint(n) + " operations (the four evmutil conversions through ValidateBasic+msg server or the keeper, ERC20 transfer/mint in the real EVM, bank MsgSend, parameter changes) generated from splitmix64(seed, history index) on a fresh app.TestApp with the real compiled ERC20 contracts; a history is non-trivial when it contains at least one successful conversion in each family (EVM-native and cosmos-native) and at least one refused conversion; distinct by hash of the operation list"}
	cnt := NewCounters()

	if o.Replay != "" {
		bz, err := os.ReadFile(o.Replay)
		if err != nil {
			return nil, err
		}
		var h hist
		if err := json.Unmarshal(bz, &h); err != nil {
			return nil, err
		}
		out := runHistory(h.Seed, h.Idx, 0, h.Ops, cnt)
		name, err := WriteShard(o.OutDir, 0, coqHeader, []string{out.coq}, "mismatches")
		if err != nil {
			return nil, err
		}
		res.Shards = []string{name}
		res.HistIndex = []HistRef{{Shard: 0, Pos: 0, Hist: h.Idx, Desc: MustJSON(h)}}
		res.Histories, res.Evaluations = 1, len(h.Ops)
		if out.fail != nil {
			out.fail.Replay = MustJSON(h)
			res.Failures = append(res.Failures, *out.fail)
		}
		res.Counters = cnt.Map()
		return res, nil
	}

	outs := make([]runOut, o.N)
	ParallelFor(o.N, o.Workers, func(i int) {
		out := runHistory(o.Seed, i, n, nil, cnt)
		if out.fail != nil {
			sig := out.fail.Signature
			fails := func(cand []op) bool {
				f := runHistory(o.Seed, i, 0, cand, nil).fail
				return f != nil && f.Signature == sig
			}
			small := Shrink(out.ops[:out.fail.Step+1], fails)
			if f2 := runHistory(o.Seed, i, 0, small, nil).fail; f2 != nil {
				f2.History = i
				f2.Replay = MustJSON(hist{o.Seed, i, small})
				out.fail = f2
			} else {
				out.fail.Replay = MustJSON(hist{o.Seed, i, out.ops[:out.fail.Step+1]})
			}
		}
		outs[i] = out
	})

	seen := map[string]bool{}
	perShard := 40
	var cases []string
	shard := 0
	flush := func() error {
		if len(cases) == 0 {
			return nil
		}
		name, err := WriteShard(o.OutDir, shard, coqHeader, cases, "mismatches")
		if err != nil {
			return err
		}
		res.Shards = append(res.Shards, name)
		shard++
		cases = nil
		return nil
	}
	for i, ot := range outs {
		res.Histories++
		res.Evaluations += len(ot.ops)
		h := hist{o.Seed, i, ot.ops}
		key := string(MustJSON(ot.ops))
		evmOk, cosOk, refused := false, false, false
		for k := range ot.splits {
			switch {
			case strings.HasPrefix(k, "c2e:ok") || strings.HasPrefix(k, "e2c:ok"):
				evmOk = true
			case strings.HasPrefix(k, "cos2e:ok") || strings.HasPrefix(k, "e2cos:ok"):
				cosOk = true
			case strings.HasSuffix(k, "-refused"):
				refused = true
			}
		}
		if evmOk && cosOk && refused && !seen[key] {
			seen[key] = true
			res.DistinctNontrivial++
		}
		if i < 2 {
			res.Samples = append(res.Samples, h)
		}
		res.HistIndex = append(res.HistIndex, HistRef{Shard: shard, Pos: len(cases), Hist: i, Desc: MustJSON(h)})
		cases = append(cases, ot.coq)
		if len(cases) == perShard {
			if err := flush(); err != nil {
				return nil, err
			}
		}
		if ot.fail != nil {
			res.Failures = append(res.Failures, *ot.fail)
		}
	}
	if err := flush(); err != nil {
		return nil, err
	}
	res.Counters = cnt.Map()
	okTotal, all := 0, 0
	for k, v := range res.Counters {
		if strings.HasPrefix(k, "op:") {
			all += v
			if strings.HasSuffix(k, ":ok") {
				okTotal += v
			}
		}
	}
	res.Extra = map[string]any{"ops_ok": okTotal, "ops_total": all}
	for _, k := range allSplits {
		if res.Counters["split:"+k] == 0 {
			res.QualityGate = append(res.QualityGate, k)
		}
	}
	return res, nil
}
