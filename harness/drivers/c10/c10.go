package c10

// C10 — evmutil: converted assets are always fully backed on the other side.
// Histories of transactions: the four conversion messages (through ValidateBasic + the
// app's message router, or the keeper method directly), plain ERC20 transfers, mints,
// approvals and transferFroms in the real EVM (compiled OpenZeppelin contracts and one
// adversarial token), bank MsgSend and parameter-change proposals (well-formed and
// malformed) through the governance handler; monitors state the property on the
// implementation; the same histories are written as Coq terms for Model/Evmutil.v.

import (
	. "kavaverif/lib"

	"encoding/json"
	"fmt"
	"math/big"
	"os"
	"strings"
	"sync/atomic"

	sdk "github.com/cosmos/cosmos-sdk/types"

	evmutilkeeper "github.com/kava-labs/kava/x/evmutil/keeper"
)

func init() { Registry["C10"] = run }

const defaultLen = 30

func eq(a, b *big.Int) bool { return a.Cmp(b) == 0 }

func cloneRow(row []*big.Int) []*big.Int {
	r := make([]*big.Int, len(row))
	for i, v := range row {
		r[i] = new(big.Int).Set(v)
	}
	return r
}

func cloneSnap(s *snap) *snap {
	c := &snap{n: s.n, badParams: s.badParams}
	for _, row := range s.bal {
		c.bal = append(c.bal, cloneRow(row))
	}
	c.sup = cloneRow(s.sup)
	for _, row := range s.erc {
		c.erc = append(c.erc, cloneRow(row))
	}
	c.tot = cloneRow(s.tot)
	for _, m := range s.allow {
		var mm [][]*big.Int
		for _, row := range m {
			mm = append(mm, cloneRow(row))
		}
		c.allow = append(c.allow, mm)
	}
	c.reg = append([]int(nil), s.reg...)
	c.pairs = append([][2]int(nil), s.pairs...)
	c.allowed = append([]int(nil), s.allowed...)
	return c
}

func zeroRow() []*big.Int {
	row := make([]*big.Int, nAcc)
	for a := range row {
		row[a] = big.NewInt(0)
	}
	return row
}

// addContract appends an empty contract to an expected state
func (s *snap) addContract() int {
	c := s.n
	s.n++
	s.erc = append(s.erc, zeroRow())
	s.tot = append(s.tot, big.NewInt(0))
	var m [][]*big.Int
	for a := 0; a < nAcc; a++ {
		m = append(m, zeroRow())
	}
	s.allow = append(s.allow, m)
	return c
}

// diff returns a description of the first difference between two snapshots ("" if equal)
func diff(exp, got *snap) string {
	if exp.n != got.n {
		return fmt.Sprintf("deployed contracts: expected %d got %d", exp.n, got.n)
	}
	for d := range exp.reg {
		if exp.reg[d] != got.reg[d] {
			return fmt.Sprintf("registry[%s]: expected %d got %d", denoms[d], exp.reg[d], got.reg[d])
		}
	}
	for a := range exp.bal {
		for d := range exp.bal[a] {
			if !eq(exp.bal[a][d], got.bal[a][d]) {
				return fmt.Sprintf("bank balance of account %d in %s: expected %s got %s", a, denoms[d], exp.bal[a][d], got.bal[a][d])
			}
		}
	}
	for d := range exp.sup {
		if !eq(exp.sup[d], got.sup[d]) {
			return fmt.Sprintf("supply of %s: expected %s got %s", denoms[d], exp.sup[d], got.sup[d])
		}
	}
	for c := range exp.erc {
		for a := range exp.erc[c] {
			if !eq(exp.erc[c][a], got.erc[c][a]) {
				return fmt.Sprintf("ERC20 balance of account %d in contract %d: expected %s got %s", a, c, exp.erc[c][a], got.erc[c][a])
			}
			for sp := range exp.allow[c][a] {
				if !eq(exp.allow[c][a][sp], got.allow[c][a][sp]) {
					return fmt.Sprintf("ERC20 allowance of spender %d over the tokens of %d in contract %d: expected %s got %s", sp, a, c, exp.allow[c][a][sp], got.allow[c][a][sp])
				}
			}
		}
		if !eq(exp.tot[c], got.tot[c]) {
			return fmt.Sprintf("ERC20 total supply of contract %d: expected %s got %s", c, exp.tot[c], got.tot[c])
		}
	}
	if fmt.Sprint(exp.pairs) != fmt.Sprint(got.pairs) {
		return fmt.Sprintf("enabled pairs: expected %v got %v", exp.pairs, got.pairs)
	}
	if fmt.Sprint(exp.allowed) != fmt.Sprint(got.allowed) {
		return fmt.Sprintf("allowed cosmos denoms: expected %v got %v", exp.allowed, got.allowed)
	}
	return ""
}

type failure struct{ pred, sig, detail string }

type sdkCtx = sdk.Context

// ------------------------------------------------------------ monitors

// backing states both backing equations, and what the property needs of the parameters and of
// the allowances, directly on the observed state.
func (w *world) backing(ctx sdkCtx, s *snap) *failure {
	for d := 0; d < nDenom; d++ {
		if c := s.reg[d]; c >= 0 {
			if !eq(s.tot[c], s.bal[accM][d]) {
				return &failure{"cosmos-native-backed", "cosmos-backing-broken",
					fmt.Sprintf("%s: wrapper %d total supply %s, module account holds %s", denoms[d], c, s.tot[c], s.bal[accM][d])}
			}
			if !w.hasCode(ctx, w.ctr[c].Address) {
				return &failure{"registered-wrapper-exists", "registered-contract-has-no-code",
					fmt.Sprintf("%s is registered to contract %d (%s) which has no code", denoms[d], c, w.ctr[c].Hex())}
			}
		} else if s.bal[accM][d].Sign() != 0 {
			// coins of a denom without a wrapper locked in the module account: nothing stands for them
			return &failure{"cosmos-native-backed", "coins-locked-without-wrapper",
				fmt.Sprintf("module account holds %s%s but no ERC20 contract is registered for the denom", s.bal[accM][d], denoms[d])}
		}
	}
	// the parameters: every entry well-formed, no contract and no denom twice
	if s.badParams != "" {
		return &failure{"enabled-pairs-well-formed", "malformed-params-in-force", s.badParams}
	}
	for i := range s.pairs {
		for j := i + 1; j < len(s.pairs); j++ {
			if s.pairs[i][0] == s.pairs[j][0] || s.pairs[i][1] == s.pairs[j][1] {
				return &failure{"enabled-pairs-duplicate-free", "duplicate-pair-in-force",
					fmt.Sprintf("enabled pairs %v: entries %d and %d share a contract or a denom", s.pairs, i, j)}
			}
		}
	}
	for i := range s.allowed {
		for j := i + 1; j < len(s.allowed); j++ {
			if s.allowed[i] == s.allowed[j] {
				return &failure{"allowed-denoms-duplicate-free", "duplicate-token-in-force", fmt.Sprint(s.allowed)}
			}
		}
	}
	for c := 0; c < nPair; c++ {
		d := pairDenom[c]
		need := new(big.Int).Set(s.sup[d])
		if isBep3[d] {
			need.Mul(need, k10)
		}
		if need.Cmp(s.erc[c][accM]) > 0 {
			sig := "evm-backing-broken"
			if s.denomOfCtr(c) < 0 {
				sig = "evm-backing-broken-disabled-pair"
			}
			return &failure{"evm-native-backed", sig,
				fmt.Sprintf("pair %d (%s): coin supply %s needs %s locked, module EVM address holds %s", c, denoms[d], s.sup[d], need, s.erc[c][accM])}
		}
		// coins of the pair denom exist: nobody may hold an allowance over the tokens that back them
		if s.sup[d].Sign() > 0 {
			for a := 0; a < nAcc; a++ {
				if s.allow[c][accM][a].Sign() != 0 {
					return &failure{"no-allowance-over-locked-tokens", "allowance-over-locked-tokens",
						fmt.Sprintf("pair %d (%s): account %d may spend %s of the module's locked tokens, coin supply %s", c, denoms[d], a, s.allow[c][accM][a], s.sup[d])}
				}
			}
		}
	}
	// the keeper's own invariant functions (the EVM-native one is not registered)
	cctx, _ := ctx.CacheContext() // the keeper's EVM queries write nonces; discard them
	if msg, broken := evmutilkeeper.CosmosCoinsFullyBackedInvariant(w.bank, w.k)(cctx); broken {
		return &failure{"keeper-invariant-cosmos-coins-fully-backed", "cosmos-backing-broken", strings.TrimSpace(msg)}
	}
	if msg, broken := evmutilkeeper.BackedCoinsInvariant(w.bank, w.k)(cctx); broken {
		return &failure{"keeper-invariant-backed-coins(unregistered)", "evm-backing-broken", strings.TrimSpace(msg)}
	}
	return nil
}

// crossCheck compares the raw storage reads with the keeper's EVM query helpers
func (w *world) crossCheck(ctx sdkCtx, s *snap, c int, accs ...int) *failure {
	if c < 0 || c >= s.n {
		return nil
	}
	for _, a := range append(accs, accM) {
		if q := w.queryBalance(ctx, c, a); !eq(q, s.erc[c][a]) {
			return &failure{"raw-storage-equals-keeper-query", "raw-vs-query", fmt.Sprintf("balanceOf contract %d account %d: query %s raw %s", c, a, q, s.erc[c][a])}
		}
	}
	if isEvil(c) {
		return nil
	}
	if q := w.queryTotal(ctx, c); !eq(q, s.tot[c]) {
		return &failure{"raw-storage-equals-keeper-query", "raw-vs-query", fmt.Sprintf("totalSupply contract %d: query %s raw %s", c, q, s.tot[c])}
	}
	return nil
}

func sub(a **big.Int, x *big.Int) { *a = new(big.Int).Sub(*a, x) }
func add(a **big.Int, x *big.Int) { *a = new(big.Int).Add(*a, x) }

// monitor states the property for one message that SUCCEEDED, observed on the context it ran
// on (before, after).  The parameters in force when it ran are those of [before].
func (w *world) monitor(ctx sdkCtx, o op, before, after *snap, blockedAcc []bool) *failure {
	x := o.amount()
	exp := cloneSnap(before)
	kind := o.Kind
	bad := func(pred, sig, detail string) *failure { return &failure{pred, sig, detail} }
	// frame: the ledger of one contract is taken as observed (the ERC20 semantics themselves are the
	// business of the correspondence check), everything else must be untouched
	frame := func(c int) {
		if c >= 0 && c < before.n {
			exp.erc[c], exp.tot[c], exp.allow[c] = after.erc[c], after.tot[c], after.allow[c]
		}
	}
	noAllowance := func(c int) *failure {
		for a := 0; a < nAcc; a++ {
			if after.allow[c][accM][a].Sign() != 0 {
				return bad("no-allowance-over-locked-tokens", "allowance-over-locked-tokens",
					fmt.Sprintf("after the conversion account %d may spend %s of the module's tokens in contract %d", a, after.allow[c][accM][a], c))
			}
		}
		return nil
	}
	switch kind {
	case "c2e":
		c := before.pairOfDenom(o.D)
		if c < 0 {
			sig := "disabled-conversion-accepted"
			if isLook(o.D) {
				sig = "lookalike-denom-conversion-accepted"
			}
			return bad("conversion-of-a-denom-that-is-not-exactly-an-enabled-pair-denom-refused", sig,
				fmt.Sprintf("ConvertCoinToERC20 of %q succeeded (enabled pairs: %v)", denoms[o.D], before.pairs))
		}
		if c >= before.n {
			return bad("disabled-conversion-refused", "conversion-through-address-without-code-accepted", fmt.Sprint(c))
		}
		if isEvil(c) {
			return bad("approval-emitting-pair-refused", "approval-emitting-pair-converted", fmt.Sprintf("ConvertCoinToERC20 through contract %d", c))
		}
		if x.Sign() < 0 || (!o.Direct && x.Sign() == 0) {
			return bad("non-positive-amount-refused", "non-positive-amount-accepted", o.X)
		}
		if x.Cmp(before.bal[o.I][o.D]) > 0 {
			return bad("overdraw-refused", "overdraw-accepted", fmt.Sprintf("amount %s > balance %s", x, before.bal[o.I][o.D]))
		}
		u := new(big.Int).Set(x)
		if isBep3[o.D] {
			u.Mul(u, k10)
		}
		if o.R == accM && u.Sign() > 0 {
			// the coins are burned and the tokens never leave the module: the receiver is credited nothing
			return bad("conversion-value", "unlock-to-module-itself-accepted", fmt.Sprintf("amount %s", x))
		}
		if o.R == accZero {
			return bad("conversion-value", "unlock-to-zero-address-accepted", fmt.Sprintf("amount %s", x))
		}
		sub(&exp.bal[o.I][o.D], x)
		sub(&exp.sup[o.D], x)
		sub(&exp.erc[c][accM], u)
		add(&exp.erc[c][o.R], u)
		if f := noAllowance(c); f != nil {
			return f
		}
		if f := w.crossCheck(ctx, after, c, o.R); f != nil {
			return f
		}
	case "e2c":
		d := before.denomOfCtr(o.C)
		if d < 0 {
			return bad("disabled-conversion-refused", "disabled-conversion-accepted", fmt.Sprintf("ConvertERC20ToCoin of contract %d", o.C))
		}
		if o.C >= before.n {
			return bad("disabled-conversion-refused", "conversion-through-address-without-code-accepted", fmt.Sprint(o.C))
		}
		if isEvil(o.C) {
			return bad("approval-emitting-pair-refused", "approval-emitting-pair-converted", fmt.Sprintf("ConvertERC20ToCoin through contract %d", o.C))
		}
		if x.Sign() < 0 || (!o.Direct && x.Sign() == 0) {
			return bad("non-positive-amount-refused", "non-positive-amount-accepted", o.X)
		}
		mint := new(big.Int).Set(x)
		lock := new(big.Int).Set(x)
		if isBep3[d] {
			mint.Div(x, k10)
			lock.Mul(mint, k10)
			if mint.Sign() == 0 {
				return bad("dust-only-conversion-refused", "dust-only-conversion-accepted", o.X)
			}
		}
		if lock.Cmp(before.erc[o.C][o.I]) > 0 {
			return bad("overdraw-refused", "overdraw-accepted", fmt.Sprintf("lock %s > balance %s", lock, before.erc[o.C][o.I]))
		}
		if blockedAcc[o.R] {
			return bad("blocked-recipient-refused", "blocked-recipient-accepted", fmt.Sprint(o.R))
		}
		if o.I == accM && lock.Sign() > 0 {
			// a "lock" from the module's own address locks nothing
			return bad("conversion-value", "lock-from-module-itself-accepted", fmt.Sprintf("amount %s", x))
		}
		// dust smaller than one sdk unit is never taken from the user
		debit := new(big.Int).Sub(before.erc[o.C][o.I], after.erc[o.C][o.I])
		if debit.Cmp(lock) > 0 {
			return bad("dust-kept", "dust-taken", fmt.Sprintf("amount %s: user debited %s, coins minted %s (= %s tokens)", x, debit, mint, lock))
		}
		sub(&exp.erc[o.C][o.I], lock)
		add(&exp.erc[o.C][accM], lock)
		add(&exp.bal[o.R][d], mint)
		add(&exp.sup[d], mint)
		if f := noAllowance(o.C); f != nil {
			return f
		}
		if f := w.crossCheck(ctx, after, o.C, o.I); f != nil {
			return f
		}
	case "cos2e":
		if !before.isAllowed(o.D) {
			sig := "not-allowed-denom-accepted"
			if isLook(o.D) {
				sig = "lookalike-denom-conversion-accepted"
			}
			return bad("disabled-conversion-refused", sig, fmt.Sprintf("ConvertCosmosCoinToERC20 of %q succeeded", denoms[o.D]))
		}
		if x.Sign() < 0 || (!o.Direct && x.Sign() == 0) {
			return bad("non-positive-amount-refused", "non-positive-amount-accepted", o.X)
		}
		if x.Cmp(before.bal[o.I][o.D]) > 0 {
			return bad("overdraw-refused", "overdraw-accepted", fmt.Sprintf("amount %s > balance %s", x, before.bal[o.I][o.D]))
		}
		// the registered contract exists, has code, and the receiver's balance in it rose by the amount
		ca := after.reg[o.D]
		if ca < 0 {
			return bad("converted-coins-have-a-wrapper", "conversion-without-registered-contract",
				fmt.Sprintf("ConvertCosmosCoinToERC20 of %s%s succeeded, no ERC20 contract is registered for the denom", x, denoms[o.D]))
		}
		if !w.hasCode(ctx, w.ctr[ca].Address) {
			return bad("converted-coins-have-a-wrapper", "registered-contract-has-no-code",
				fmt.Sprintf("ConvertCosmosCoinToERC20 of %s%s: registered contract %s has no code", x, denoms[o.D], w.ctr[ca].Hex()))
		}
		if o.R == accZero {
			return bad("conversion-value", "mint-to-zero-address-accepted", fmt.Sprintf("amount %s", x))
		}
		c := before.reg[o.D]
		if c < 0 { // deployed on first use
			c = exp.addContract()
			exp.reg[o.D] = c
		}
		sub(&exp.bal[o.I][o.D], x)
		add(&exp.bal[accM][o.D], x)
		add(&exp.erc[c][o.R], x)
		add(&exp.tot[c], x)
		if f := w.crossCheck(ctx, after, after.reg[o.D], o.R); f != nil {
			return f
		}
	case "e2cos":
		c := before.reg[o.D]
		if c < 0 {
			return bad("disabled-conversion-refused", "unregistered-denom-accepted", "ConvertCosmosCoinFromERC20 of "+denoms[o.D])
		}
		if x.Sign() < 0 || (!o.Direct && x.Sign() == 0) {
			return bad("non-positive-amount-refused", "non-positive-amount-accepted", o.X)
		}
		if x.Cmp(before.erc[c][o.I]) > 0 {
			return bad("overdraw-refused", "overdraw-accepted", fmt.Sprintf("amount %s > balance %s", x, before.erc[c][o.I]))
		}
		if blockedAcc[o.R] {
			return bad("blocked-recipient-refused", "blocked-recipient-accepted", fmt.Sprint(o.R))
		}
		sub(&exp.erc[c][o.I], x)
		sub(&exp.tot[c], x)
		sub(&exp.bal[accM][o.D], x)
		add(&exp.bal[o.R][o.D], x)
		if f := w.crossCheck(ctx, after, c, o.I); f != nil {
			return f
		}
	case "xfer":
		if o.C < before.n && isEvil(o.C) {
			frame(o.C)
		} else if o.C < before.n {
			v := new(big.Int).Mod(x, u256)
			if isNR(o.C) && v.Cmp(before.erc[o.C][o.I]) > 0 {
				// the old-style token answers "false": the call succeeds and nothing moves
				break
			}
			sub(&exp.erc[o.C][o.I], v)
			add(&exp.erc[o.C][o.R], v)
			if v.Cmp(before.erc[o.C][o.I]) > 0 {
				return bad("erc20-ledger", "erc20-overdraw-accepted", o.X)
			}
		}
	case "mint":
		if o.C < before.n && isEvil(o.C) {
			frame(o.C)
		} else if o.C < before.n {
			if o.C >= nPair {
				return bad("erc20-ledger", "wrapper-minted-by-non-owner", fmt.Sprint(o.C))
			}
			v := new(big.Int).Mod(x, u256)
			add(&exp.erc[o.C][o.R], v)
			add(&exp.tot[o.C], v)
		}
	case "approve":
		frame(o.C)
		if o.C < before.n {
			// an approval moves no token
			exp.erc[o.C], exp.tot[o.C] = before.erc[o.C], before.tot[o.C]
		}
	case "xferfrom":
		frame(o.C)
		if o.C < nPair && !isEvil(o.C) && o.F == accM && o.I != accM && after.erc[o.C][accM].Cmp(before.erc[o.C][accM]) < 0 {
			return bad("locked-tokens-stay-locked", "locked-tokens-pulled-out",
				fmt.Sprintf("transferFrom by account %d took %s tokens of contract %d out of the module's EVM address", o.I,
					new(big.Int).Sub(before.erc[o.C][accM], after.erc[o.C][accM]), o.C))
		}
		if o.C < before.n && !eq(before.tot[o.C], after.tot[o.C]) {
			return bad("erc20-ledger", "transfer-changed-total-supply", fmt.Sprint(o.C))
		}
	case "send":
		if blockedAcc[o.R] {
			return bad("blocked-recipient-refused", "bank-send-to-blocked-accepted", fmt.Sprint(o.R))
		}
		sub(&exp.bal[o.I][o.D], x)
		add(&exp.bal[o.R][o.D], x)
	case "params":
		// only well-formed, duplicate-free lists may be accepted, and they are what is in force afterwards
		if why := rawInvalid(o); why != "" {
			return bad("malformed-parameters-refused", "malformed-params-accepted", fmt.Sprintf("%s: pairs %+v tokens %+v", why, o.Ps, o.Ts))
		}
		exp.pairs, exp.allowed = nil, nil
		for _, p := range o.Ps {
			exp.pairs = append(exp.pairs, [2]int{p.C, p.D})
		}
		for _, t := range o.Ts {
			exp.allowed = append(exp.allowed, t.D)
		}
	}
	if d := diff(exp, after); d != "" {
		sig := "inexact-delta-" + kind
		return &failure{"conversion-value", sig, d}
	}
	return w.backing(ctx, after)
}

// roundTrip: when op undoes the previous successful conversion prev (same
// parties swapped, the amount that was credited), it must succeed and restore
// every balance and supply observed before prev.
func roundTrip(prev op, prevBefore *snap, cur op, cls Class, curBefore, after *snap) *failure {
	inv, ok := inverseOf(prev, prevBefore)
	if !ok || inv.Kind != cur.Kind || inv.I != cur.I || inv.R != cur.R || inv.X != cur.X || inv.Direct != cur.Direct {
		return nil
	}
	if (cur.Kind == "c2e" || cur.Kind == "cos2e" || cur.Kind == "e2cos") && inv.D != cur.D {
		return nil
	}
	if cur.Kind == "e2c" && inv.C != cur.C {
		return nil
	}
	x := cur.amount()
	// cases in which the way back is legitimately closed
	if cur.Kind == "cos2e" && !curBefore.isAllowed(cur.D) {
		return nil
	}
	if cur.Kind == "e2c" && curBefore.denomOfCtr(cur.C) < 0 {
		return nil
	}
	if x.Sign() == 0 && (!cur.Direct || (cur.Kind == "e2c" && isBep3[curBefore.denomOfCtr(cur.C)])) {
		return nil
	}
	if cls != ClassOk {
		return &failure{"round-trip", "round-trip-refused", fmt.Sprintf("%s back after %s", cur.Kind, prev.Kind)}
	}
	exp := cloneSnap(prevBefore)
	// contracts deployed by the first leg stay deployed, with nothing in them
	for exp.n < after.n {
		exp.addContract()
	}
	exp.reg = append([]int(nil), after.reg...)
	if d := diff(exp, after); d != "" {
		return &failure{"round-trip", "round-trip-not-restored", d}
	}
	return nil
}

// ------------------------------------------------------------ Coq rendering

func coqPraw(p praw) string {
	a := fmt.Sprintf("(ACtr %s)", Nat(p.C))
	switch p.K {
	case "zero":
		a = "AZero"
	case "short", "pad21", "pad32":
		a = "ABadLen"
	}
	d := "None"
	if p.D >= 0 {
		d = fmt.Sprintf("(Some %s)", Nat(p.D))
	}
	return fmt.Sprintf("mkPraw %s %s", a, d)
}

func coqTraw(t traw) string {
	d, sy := "None", "None"
	if t.D >= 0 {
		d = fmt.Sprintf("(Some %s)", Nat(t.D))
	}
	if t.Sym >= 0 {
		sy = fmt.Sprintf("(Some %s)", Nat(t.Sym))
	}
	return fmt.Sprintf("mkTraw %s %s %s %s", d, Bool(t.Name), sy, Bool(t.Dec))
}

func coqOp(o op) string {
	x := Z(o.amount())
	switch o.Kind {
	case "c2e":
		return fmt.Sprintf("ConvCoinToERC20 %s %s %s %s %s", Bool(o.Direct), Nat(o.I), Nat(o.R), Nat(o.D), x)
	case "e2c":
		return fmt.Sprintf("ConvERC20ToCoin %s %s %s %s %s", Bool(o.Direct), Nat(o.I), Nat(o.R), Nat(o.C), x)
	case "cos2e":
		return fmt.Sprintf("ConvCosmosToERC20 %s %s %s %s %s", Bool(o.Direct), Nat(o.I), Nat(o.R), Nat(o.D), x)
	case "e2cos":
		return fmt.Sprintf("ConvCosmosFromERC20 %s %s %s %s %s", Bool(o.Direct), Nat(o.I), Nat(o.R), Nat(o.D), x)
	case "xfer":
		return fmt.Sprintf("ErcTransfer %s %s %s %s", Nat(o.C), Nat(o.I), Nat(o.R), x)
	case "mint":
		return fmt.Sprintf("ErcMint %s %s %s", Nat(o.C), Nat(o.R), x)
	case "approve":
		return fmt.Sprintf("ErcApprove %s %s %s %s", Nat(o.C), Nat(o.I), Nat(o.R), x)
	case "xferfrom":
		return fmt.Sprintf("ErcTransferFrom %s %s %s %s %s", Nat(o.C), Nat(o.I), Nat(o.F), Nat(o.R), x)
	case "send":
		return fmt.Sprintf("BankSend %s %s %s %s", Nat(o.I), Nat(o.R), Nat(o.D), x)
	case "params":
		ps := make([]string, len(o.Ps))
		for i, p := range o.Ps {
			ps[i] = coqPraw(p)
		}
		ts := make([]string, len(o.Ts))
		for i, t := range o.Ts {
			ts[i] = coqTraw(t)
		}
		return fmt.Sprintf("SetParams %s %s", List(ps), List(ts))
	}
	panic("coqOp: " + o.Kind)
}

func coqTx(o op) string {
	var it []string
	for _, m := range o.msgs() {
		it = append(it, coqOp(m))
	}
	return List(it)
}

func natList(xs []int) string {
	it := make([]string, len(xs))
	for i, x := range xs {
		it[i] = Nat(x)
	}
	return List(it)
}

func pairList(ps [][2]int) string {
	it := make([]string, len(ps))
	for i, p := range ps {
		it[i] = fmt.Sprintf("(%s, %s)", Nat(p[0]), Nat(p[1]))
	}
	return List(it)
}

func coqObs(cls Class, before, after *snap) string {
	var db, ds, de, dt, da, dr []string
	for a := 0; a < nAcc; a++ {
		for d := 0; d < nDenom; d++ {
			if !eq(before.bal[a][d], after.bal[a][d]) {
				db = append(db, fmt.Sprintf("(%s, %s, %s)", Nat(a), Nat(d), Z(after.bal[a][d])))
			}
		}
	}
	for d := 0; d < nDenom; d++ {
		if !eq(before.sup[d], after.sup[d]) {
			ds = append(ds, fmt.Sprintf("(%s, %s)", Nat(d), Z(after.sup[d])))
		}
		if before.reg[d] != after.reg[d] {
			dr = append(dr, fmt.Sprintf("(%s, %s)", Nat(d), Nat(after.reg[d])))
		}
	}
	zero := big.NewInt(0)
	for c := 0; c < after.n; c++ {
		for a := 0; a < nAcc; a++ {
			old := zero
			if c < before.n {
				old = before.erc[c][a]
			}
			if !eq(old, after.erc[c][a]) {
				de = append(de, fmt.Sprintf("(%s, %s, %s)", Nat(c), Nat(a), Z(after.erc[c][a])))
			}
			for sp := 0; sp < nAcc; sp++ {
				old := zero
				if c < before.n {
					old = before.allow[c][a][sp]
				}
				if !eq(old, after.allow[c][a][sp]) {
					da = append(da, fmt.Sprintf("(%s, (%s, %s), %s)", Nat(c), Nat(a), Nat(sp), Z(after.allow[c][a][sp])))
				}
			}
		}
		old := zero
		if c < before.n {
			old = before.tot[c]
		}
		if !eq(old, after.tot[c]) {
			dt = append(dt, fmt.Sprintf("(%s, %s)", Nat(c), Z(after.tot[c])))
		}
	}
	params := "None"
	if fmt.Sprint(before.pairs) != fmt.Sprint(after.pairs) || fmt.Sprint(before.allowed) != fmt.Sprint(after.allowed) {
		params = fmt.Sprintf("(Some (%s, %s))", pairList(after.pairs), natList(after.allowed))
	}
	return fmt.Sprintf("mkObs %s %s %s %s %s %s %s %s %s", cls.Coq(), List(db), List(ds), List(de), List(dt), List(da), List(dr), Nat(after.n), params)
}

func (w *world) blockedList() []bool {
	out := make([]bool, nAcc)
	for a := range out {
		out[a] = w.bank.BlockedAddr(w.addrs[a])
	}
	return out
}

func (w *world) coqEnvState(s *snap) string {
	env := fmt.Sprintf("(mk_envx %s %s %s %s %s %s %s %s)\n  %s", Nat(nAcc), Nat(nDenom), Nat(accM), Nat(accZero),
		BoolList(w.blockedList()), natList(pairDenom), BoolList(evilCtr), BoolList(isBep3), BoolList(nrCtr))
	brows := make([]string, nAcc)
	for a := range brows {
		brows[a] = ZList(s.bal[a])
	}
	crows := make([]string, s.n)
	for c := range crows {
		arows := make([]string, nAcc)
		for a := range arows {
			arows[a] = ZList(s.allow[c][a])
		}
		crows[c] = fmt.Sprintf("(%s, %s, %s)", Z(s.tot[c]), ZList(s.erc[c]), List(arows))
	}
	var rg []string
	for d := 0; d < nDenom; d++ {
		if s.reg[d] >= 0 {
			rg = append(rg, fmt.Sprintf("(%s, %s)", Nat(d), Nat(s.reg[d])))
		}
	}
	st := fmt.Sprintf("(mk_statex %s %s %s %s %s %s)", List(brows), ZList(s.sup), List(crows), List(rg), pairList(s.pairs), natList(s.allowed))
	return env + "\n  " + st
}

// ------------------------------------------------------------ history runner

type hist struct {
	Seed uint64 `json:"seed"`
	Idx  int    `json:"history"`
	Ops  []op   `json:"ops"`
}

const coqHeader = "From Kava Require Import Base.Prelude Model.Erc20 Model.Evmutil Model.EvmutilNR."

type runOut struct {
	ops    []op
	coq    string
	fail   *Failure
	okOps  int
	splits map[string]bool
}

// initialMints gives the users EVM-native tokens before the history starts
// (part of the initial state that the Coq history records).
func (w *world) initialMints() {
	type m struct {
		c, a int
		x    string
	}
	for _, e := range []m{
		{0, 0, "70000000005"}, {0, 1, "30000000000"}, {0, 2, "9999999999"},
		{1, 0, "1000"}, {1, 3, "25"},
		{2, 1, "20000000001"}, {2, 3, "123456789012345678"},
		{3, 0, "5000"}, {3, 2, "777"},
		// balances at and above the word boundaries: 20*10^18 and 2^64 + dust of the bnb token, 10^30 + 5
		// of the btcb token (both bep3: 18 against 8 decimals), 2^128 + 3 of the usdc token, 2^64 - 1 of
		// the old-style token
		{0, 3, "20000000000000000000"}, {0, 1, "18446744073709551616"}, {0, 1, "1234567891"},
		{2, 0, "1000000000000000000000000000005"},
		{1, 2, "340282366920938463463374607431768211459"},
		{4, 1, "18446744073709551615"},
	} {
		x, _ := new(big.Int).SetString(e.x, 10)
		if err := w.k.MintERC20(w.ctx, w.ctr[e.c], iaddr(w.eaddrs[e.a]), x); err != nil {
			panic(err)
		}
	}
}

// runHistory executes generated (ops == nil) or explicit operations.
func runHistory(seed uint64, idx, n int, ops []op, cnt *Counters) runOut {
	w := setup()
	w.initialMints()
	r := NewRng(seed, uint64(idx))
	out := runOut{splits: map[string]bool{}}
	prev := w.snapshot(w.ctx)
	header := w.coqEnvState(prev)
	blockedAcc := w.blockedList()
	g := &gen{r: r, w: w, cnt: cnt}
	var steps []string
	if ops != nil {
		n = len(ops)
	}
	var lastConv *op
	var lastConvBefore *snap
	mark := func(k string) {
		out.splits[k] = true
		if cnt != nil {
			cnt.Inc("split:" + k)
		}
	}
	// denoms whose first conversion (the deploying one) was rolled back after the deployment
	rolledBack := map[int]bool{}
	for i := 0; i < n; i++ {
		var o op
		if ops != nil {
			o = ops[i]
		} else {
			g.s = prev
			o = g.next()
		}
		var f *failure
		okMsgs := 0
		deployedInTx := -1
		cls, err, failedAt, last := w.exec(o, prev, func(ctx sdk.Context, k int, m op, before, after *snap) {
			okMsgs++
			if cnt != nil {
				cnt.Inc("op:" + m.Kind + ":ok")
			}
			if m.Kind == "cos2e" && before.reg[m.D] < 0 && after.reg[m.D] >= 0 {
				deployedInTx = m.D
			}
			if f == nil {
				f = w.monitor(ctx, m, before, after, blockedAcc)
			}
			splits(m, ClassOk, nil, before, after, blockedAcc, mark)
		})
		after := w.snapshot(w.ctx)
		out.ops = append(out.ops, o)
		msgs := o.msgs()
		if cls != ClassOk && failedAt >= 0 && failedAt < len(msgs) {
			m := msgs[failedAt]
			if cnt != nil {
				cnt.Inc("op:" + m.Kind + ":" + cls.String())
				if cls == ClassErr {
					cnt.Inc("err:" + errKind(err))
				}
			}
			if o.Kind != "tx" {
				splits(m, cls, err, prev, after, blockedAcc, mark)
			}
			// a conversion that deployed the wrapper and was then rolled back
			if m.Kind == "cos2e" && prev.isAllowed(m.D) && prev.reg[m.D] < 0 && errKind(err) == "evm-revert" {
				mark("cos2e:first-conversion-rolled-back-after-deploy")
				rolledBack[m.D] = true
			}
			if deployedInTx >= 0 {
				mark("tx:deploy-rolled-back-by-later-message")
				rolledBack[deployedInTx] = true
			}
		}
		if o.Kind == "tx" {
			if cnt != nil {
				cnt.Inc("tx:" + cls.String())
			}
			if cls == ClassOk {
				mark("tx:ok")
			} else if okMsgs > 0 {
				mark("tx:failed-after-successful-message")
			}
		}
		if cls == ClassOk {
			for _, m := range msgs {
				if m.Kind == "cos2e" && rolledBack[m.D] && prev.reg[m.D] < 0 {
					mark("cos2e:ok-after-rolled-back-first-conversion")
					delete(rolledBack, m.D)
				}
			}
		}
		steps = append(steps, fmt.Sprintf("(%s,\n    %s)", coqTx(o), coqObs(cls, prev, after)))
		switch {
		case cls == ClassPanic:
			f = &failure{"no-panic", "panic-in-" + o.Kind, fmt.Sprint(err)}
		case cls != ClassOk:
			// a failed (or disabled) operation / transaction changes nothing on either side; what its
			// messages did on the discarded context did not happen
			f = nil
			if d := diff(prev, after); d != "" {
				f = &failure{"failed-or-disabled-no-change", "failed-op-changed-state", d}
			} else {
				f = w.backing(w.ctx, after)
			}
		case f == nil:
			// what was observed on the cached context is what was committed
			if d := diff(last, after); d != "" {
				f = &failure{"committed-state", "commit-differs-from-execution", d}
			}
		}
		if f == nil && lastConv != nil && o.Kind != "tx" {
			f = roundTrip(*lastConv, lastConvBefore, o, cls, prev, after)
			if f == nil && cls == ClassOk {
				if inv, ok := inverseOf(*lastConv, lastConvBefore); ok && inv.Kind == o.Kind && inv.X == o.X && inv.I == o.I && inv.R == o.R {
					mark("roundtrip:" + lastConv.Kind)
				}
			}
		}
		if f != nil && out.fail == nil {
			out.fail = &Failure{History: idx, Step: i, Predicate: f.pred, Signature: f.sig, Detail: f.detail}
		}
		if cls == ClassOk {
			out.okOps++
		}
		if cls == ClassOk && o.Kind != "tx" && isConv(o.Kind) {
			oc := o
			lastConv, lastConvBefore = &oc, prev
			g.last, g.lastSnap = &oc, prev
		} else if cls == ClassOk {
			// anything else in between ends the round-trip window
			lastConv, g.last = nil, nil
		}
		prev = after
	}
	out.coq = fmt.Sprintf("mkHistX %s\n  %s", header, List(steps))
	return out
}

func errKind(err error) string {
	if err == nil {
		return "none"
	}
	m := err.Error()
	switch {
	case strings.Contains(m, "insufficient funds") || strings.Contains(m, "is smaller than"):
		return "insufficient-funds"
	case strings.Contains(m, "Approval event"):
		return "approval-event"
	case strings.Contains(m, "conversion not enabled") || strings.Contains(m, "not enabled"):
		return "not-enabled"
	case strings.Contains(m, "no erc20 contract found"):
		return "unregistered"
	case strings.Contains(m, "less than 1 native unit") || strings.Contains(m, "insufficient conversion amount"):
		return "dust-only"
	case strings.Contains(m, "not allowed to receive"):
		return "blocked-recipient"
	case strings.Contains(m, "invalid token balance"):
		return "balance-delta-check"
	case strings.Contains(m, "invalid parameter value") || strings.Contains(m, "failed to set parameter"):
		return "param-validation"
	case strings.Contains(m, "execution reverted") || strings.Contains(m, "evm"):
		return "evm-revert"
	case strings.Contains(m, "amount cannot be zero") || strings.Contains(m, "invalid coins") || strings.Contains(m, "negative") || strings.Contains(m, "invalid request"):
		return "validate-basic"
	}
	return "other"
}

// splits counts the proof-relevant case splits an operation exercised.
func splits(o op, cls Class, err error, before, after *snap, blockedAcc []bool, mark func(string)) {
	x := o.amount()
	ok := cls == ClassOk
	ek := errKind(err)
	if ok && isConv(o.Kind) {
		// amounts that no longer fit a machine word (for a bep3 pair: on the ERC20 side)
		v := new(big.Int).Set(x)
		if o.Kind == "c2e" && isBep3[o.D] {
			v.Mul(v, k10)
		}
		bep3 := (o.Kind == "c2e" && isBep3[o.D]) || (o.Kind == "e2c" && before.denomOfCtr(o.C) >= 0 && isBep3[before.denomOfCtr(o.C)])
		switch {
		case v.Cmp(pow2(64)) >= 0 && bep3:
			mark(o.Kind + ":ok:bep3-erc20-amount-at-or-above-2^64")
		case v.Cmp(pow2(64)) >= 0:
			mark(o.Kind + ":ok:amount-at-or-above-2^64")
		}
		if v.Cmp(pow2(128)) >= 0 {
			mark("amount:at-or-above-2^128-ok")
			mark("amount:at-or-above-2^128-ok:" + o.Kind) // counted, not part of the quality gate
		}
		if v.Cmp(pow2(63)) >= 0 && v.Cmp(pow2(64)) < 0 {
			mark("amount:between-2^63-and-2^64-ok")
		}
	}
	switch o.Kind {
	case "c2e":
		c := before.pairOfDenom(o.D)
		if isLook(o.D) && !ok {
			mark("c2e:lookalike-denom-refused")
		}
		switch {
		case c < 0:
			mark("c2e:disabled-refused")
		case !ok && ek == "approval-event":
			mark("c2e:approval-emitting-pair-refused")
		case ok && isBep3[o.D]:
			mark("c2e:ok:bep3")
		case ok:
			mark("c2e:ok:plain")
		case x.Cmp(before.bal[o.I][o.D]) > 0:
			mark("c2e:overdraw-refused")
		case ek == "balance-delta-check":
			mark("c2e:balance-delta-check-refused")
		case o.R == accZero:
			mark("c2e:zero-receiver-refused")
		}
		if ok && x.Sign() > 0 && eq(x, before.bal[o.I][o.D]) {
			mark("amount:exact-balance-ok")
		}
		if ok && x.Sign() == 0 {
			mark("amount:zero-direct-ok")
		}
	case "e2c":
		d := before.denomOfCtr(o.C)
		switch {
		case d < 0:
			mark("e2c:disabled-refused")
		case !ok && ek == "approval-event":
			mark("e2c:approval-emitting-pair-refused")
		case ok && isBep3[d] && new(big.Int).Mod(x, k10).Sign() > 0:
			mark("e2c:ok:bep3-with-dust")
		case ok && isBep3[d]:
			mark("e2c:ok:bep3-no-dust")
		case ok:
			mark("e2c:ok:plain")
		case ek == "dust-only":
			mark("e2c:dust-only-refused")
		case ek == "blocked-recipient":
			mark("e2c:blocked-recipient-refused")
		case ek == "evm-revert":
			mark("e2c:overdraw-refused")
		case ek == "balance-delta-check":
			mark("e2c:balance-delta-check-refused")
		}
		if ok && x.Sign() > 0 && eq(x, before.erc[o.C][o.I]) {
			mark("amount:exact-balance-ok")
		}
		if d >= 0 && isNR(o.C) && o.I != accM && x.Sign() > 0 && x.Cmp(u256) < 0 {
			// the old-style pair: initiators holding nothing, one unit less than the amount, exactly the amount
			hold := before.erc[o.C][o.I]
			switch {
			case ok && eq(x, hold):
				mark("e2c:old-style:exact-balance-ok")
			case ok:
				mark("e2c:old-style:ok")
			case !ok && hold.Sign() == 0:
				mark("e2c:old-style:zero-balance-initiator-refused")
			case !ok && eq(new(big.Int).Add(hold, big.NewInt(1)), x):
				mark("e2c:old-style:one-unit-short-refused")
			case !ok && x.Cmp(hold) > 0:
				mark("e2c:old-style:short-refused")
			}
		}
	case "cos2e":
		if isLook(o.D) && !ok {
			mark("cos2e:lookalike-denom-refused")
		}
		switch {
		case !before.isAllowed(o.D):
			mark("cos2e:not-allowed-refused")
		case ok && before.reg[o.D] < 0:
			mark("cos2e:ok:deploy")
		case ok:
			mark("cos2e:ok:existing")
		case x.Cmp(before.bal[o.I][o.D]) > 0:
			mark("cos2e:overdraw-refused")
		case o.R == accZero && ek == "evm-revert":
			mark("cos2e:zero-receiver-refused")
		}
		if ok && x.Sign() == 0 {
			mark("amount:zero-direct-ok")
		}
		if ok && x.Sign() > 0 && eq(x, before.bal[o.I][o.D]) {
			mark("amount:exact-balance-ok")
		}
	case "e2cos":
		c := before.reg[o.D]
		if isLook(o.D) && !ok {
			mark("e2cos:lookalike-denom-refused")
		}
		switch {
		case c < 0:
			mark("e2cos:unregistered-refused")
		case ok && !before.isAllowed(o.D):
			mark("e2cos:ok:denom-no-longer-allowed")
		case ok:
			mark("e2cos:ok")
		case x.Cmp(before.erc[c][o.I]) > 0:
			mark("e2cos:overdraw-refused")
		case ek == "blocked-recipient":
			mark("e2cos:blocked-recipient-refused")
		}
		if ok && o.R == accZero {
			mark("e2cos:ok:coins-to-zero-sdk-address")
		}
	case "xfer":
		if ok && o.C < before.n && o.R == accM && x.Sign() > 0 {
			mark("xfer:to-module-address")
		}
		if o.C < before.n && (x.Sign() < 0 || x.Cmp(u256) >= 0) {
			mark("xfer:uint256-wrap")
		}
		if ok && o.C >= before.n {
			mark("xfer:no-code")
		}
		if ok && isEvil(o.C) {
			mark("xfer:approval-emitting-token")
		}
		if ok && isNR(o.C) && new(big.Int).Mod(x, u256).Cmp(before.erc[o.C][o.I]) > 0 {
			mark("xfer:old-style:returned-false")
		}
		if !ok && o.R == accZero && o.C < before.n && !isEvil(o.C) {
			mark("xfer:zero-address-refused")
		}
	case "mint":
		if !ok && o.C < nPair {
			mark("mint:total-supply-overflow-refused")
		}
		if !ok && o.C >= nPair && o.C < before.n {
			mark("mint:wrapper-not-owner-refused")
		}
	case "approve":
		if ok && o.C < before.n {
			mark("approve:ok")
		}
		if !ok {
			mark("approve:refused")
		}
	case "xferfrom":
		if o.C < before.n {
			moved := !eq(before.erc[o.C][o.F], after.erc[o.C][o.F])
			switch {
			case ok && moved && eq(before.allow[o.C][o.F][o.I], maxU256):
				mark("xferfrom:ok:infinite-allowance")
			case ok && moved:
				mark("xferfrom:ok:spends-allowance")
			case !ok:
				mark("xferfrom:refused")
			}
			if o.F == accM && o.C < nPair && before.erc[o.C][accM].Sign() > 0 && x.Sign() > 0 {
				mark("xferfrom:from-module-attempt")
			}
			if ok && moved && isEvil(o.C) {
				mark("xferfrom:approval-emitting-token-pull")
			}
		}
	case "send":
		if !ok && blockedAcc[o.R] && x.Sign() > 0 {
			mark("send:blocked-recipient-refused")
		}
	case "params":
		why := rawInvalid(o)
		if ok && o.Direct {
			mark("params:ok:keeper-set-params")
		}
		if !ok {
			for _, p := range o.Ps {
				if p.K == "pad21" || p.K == "pad32" {
					mark("params:padded-pair-address-refused")
					if p.C < nPair && before.denomOfCtr(p.C) >= 0 && before.denomOfCtr(p.C) != p.D {
						mark("params:padded-copy-of-enabled-pair-under-another-denom-refused")
					}
				}
			}
		}
		switch {
		case ok:
			mark("params:ok")
		case strings.HasPrefix(why, "pair address twice"):
			mark("params:duplicate-address-refused")
		case strings.HasPrefix(why, "pair denom twice"):
			mark("params:duplicate-denom-refused")
		case strings.HasPrefix(why, "pair"):
			mark("params:malformed-pair-refused")
		case strings.HasPrefix(why, "token"):
			mark("params:malformed-or-duplicate-token-refused")
		}
	}
}

var allSplits = []string{
	"c2e:disabled-refused", "c2e:ok:bep3", "c2e:ok:plain", "c2e:overdraw-refused", "c2e:balance-delta-check-refused",
	"e2c:disabled-refused", "e2c:ok:bep3-with-dust", "e2c:ok:bep3-no-dust", "e2c:ok:plain", "e2c:dust-only-refused",
	"e2c:blocked-recipient-refused", "e2c:overdraw-refused", "e2c:balance-delta-check-refused",
	"cos2e:not-allowed-refused", "cos2e:ok:deploy", "cos2e:ok:existing", "cos2e:overdraw-refused",
	"e2cos:unregistered-refused", "e2cos:ok", "e2cos:ok:denom-no-longer-allowed", "e2cos:overdraw-refused", "e2cos:blocked-recipient-refused",
	"xfer:to-module-address", "xfer:uint256-wrap", "mint:total-supply-overflow-refused", "mint:wrapper-not-owner-refused",
	"send:blocked-recipient-refused",
	"amount:exact-balance-ok", "amount:zero-direct-ok",
	"roundtrip:cos2e", "roundtrip:e2cos", "roundtrip:c2e", "roundtrip:e2c",
	"c2e:lookalike-denom-refused", "cos2e:lookalike-denom-refused", "e2cos:lookalike-denom-refused",
	// the zero address, rolled-back first conversions, transactions
	"cos2e:zero-receiver-refused", "c2e:zero-receiver-refused", "xfer:zero-address-refused",
	"cos2e:first-conversion-rolled-back-after-deploy", "tx:deploy-rolled-back-by-later-message",
	"cos2e:ok-after-rolled-back-first-conversion", "tx:ok", "tx:failed-after-successful-message",
	// the Approval-emitting pair and allowances
	"e2c:approval-emitting-pair-refused", "c2e:approval-emitting-pair-refused", "xfer:approval-emitting-token",
	"approve:ok", "approve:refused", "xferfrom:ok:spends-allowance", "xferfrom:ok:infinite-allowance", "xferfrom:refused",
	"xferfrom:from-module-attempt", "xferfrom:approval-emitting-token-pull",
	// parameter changes
	"params:ok", "params:ok:keeper-set-params", "params:duplicate-address-refused", "params:duplicate-denom-refused", "params:malformed-pair-refused",
	"params:malformed-or-duplicate-token-refused",
	"params:padded-pair-address-refused", "params:padded-copy-of-enabled-pair-under-another-denom-refused",
	// amounts at and above the word boundaries
	"e2c:ok:bep3-erc20-amount-at-or-above-2^64", "c2e:ok:bep3-erc20-amount-at-or-above-2^64",
	"e2c:ok:amount-at-or-above-2^64", "c2e:ok:amount-at-or-above-2^64", "cos2e:ok:amount-at-or-above-2^64", "e2cos:ok:amount-at-or-above-2^64",
	"amount:at-or-above-2^128-ok", "amount:between-2^63-and-2^64-ok",
	// the old-style pair (transfer returns false instead of reverting)
	"e2c:old-style:exact-balance-ok", "e2c:old-style:ok", "e2c:old-style:zero-balance-initiator-refused",
	"e2c:old-style:one-unit-short-refused", "e2c:old-style:short-refused", "xfer:old-style:returned-false",
}

func run(o Opts) (*Result, error) {
	n := o.Len
	if n == 0 {
		n = defaultLen
	}
	res := &Result{Property: "C10", Seed: o.Seed,
		Rule: "histories of " + fmt.Sprint(n) + " transactions (the four evmutil conversions through ValidateBasic + the app's message router or the keeper; ERC20 transfer/mint/approve/transferFrom in the real EVM on the compiled OpenZeppelin contracts, on an Approval-emitting token and on an old-style token whose transfer returns false instead of reverting (initiators holding nothing, one unit less than the amount, exactly the amount); bank MsgSend; parameter-change proposals, well-formed and malformed, through the governance handler; multi-message transactions; receivers include the module, a blocked module account and the zero address; amounts and balances on both sides include the word boundaries 2^63, 2^64, 2^128, 20*10^18 and 10^30 with and without dust; malformed proposals include pair addresses of 19, 21 and 32 bytes, among them a zero-padded copy of an enabled pair's address under another denom) generated from splitmix64(seed, history index) on a fresh app.TestApp; every transaction runs on a cached context discarded on failure; a history is non-trivial when it contains at least one successful conversion in each family (EVM-native and cosmos-native) and at least one refused conversion; distinct by hash of the operation list"}
	cnt := NewCounters()

	if o.Replay != "" {
		bz, err := os.ReadFile(o.Replay)
		if err != nil {
			return nil, err
		}
		var h hist
		if err := json.Unmarshal(bz, &h); err != nil {
			return nil, err
		}
		out := runHistory(h.Seed, h.Idx, 0, h.Ops, cnt)
		name, err := WriteShard(o.OutDir, 0, coqHeader, []string{out.coq}, "mismatches_x")
		if err != nil {
			return nil, err
		}
		res.Shards = []string{name}
		res.HistIndex = []HistRef{{Shard: 0, Pos: 0, Hist: h.Idx, Desc: MustJSON(h)}}
		res.Histories, res.Evaluations = 1, len(h.Ops)
		if out.fail != nil {
			out.fail.Replay = MustJSON(h)
			res.Failures = append(res.Failures, *out.fail)
		}
		res.Counters = cnt.Map()
		return res, nil
	}

	outs := make([]runOut, o.N)
	var shrunk int32
	const maxShrink = 4
	ParallelFor(o.N, o.Workers, func(i int) {
		out := runHistory(o.Seed, i, n, nil, cnt)
		if out.fail != nil && atomic.AddInt32(&shrunk, 1) > maxShrink {
			// enough shrunk examples: the remaining failing histories are reported as they are
			out.fail.Replay = MustJSON(hist{o.Seed, i, out.ops[:out.fail.Step+1]})
		} else if out.fail != nil {
			sig := out.fail.Signature
			fails := func(cand []op) bool {
				f := runHistory(o.Seed, i, 0, cand, nil).fail
				return f != nil && f.Signature == sig
			}
			small := Shrink(out.ops[:out.fail.Step+1], fails)
			if f2 := runHistory(o.Seed, i, 0, small, nil).fail; f2 != nil {
				f2.History = i
				f2.Replay = MustJSON(hist{o.Seed, i, small})
				out.fail = f2
			} else {
				out.fail.Replay = MustJSON(hist{o.Seed, i, out.ops[:out.fail.Step+1]})
			}
		}
		outs[i] = out
	})

	seen := map[string]bool{}
	perShard := 40
	var cases []string
	shard := 0
	flush := func() error {
		if len(cases) == 0 {
			return nil
		}
		name, err := WriteShard(o.OutDir, shard, coqHeader, cases, "mismatches_x")
		if err != nil {
			return err
		}
		res.Shards = append(res.Shards, name)
		shard++
		cases = nil
		return nil
	}
	for i, ot := range outs {
		res.Histories++
		for _, p := range ot.ops {
			res.Evaluations += len(p.msgs())
		}
		h := hist{o.Seed, i, ot.ops}
		key := string(MustJSON(ot.ops))
		evmOk, cosOk, refused := false, false, false
		for k := range ot.splits {
			switch {
			case strings.HasPrefix(k, "c2e:ok") || strings.HasPrefix(k, "e2c:ok"):
				evmOk = true
			case strings.HasPrefix(k, "cos2e:ok") || strings.HasPrefix(k, "e2cos:ok"):
				cosOk = true
			case strings.HasSuffix(k, "-refused"):
				refused = true
			}
		}
		if evmOk && cosOk && refused && !seen[key] {
			seen[key] = true
			res.DistinctNontrivial++
		}
		if i < 2 {
			res.Samples = append(res.Samples, h)
		}
		res.HistIndex = append(res.HistIndex, HistRef{Shard: shard, Pos: len(cases), Hist: i, Desc: MustJSON(h)})
		cases = append(cases, ot.coq)
		if len(cases) == perShard {
			if err := flush(); err != nil {
				return nil, err
			}
		}
		if ot.fail != nil {
			res.Failures = append(res.Failures, *ot.fail)
		}
	}
	if err := flush(); err != nil {
		return nil, err
	}
	res.Counters = cnt.Map()
	okTotal, all := 0, 0
	for k, v := range res.Counters {
		if strings.HasPrefix(k, "op:") {
			all += v
			if strings.HasSuffix(k, ":ok") {
				okTotal += v
			}
		}
	}
	res.Extra = map[string]any{"ops_ok": okTotal, "ops_total": all}
	for _, k := range allSplits {
		if res.Counters["split:"+k] == 0 {
			res.QualityGate = append(res.QualityGate, k)
		}
	}
	return res, nil
}
