package c10

// Operations of a C10 history, their execution on the real keepers / msg
// servers / EVM / governance proposal handler, and the generators.

import (
	. "kavaverif/lib"

	"fmt"
	"math/big"

	sdkmath "cosmossdk.io/math"
	sdk "github.com/cosmos/cosmos-sdk/types"
	banktypes "github.com/cosmos/cosmos-sdk/x/bank/types"
	govv1beta1 "github.com/cosmos/cosmos-sdk/x/gov/types/v1beta1"
	paramproposal "github.com/cosmos/cosmos-sdk/x/params/types/proposal"
	"github.com/ethereum/go-ethereum/common"

	evmutiltypes "github.com/kava-labs/kava/x/evmutil/types"
)

// praw: one entry of a proposed EnabledConversionPairs value, possibly malformed
type praw struct {
	K string `json:"k"` // ctr | zero | short (19 bytes) | pad21 | pad32 (the 20 bytes left-padded with zeros to 21 / 32 bytes)
	C int    `json:"c"` // contract id (>= noCodeBase: an address without code)
	D int    `json:"d"` // denom index; negative: the (-1-d)-th invalid denom string
}

// traw: one entry of a proposed AllowedCosmosDenoms value, possibly malformed
type traw struct {
	D    int  `json:"d"`    // denom index; negative: an invalid denom string
	Name bool `json:"name"` // name not empty
	Sym  int  `json:"sym"`  // the symbol is "k"+denoms[sym]; -1: empty
	Dec  bool `json:"dec"`  // decimals <= 255
	Dv   int  `json:"dv,omitempty"` // valid decimals value is 6 + dv (metadata of a contract deployed later; an existing contract keeps its own)
}

var invalidDenoms = []string{"1x", "a", "", "has space", "x!y"}

func denomString(d int) string {
	if d >= 0 {
		return denoms[d]
	}
	return invalidDenoms[(-1-d)%len(invalidDenoms)]
}

type op struct {
	Kind   string `json:"kind"` // c2e | e2c | cos2e | e2cos | xfer | mint | send | params | approve | xferfrom | tx
	Direct bool   `json:"direct,omitempty"`
	I      int    `json:"i"`           // initiator / sender / owner (approve) / spender (xferfrom)
	R      int    `json:"r"`           // receiver / to / spender (approve)
	F      int    `json:"f,omitempty"` // from (xferfrom)
	D      int    `json:"d"`           // denom index (c2e, cos2e, e2cos, send)
	C      int    `json:"c"`           // contract id (e2c, xfer, mint, approve, xferfrom)
	X      string `json:"x"`           // amount
	Ps     []praw `json:"ps,omitempty"`
	Ts     []traw `json:"ts,omitempty"`
	Sub    []op   `json:"sub,omitempty"` // tx: the messages of one transaction
}

func (o op) amount() *big.Int {
	x, ok := new(big.Int).SetString(o.X, 10)
	if !ok {
		return big.NewInt(0)
	}
	return x
}

// msgs: the operations a history step executes atomically
func (o op) msgs() []op {
	if o.Kind == "tx" {
		return o.Sub
	}
	return []op{o}
}

func isConv(k string) bool { return k == "c2e" || k == "e2c" || k == "cos2e" || k == "e2cos" }

var u256 = new(big.Int).Lsh(big.NewInt(1), 256)
var maxU256 = new(big.Int).Sub(u256, big.NewInt(1))

func iaddr(a common.Address) evmutiltypes.InternalEVMAddress {
	return evmutiltypes.NewInternalEVMAddress(a)
}

// representable says whether the amount fits an sdkmath.Int (|x| < 2^256); a
// message cannot carry anything else.
func representable(x *big.Int) bool { return x.BitLen() <= 256 }

// route delivers a message the way baseapp does: ValidateBasic, then the handler the
// module registered with the app's MsgServiceRouter.
func (w *world) route(ctx sdk.Context, msg sdk.Msg) error {
	if err := msg.ValidateBasic(); err != nil {
		return err
	}
	h := w.tApp.MsgServiceRouter().Handler(msg)
	if h == nil {
		panic(fmt.Sprintf("no handler for %T", msg))
	}
	_, err := h(ctx, msg)
	return err
}

func (w *world) rawPairs(ps []praw) evmutiltypes.ConversionPairs {
	out := evmutiltypes.ConversionPairs{}
	for _, p := range ps {
		var bz []byte
		switch p.K {
		case "zero":
			bz = make([]byte, 20)
		case "short":
			bz = w.contractAddr(p.C).Bytes()[:19]
		case "pad21":
			// one zero byte in front: ConversionPair.GetAddress (common.BytesToAddress) crops it away again
			bz = append(make([]byte, 1), w.contractAddr(p.C).Bytes()...)
		case "pad32":
			// the address as a left-padded 32 byte ABI word
			bz = append(make([]byte, 12), w.contractAddr(p.C).Bytes()...)
		default:
			bz = w.contractAddr(p.C).Bytes()
		}
		out = append(out, evmutiltypes.ConversionPair{KavaERC20Address: bz, Denom: denomString(p.D)})
	}
	return out
}

func rawToks(ts []traw) evmutiltypes.AllowedCosmosCoinERC20Tokens {
	out := evmutiltypes.AllowedCosmosCoinERC20Tokens{}
	for _, t := range ts {
		tok := evmutiltypes.AllowedCosmosCoinERC20Token{CosmosDenom: denomString(t.D), Decimals: 6}
		if t.Name {
			tok.Name = "Kava-wrapped " + denomString(t.D)
		}
		if t.Sym >= 0 {
			tok.Symbol = "k" + denoms[t.Sym]
		}
		tok.Decimals = uint32(6 + t.Dv)
		if !t.Dec {
			tok.Decimals = 256
		}
		out = append(out, tok)
	}
	return out
}

// proposeParams runs a parameter-change proposal for both keys of the evmutil subspace through
// the handler governance executes (x/params proposal handler -> Subspace.Update -> the validators
// of ParamSetPairs).
func (w *world) proposeParams(ctx sdk.Context, ps []praw, ts []traw) error {
	amino := w.tApp.LegacyAmino()
	pj, err := amino.MarshalJSON(w.rawPairs(ps))
	if err != nil {
		return err
	}
	tj, err := amino.MarshalJSON(rawToks(ts))
	if err != nil {
		return err
	}
	var content govv1beta1.Content = paramproposal.NewParameterChangeProposal("pairs", "change", []paramproposal.ParamChange{
		{Subspace: evmutiltypes.ModuleName, Key: string(evmutiltypes.KeyEnabledConversionPairs), Value: string(pj)},
		{Subspace: evmutiltypes.ModuleName, Key: string(evmutiltypes.KeyAllowedCosmosDenoms), Value: string(tj)},
	})
	if err := content.ValidateBasic(); err != nil {
		return err
	}
	h := w.tApp.GetGovKeeper().LegacyRouter().GetRoute(content.ProposalRoute())
	return h(ctx, content)
}

// execMsg runs one message / call on the given (cached) context.
func (w *world) execMsg(ctx sdk.Context, o op) error {
	x := o.amount()
	if isConv(o.Kind) && !representable(x) {
		return fmt.Errorf("amount does not fit sdkmath.Int")
	}
	erc := evmutiltypes.ERC20MintableBurnableContract.ABI
	switch o.Kind {
	case "c2e":
		coin := sdk.Coin{Denom: denoms[o.D], Amount: sdkmath.NewIntFromBigInt(x)}
		if o.Direct {
			return w.k.ConvertCoinToERC20(ctx, w.addrs[o.I], iaddr(w.eaddrs[o.R]), coin)
		}
		return w.route(ctx, &evmutiltypes.MsgConvertCoinToERC20{Initiator: w.addrs[o.I].String(), Receiver: w.eaddrs[o.R].Hex(), Amount: &coin})
	case "e2c":
		amt := sdkmath.NewIntFromBigInt(x)
		if o.Direct {
			return w.k.ConvertERC20ToCoin(ctx, iaddr(w.eaddrs[o.I]), w.addrs[o.R], w.contractAddr(o.C), amt)
		}
		return w.route(ctx, &evmutiltypes.MsgConvertERC20ToCoin{Initiator: w.eaddrs[o.I].Hex(), Receiver: w.addrs[o.R].String(),
			KavaERC20Address: w.contractAddr(o.C).Hex(), Amount: amt})
	case "cos2e":
		coin := sdk.Coin{Denom: denoms[o.D], Amount: sdkmath.NewIntFromBigInt(x)}
		if o.Direct {
			return w.k.ConvertCosmosCoinToERC20(ctx, w.addrs[o.I], iaddr(w.eaddrs[o.R]), coin)
		}
		return w.route(ctx, &evmutiltypes.MsgConvertCosmosCoinToERC20{Initiator: w.addrs[o.I].String(), Receiver: w.eaddrs[o.R].Hex(), Amount: &coin})
	case "e2cos":
		coin := sdk.Coin{Denom: denoms[o.D], Amount: sdkmath.NewIntFromBigInt(x)}
		if o.Direct {
			return w.k.ConvertCosmosCoinFromERC20(ctx, iaddr(w.eaddrs[o.I]), w.addrs[o.R], coin)
		}
		return w.route(ctx, &evmutiltypes.MsgConvertCosmosCoinFromERC20{Initiator: w.eaddrs[o.I].Hex(), Receiver: w.addrs[o.R].String(), Amount: &coin})
	case "xfer":
		// a plain ERC20 transfer by the holder (msg.sender = from)
		_, err := w.k.CallEVM(ctx, erc, w.eaddrs[o.I], w.contractAddr(o.C), "transfer", w.eaddrs[o.R], x)
		return err
	case "mint":
		// the owner of an EVM-native token mints; the wrappers are owned by the module,
		// so nobody else can mint them (the attempt comes from user 0)
		from := evmutiltypes.ModuleEVMAddress
		if o.C >= nPair && o.C < len(w.ctr) {
			from = w.eaddrs[0]
		}
		_, err := w.k.CallEVM(ctx, erc, from, w.contractAddr(o.C), "mint", w.eaddrs[o.R], x)
		return err
	case "approve":
		_, err := w.k.CallEVM(ctx, erc, w.eaddrs[o.I], w.contractAddr(o.C), "approve", w.eaddrs[o.R], x)
		return err
	case "xferfrom":
		_, err := w.k.CallEVM(ctx, erc, w.eaddrs[o.I], w.contractAddr(o.C), "transferFrom", w.eaddrs[o.F], w.eaddrs[o.R], x)
		return err
	case "send":
		return w.route(ctx, &banktypes.MsgSend{FromAddress: w.addrs[o.I].String(), ToAddress: w.addrs[o.R].String(),
			Amount: sdk.Coins{sdk.Coin{Denom: denoms[o.D], Amount: sdkmath.NewIntFromBigInt(x)}}})
	case "params":
		if o.Direct && rawInvalid(o) == "" {
			// Keeper.SetParams -> Subspace.SetParamSet runs the same validators and panics on a value
			// they refuse; it is only ever called with validated values (genesis, migrations), so only
			// well-formed proposals take this path here
			w.k.SetParams(ctx, evmutiltypes.NewParams(w.rawPairs(o.Ps), rawToks(o.Ts)))
			return nil
		}
		return w.proposeParams(ctx, o.Ps, o.Ts)
	}
	panic("unknown op kind " + o.Kind)
}

// exec runs the messages of one history step atomically, like a transaction: one cached
// context, written only if every message succeeded.  after(k, before, after) is called with the
// observations around every message that succeeded (taken on the cached context).
// failedAt is the index of the message that failed (-1: none).
func (w *world) exec(o op, start *snap, each func(ctx sdk.Context, k int, m op, before, after *snap)) (cls Class, err error, failedAt int, last *snap) {
	n0 := len(w.ctr)
	failedAt = -1
	last = start
	cls, err = Atomically(w.ctx, func(ctx sdk.Context) error {
		for k, m := range o.msgs() {
			failedAt = k
			if e := w.execMsg(ctx, m); e != nil {
				return e
			}
			after := w.snapshot(ctx)
			if each != nil {
				each(ctx, k, m, last, after)
			}
			last = after
		}
		failedAt = -1
		return nil
	})
	if cls != ClassOk {
		w.forget(n0)
	}
	return
}

// ------------------------------------------------------------ generation

type gen struct {
	r   *Rng
	w   *world
	s   *snap
	cnt *Counters
	// last successful conversion, for round trips
	last     *op
	lastSnap *snap
}

func (g *gen) user() int { return g.r.Intn(nUsers) }

// anyAcc picks a receiver: mostly users, sometimes the module, the blocked module account or
// the zero address
func (g *gen) anyAcc() int {
	switch g.r.Pick(73, 9, 9, 9) {
	case 0:
		return g.user()
	case 1:
		return accM
	case 2:
		return accHard
	default:
		return accZero
	}
}

// holder picks a user with a positive value of f, or any user
func (g *gen) holder(f func(a int) *big.Int) int {
	var c []int
	for a := 0; a < nUsers; a++ {
		if f(a).Sign() > 0 {
			c = append(c, a)
		}
	}
	if len(c) == 0 || g.r.Chance(1, 8) {
		return g.user()
	}
	return c[g.r.Intn(len(c))]
}

// amount draws from the mixture; avail is the initiator's relevant balance,
// unit is 10^10 for ERC20 amounts of bep3 pairs and 1 otherwise.
func (g *gen) amount(avail *big.Int, unit *big.Int, allowNeg bool) *big.Int {
	r := g.r
	x := new(big.Int)
	one := big.NewInt(1)
	switch r.Pick(2, 13, 12, 5, 6, 14, 18, 3, 2, 16, 9) {
	case 10: // the machine-word boundaries: 2^63, 2^64, 2^128 (and 20*10^18, 10^30), preferably ones the balance covers
		x.Set(g.boundary(avail, unit))
	case 0:
		x.SetInt64(0)
	case 1: // small
		x.SetInt64(int64(1 + r.Intn(20)))
		if avail.Sign() > 0 && avail.Cmp(big.NewInt(20)) < 0 && r.Chance(3, 4) {
			x.SetInt64(1 + r.Int63n(avail.Int64()))
		}
	case 2: // the exact balance
		x.Set(avail)
	case 3:
		x.Add(avail, one)
	case 4:
		x.Sub(avail, big.NewInt(int64(1+r.Intn(2))))
	case 5: // around multiples of the unit (dust boundaries)
		k := int64(r.Intn(4))
		if unit.Cmp(one) == 0 {
			k += 2
		}
		x.Mul(unit, big.NewInt(k))
		x.Add(x, big.NewInt(int64(r.Intn(5)-2)))
		if r.Chance(1, 3) {
			x.Add(x, big.NewInt(r.Int63n(9_999_999_999)))
		}
	case 6: // a fraction of the balance
		if avail.Sign() > 0 {
			x.Mul(avail, big.NewInt(int64(1+r.Intn(9))))
			x.Div(x, big.NewInt(10))
		} else {
			x.SetInt64(int64(r.Intn(3)))
		}
	case 7: // huge
		x = r.BigBits(200 + r.Intn(57))
		if r.Chance(1, 3) {
			x.Sub(u256, big.NewInt(int64(1+r.Intn(3))))
		}
	case 8: // negative
		if allowNeg {
			x.SetInt64(-int64(1 + r.Intn(5)))
		} else {
			x.SetInt64(1)
		}
	default: // the largest whole number of units not above the balance, plus dust
		if unit.Cmp(one) > 0 && avail.Cmp(unit) >= 0 {
			q := new(big.Int).Div(avail, unit)
			if q.Cmp(one) > 0 && r.Chance(1, 2) {
				q.Add(one, bigBelow(r, q))
			}
			x.Mul(q, unit)
			if r.Chance(1, 2) {
				d := new(big.Int).Sub(avail, x)
				if d.Sign() > 0 {
					x.Add(x, new(big.Int).Mod(big.NewInt(r.Int63n(9_999_999_999)), new(big.Int).Add(d, one)))
				}
			}
		} else if avail.Sign() > 0 {
			x.SetInt64(1 + r.Int63n(1+new(big.Int).Mod(avail, big.NewInt(1<<40)).Int64()))
			if x.Cmp(avail) > 0 {
				x.Set(avail)
			}
		} else {
			x.SetInt64(1)
		}
	}
	if !allowNeg && x.Sign() < 0 {
		x.SetInt64(0)
	}
	return x
}

// bigBelow draws from [0, n) (n > 0)
func bigBelow(r *Rng, n *big.Int) *big.Int {
	return new(big.Int).Mod(r.BigBits(n.BitLen()+16), n)
}

func pow2(n uint) *big.Int { return new(big.Int).Lsh(big.NewInt(1), n) }

// wordBoundaries: where an amount stops fitting int64 / uint64 / two words, and two round figures
// above 2^64 (20 tokens of an 18-decimal asset, 10^30)
var wordBoundaries = []*big.Int{pow2(63), pow2(64), pow2(128),
	new(big.Int).Mul(big.NewInt(20), Pow10(18)), Pow10(30)}

// boundary draws an amount at or just around a word boundary: the boundary itself, one less, a few
// more, plus dust below one unit, plus whole units; boundaries the balance covers are preferred.
func (g *gen) boundary(avail, unit *big.Int) *big.Int {
	r := g.r
	var cov []*big.Int
	for _, b := range wordBoundaries {
		if b.Cmp(avail) <= 0 {
			cov = append(cov, b)
		}
	}
	b := wordBoundaries[r.Intn(len(wordBoundaries))]
	if len(cov) > 0 && r.Chance(5, 6) {
		b = cov[r.Intn(len(cov))]
	}
	x := new(big.Int).Set(b)
	switch r.Pick(25, 20, 15, 20, 20) {
	case 0:
	case 1:
		x.Sub(x, big.NewInt(int64(1+r.Intn(2))))
	case 2:
		x.Add(x, big.NewInt(int64(1+r.Intn(3))))
	case 3: // dust of less than 10^10 on top
		x.Add(x, big.NewInt(r.Int63n(9_999_999_999)))
	default: // the next whole number of units at or above the boundary, with or without dust
		m := new(big.Int).Mod(x, unit)
		if m.Sign() > 0 {
			x.Add(x, new(big.Int).Sub(unit, m))
		}
		x.Add(x, new(big.Int).Mul(unit, big.NewInt(int64(r.Intn(3)))))
		if r.Chance(1, 2) {
			x.Add(x, big.NewInt(r.Int63n(9_999_999_999)))
		}
	}
	// an amount above the balance is refused whatever else is wrong with it: mostly stay within
	if x.Cmp(avail) > 0 && avail.Cmp(b) >= 0 && r.Chance(3, 4) {
		x.Set(avail)
		if r.Chance(1, 2) {
			x.Sub(x, new(big.Int).Mod(x, unit))
		}
	}
	return x
}

func (g *gen) denomOf(list []int) int { return list[g.r.Intn(len(list))] }

func (g *gen) ercBal(c int) func(a int) *big.Int {
	return func(a int) *big.Int {
		if c >= 0 && c < g.s.n {
			return g.s.erc[c][a]
		}
		return big.NewInt(0)
	}
}

// firstCos2e: a conversion of an allowed cosmos denom that has no wrapper yet (it would deploy
// one), by a holder; ok=false when there is no such denom
func (g *gen) firstCos2e() (op, bool) {
	s := g.s
	var cand []int
	for _, d := range s.allowed {
		if s.reg[d] < 0 {
			for a := 0; a < nUsers; a++ {
				if s.bal[a][d].Sign() > 0 {
					cand = append(cand, d)
					break
				}
			}
		}
	}
	if len(cand) == 0 {
		return op{}, false
	}
	o := op{Kind: "cos2e", Direct: g.r.Chance(1, 5)}
	o.D = g.denomOf(cand)
	o.I = g.holder(func(a int) *big.Int { return s.bal[a][o.D] })
	o.R = g.user()
	x := new(big.Int).Div(s.bal[o.I][o.D], big.NewInt(int64(2+g.r.Intn(4))))
	if x.Sign() == 0 {
		x.SetInt64(1)
	}
	o.X = x.String()
	return o, true
}

// failing: an operation that is refused whatever the state: a dust-only conversion of a bep3
// pair, a conversion of a denom nobody may convert, an ERC20 mint to the zero address
func (g *gen) failing() op {
	switch g.r.Intn(3) {
	case 0:
		return op{Kind: "e2c", I: g.user(), R: g.user(), C: 0, X: fmt.Sprint(1 + g.r.Int63n(9_999_999_998))}
	case 1:
		return op{Kind: "c2e", I: g.user(), R: g.user(), D: 6, X: "1"}
	default:
		return op{Kind: "mint", C: 1, R: accZero, X: "5"}
	}
}

func (g *gen) next() op {
	r := g.r
	// round trip: the inverse of the last successful conversion
	if g.last != nil && r.Chance(1, 3) {
		if inv, ok := inverseOf(*g.last, g.lastSnap); ok {
			return inv
		}
	}
	// the first conversion of a cosmos denom (the one that deploys the wrapper) made to fail after
	// the deployment: the receiver is the zero address, or a later message of the same transaction
	// fails; the ordinary conversion of the same denom usually follows a few steps later
	if r.Chance(1, 9) {
		if o, ok := g.firstCos2e(); ok {
			if r.Chance(1, 2) {
				o.R = accZero
				return o
			}
			return op{Kind: "tx", Sub: []op{o, g.failing()}}
		}
	}
	if r.Chance(1, 16) {
		// a transaction of several messages
		n := 2 + r.Intn(2)
		t := op{Kind: "tx"}
		for k := 0; k < n; k++ {
			t.Sub = append(t.Sub, g.single())
		}
		return t
	}
	return g.single()
}

func (g *gen) single() op {
	r, s := g.r, g.s
	switch r.Pick(12, 18, 15, 12, 8, 8, 5, 8, 6, 8) {
	case 0: // coin -> ERC20 (EVM-native pair)
		o := op{Kind: "c2e", Direct: r.Chance(1, 5)}
		o.D = g.denomOf([]int{0, 0, 2, 2, 1, 3, 6, denRfnd, denNR})
		if r.Chance(4, 5) { // a pair denom somebody holds
			var held []int
			for c := 0; c < nPair; c++ {
				if s.denomOfCtr(c) >= 0 || r.Chance(1, 6) {
					for a := 0; a < nUsers; a++ {
						if s.bal[a][pairDenom[c]].Sign() > 0 {
							held = append(held, pairDenom[c])
							break
						}
					}
				}
			}
			if len(held) > 0 {
				o.D = g.denomOf(held)
			}
		}
		if r.Chance(1, 6) {
			// a bank denom that only looks like a pair denom (case / prefix / suffix variant),
			// preferably of an enabled pair whose tokens are already locked in the module
			c := r.Intn(3)
			for k := 0; k < 3; k++ {
				if s.denomOfCtr(k) >= 0 && s.erc[k][accM].Sign() > 0 && r.Chance(2, 3) {
					c = k
				}
			}
			o.D = g.denomOf(lookalikes[pairDenom[c]])
		}
		o.I = g.holder(func(a int) *big.Int { return s.bal[a][o.D] })
		o.R = g.anyAcc()
		if isLook(o.D) && r.Chance(3, 4) {
			o.R = g.user()
		}
		o.X = g.amount(s.bal[o.I][o.D], big.NewInt(1), !o.Direct).String()
		if o.D == denRfnd && r.Chance(2, 3) {
			// nobody holds a coin of the adversarial pair's denom: only the keeper called with amount 0
			// gets as far as the ERC20 transfer
			o.Direct, o.X, o.R = true, "0", g.user()
		}
		return o
	case 1: // ERC20 -> coin (EVM-native pair)
		o := op{Kind: "e2c", Direct: r.Chance(1, 5)}
		o.C = []int{0, 0, 0, 1, 1, 1, 2, 2, 3, 3, 4, 4, 4, 4, 5, 9, noCodeBase}[r.Intn(17)]
		if s.denomOfCtr(o.C) < 0 && r.Chance(2, 3) {
			if len(s.pairs) > 0 {
				o.C = s.pairs[r.Intn(len(s.pairs))][0]
			}
		}
		bal := g.ercBal(o.C)
		o.I = g.holder(bal)
		o.R = g.anyAcc()
		if o.Direct && r.Chance(1, 3) {
			// the keeper called with the module's own EVM address as initiator (no transaction can
			// do that): only the balance-delta check of LockERC20Tokens stands in the way
			o.I = accM
			for _, p := range s.pairs {
				if p[0] < s.n && s.erc[p[0]][accM].Sign() > 0 && r.Chance(2, 3) {
					o.C = p[0]
				}
			}
			bal = g.ercBal(o.C)
		}
		if o.Direct && r.Chance(1, 12) {
			o.I = accZero // transfer from the zero address reverts
		}
		unit := big.NewInt(1)
		if d := s.denomOfCtr(o.C); d >= 0 && isBep3[d] {
			unit = k10
		}
		o.X = g.amount(bal(o.I), unit, !o.Direct).String()
		if isNR(o.C) && o.C < s.n && o.I != accM && o.I != accZero && r.Chance(3, 5) {
			// the old-style pair: the balance-delta check alone refuses a lock that moved nothing.
			// Initiators holding nothing at all / one unit less than the amount / exactly the amount.
			var empty []int
			for a := 0; a < nUsers; a++ {
				if s.erc[o.C][a].Sign() == 0 {
					empty = append(empty, a)
				}
			}
			switch r.Pick(30, 30, 40) {
			case 0:
				if len(empty) > 0 {
					o.I = empty[r.Intn(len(empty))]
				}
				x := big.NewInt(int64(1 + r.Intn(1000)))
				if r.Chance(1, 2) && s.erc[o.C][accM].Sign() > 0 {
					x.Set(s.erc[o.C][accM]) // as much as is locked
				}
				o.X = x.String()
			case 1:
				short := int64(1)
				if r.Chance(2, 5) {
					short = int64(2 + r.Intn(1000))
				}
				o.X = new(big.Int).Add(s.erc[o.C][o.I], big.NewInt(short)).String()
			default:
				if s.erc[o.C][o.I].Sign() > 0 {
					o.X = s.erc[o.C][o.I].String()
				}
			}
			if r.Chance(3, 4) {
				o.R = g.user()
			}
		}
		return o
	case 2: // cosmos coin -> wrapper ERC20
		o := op{Kind: "cos2e", Direct: r.Chance(1, 5)}
		o.D = g.denomOf([]int{3, 3, 3, 4, 4, 5, 5, 6, 0})
		if !s.isAllowed(o.D) && r.Chance(2, 3) && len(s.allowed) > 0 {
			o.D = g.denomOf(s.allowed)
		}
		if r.Chance(1, 8) {
			// a look-alike of a denom on the allow list
			var al []int
			for _, d := range s.allowed {
				if len(lookalikes[d]) > 0 {
					al = append(al, d)
				}
			}
			if len(al) > 0 {
				o.D = g.denomOf(lookalikes[g.denomOf(al)])
			}
		}
		o.I = g.holder(func(a int) *big.Int { return s.bal[a][o.D] })
		o.R = g.anyAcc()
		o.X = g.amount(s.bal[o.I][o.D], big.NewInt(1), !o.Direct).String()
		return o
	case 3: // wrapper ERC20 -> cosmos coin
		o := op{Kind: "e2cos", Direct: r.Chance(1, 5)}
		var regd []int
		for d := 0; d < nDenom; d++ {
			if s.reg[d] >= 0 {
				regd = append(regd, d)
			}
		}
		if len(regd) > 0 && r.Chance(9, 10) {
			o.D = g.denomOf(regd)
		} else {
			o.D = g.denomOf([]int{3, 4, 5, 6})
		}
		look := -1
		if len(regd) > 0 && r.Chance(1, 12) {
			// a look-alike of a denom with a wrapper: amounts taken from the real wrapper's balances
			look = g.denomOf(regd)
			if len(lookalikes[look]) > 0 {
				o.D = g.denomOf(lookalikes[look])
			} else {
				look = -1
			}
		}
		bal := func(a int) *big.Int {
			d := o.D
			if look >= 0 {
				d = look
			}
			if c := s.reg[d]; c >= 0 {
				return s.erc[c][a]
			}
			return big.NewInt(0)
		}
		o.I = g.holder(bal)
		o.R = g.anyAcc()
		if o.Direct && r.Chance(1, 12) {
			o.I = accZero // burn from the zero address reverts
		}
		o.X = g.amount(bal(o.I), big.NewInt(1), !o.Direct).String()
		return o
	case 4: // plain ERC20 transfer between holders (also to the module address)
		o := op{Kind: "xfer"}
		o.C = r.Intn(s.n)
		if r.Chance(1, 20) {
			o.C = s.n + r.Intn(2) // no code at that address
		}
		bal := g.ercBal(o.C)
		o.I = g.holder(bal)
		o.R = g.anyAcc()
		x := g.amount(bal(o.I), big.NewInt(1), true)
		if r.Chance(1, 25) { // amounts that do not fit uint256 wrap in abi.Pack
			x.Add(x, u256)
		}
		o.X = x.String()
		return o
	case 5: // the owner of an EVM-native token mints
		o := op{Kind: "mint"}
		o.C = []int{0, 0, 1, 2, 2, 3, 4, 4}[r.Intn(8)]
		if r.Chance(1, 10) {
			o.C = r.Intn(s.n + 1)
		}
		if s.n > nPair && r.Chance(1, 12) {
			o.C = nPair + r.Intn(s.n-nPair) // a wrapper: only the module may mint it
		}
		o.R = g.anyAcc()
		x := new(big.Int)
		switch r.Pick(27, 27, 22, 10, 5, 9) {
		case 5: // balances at and above the word boundaries (2^63, 2^64, 2^128, 20*10^18, 10^30)
			x.Set(wordBoundaries[r.Intn(len(wordBoundaries))])
			switch r.Intn(4) {
			case 0:
				x.Sub(x, big.NewInt(1))
			case 1:
				x.Add(x, big.NewInt(r.Int63n(9_999_999_999)))
			case 2:
				x.Add(x, bigBelow(r, x))
			}
		case 0:
			x.SetInt64(r.Int63n(1000))
		case 1:
			x.Mul(k10, big.NewInt(int64(1+r.Intn(9))))
			x.Add(x, big.NewInt(int64(r.Intn(3))))
		case 2:
			x.SetInt64(r.Int63n(300_000_000_000))
		case 3: // makes the total supply (the balance, for the token without one) overflow or come close
			x = r.BigBits(256)
			if o.C < s.n && r.Chance(1, 2) {
				x.Sub(u256, s.tot[o.C])
				if isEvil(o.C) {
					x.Sub(u256, s.erc[o.C][o.R])
				}
				x.Sub(x, big.NewInt(int64(r.Intn(3))))
			}
		default:
			x.SetInt64(-int64(1 + r.Intn(3)))
		}
		o.X = x.String()
		return o
	case 6: // bank MsgSend
		o := op{Kind: "send"}
		o.D = r.Intn(nDenom)
		if isLook(o.D) && r.Chance(1, 2) {
			o.D = r.Intn(nRealDen)
		}
		o.I = g.holder(func(a int) *big.Int { return s.bal[a][o.D] })
		o.R = g.anyAcc()
		if o.R >= nUsers && r.Chance(1, 2) {
			o.R = g.user()
		}
		o.X = g.amount(s.bal[o.I][o.D], big.NewInt(1), true).String()
		return o
	case 7: // a governance parameter-change proposal
		return g.params()
	case 8: // approve
		o := op{Kind: "approve"}
		o.C = r.Intn(s.n)
		if r.Chance(1, 20) {
			o.C = s.n + r.Intn(2)
		}
		bal := g.ercBal(o.C)
		o.I = g.holder(bal)
		o.R = g.anyAcc()
		if r.Chance(1, 2) {
			o.R = g.user()
		}
		x := g.amount(bal(o.I), big.NewInt(1), true)
		if r.Chance(1, 4) {
			x.Set(maxU256) // the "infinite" allowance
		}
		o.X = x.String()
		return o
	default: // transferFrom
		o := op{Kind: "xferfrom"}
		o.C = r.Intn(s.n)
		if r.Chance(1, 25) {
			o.C = s.n + r.Intn(2)
		}
		o.I, o.F, o.R = g.user(), g.user(), g.anyAcc()
		if o.C < s.n {
			// a spender that holds an allowance
			type pr struct{ f, sp int }
			var have []pr
			for f := 0; f < nAcc; f++ {
				for sp := 0; sp < nUsers; sp++ {
					if s.allow[o.C][f][sp].Sign() > 0 {
						have = append(have, pr{f, sp})
					}
				}
			}
			if len(have) > 0 && r.Chance(3, 4) {
				p := have[r.Intn(len(have))]
				for _, q := range have { // lean towards an infinite allowance over a funded account
					if eq(s.allow[o.C][q.f][q.sp], maxU256) && s.erc[o.C][q.f].Sign() > 0 && r.Chance(1, 2) {
						p = q
					}
				}
				o.F, o.I = p.f, p.sp
			}
		}
		if r.Chance(1, 4) {
			// an attempt to pull the tokens locked in the module's EVM address
			o.F = accM
			var locked []int
			for c := 0; c < nPair && c < s.n; c++ {
				if s.erc[c][accM].Sign() > 0 {
					locked = append(locked, c)
				}
			}
			if len(locked) > 0 {
				o.C = g.denomOf(locked)
			}
			if r.Chance(1, 2) {
				o.R = o.I
			}
		}
		avail := big.NewInt(0)
		if o.C < s.n {
			avail = new(big.Int).Set(s.allow[o.C][o.F][o.I])
			if s.erc[o.C][o.F].Cmp(avail) < 0 || r.Chance(1, 4) {
				avail.Set(s.erc[o.C][o.F])
			}
		}
		x := g.amount(avail, big.NewInt(1), true)
		if avail.Sign() > 0 && r.Chance(1, 2) {
			// an amount the allowance and the balance cover
			x.SetInt64(0)
			if lim := new(big.Int).Set(s.allow[o.C][o.F][o.I]); lim.Sign() > 0 {
				if s.erc[o.C][o.F].Cmp(lim) < 0 {
					lim.Set(s.erc[o.C][o.F])
				}
				if lim.Sign() > 0 {
					x.Mul(lim, big.NewInt(int64(1+r.Intn(10))))
					x.Div(x, big.NewInt(10))
				}
			}
		}
		o.X = x.String()
		return o
	}
}

// params builds a proposal from the parameters in force: one pair or one token toggled, and, one
// time in three, a malformation that the validators of the parameter-change path must refuse.
func (g *gen) params() op {
	r, s := g.r, g.s
	o := op{Kind: "params", Ps: []praw{}, Ts: []traw{}, Direct: g.r.Chance(1, 4)}
	for _, p := range s.pairs {
		o.Ps = append(o.Ps, praw{K: "ctr", C: p[0], D: p[1]})
	}
	for _, d := range s.allowed {
		o.Ts = append(o.Ts, traw{D: d, Name: true, Sym: d, Dec: true})
	}
	if r.Chance(1, 2) {
		c := r.Intn(nPair)
		if s.denomOfCtr(c) >= 0 && r.Chance(1, 2) { // lean towards enabling
			for k := 0; k < nPair; k++ {
				if s.denomOfCtr(k) < 0 {
					c = k
				}
			}
		}
		if s.denomOfCtr(c) >= 0 {
			var keep []praw
			for _, p := range o.Ps {
				if p.C != c {
					keep = append(keep, p)
				}
			}
			o.Ps = append([]praw{}, keep...)
		} else {
			e := praw{K: "ctr", C: c, D: pairDenom[c]}
			at := r.Intn(len(o.Ps) + 1)
			o.Ps = append(o.Ps[:at], append([]praw{e}, o.Ps[at:]...)...)
		}
	} else {
		d := []int{3, 4, 5, 0}[r.Pick(4, 4, 4, 1)]
		if s.isAllowed(d) {
			var keep []traw
			for _, t := range o.Ts {
				if t.D != d {
					keep = append(keep, t)
				}
			}
			o.Ts = append([]traw{}, keep...)
		} else {
			o.Ts = append(o.Ts, traw{D: d, Name: true, Sym: d, Dec: true})
		}
	}
	if len(o.Ts) > 0 && r.Chance(1, 3) {
		// the decimals of a listed denom are changed (6 -> 8 / 18 and back): a contract already
		// deployed for it stays the denom's registered contract
		o.Ts[r.Intn(len(o.Ts))].Dv = []int{2, 12}[r.Intn(2)]
	}
	if !r.Chance(1, 3) {
		return o
	}
	insertP := func(e praw) {
		at := r.Intn(len(o.Ps) + 1)
		o.Ps = append(o.Ps[:at], append([]praw{e}, o.Ps[at:]...)...)
	}
	insertT := func(e traw) {
		at := r.Intn(len(o.Ts) + 1)
		o.Ts = append(o.Ts[:at], append([]traw{e}, o.Ts[at:]...)...)
	}
	kind := r.Intn(15)
	if len(o.Ps) == 0 && (kind <= 2 || kind >= 12) {
		kind = 3 + r.Intn(3)
	}
	if len(o.Ts) == 0 && (kind == 6 || kind == 7) {
		kind = 8 + r.Intn(4)
	}
	switch kind {
	case 0: // the same pair twice
		insertP(o.Ps[r.Intn(len(o.Ps))])
	case 1: // a second contract under a denom that is already the denom of a pair
		e := o.Ps[r.Intn(len(o.Ps))]
		var other []int
		for c := 0; c < nPair; c++ {
			if c != e.C {
				other = append(other, c)
			}
		}
		other = append(other, noCodeBase+r.Intn(3))
		c2 := g.denomOf(other)
		// the other contract leaves its own entry, so that only the denom is double
		var keep []praw
		for _, p := range o.Ps {
			if p.C != c2 {
				keep = append(keep, p)
			}
		}
		o.Ps = append([]praw{}, keep...)
		insertP(praw{K: "ctr", C: c2, D: e.D})
	case 2: // a contract that is already the contract of a pair, under a second denom
		e := o.Ps[r.Intn(len(o.Ps))]
		d2 := []int{6, 4, pairDenom[(e.C+1)%nPair]}[r.Intn(3)]
		var keep []praw
		for _, p := range o.Ps {
			if p.D != d2 {
				keep = append(keep, p)
			}
		}
		o.Ps = append([]praw{}, keep...)
		insertP(praw{K: "ctr", C: e.C, D: d2})
	case 3:
		insertP(praw{K: "zero", D: 6})
	case 4: // an address of 19, 21 or 32 bytes
		insertP(praw{K: []string{"short", "pad21", "pad32"}[r.Intn(3)], C: noCodeBase + r.Intn(3), D: 6})
	case 12, 13:
		// the contract of an enabled pair a second time, under another denom, its address one byte short
		// or left-padded with zeros to 21 / 32 bytes: as raw bytes it differs from the 20-byte entry, but
		// ConversionPair.GetAddress crops the padding away again
		e := o.Ps[r.Intn(len(o.Ps))]
		d2 := []int{3, 4, 6, 5, pairDenom[(e.C+1)%nPair]}[r.Pick(3, 2, 2, 1, 1)]
		var keep []praw
		for _, p := range o.Ps {
			if p.D != d2 {
				keep = append(keep, p)
			}
		}
		o.Ps = append([]praw{}, keep...)
		insertP(praw{K: []string{"pad32", "pad21", "short"}[r.Pick(3, 2, 1)], C: e.C, D: d2})
	case 14:
		// the entry of an enabled pair itself with its address in a wrong length (same denom)
		at := r.Intn(len(o.Ps))
		o.Ps[at].K = []string{"pad32", "pad21", "short"}[r.Intn(3)]
	case 5:
		insertP(praw{K: "ctr", C: noCodeBase + r.Intn(3), D: -1 - r.Intn(len(invalidDenoms))})
	case 6: // a token denom twice (under another symbol)
		e := o.Ts[r.Intn(len(o.Ts))]
		insertT(traw{D: e.D, Name: true, Sym: 6, Dec: true})
	case 7: // a symbol twice
		e := o.Ts[r.Intn(len(o.Ts))]
		d2 := 6
		insertT(traw{D: d2, Name: true, Sym: e.Sym, Dec: true})
	case 8:
		insertT(traw{D: 6, Name: false, Sym: 6, Dec: true})
	case 9:
		insertT(traw{D: 6, Name: true, Sym: -1, Dec: true})
	case 10:
		insertT(traw{D: 6, Name: true, Sym: 6, Dec: false})
	default:
		insertT(traw{D: -1 - r.Intn(len(invalidDenoms)), Name: true, Sym: 6, Dec: true})
	}
	return o
}

// rawInvalid says why a proposed value is malformed ("" when it is well-formed and duplicate-free):
// the statement of the property about parameter changes, on the generator's own description.
func rawInvalid(o op) string {
	seenC, seenD := map[int]bool{}, map[int]bool{}
	for _, p := range o.Ps {
		if p.K != "ctr" {
			return "pair address " + p.K
		}
		if p.D < 0 {
			return "pair denom invalid"
		}
		if seenC[p.C] {
			return "pair address twice"
		}
		if seenD[p.D] {
			return "pair denom twice"
		}
		seenC[p.C], seenD[p.D] = true, true
	}
	seenT, seenS := map[int]bool{}, map[int]bool{}
	for _, t := range o.Ts {
		if t.D < 0 || !t.Name || t.Sym < 0 || !t.Dec {
			return "token malformed"
		}
		if seenT[t.D] {
			return "token denom twice"
		}
		if seenS[t.Sym] {
			return "token symbol twice"
		}
		seenT[t.D], seenS[t.Sym] = true, true
	}
	return ""
}

// inverseOf builds the operation that undoes a successful conversion, when
// both parties are users (module accounts cannot sign).  before: the state the conversion ran in.
func inverseOf(o op, before *snap) (op, bool) {
	if o.I >= nUsers || o.R >= nUsers {
		return op{}, false
	}
	x := o.amount()
	switch o.Kind {
	case "cos2e":
		return op{Kind: "e2cos", I: o.R, R: o.I, D: o.D, X: o.X, Direct: o.Direct}, true
	case "e2cos":
		return op{Kind: "cos2e", I: o.R, R: o.I, D: o.D, X: o.X, Direct: o.Direct}, true
	case "c2e":
		c := before.pairOfDenom(o.D)
		if c < 0 {
			return op{}, false
		}
		y := new(big.Int).Set(x)
		if isBep3[o.D] {
			y.Mul(y, k10)
		}
		return op{Kind: "e2c", I: o.R, R: o.I, C: c, X: y.String(), Direct: o.Direct}, true
	case "e2c":
		d := before.denomOfCtr(o.C)
		if d < 0 {
			return op{}, false
		}
		y := new(big.Int).Set(x)
		if isBep3[d] {
			y.Div(y, k10)
		}
		return op{Kind: "c2e", I: o.R, R: o.I, D: d, X: y.String(), Direct: o.Direct}, true
	}
	return op{}, false
}
