package c10

// Operations of a C10 history, their execution on the real keepers / msg
// servers / EVM, and the generators.

import (
	. "kavaverif/lib"

	"fmt"
	"math/big"

	sdkmath "cosmossdk.io/math"
	sdk "github.com/cosmos/cosmos-sdk/types"
	banktypes "github.com/cosmos/cosmos-sdk/x/bank/types"
	"github.com/ethereum/go-ethereum/common"

	evmutiltypes "github.com/kava-labs/kava/x/evmutil/types"
)

type op struct {
	Kind   string `json:"kind"` // c2e | e2c | cos2e | e2cos | xfer | mint | send | params
	Direct bool   `json:"direct,omitempty"`
	I      int    `json:"i"` // initiator / from
	R      int    `json:"r"` // receiver / to
	D      int    `json:"d"` // denom index (c2e, cos2e, e2cos, send)
	C      int    `json:"c"` // contract id (e2c, xfer, mint)
	X      string `json:"x"` // amount
	En     []bool `json:"en,omitempty"`
	Al     []bool `json:"al,omitempty"`
}

func (o op) amount() *big.Int {
	x, ok := new(big.Int).SetString(o.X, 10)
	if !ok {
		return big.NewInt(0)
	}
	return x
}

var u256 = new(big.Int).Lsh(big.NewInt(1), 256)

func dummyContract(c int) evmutiltypes.InternalEVMAddress {
	return evmutiltypes.NewInternalEVMAddress(common.BytesToAddress([]byte{0xde, 0xad, byte(c)}))
}

func (w *world) contractAddr(c int) evmutiltypes.InternalEVMAddress {
	if c >= 0 && c < len(w.ctr) {
		return w.ctr[c]
	}
	return dummyContract(c)
}

func iaddr(a common.Address) evmutiltypes.InternalEVMAddress {
	return evmutiltypes.NewInternalEVMAddress(a)
}

// representable says whether the amount fits an sdkmath.Int (|x| < 2^256); a
// message cannot carry anything else.
func representable(x *big.Int) bool { return x.BitLen() <= 256 }

// exec runs one operation atomically (cached context, committed on success).
func (w *world) exec(o op) (Class, error) {
	x := o.amount()
	isConv := o.Kind == "c2e" || o.Kind == "e2c" || o.Kind == "cos2e" || o.Kind == "e2cos"
	if isConv && !representable(x) {
		return ClassErr, fmt.Errorf("amount does not fit sdkmath.Int")
	}
	enBefore, alBefore := append([]bool(nil), w.enabled...), append([]bool(nil), w.allowed...)
	cls, err := Atomically(w.ctx, func(ctx sdk.Context) error {
		gctx := sdk.WrapSDKContext(ctx)
		switch o.Kind {
		case "c2e":
			coin := sdk.Coin{Denom: denoms[o.D], Amount: sdkmath.NewIntFromBigInt(x)}
			if o.Direct {
				return w.k.ConvertCoinToERC20(ctx, w.addrs[o.I], iaddr(w.eaddrs[o.R]), coin)
			}
			msg := evmutiltypes.MsgConvertCoinToERC20{Initiator: w.addrs[o.I].String(), Receiver: w.eaddrs[o.R].Hex(), Amount: &coin}
			if err := msg.ValidateBasic(); err != nil {
				return err
			}
			_, err := w.ms.ConvertCoinToERC20(gctx, &msg)
			return err
		case "e2c":
			amt := sdkmath.NewIntFromBigInt(x)
			if o.Direct {
				return w.k.ConvertERC20ToCoin(ctx, iaddr(w.eaddrs[o.I]), w.addrs[o.R], w.contractAddr(o.C), amt)
			}
			msg := evmutiltypes.MsgConvertERC20ToCoin{Initiator: w.eaddrs[o.I].Hex(), Receiver: w.addrs[o.R].String(),
				KavaERC20Address: w.contractAddr(o.C).Hex(), Amount: amt}
			if err := msg.ValidateBasic(); err != nil {
				return err
			}
			_, err := w.ms.ConvertERC20ToCoin(gctx, &msg)
			return err
		case "cos2e":
			coin := sdk.Coin{Denom: denoms[o.D], Amount: sdkmath.NewIntFromBigInt(x)}
			if o.Direct {
				return w.k.ConvertCosmosCoinToERC20(ctx, w.addrs[o.I], iaddr(w.eaddrs[o.R]), coin)
			}
			msg := evmutiltypes.MsgConvertCosmosCoinToERC20{Initiator: w.addrs[o.I].String(), Receiver: w.eaddrs[o.R].Hex(), Amount: &coin}
			if err := msg.ValidateBasic(); err != nil {
				return err
			}
			_, err := w.ms.ConvertCosmosCoinToERC20(gctx, &msg)
			return err
		case "e2cos":
			coin := sdk.Coin{Denom: denoms[o.D], Amount: sdkmath.NewIntFromBigInt(x)}
			if o.Direct {
				return w.k.ConvertCosmosCoinFromERC20(ctx, iaddr(w.eaddrs[o.I]), w.addrs[o.R], coin)
			}
			msg := evmutiltypes.MsgConvertCosmosCoinFromERC20{Initiator: w.eaddrs[o.I].Hex(), Receiver: w.addrs[o.R].String(), Amount: &coin}
			if err := msg.ValidateBasic(); err != nil {
				return err
			}
			_, err := w.ms.ConvertCosmosCoinFromERC20(gctx, &msg)
			return err
		case "xfer":
			// a plain ERC20 transfer by the holder (msg.sender = from)
			_, err := w.k.CallEVM(ctx, evmutiltypes.ERC20MintableBurnableContract.ABI, w.eaddrs[o.I], w.contractAddr(o.C), "transfer", w.eaddrs[o.R], x)
			return err
		case "mint":
			// the owner of an EVM-native token mints; the wrappers are owned by the module,
			// so nobody else can mint them (the attempt comes from user 0)
			from := evmutiltypes.ModuleEVMAddress
			if o.C >= nPair && o.C < len(w.ctr) {
				from = w.eaddrs[0]
			}
			_, err := w.k.CallEVM(ctx, evmutiltypes.ERC20MintableBurnableContract.ABI, from, w.contractAddr(o.C), "mint", w.eaddrs[o.R], x)
			return err
		case "send":
			msg := banktypes.MsgSend{FromAddress: w.addrs[o.I].String(), ToAddress: w.addrs[o.R].String(),
				Amount: sdk.Coins{sdk.Coin{Denom: denoms[o.D], Amount: sdkmath.NewIntFromBigInt(x)}}}
			if err := msg.ValidateBasic(); err != nil {
				return err
			}
			_, err := w.bankMs.Send(gctx, &msg)
			return err
		case "params":
			ctx0 := w.ctx
			w.ctx = ctx
			w.enabled = append([]bool(nil), o.En...)
			w.allowed = padBools(o.Al)
			w.setParams()
			w.ctx = ctx0
			return nil
		}
		panic("unknown op kind " + o.Kind)
	})
	if cls != ClassOk {
		w.enabled, w.allowed = enBefore, alBefore
	}
	return cls, err
}

// ------------------------------------------------------------ generation

type gen struct {
	r   *Rng
	w   *world
	s   *snap
	cnt *Counters
	// last successful conversion, for round trips
	last     *op
	lastSnap *snap
}

func (g *gen) user() int { return g.r.Intn(nUsers) }

// anyAcc picks a receiver: mostly users, sometimes the module or the blocked module account
func (g *gen) anyAcc() int {
	switch g.r.Pick(80, 10, 10) {
	case 0:
		return g.user()
	case 1:
		return accM
	default:
		return accHard
	}
}

// holder picks a user with a positive value of f, or any user
func (g *gen) holder(f func(a int) *big.Int) int {
	var c []int
	for a := 0; a < nUsers; a++ {
		if f(a).Sign() > 0 {
			c = append(c, a)
		}
	}
	if len(c) == 0 || g.r.Chance(1, 8) {
		return g.user()
	}
	return c[g.r.Intn(len(c))]
}

// amount draws from the mixture; avail is the initiator's relevant balance,
// unit is 10^10 for ERC20 amounts of bep3 pairs and 1 otherwise.
func (g *gen) amount(avail *big.Int, unit *big.Int, allowNeg bool) *big.Int {
	r := g.r
	x := new(big.Int)
	one := big.NewInt(1)
	switch r.Pick(2, 14, 12, 5, 6, 16, 22, 3, 2, 18) {
	case 0:
		x.SetInt64(0)
	case 1: // small
		x.SetInt64(int64(1 + r.Intn(20)))
		if avail.Sign() > 0 && avail.Cmp(big.NewInt(20)) < 0 && r.Chance(3, 4) {
			x.SetInt64(1 + r.Int63n(avail.Int64()))
		}
	case 2: // the exact balance
		x.Set(avail)
	case 3:
		x.Add(avail, one)
	case 4:
		x.Sub(avail, big.NewInt(int64(1+r.Intn(2))))
	case 5: // around multiples of the unit (dust boundaries)
		k := int64(r.Intn(4))
		if unit.Cmp(one) == 0 {
			k += 2
		}
		x.Mul(unit, big.NewInt(k))
		x.Add(x, big.NewInt(int64(r.Intn(5)-2)))
		if r.Chance(1, 3) {
			x.Add(x, big.NewInt(r.Int63n(9_999_999_999)))
		}
	case 6: // a fraction of the balance
		if avail.Sign() > 0 {
			x.Mul(avail, big.NewInt(int64(1+r.Intn(9))))
			x.Div(x, big.NewInt(10))
		} else {
			x.SetInt64(int64(r.Intn(3)))
		}
	case 7: // huge
		x = r.BigBits(200 + r.Intn(57))
		if r.Chance(1, 3) {
			x.Sub(u256, big.NewInt(int64(1+r.Intn(3))))
		}
	case 8: // negative
		if allowNeg {
			x.SetInt64(-int64(1 + r.Intn(5)))
		} else {
			x.SetInt64(1)
		}
	default: // the largest whole number of units not above the balance, plus dust
		if unit.Cmp(one) > 0 && avail.Cmp(unit) >= 0 {
			q := new(big.Int).Div(avail, unit)
			if q.Cmp(one) > 0 && r.Chance(1, 2) {
				q.SetInt64(1 + r.Int63n(q.Int64()))
			}
			x.Mul(q, unit)
			if r.Chance(1, 2) {
				d := new(big.Int).Sub(avail, x)
				if d.Sign() > 0 {
					x.Add(x, new(big.Int).Mod(big.NewInt(r.Int63n(9_999_999_999)), new(big.Int).Add(d, one)))
				}
			}
		} else if avail.Sign() > 0 {
			x.SetInt64(1 + r.Int63n(1+new(big.Int).Mod(avail, big.NewInt(1<<40)).Int64()))
			if x.Cmp(avail) > 0 {
				x.Set(avail)
			}
		} else {
			x.SetInt64(1)
		}
	}
	if !allowNeg && x.Sign() < 0 {
		x.SetInt64(0)
	}
	return x
}

func (g *gen) denomOf(list []int) int { return list[g.r.Intn(len(list))] }

func (g *gen) next() op {
	r, s, w := g.r, g.s, g.w
	// round trip: the inverse of the last successful conversion
	if g.last != nil && r.Chance(1, 3) {
		if inv, ok := inverseOf(*g.last, g.lastSnap, s); ok {
			return inv
		}
	}
	switch r.Pick(14, 20, 17, 14, 10, 10, 8, 7) {
	case 0: // coin -> ERC20 (EVM-native pair)
		o := op{Kind: "c2e", Direct: r.Chance(1, 5)}
		o.D = g.denomOf([]int{0, 0, 2, 2, 1, 3, 6})
		if r.Chance(4, 5) { // a pair denom somebody holds
			var held []int
			for c := 0; c < nPair; c++ {
				if w.enabled[c] || r.Chance(1, 6) {
					for a := 0; a < nUsers; a++ {
						if s.bal[a][pairDenom[c]].Sign() > 0 {
							held = append(held, pairDenom[c])
							break
						}
					}
				}
			}
			if len(held) > 0 {
				o.D = g.denomOf(held)
			}
		}
		if r.Chance(1, 6) {
			// a bank denom that only looks like a pair denom (case / prefix / suffix variant),
			// preferably of an enabled pair whose tokens are already locked in the module
			c := r.Intn(nPair)
			for k := 0; k < nPair; k++ {
				if w.enabled[k] && s.erc[k][accM].Sign() > 0 && r.Chance(2, 3) {
					c = k
				}
			}
			o.D = g.denomOf(lookalikes[pairDenom[c]])
		}
		o.I = g.holder(func(a int) *big.Int { return s.bal[a][o.D] })
		o.R = g.anyAcc()
		if o.D >= firstLook && r.Chance(3, 4) {
			o.R = g.user()
		}
		o.X = g.amount(s.bal[o.I][o.D], big.NewInt(1), !o.Direct).String()
		return o
	case 1: // ERC20 -> coin (EVM-native pair)
		o := op{Kind: "e2c", Direct: r.Chance(1, 5)}
		o.C = []int{0, 0, 0, 0, 1, 1, 1, 2, 2, 2, 3, 9}[r.Intn(12)]
		if !(o.C < nPair && w.enabled[o.C]) && r.Chance(2, 3) {
			var en []int
			for c := 0; c < nPair; c++ {
				if w.enabled[c] {
					en = append(en, c)
				}
			}
			if len(en) > 0 {
				o.C = g.denomOf(en)
			}
		}
		bal := func(a int) *big.Int {
			if o.C < s.n {
				return s.erc[o.C][a]
			}
			return big.NewInt(0)
		}
		o.I = g.holder(bal)
		o.R = g.anyAcc()
		if o.Direct && r.Chance(1, 3) {
			// the keeper called with the module's own EVM address as initiator (no transaction can
			// do that): only the balance-delta check of LockERC20Tokens stands in the way
			o.I = accM
			for c := 0; c < nPair; c++ {
				if w.enabled[c] && s.erc[c][accM].Sign() > 0 && r.Chance(2, 3) {
					o.C = c
				}
			}
		}
		unit := big.NewInt(1)
		if o.C < nPair && isBep3[pairDenom[o.C]] {
			unit = k10
		}
		o.X = g.amount(bal(o.I), unit, !o.Direct).String()
		return o
	case 2: // cosmos coin -> wrapper ERC20
		o := op{Kind: "cos2e", Direct: r.Chance(1, 5)}
		o.D = g.denomOf([]int{3, 3, 3, 4, 4, 5, 5, 6, 0})
		if !w.allowed[o.D] && r.Chance(2, 3) {
			var al []int
			for d := 0; d < nDenom; d++ {
				if w.allowed[d] {
					al = append(al, d)
				}
			}
			if len(al) > 0 {
				o.D = g.denomOf(al)
			}
		}
		if r.Chance(1, 8) {
			// a look-alike of a denom on the allow list
			var al []int
			for d := 0; d < nRealDen; d++ {
				if w.allowed[d] && len(lookalikes[d]) > 0 {
					al = append(al, d)
				}
			}
			if len(al) > 0 {
				o.D = g.denomOf(lookalikes[g.denomOf(al)])
			}
		}
		o.I = g.holder(func(a int) *big.Int { return s.bal[a][o.D] })
		o.R = g.anyAcc()
		o.X = g.amount(s.bal[o.I][o.D], big.NewInt(1), !o.Direct).String()
		return o
	case 3: // wrapper ERC20 -> cosmos coin
		o := op{Kind: "e2cos", Direct: r.Chance(1, 5)}
		var regd []int
		for d := 0; d < nDenom; d++ {
			if s.reg[d] >= 0 {
				regd = append(regd, d)
			}
		}
		if len(regd) > 0 && r.Chance(9, 10) {
			o.D = g.denomOf(regd)
		} else {
			o.D = g.denomOf([]int{3, 4, 5, 6})
		}
		look := -1
		if len(regd) > 0 && r.Chance(1, 12) {
			// a look-alike of a denom with a wrapper: amounts taken from the real wrapper's balances
			look = g.denomOf(regd)
			if len(lookalikes[look]) > 0 {
				o.D = g.denomOf(lookalikes[look])
			} else {
				look = -1
			}
		}
		bal := func(a int) *big.Int {
			d := o.D
			if look >= 0 {
				d = look
			}
			if c := s.reg[d]; c >= 0 {
				return s.erc[c][a]
			}
			return big.NewInt(0)
		}
		o.I = g.holder(bal)
		o.R = g.anyAcc()
		o.X = g.amount(bal(o.I), big.NewInt(1), !o.Direct).String()
		return o
	case 4: // plain ERC20 transfer between holders (also to the module address)
		o := op{Kind: "xfer"}
		o.C = r.Intn(s.n)
		if r.Chance(1, 20) {
			o.C = s.n + r.Intn(2) // no code at that address
		}
		bal := func(a int) *big.Int {
			if o.C < s.n {
				return s.erc[o.C][a]
			}
			return big.NewInt(0)
		}
		o.I = g.holder(bal)
		o.R = g.anyAcc()
		x := g.amount(bal(o.I), big.NewInt(1), true)
		if r.Chance(1, 25) { // amounts that do not fit uint256 wrap in abi.Pack
			x.Add(x, u256)
		}
		o.X = x.String()
		return o
	case 5: // the owner of an EVM-native token mints
		o := op{Kind: "mint"}
		o.C = []int{0, 0, 1, 2, 2}[r.Intn(5)]
		if r.Chance(1, 10) {
			o.C = r.Intn(s.n + 1)
		}
		o.R = g.anyAcc()
		x := new(big.Int)
		switch r.Pick(30, 30, 25, 10, 5) {
		case 0:
			x.SetInt64(r.Int63n(1000))
		case 1:
			x.Mul(k10, big.NewInt(int64(1+r.Intn(9))))
			x.Add(x, big.NewInt(int64(r.Intn(3))))
		case 2:
			x.SetInt64(r.Int63n(300_000_000_000))
		case 3: // makes the total supply overflow or come close
			x = r.BigBits(256)
			if o.C < s.n && r.Chance(1, 2) {
				x.Sub(u256, s.tot[o.C])
				x.Sub(x, big.NewInt(int64(r.Intn(3))))
			}
		default:
			x.SetInt64(-int64(1 + r.Intn(3)))
		}
		o.X = x.String()
		return o
	case 6: // bank MsgSend
		o := op{Kind: "send"}
		o.D = r.Intn(nDenom)
		if o.D >= firstLook && r.Chance(1, 2) {
			o.D = r.Intn(nRealDen)
		}
		o.I = g.holder(func(a int) *big.Int { return s.bal[a][o.D] })
		o.R = g.anyAcc()
		if o.R >= nUsers && r.Chance(1, 2) {
			o.R = g.user()
		}
		o.X = g.amount(s.bal[o.I][o.D], big.NewInt(1), true).String()
		return o
	default: // governance changes the allow lists
		o := op{Kind: "params"}
		o.En = append([]bool(nil), w.enabled...)
		o.Al = append([]bool(nil), w.allowed...)
		if r.Chance(1, 2) {
			c := r.Intn(nPair)
			if o.En[c] && r.Chance(1, 2) { // lean towards enabling
				for k := 0; k < nPair; k++ {
					if !o.En[k] {
						c = k
					}
				}
			}
			o.En[c] = !o.En[c]
		} else {
			d := []int{3, 4, 5, 0}[r.Pick(4, 4, 4, 1)]
			o.Al[d] = !o.Al[d]
		}
		return o
	}
}

// inverseOf builds the operation that undoes a successful conversion, when
// both parties are users (module accounts cannot sign).
func inverseOf(o op, before, after *snap) (op, bool) {
	if o.I >= nUsers || o.R >= nUsers {
		return op{}, false
	}
	x := o.amount()
	switch o.Kind {
	case "cos2e":
		return op{Kind: "e2cos", I: o.R, R: o.I, D: o.D, X: o.X, Direct: o.Direct}, true
	case "e2cos":
		return op{Kind: "cos2e", I: o.R, R: o.I, D: o.D, X: o.X, Direct: o.Direct}, true
	case "c2e":
		c := -1
		for p := 0; p < nPair; p++ {
			if pairDenom[p] == o.D {
				c = p
			}
		}
		if c < 0 {
			return op{}, false
		}
		y := new(big.Int).Set(x)
		if isBep3[o.D] {
			y.Mul(y, k10)
		}
		return op{Kind: "e2c", I: o.R, R: o.I, C: c, X: y.String(), Direct: o.Direct}, true
	case "e2c":
		if o.C >= nPair {
			return op{}, false
		}
		d := pairDenom[o.C]
		y := new(big.Int).Set(x)
		if isBep3[d] {
			y.Div(y, k10)
		}
		return op{Kind: "c2e", I: o.R, R: o.I, D: d, X: y.String(), Direct: o.Direct}, true
	}
	return op{}, false
}
