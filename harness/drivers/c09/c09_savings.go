package c09

// Savings "source": x/incentive still carries savings reward periods, an accumulator and
// MsgClaimSavingsReward, but in this tree the savings keeper is built WITHOUT hooks
// (app/app.go: `app.savingsKeeper = savingsKeeper // savings incentive hooks disabled`) and
// the bodies of incentive's savings hooks are commented out (x/incentive/keeper/hooks.go
// AfterSavingsDepositCreated / BeforeSavingsDepositModified).  A savings claim can therefore
// only exist if it was imported at genesis; no message creates or synchronises one.
// probeSavings establishes that on the real app on every run: a savings reward period is
// configured, a user deposits through savings' message server, blocks pass -- the global
// savings index accumulates, but no claim exists and MsgClaimSavingsReward is refused (the
// message server returns "savings claims disabled" without looking at the state).
// The result goes into the evidence; if a claim ever appears (somebody wired the hooks) the
// quality gate says that the savings source is live but not driven.

import (
	. "kavaverif/lib"

	"fmt"
	"time"

	sdkmath "cosmossdk.io/math"
	sdk "github.com/cosmos/cosmos-sdk/types"

	"github.com/kava-labs/kava/x/incentive"
	inckeeper "github.com/kava-labs/kava/x/incentive/keeper"
	inctypes "github.com/kava-labs/kava/x/incentive/types"
	savingskeeper "github.com/kava-labs/kava/x/savings/keeper"
	savingstypes "github.com/kava-labs/kava/x/savings/types"
)

type savingsProbe struct {
	ClaimCreated   bool   `json:"claim_created_by_deposit"`
	IndexAdvanced  bool   `json:"global_index_accumulates"`
	ClaimMsgResult string `json:"claim_message_result"`
	Verdict        string `json:"verdict"`
}

func probeSavings() (out savingsProbe) {
	defer func() {
		if r := recover(); r != nil {
			out.Verdict = fmt.Sprintf("probe failed: %v", r)
		}
	}()
	cfg := histCfg{ClaimEndOff: 5 * 365 * 86400 * 1_000_000_000,
		Mults: [][]multCfg{{{"large", 12, "1.0"}}, {{"large", 12, "1.0"}}}, Macc: []string{"1000000000", "1000000000"}}
	for p := 0; p < 4; p++ {
		cfg.Periods = append(cfg.Periods, periodCfg{Rates: []string{"0", "0"}})
	}
	w := setup("earn", cfg)
	params := w.ik.GetParams(w.ctx)
	params.SavingsRewardPeriods = inctypes.MultiRewardPeriods{inctypes.NewMultiRewardPeriod(true, "busd",
		GenesisTime.Add(-time.Hour), GenesisTime.Add(1000*time.Hour), sdk.NewCoins(sdk.NewInt64Coin("swp", 1000)))}
	if err := params.Validate(); err != nil {
		panic(err)
	}
	w.ik.SetParams(w.ctx, params)
	sk := w.tApp.GetSavingsKeeper()
	msg := savingstypes.NewMsgDeposit(w.addrs[0], sdk.NewCoins(sdk.NewCoin("busd", sdkmath.NewInt(1_000_000))))
	if _, err := savingskeeper.NewMsgServerImpl(sk).Deposit(sdk.WrapSDKContext(w.ctx), &msg); err != nil {
		panic(err)
	}
	for i := 0; i < 3; i++ {
		w.height++
		w.t = w.t.Add(10 * time.Second)
		w.ctx = NewCtx(w.tApp, w.height, w.t)
		incentive.BeginBlocker(w.ctx, w.ik)
	}
	// a second deposit: a wired BeforeSavingsDepositModified would synchronise an existing claim
	if _, err := savingskeeper.NewMsgServerImpl(sk).Deposit(sdk.WrapSDKContext(w.ctx), &msg); err != nil {
		panic(err)
	}
	_, out.ClaimCreated = w.ik.GetSavingsClaim(w.ctx, w.addrs[0])
	if ris, ok := w.ik.GetSavingsRewardIndexes(w.ctx, "busd"); ok {
		if f, ok := ris.Get("swp"); ok && f.IsPositive() {
			out.IndexAdvanced = true
		}
	}
	cmsg := inctypes.NewMsgClaimSavingsReward(w.addrs[0].String(), inctypes.Selections{inctypes.NewSelection("swp", "large")})
	_, err := inckeeper.NewMsgServerImpl(w.ik).ClaimSavingsReward(sdk.WrapSDKContext(w.ctx), &cmsg)
	out.ClaimMsgResult = errKind(err)
	if err != nil && out.ClaimMsgResult == "other" {
		out.ClaimMsgResult = err.Error()
	}
	if out.ClaimCreated {
		out.Verdict = "savings hooks are WIRED: a deposit created a claim -- the savings source is live but not driven by this check"
	} else {
		out.Verdict = "savings hooks are stubs: deposits create and synchronise no claim (app.go builds the savings keeper without hooks; hooks.go bodies commented out); the savings accumulator still runs; the message server refuses MsgClaimSavingsReward outright (msg_server.go: \"savings claims disabled\")"
	}
	return out
}
