package c09

// Parameter changes in the middle of a history: the incentive params are replaced through
// the keeper (what a governance / committee parameter change does after validation): the
// reward period of one pool gets another rate, start or end, is removed, or is (re-)added;
// the claim end moves.  Nothing else of the module's state is touched by the code: in
// particular the accrual time of a removed period goes stale, and a re-added period counts
// from that stale time (clipped to its own start).

import (
	. "kavaverif/lib"

	"fmt"
	"math/big"

	sdk "github.com/cosmos/cosmos-sdk/types"
)

func (w *world) execParams(o op) (Class, error) {
	next := w.cfg
	next.Periods = append([]periodCfg(nil), w.cfg.Periods...)
	if o.PC != nil {
		next.Periods[o.P] = *o.PC
	} else if o.CE == 0 {
		next.Periods[o.P].Present = false
	}
	if o.CE != 0 {
		next.ClaimEndOff = o.CE
	}
	w.tried = next
	cls, err := Atomically(w.ctx, func(ctx sdk.Context) error {
		params := incParams(w.src, &next, w.rd)
		if err := params.Validate(); err != nil {
			return err
		}
		w.ik.SetParams(ctx, params)
		return nil
	})
	if cls == ClassOk {
		w.cfg.Periods, w.cfg.ClaimEndOff = next.Periods, next.ClaimEndOff
	}
	return cls, err
}

// coqSetParams renders the configuration the last params operation asked for
func (w *world) coqSetParams() string {
	var pds []string
	for p, pc := range w.tried.Periods {
		if !pc.Present || (w.src == "earn" && p >= earnBkPool) {
			pds = append(pds, "None")
			continue
		}
		rates := make([]*big.Int, nDenoms)
		for d := range rates {
			rates[d] = bigOf(pc.Rates[d])
		}
		pds = append(pds, fmt.Sprintf("Some (%s, %s, %s)", Z(big.NewInt(w.t0+pc.StartOff)), Z(big.NewInt(w.t0+pc.EndOff)), ZList(rates)))
	}
	// earn: the shared bkava period is not an entry of the model's period table (it travels with BkAcc);
	// it rides behind the last pool so that the model validates it with the others
	if pc := w.tried.Periods[earnBkPool%len(w.tried.Periods)]; w.src == "earn" && pc.Present {
		rates := make([]*big.Int, nDenoms)
		for d := range rates {
			rates[d] = bigOf(pc.Rates[d])
		}
		pds = append(pds, fmt.Sprintf("Some (%s, %s, %s)", Z(big.NewInt(w.t0+pc.StartOff)), Z(big.NewInt(w.t0+pc.EndOff)), ZList(rates)))
	}
	return fmt.Sprintf("SetParams %s %s", List(pds), Z(big.NewInt(w.t0+w.tried.ClaimEndOff)))
}

func (w *world) genParams(r *Rng) op {
	sec := int64(1_000_000_000)
	now := w.t.UnixNano() - w.t0
	np := w.nP
	if w.src == "earn" {
		np = earnBkPool + 1 // pools 0,1 and the shared bkava period
	}
	p := r.Intn(np)
	cur := w.cfg.Periods[p]
	switch r.Pick(30, 20, 20, 20, 10) {
	case 0: // another rate
		if !cur.Present {
			break
		}
		pc := cur
		pc.Rates = append([]string(nil), cur.Rates...)
		d := r.Intn(nDenoms)
		if w.src == "cdp" {
			d = 0
		}
		switch r.Intn(4) {
		case 0:
			pc.Rates[d] = new(big.Int).Mul(bigOf(cur.Rates[d]), big.NewInt(2)).String()
		case 1:
			pc.Rates[d] = new(big.Int).Quo(bigOf(cur.Rates[d]), big.NewInt(2)).String()
		case 2:
			pc.Rates[d] = fmt.Sprint(1 + r.Intn(100000))
		default:
			if w.src != "cdp" {
				pc.Rates[d] = "0" // the denom is no longer rewarded
			}
		}
		if w.src == "cdp" && bigOf(pc.Rates[0]).Sign() <= 0 {
			pc.Rates[0] = "1"
		}
		return op{Kind: "params", P: p, PC: &pc}
	case 1: // the end moves (earlier than now: the period is over; later: extended)
		if !cur.Present {
			break
		}
		pc := cur
		pc.EndOff = now + []int64{-30 * sec, -sec / 2, 0, 10 * sec, 45*sec + 1, 86400 * sec}[r.Intn(6)]
		if r.Chance(1, 5) {
			pc.EndOff = pc.StartOff - 1 - r.Int63n(100*sec) // end before start: refused by the params validation
		} else if pc.EndOff < pc.StartOff {
			pc.EndOff = pc.StartOff
		}
		return op{Kind: "params", P: p, PC: &pc}
	case 2: // the start moves
		if !cur.Present {
			break
		}
		pc := cur
		pc.StartOff = now + []int64{-60 * sec, -sec, 0, sec / 2, 20 * sec}[r.Intn(5)]
		if pc.EndOff < pc.StartOff {
			pc.EndOff = pc.StartOff + int64(r.Intn(200))*sec
		}
		return op{Kind: "params", P: p, PC: &pc}
	case 3: // removed
		if !cur.Present {
			break
		}
		return op{Kind: "params", P: p}
	default:
		return op{Kind: "params", P: p, PC: &cur, CE: now + []int64{-sec, 30 * sec, 300 * sec, 5 * 365 * 86400 * sec}[r.Intn(4)]}
	}
	// (re-)added: from the past, from now or from a little later
	pc := cur
	pc.Present = true
	pc.Rates = append([]string(nil), cur.Rates...)
	pc.StartOff = now + []int64{-100 * sec, -3*sec - sec/2, 0, 5 * sec, 30 * sec}[r.Intn(5)]
	pc.EndOff = pc.StartOff + int64(5+r.Intn(400))*sec
	if r.Chance(1, 3) {
		pc.EndOff = pc.StartOff + 86400*365*sec
	}
	if bigOf(pc.Rates[0]).Sign() <= 0 && bigOf(pc.Rates[1]).Sign() <= 0 {
		pc.Rates[0] = fmt.Sprint(1 + r.Intn(5000))
	}
	if w.src == "cdp" {
		pc.Rates[1] = "0"
		if bigOf(pc.Rates[0]).Sign() <= 0 {
			pc.Rates[0] = "7"
		}
	}
	return op{Kind: "params", P: p, PC: &pc}
}
