package c09

// Hard supply and borrow sources: shares = the user's normalized deposit /
// borrow per denom (amount / the interest factor stored in the record:
// Deposit.NormalizedDeposit, Borrow.NormalizedBorrow), totals = total supplied
// (borrowed) / global supply (borrow) interest factor (rewards_supply.go,
// rewards_borrow.go).  Real MsgDeposit, MsgWithdraw, MsgBorrow, MsgRepay,
// MsgLiquidate of x/hard and MsgClaimHardReward; every block runs
// hard.BeginBlocker (interest accrual) before incentive.BeginBlocker, as in
// app/app.go.  Pools 0,1 = supply of hardDenoms; pools 2,3 = borrow of
// hardDenoms; one claim per user carries both sides.
// Users 0..2 deposit and borrow; user 3 is the keeper / third-party repayer.

import (
	. "kavaverif/lib"

	"math/big"

	sdkmath "cosmossdk.io/math"
	"github.com/cosmos/cosmos-sdk/codec"
	sdk "github.com/cosmos/cosmos-sdk/types"

	"github.com/kava-labs/kava/app"
	hardkeeper "github.com/kava-labs/kava/x/hard/keeper"
	hardtypes "github.com/kava-labs/kava/x/hard/types"
)

var (
	hardDenoms = []string{"bnb", "usdx"}
	hardPrice0 = []string{"10.0", "1.0"}
)

func hardGenesis(cdc codec.JSONCodec, cfg *histCfg) []app.GenesisState {
	d := sdk.MustNewDecFromStr
	irm := hardtypes.NewInterestRateModel(d("0.0"), d("0.0"), d("0.8"), d("0.0"))
	reserve := d("0.0")
	if cfg.hasInterest() {
		irm = hardtypes.NewInterestRateModel(d(cfg.Interest), d("1.0"), d("0.8"), d("5.0"))
		reserve = d("0.05")
	}
	var mms hardtypes.MoneyMarkets
	for _, dn := range hardDenoms {
		mms = append(mms, hardtypes.NewMoneyMarket(dn,
			hardtypes.NewBorrowLimit(false, d("0.0"), d("0.8")),
			dn+":usd", sdkmath.NewInt(1_000_000),
			irm, reserve, d("0.05")))
	}
	hgs := hardtypes.NewGenesisState(hardtypes.NewParams(mms, d("0.000001")),
		hardtypes.DefaultAccumulationTimes, hardtypes.DefaultDeposits, hardtypes.DefaultBorrows,
		hardtypes.DefaultTotalSupplied, hardtypes.DefaultTotalBorrowed, hardtypes.DefaultTotalReserves)
	return []app.GenesisState{
		pfGenesis(cdc, hardDenoms, hardPrice0, false),
		{hardtypes.ModuleName: cdc.MustMarshalJSON(&hgs)},
	}
}

func (w *world) execHard(o op) (Class, error) {
	hk := w.tApp.GetHardKeeper()
	srv := hardkeeper.NewMsgServerImpl(hk)
	dn := hardDenoms[o.P%2]
	coins := sdk.Coins{sdk.Coin{Denom: dn, Amount: sdkmath.NewIntFromBigInt(bigOf(o.A))}}
	return Atomically(w.ctx, func(ctx sdk.Context) error {
		g := sdk.WrapSDKContext(ctx)
		switch o.Kind {
		case "hard-deposit":
			msg := hardtypes.NewMsgDeposit(w.addrs[o.U], coins)
			if err := msg.ValidateBasic(); err != nil {
				return err
			}
			_, err := srv.Deposit(g, &msg)
			return err
		case "hard-withdraw":
			msg := hardtypes.NewMsgWithdraw(w.addrs[o.U], coins)
			if err := msg.ValidateBasic(); err != nil {
				return err
			}
			_, err := srv.Withdraw(g, &msg)
			return err
		case "hard-borrow":
			msg := hardtypes.NewMsgBorrow(w.addrs[o.U], coins)
			if err := msg.ValidateBasic(); err != nil {
				return err
			}
			_, err := srv.Borrow(g, &msg)
			return err
		case "hard-repay": // K repays U's borrow
			msg := hardtypes.NewMsgRepay(w.addrs[o.K], w.addrs[o.U], coins)
			if err := msg.ValidateBasic(); err != nil {
				return err
			}
			_, err := srv.Repay(g, &msg)
			return err
		case "hard-liquidate": // keeper K liquidates U
			msg := hardtypes.NewMsgLiquidate(w.addrs[o.K], w.addrs[o.U])
			if err := msg.ValidateBasic(); err != nil {
				return err
			}
			_, err := srv.Liquidate(g, &msg)
			return err
		}
		panic("unknown hard op " + o.Kind)
	})
}

func (w *world) snapHard(s *snap) {
	hk := w.tApp.GetHardKeeper()
	supplied, _ := hk.GetSuppliedCoins(w.ctx)
	borrowed, _ := hk.GetBorrowedCoins(w.ctx)
	normDep := func(dp hardtypes.Deposit, dn string) *big.Int {
		nd, err := dp.NormalizedDeposit()
		if err != nil {
			return big.NewInt(0)
		}
		return decMant(nd.AmountOf(dn))
	}
	normBor := func(b hardtypes.Borrow, dn string) *big.Int {
		nb, err := b.NormalizedBorrow()
		if err != nil {
			return big.NewInt(0)
		}
		return decMant(nb.AmountOf(dn))
	}
	for p := 0; p < 4; p++ {
		dn := hardDenoms[p%2]
		var (
			at, okT  = w.ik.GetPreviousHardSupplyRewardAccrualTime(w.ctx, dn)
			ris, _   = w.ik.GetHardSupplyRewardIndexes(w.ctx, dn)
			fac, okF = hk.GetSupplyInterestFactor(w.ctx, dn)
			total    = supplied.AmountOf(dn)
		)
		if p >= 2 {
			at, okT = w.ik.GetPreviousHardBorrowRewardAccrualTime(w.ctx, dn)
			ris, _ = w.ik.GetHardBorrowRewardIndexes(w.ctx, dn)
			fac, okF = hk.GetBorrowInterestFactor(w.ctx, dn)
			total = borrowed.AmountOf(dn)
		}
		if okT {
			s.gtime = append(s.gtime, big.NewInt(at.UnixNano()))
		} else {
			s.gtime = append(s.gtime, big.NewInt(-1))
		}
		if !okF {
			fac = sdk.OneDec()
		}
		s.tot = append(s.tot, decMant(sdk.NewDecFromInt(total).Quo(fac)))
		row := make([]*big.Int, nDenoms)
		for d := range row {
			row[d] = factorOf(ris, rewardDenoms[d])
		}
		s.gidx = append(s.gidx, row)
		s.sumSh = append(s.sumSh, big.NewInt(0))
	}
	hk.IterateDeposits(w.ctx, func(dp hardtypes.Deposit) bool {
		for p := 0; p < 2; p++ {
			s.sumSh[p].Add(s.sumSh[p], normDep(dp, hardDenoms[p]))
		}
		return false
	})
	hk.IterateBorrows(w.ctx, func(b hardtypes.Borrow) bool {
		for p := 0; p < 2; p++ {
			s.sumSh[2+p].Add(s.sumSh[2+p], normBor(b, hardDenoms[p]))
		}
		return false
	})
	for u := 0; u < w.nU; u++ {
		claim, has := w.ik.GetHardLiquidityProviderClaim(w.ctx, w.addrs[u])
		s.has = append(s.has, has)
		dp, _ := hk.GetDeposit(w.ctx, w.addrs[u])
		bw, _ := hk.GetBorrow(w.ctx, w.addrs[u])
		shRow := make([]*big.Int, 4)
		uiRow := make([][]*big.Int, 4)
		for p := 0; p < 4; p++ {
			dn := hardDenoms[p%2]
			uris, _ := claim.SupplyRewardIndexes.Get(dn)
			if p < 2 {
				shRow[p] = normDep(dp, dn)
			} else {
				shRow[p] = normBor(bw, dn)
				uris, _ = claim.BorrowRewardIndexes.Get(dn)
			}
			uiRow[p] = make([]*big.Int, nDenoms)
			for d := 0; d < nDenoms; d++ {
				uiRow[p][d] = factorOf(uris, rewardDenoms[d])
			}
		}
		s.sh, s.uidx = append(s.sh, shRow), append(s.uidx, uiRow)
		rr, ss := make([]*big.Int, nDenoms), make([]*big.Int, nDenoms)
		for d := 0; d < nDenoms; d++ {
			rr[d], ss[d] = big.NewInt(0), big.NewInt(0)
			if has {
				rr[d] = claim.Reward.AmountOf(rewardDenoms[d]).BigInt()
			}
		}
		if has {
			cctx, _ := w.ctx.CacheContext()
			w.ik.SynchronizeHardLiquidityProviderClaim(cctx, w.addrs[u])
			if sc, ok := w.ik.GetHardLiquidityProviderClaim(cctx, w.addrs[u]); ok {
				for d := 0; d < nDenoms; d++ {
					ss[d] = sc.Reward.AmountOf(rewardDenoms[d]).BigInt()
				}
			}
		}
		s.rew, s.synced = append(s.rew, rr), append(s.synced, ss)
	}
}

// ------------------------------------------------------------ generation

// usd value (in 1/100 usd per 10^6 units... only ratios matter) of the user's deposit and borrow
func (w *world) hardValues(u int) (dep, bor *big.Int) {
	hk := w.tApp.GetHardKeeper()
	dep, bor = big.NewInt(0), big.NewInt(0)
	dp, _ := hk.GetDeposit(w.ctx, w.addrs[u])
	bw, _ := hk.GetBorrow(w.ctx, w.addrs[u])
	for _, dn := range hardDenoms {
		pr := w.priceCents(dn + ":usd")
		dep.Add(dep, new(big.Int).Mul(dp.Amount.AmountOf(dn).BigInt(), pr))
		bor.Add(bor, new(big.Int).Mul(bw.Amount.AmountOf(dn).BigInt(), pr))
	}
	return
}

func (w *world) genOpHard(r *Rng, s *snap, step int) op {
	hk := w.tApp.GetHardKeeper()
	u := r.Intn(3)
	d := r.Intn(2)
	// the keeper first supplies spare liquidity of both assets: without it a seizure fails because the
	// deposited coins have been lent out
	if step < 2 {
		return op{Kind: "hard-deposit", U: 3, P: step, A: big.NewInt(int64(1_000_000_000 + r.Intn(3_000_000_000))).String()}
	}
	// a position above the LTV is liquidated soon (but not at once: blocks may pass first)
	for v := 0; v < 3; v++ {
		dep, bor := w.hardValues(v)
		if bor.Sign() > 0 && new(big.Int).Mul(bor, big.NewInt(10)).Cmp(new(big.Int).Mul(dep, big.NewInt(8))) > 0 && r.Chance(1, 4) {
			return op{Kind: "hard-liquidate", U: v, K: 3, P: 2}
		}
	}
	// under interest a borrow that has seen a block is often repaid in part or topped up: the hook must run
	// before the interest synchronisation of that very message (a late hook sees drifted shares)
	if w.cfg.hasInterest() && r.Chance(1, 7) {
		for try := 0; try < 3; try++ {
			v, dd := (u+try)%3, (d+try)%2
			bw, _ := hk.GetBorrow(w.ctx, w.addrs[v])
			owed := bw.Amount.AmountOf(hardDenoms[dd]).BigInt()
			if owed.Sign() > 0 {
				x := new(big.Int).Quo(new(big.Int).Mul(owed, big.NewInt(int64(1+r.Intn(60)))), big.NewInt(100))
				if x.Sign() <= 0 {
					x = big.NewInt(1)
				}
				if r.Chance(1, 4) {
					return op{Kind: "hard-borrow", U: v, P: 2 + dd, A: big.NewInt(int64(1 + r.Intn(1000))).String()}
				}
				return op{Kind: "hard-repay", U: v, K: v, P: 2 + dd, A: x.String()}
			}
		}
	}
	switch r.Pick(24, 16, 7, 16, 7, 7, 7, 13, 3) {
	case 0:
		return op{Kind: "block", Dt: w.genBlockDt(r)}
	case 1:
		x := big.NewInt(int64(1000 + r.Intn(100_000_000)))
		if r.Chance(1, 5) {
			x = genAmount(r)
		}
		// user 0 mostly supplies bnb and user 1 usdx, so that bnb-backed usdx borrows exist
		if u < 2 && r.Chance(4, 5) {
			d = u
		}
		return op{Kind: "hard-deposit", U: u, P: d, A: x.String()}
	case 2: // withdraw
		dp, _ := hk.GetDeposit(w.ctx, w.addrs[u])
		for try := 0; try < 4 && dp.Amount.AmountOf(hardDenoms[d]).IsZero(); try++ {
			u, d = r.Intn(3), r.Intn(2)
			dp, _ = hk.GetDeposit(w.ctx, w.addrs[u])
		}
		own := dp.Amount.AmountOf(hardDenoms[d]).BigInt()
		var x *big.Int
		switch r.Pick(25, 35, 25, 15) {
		case 0:
			x = new(big.Int).Set(own)
		case 1:
			x = new(big.Int).Quo(new(big.Int).Mul(own, big.NewInt(int64(1+r.Intn(60)))), big.NewInt(100))
		case 2:
			x = big.NewInt(int64(1 + r.Intn(1000)))
		default:
			x = new(big.Int).Add(own, big.NewInt(int64(1+r.Intn(5))))
		}
		if x.Sign() <= 0 {
			x = big.NewInt(1)
		}
		return op{Kind: "hard-withdraw", U: u, P: d, A: x.String()}
	case 3: // borrow a fraction of the remaining capacity (LTV 0.8), limited by the module's liquidity
		dep, bor := w.hardValues(u)
		for try := 0; try < 3 && dep.Sign() == 0; try++ {
			u = (u + 1) % 3
			dep, bor = w.hardValues(u)
		}
		if u < 2 && r.Chance(4, 5) {
			d = 1 - u // borrow the other asset
		}
		macc := w.tApp.GetAccountKeeper().GetModuleAddress(hardtypes.ModuleAccountName)
		liq := w.tApp.GetBankKeeper().GetBalance(w.ctx, macc, hardDenoms[d]).Amount.BigInt()
		if liq.Sign() == 0 {
			d = 1 - d
			liq = w.tApp.GetBankKeeper().GetBalance(w.ctx, macc, hardDenoms[d]).Amount.BigInt()
		}
		room := new(big.Int).Sub(new(big.Int).Quo(new(big.Int).Mul(dep, big.NewInt(8)), big.NewInt(10)), bor)
		pr := w.priceCents(hardDenoms[d] + ":usd")
		x := big.NewInt(int64(1 + r.Intn(1000)))
		if room.Sign() > 0 && pr.Sign() > 0 {
			x = new(big.Int).Quo(room, pr)
			switch r.Pick(35, 35, 15, 15) {
			case 0:
				x = new(big.Int).Quo(new(big.Int).Mul(x, big.NewInt(int64(5+r.Intn(90)))), big.NewInt(100))
			case 1: // close to the limit: a small price drop makes the position liquidatable
				x = new(big.Int).Quo(new(big.Int).Mul(x, big.NewInt(int64(90+r.Intn(10)))), big.NewInt(100))
			case 2:
				x.Add(x, big.NewInt(int64(r.Intn(5)-2)))
			default:
				x = new(big.Int).Quo(x, big.NewInt(int64(2+r.Intn(50))))
			}
			if x.Cmp(liq) > 0 && r.Chance(9, 10) {
				x = new(big.Int).Quo(new(big.Int).Mul(liq, big.NewInt(int64(10+r.Intn(85)))), big.NewInt(100))
			}
		}
		if x.Sign() <= 0 {
			x = big.NewInt(int64(1 + r.Intn(50)))
		}
		return op{Kind: "hard-borrow", U: u, P: 2 + d, A: x.String()}
	case 4: // repay, by the owner or by the third party
		bw, _ := hk.GetBorrow(w.ctx, w.addrs[u])
		for try := 0; try < 6 && bw.Amount.AmountOf(hardDenoms[d]).IsZero(); try++ {
			u, d = (u+try)%3, try%2
			bw, _ = hk.GetBorrow(w.ctx, w.addrs[u])
		}
		owed := bw.Amount.AmountOf(hardDenoms[d]).BigInt()
		var x *big.Int
		switch r.Pick(30, 40, 30) {
		case 0:
			x = new(big.Int).Set(owed)
		case 1:
			x = new(big.Int).Quo(new(big.Int).Mul(owed, big.NewInt(int64(1+r.Intn(90)))), big.NewInt(100))
		default:
			x = big.NewInt(int64(1 + r.Intn(1000)))
		}
		if x.Sign() <= 0 {
			x = big.NewInt(1)
		}
		k := u
		if r.Chance(1, 3) {
			k = 3
		}
		return op{Kind: "hard-repay", U: u, K: k, P: 2 + d, A: x.String()}
	case 5: // bnb price move: down makes bnb-backed borrows liquidatable
		return op{Kind: "price", P: 0, A: []string{"10.0", "9.0", "7.0", "5.0", "2.0", "12.0", "0.5", "6.0"}[r.Intn(8)]}
	case 6: // keeper liquidation, preferably of a position above the LTV, else of somebody who borrowed
		found := false
		for v := 0; v < 3 && !found; v++ {
			dep, bor := w.hardValues(v)
			if bor.Sign() > 0 && new(big.Int).Mul(bor, big.NewInt(10)).Cmp(new(big.Int).Mul(dep, big.NewInt(8))) > 0 {
				u, found = v, true
			}
		}
		if !found && r.Chance(3, 4) {
			// nobody is liquidatable: drop the bnb price instead, which pushes bnb-backed borrows over the LTV
			return op{Kind: "price", P: 0, A: []string{"0.5", "2.0", "5.0"}[r.Intn(3)]}
		}
		for v := 0; v < 3 && !found; v++ {
			if _, bor := w.hardValues(v); bor.Sign() > 0 {
				u, found = v, true
			}
		}
		return op{Kind: "hard-liquidate", U: u, K: 3, P: 2}
	case 7:
		dd := r.Intn(nDenoms)
		for try := 0; try < 5 && s.synced[u][dd].Sign() == 0; try++ {
			u, dd = r.Intn(w.nU), r.Intn(nDenoms)
		}
		m := "large"
		if r.Chance(1, 2) {
			m = "small"
		}
		return op{Kind: "claim", U: u, D: dd, M: m}
	default:
		switch r.Intn(3) {
		case 0:
			return op{Kind: "claim", U: u, D: r.Intn(nDenoms), M: "nope"}
		case 1:
			return op{Kind: "hard-borrow", U: 3, P: 2 + d, A: "1000"} // no deposit
		default:
			return op{Kind: "hard-withdraw", U: u, P: d, A: Pow10(22).String()}
		}
	}
}
