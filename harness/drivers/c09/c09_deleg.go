package c09

// Delegator source: shares = tokens delegated to bonded validators, total =
// TotalBondedTokens.  Real staking messages (MsgCreateValidator, MsgDelegate,
// MsgUndelegate, MsgBeginRedelegate) and the staking end blocker, with the
// incentive hooks wired into the staking keeper as in app/app.go.
// One "pool" (the bond denom).  Users 0..2 delegate; users 3,4 are the
// operators of the two validators the history creates; validator index 2 is
// the test app's genesis validator (bonded from the start, its delegator has
// no claim, so the total exceeds the sum of the users' shares).
// Also driven: slashing (Slash at the current height), jailing / unjailing, an
// operator undelegating below his minimum self-delegation, and (MaxValidators = 2
// in half of the histories) validators entering and leaving the bonded set in the
// end blocker -- each of these synchronises every delegator of the validator in
// one operation; a third party's delegation to a slashed validator moves the
// other delegators' tokens by rounding without a hook (Revalue in the model).

import (
	. "kavaverif/lib"

	"fmt"
	"math/big"

	sdkmath "cosmossdk.io/math"
	sdk "github.com/cosmos/cosmos-sdk/types"
	"github.com/cosmos/cosmos-sdk/x/staking"
	stakingkeeper "github.com/cosmos/cosmos-sdk/x/staking/keeper"
	stakingtypes "github.com/cosmos/cosmos-sdk/x/staking/types"

	inctypes "github.com/kava-labs/kava/x/incentive/types"
)

const nVals = 3

// valAddr returns the operator address of validator index v (nil when it does not exist)
func (w *world) valAddr(v int) sdk.ValAddress {
	switch {
	case v == 0 || v == 1:
		return sdk.ValAddress(w.addrs[3+v])
	case v == 2:
		if w.vals == nil {
			for _, val := range w.tApp.GetStakingKeeper().GetAllValidators(w.ctx) {
				op := val.GetOperator()
				if !op.Equals(sdk.ValAddress(w.addrs[3])) && !op.Equals(sdk.ValAddress(w.addrs[4])) {
					w.vals = []sdk.ValAddress{op}
				}
			}
		}
		if len(w.vals) > 0 {
			return w.vals[0]
		}
	}
	return sdk.ValAddress(w.addrs[0]) // no such validator
}

// bondedStake sums, independently of the incentive keeper, the tokens of the
// delegations of addr to bonded validators (Dec mantissa)
func (w *world) bondedStake(dels []stakingtypes.Delegation) *big.Int {
	stk := w.tApp.GetStakingKeeper()
	sum := big.NewInt(0)
	for _, d := range dels {
		val, ok := stk.GetValidator(w.ctx, d.GetValidatorAddr())
		if !ok || !val.IsBonded() || val.GetTokens().IsZero() {
			continue
		}
		sum.Add(sum, val.TokensFromShares(d.GetShares()).BigInt())
	}
	return sum
}

func (w *world) snapDeleg(s *snap) {
	stk := w.tApp.GetStakingKeeper()
	id := inctypes.BondDenom
	if t, ok := w.ik.GetPreviousDelegatorRewardAccrualTime(w.ctx, id); ok {
		s.gtime = append(s.gtime, big.NewInt(t.UnixNano()))
	} else {
		s.gtime = append(s.gtime, big.NewInt(-1))
	}
	s.tot = append(s.tot, new(big.Int).Mul(stk.TotalBondedTokens(w.ctx).BigInt(), prec))
	ris, _ := w.ik.GetDelegatorRewardIndexes(w.ctx, id)
	row := make([]*big.Int, nDenoms)
	for d := range row {
		row[d] = factorOf(ris, rewardDenoms[d])
	}
	s.gidx = append(s.gidx, row)
	s.sumSh = append(s.sumSh, w.bondedStake(stk.GetAllDelegations(w.ctx)))
	for u := 0; u < w.nU; u++ {
		claim, has := w.ik.GetDelegatorClaim(w.ctx, w.addrs[u])
		s.has = append(s.has, has)
		s.sh = append(s.sh, []*big.Int{w.bondedStake(stk.GetDelegatorDelegations(w.ctx, w.addrs[u], 1000))})
		uris, _ := claim.RewardIndexes.Get(id)
		ui := make([]*big.Int, nDenoms)
		rr, ss := make([]*big.Int, nDenoms), make([]*big.Int, nDenoms)
		for d := 0; d < nDenoms; d++ {
			ui[d] = factorOf(uris, rewardDenoms[d])
			rr[d], ss[d] = big.NewInt(0), big.NewInt(0)
			if has {
				rr[d] = claim.Reward.AmountOf(rewardDenoms[d]).BigInt()
			}
		}
		if has {
			// the synchronised claim, observed on a discarded branch of the state
			cctx, _ := w.ctx.CacheContext()
			if sc, err := w.ik.SynchronizeDelegatorClaim(cctx, claim); err == nil {
				for d := 0; d < nDenoms; d++ {
					ss[d] = sc.Reward.AmountOf(rewardDenoms[d]).BigInt()
				}
			}
		}
		s.uidx = append(s.uidx, [][]*big.Int{ui})
		s.rew, s.synced = append(s.rew, rr), append(s.synced, ss)
	}
}

func (w *world) execDeleg(o op) (Class, error) {
	stk := w.tApp.GetStakingKeeper()
	srv := stakingkeeper.NewMsgServerImpl(stk)
	coin := sdk.NewCoin(inctypes.BondDenom, sdkmath.NewIntFromBigInt(bigOf(o.A)))
	switch o.Kind {
	case "mkval":
		return Atomically(w.ctx, func(ctx sdk.Context) error {
			return w.tApp.CreateNewUnbondedValidator(ctx, sdk.ValAddress(w.addrs[o.U]), coin.Amount)
		})
	case "endblock":
		return Atomically(w.ctx, func(ctx sdk.Context) error {
			staking.EndBlocker(ctx, stk)
			return nil
		})
	case "delegate":
		return Atomically(w.ctx, func(ctx sdk.Context) error {
			if !coin.Amount.IsPositive() {
				return fmt.Errorf("invalid delegation amount")
			}
			_, err := srv.Delegate(sdk.WrapSDKContext(ctx), stakingtypes.NewMsgDelegate(w.addrs[o.U], w.valAddr(o.P), coin))
			return err
		})
	case "undelegate":
		return Atomically(w.ctx, func(ctx sdk.Context) error {
			if !coin.Amount.IsPositive() {
				return fmt.Errorf("invalid delegation amount")
			}
			_, err := srv.Undelegate(sdk.WrapSDKContext(ctx), stakingtypes.NewMsgUndelegate(w.addrs[o.U], w.valAddr(o.P), coin))
			return err
		})
	case "val-slash", "val-jail", "val-unjail":
		return Atomically(w.ctx, func(ctx sdk.Context) error {
			val, ok := stk.GetValidator(ctx, w.valAddr(o.P))
			if !ok {
				return fmt.Errorf("no such validator")
			}
			cons, err := val.GetConsAddr()
			if err != nil {
				return err
			}
			switch o.Kind {
			case "val-slash": // an infraction at the current height: only the validator's tokens are slashed
				if val.IsUnbonded() {
					return fmt.Errorf("validator is unbonded")
				}
				stk.Slash(ctx, cons, ctx.BlockHeight(), val.ConsensusPower(stk.PowerReduction(ctx)), sdk.MustNewDecFromStr(o.A))
			case "val-jail":
				if val.IsJailed() {
					return fmt.Errorf("validator already jailed")
				}
				stk.Jail(ctx, cons)
			default: // as through x/slashing MsgUnjail: its checks on the staking side, then staking Unjail
				self, found := stk.GetDelegation(ctx, sdk.AccAddress(val.GetOperator()), val.GetOperator())
				if !found {
					return fmt.Errorf("validator has no self-delegation; cannot be unjailed")
				}
				if val.TokensFromShares(self.GetShares()).TruncateInt().LT(val.MinSelfDelegation) {
					return fmt.Errorf("validator's self delegation less than minimum; cannot be unjailed")
				}
				if !val.IsJailed() {
					return fmt.Errorf("validator not jailed; cannot be unjailed")
				}
				stk.Unjail(ctx, cons)
			}
			return nil
		})
	default: // redelegate from validator P to validator D
		return Atomically(w.ctx, func(ctx sdk.Context) error {
			if !coin.Amount.IsPositive() {
				return fmt.Errorf("invalid delegation amount")
			}
			_, err := srv.BeginRedelegate(sdk.WrapSDKContext(ctx), stakingtypes.NewMsgBeginRedelegate(w.addrs[o.U], w.valAddr(o.P), w.valAddr(o.D), coin))
			return err
		})
	}
}

func (w *world) delegated(u, v int) *big.Int {
	stk := w.tApp.GetStakingKeeper()
	del, ok := stk.GetDelegation(w.ctx, w.addrs[u], w.valAddr(v))
	if !ok {
		return big.NewInt(0)
	}
	val, ok := stk.GetValidator(w.ctx, w.valAddr(v))
	if !ok {
		return big.NewInt(0)
	}
	return val.TokensFromShares(del.GetShares()).TruncateInt().BigInt()
}

// unbondingVal returns a validator that has left the bonded set and is still unbonding (staking
// can slash it for an earlier infraction: its delegators' claims were synchronised when it left
// and must earn nothing for the time since), or -1.
func (w *world) unbondingVal() int {
	stk := w.tApp.GetStakingKeeper()
	for v := 0; v < nVals; v++ {
		if val, ok := stk.GetValidator(w.ctx, w.valAddr(v)); ok && val.IsUnbonding() && val.GetTokens().IsPositive() {
			return v
		}
	}
	return -1
}

func (w *world) genOpDeleg(r *Rng, s *snap, step int) op {
	switch step {
	case 0:
		return op{Kind: "mkval", U: 3, A: big.NewInt(int64(1_000_000 + r.Intn(5_000_000))).String()}
	case 2:
		return op{Kind: "mkval", U: 4, A: big.NewInt(int64(1_000_000 + r.Intn(5_000_000))).String()}
	case 1, 3:
		return op{Kind: "endblock"}
	}
	u := r.Intn(3)
	if r.Chance(1, 8) {
		u = 3 + r.Intn(2)
	}
	v := r.Intn(nVals)
	if ub := w.unbondingVal(); ub >= 0 && step > 8 && r.Chance(1, 10) {
		// slashed while unbonding, usually some blocks after it left the bonded set
		return op{Kind: "val-slash", P: ub, A: []string{"0.01", "0.05", "0.000001", "0.3", "0.5"}[r.Intn(5)]}
	}
	switch r.Pick(24, 22, 12, 8, 14, 9, 4, 3, 2, 2) {
	case 0:
		return op{Kind: "block", Dt: w.genBlockDt(r)}
	case 1:
		return op{Kind: "delegate", U: u, P: v, A: genAmount(r).String()}
	case 2:
		if u >= 3 && r.Chance(3, 4) {
			u = r.Intn(3) // an operator undelegating below the minimum self-delegation jails his validator
		}
		for try := 0; try < 4 && w.delegated(u, v).Sign() == 0; try++ {
			u, v = r.Intn(3), r.Intn(nVals)
		}
		own := w.delegated(u, v)
		var x *big.Int
		switch r.Pick(30, 30, 15, 25) {
		case 0:
			x = new(big.Int).Set(own)
		case 1:
			x = new(big.Int).Quo(own, big.NewInt(2))
		case 2:
			x = new(big.Int).Add(own, big.NewInt(1))
		default:
			x = new(big.Int).Quo(new(big.Int).Mul(own, big.NewInt(int64(1+r.Intn(99)))), big.NewInt(100))
		}
		if x.Sign() <= 0 {
			x = big.NewInt(1)
		}
		return op{Kind: "undelegate", U: u, P: v, A: x.String()}
	case 3:
		if u >= 3 {
			u = r.Intn(3)
		}
		for try := 0; try < 4 && w.delegated(u, v).Sign() == 0; try++ {
			u, v = r.Intn(3), r.Intn(nVals)
		}
		own := w.delegated(u, v)
		x := new(big.Int).Quo(new(big.Int).Mul(own, big.NewInt(int64(1+r.Intn(100)))), big.NewInt(100))
		if x.Sign() <= 0 {
			x = big.NewInt(1)
		}
		return op{Kind: "redelegate", U: u, P: v, D: (v + 1 + r.Intn(nVals-1)) % nVals, A: x.String()}
	case 4:
		d := r.Intn(nDenoms)
		for try := 0; try < 5 && s.synced[u][d].Sign() == 0; try++ {
			u, d = r.Intn(w.nU), r.Intn(nDenoms)
		}
		m := "large"
		if r.Chance(1, 2) {
			m = "small"
		}
		return op{Kind: "claim", U: u, D: d, M: m}
	case 5:
		return op{Kind: "endblock"}
	case 6:
		return op{Kind: "val-slash", P: v, A: []string{"0.01", "0.05", "0.000001", "0.3", "0.5"}[r.Intn(5)]}
	case 7:
		return op{Kind: "val-jail", P: v}
	case 8:
		return op{Kind: "val-unjail", P: v}
	default:
		switch r.Intn(3) {
		case 0:
			return op{Kind: "claim", U: u, D: r.Intn(nDenoms), M: "nope"}
		case 1:
			return op{Kind: "delegate", U: u, P: v, A: "0"}
		default:
			return op{Kind: "undelegate", U: r.Intn(3), P: v, A: Pow10(20).String()}
		}
	}
}
