package c09

// Earn source: shares = the account's vault shares (VaultShareRecord, a Dec),
// total = the vault's total shares (VaultRecord).  Real earn MsgDeposit /
// MsgWithdraw and MsgClaimEarnReward with the incentive hooks wired into the
// earn keeper as in app/app.go.
// Pools: 0 = busd vault (savings strategy), 1 = usdx vault (hard strategy, the
// share price grows with hard's supply interest, so shares are fractional),
// 2,3 = the bkava-<validator> vaults of two bonded validators (savings
// strategy).  The reward periods of pools 0,1 are ordinary entries of
// params.EarnRewardPeriods; the single "bkava" period is split among the bkava
// vaults in proportion to the value of each validator's derivative supply
// (accumulateEarnBkavaRewards) and the staking rewards of the liquid module's
// delegations are forwarded to the vaults.
// Users 0..2 deposit and withdraw.  Third parties (not model users): a minter
// who mints / burns derivatives (moves the split), two validator operators, a
// hard supplier and a hard borrower (so that hard supply interest accrues).
// Reward denoms: swp, ukava (staking rewards arrive in ukava; the users hold no
// ukava of their own).

import (
	. "kavaverif/lib"

	"fmt"
	"math/big"

	sdkmath "cosmossdk.io/math"
	"github.com/cosmos/cosmos-sdk/codec"
	sdk "github.com/cosmos/cosmos-sdk/types"
	distrtypes "github.com/cosmos/cosmos-sdk/x/distribution/types"
	"github.com/cosmos/cosmos-sdk/x/staking"
	stakingkeeper "github.com/cosmos/cosmos-sdk/x/staking/keeper"
	stakingtypes "github.com/cosmos/cosmos-sdk/x/staking/types"

	"github.com/kava-labs/kava/app"
	earnkeeper "github.com/kava-labs/kava/x/earn/keeper"
	earntypes "github.com/kava-labs/kava/x/earn/types"
	"github.com/kava-labs/kava/x/hard"
	hardtypes "github.com/kava-labs/kava/x/hard/types"
	inctypes "github.com/kava-labs/kava/x/incentive/types"
	savingstypes "github.com/kava-labs/kava/x/savings/types"
)

const (
	earnBkPool = 2 // first bkava pool; cfg.Periods[earnBkPool] is the shared "bkava" period
	// third parties
	xMinter   = 0
	xOp0      = 1
	xOp1      = 2
	xWhale    = 3
	xBorrower = 4
	nExtra    = 5
)

var earnPlain = []string{"busd", "usdx"} // vault denoms of pools 0,1

func earnStrategy(p int) earntypes.StrategyType {
	if p == 1 {
		return earntypes.STRATEGY_TYPE_HARD
	}
	return earntypes.STRATEGY_TYPE_SAVINGS
}

// bkInfo is what one accumulateBkavaEarnRewards call reads from x/liquid and
// x/distribution (recorded on a discarded branch of the state just before the block runs)
type bkInfo struct {
	p    int
	v, V *big.Int
	stk  []*big.Int // per reward denom
}

func earnGenesis(cdc codec.JSONCodec) []app.GenesisState {
	d := sdk.MustNewDecFromStr
	irm := hardtypes.NewInterestRateModel(d("0.5"), d("10"), d("0.8"), d("10"))
	hgs := hardtypes.NewGenesisState(hardtypes.NewParams(hardtypes.MoneyMarkets{
		hardtypes.NewMoneyMarket("usdx", hardtypes.NewBorrowLimit(false, d("0.0"), d("0.8")), "usdx:usd", sdkmath.NewInt(1_000_000), irm, d("0.05"), d("0.0")),
		hardtypes.NewMoneyMarket("bnb", hardtypes.NewBorrowLimit(false, d("0.0"), d("0.8")), "bnb:usd", sdkmath.NewInt(100_000_000), irm, d("0.05"), d("0.0")),
	}, d("10.0")),
		hardtypes.DefaultAccumulationTimes, hardtypes.DefaultDeposits, hardtypes.DefaultBorrows,
		hardtypes.DefaultTotalSupplied, hardtypes.DefaultTotalBorrowed, hardtypes.DefaultTotalReserves)
	sg := savingstypes.NewGenesisState(savingstypes.NewParams([]string{"busd", "bkava"}), nil)
	vaults := earntypes.AllowedVaults{
		earntypes.NewAllowedVault("busd", earntypes.StrategyTypes{earntypes.STRATEGY_TYPE_SAVINGS}, false, nil),
		earntypes.NewAllowedVault("usdx", earntypes.StrategyTypes{earntypes.STRATEGY_TYPE_HARD}, false, nil),
		earntypes.NewAllowedVault("bkava", earntypes.StrategyTypes{earntypes.STRATEGY_TYPE_SAVINGS}, false, nil),
	}
	eg := earntypes.NewGenesisState(earntypes.NewParams(vaults), earntypes.VaultRecords{}, earntypes.VaultShareRecords{})
	return []app.GenesisState{
		pfGenesis(cdc, []string{"usdx", "bnb"}, []string{"1.0", "10.0"}, false),
		{hardtypes.ModuleName: cdc.MustMarshalJSON(&hgs)},
		{savingstypes.ModuleName: cdc.MustMarshalJSON(&sg)},
		{earntypes.ModuleName: cdc.MustMarshalJSON(&eg)},
	}
}

func mustNil(err error) {
	if err != nil {
		panic(err)
	}
}

// setupEarn creates and bonds the two validators, mints derivatives of both and hands them
// to the users, and opens the hard positions that make supply interest accrue.
func (w *world) setupEarn() {
	ctx := w.ctx
	stk := w.tApp.GetStakingKeeper()
	lk := w.tApp.GetLiquidKeeper()
	bk := w.tApp.GetBankKeeper()
	hk := w.tApp.GetHardKeeper()
	srv := stakingkeeper.NewMsgServerImpl(stk)
	for i := 0; i < 2; i++ {
		val := sdk.ValAddress(w.extra[xOp0+i])
		mustNil(w.tApp.CreateNewUnbondedValidator(ctx, val, sdkmath.NewInt(int64(2_000_000+1_000_000*i))))
		w.bkVals = append(w.bkVals, val)
		w.bkDenoms = append(w.bkDenoms, lk.GetLiquidStakingTokenDenom(val))
	}
	staking.EndBlocker(ctx, stk)
	for i := 0; i < 2; i++ {
		amt := sdk.NewCoin("ukava", sdkmath.NewInt(4_000_000_000))
		_, err := srv.Delegate(sdk.WrapSDKContext(ctx), stakingtypes.NewMsgDelegate(w.extra[xMinter], w.bkVals[i], amt))
		mustNil(err)
		got, err := lk.MintDerivative(ctx, w.extra[xMinter], w.bkVals[i], sdk.NewCoin("ukava", sdkmath.NewInt(3_000_000_000)))
		mustNil(err)
		per := got.Amount.QuoRaw(4)
		for u := 0; u < w.nU; u++ {
			mustNil(bk.SendCoins(ctx, w.extra[xMinter], w.addrs[u], sdk.NewCoins(sdk.NewCoin(got.Denom, per))))
		}
	}
	hard.BeginBlocker(ctx, hk)
	mustNil(hk.Deposit(ctx, w.extra[xWhale], sdk.NewCoins(sdk.NewInt64Coin("usdx", 20_000_000_000))))
	mustNil(hk.Deposit(ctx, w.extra[xBorrower], sdk.NewCoins(sdk.NewInt64Coin("bnb", 1_000_000_000_000_000))))
	mustNil(hk.Borrow(ctx, w.extra[xBorrower], sdk.NewCoins(sdk.NewInt64Coin("usdx", 15_000_000_000))))
}

func (w *world) earnDenom(p int) string {
	if p < earnBkPool {
		return earnPlain[p]
	}
	return w.bkDenoms[p-earnBkPool]
}

// captureBk records, for the block about to run at w.ctx, what accumulateEarnBkavaRewards will
// read: which bkava vaults it visits (a vault record or global indexes exist), the derivative
// values and the staking rewards it will collect.
func (w *world) captureBk() {
	w.lastBk = nil
	found := false
	for _, rp := range w.ik.GetParams(w.ctx).EarnRewardPeriods {
		if rp.CollateralType == "bkava" {
			found = true
		}
	}
	if !found {
		return
	}
	lk := w.tApp.GetLiquidKeeper()
	ek := w.tApp.GetEarnKeeper()
	total, err := lk.GetTotalDerivativeValue(w.ctx)
	if err != nil {
		return
	}
	for p := earnBkPool; p < w.nP; p++ {
		dn := w.earnDenom(p)
		_, hasRec := ek.GetVaultRecord(w.ctx, dn)
		_, hasIdx := w.ik.GetEarnRewardIndexes(w.ctx, dn)
		if !hasRec && !hasIdx {
			continue
		}
		val, err := lk.GetDerivativeValue(w.ctx, dn)
		if err != nil {
			continue
		}
		info := bkInfo{p: p, v: val.Amount.BigInt(), V: total.Amount.BigInt()}
		cctx, _ := w.ctx.CacheContext()
		rewards, err := lk.CollectStakingRewardsByDenom(cctx, dn, inctypes.IncentiveMacc)
		if err != nil {
			rewards = nil
		}
		for d := 0; d < nDenoms; d++ {
			info.stk = append(info.stk, rewards.AmountOf(w.rd[d]).BigInt())
		}
		w.lastBk = append(w.lastBk, info)
	}
}

func (w *world) bkFor(p int) *bkInfo {
	for i := range w.lastBk {
		if w.lastBk[i].p == p {
			return &w.lastBk[i]
		}
	}
	return nil
}

func (w *world) execEarn(o op) (Class, error) {
	ek := w.tApp.GetEarnKeeper()
	stk := w.tApp.GetStakingKeeper()
	lk := w.tApp.GetLiquidKeeper()
	return Atomically(w.ctx, func(ctx sdk.Context) error {
		g := sdk.WrapSDKContext(ctx)
		switch o.Kind {
		case "earn-deposit":
			msg := earntypes.NewMsgDeposit(w.addrs[o.U].String(), sdk.Coin{Denom: w.earnDenom(o.P), Amount: sdkmath.NewIntFromBigInt(bigOf(o.A))}, earnStrategy(o.P))
			if err := msg.ValidateBasic(); err != nil {
				return err
			}
			_, err := earnkeeper.NewMsgServerImpl(ek).Deposit(g, msg)
			return err
		case "earn-withdraw":
			msg := earntypes.NewMsgWithdraw(w.addrs[o.U].String(), sdk.Coin{Denom: w.earnDenom(o.P), Amount: sdkmath.NewIntFromBigInt(bigOf(o.A))}, earnStrategy(o.P))
			if err := msg.ValidateBasic(); err != nil {
				return err
			}
			_, err := earnkeeper.NewMsgServerImpl(ek).Withdraw(g, msg)
			return err
		case "lq-mint": // the minter delegates and mints derivatives of validator P: the split of the bkava period moves
			amt := sdk.NewCoin("ukava", sdkmath.NewIntFromBigInt(bigOf(o.A)))
			if !amt.Amount.IsPositive() {
				return fmt.Errorf("invalid amount")
			}
			if _, err := stakingkeeper.NewMsgServerImpl(stk).Delegate(g, stakingtypes.NewMsgDelegate(w.extra[xMinter], w.bkVals[o.P], amt)); err != nil {
				return err
			}
			_, err := lk.MintDerivative(ctx, w.extra[xMinter], w.bkVals[o.P], amt)
			return err
		case "lq-burn":
			amt := sdk.NewCoin(w.bkDenoms[o.P], sdkmath.NewIntFromBigInt(bigOf(o.A)))
			if !amt.Amount.IsPositive() {
				return fmt.Errorf("invalid amount")
			}
			_, err := lk.BurnDerivative(ctx, w.extra[xMinter], w.bkVals[o.P], amt)
			return err
		case "stk-reward": // fees allocated to validator P by x/distribution
			coins := sdk.NewCoins(sdk.NewCoin("ukava", sdkmath.NewIntFromBigInt(bigOf(o.A))))
			if err := w.tApp.FundModuleAccount(ctx, distrtypes.ModuleName, coins); err != nil {
				return err
			}
			val := stk.Validator(ctx, w.bkVals[o.P])
			w.tApp.GetDistrKeeper().AllocateTokensToValidator(ctx, val, sdk.NewDecCoinsFromCoins(coins...))
			return nil
		case "slash": // validator P is slashed: the value of its derivative drops
			val, ok := stk.GetValidator(ctx, w.bkVals[o.P])
			if !ok {
				return fmt.Errorf("no validator")
			}
			cons, err := val.GetConsAddr()
			if err != nil {
				return err
			}
			stk.Slash(ctx, cons, ctx.BlockHeight(), val.ConsensusPower(stk.PowerReduction(ctx)), sdk.MustNewDecFromStr(o.A))
			return nil
		}
		panic("unknown earn op " + o.Kind)
	})
}

func (w *world) snapEarn(s *snap) {
	ek := w.tApp.GetEarnKeeper()
	for p := 0; p < w.nP; p++ {
		dn := w.earnDenom(p)
		if t, ok := w.ik.GetEarnRewardAccrualTime(w.ctx, dn); ok {
			s.gtime = append(s.gtime, big.NewInt(t.UnixNano()))
		} else {
			s.gtime = append(s.gtime, big.NewInt(-1))
		}
		tot := big.NewInt(0)
		if ts, ok := ek.GetVaultTotalShares(w.ctx, dn); ok {
			tot = decMant(ts.Amount)
		}
		s.tot = append(s.tot, tot)
		ris, hasIdx := w.ik.GetEarnRewardIndexes(w.ctx, dn)
		s.hasIdx = append(s.hasIdx, hasIdx)
		row := make([]*big.Int, nDenoms)
		for d := range row {
			row[d] = factorOf(ris, w.rd[d])
		}
		s.gidx = append(s.gidx, row)
		s.sumSh = append(s.sumSh, big.NewInt(0))
	}
	ek.IterateVaultShareRecords(w.ctx, func(rec earntypes.VaultShareRecord) bool {
		for p := 0; p < w.nP; p++ {
			s.sumSh[p].Add(s.sumSh[p], decMant(rec.Shares.AmountOf(w.earnDenom(p))))
		}
		return false
	})
	for u := 0; u < w.nU; u++ {
		claim, has := w.ik.GetEarnClaim(w.ctx, w.addrs[u])
		s.has = append(s.has, has)
		shares, ok := ek.GetVaultAccountShares(w.ctx, w.addrs[u])
		if !ok {
			shares = earntypes.NewVaultShares()
		}
		shRow := make([]*big.Int, w.nP)
		uiRow := make([][]*big.Int, w.nP)
		for p := 0; p < w.nP; p++ {
			dn := w.earnDenom(p)
			shRow[p] = decMant(shares.AmountOf(dn))
			uris, _ := claim.RewardIndexes.Get(dn)
			uiRow[p] = make([]*big.Int, nDenoms)
			for d := 0; d < nDenoms; d++ {
				uiRow[p][d] = factorOf(uris, w.rd[d])
			}
		}
		s.sh, s.uidx = append(s.sh, shRow), append(s.uidx, uiRow)
		sc, okS := w.ik.GetSynchronizedEarnClaim(w.ctx, w.addrs[u])
		rr, ss := make([]*big.Int, nDenoms), make([]*big.Int, nDenoms)
		for d := 0; d < nDenoms; d++ {
			rr[d], ss[d] = big.NewInt(0), big.NewInt(0)
			if has {
				rr[d] = claim.Reward.AmountOf(w.rd[d]).BigInt()
			}
			if okS {
				ss[d] = sc.Reward.AmountOf(w.rd[d]).BigInt()
			}
		}
		s.rew, s.synced = append(s.rew, rr), append(s.synced, ss)
	}
}

// ------------------------------------------------------------ generation

func (w *world) genOpEarn(r *Rng, s *snap, step int) op {
	ek := w.tApp.GetEarnKeeper()
	bk := w.tApp.GetBankKeeper()
	u := r.Intn(w.nU)
	p := r.Pick(20, 30, 30, 20)
	switch r.Pick(24, 22, 16, 5, 4, 7, 3, 15, 4) {
	case 0:
		return op{Kind: "block", Dt: w.genBlockDt(r)}
	case 1: // deposit
		have := bk.GetBalance(w.ctx, w.addrs[u], w.earnDenom(p)).Amount.BigInt()
		var x *big.Int
		switch r.Pick(35, 25, 20, 15, 5) {
		case 0:
			x = big.NewInt(int64(1000 + r.Intn(50_000_000)))
		case 1:
			x = big.NewInt(int64(1 + r.Intn(30)))
		case 2:
			x = new(big.Int).Add(Pow10(3+r.Intn(6)), big.NewInt(int64(r.Intn(5)-2)))
		case 3:
			x = new(big.Int).Quo(new(big.Int).Mul(have, big.NewInt(int64(1+r.Intn(40)))), big.NewInt(100))
		default:
			x = new(big.Int).Add(have, big.NewInt(1)) // more than the balance: refused
		}
		if x.Sign() <= 0 {
			x = big.NewInt(1)
		}
		return op{Kind: "earn-deposit", U: u, P: p, A: x.String()}
	case 2: // withdraw, preferably from a vault the user is in
		for try := 0; try < 8 && s.sh[u][p].Sign() == 0; try++ {
			u, p = r.Intn(w.nU), r.Intn(w.nP)
		}
		if s.sh[u][p].Sign() == 0 && r.Chance(4, 5) {
			return op{Kind: "earn-deposit", U: u, P: p, A: big.NewInt(int64(1000 + r.Intn(50_000_000))).String()}
		}
		val := big.NewInt(0)
		if v, err := ek.GetVaultAccountValue(w.ctx, w.earnDenom(p), w.addrs[u]); err == nil {
			val = v.Amount.BigInt()
		}
		var x *big.Int
		switch r.Pick(30, 25, 20, 15, 10) {
		case 0:
			x = new(big.Int).Set(val) // everything: the position is emptied
		case 1:
			x = new(big.Int).Quo(val, big.NewInt(2))
		case 2:
			x = new(big.Int).Quo(new(big.Int).Mul(val, big.NewInt(int64(1+r.Intn(99)))), big.NewInt(100))
		case 3:
			x = big.NewInt(int64(1 + r.Intn(20)))
		default:
			x = new(big.Int).Add(val, big.NewInt(int64(1+r.Intn(3)))) // refused
		}
		if x.Sign() <= 0 {
			x = big.NewInt(1)
		}
		return op{Kind: "earn-withdraw", U: u, P: p, A: x.String()}
	case 3: // the derivative supply of one validator grows: the split moves
		return op{Kind: "lq-mint", P: r.Intn(2), A: big.NewInt(int64(1_000_000 + r.Intn(2_000_000_000))).String()}
	case 4:
		have := bk.GetBalance(w.ctx, w.extra[xMinter], w.bkDenoms[p%2]).Amount.BigInt()
		x := new(big.Int).Quo(new(big.Int).Mul(have, big.NewInt(int64(1+r.Intn(60)))), big.NewInt(100))
		if x.Sign() <= 0 {
			x = big.NewInt(1)
		}
		return op{Kind: "lq-burn", P: p % 2, A: x.String()}
	case 5:
		return op{Kind: "stk-reward", P: r.Intn(2), A: genAmount(r).String()}
	case 6:
		return op{Kind: "slash", P: r.Intn(2), A: []string{"0.01", "0.05", "0.1", "0.000001", "0.3"}[r.Intn(5)]}
	case 7:
		d := r.Intn(nDenoms)
		for try := 0; try < 5 && s.synced[u][d].Sign() == 0; try++ {
			u, d = r.Intn(w.nU), r.Intn(nDenoms)
		}
		m := "large"
		if r.Chance(1, 2) {
			m = "small"
		}
		return op{Kind: "claim", U: u, D: d, M: m}
	default:
		switch r.Intn(4) {
		case 0:
			return op{Kind: "claim", U: u, D: r.Intn(nDenoms), M: "nope"}
		case 1:
			return op{Kind: "claim", U: u, D: nDenoms, M: "large"}
		case 2:
			return op{Kind: "earn-deposit", U: u, P: p, A: "0"}
		default:
			return op{Kind: "earn-withdraw", U: u, P: p, A: Pow10(22).String()}
		}
	}
}
