package c09

// The fixed histories: minimal witnesses of the two known findings
// "total-credited-exceeds-emission-share-total-drift" (hard, cdp) and
// "total-credited-exceeds-emission-bystander-stake-drift" (delegator) (known_findings.json;
// copies of the replay files are in /verif/corpus/C09/).  They run on every check so that the finding is
// seen to reproduce; if somebody repairs the normalisation they stop failing and the check
// says so ("known finding did not reproduce").

import "encoding/json"

const witnessHardJSON = `{"seed": 1, "history": 95, "source": "hard", "cfg": {"periods": [{"present": true, "start_off_ns": -34779000000000, "end_off_ns": -34578000000000, "rates": ["1000000000000001", "0"]}, {"present": true, "start_off_ns": -70918000000000, "end_off_ns": -70628000000000, "rates": ["2074", "8"]}, {"present": true, "start_off_ns": 2000000000, "end_off_ns": 5961602000000000, "rates": ["2265972", "4517833"]}, {"present": true, "start_off_ns": 5500000000, "end_off_ns": 40683702934, "rates": ["3634384", "1"]}], "claim_end_off_ns": 182000000000, "mults": [[{"name": "small", "months": 1, "factor": "0.999999999999999999"}, {"name": "large", "months": 12, "factor": "1.0"}], [{"name": "small", "months": 1, "factor": "0.0"}, {"name": "large", "months": 12, "factor": "1.0"}]], "macc": ["1000000000000000000000000000000", "1000000000000000000000000000000"], "interest": "0.5"}, "ops": [{"kind": "hard-deposit", "u": 3, "p": 0, "a": "2880315465", "d": 0}, {"kind": "hard-borrow", "u": 3, "p": 2, "a": "1000", "d": 0}, {"kind": "block", "u": 0, "p": 0, "dt_ns": 396076000000000, "d": 0}]}`

const witnessCdpJSON = `{"seed": 1, "history": 71, "source": "cdp", "cfg": {"periods": [{"present": true, "start_off_ns": 172000000000, "end_off_ns": 313000000000, "rates": ["100000000001", "0"]}, {"present": true, "start_off_ns": 8500000000, "end_off_ns": 8121608500000000, "rates": ["8", "0"]}], "claim_end_off_ns": 157680000000000000, "mults": [[{"name": "small", "months": 0, "factor": "0.2"}, {"name": "large", "months": 12, "factor": "1.0"}], [{"name": "small", "months": 1, "factor": "0.2"}, {"name": "large", "months": 12, "factor": "1.0"}]], "macc": ["1000000000000000000000000000000", "1000000000000000000000000000000"], "interest": "1.000000051034942716"}, "ops": [{"kind": "block", "u": 0, "p": 0, "dt_ns": 2000000000, "d": 0}, {"kind": "block", "u": 0, "p": 0, "dt_ns": 3500000000, "d": 0}, {"kind": "block", "u": 0, "p": 0, "dt_ns": 167500000000, "d": 0}, {"kind": "cdp-create", "u": 2, "p": 0, "a": "32177891", "b": "42903854", "d": 0}, {"kind": "block", "u": 0, "p": 0, "dt_ns": 499999999, "d": 0}, {"kind": "block", "u": 0, "p": 0, "dt_ns": 1500000001, "d": 0}]}`

const witnessDelegJSON = `{"seed": 1, "history": 93, "source": "delegator", "cfg": {"periods": [{"present": true, "start_off_ns": 6500000000, "end_off_ns": 2246406500000000, "rates": ["641198897724073921", "1"]}], "claim_end_off_ns": 157680000000000000, "mults": [[{"name": "small", "months": 1, "factor": "0.999999999999999999"}, {"name": "large", "months": 12, "factor": "1.0"}], [{"name": "small", "months": 0, "factor": "0.999999999999999999"}, {"name": "large", "months": 12, "factor": "1.0"}]], "macc": ["1000000000000000000000000000000", "1000000000000000000000000000000"], "max_vals": 2}, "ops": [{"kind": "mkval", "u": 3, "p": 0, "a": "3355080", "d": 0}, {"kind": "mkval", "u": 4, "p": 0, "a": "2338530", "d": 0}, {"kind": "endblock", "u": 0, "p": 0, "d": 0}, {"kind": "delegate", "u": 1, "p": 0, "a": "289993556134", "d": 0}, {"kind": "delegate", "u": 0, "p": 0, "a": "9999998", "d": 0}, {"kind": "undelegate", "u": 0, "p": 0, "a": "4999999", "d": 0}, {"kind": "undelegate", "u": 0, "p": 0, "a": "2499999", "d": 0}, {"kind": "val-slash", "u": 0, "p": 0, "a": "0.01", "d": 0}, {"kind": "block", "u": 0, "p": 0, "dt_ns": 89607661571, "d": 0}, {"kind": "redelegate", "u": 0, "p": 0, "a": "247500", "d": 2}]}`

func fixedHists() []hist {
	var out []hist
	for _, js := range []string{witnessHardJSON, witnessCdpJSON, witnessDelegJSON} {
		var h hist
		if err := json.Unmarshal([]byte(js), &h); err != nil {
			panic(err)
		}
		out = append(out, h)
	}
	return out
}
