package c09

// CDP USDX-minting source: shares = the CDP's normalized principal
// ((principal + fees) / interest factor, CDP.GetNormalizedPrincipal), total =
// total principal of the collateral type / global interest factor
// (rewards_usdx.go getUSDXTotalSourceShares).  Real MsgCreateCDP, MsgDrawDebt,
// MsgRepayDebt, MsgDeposit, MsgWithdraw, MsgLiquidate of x/cdp and
// MsgClaimUSDXMintingReward; prices are moved through the pricefeed keeper.
// Pools = collateral types; the only reward denom is ukava (users hold no
// ukava, so the reward balance is exact).  The stability fee is 1.0 in this
// harness (interest factor stays 1, normalized principal = principal), so
// the total is exactly the sum of the CDPs' shares.
// Users 0..2 own CDPs; user 3 is the keeper / third-party depositor.

import (
	. "kavaverif/lib"

	"fmt"
	"math/big"
	"time"

	sdkmath "cosmossdk.io/math"
	"github.com/cosmos/cosmos-sdk/codec"
	sdk "github.com/cosmos/cosmos-sdk/types"

	"github.com/kava-labs/kava/app"
	cdpkeeper "github.com/kava-labs/kava/x/cdp/keeper"
	cdptypes "github.com/kava-labs/kava/x/cdp/types"
	pftypes "github.com/kava-labs/kava/x/pricefeed/types"
)

var (
	cdpTypes  = []string{"bnb-a", "xrp-a"}
	cdpDenoms = []string{"bnb", "xrp"}
	cdpPrice0 = []string{"10.0", "2.0"}
)

func pfGenesis(cdc codec.JSONCodec, assets []string, prices []string, with30 bool) app.GenesisState {
	pf := pftypes.GenesisState{}
	add := func(id, base, price string) {
		pf.Params.Markets = append(pf.Params.Markets, pftypes.Market{MarketID: id, BaseAsset: base, QuoteAsset: "usd", Oracles: []sdk.AccAddress{}, Active: true})
		pf.PostedPrices = append(pf.PostedPrices, pftypes.PostedPrice{MarketID: id, OracleAddress: sdk.AccAddress{}, Price: sdk.MustNewDecFromStr(price), Expiry: GenesisTime.Add(1000000 * time.Hour)})
	}
	for i, a := range assets {
		add(a+":usd", a, prices[i])
		if with30 {
			add(a+":usd:30", a, prices[i])
		}
	}
	return app.GenesisState{pftypes.ModuleName: cdc.MustMarshalJSON(&pf)}
}

func cdpGenesis(cdc codec.JSONCodec, cfg *histCfg) []app.GenesisState {
	fee := sdk.OneDec()
	if cfg.hasInterest() {
		fee = sdk.MustNewDecFromStr(cfg.Interest)
	}
	cg := cdptypes.GenesisState{
		Params: cdptypes.Params{
			GlobalDebtLimit:          sdk.NewCoin("usdx", sdkmath.NewIntFromBigInt(Pow10(20))),
			SurplusAuctionThreshold:  sdkmath.NewIntFromBigInt(Pow10(12)),
			SurplusAuctionLot:        sdkmath.NewIntFromBigInt(Pow10(10)),
			DebtAuctionThreshold:     sdkmath.NewIntFromBigInt(Pow10(14)),
			DebtAuctionLot:           sdkmath.NewIntFromBigInt(Pow10(10)),
			LiquidationBlockInterval: 3,
			DebtParam: cdptypes.DebtParam{Denom: "usdx", ReferenceAsset: "usd", ConversionFactor: sdkmath.NewInt(6),
				DebtFloor: sdkmath.NewInt(10)},
		},
		StartingCdpID: cdptypes.DefaultCdpStartingID,
		DebtDenom:     cdptypes.DefaultDebtDenom,
		GovDenom:      cdptypes.DefaultGovDenom,
		CDPs:          cdptypes.CDPs{},
	}
	for i, t := range cdpTypes {
		cg.Params.CollateralParams = append(cg.Params.CollateralParams, cdptypes.CollateralParam{
			Denom: cdpDenoms[i], Type: t, LiquidationRatio: sdk.MustNewDecFromStr("1.5"),
			DebtLimit:    sdk.NewCoin("usdx", sdkmath.NewIntFromBigInt(Pow10(19))),
			StabilityFee: fee, AuctionSize: sdkmath.NewIntFromBigInt(Pow10(13)),
			LiquidationPenalty: sdk.MustNewDecFromStr("0.05"), SpotMarketID: cdpDenoms[i] + ":usd", LiquidationMarketID: cdpDenoms[i] + ":usd:30",
			KeeperRewardPercentage: sdk.MustNewDecFromStr("0.01"), CheckCollateralizationIndexCount: sdkmath.NewInt(10),
			ConversionFactor: sdkmath.NewInt(6),
		})
		cg.PreviousAccumulationTimes = append(cg.PreviousAccumulationTimes, cdptypes.NewGenesisAccumulationTime(t, GenesisTime, sdk.OneDec()))
		cg.TotalPrincipals = append(cg.TotalPrincipals, cdptypes.NewGenesisTotalPrincipal(t, sdk.ZeroInt()))
	}
	return []app.GenesisState{
		pfGenesis(cdc, cdpDenoms, cdpPrice0, true),
		{cdptypes.ModuleName: cdc.MustMarshalJSON(&cg)},
	}
}

// execPrice posts a new price for asset P (cdp: bnb/xrp; hard: bnb) on all its markets
func (w *world) execPrice(o op) (Class, error) {
	asset := "bnb"
	if w.src == "cdp" {
		asset = cdpDenoms[o.P]
	}
	return Atomically(w.ctx, func(ctx sdk.Context) error {
		pk := w.tApp.GetPriceFeedKeeper()
		for _, id := range []string{asset + ":usd", asset + ":usd:30"} {
			if _, ok := pk.GetMarket(ctx, id); !ok {
				continue
			}
			if _, err := pk.SetPrice(ctx, sdk.AccAddress{}, id, sdk.MustNewDecFromStr(o.A), GenesisTime.Add(1000000*time.Hour)); err != nil {
				return err
			}
			if err := pk.SetCurrentPrices(ctx, id); err != nil {
				return err
			}
		}
		return nil
	})
}

func (w *world) execCdp(o op) (Class, error) {
	ck := w.tApp.GetCDPKeeper()
	srv := cdpkeeper.NewMsgServerImpl(ck)
	t := cdpTypes[o.P]
	coll := func(a string) sdk.Coin {
		return sdk.Coin{Denom: cdpDenoms[o.P], Amount: sdkmath.NewIntFromBigInt(bigOf(a))}
	}
	usdx := func(a string) sdk.Coin { return sdk.Coin{Denom: "usdx", Amount: sdkmath.NewIntFromBigInt(bigOf(a))} }
	return Atomically(w.ctx, func(ctx sdk.Context) error {
		g := sdk.WrapSDKContext(ctx)
		switch o.Kind {
		case "cdp-create":
			msg := cdptypes.NewMsgCreateCDP(w.addrs[o.U], coll(o.A), usdx(o.B), t)
			if err := msg.ValidateBasic(); err != nil {
				return err
			}
			_, err := srv.CreateCDP(g, &msg)
			return err
		case "cdp-draw":
			msg := cdptypes.NewMsgDrawDebt(w.addrs[o.U], t, usdx(o.A))
			if err := msg.ValidateBasic(); err != nil {
				return err
			}
			_, err := srv.DrawDebt(g, &msg)
			return err
		case "cdp-repay":
			msg := cdptypes.NewMsgRepayDebt(w.addrs[o.U], t, usdx(o.A))
			if err := msg.ValidateBasic(); err != nil {
				return err
			}
			_, err := srv.RepayDebt(g, &msg)
			return err
		case "cdp-deposit": // K deposits collateral into U's cdp
			msg := cdptypes.NewMsgDeposit(w.addrs[o.U], w.addrs[o.K], coll(o.A), t)
			if err := msg.ValidateBasic(); err != nil {
				return err
			}
			_, err := srv.Deposit(g, &msg)
			return err
		case "cdp-withdraw":
			msg := cdptypes.NewMsgWithdraw(w.addrs[o.U], w.addrs[o.K], coll(o.A), t)
			if err := msg.ValidateBasic(); err != nil {
				return err
			}
			_, err := srv.Withdraw(g, &msg)
			return err
		case "cdp-liquidate": // keeper K liquidates U's cdp
			msg := cdptypes.NewMsgLiquidate(w.addrs[o.K], w.addrs[o.U], t)
			if err := msg.ValidateBasic(); err != nil {
				return err
			}
			_, err := srv.Liquidate(g, &msg)
			return err
		}
		panic("unknown cdp op " + o.Kind)
	})
}

func (w *world) snapCdp(s *snap) {
	ck := w.tApp.GetCDPKeeper()
	for p, t := range cdpTypes {
		if at, ok := w.ik.GetPreviousUSDXMintingAccrualTime(w.ctx, t); ok {
			s.gtime = append(s.gtime, big.NewInt(at.UnixNano()))
		} else {
			s.gtime = append(s.gtime, big.NewInt(-1))
		}
		fac, ok := ck.GetInterestFactor(w.ctx, t)
		if !ok {
			fac = sdk.OneDec()
		}
		s.tot = append(s.tot, decMant(sdk.NewDecFromInt(ck.GetTotalPrincipal(w.ctx, t, "usdx")).Quo(fac)))
		g := big.NewInt(0)
		if f, ok := w.ik.GetUSDXMintingRewardFactor(w.ctx, t); ok {
			g = decMant(f)
		}
		s.gidx = append(s.gidx, []*big.Int{g, big.NewInt(0)})
		sum := big.NewInt(0)
		for _, c := range ck.GetAllCdpsByCollateralType(w.ctx, t) {
			if np, err := c.GetNormalizedPrincipal(); err == nil {
				sum.Add(sum, decMant(np))
			}
		}
		s.sumSh = append(s.sumSh, sum)
		_ = p
	}
	for u := 0; u < w.nU; u++ {
		claim, has := w.ik.GetUSDXMintingClaim(w.ctx, w.addrs[u])
		s.has = append(s.has, has)
		shRow := make([]*big.Int, w.nP)
		uiRow := make([][]*big.Int, w.nP)
		for p, t := range cdpTypes {
			shRow[p] = big.NewInt(0)
			if c, ok := ck.GetCdpByOwnerAndCollateralType(w.ctx, w.addrs[u], t); ok {
				if np, err := c.GetNormalizedPrincipal(); err == nil {
					shRow[p] = decMant(np)
				}
			}
			uiRow[p] = []*big.Int{big.NewInt(0), big.NewInt(0)}
			if has {
				if f, ok := claim.RewardIndexes.Get(t); ok {
					uiRow[p][0] = decMant(f)
				}
			}
		}
		s.sh, s.uidx = append(s.sh, shRow), append(s.uidx, uiRow)
		rr, ss := []*big.Int{big.NewInt(0), big.NewInt(0)}, []*big.Int{big.NewInt(0), big.NewInt(0)}
		if has {
			rr[0] = claim.Reward.Amount.BigInt()
			cctx, _ := w.ctx.CacheContext()
			if sc, err := w.ik.SynchronizeUSDXMintingClaim(cctx, claim); err == nil {
				ss[0] = sc.Reward.Amount.BigInt()
			}
		}
		s.rew, s.synced = append(s.rew, rr), append(s.synced, ss)
	}
}

// ------------------------------------------------------------ generation

func (w *world) cdpOf(u, p int) (cdptypes.CDP, bool) {
	return w.tApp.GetCDPKeeper().GetCdpByOwnerAndCollateralType(w.ctx, w.addrs[u], cdpTypes[p])
}

// price of asset p as an integer number of 1/100 usd
func (w *world) priceCents(id string) *big.Int {
	cp, err := w.tApp.GetPriceFeedKeeper().GetCurrentPrice(w.ctx, id)
	if err != nil {
		return big.NewInt(0)
	}
	return cp.Price.MulInt64(100).TruncateInt().BigInt()
}

func (w *world) genOpCdp(r *Rng, s *snap, step int) op {
	u := r.Intn(3)
	p := r.Pick(60, 40)
	c, has := w.cdpOf(u, p)
	price := w.priceCents(cdpDenoms[p] + ":usd")
	// the largest principal the collateral supports at the liquidation ratio 1.5 (same conversion factors)
	maxDebt := func(coll *big.Int) *big.Int {
		x := new(big.Int).Mul(coll, price)
		return x.Quo(x, big.NewInt(150))
	}
	switch r.Pick(24, 16, 14, 9, 5, 4, 6, 5, 14, 3) {
	case 0:
		return op{Kind: "block", Dt: w.genBlockDt(r)}
	case 1: // create (refused when the owner already has a cdp of the type)
		for try := 0; try < 3 && has; try++ {
			u, p = r.Intn(3), r.Intn(2)
			c, has = w.cdpOf(u, p)
			price = w.priceCents(cdpDenoms[p] + ":usd")
		}
		coll := big.NewInt(int64(1000 + r.Intn(50_000_000)))
		if r.Chance(1, 4) {
			coll = genAmount(r)
		}
		md := maxDebt(coll)
		debt := new(big.Int).Quo(new(big.Int).Mul(md, big.NewInt(int64(5+r.Intn(95)))), big.NewInt(100))
		if r.Chance(1, 10) {
			debt = new(big.Int).Add(md, big.NewInt(int64(r.Intn(3)))) // at / just over the limit
		}
		if debt.Cmp(big.NewInt(10)) < 0 {
			debt = big.NewInt(int64(10 + r.Intn(20)))
		}
		return op{Kind: "cdp-create", U: u, P: p, A: coll.String(), B: debt.String()}
	case 2: // draw
		for try := 0; try < 4 && !has; try++ {
			u, p = r.Intn(3), r.Intn(2)
			c, has = w.cdpOf(u, p)
			price = w.priceCents(cdpDenoms[p] + ":usd")
		}
		x := big.NewInt(int64(1 + r.Intn(1000)))
		if has {
			room := new(big.Int).Sub(maxDebt(c.Collateral.Amount.BigInt()), c.GetTotalPrincipal().Amount.BigInt())
			switch r.Pick(50, 20, 15, 15) {
			case 0:
				x = new(big.Int).Quo(new(big.Int).Mul(room, big.NewInt(int64(1+r.Intn(90)))), big.NewInt(100))
			case 1:
				x = big.NewInt(int64(1 + r.Intn(50)))
			case 2:
				x = new(big.Int).Add(room, big.NewInt(int64(r.Intn(5)-2)))
			default:
				x = new(big.Int).Quo(room, big.NewInt(2))
			}
		}
		if x.Sign() <= 0 {
			x = big.NewInt(1)
		}
		return op{Kind: "cdp-draw", U: u, P: p, A: x.String()}
	case 3: // repay
		for try := 0; try < 4 && !has; try++ {
			u, p = r.Intn(3), r.Intn(2)
			c, has = w.cdpOf(u, p)
		}
		x := big.NewInt(int64(1 + r.Intn(1000)))
		if has {
			debt := c.GetTotalPrincipal().Amount.BigInt()
			switch r.Pick(30, 30, 25, 15) {
			case 0:
				x = new(big.Int).Set(debt) // closes the cdp
			case 1:
				x = new(big.Int).Quo(debt, big.NewInt(2))
			case 2:
				x = new(big.Int).Quo(new(big.Int).Mul(debt, big.NewInt(int64(1+r.Intn(80)))), big.NewInt(100))
			default:
				x = new(big.Int).Sub(debt, big.NewInt(int64(1+r.Intn(12)))) // leaves less than the debt floor: refused
			}
		}
		if x.Sign() <= 0 {
			x = big.NewInt(1)
		}
		return op{Kind: "cdp-repay", U: u, P: p, A: x.String()}
	case 4: // collateral deposit by the owner or by the third party
		for try := 0; try < 4 && !has; try++ {
			u, p = r.Intn(3), r.Intn(2)
			_, has = w.cdpOf(u, p)
		}
		k := u
		if r.Chance(1, 2) {
			k = 3
		}
		return op{Kind: "cdp-deposit", U: u, K: k, P: p, A: big.NewInt(int64(1 + r.Intn(1_000_000))).String()}
	case 5:
		for try := 0; try < 4 && !has; try++ {
			u, p = r.Intn(3), r.Intn(2)
			_, has = w.cdpOf(u, p)
		}
		return op{Kind: "cdp-withdraw", U: u, K: u, P: p, A: big.NewInt(int64(1 + r.Intn(100_000))).String()}
	case 6: // price move: down makes cdps liquidatable
		prices := [][]string{{"10.0", "7.0", "5.0", "3.5", "12.0", "1.0"}, {"2.0", "1.4", "1.0", "0.5", "3.0"}}[p]
		return op{Kind: "price", P: p, A: prices[r.Intn(len(prices))]}
	case 7: // liquidation by the keeper: prefer a cdp below the ratio
		for try := 0; try < 6; try++ {
			u, p = r.Intn(3), r.Intn(2)
			if c, ok := w.cdpOf(u, p); ok {
				pr := w.priceCents(cdpDenoms[p] + ":usd:30")
				val := new(big.Int).Mul(c.Collateral.Amount.BigInt(), pr)
				need := new(big.Int).Mul(c.GetTotalPrincipal().Amount.BigInt(), big.NewInt(150))
				if val.Cmp(need) < 0 {
					break
				}
			}
		}
		return op{Kind: "cdp-liquidate", U: u, K: 3, P: p}
	case 8:
		for try := 0; try < 5 && s.synced[u][0].Sign() == 0; try++ {
			u = r.Intn(w.nU)
		}
		m := "large"
		if r.Chance(1, 2) {
			m = "small"
		}
		return op{Kind: "claim", U: u, D: 0, M: m}
	default:
		switch r.Intn(3) {
		case 0:
			return op{Kind: "claim", U: u, D: 0, M: "nope"}
		case 1:
			return op{Kind: "cdp-draw", U: 3, P: p, A: "5"} // no cdp
		default:
			return op{Kind: "cdp-repay", U: u, P: p, A: fmt.Sprint(Pow10(15))}
		}
	}
}
