package c09

// C09 — x/incentive rewards, source: x/swap pool shares.
//
// The driver sends the SOURCE module's real messages (swap MsgDeposit,
// MsgWithdraw, MsgSwapExactForTokens), incentive's MsgClaimSwapReward, and
// advances blocks with incentive.BeginBlocker on a fresh app.TestApp with all
// hooks wired as in app/app.go.  Monitors state the property directly on the
// implementation (own exact-rational integral of rate*share/total over the
// observed share history, emission bound, non-interference, exact claims);
// the same histories are written as Coq terms for Model/Incentive.v, which
// receives only (user, pool, new shares, new total) and block times.

import (
	. "kavaverif/lib"

	"encoding/json"
	"fmt"
	"math/big"
	"os"
	"strings"
	"time"

	sdkmath "cosmossdk.io/math"
	sdk "github.com/cosmos/cosmos-sdk/types"

	abci "github.com/cometbft/cometbft/abci/types"

	"github.com/kava-labs/kava/app"
	"github.com/kava-labs/kava/x/cdp"
	"github.com/kava-labs/kava/x/hard"
	"github.com/kava-labs/kava/x/incentive"
	inckeeper "github.com/kava-labs/kava/x/incentive/keeper"
	inctypes "github.com/kava-labs/kava/x/incentive/types"
	swapkeeper "github.com/kava-labs/kava/x/swap/keeper"
	swaptypes "github.com/kava-labs/kava/x/swap/types"
)

func init() { Registry["C09"] = runC09 }

const (
	nDenoms  = 2
	defaultL = 40
	header   = "From Kava Require Import Base.Prelude Model.Accumulator Model.Incentive."
)

var (
	rewardDenoms = []string{"hard", "swp"} // reward denom index = position (string order)
	poolTokens   = [][2]string{{"bnb", "usdx"}, {"ukava", "usdx"}, {"bnb", "ukava"}}
	prec         = Pow10(18)
	nsPerSec     = big.NewInt(1_000_000_000)
)

func poolID(p int) string { return swaptypes.PoolID(poolTokens[p][0], poolTokens[p][1]) }

// ------------------------------------------------------------ configuration

type periodCfg struct {
	Present  bool     `json:"present"`
	StartOff int64    `json:"start_off_ns"` // relative to the genesis time
	EndOff   int64    `json:"end_off_ns"`
	Rates    []string `json:"rates"` // per reward denom, "0" = not rewarded
}

type multCfg struct {
	Name   string `json:"name"`
	Months int64  `json:"months"`
	Factor string `json:"factor"` // decimal string
}

type histCfg struct {
	Periods     []periodCfg `json:"periods"`
	ClaimEndOff int64       `json:"claim_end_off_ns"`
	Mults       [][]multCfg `json:"mults"` // per reward denom
	Macc        []string    `json:"macc"`  // funding of the incentive module account per reward denom
	// cdp: the stability fee per second ("" or "1.0" = none); hard: the base APY of the interest model ("" = all-zero model)
	Interest string `json:"interest,omitempty"`
	// delegator: staking MaxValidators (0 = the default 100); with 2 the weakest of the three validators is outside the bonded set
	MaxVals int `json:"max_vals,omitempty"`
}

func (c *histCfg) hasInterest() bool { return c.Interest != "" && c.Interest != "1.0" }

type op struct {
	Kind string `json:"kind"`        // block | deposit | withdraw | trade | claim
	U    int    `json:"u"`           // the user whose position (or claim) the operation is about
	K    int    `json:"k,omitempty"` // the sender when it is somebody else (keeper, third-party depositor / repayer)
	P    int    `json:"p"`
	Dt   int64  `json:"dt_ns,omitempty"`
	A    string `json:"a,omitempty"` // deposit: token A amount; withdraw: shares; trade: input amount
	B    string `json:"b,omitempty"` // deposit: token B amount
	Slip string `json:"slip,omitempty"`
	D    int    `json:"d"`           // claim: reward denom index (nDenoms = unknown denom)
	M    string `json:"m,omitempty"` // claim: multiplier name
	// params: the reward period of pool P is replaced by PC (absent = removed); CE != 0: new claim end offset
	PC *periodCfg `json:"pc,omitempty"`
	CE int64      `json:"ce_ns,omitempty"`
}

type hist struct {
	Seed uint64  `json:"seed"`
	Idx  int     `json:"history"`
	Src  string  `json:"source"` // swap | delegator
	Cfg  histCfg `json:"cfg"`
	Ops  []op    `json:"ops"`
}

// dimensions of a source: users and pools (collateral types) of the model instance
func dimsOf(src string) (nU, nP int) {
	switch src {
	case "delegator":
		return 5, 1 // users 0..2 delegators, 3..4 validator operators; one "pool": the bond denom
	case "cdp":
		return 4, 2 // users 0..2 cdp owners, 3 keeper/third-party depositor; pools = collateral types
	case "hard":
		return 4, 4 // pools 0,1 = supply of hardDenoms; 2,3 = borrow of hardDenoms
	case "earn":
		return 3, 4 // pools 0,1 = busd, usdx vaults; 2,3 = the bkava vaults of two validators
	}
	return 3, 3
}

// reward denoms of a source, in string order (index = model denom)
func rdOf(src string) []string {
	if src == "cdp" {
		return []string{"ukava", "zzz"} // USDX minting pays ukava only; the second denom is never rewarded
	}
	if src == "earn" {
		return []string{"swp", "ukava"} // forwarded staking rewards arrive in ukava
	}
	return rewardDenoms
}

// does the source guarantee total = sum of the share records exactly
func exactOf(src string, cfg *histCfg) bool {
	return src == "swap" || src == "earn" || (src == "cdp" && !cfg.hasInterest())
}

func bigOf(s string) *big.Int {
	x, ok := new(big.Int).SetString(s, 10)
	if !ok {
		return big.NewInt(0)
	}
	return x
}

func genCfg(r *Rng, src string, nPools int) histCfg {
	sec := int64(1_000_000_000)
	c := histCfg{}
	for p := 0; p < nPools; p++ {
		pc := periodCfg{Rates: []string{"0", "0"}}
		present := true
		if p == 2 && src != "earn" {
			present = r.Chance(1, 3)
		} else if r.Chance(1, 12) {
			present = false
		}
		pc.Present = present
		switch r.Pick(25, 45, 15, 15) {
		case 0: // started before genesis
			pc.StartOff = -int64(1+r.Intn(86400)) * sec
		case 1: // starts late, on a whole second
			pc.StartOff = int64(r.Intn(200)) * sec
		case 2: // starts late, off a whole second
			pc.StartOff = int64(r.Intn(200))*sec + r.Int63n(sec)
		default:
			pc.StartOff = int64(r.Intn(30))*sec + sec/2
		}
		switch r.Pick(35, 40, 15, 10) {
		case 0: // far end
			pc.EndOff = pc.StartOff + int64(1+r.Intn(400))*86400*sec
		case 1: // ends early
			pc.EndOff = pc.StartOff + int64(5+r.Intn(300))*sec
		case 2:
			pc.EndOff = pc.StartOff + int64(r.Intn(100))*sec + r.Int63n(sec)
		default: // empty or one-second window
			pc.EndOff = pc.StartOff + int64(r.Intn(2))*sec
		}
		if pc.EndOff < 1 && pc.StartOff < 0 && r.Chance(1, 2) {
			pc.EndOff = int64(20+r.Intn(200)) * sec
		}
		genRate := func() string {
			switch r.Pick(25, 25, 25, 15, 10) {
			case 0:
				return fmt.Sprint(1 + r.Intn(10))
			case 1:
				return fmt.Sprint(100 + r.Intn(5000))
			case 2:
				return fmt.Sprint(100000 + r.Intn(5000000))
			case 3:
				return new(big.Int).Add(Pow10(6+r.Intn(10)), big.NewInt(int64(r.Intn(3)-1))).String()
			default:
				return r.BigBits(20 + r.Intn(60)).String()
			}
		}
		switch r.Pick(50, 25, 25) {
		case 0:
			pc.Rates[0], pc.Rates[1] = genRate(), genRate()
		case 1:
			pc.Rates[0] = genRate()
		default:
			pc.Rates[1] = genRate()
		}
		for d := range pc.Rates {
			if bigOf(pc.Rates[d]).Sign() <= 0 {
				pc.Rates[d] = "0"
			}
		}
		if pc.Rates[0] == "0" && pc.Rates[1] == "0" {
			pc.Rates[0] = "7"
		}
		if src == "cdp" { // USDX minting rewards are a single ukava coin
			pc.Rates[1] = "0"
			if pc.Rates[0] == "0" {
				pc.Rates[0] = genRate()
			}
			if bigOf(pc.Rates[0]).Sign() <= 0 {
				pc.Rates[0] = "7"
			}
		}
		c.Periods = append(c.Periods, pc)
	}
	if r.Chance(1, 5) {
		c.ClaimEndOff = int64(20+r.Intn(300)) * sec
	} else {
		c.ClaimEndOff = 5 * 365 * 86400 * sec
	}
	factors := []string{"0.2", "0.333333333333333333", "0.5", "0.25", "0.000000000000000001", "0.999999999999999999", "1.5"}
	for d := 0; d < nDenoms; d++ {
		ms := []multCfg{
			{"small", int64(r.Intn(2)), factors[r.Intn(len(factors))]},
			{"large", 12, "1.0"},
		}
		if r.Chance(1, 6) {
			ms[1].Months = 0
		}
		if r.Chance(1, 15) {
			ms[0].Factor = "0.0"
		}
		c.Mults = append(c.Mults, ms)
	}
	// two of three cdp / hard histories run with interest (the others keep total = sum of shares exact)
	if src == "cdp" && r.Chance(2, 3) {
		c.Interest = []string{"1.000000001547125958", "1.00000002", "1.00000005", "1.000000051034942716"}[r.Intn(4)]
	}
	if src == "delegator" && r.Chance(1, 2) {
		c.MaxVals = 2
	}
	if src == "hard" && r.Chance(2, 3) {
		c.Interest = []string{"0.05", "0.5", "0.99"}[r.Intn(3)]
	}
	for d := 0; d < nDenoms; d++ {
		if r.Chance(1, 7) {
			c.Macc = append(c.Macc, fmt.Sprint(r.Intn(2000)))
		} else {
			c.Macc = append(c.Macc, Pow10(30).String())
		}
	}
	return c
}

// ------------------------------------------------------------ world

type world struct {
	src    string
	rd     []string // reward denoms
	nU, nP int
	vals   []sdk.ValAddress // delegator source: validators created so far
	tApp   app.TestApp
	ctx    sdk.Context
	height int64
	t      time.Time
	ik     inckeeper.Keeper
	sk     swapkeeper.Keeper
	addrs  []sdk.AccAddress
	cfg    histCfg
	t0     int64 // genesis time, unix nanoseconds
	// earn source
	extra    []sdk.AccAddress // third parties (not model users)
	bkVals   []sdk.ValAddress
	bkDenoms []string
	lastBk   []bkInfo // what the bkava accumulation of the last block read from x/liquid and x/distribution
	tried    histCfg  // the configuration the last params operation asked for
}

// incParams builds the incentive params of a configuration: the reward periods of the source, the
// claim end and the multipliers (used for the genesis and for parameter changes in a history)
func incParams(src string, cfg *histCfg, rd []string) inctypes.Params {
	t0 := GenesisTime
	params := inctypes.DefaultParams()
	for p, pc := range cfg.Periods {
		if !pc.Present {
			continue
		}
		var rates sdk.Coins
		for d, rs := range pc.Rates {
			if amt := bigOf(rs); amt.Sign() > 0 {
				rates = rates.Add(sdk.NewCoin(rd[d], sdkmath.NewIntFromBigInt(amt)))
			}
		}
		start, end := t0.Add(time.Duration(pc.StartOff)), t0.Add(time.Duration(pc.EndOff))
		if src == "cdp" {
			rate := sdk.NewCoin(rd[0], sdk.ZeroInt())
			if len(rates) > 0 {
				rate = rates[0]
			}
			params.USDXMintingRewardPeriods = append(params.USDXMintingRewardPeriods,
				inctypes.NewRewardPeriod(true, cdpTypes[p], start, end, rate))
		} else if src == "hard" && p < 2 {
			params.HardSupplyRewardPeriods = append(params.HardSupplyRewardPeriods,
				inctypes.NewMultiRewardPeriod(true, hardDenoms[p], start, end, rates))
		} else if src == "hard" {
			params.HardBorrowRewardPeriods = append(params.HardBorrowRewardPeriods,
				inctypes.NewMultiRewardPeriod(true, hardDenoms[p-2], start, end, rates))
		} else if src == "earn" {
			if p > earnBkPool {
				continue // the bkava vaults share the single "bkava" period (cfg.Periods[earnBkPool])
			}
			ct := "bkava"
			if p < earnBkPool {
				ct = earnPlain[p]
			}
			params.EarnRewardPeriods = append(params.EarnRewardPeriods,
				inctypes.NewMultiRewardPeriod(true, ct, start, end, rates))
		} else if src == "delegator" {
			params.DelegatorRewardPeriods = append(params.DelegatorRewardPeriods,
				inctypes.NewMultiRewardPeriod(true, inctypes.BondDenom, start, end, rates))
		} else {
			params.SwapRewardPeriods = append(params.SwapRewardPeriods,
				inctypes.NewMultiRewardPeriod(true, poolID(p), start, end, rates))
		}
	}
	params.ClaimEnd = t0.Add(time.Duration(cfg.ClaimEndOff))
	for d, ms := range cfg.Mults {
		var mm inctypes.Multipliers
		for _, m := range ms {
			mm = append(mm, inctypes.NewMultiplier(m.Name, m.Months, sdk.MustNewDecFromStr(m.Factor)))
		}
		params.ClaimMultipliers = append(params.ClaimMultipliers, inctypes.MultipliersPerDenom{Denom: rd[d], Multipliers: mm})
	}
	return params
}

func setup(src string, cfg histCfg) *world {
	// the periods change during a history (parameter changes): work on a copy
	cfg.Periods = append([]periodCfg(nil), cfg.Periods...)
	for i := range cfg.Periods {
		cfg.Periods[i].Rates = append([]string(nil), cfg.Periods[i].Rates...)
	}
	tApp := NewApp()
	nUsers, nPools := dimsOf(src)
	rd := rdOf(src)
	all := Addrs(nUsers + nExtra)
	users, extra := all[:nUsers], all[nUsers:]
	cdc := tApp.AppCodec()
	b := app.NewAuthBankGenesisBuilder()
	funds := sdk.NewCoins(
		sdk.NewCoin("bnb", sdkmath.NewIntFromBigInt(Pow10(24))),
		sdk.NewCoin("ukava", sdkmath.NewIntFromBigInt(Pow10(24))),
		sdk.NewCoin("usdx", sdkmath.NewIntFromBigInt(Pow10(24))),
	)
	if src == "cdp" {
		funds = sdk.NewCoins(
			sdk.NewCoin("bnb", sdkmath.NewIntFromBigInt(Pow10(24))),
			sdk.NewCoin("xrp", sdkmath.NewIntFromBigInt(Pow10(24))),
		)
	}
	if src == "earn" {
		funds = sdk.NewCoins(
			sdk.NewCoin("busd", sdkmath.NewIntFromBigInt(Pow10(24))),
			sdk.NewCoin("usdx", sdkmath.NewIntFromBigInt(Pow10(24))),
		)
		b.WithSimpleAccount(extra[xMinter], sdk.NewCoins(sdk.NewCoin("ukava", sdkmath.NewIntFromBigInt(Pow10(15)))))
		b.WithSimpleAccount(extra[xOp0], sdk.NewCoins(sdk.NewCoin("ukava", sdkmath.NewIntFromBigInt(Pow10(13)))))
		b.WithSimpleAccount(extra[xOp1], sdk.NewCoins(sdk.NewCoin("ukava", sdkmath.NewIntFromBigInt(Pow10(13)))))
		b.WithSimpleAccount(extra[xWhale], sdk.NewCoins(sdk.NewCoin("usdx", sdkmath.NewIntFromBigInt(Pow10(14)))))
		b.WithSimpleAccount(extra[xBorrower], sdk.NewCoins(sdk.NewCoin("bnb", sdkmath.NewIntFromBigInt(Pow10(18))), sdk.NewCoin("usdx", sdkmath.NewIntFromBigInt(Pow10(12)))))
	}
	for i := 0; i < nUsers; i++ {
		b.WithSimpleAccount(users[i], funds)
	}
	t0 := GenesisTime
	// swap genesis
	var allowed swaptypes.AllowedPools
	for p := 0; p < len(poolTokens); p++ {
		allowed = append(allowed, swaptypes.NewAllowedPool(poolTokens[p][0], poolTokens[p][1]))
	}
	swapGen := swaptypes.NewGenesisState(swaptypes.NewParams(allowed, sdk.MustNewDecFromStr("0.003")), swaptypes.DefaultPoolRecords, swaptypes.DefaultShareRecords)
	// incentive genesis
	incGen := inctypes.DefaultGenesisState()
	incGen.Params = incParams(src, &cfg, rd)
	gss := []app.GenesisState{
		b.BuildMarshalled(cdc),
		app.GenesisState{swaptypes.ModuleName: cdc.MustMarshalJSON(&swapGen)},
		app.GenesisState{inctypes.ModuleName: cdc.MustMarshalJSON(&incGen)},
	}
	if src == "cdp" {
		gss = append(gss, cdpGenesis(cdc, &cfg)...)
	}
	if src == "hard" {
		gss = append(gss, hardGenesis(cdc, &cfg)...)
	}
	if src == "earn" {
		gss = append(gss, earnGenesis(cdc)...)
	}
	tApp.InitializeFromGenesisStatesWithTime(t0, gss...)
	w := &world{src: src, rd: rd, nU: nUsers, nP: nPools, tApp: tApp, height: 2, t: t0, ik: tApp.GetIncentiveKeeper(), sk: tApp.GetSwapKeeper(), addrs: users, extra: extra, cfg: cfg, t0: t0.UnixNano()}
	w.ctx = NewCtx(tApp, w.height, w.t)
	if src == "earn" {
		w.setupEarn()
	}
	if src == "delegator" && cfg.MaxVals > 0 {
		stk := tApp.GetStakingKeeper()
		sp := stk.GetParams(w.ctx)
		sp.MaxValidators = uint32(cfg.MaxVals)
		if err := stk.SetParams(w.ctx, sp); err != nil {
			panic(err)
		}
	}
	var fund sdk.Coins
	for d, a := range cfg.Macc {
		if amt := bigOf(a); amt.Sign() > 0 {
			fund = fund.Add(sdk.NewCoin(rd[d], sdkmath.NewIntFromBigInt(amt)))
		}
	}
	if !fund.IsZero() {
		if err := tApp.FundModuleAccount(w.ctx, inctypes.IncentiveMacc, fund); err != nil {
			panic(err)
		}
	}
	return w
}

// ------------------------------------------------------------ observation

type snap struct {
	now    *big.Int
	gtime  []*big.Int   // per pool, -1 = none
	tot    []*big.Int   // per pool, Dec mantissa
	gidx   [][]*big.Int // pool, denom
	has    []bool
	sh     [][]*big.Int   // user, pool (Dec mantissa)
	uidx   [][][]*big.Int // user, pool, denom
	rew    [][]*big.Int   // user, denom (stored claim)
	synced [][]*big.Int   // user, denom (GetSynchronizedSwapClaim)
	bal    [][]*big.Int   // user, denom
	macc   []*big.Int
	sumSh  []*big.Int // per pool: sum over ALL share records (raw iteration), Dec mantissa
	hasIdx []bool     // per pool: global reward indexes exist in the store (earn only)
}

// sumUsers is the sum of the model users' shares in pool p
func (s *snap) sumUsers(p int) *big.Int {
	x := big.NewInt(0)
	for u := range s.sh {
		x.Add(x, s.sh[u][p])
	}
	return x
}

// delegator source: kinds in which one user acts on his own delegation (the hooks synchronise the actor only)
func actorKind(kind string) bool {
	return kind == "mkval" || kind == "delegate" || kind == "undelegate" || kind == "redelegate"
}

// kinds that are not about a user's position or claim: nothing of the incentive state may move
func noPosition(kind string) bool {
	switch kind {
	case "trade", "price", "lq-mint", "lq-burn", "stk-reward", "slash", "params":
		return true
	}
	return false
}

func decMant(d sdk.Dec) *big.Int { return new(big.Int).Set(d.BigInt()) }

func factorOf(ris inctypes.RewardIndexes, denom string) *big.Int {
	if f, ok := ris.Get(denom); ok {
		return decMant(f)
	}
	return big.NewInt(0)
}

func (w *world) snap() *snap {
	s := &snap{now: big.NewInt(w.ctx.BlockTime().UnixNano())}
	bk := w.tApp.GetBankKeeper()
	maccAddr := w.tApp.GetAccountKeeper().GetModuleAddress(inctypes.IncentiveMacc)
	switch w.src {
	case "delegator":
		w.snapDeleg(s)
	case "cdp":
		w.snapCdp(s)
	case "hard":
		w.snapHard(s)
	case "earn":
		w.snapEarn(s)
	default:
		w.snapSwap(s)
	}
	for u := 0; u < w.nU; u++ {
		bb := make([]*big.Int, nDenoms)
		for d := 0; d < nDenoms; d++ {
			bb[d] = bk.GetBalance(w.ctx, w.addrs[u], w.rd[d]).Amount.BigInt()
		}
		s.bal = append(s.bal, bb)
	}
	for d := 0; d < nDenoms; d++ {
		s.macc = append(s.macc, bk.GetBalance(w.ctx, maccAddr, w.rd[d]).Amount.BigInt())
	}
	return s
}

func (w *world) snapSwap(s *snap) {
	nPools, nUsers := w.nP, w.nU
	for p := 0; p < nPools; p++ {
		id := poolID(p)
		if t, ok := w.ik.GetSwapRewardAccrualTime(w.ctx, id); ok {
			s.gtime = append(s.gtime, big.NewInt(t.UnixNano()))
		} else {
			s.gtime = append(s.gtime, big.NewInt(-1))
		}
		total, ok := w.sk.GetPoolShares(w.ctx, id)
		if !ok {
			total = sdk.ZeroInt()
		}
		s.tot = append(s.tot, new(big.Int).Mul(total.BigInt(), prec))
		ris, _ := w.ik.GetSwapRewardIndexes(w.ctx, id)
		row := make([]*big.Int, nDenoms)
		for d := range row {
			row[d] = factorOf(ris, rewardDenoms[d])
		}
		s.gidx = append(s.gidx, row)
		s.sumSh = append(s.sumSh, big.NewInt(0))
	}
	w.sk.IterateDepositorShares(w.ctx, func(rec swaptypes.ShareRecord) bool {
		for p := 0; p < nPools; p++ {
			if rec.PoolID == poolID(p) {
				s.sumSh[p].Add(s.sumSh[p], new(big.Int).Mul(rec.SharesOwned.BigInt(), prec))
			}
		}
		return false
	})
	for u := 0; u < nUsers; u++ {
		claim, has := w.ik.GetSwapClaim(w.ctx, w.addrs[u])
		s.has = append(s.has, has)
		shRow := make([]*big.Int, nPools)
		uiRow := make([][]*big.Int, nPools)
		for p := 0; p < nPools; p++ {
			amt, ok := w.sk.GetDepositorSharesAmount(w.ctx, w.addrs[u], poolID(p))
			if !ok {
				amt = sdk.ZeroInt()
			}
			shRow[p] = new(big.Int).Mul(amt.BigInt(), prec)
			ris, _ := claim.RewardIndexes.Get(poolID(p))
			uiRow[p] = make([]*big.Int, nDenoms)
			for d := 0; d < nDenoms; d++ {
				uiRow[p][d] = factorOf(ris, rewardDenoms[d])
			}
		}
		s.sh = append(s.sh, shRow)
		s.uidx = append(s.uidx, uiRow)
		sc, okS := w.ik.GetSynchronizedSwapClaim(w.ctx, w.addrs[u])
		rr, ss := make([]*big.Int, nDenoms), make([]*big.Int, nDenoms)
		for d := 0; d < nDenoms; d++ {
			rr[d], ss[d] = big.NewInt(0), big.NewInt(0)
			if has {
				rr[d] = claim.Reward.AmountOf(rewardDenoms[d]).BigInt()
			}
			if okS {
				ss[d] = sc.Reward.AmountOf(rewardDenoms[d]).BigInt()
			}
		}
		s.rew, s.synced = append(s.rew, rr), append(s.synced, ss)
	}
}

// flat returns the projection in the order of Model/Incentive.v `project`.
func (s *snap) flat() []*big.Int {
	out := []*big.Int{s.now}
	nPools, nUsers := len(s.tot), len(s.has)
	for p := 0; p < nPools; p++ {
		out = append(out, s.gtime[p], s.tot[p])
		out = append(out, s.gidx[p]...)
	}
	for u := 0; u < nUsers; u++ {
		h := big.NewInt(0)
		if s.has[u] {
			h = big.NewInt(1)
		}
		out = append(out, h)
		for p := 0; p < nPools; p++ {
			out = append(out, s.sh[u][p])
			for _, x := range s.uidx[u][p] {
				if s.sh[u][p].Sign() == 0 {
					x = big.NewInt(0) // the index is irrelevant while the user has no shares in the pool
				}
				out = append(out, x)
			}
		}
		out = append(out, s.rew[u]...)
		out = append(out, s.synced[u]...)
		out = append(out, s.bal[u]...)
	}
	out = append(out, s.macc...)
	return out
}

// ------------------------------------------------------------ execution

var farDeadline = time.Date(2100, 1, 1, 0, 0, 0, 0, time.UTC).Unix()

func (w *world) denomName(d int) string {
	if d >= 0 && d < nDenoms {
		return w.rd[d]
	}
	return "xyz"
}

// doClaim sends the source's claim message (one denom, one multiplier)
func (w *world) doClaim(ctx sdk.Context, o op) error {
	sel := inctypes.Selections{inctypes.NewSelection(w.denomName(o.D), o.M)}
	if w.src == "cdp" {
		msg := &inctypes.MsgClaimUSDXMintingReward{Sender: w.addrs[o.U].String(), MultiplierName: o.M}
		if err := msg.ValidateBasic(); err != nil {
			return err
		}
		_, err := inckeeper.NewMsgServerImpl(w.ik).ClaimUSDXMintingReward(sdk.WrapSDKContext(ctx), msg)
		return err
	}
	if w.src == "hard" {
		msg := &inctypes.MsgClaimHardReward{Sender: w.addrs[o.U].String(), DenomsToClaim: sel}
		if err := msg.ValidateBasic(); err != nil {
			return err
		}
		_, err := inckeeper.NewMsgServerImpl(w.ik).ClaimHardReward(sdk.WrapSDKContext(ctx), msg)
		return err
	}
	if w.src == "earn" {
		msg := &inctypes.MsgClaimEarnReward{Sender: w.addrs[o.U].String(), DenomsToClaim: sel}
		if err := msg.ValidateBasic(); err != nil {
			return err
		}
		_, err := inckeeper.NewMsgServerImpl(w.ik).ClaimEarnReward(sdk.WrapSDKContext(ctx), msg)
		return err
	}
	if w.src == "delegator" {
		msg := &inctypes.MsgClaimDelegatorReward{Sender: w.addrs[o.U].String(), DenomsToClaim: sel}
		if err := msg.ValidateBasic(); err != nil {
			return err
		}
		_, err := inckeeper.NewMsgServerImpl(w.ik).ClaimDelegatorReward(sdk.WrapSDKContext(ctx), msg)
		return err
	}
	msg := &inctypes.MsgClaimSwapReward{Sender: w.addrs[o.U].String(), DenomsToClaim: sel}
	if err := msg.ValidateBasic(); err != nil {
		return err
	}
	_, err := inckeeper.NewMsgServerImpl(w.ik).ClaimSwapReward(sdk.WrapSDKContext(ctx), msg)
	return err
}

func (w *world) exec(o op) (Class, error) {
	switch o.Kind {
	case "block":
		w.height++
		w.t = w.t.Add(time.Duration(o.Dt))
		w.ctx = NewCtx(w.tApp, w.height, w.t)
		if w.src == "earn" {
			w.captureBk()
		}
		return Atomically(w.ctx, func(ctx sdk.Context) error {
			if w.src == "cdp" && w.cfg.hasInterest() {
				// interest accrual, synchronisation of the riskiest cdps and liquidations run before incentive, as in app/app.go
				cdp.BeginBlocker(ctx, abci.RequestBeginBlock{}, w.tApp.GetCDPKeeper())
			}
			if w.src == "hard" || w.src == "earn" {
				hard.BeginBlocker(ctx, w.tApp.GetHardKeeper()) // interest accrual runs before incentive, as in app/app.go
			}
			incentive.BeginBlocker(ctx, w.ik)
			return nil
		})
	case "deposit":
		msg := swaptypes.NewMsgDeposit(w.addrs[o.U].String(),
			sdk.NewCoin(poolTokens[o.P][0], sdkmath.NewIntFromBigInt(bigOf(o.A))),
			sdk.NewCoin(poolTokens[o.P][1], sdkmath.NewIntFromBigInt(bigOf(o.B))),
			sdk.MustNewDecFromStr(o.Slip), farDeadline)
		return Atomically(w.ctx, func(ctx sdk.Context) error {
			if err := msg.ValidateBasic(); err != nil {
				return err
			}
			_, err := swapkeeper.NewMsgServerImpl(w.sk).Deposit(sdk.WrapSDKContext(ctx), msg)
			return err
		})
	case "withdraw":
		msg := swaptypes.NewMsgWithdraw(w.addrs[o.U].String(), sdkmath.NewIntFromBigInt(bigOf(o.A)),
			sdk.NewCoin(poolTokens[o.P][0], sdk.OneInt()), sdk.NewCoin(poolTokens[o.P][1], sdk.OneInt()), farDeadline)
		return Atomically(w.ctx, func(ctx sdk.Context) error {
			if err := msg.ValidateBasic(); err != nil {
				return err
			}
			_, err := swapkeeper.NewMsgServerImpl(w.sk).Withdraw(sdk.WrapSDKContext(ctx), msg)
			return err
		})
	case "trade":
		in, out := poolTokens[o.P][0], poolTokens[o.P][1]
		if o.D == 1 {
			in, out = out, in
		}
		msg := swaptypes.NewMsgSwapExactForTokens(w.addrs[o.U].String(),
			sdk.NewCoin(in, sdkmath.NewIntFromBigInt(bigOf(o.A))), sdk.NewCoin(out, sdk.OneInt()),
			sdk.MustNewDecFromStr("1.0"), farDeadline)
		return Atomically(w.ctx, func(ctx sdk.Context) error {
			if err := msg.ValidateBasic(); err != nil {
				return err
			}
			_, err := swapkeeper.NewMsgServerImpl(w.sk).SwapExactForTokens(sdk.WrapSDKContext(ctx), msg)
			return err
		})
	case "claim":
		return Atomically(w.ctx, func(ctx sdk.Context) error { return w.doClaim(ctx, o) })
	case "mkval", "endblock", "delegate", "undelegate", "redelegate", "val-slash", "val-jail", "val-unjail":
		return w.execDeleg(o)
	case "price":
		return w.execPrice(o)
	case "params":
		return w.execParams(o)
	case "earn-deposit", "earn-withdraw", "lq-mint", "lq-burn", "stk-reward", "slash":
		return w.execEarn(o)
	}
	if strings.HasPrefix(o.Kind, "cdp-") {
		return w.execCdp(o)
	}
	if strings.HasPrefix(o.Kind, "hard-") {
		return w.execHard(o)
	}
	panic("unknown op kind " + o.Kind)
}

func errKind(err error) string {
	if err == nil {
		return "none"
	}
	m := strings.ToLower(err.Error())
	for _, kv := range [][2]string{
		{"claim has expired", "claim-expired"}, {"rounds to zero", "zero-claim"}, {"no claimable rewards found", "claim-not-found"},
		{"invalid rewards multiplier", "invalid-multiplier"}, {"insufficient balance to pay claim", "insufficient-module-account-balance"},
		{"invalid claim denoms", "invalid-claim-denoms"},
		{"insufficient funds", "insufficient-funds"}, {"smaller than", "insufficient-funds"}, {"slippage exceeded", "slippage-exceeded"},
		{"deposit not found", "deposit-not-found"}, {"invalid shares", "invalid-shares"}, {"insufficient liquidity", "insufficient-liquidity"},
		{"not allowed", "not-allowed"}, {"invalid coin", "invalid-coin"}, {"panic", "panic"}} {
		if strings.Contains(m, kv[0]) {
			return kv[1]
		}
	}
	return "other"
}

// ------------------------------------------------------------ monitors

// the multiplier factor configured for (denom, name); nil when there is none
func (c *histCfg) factor(d int, name string) *big.Int {
	if d < 0 || d >= nDenoms {
		return nil
	}
	for _, m := range c.Mults[d] {
		if m.Name == name {
			return decMant(sdk.MustNewDecFromStr(m.Factor))
		}
	}
	return nil
}

// bankers: round-half-even of n/d for n >= 0, d > 0
func bankers(n, d *big.Int) *big.Int {
	q, r := new(big.Int).QuoRem(n, d, new(big.Int))
	c := new(big.Int).Lsh(r, 1).Cmp(d)
	if c > 0 || (c == 0 && q.Bit(0) == 1) {
		q.Add(q, big.NewInt(1))
	}
	return q
}

// mon is the monitor's own accounting, derived only from the configuration,
// the block times and the shares observed in the source module.
type mon struct {
	nU, nP    int
	exact     bool // the source's total is exactly the sum of the share records
	cfg       *histCfg
	t0        int64
	prevBlock []int64      // per pool: time of the previous accumulation (block) or -1
	J         [][]*big.Rat // user, denom: exact integral of rate*secs*share/total
	claimed   [][]*big.Int // user, denom: amounts removed from the claim by claims
	nround    []int64      // per user: CalculateSingleReward roundings allowed so far (per denom)
	idxSlack  [][]*big.Rat // user, denom: sum of share * 1.5e-18 over accumulations with an increment
	emission  []*big.Rat   // per denom: sum of rate*secs (+ forwarded staking rewards) over accumulations with shares
	overshare []*big.Rat   // per denom: sum over accumulations of increment * max(0, sum of the users' shares - total)
	driftUp   []*big.Rat   // per denom: sum over bystander revalues of (index difference) * (increase of shares)
	totSlack  []*big.Rat   // per denom: sum of total * 0.5e-18 over those accumulations
}

func newMon(cfg *histCfg, t0 int64, nUsers, nPools int, exact bool) *mon {
	m := &mon{cfg: cfg, t0: t0, nU: nUsers, nP: nPools, exact: exact}
	for p := 0; p < nPools; p++ {
		m.prevBlock = append(m.prevBlock, -1)
	}
	for u := 0; u < nUsers; u++ {
		jr, cr, sr := make([]*big.Rat, nDenoms), make([]*big.Int, nDenoms), make([]*big.Rat, nDenoms)
		for d := range jr {
			jr[d], cr[d], sr[d] = new(big.Rat), new(big.Int), new(big.Rat)
		}
		m.J, m.claimed, m.idxSlack = append(m.J, jr), append(m.claimed, cr), append(m.idxSlack, sr)
		m.nround = append(m.nround, 0)
	}
	for d := 0; d < nDenoms; d++ {
		m.emission = append(m.emission, new(big.Rat))
		m.overshare = append(m.overshare, new(big.Rat))
		m.driftUp = append(m.driftUp, new(big.Rat))
		m.totSlack = append(m.totSlack, new(big.Rat))
	}
	return m
}

type verdict struct{ pred, sig, detail string }

// signature of the known finding (known_findings.json): over-distribution by the drift between the
// sum of the users' normalised amounts and the normalised total under interest
const driftSig = "total-credited-exceeds-emission-share-total-drift"

// signature of the second known finding of the family: a third party unbonding from a slashed validator
// grows the bystanders' stakes by up to a token without any hook; their unsynchronised index difference is
// then paid on the grown stake
const bystanderSig = "total-credited-exceeds-emission-bystander-stake-drift"

func knownSig(sig string) bool { return sig == driftSig || sig == bystanderSig }

func ratOfMant(x *big.Int) *big.Rat { return new(big.Rat).SetFrac(x, prec) }

// check evaluates every monitor for one executed operation.
func (m *mon) check(w *world, o op, cls Class, err error, before, after *snap, cnt *Counters, splits map[string]bool) *verdict {
	mark := func(k string) {
		splits[k] = true
		if cnt != nil {
			cnt.Inc("split:" + k)
		}
	}
	fb, fa := before.flat(), after.flat()
	nUsers, nPools := m.nU, m.nP
	// the source guarantees total = sum of the share records (swap, earn, cdp without interest), or
	// total >= sum (delegator, hard without interest); under interest the normalised amounts drift by
	// rounding in both directions: what the users' shares exceed the total by enters the emission bound
	// (overshare) and is measured
	for p := 0; p < nPools; p++ {
		c := after.sumSh[p].Cmp(after.tot[p])
		if c > 0 && w.src == "delegator" && new(big.Int).Sub(after.sumSh[p], after.tot[p]).Cmp(big.NewInt(100)) <= 0 {
			// Validator.TokensFromShares rounds each delegation half-even at the 18th decimal: the Dec stakes of the
			// delegators of a slashed validator may add up to a few 10^-18 tokens more than its integer tokens
			mark("deleg:stake-sum-exceeds-bonded-by-rounding")
			c = 0
		}
		if (m.exact && c != 0) || (c > 0 && !w.cfg.hasInterest()) {
			return &verdict{"source-total-covers-sum-of-shares", "source-total-differs-from-share-sum", fmt.Sprintf("pool %d: sum %s total %s", p, after.sumSh[p], after.tot[p])}
		}
		if c > 0 {
			mark("interest:shares-exceed-total")
		} else if c < 0 && w.cfg.hasInterest() {
			mark("interest:shares-below-total")
		}
	}
	if cls != ClassOk {
		if o.Kind == "params" {
			mark("params:refused")
		}
		if o.Kind == "block" {
			return &verdict{"begin-blocker-never-fails", "begin-blocker-" + cls.String(), fmt.Sprint(err)}
		}
		for i := range fb {
			if fb[i].Cmp(fa[i]) != 0 {
				return &verdict{"failed-op-no-change", "failed-op-changed-state", fmt.Sprintf("slot %d: %s -> %s", i, fb[i], fa[i])}
			}
		}
		if o.Kind == "claim" && cls == ClassErr {
			mark("claim:" + errKind(err))
			// a claim may only be refused for a reason the property allows
			f := m.cfg.factor(o.D, o.M)
			if f != nil && before.has[o.U] && before.now.Int64() <= m.t0+m.cfg.ClaimEndOff {
				pay := bankers(new(big.Int).Mul(before.synced[o.U][o.D], f), prec)
				if pay.Sign() > 0 && pay.Cmp(before.macc[o.D]) <= 0 {
					return &verdict{"claim-refused-only-for-stated-reasons", "claim-refused-without-reason",
						fmt.Sprintf("user %d denom %d synced %s factor %s macc %s: %v", o.U, o.D, before.synced[o.U][o.D], f, before.macc[o.D], err)}
				}
			}
		}
		if cls == ClassPanic {
			return &verdict{"no-panic-in-handlers", "handler-panic-" + o.Kind, fmt.Sprint(err)}
		}
		return nil
	}

	switch o.Kind {
	case "block":
		t := after.now.Int64()
		ulp := new(big.Rat).SetFrac(big.NewInt(1), prec)
		for p := 0; p < nPools; p++ {
			// what this pool's accumulation works with: the period, the rate per reward denom (an
			// integer coin rate, or for a bkava vault its proportional part rate*v/V) and the staking
			// rewards forwarded to the vault
			pc := m.cfg.Periods[p]
			present := pc.Present
			rates := make([]*big.Rat, nDenoms)
			stk := make([]*big.Int, nDenoms)
			rateErr := new(big.Rat) // absolute error of the rate the code works with (bkava: two roundings)
			mulErr := new(big.Rat)
			for d := range rates {
				rates[d], stk[d] = new(big.Rat).SetInt(bigOf(pc.Rates[d])), big.NewInt(0)
			}
			if w.src == "earn" && p >= earnBkPool {
				pc = m.cfg.Periods[earnBkPool]
				bk := w.bkFor(p)
				present = pc.Present && bk != nil
				inSet := before.tot[p].Sign() > 0 || before.hasIdx[p]
				if pc.Present && inSet != (bk != nil) {
					return &verdict{"bkava-vaults-visited-are-those-with-a-record-or-indexes", "bkava-vault-set-wrong", fmt.Sprintf("pool %d", p)}
				}
				if present {
					for d := range rates {
						rates[d] = new(big.Rat)
						if bk.V.Sign() > 0 {
							rates[d].SetFrac(new(big.Int).Mul(bigOf(pc.Rates[d]), bk.v), bk.V)
						}
						stk[d] = bk.stk[d]
						if stk[d].Sign() > 0 {
							mark("bkava:staking-rewards-forwarded")
						}
					}
					rateErr.Mul(ulp, big.NewRat(3, 2))
					mulErr.Mul(ulp, big.NewRat(1, 2))
					mark("bkava:accumulate")
				}
			}
			if !present {
				for d := 0; d < nDenoms; d++ {
					if after.gidx[p][d].Cmp(before.gidx[p][d]) != 0 {
						return &verdict{"no-period-no-accrual", "accrual-without-period", fmt.Sprintf("pool %d", p)}
					}
				}
				if after.gtime[p].Cmp(before.gtime[p]) != 0 {
					return &verdict{"no-period-no-accrual", "accrual-time-moved-without-period", fmt.Sprintf("pool %d", p)}
				}
				continue
			}
			start, end := m.t0+pc.StartOff, m.t0+pc.EndOff
			// the reward time of this block: [previous block, t] intersected with [start, end]
			dur := int64(0)
			if m.prevBlock[p] >= 0 {
				lo, hi := m.prevBlock[p], t
				if start > lo {
					lo = start
				}
				if end < hi {
					hi = end
				}
				if hi > lo {
					dur = hi - lo
				}
				switch {
				case t <= start:
					mark("window:before-start")
				case m.prevBlock[p] >= end:
					mark("window:after-end")
				case m.prevBlock[p] < start && t > end:
					mark("window:covers-whole-period")
				case m.prevBlock[p] < start:
					mark("window:straddles-start")
				case t > end:
					mark("window:straddles-end")
				default:
					mark("window:inside")
				}
			} else {
				mark("window:first-accumulation")
			}
			// accrual time advances to min(end, t): never the same second twice
			wantT := t
			if end < t {
				wantT = end
			}
			m.prevBlock[p] = wantT
			if after.gtime[p].Int64() != wantT {
				return &verdict{"accrual-time-advances-to-min-end-now", "accrual-time-wrong", fmt.Sprintf("pool %d: got %s want %d", p, after.gtime[p], wantT)}
			}
			secs := bankers(big.NewInt(dur), nsPerSec)
			if dur > 0 {
				r := new(big.Int).Mod(big.NewInt(dur), nsPerSec)
				switch c := new(big.Int).Lsh(r, 1).Cmp(nsPerSec); {
				case r.Sign() == 0:
					mark("secs:whole")
				case c < 0:
					mark("secs:below-half")
				case c > 0:
					mark("secs:above-half")
				default:
					if new(big.Int).Quo(big.NewInt(dur), nsPerSec).Bit(0) == 0 {
						mark("secs:half-to-even-down")
					} else {
						mark("secs:half-to-even-up")
					}
				}
			}
			T := after.tot[p] // Dec mantissa; the source's own begin blocker (interest) runs before incentive's
			if dur > 0 && T.Sign() == 0 {
				mark("accumulate:no-shares-rewards-dropped")
			}
			for d := 0; d < nDenoms; d++ {
				// rewards of this accumulation: rate * whole seconds + forwarded staking rewards
				E := new(big.Rat).SetInt(stk[d])
				eErr := new(big.Rat)
				if secs.Sign() > 0 {
					E.Add(E, new(big.Rat).Mul(rates[d], new(big.Rat).SetInt(secs)))
					if rates[d].Sign() > 0 {
						eErr.Add(new(big.Rat).Mul(rateErr, new(big.Rat).SetInt(secs)), mulErr)
					}
				}
				dI := new(big.Int).Sub(after.gidx[p][d], before.gidx[p][d])
				if T.Sign() <= 0 || E.Sign() == 0 {
					if dI.Sign() != 0 {
						return &verdict{"no-accrual-outside-window", "accrual-outside-window",
							fmt.Sprintf("pool %d denom %d: index moved by %s with dur %d ns, total %s", p, d, dI, dur, T)}
					}
					continue
				}
				mark("accumulate:increment")
				// exact increment E/T (T mantissa => value T/1e18): dI/1e18 within 1.5e-18 of it
				// (plus, for a bkava vault, the roundings of the proportional rate and of rate*seconds)
				Tval := ratOfMant(T)
				exact := new(big.Rat).Quo(E, Tval)
				diff := new(big.Rat).Sub(ratOfMant(dI), exact)
				tol := new(big.Rat).Add(new(big.Rat).Mul(ulp, big.NewRat(3, 2)), new(big.Rat).Quo(eErr, Tval))
				if diff.Cmp(tol) > 0 || diff.Cmp(new(big.Rat).Neg(tol)) < 0 {
					return &verdict{"index-increment-is-rate-secs-over-total", "index-increment-wrong",
						fmt.Sprintf("pool %d denom %d: increment %s, rewards %s (rate %s secs %s staking %s) total %s", p, d, dI, E.FloatString(6), rates[d].FloatString(6), secs, stk[d], T)}
				}
				m.emission[d].Add(m.emission[d], E)
				m.totSlack[d].Add(m.totSlack[d], new(big.Rat).Add(eErr, new(big.Rat).Mul(Tval, new(big.Rat).Mul(ulp, big.NewRat(1, 2)))))
				// what the users' shares exceed the total by is over-distributed on top of the emission
				if over := new(big.Int).Sub(after.sumUsers(p), T); over.Sign() > 0 {
					m.overshare[d].Add(m.overshare[d], new(big.Rat).Mul(new(big.Rat).Add(exact, tol), ratOfMant(over)))
				}
				for u := 0; u < nUsers; u++ {
					s := after.sh[u][p] // the source's own begin blocker (cdp: risky cdps, liquidations) runs before incentive's
					if s.Sign() == 0 {
						continue
					}
					// E*s/T
					m.J[u][d].Add(m.J[u][d], new(big.Rat).Mul(exact, ratOfMant(s)))
					m.idxSlack[u][d].Add(m.idxSlack[u][d], new(big.Rat).Mul(ratOfMant(s), tol))
				}
			}
		}
		if w.src == "cdp" {
			for u := 0; u < nUsers; u++ {
				for p := 0; p < nPools; p++ {
					if before.sh[u][p].Sign() > 0 && after.sh[u][p].Sign() == 0 {
						mark("cdp-block:cdp-liquidated")
					}
				}
			}
		}
		// shares, stored claims and balances do not move in a begin block
		for u := 0; u < nUsers; u++ {
			for d := 0; d < nDenoms; d++ {
				// (the cdp begin blocker synchronises the riskiest cdps: stored rewards move, synchronised ones do not)
				cdpSync := w.src == "cdp" && w.cfg.hasInterest()
				if cdpSync && after.rew[u][d].Cmp(before.rew[u][d]) != 0 {
					mark("cdp-block:risky-cdp-synchronised")
				}
				if (after.rew[u][d].Cmp(before.rew[u][d]) != 0 && !cdpSync) || after.bal[u][d].Cmp(before.bal[u][d]) != 0 {
					return &verdict{"block-touches-only-global-state", "block-changed-claim", fmt.Sprintf("user %d", u)}
				}
				if after.synced[u][d].Cmp(before.synced[u][d]) < 0 {
					return &verdict{"accrued-never-decreases", "synced-reward-decreased", fmt.Sprintf("user %d denom %d: %s -> %s", u, d, before.synced[u][d], after.synced[u][d])}
				}
			}
		}
	default:
		// a position change alters nobody's accrued reward, the actor's included
		for u := 0; u < nUsers; u++ {
			for d := 0; d < nDenoms; d++ {
				// delegator source: a third party's delegation to a slashed validator moves the exchange rate of the
				// validator's shares, so a bystander's tokens move by rounding without any hook: the unsynchronised
				// reward then moves by (index difference) * (change of shares), re-rounded
				if w.src == "delegator" && u != o.U && actorKind(o.Kind) && after.sh[u][0].Cmp(before.sh[u][0]) != 0 {
					ds := new(big.Int).Abs(new(big.Int).Sub(after.sh[u][0], before.sh[u][0]))
					di := new(big.Int).Sub(before.gidx[0][d], before.uidx[u][0][d])
					allow := new(big.Rat).SetFrac(new(big.Int).Mul(ds, di), new(big.Int).Mul(prec, prec))
					m.idxSlack[u][d].Add(m.idxSlack[u][d], allow)
					if after.sh[u][0].Cmp(before.sh[u][0]) > 0 {
						m.driftUp[d].Add(m.driftUp[d], allow)
					}
					mark("deleg:bystander-revalued")
					diff := new(big.Rat).SetInt(new(big.Int).Abs(new(big.Int).Sub(after.synced[u][d], before.synced[u][d])))
					if diff.Cmp(new(big.Rat).Add(allow, big.NewRat(1, 1))) <= 0 {
						continue
					}
				}
				if after.synced[u][d].Cmp(before.synced[u][d]) != 0 {
					sig := "position-change-altered-other-users-reward"
					if u == o.U {
						sig = "position-change-altered-own-accrued-reward"
					}
					return &verdict{"position-change-keeps-accrued-rewards", sig,
						fmt.Sprintf("%s by user %d pool %d: user %d denom %d synced %s -> %s", o.Kind, o.U, o.P, u, d, before.synced[u][d], after.synced[u][d])}
				}
				if after.bal[u][d].Cmp(before.bal[u][d]) != 0 {
					return &verdict{"position-change-pays-nothing", "position-change-paid-reward", fmt.Sprintf("user %d", u)}
				}
			}
		}
		for d := 0; d < nDenoms; d++ {
			if after.macc[d].Cmp(before.macc[d]) != 0 {
				return &verdict{"position-change-pays-nothing", "position-change-moved-module-account", ""}
			}
		}
		for p := 0; p < nPools; p++ {
			for d := 0; d < nDenoms; d++ {
				if after.gidx[p][d].Cmp(before.gidx[p][d]) != 0 {
					return &verdict{"only-blocks-move-global-indexes", "message-moved-global-index", fmt.Sprintf("pool %d", p)}
				}
			}
		}
		if o.Kind == "endblock" || o.Kind == "val-slash" || o.Kind == "val-jail" || o.Kind == "val-unjail" {
			// validator set updates and slashes synchronise the delegators of the validators concerned
			for u := 0; u < nUsers; u++ {
				m.nround[u] += 2
				if after.sh[u][0].Cmp(before.sh[u][0]) < 0 {
					mark("deleg:stake-left-bonded-set-or-slashed")
				} else if after.sh[u][0].Cmp(before.sh[u][0]) > 0 {
					mark("deleg:stake-entered-bonded-set")
				}
			}
		} else if !noPosition(o.Kind) {
			m.nround[o.U] += int64(2 + nPools) // a redelegation synchronises twice, a hard message every pool of the user
			pp := o.P
			if nPools == 1 {
				pp = 0 // delegator source: P is a validator, the only pool is the bond denom
			}
			old, nw := before.sh[o.U][pp], after.sh[o.U][pp]
			switch {
			case old.Sign() == 0 && before.has[o.U] && before.uidx[o.U][pp][0].Sign()+before.uidx[o.U][pp][1].Sign() > 0:
				mark("change:re-created-after-emptying")
			case old.Sign() == 0 && after.gidx[pp][0].Sign()+after.gidx[pp][1].Sign() > 0:
				mark("change:created-at-nonzero-index")
			case old.Sign() == 0:
				mark("change:created-at-zero-index")
			case nw.Sign() == 0:
				mark("change:emptied")
			}
			if old.Sign() > 0 {
				moved := false
				for d := 0; d < nDenoms; d++ {
					if before.gidx[pp][d].Cmp(before.uidx[o.U][pp][d]) > 0 {
						moved = true
					}
				}
				if moved {
					mark("change:sync-with-positive-index-delta")
				} else {
					mark("change:sync-with-zero-index-delta")
				}
				for d := 0; d < nDenoms; d++ {
					if after.rew[o.U][d].Cmp(before.rew[o.U][d]) > 0 {
						mark("change:sync-credited-reward")
					}
				}
			}
		} else {
			for i := range fb {
				if fb[i].Cmp(fa[i]) != 0 {
					sig := "trade-changed-incentive-state"
					if o.Kind == "params" {
						sig = "parameter-change-altered-accrued-state"
					}
					return &verdict{"trade-leaves-incentive-state", sig, fmt.Sprintf("%s: slot %d", o.Kind, i)}
				}
			}
			if o.Kind == "params" {
				switch {
				case o.CE != 0:
					mark("params:claim-end-moved")
				case o.PC == nil:
					mark("params:period-removed")
				case m.prevBlock[o.P] >= 0 && m.prevBlock[o.P] < before.now.Int64() && o.PC.Present:
					mark("params:period-added-with-stale-accrual-time")
				default:
					mark("params:period-changed")
				}
			}
		}
	case "claim":
		f := m.cfg.factor(o.D, o.M)
		if f == nil {
			return &verdict{"claim-needs-configured-multiplier", "claim-accepted-with-unknown-multiplier", fmt.Sprintf("denom %d name %s", o.D, o.M)}
		}
		if before.now.Int64() > m.t0+m.cfg.ClaimEndOff {
			return &verdict{"claim-after-deadline-refused", "claim-accepted-after-deadline", fmt.Sprintf("now %s end %d", before.now, m.t0+m.cfg.ClaimEndOff)}
		}
		amt := before.synced[o.U][o.D]
		pay := bankers(new(big.Int).Mul(amt, f), prec)
		if pay.Sign() == 0 {
			return &verdict{"zero-claim-refused", "zero-claim-accepted", fmt.Sprintf("synced %s factor %s", amt, f)}
		}
		for u := 0; u < nUsers; u++ {
			for d := 0; d < nDenoms; d++ {
				wantBal := new(big.Int).Set(before.bal[u][d])
				wantSynced := before.synced[u][d]
				if u == o.U && d == o.D {
					wantBal.Add(wantBal, pay)
					wantSynced = big.NewInt(0)
				}
				if after.bal[u][d].Cmp(wantBal) != 0 {
					return &verdict{"claim-pays-exactly-accrued-times-multiplier", "claim-paid-wrong-amount",
						fmt.Sprintf("user %d denom %d: balance %s -> %s, expected +%s (accrued %s, factor %s)", u, d, before.bal[u][d], after.bal[u][d], pay, amt, f)}
				}
				if after.synced[u][d].Cmp(wantSynced) != 0 {
					sig := "claim-altered-other-reward"
					if u == o.U && d == o.D {
						sig = "claim-did-not-reset"
					}
					return &verdict{"claim-resets-only-what-it-pays", sig,
						fmt.Sprintf("user %d denom %d: synced %s -> %s, expected %s", u, d, before.synced[u][d], after.synced[u][d], wantSynced)}
				}
			}
		}
		if after.rew[o.U][o.D].Sign() != 0 {
			return &verdict{"claim-resets-only-what-it-pays", "claim-did-not-reset", "stored reward not zero"}
		}
		for d := 0; d < nDenoms; d++ {
			want := new(big.Int).Set(before.macc[d])
			if d == o.D {
				want.Sub(want, pay)
			}
			if after.macc[d].Cmp(want) != 0 {
				return &verdict{"claim-paid-out-of-incentive-account", "claim-module-account-delta-wrong", fmt.Sprintf("denom %d: %s -> %s, expected %s", d, before.macc[d], after.macc[d], want)}
			}
		}
		// an immediate second claim yields nothing (probed on a discarded branch of the state)
		cctx, _ := w.ctx.CacheContext()
		cls2, _ := Atomically(cctx, func(ctx sdk.Context) error {
			return w.doClaim(ctx, o)
		})
		if cls2 == ClassOk {
			return &verdict{"second-claim-yields-nothing", "second-claim-succeeded", fmt.Sprintf("user %d denom %d", o.U, o.D)}
		}
		m.claimed[o.U][o.D].Add(m.claimed[o.U][o.D], amt)
		m.nround[o.U] += int64(nPools)
		mark("claim:ok")
		if new(big.Int).Mul(pay, prec).Cmp(new(big.Int).Mul(amt, f)) != 0 {
			mark("claim:ok-with-rounding")
		}
	}

	// reward = integral of rate * share / total, for every user, at every step
	half := big.NewRat(1, 2)
	for d := 0; d < nDenoms; d++ {
		sumCredited := new(big.Int)
		sumRound := int64(0)
		for u := 0; u < nUsers; u++ {
			credited := new(big.Int).Add(after.synced[u][d], m.claimed[u][d])
			sumCredited.Add(sumCredited, credited)
			rounds := m.nround[u] + int64(nPools) // the synchronised view itself rounds once per pool
			sumRound += rounds
			slack := new(big.Rat).Add(new(big.Rat).Mul(half, new(big.Rat).SetInt64(rounds)), m.idxSlack[u][d])
			diff := new(big.Rat).Sub(new(big.Rat).SetInt(credited), m.J[u][d])
			if diff.Sign() < 0 {
				diff.Neg(diff)
			}
			if diff.Cmp(slack) > 0 {
				sig := "reward-above-integral"
				if new(big.Rat).SetInt(credited).Cmp(m.J[u][d]) < 0 {
					sig = "reward-below-integral"
				}
				return &verdict{"reward-equals-integral-of-rate-times-share-of-total", sig,
					fmt.Sprintf("user %d denom %d: credited %s (synced %s + claimed %s), integral %s, allowed slack %s", u, d, credited, after.synced[u][d], m.claimed[u][d], m.J[u][d].FloatString(6), slack.FloatString(6))}
			}
		}
		// the bound as the property words it: emission + one base unit per two roundings + the index rounding
		bound := new(big.Rat).Set(m.emission[d])
		bound.Add(bound, new(big.Rat).Mul(half, new(big.Rat).SetInt64(sumRound)))
		bound.Add(bound, m.totSlack[d])
		if new(big.Rat).SetInt(sumCredited).Cmp(bound) > 0 {
			// Known finding: under interest the sum of the users' normalised amounts exceeds the normalised
			// total the accumulation divides by (the source rounds the interest on the total to an integer);
			// every accumulation then credits increment * (sum - total) on top of the emission.  What is
			// credited within emission + rounding + that overshare is the finding; anything above is not.
			sig := "total-credited-exceeds-emission"
			withOver := new(big.Rat).Add(bound, m.overshare[d])
			if w.src == "delegator" && new(big.Rat).SetInt(sumCredited).Cmp(withOver) <= 0 {
				continue // the 18-decimal rounding of the token conversion (at most 100e-18 tokens, checked above)
			}
			// delegator source: when a third party undelegates from a slashed validator, staking pays out whole
			// tokens and the validator keeps the fraction, so the bystanders' stakes grow by up to one token without
			// any hook; the index difference they have not yet synchronised is then paid on the grown stake
			withDrift := new(big.Rat).Add(withOver, m.driftUp[d])
			if w.src == "delegator" && new(big.Rat).SetInt(sumCredited).Cmp(withDrift) <= 0 {
				// Known finding (second of the family): credited within emission + rounding + the drift term
				mark("deleg:credited-exceeds-emission-by-bystander-drift")
				sig = bystanderSig
			}
			if (w.src == "hard" || w.src == "cdp") && w.cfg.hasInterest() && new(big.Rat).SetInt(sumCredited).Cmp(withOver) <= 0 {
				sig = driftSig
			}
			return &verdict{"never-over-distributed", sig,
				fmt.Sprintf("denom %d: credited %s > emission %s + rounding slack %s (overshare + bystander drift %s)", d, sumCredited, m.emission[d].FloatString(6),
					new(big.Rat).Sub(bound, m.emission[d]).FloatString(6), new(big.Rat).Add(m.overshare[d], m.driftUp[d]).FloatString(6))}
		}
	}
	return nil
}

// ------------------------------------------------------------ generation

func genAmount(r *Rng) *big.Int {
	switch r.Pick(20, 35, 20, 20, 5) {
	case 0:
		return big.NewInt(int64(1 + r.Intn(30)))
	case 1:
		return big.NewInt(int64(1000 + r.Intn(5_000_000)))
	case 2:
		return new(big.Int).Add(Pow10(3+r.Intn(9)), big.NewInt(int64(r.Intn(5)-2)))
	case 3:
		return big.NewInt(1 + r.Int63n(2_000_000_000))
	default:
		return r.BigBits(40 + r.Intn(30))
	}
}

func (w *world) genBlockDt(r *Rng) int64 {
	sec := int64(1_000_000_000)
	now := w.t.UnixNano() - w.t0
	switch r.Pick(30, 12, 10, 8, 22, 6, 6, 6) {
	case 0: // whole seconds
		return int64(1+r.Intn(60)) * sec
	case 1: // exactly x.5 seconds
		return int64(r.Intn(20))*sec + sec/2
	case 2: // next to x.5
		return int64(r.Intn(20))*sec + sec/2 + int64(r.Intn(3)-1)
	case 3: // tiny
		return []int64{0, 1, sec/2 - 1, sec / 2, sec/2 + 1, sec - 1}[r.Intn(6)]
	case 4: // land on / next to a period edge or the claim deadline
		var edges []int64
		for _, pc := range w.cfg.Periods {
			if pc.Present {
				edges = append(edges, pc.StartOff, pc.EndOff)
			}
		}
		edges = append(edges, w.cfg.ClaimEndOff)
		var ahead []int64
		for _, e := range edges {
			if e-now > -2 && e-now < 400*sec {
				ahead = append(ahead, e)
			}
		}
		if len(ahead) == 0 {
			return int64(1+r.Intn(30)) * sec
		}
		e := ahead[r.Intn(len(ahead))]
		if ce := w.cfg.ClaimEndOff; ce-now > -2 && ce-now < 400*sec && r.Chance(1, 3) {
			e = ce
		}
		dt := e - now + []int64{-1, 0, 0, 1, sec / 2, -sec / 2, sec, sec/2 - 100, sec - 1}[r.Intn(9)]
		if dt < 0 {
			dt = 0
		}
		return dt
	case 5: // arbitrary nanoseconds
		return r.Int63n(90 * sec)
	case 6: // long
		return int64(1+r.Intn(20*86400)) * sec
	default:
		return int64(1+r.Intn(5)) * sec
	}
}

func (w *world) genOp(r *Rng, s *snap, step int) op {
	// the setup steps of a source come first; afterwards one operation in 25 is a parameter change
	if step >= 4 && r.Chance(1, 25) {
		return w.genParams(r)
	}
	// a block that landed less than one second past the claim deadline: claims must already be
	// refused (the deadline is compared as an instant, not in whole seconds) — aim a claim there
	if off := w.t.UnixNano() - w.t0 - w.cfg.ClaimEndOff; step >= 4 && off > 0 && off < 1_000_000_000 && r.Chance(3, 4) {
		u, d := r.Intn(w.nU), r.Intn(nDenoms)
		for try := 0; try < 8 && s.synced[u][d].Sign() == 0; try++ {
			u, d = r.Intn(w.nU), r.Intn(nDenoms)
		}
		return op{Kind: "claim", U: u, D: d, M: "large"}
	}
	switch w.src {
	case "delegator":
		return w.genOpDeleg(r, s, step)
	case "cdp":
		return w.genOpCdp(r, s, step)
	case "hard":
		return w.genOpHard(r, s, step)
	case "earn":
		return w.genOpEarn(r, s, step)
	}
	nUsers, nPools := w.nU, w.nP
	u := r.Intn(nUsers)
	p := r.Pick(45, 40, 15)
	poolExists := func(p int) bool { return s.tot[p].Sign() > 0 }
	kind := r.Pick(28, 26, 16, 5, 20, 5)
	switch kind {
	case 0:
		return op{Kind: "block", Dt: w.genBlockDt(r)}
	case 1: // deposit
		a, b := genAmount(r), genAmount(r)
		slip := "1000.0"
		if poolExists(p) && r.Chance(3, 4) {
			// proportional to the reserves so that most of it is taken
			rec, _ := w.sk.GetPool(w.ctx, poolID(p))
			ra, rb := rec.ReservesA.Amount.BigInt(), rec.ReservesB.Amount.BigInt()
			b = new(big.Int).Quo(new(big.Int).Mul(a, rb), ra)
			if b.Sign() == 0 {
				b = big.NewInt(1)
			}
		}
		if r.Chance(1, 25) {
			slip = "0.0"
		}
		return op{Kind: "deposit", U: u, P: p, A: a.String(), B: b.String(), Slip: slip}
	case 2: // withdraw
		// prefer a user/pool with shares
		for try := 0; try < 4 && s.sh[u][p].Sign() == 0; try++ {
			u, p = r.Intn(nUsers), r.Intn(nPools)
		}
		owned := new(big.Int).Quo(s.sh[u][p], prec)
		var x *big.Int
		switch r.Pick(30, 25, 15, 20, 10) {
		case 0:
			x = new(big.Int).Set(owned) // everything: the position is emptied
		case 1:
			x = new(big.Int).Quo(owned, big.NewInt(2))
		case 2:
			x = new(big.Int).Add(owned, big.NewInt(1)) // refused
		case 3:
			x = new(big.Int).Quo(new(big.Int).Mul(owned, big.NewInt(int64(1+r.Intn(99)))), big.NewInt(100))
		default:
			x = big.NewInt(int64(1 + r.Intn(5)))
		}
		if x.Sign() <= 0 {
			x = big.NewInt(1)
		}
		return op{Kind: "withdraw", U: u, P: p, A: x.String()}
	case 3:
		return op{Kind: "trade", U: u, P: p, A: big.NewInt(int64(1 + r.Intn(5000))).String(), D: r.Intn(2)}
	case 4: // claim, mostly by somebody with something to claim
		d := r.Intn(nDenoms)
		for try := 0; try < 5 && s.synced[u][d].Sign() == 0; try++ {
			u, d = r.Intn(nUsers), r.Intn(nDenoms)
		}
		m := "large"
		if r.Chance(1, 2) {
			m = "small"
		}
		return op{Kind: "claim", U: u, D: d, M: m}
	default: // malformed
		switch r.Intn(4) {
		case 0:
			return op{Kind: "claim", U: u, D: r.Intn(nDenoms), M: "nope"}
		case 1:
			return op{Kind: "claim", U: u, D: nDenoms, M: "large"}
		case 2:
			return op{Kind: "deposit", U: u, P: p, A: "0", B: "5", Slip: "1.0"}
		default:
			return op{Kind: "withdraw", U: u, P: p, A: new(big.Int).Add(new(big.Int).Quo(s.sh[u][p], prec), Pow10(6)).String()}
		}
	}
}

// ------------------------------------------------------------ Coq rendering

// coqOps renders what the model is told about one executed operation: the
// block time, or for a successful source message the (user, pool, new shares,
// new total) of every position the message synchronises or changes.
func coqOps(w *world, o op, cls Class, before, after *snap) []string {
	var out []string
	for _, x := range coqBaseOps(w, o, cls, before, after) {
		if strings.HasPrefix(x, "SetParams") {
			out = append(out, x)
		} else {
			out = append(out, "O ("+x+")")
		}
	}
	return out
}

func coqBaseOps(w *world, o op, cls Class, before, after *snap) []string {
	change := func(u, p int) string {
		return fmt.Sprintf("Change %s %s %s %s", Nat(u), Nat(p), Z(after.sh[u][p]), Z(after.tot[p]))
	}
	held := func(u, p int) bool { return before.sh[u][p].Sign() > 0 || after.sh[u][p].Sign() > 0 }
	if o.Kind != "block" && o.Kind != "claim" && o.Kind != "params" && cls != ClassOk {
		return []string{"Other false"}
	}
	switch o.Kind {
	case "block":
		// positions the source's own begin blocker synchronised or changed (cdp: the riskiest cdps, liquidations),
		// then the totals it moved (accrued interest), are told first
		var out []string
		if w.src == "cdp" && cls == ClassOk {
			for u := range after.sh {
				for p := range after.tot {
					moved := after.sh[u][p].Cmp(before.sh[u][p]) != 0
					for d := 0; d < nDenoms; d++ {
						if before.sh[u][p].Sign() > 0 && after.uidx[u][p][d].Cmp(before.uidx[u][p][d]) != 0 {
							moved = true
						}
					}
					if moved {
						out = append(out, change(u, p))
					}
				}
			}
		}
		for p := range after.tot {
			if after.tot[p].Cmp(before.tot[p]) != 0 {
				out = append(out, fmt.Sprintf("SetTotal %s %s", Nat(p), Z(after.tot[p])))
			}
		}
		out = append(out, fmt.Sprintf("Block %s", Z(after.now)))
		// the bkava vaults the begin blocker visited, in the order of their denoms (any order gives the same state)
		if w.src == "earn" && cls == ClassOk {
			pc := w.cfg.Periods[earnBkPool]
			for _, bk := range w.lastBk {
				out = append(out, fmt.Sprintf("BkAcc %s (%s) %s %s %s", Nat(bk.p), coqPeriod(w, pc), Z(bk.v), Z(bk.V), ZList(bk.stk)))
			}
		}
		return out
	case "deposit", "withdraw":
		return []string{change(o.U, o.P)}
	case "mkval", "delegate", "undelegate", "redelegate":
		// the hooks synchronise the actor; a bystander whose tokens moved (exchange rate of a slashed
		// validator) is revalued: no hook ran for him
		out := []string{change(o.U, 0)}
		for u := range after.sh {
			if u != o.U && after.sh[u][0].Cmp(before.sh[u][0]) != 0 {
				out = append(out, fmt.Sprintf("Revalue %s %s %s", Nat(u), Nat(0), Z(after.sh[u][0])))
			}
		}
		return out
	case "endblock", "val-slash", "val-jail", "val-unjail":
		// validators that entered or left the bonded set, or were slashed: the hooks synchronise every
		// delegator of the validator (with the stake recorded so far), then the bonded stake changes
		var out []string
		for u := range after.sh {
			moved := after.sh[u][0].Cmp(before.sh[u][0]) != 0
			for d := 0; d < nDenoms; d++ {
				if before.sh[u][0].Sign() > 0 && after.uidx[u][0][d].Cmp(before.uidx[u][0][d]) != 0 {
					moved = true
				}
			}
			if moved {
				out = append(out, change(u, 0))
			}
		}
		if after.tot[0].Cmp(before.tot[0]) != 0 {
			out = append(out, fmt.Sprintf("SetTotal %s %s", Nat(0), Z(after.tot[0])))
		}
		if len(out) == 0 {
			out = append(out, "Other true")
		}
		return out
	case "earn-deposit", "earn-withdraw":
		return []string{change(o.U, o.P)}
	case "trade", "price", "lq-mint", "lq-burn", "stk-reward", "slash":
		return []string{"Other true"}
	case "params":
		return []string{w.coqSetParams()}
	case "claim":
		m := "None"
		if f := w.cfg.factor(o.D, o.M); f != nil {
			m = fmt.Sprintf("(Some %s)", Z(f))
		}
		return []string{fmt.Sprintf("Claim %s %s %s", Nat(o.U), Nat(o.D), m)}
	}
	if strings.HasPrefix(o.Kind, "cdp-") {
		// every cdp message synchronises (or initialises) the owner's claim for the collateral type
		return []string{change(o.U, o.P)}
	}
	if strings.HasPrefix(o.Kind, "hard-") {
		// the hooks' contract: a deposit synchronises every denom of the owner's deposit; a repay every
		// denom of the borrow; a borrow, withdraw or liquidation both
		supply := o.Kind != "hard-repay"
		borrow := o.Kind != "hard-deposit"
		var out []string
		for p := 0; p < 4; p++ {
			if ((p < 2 && supply) || (p >= 2 && borrow)) && held(o.U, p) {
				out = append(out, change(o.U, p))
			}
		}
		if len(out) == 0 {
			out = append(out, "Other true")
		}
		return out
	}
	panic("coqOps: unknown kind " + o.Kind)
}

func coqObs(cls Class, fb, fa []*big.Int) string {
	var ch []string
	for i := range fa {
		if fb[i].Cmp(fa[i]) != 0 {
			ch = append(ch, fmt.Sprintf("(%s, %s)", Nat(i), Z(fa[i])))
		}
	}
	return fmt.Sprintf("mkObs %s %s", cls.Coq(), List(ch))
}

func coqPeriod(w *world, pc periodCfg) string {
	rates := make([]*big.Int, nDenoms)
	for d := range rates {
		rates[d] = bigOf(pc.Rates[d])
	}
	return fmt.Sprintf("mk_period %s %s %s", Z(big.NewInt(w.t0+pc.StartOff)), Z(big.NewInt(w.t0+pc.EndOff)), ZList(rates))
}

func (w *world) coqHeader(s0 *snap) string {
	var pds []string
	for p, pc := range w.cfg.Periods {
		// the bkava vaults have no entry of their own in the period table: the shared period travels with BkAcc
		if !pc.Present || (w.src == "earn" && p >= earnBkPool) {
			pds = append(pds, "None")
			continue
		}
		pds = append(pds, fmt.Sprintf("Some (%s)", coqPeriod(w, pc)))
	}
	env := fmt.Sprintf("(mk_env %s %s %s %s %s %s)", Nat(w.nU), Nat(w.nP), Nat(nDenoms), List(pds), Z(big.NewInt(w.t0+w.cfg.ClaimEndOff)), Bool(exactOf(w.src, &w.cfg)))
	return fmt.Sprintf("%s\n  %s %s %s %s\n  %s", env, Z(big.NewInt(w.t0)), ZList(s0.macc), ZList(s0.gtime), ZList(s0.tot), ZList(s0.flat()))
}

// ------------------------------------------------------------ history runner

type runOut struct {
	ops    []op
	coq    string
	fail   *Failure
	known  *Failure // first occurrence of the known finding (reported only when nothing else fails)
	okOps  int
	splits map[string]bool
}

func runHist(seed uint64, idx, n int, src string, cfg histCfg, ops []op, cnt *Counters) runOut {
	w := setup(src, cfg)
	r := NewRng(seed, uint64(idx)*2+1)
	out := runOut{splits: map[string]bool{}}
	prev := w.snap()
	head := w.coqHeader(prev)
	m := newMon(&w.cfg, w.t0, w.nU, w.nP, exactOf(src, &w.cfg))
	for p := 0; p < w.nP; p++ {
		m.prevBlock[p] = prev.gtime[p].Int64() // the test app runs one begin block at genesis time
	}
	var steps []string
	if ops != nil {
		n = len(ops)
	}
	for i := 0; i < n; i++ {
		var o op
		if ops != nil {
			o = ops[i]
		} else {
			o = w.genOp(r, prev, i)
		}
		cls, err := w.exec(o)
		after := w.snap()
		out.ops = append(out.ops, o)
		if cnt != nil {
			cnt.Inc("op:" + o.Kind + ":" + cls.String())
			cnt.Inc("source:" + src)
			if cls != ClassOk {
				cnt.Inc("err:" + o.Kind + ":" + errKind(err))
				if os.Getenv("C09_DEBUG") != "" && errKind(err) == "other" {
					msg := err.Error()
					if len(msg) > 90 {
						msg = msg[len(msg)-90:]
					}
					cnt.Inc("dbg:" + o.Kind + ":" + msg)
				}
			}
		}
		if cls == ClassOk {
			out.okOps++
		}
		steps = append(steps, fmt.Sprintf("(%s,\n    %s)", List(coqOps(w, o, cls, prev, after)), coqObs(cls, prev.flat(), after.flat())))
		if v := m.check(w, o, cls, err, prev, after, cnt, out.splits); v != nil {
			f := &Failure{History: idx, Step: i, Predicate: v.pred, Signature: v.sig, Detail: v.detail}
			if knownSig(v.sig) {
				if out.known == nil {
					out.known = f
				}
			} else if out.fail == nil {
				out.fail = f
			}
		}
		prev = after
	}
	out.coq = fmt.Sprintf("mkHist %s\n  %s", head, List(steps))
	if out.fail == nil && out.known != nil {
		out.fail = out.known
	}
	return out
}

var allSplits = []string{
	"window:before-start", "window:straddles-start", "window:inside", "window:straddles-end",
	"window:after-end", "window:covers-whole-period",
	"secs:whole", "secs:below-half", "secs:above-half", "secs:half-to-even-down", "secs:half-to-even-up",
	"accumulate:increment", "accumulate:no-shares-rewards-dropped",
	"change:created-at-zero-index", "change:created-at-nonzero-index", "change:re-created-after-emptying", "change:emptied",
	"change:sync-with-positive-index-delta", "change:sync-with-zero-index-delta", "change:sync-credited-reward",
	"claim:ok", "claim:ok-with-rounding", "claim:zero-claim", "claim:claim-expired", "claim:invalid-multiplier",
	"claim:claim-not-found", "claim:insufficient-module-account-balance",
	"bkava:accumulate", "bkava:staking-rewards-forwarded",
	"interest:shares-exceed-total", "interest:shares-below-total",
	"cdp-block:risky-cdp-synchronised", "cdp-block:cdp-liquidated",
	"deleg:bystander-revalued", "deleg:stake-left-bonded-set-or-slashed", "deleg:stake-entered-bonded-set",
	"params:period-changed", "params:period-removed", "params:period-added-with-stale-accrual-time", "params:claim-end-moved", "params:refused",
}

// the sources rotate over the history index: of every 10 histories 2 drive swap,
// 1 the delegator source, 2 cdp USDX minting, 3 hard supply + borrow, 2 earn
func srcOf(i int) string {
	return []string{"swap", "cdp", "hard", "delegator", "earn", "hard", "cdp", "swap", "earn", "hard"}[i%10]
}

func runC09(o Opts) (*Result, error) {
	n := o.Len
	if n == 0 {
		n = defaultL
	}
	res := &Result{Property: "C09", Seed: o.Seed,
		Rule: fmt.Sprintf("histories of %d operations of one reward source (rotating: swap, cdp USDX minting, hard supply+borrow, delegator, earn incl. bkava vaults): the source's real messages and begin/end blockers, incentive.BeginBlocker, MsgClaim*Reward, keeper slashes, incentive SetParams, generated from splitmix64(seed, history index) on a fresh app.TestApp with a random reward-period configuration (interest on or off); followed by the fixed witnesses of the known findings; a history is non-trivial when a synchronisation credited a positive reward to a claim (change:sync-credited-reward) or a claim paid out (claim:ok); distinct by hash of configuration + operation list", n)}
	cnt := NewCounters()

	if o.Replay != "" {
		bz, err := os.ReadFile(o.Replay)
		if err != nil {
			return nil, err
		}
		var h hist
		if err := json.Unmarshal(bz, &h); err != nil {
			return nil, err
		}
		if h.Src == "" {
			h.Src = "swap"
		}
		if _, np := dimsOf(h.Src); len(h.Cfg.Periods) != np {
			return nil, fmt.Errorf("replay file has no configuration")
		}
		ot := runHist(h.Seed, h.Idx, 0, h.Src, h.Cfg, h.Ops, cnt)
		name, err := WriteShard(o.OutDir, 0, header, []string{ot.coq}, "mismatches")
		if err != nil {
			return nil, err
		}
		res.Shards = []string{name}
		res.HistIndex = []HistRef{{Shard: 0, Pos: 0, Hist: h.Idx, Desc: MustJSON(h)}}
		res.Histories, res.Evaluations = 1, len(h.Ops)
		if ot.fail != nil {
			ot.fail.Replay = MustJSON(h)
			res.Failures = append(res.Failures, *ot.fail)
		}
		res.Counters = cnt.Map()
		return res, nil
	}

	// the fixed histories (the minimal witnesses of the known finding) run after the generated ones on every run
	fixed := fixedHists()
	total := o.N + len(fixed)
	outs := make([]runOut, total)
	cfgs := make([]histCfg, total)
	srcs := make([]string, total)
	ParallelFor(total, o.Workers, func(i int) {
		if i >= o.N {
			h := fixed[i-o.N]
			cfgs[i], srcs[i] = h.Cfg, h.Src
			ot := runHist(h.Seed, i, 0, h.Src, h.Cfg, h.Ops, cnt)
			if ot.fail != nil {
				ot.fail.Replay = MustJSON(hist{h.Seed, i, h.Src, h.Cfg, h.Ops})
			}
			outs[i] = ot
			return
		}
		src := srcOf(i)
		srcs[i] = src
		_, np := dimsOf(src)
		cfg := genCfg(NewRng(o.Seed, uint64(i)*2), src, np)
		cfgs[i] = cfg
		ot := runHist(o.Seed, i, n, src, cfg, nil, cnt)
		if ot.fail != nil && knownSig(ot.fail.Signature) {
			// the known finding: reported with the history as it ran (the minimal witnesses are the fixed histories)
			ot.fail.Replay = MustJSON(hist{o.Seed, i, src, cfg, ot.ops[:ot.fail.Step+1]})
		} else if ot.fail != nil {
			sig := ot.fail.Signature
			fails := func(cand []op) bool {
				f := runHist(o.Seed, i, 0, src, cfg, cand, nil).fail
				return f != nil && f.Signature == sig
			}
			small := Shrink(ot.ops[:ot.fail.Step+1], fails)
			if f2 := runHist(o.Seed, i, 0, src, cfg, small, nil).fail; f2 != nil {
				f2.History = i
				f2.Replay = MustJSON(hist{o.Seed, i, src, cfg, small})
				ot.fail = f2
			} else {
				ot.fail.Replay = MustJSON(hist{o.Seed, i, src, cfg, ot.ops[:ot.fail.Step+1]})
			}
		}
		outs[i] = ot
	})

	seen := map[string]bool{}
	perShard := 16
	var cases []string
	shard := 0
	flush := func() error {
		if len(cases) == 0 {
			return nil
		}
		name, err := WriteShard(o.OutDir, shard, header, cases, "mismatches")
		if err != nil {
			return err
		}
		res.Shards = append(res.Shards, name)
		shard++
		cases = nil
		return nil
	}
	for i, ot := range outs {
		res.Histories++
		res.Evaluations += len(ot.ops)
		h := hist{o.Seed, i, srcs[i], cfgs[i], ot.ops}
		key := string(MustJSON(h.Cfg)) + string(MustJSON(ot.ops))
		if (ot.splits["change:sync-credited-reward"] || ot.splits["claim:ok"]) && !seen[key] {
			seen[key] = true
			res.DistinctNontrivial++
		}
		if i < 2 {
			res.Samples = append(res.Samples, h)
		}
		res.HistIndex = append(res.HistIndex, HistRef{Shard: shard, Pos: len(cases), Hist: i, Desc: MustJSON(h)})
		cases = append(cases, ot.coq)
		if len(cases) == perShard {
			if err := flush(); err != nil {
				return nil, err
			}
		}
		if ot.fail != nil {
			res.Failures = append(res.Failures, *ot.fail)
		}
	}
	if err := flush(); err != nil {
		return nil, err
	}
	res.Counters = cnt.Map()
	for _, k := range allSplits {
		if res.Counters["split:"+k] == 0 {
			res.QualityGate = append(res.QualityGate, k)
		}
	}
	sp := probeSavings()
	if sp.ClaimCreated || sp.Verdict == "" || strings.HasPrefix(sp.Verdict, "probe failed") {
		res.QualityGate = append(res.QualityGate, "savings-source-live-or-probe-failed")
	}
	res.Extra = map[string]any{"sources_tied": []string{"swap", "delegator", "cdp-usdx-minting", "hard-supply", "hard-borrow", "earn", "earn-bkava"},
		"savings_probe": sp}
	return res, nil
}
