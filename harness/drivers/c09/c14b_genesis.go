package c09

// Genesis re-import histories for the C14b component of C14 (added for C14b; the
// C09 driver does not use this file): ordinary C09 histories of every reward
// source (same worlds, configurations and generators) with in-place re-imports of
// the whole x/incentive genesis at PRNG-chosen points,
//
//	gs := incentive.ExportGenesis(branch of ctx); gs.Validate(); JSON round trip;
//	delete every key of the incentive KV store and the module's parameters;
//	incentive.InitGenesis(ctx, k, accountKeeper, bankKeeper, cdpKeeper, gs)
//
// on the real keeper; the history continues on the re-imported store (claims are
// exported as stored, i.e. unsynchronised).  For the swap source a second stream
// perturbs real exports one field at a time and compares the verdict of the real
// GenesisState.Validate / InitGenesis with the model's (Model/GenesisIncentive.v).

import (
	. "kavaverif/lib"

	"bytes"
	"encoding/json"
	"fmt"
	"strings"
	"time"

	sdkmath "cosmossdk.io/math"
	sdk "github.com/cosmos/cosmos-sdk/types"
	paramstypes "github.com/cosmos/cosmos-sdk/x/params/types"

	"github.com/kava-labs/kava/x/incentive"
	inctypes "github.com/kava-labs/kava/x/incentive/types"
)

const GenesisHeader = "From Kava Require Import Base.Prelude Base.Dec Model.Accumulator Model.Incentive Model.GenesisIncentive."

var GenesisWanted = []string{
	"incentive/reimport:ok", "incentive/reimport:source:swap", "incentive/reimport:source:cdp", "incentive/reimport:source:hard",
	"incentive/reimport:source:delegator", "incentive/reimport:with-claims", "incentive/reimport:claim-with-unsynced-indexes",
	"incentive/reimport:claim-with-stored-reward",
	"incentive/mutgen:valid=true", "incentive/mutgen:valid=false", "incentive/mutgen:init:ok", "incentive/mutgen:init:panic", "incentive/mutgen:invalid:init:panic",
}

type GenesisHist struct {
	Part string  `json:"part"`
	Seed uint64  `json:"seed"`
	Idx  int     `json:"history"`
	Src  string  `json:"source"`
	Cfg  histCfg `json:"cfg"`
	Ops  []op    `json:"ops"`
}

func wipeIncParams(ctx sdk.Context, w *world) {
	st := ctx.KVStore(w.tApp.GetKVStoreKey(paramstypes.StoreKey))
	var keys [][]byte
	it := sdk.KVStorePrefixIterator(st, []byte(inctypes.ModuleName+"/"))
	for ; it.Valid(); it.Next() {
		keys = append(keys, append([]byte(nil), it.Key()...))
	}
	it.Close()
	for _, k := range keys {
		st.Delete(k)
	}
}

func (w *world) initIncGenesis(ctx sdk.Context, gs inctypes.GenesisState) {
	incentive.InitGenesis(ctx, w.ik, w.tApp.GetAccountKeeper(), w.tApp.GetBankKeeper(), w.tApp.GetCDPKeeper(), gs)
}

type incReimport struct {
	cls               Class
	pred, sig, detail string
}

func (w *world) reimport(mark func(string)) incReimport {
	key := w.tApp.GetKVStoreKey(inctypes.StoreKey)
	cdc := w.tApp.AppCodec()
	out := incReimport{}
	stage := "export"
	set := func(p, s, d string) {
		if out.pred == "" {
			out.pred, out.sig, out.detail = p, s, d
		}
	}
	cls, err := Atomically(w.ctx, func(ctx sdk.Context) error {
		bctx, _ := ctx.CacheContext()
		gs := incentive.ExportGenesis(bctx, w.ik)
		stage = "validate"
		if e := gs.Validate(); e != nil {
			set("incentive-exported-genesis-validates", "incentive-export-fails-validation", e.Error())
		}
		stage = "json"
		bz := cdc.MustMarshalJSON(&gs)
		var gs2 inctypes.GenesisState
		cdc.MustUnmarshalJSON(bz, &gs2)
		dumpBefore := DumpStore(ctx, key)
		stage = "import"
		WipeStore(ctx, key)
		wipeIncParams(ctx, w)
		w.initIncGenesis(ctx, gs2)
		stage = "compare"
		if d := DiffDumps(dumpBefore, DumpStore(ctx, key), nil); len(d) > 0 {
			set("incentive-store-identical-after-reimport", "incentive-store-differs-after-reimport", strings.Join(d, "; "))
		}
		p2 := w.ik.GetParams(ctx)
		if !bytes.Equal(cdc.MustMarshalJSON(&p2), cdc.MustMarshalJSON(&gs.Params)) {
			set("incentive-params-identical-after-reimport", "incentive-params-differ-after-reimport", "params changed by the round trip")
		}
		b2, _ := ctx.CacheContext()
		gs3 := incentive.ExportGenesis(b2, w.ik)
		if bz3 := cdc.MustMarshalJSON(&gs3); !bytes.Equal(bz, bz3) {
			set("incentive-reexport-identical", "incentive-reexport-differs", fmt.Sprintf("first export %d bytes, re-export %d bytes", len(bz), len(bz3)))
		}
		return nil
	})
	out.cls = cls
	mark("incentive/reimport:" + cls.String())
	if cls != ClassOk {
		out.pred, out.sig, out.detail = "incentive-reimport-does-not-panic", "incentive-reimport-panics-at-"+stage, fmt.Sprint(err)
	}
	return out
}

// ---- swap source: the swap part of a genesis state as a term of Model/GenesisIncentive.v

func poolIdx(id string, nP int) int {
	for p := 0; p < nP; p++ {
		if poolID(p) == id {
			return p
		}
	}
	return -1
}

func rdIdx(d string) int {
	for i, x := range rewardDenoms {
		if x == d {
			return i
		}
	}
	return -1
}

func coqIndexes(ris inctypes.RewardIndexes) string {
	var it []string
	for _, ri := range ris {
		if d := rdIdx(ri.CollateralType); d >= 0 {
			it = append(it, fmt.Sprintf("(%s, %s)", Nat(d), Z(ri.RewardFactor.BigInt())))
		}
	}
	return List(it)
}

func (w *world) coqMulti(mris inctypes.MultiRewardIndexes) string {
	var it []string
	for _, m := range mris {
		if p := poolIdx(m.CollateralType, w.nP); p >= 0 {
			it = append(it, fmt.Sprintf("(%s, %s)", Nat(p), coqIndexes(m.RewardIndexes)))
		}
	}
	return List(it)
}

var zeroTimeNs = "(-62135596800000000000)"

func (w *world) coqSwapGenesis(gs inctypes.GenesisState) string {
	var ts, cs []string
	for _, at := range gs.SwapRewardState.AccumulationTimes {
		if p := poolIdx(at.CollateralType, w.nP); p >= 0 {
			t := Zi(at.PreviousAccumulationTime.UnixNano())
			if at.PreviousAccumulationTime.Equal(time.Time{}) {
				t = zeroTimeNs
			}
			ts = append(ts, fmt.Sprintf("(%s, %s)", Nat(p), t))
		}
	}
	for _, c := range gs.SwapClaims {
		u := -1
		for i := 0; i < w.nU; i++ {
			if w.addrs[i].Equals(c.Owner) {
				u = i
			}
		}
		if u < 0 {
			continue
		}
		var rw []string
		for _, cn := range c.Reward {
			x := "0"
			if !cn.Amount.IsNil() {
				x = Z(cn.Amount.BigInt())
			}
			rw = append(rw, fmt.Sprintf("(%s, %s)", Nat(rdIdx(cn.Denom)), x))
		}
		cs = append(cs, fmt.Sprintf("mkGC %s %s %s", Nat(u), List(rw), w.coqMulti(c.RewardIndexes)))
	}
	return fmt.Sprintf("(mkGen %s %s\n      %s)", List(ts), w.coqMulti(gs.SwapRewardState.MultiRewardIndexes), List(cs))
}

const nIncMutations = 10

func (w *world) mutatedGenesis(kind, sel int, mark func(string)) (term string, valid bool, cls Class, name string) {
	bctx, _ := w.ctx.CacheContext()
	gs := incentive.ExportGenesis(bctx, w.ik)
	st := &gs.SwapRewardState
	st.AccumulationTimes = append(inctypes.AccumulationTimes(nil), st.AccumulationTimes...)
	st.MultiRewardIndexes = append(inctypes.MultiRewardIndexes(nil), st.MultiRewardIndexes...)
	gs.SwapClaims = append(inctypes.SwapClaims(nil), gs.SwapClaims...)
	nt, ni, nc := len(st.AccumulationTimes), len(st.MultiRewardIndexes), len(gs.SwapClaims)
	name = "none"
	copyRIs := func(r inctypes.RewardIndexes) inctypes.RewardIndexes {
		return append(inctypes.RewardIndexes(nil), r...)
	}
	copyMRIs := func(m inctypes.MultiRewardIndexes) inctypes.MultiRewardIndexes {
		out := append(inctypes.MultiRewardIndexes(nil), m...)
		for i := range out {
			out[i].RewardIndexes = copyRIs(out[i].RewardIndexes)
		}
		return out
	}
	switch kind {
	case 0: // negative / zero global factor
		if ni > 0 {
			m := st.MultiRewardIndexes[sel%ni]
			m.RewardIndexes = copyRIs(m.RewardIndexes)
			if len(m.RewardIndexes) > 0 {
				m.RewardIndexes[0].RewardFactor = []sdk.Dec{sdk.SmallestDec().Neg(), sdk.ZeroDec()}[(sel/ni)%2]
				st.MultiRewardIndexes[sel%ni] = m
				name = "global-factor-negative-or-zero"
			}
		}
	case 1: // negative / zero factor in a claim
		if nc > 0 {
			c := gs.SwapClaims[sel%nc]
			c.RewardIndexes = copyMRIs(c.RewardIndexes)
			if len(c.RewardIndexes) > 0 && len(c.RewardIndexes[0].RewardIndexes) > 0 {
				c.RewardIndexes[0].RewardIndexes[0].RewardFactor = []sdk.Dec{sdk.SmallestDec().Neg(), sdk.ZeroDec()}[(sel/nc)%2]
				gs.SwapClaims[sel%nc] = c
				name = "claim-factor-negative-or-zero"
			}
		}
	case 2: // reward coin zero / negative / one
		if nc > 0 {
			c := gs.SwapClaims[sel%nc]
			c.Reward = append(sdk.Coins(nil), c.Reward...)
			if len(c.Reward) == 0 {
				c.Reward = sdk.Coins{sdk.Coin{Denom: rewardDenoms[0], Amount: sdkmath.OneInt()}}
			}
			c.Reward[0].Amount = []sdkmath.Int{sdkmath.ZeroInt(), sdkmath.NewInt(-1), sdkmath.OneInt()}[(sel/nc)%3]
			gs.SwapClaims[sel%nc] = c
			name = "claim-reward-0-or-negative-or-1"
		}
	case 3: // reward coins out of order / duplicated
		if nc > 0 {
			c := gs.SwapClaims[sel%nc]
			a, b := sdk.Coin{Denom: rewardDenoms[0], Amount: sdkmath.NewInt(5)}, sdk.Coin{Denom: rewardDenoms[1], Amount: sdkmath.NewInt(7)}
			c.Reward = []sdk.Coins{{b, a}, {a, a}, {a, b}}[(sel/nc)%3]
			gs.SwapClaims[sel%nc] = c
			name = "claim-reward-unsorted-or-duplicate-or-sorted"
		}
	case 4: // accumulation time not set (accepted by Validate, refused by InitGenesis)
		if nt > 0 {
			a := st.AccumulationTimes[sel%nt]
			a.PreviousAccumulationTime = time.Time{}
			st.AccumulationTimes[sel%nt] = a
			name = "accumulation-time-zero"
		}
	case 5: // the same owner twice (accepted; the later record wins)
		if nc > 0 {
			c := gs.SwapClaims[sel%nc]
			c.Reward = c.Reward.Add(sdk.NewCoin(rewardDenoms[sel%2], sdkmath.NewInt(int64(1+sel%100))))
			gs.SwapClaims = append(gs.SwapClaims, c)
			name = "duplicate-claim-owner"
		}
	case 6:
		if nt > 0 {
			i := sel % nt
			st.AccumulationTimes = append(st.AccumulationTimes[:i:i], st.AccumulationTimes[i+1:]...)
			name = "accumulation-time-dropped"
		}
	case 7:
		if nc > 0 {
			c := gs.SwapClaims[sel%nc]
			if len(c.RewardIndexes) > 0 {
				c.RewardIndexes = copyMRIs(c.RewardIndexes)[1:]
				gs.SwapClaims[sel%nc] = c
				name = "claim-index-entry-dropped"
			}
		}
	case 8: // a collateral type listed twice in the reward state (accepted; the later record wins)
		if ni > 0 {
			m := st.MultiRewardIndexes[sel%ni]
			m.RewardIndexes = copyRIs(m.RewardIndexes)
			for i := range m.RewardIndexes {
				m.RewardIndexes[i].RewardFactor = m.RewardIndexes[i].RewardFactor.Add(sdk.OneDec())
			}
			st.MultiRewardIndexes = append(st.MultiRewardIndexes, m)
			name = "duplicate-reward-state-entry"
		}
	default: // a claim dropped (accepted)
		if nc > 0 {
			i := sel % nc
			gs.SwapClaims = append(gs.SwapClaims[:i:i], gs.SwapClaims[i+1:]...)
			name = "claim-dropped"
		}
	}
	term = w.coqSwapGenesis(gs)
	valid = gs.Validate() == nil
	mark("incentive/mutgen:" + name + fmt.Sprintf(":valid=%v", valid))
	mark(fmt.Sprintf("incentive/mutgen:valid=%v", valid))
	// the real InitGenesis runs on EVERY perturbed genesis, also those Validate refuses (scratch branch,
	// never written back, panics recovered): InitGenesis is the only gate at chain start
	cls, _ = Atomically(w.ctx, func(ctx sdk.Context) error {
		c2, _ := ctx.CacheContext() // never written back
		WipeStore(c2, w.tApp.GetKVStoreKey(inctypes.StoreKey))
		wipeIncParams(c2, w)
		w.initIncGenesis(c2, gs)
		return nil
	})
	if valid {
		mark("incentive/mutgen:init:" + cls.String())
	} else {
		mark("incentive/mutgen:invalid:init:" + cls.String())
	}
	return
}

// the sources of the re-import histories rotate over the history index
func genesisSrcOf(i int) string {
	return []string{"swap", "hard", "swap", "cdp", "delegator", "swap", "hard", "cdp"}[i%8]
}

// GenesisRun executes generated (explicit == false) or explicit operations on a fresh C09 world.
func GenesisRun(seed uint64, idx, n int, src string, cfg *histCfg, ops []op, explicit bool, cnt *Counters) (GenesisPartOut, histCfg, []op) {
	r := NewRng(seed, uint64(idx)*2+9_000_001)
	var c histCfg
	if cfg != nil {
		c = *cfg
	} else {
		_, np := dimsOf(src)
		c = genCfg(r, src, np)
	}
	mark := func(k string) {
		if cnt != nil {
			cnt.Inc(k)
		}
	}
	w := setup(src, c)
	out := GenesisPartOut{}
	prev := w.snap()
	head := w.coqHeader(prev)
	var steps []string
	var done []op
	if explicit {
		n = len(ops)
	}
	forced := n/2 + r.Intn(n/3+1)
	reimports := 0
	probeNo := 0 // perturbation kinds rotate, offset by the history index: every kind is probed in every run
	step := 0    // position within the source's own generator (its first steps set positions up)
	for i := 0; i < n; i++ {
		var o op
		if explicit {
			o = ops[i]
		} else {
			switch {
			case step >= 4 && (r.Chance(1, 7) || (i >= forced && reimports == 0)):
				o = op{Kind: "reimport"}
			case step >= 4 && src == "swap" && r.Chance(1, 4):
				o = op{Kind: "mutgen", D: (idx*5 + probeNo) % nIncMutations, P: r.Intn(1 << 16)}
				probeNo++
			default:
				o = w.genOp(r, prev, step)
				step++
			}
		}
		done = append(done, o)
		if o.Kind == "mutgen" {
			term, valid, cls, name := w.mutatedGenesis(o.D, o.P, mark)
			v, cc := int64(0), int64(cls)
			if valid {
				v = 1
			}
			steps = append(steps, fmt.Sprintf("(GProbe %s [%d; %s],\n    %s)", term, v, Zi(cc), coqObs(ClassOk, prev.flat(), prev.flat())))
			if !valid && cls != ClassPanic && out.Fail == nil {
				out.Fail = &Failure{Step: i, Predicate: "invalid-genesis-imported:incentive:" + name, Signature: "invalid-genesis-imported:incentive:" + name,
					Detail: fmt.Sprintf("GenesisState.Validate refuses this genesis state (perturbation %s of a real export) but InitGenesis on an emptied store imports it: %s", name, term)}
			}
			continue
		}
		if o.Kind == "reimport" {
			reimports++
			ro := w.reimport(mark)
			after := w.snap()
			if ro.cls == ClassOk {
				mark("incentive/reimport:source:" + src)
				for u := 0; u < w.nU; u++ {
					if !prev.has[u] {
						continue
					}
					mark("incentive/reimport:with-claims")
					out.Nontriv = true
					for d := 0; d < nDenoms; d++ {
						if prev.rew[u][d].Sign() > 0 {
							mark("incentive/reimport:claim-with-stored-reward")
						}
						if prev.synced[u][d].Cmp(prev.rew[u][d]) != 0 {
							mark("incentive/reimport:claim-with-unsynced-indexes")
						}
					}
				}
			}
			steps = append(steps, fmt.Sprintf("(GReimport,\n    %s)", coqObs(ro.cls, prev.flat(), after.flat())))
			if ro.pred != "" && out.Fail == nil {
				out.Fail = &Failure{Step: i, Predicate: ro.pred, Signature: ro.sig, Detail: ro.detail}
			}
			prev = after
			continue
		}
		cls, _ := w.exec(o)
		after := w.snap()
		if cnt != nil {
			cnt.Inc("incentive/op:" + src + ":" + o.Kind + ":" + cls.String())
		}
		steps = append(steps, fmt.Sprintf("(GOps %s,\n    %s)", List(coqOps(w, o, cls, prev, after)), coqObs(cls, prev.flat(), after.flat())))
		prev = after
	}
	out.NOps = len(done)
	out.Coq = fmt.Sprintf("mkGHist %s\n  %s", head, List(steps))
	out.Key = src + string(MustJSON(done))
	out.Desc = GenesisHist{Part: "incentive", Seed: seed, Idx: idx, Src: src, Cfg: c, Ops: done}
	return out, c, done
}

func GenesisPart(seed uint64, i, n int, cnt *Counters) GenesisPartOut {
	src := genesisSrcOf(i)
	out, cfg, ops := GenesisRun(seed, i, n, src, nil, nil, false, cnt)
	if out.Fail != nil {
		sig := out.Fail.Signature
		upto := out.Fail.Step + 1
		if upto > len(ops) {
			upto = len(ops)
		}
		fails := func(cand []op) bool {
			o2, _, _ := GenesisRun(seed, i, n, src, &cfg, cand, true, nil)
			return o2.Fail != nil && o2.Fail.Signature == sig
		}
		small := ops[:upto]
		if fails(small) {
			small = Shrink(small, fails)
		}
		if o2, _, _ := GenesisRun(seed, i, n, src, &cfg, small, true, nil); o2.Fail != nil {
			out.Fail = o2.Fail
		}
		out.Fail.Replay = MustJSON(GenesisHist{Part: "incentive", Seed: seed, Idx: i, Src: src, Cfg: cfg, Ops: small})
	}
	return out
}

func GenesisReplay(raw json.RawMessage, cnt *Counters) (GenesisPartOut, error) {
	var h GenesisHist
	if err := json.Unmarshal(raw, &h); err != nil {
		return GenesisPartOut{}, err
	}
	out, _, _ := GenesisRun(h.Seed, h.Idx, len(h.Ops), h.Src, &h.Cfg, h.Ops, true, cnt)
	if out.Fail != nil {
		out.Fail.Replay = MustJSON(h)
	}
	return out, nil
}
