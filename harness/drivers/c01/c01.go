// Package c01: deterministic replication.  A multi-module history of blocks of
// signed transactions (valid and invalid, arbitrary block times) is executed
// on replica A, on an independent replica B in the same process, and on
// replica C whose database is re-opened (a fresh App over the same DB, loading
// the latest committed version) at PRNG-chosen heights.  App hash, every
// DeliverTx result (code, codespace, gas used, events) and the begin/end-block
// events are compared at every height.
package c01

import (
	. "kavaverif/lib"

	"encoding/json"
	"fmt"
	"os"
	"time"

	tmdb "github.com/cometbft/cometbft-db"
	"github.com/cometbft/cometbft/libs/log"
	"github.com/cosmos/cosmos-sdk/baseapp"
	sdk "github.com/cosmos/cosmos-sdk/types"

	"crypto/sha256"
	"encoding/hex"
	"github.com/kava-labs/kava/app"
	"io"
	"kavaverif/drivers/world"
	"os/exec"
	"path/filepath"
)

func init() { Registry["C01"] = run }

type hist struct {
	Seed   uint64 `json:"seed"`
	Idx    int    `json:"history"`
	Blocks int    `json:"blocks"`
	Zone   bool   `json:"zone,omitempty"` // replay through the local-time-zone child (zoneStream)
}

type divergence struct {
	Height  int64        `json:"height"`
	What    string       `json:"what"`
	A       any          `json:"replica_a"`
	Other   any          `json:"other"`
	Replica string       `json:"replica"`
	Txs     []string     `json:"txs"`
	Config  world.Config `json:"config"`
}

func newAppOnDB(db tmdb.DB) app.TestApp {
	return newAppWith(db, app.DefaultOptions)
}

func newAppWith(db tmdb.DB, opts app.Options) app.TestApp {
	_ = NewApp // ensure sdk config is set
	enc := app.MakeEncodingConfig()
	a := app.NewApp(log.NewNopLogger(), db, app.DefaultNodeHome, nil, enc, opts, baseapp.SetChainID(app.TestChainId))
	return app.TestApp{App: *a}
}

// nodeLocalOptions differ from the defaults only in settings that are local to a node
// (mempool authentication, EVM tracer, max gas wanted, invariant check period); the
// property says every node computes the same results regardless.
func nodeLocalOptions(w *world.World) app.Options {
	o := app.DefaultOptions
	o.MempoolEnableAuth = true
	o.MempoolAuthAddresses = []sdk.AccAddress{w.Addrs[0]}
	o.InvariantCheckPeriod = 5
	return o
}

func cmpBlock(a, b world.BlockResult) string {
	if a.Panic != b.Panic {
		return "panic"
	}
	if a.AppHash != b.AppHash {
		return "app_hash"
	}
	if a.EndSum != b.EndSum {
		return "end_block_events"
	}
	if a.ValUpdSum != b.ValUpdSum {
		return "validator_updates"
	}
	if len(a.Txs) != len(b.Txs) {
		return "tx_count"
	}
	for i := range a.Txs {
		if a.Txs[i] != b.Txs[i] {
			return fmt.Sprintf("tx_result[%d]", i)
		}
	}
	return ""
}

// knownStream reproduces the recorded finding "restart-validatebasic-gas-leak": on a
// replica re-opened from its database the first BeginBlock consumes extra gas on the
// block's infinite gas meter (x/upgrade's one-time downgrade verification), and baseapp
// reports that meter as GasUsed of a transaction failing ValidateBasic and adds it to the
// block gas (stored by x/feemarket) — so such a block gives a different tx result and app hash.
func knownStream(seed uint64, cnt *Counters) *divergence {
	r := NewRng(seed, 0xC01F)
	cfg := world.RandomConfig(r)
	wA := world.NewWorld(cfg, seed, nil)
	A := wA.Start(NewApp())
	gen := wA.GenesisBytes(A)
	dbC := tmdb.NewMemDB()
	wC := world.NewWorld(cfg, seed, nil)
	C := wC.StartFrom(newAppOnDB(dbC), gen, world.Genesis0)
	world.Deliver(A, 2, nil)
	world.Deliver(C, 2, nil)
	C = newAppOnDB(dbC)
	t := world.Genesis0.Add(7 * time.Second)
	world.Begin(A, 3, t)
	world.Begin(C, 3, t)
	wA.Height, wA.Time = 3, t
	tx := wA.InvalidBasicTx(A)
	ra := world.Deliver(A, 3, [][]byte{tx})
	rc := world.Deliver(C, 3, [][]byte{tx})
	if w := cmpBlock(ra, rc); w != "" {
		return &divergence{3, w, ra, rc, "C (database re-opened)", []string{"swap.deposit of a zero amount (fails ValidateBasic)"}, cfg}
	}
	return nil
}

// runHistory executes one history on the three replicas.  When dg is not nil the results of
// replica A (app hash, event digests, validator updates, every tx result) are written to it
// block by block: the digest of a history is what a process in another environment
// (local time zone, see zoneStream) must reproduce bit for bit.
func runHistory(seed uint64, idx, nBlocks int, cnt *Counters, dg io.Writer, genIO ...*[]byte) (*divergence, int, int, []string) {
	r := NewRng(seed, uint64(idx))
	cfg := world.RandomConfig(r)
	NewApp() // sets sdk config once
	wA := world.NewWorld(cfg, seed*1000+uint64(idx), cnt)
	// genIO[0]: in/out slot for the genesis bytes (the test helper draws a random validator
	// key, so a second process must be handed the genesis to reproduce the history)
	if len(genIO) > 0 && *genIO[0] != nil {
		wA.GenBytes = *genIO[0]
	}
	A := wA.Start(NewApp())
	gen := wA.GenesisBytes(A)
	if len(genIO) > 0 {
		*genIO[0] = gen
	}
	wB := world.NewWorld(cfg, seed*1000+uint64(idx), nil)
	// replica B runs with different node-local options
	B := wB.StartFrom(newAppWith(tmdb.NewMemDB(), nodeLocalOptions(wA)), gen, world.Genesis0)
	dbC := tmdb.NewMemDB()
	wC := world.NewWorld(cfg, seed*1000+uint64(idx), nil)
	C := wC.StartFrom(newAppOnDB(dbC), gen, world.Genesis0)
	height := int64(2)
	t := world.Genesis0
	okTx, nTx, reopens := 0, 0, 0
	justReopened := false
	var sample []string
	for b := 0; b < nBlocks; b++ {
		wA.Height, wA.Time = height, t
		// on the block right after a re-open, transactions failing ValidateBasic are left out
		// (recorded finding restart-validatebasic-gas-leak, reproduced by knownStream)
		txs, descs := wA.GenBlockTxsFiltered(r, A, 1+r.Intn(6), justReopened)
		justReopened = false
		ra := world.Deliver(A, height, txs)
		rb := world.Deliver(B, height, txs)
		rc := world.Deliver(C, height, txs)
		if dg != nil {
			dg.Write(MustJSON(ra))
		}
		for i, tr := range ra.Txs {
			nTx++
			if tr.Code == 0 {
				okTx++
				if cnt != nil {
					cnt.Inc("tx-ok:" + descs[i])
				}
			} else if cnt != nil {
				cnt.Inc("tx-fail:" + descs[i])
			}
		}
		if len(sample) < 12 {
			for i, dsc := range descs {
				if i < len(ra.Txs) {
					sample = append(sample, fmt.Sprintf("h%d %s code=%d", height, dsc, ra.Txs[i].Code))
				}
			}
		}
		if w := cmpBlock(ra, rb); w != "" {
			return &divergence{height, w, ra, rb, "B (independent replica with different node-local options)", descs, cfg}, nTx, okTx, sample
		}
		if w := cmpBlock(ra, rc); w != "" {
			return &divergence{height, w, ra, rc, "C (database re-opened)", descs, cfg}, nTx, okTx, sample
		}
		if ra.Panic != "" {
			// all replicas halted identically: determinism holds; the halt itself is C02's concern
			if cnt != nil {
				cnt.Inc("history-ended-by-identical-panic")
			}
			break
		}
		// re-open replica C from its committed database at PRNG-chosen heights
		if r.Chance(1, 3) {
			C = newAppOnDB(dbC)
			reopens++
			justReopened = true
			if cnt != nil {
				cnt.Inc("reopen")
			}
			if C.LastBlockHeight() != height {
				return &divergence{height, "reopened_height", height, C.LastBlockHeight(), "C (database re-opened)", descs, cfg}, nTx, okTx, sample
			}
		}
		height++
		t = t.Add(world.NextGap(r))
		sa, pa := world.Begin(A, height, t)
		if dg != nil {
			dg.Write([]byte(sa + "|" + pa))
		}
		sb, pb := world.Begin(B, height, t)
		sc, pc := world.Begin(C, height, t)
		if sa != sb || pa != pb {
			return &divergence{height, "begin_block", sa + pa, sb + pb, "B (independent replica with different node-local options)", nil, cfg}, nTx, okTx, sample
		}
		if sa != sc || pa != pc {
			return &divergence{height, "begin_block", sa + pa, sc + pc, "C (database re-opened)", nil, cfg}, nTx, okTx, sample
		}
		if pa != "" {
			if cnt != nil {
				cnt.Inc("history-ended-by-identical-panic")
			}
			break
		}
	}
	return nil, nTx, okTx, sample
}

func run(o Opts) (*Result, error) {
	nBlocks := o.Len
	if nBlocks == 0 {
		nBlocks = 25
	}
	res := &Result{Property: "C01", Seed: o.Seed,
		Rule: fmt.Sprintf("multi-module histories of %d blocks (1-6 signed txs each over cdp, hard, swap, savings, earn, bep3, pricefeed, auction, incentive, staking, liquid, gov, committee, issuance, bank; block gaps 1ns..20d) executed on replica A, independent replica B and replica C re-opened from its database at random heights; non-trivial when at least 5 transactions succeeded and C was re-opened at least once; distinct by (seed, history index)", nBlocks)}
	cnt := NewCounters()
	if os.Getenv(zoneChildEnv) != "" {
		// child of zoneStream: this process runs with a non-UTC local time zone (set in init);
		// it only reports the digests of the first o.N histories
		res.Extra = map[string]any{"zone_digests": historyDigests(o.Seed, o.N, nBlocks, o.Workers, o.OutDir)}
		res.Histories = o.N
		return res, nil
	}
	if o.Replay != "" {
		bz, err := os.ReadFile(o.Replay)
		if err != nil {
			return nil, err
		}
		var h hist
		if err := json.Unmarshal(bz, &h); err != nil {
			return nil, err
		}
		if h.Blocks == 0 {
			h.Blocks = nBlocks
		}
		if h.Idx < 0 {
			if dv := knownStream(h.Seed, cnt); dv != nil {
				res.Failures = append(res.Failures, Failure{History: -1, Step: 3, Predicate: "replicas-agree", Signature: "restart-validatebasic-gas-leak", Detail: string(MustJSON(dv)), Replay: MustJSON(h)})
			}
			res.Histories, res.Evaluations = 1, 1
			return res, nil
		}
		if h.Zone {
			o2 := o
			o2.Seed, o2.N = h.Seed, h.Idx+1
			if f := zoneStream(o2, h.Blocks, cnt, h.Idx); f != nil {
				res.Failures = append(res.Failures, *f)
			}
			res.Histories, res.Evaluations = 1, 1
			res.Counters = cnt.Map()
			return res, nil
		}
		dv, nTx, _, _ := runHistory(h.Seed, h.Idx, h.Blocks, cnt, nil)
		res.Histories, res.Evaluations = 1, nTx
		if dv != nil {
			res.Failures = append(res.Failures, Failure{History: h.Idx, Step: int(dv.Height), Predicate: "replicas-agree", Signature: "replica-divergence:" + dv.What, Detail: string(MustJSON(dv)), Replay: MustJSON(h)})
		}
		res.Counters = cnt.Map()
		return res, nil
	}
	type out struct {
		dv      *divergence
		nTx, ok int
		sample  []string
	}
	outs := make([]out, o.N)
	start := time.Now()
	ParallelFor(o.N, o.Workers, func(i int) {
		dv, nTx, ok, sample := runHistory(o.Seed, i, nBlocks, cnt, nil)
		outs[i] = out{dv, nTx, ok, sample}
	})
	_ = start
	if dv := knownStream(o.Seed, cnt); dv != nil {
		res.Failures = append(res.Failures, Failure{History: -1, Step: 3, Predicate: "replicas-agree", Signature: "restart-validatebasic-gas-leak",
			Detail: string(MustJSON(dv)), Replay: MustJSON(hist{o.Seed, -1, 2, false})})
	}
	if f := zoneStream(o, nBlocks, cnt, -1); f != nil {
		res.Failures = append(res.Failures, *f)
	}
	for i, ot := range outs {
		res.Histories++
		res.Evaluations += ot.nTx
		if ot.ok >= 5 {
			res.DistinctNontrivial++
		}
		if i < 2 {
			res.Samples = append(res.Samples, map[string]any{"seed": o.Seed, "history": i, "blocks": nBlocks, "first_txs": ot.sample})
		}
		if ot.dv != nil {
			res.Failures = append(res.Failures, Failure{History: i, Step: int(ot.dv.Height), Predicate: "replicas-agree", Signature: "replica-divergence:" + ot.dv.What,
				Detail: string(MustJSON(ot.dv)), Replay: MustJSON(hist{o.Seed, i, nBlocks, false})})
		}
	}
	res.Counters = cnt.Map()
	return res, nil
}

// ---------------------------------------------------------------- local time zone

// The property's replicas may run on machines with different local time zones.  A
// time.Time built with time.Unix carries the process-local zone, and some encodings
// (time.MarshalBinary, amino) write the zone offset: such a value in a store makes the
// app hash depend on the node's environment.  Replicas inside one process share
// time.Local, so the stream re-executes the first histories in a CHILD process whose
// local zone is UTC+05:45 (set in init, before anything runs) and compares digests of
// replica A's per-block results with this process (UTC).
const zoneChildEnv = "KVH_C01_ZONE_CHILD"

func init() {
	if os.Getenv(zoneChildEnv) == "1" {
		time.Local = time.FixedZone("verif+0545", 5*3600+45*60)
	}
}

// historyDigests: gendir holds gen_<i>.json per history; read when present, written otherwise
func historyDigests(seed uint64, n, nBlocks, workers int, gendir string) []string {
	out := make([]string, n)
	_ = os.MkdirAll(gendir, 0o755)
	ParallelFor(n, workers, func(i int) {
		h := sha256.New()
		gf := filepath.Join(gendir, fmt.Sprintf("gen_%d.json", i))
		gen, err := os.ReadFile(gf)
		had := err == nil
		if !had {
			gen = nil
		}
		runHistory(seed, i, nBlocks, nil, h, &gen)
		if !had {
			if err := os.WriteFile(gf, gen, 0o644); err != nil {
				panic(err)
			}
		}
		out[i] = hex.EncodeToString(h.Sum(nil))
	})
	return out
}

// only >= 0: compare that history alone (replay)
func zoneStream(o Opts, nBlocks int, cnt *Counters, only int) *Failure {
	k := 6
	if o.Tier == "thorough" {
		k = 48
	}
	if k > o.N || only >= 0 {
		k = o.N
	}
	if k == 0 {
		return nil
	}
	exe, err := os.Executable()
	if err != nil {
		return nil
	}
	dir := filepath.Join(o.OutDir, "zone_child")
	mine := historyDigests(o.Seed, k, nBlocks, o.Workers, dir)
	cmd := exec.Command(exe, "-seed", fmt.Sprint(o.Seed), "-n", fmt.Sprint(k), "-len", fmt.Sprint(nBlocks), "-out", dir, "-tier", o.Tier)
	cmd.Env = append(os.Environ(), zoneChildEnv+"=1")
	if outb, err := cmd.CombinedOutput(); err != nil {
		panic(fmt.Sprintf("zone child failed: %v\n%s", err, outb))
	}
	bz, err := os.ReadFile(filepath.Join(dir, "result.json"))
	if err != nil {
		panic(err)
	}
	var cr Result
	if err := json.Unmarshal(bz, &cr); err != nil {
		panic(err)
	}
	raw, _ := json.Marshal(cr.Extra["zone_digests"])
	var child []string
	_ = json.Unmarshal(raw, &child)
	cnt.Add("zone-stream:histories", k)
	for i := range mine {
		if only >= 0 && i != only {
			continue
		}
		if i >= len(child) || child[i] != mine[i] {
			return &Failure{History: i, Step: 0, Predicate: "replicas-agree", Signature: "replica-divergence:local-time-zone",
				Detail: fmt.Sprintf("history %d gives different per-block results (app hash / events / tx results) in a process whose local time zone is UTC+05:45 than in a UTC process: digest %s vs %s", i, mine[i], child[i]),
				Replay: MustJSON(hist{o.Seed, i, nBlocks, true})}
		}
	}
	return nil
}
