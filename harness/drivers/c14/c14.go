// Package c14: genesis export/import round trip.  A multi-module history is run
// on app A; at a PRNG-chosen height the real ExportAppStateAndValidators output
// initialises a fresh app B (InitChain at the same height; at the time of the
// exported block or, in half of the histories, LATER: at or before the time of the
// first follow-up block, as a chain restarted from an export is - with pending
// committee proposals whose deadlines fall into that gap); B is re-exported and
// compared with the first export module by module; all crisis invariant routes
// are evaluated on B; then the same follow-up blocks are applied to A and B and
// transaction results and account balances are compared.  The histories carry
// precisebank state (genesis fractional balances and akava transfers through the
// precisebank keeper), pending proposals with votes of member and token committees.
package c14

import (
	. "kavaverif/lib"

	"encoding/json"
	"fmt"
	"os"
	"sort"
	"strings"
	"time"

	sdkmath "cosmossdk.io/math"
	abci "github.com/cometbft/cometbft/abci/types"
	tmproto "github.com/cometbft/cometbft/proto/tendermint/types"
	"github.com/cosmos/cosmos-sdk/types/module"

	"github.com/kava-labs/kava/app"
	"kavaverif/drivers/world"
)

func init() { Registry["C14"] = run }

type hist struct {
	Seed   uint64 `json:"seed"`
	Idx    int    `json:"history"`
	Blocks int    `json:"blocks"`
}

type finding struct {
	Height int64        `json:"export_height"`
	What   string       `json:"what"`
	Detail string       `json:"detail"`
	Config world.Config `json:"config"`
}

// ---- JSON comparison

func diffJSON(path string, a, b any, out *[]string) {
	if len(*out) > 40 {
		return
	}
	switch x := a.(type) {
	case map[string]any:
		y, ok := b.(map[string]any)
		if !ok {
			*out = append(*out, path+": type")
			return
		}
		keys := map[string]bool{}
		for k := range x {
			keys[k] = true
		}
		for k := range y {
			keys[k] = true
		}
		ks := make([]string, 0, len(keys))
		for k := range keys {
			ks = append(ks, k)
		}
		sort.Strings(ks)
		for _, k := range ks {
			va, oka := x[k]
			vb, okb := y[k]
			if !oka || !okb {
				*out = append(*out, fmt.Sprintf("%s.%s: present only in %s", path, k, map[bool]string{true: "first", false: "second"}[oka]))
				continue
			}
			diffJSON(path+"."+k, va, vb, out)
		}
	case []any:
		y, ok := b.([]any)
		if !ok {
			*out = append(*out, path+": type")
			return
		}
		if len(x) != len(y) {
			*out = append(*out, fmt.Sprintf("%s: length %d vs %d", path, len(x), len(y)))
			return
		}
		for i := range x {
			diffJSON(fmt.Sprintf("%s[%d]", path, i), x[i], y[i], out)
		}
	default:
		if fmt.Sprint(a) != fmt.Sprint(b) {
			*out = append(*out, fmt.Sprintf("%s: %v vs %v", path, a, b))
		}
	}
}

// dropInert removes records that are inert by construction: oracle posts already
// expired at import time (the only exemption the property grants).
func dropInert(gs map[string]any, t time.Time) {
	pf, ok := gs["pricefeed"].(map[string]any)
	if !ok {
		return
	}
	pp, ok := pf["posted_prices"].([]any)
	if !ok {
		return
	}
	var keep []any
	for _, p := range pp {
		m := p.(map[string]any)
		exp, err := time.Parse(time.RFC3339Nano, fmt.Sprint(m["expiry"]))
		if err == nil && !exp.After(t) {
			continue
		}
		keep = append(keep, p)
	}
	if keep == nil {
		keep = []any{}
	}
	pf["posted_prices"] = keep
}

func compareExports(e1, e2 []byte, t time.Time) []string {
	var a, b map[string]any
	if err := json.Unmarshal(e1, &a); err != nil {
		return []string{"first export is not JSON: " + err.Error()}
	}
	if err := json.Unmarshal(e2, &b); err != nil {
		return []string{"second export is not JSON: " + err.Error()}
	}
	dropInert(a, t)
	dropInert(b, t)
	var out []string
	diffJSON("", a, b, &out)
	return out
}

func initFromExport(gen []byte, cp *tmproto.ConsensusParams, h int64, t time.Time) (B app.TestApp, pnc string) {
	defer func() {
		if r := recover(); r != nil {
			pnc = fmt.Sprint(r)
		}
	}()
	B = NewApp()
	B.InitChain(abci.RequestInitChain{Time: t, Validators: []abci.ValidatorUpdate{}, AppStateBytes: gen, ChainId: app.TestChainId,
		ConsensusParams: cp, InitialHeight: h})
	B.Commit()
	return B, ""
}

// validateExport: the imported chain's own export passes every module's genesis validation.
func validateExport(tApp app.TestApp, export []byte) (res string) {
	defer func() {
		if r := recover(); r != nil {
			res = fmt.Sprint("genesis validation panics: ", r)
		}
	}()
	var gs map[string]json.RawMessage
	if err := json.Unmarshal(export, &gs); err != nil {
		return err.Error()
	}
	txCfg := app.MakeEncodingConfig().TxConfig
	names := make([]string, 0, len(app.ModuleBasics))
	for name := range app.ModuleBasics {
		names = append(names, name)
	}
	sort.Strings(names)
	for _, name := range names {
		if name == "ibc" { // ibc-go's own export carries the localhost connection, which its validation refuses; not a module the property names
			continue
		}
		b, ok := app.ModuleBasics[name].(module.HasGenesisBasics)
		if !ok {
			continue
		}
		if _, present := gs[name]; !present {
			continue
		}
		if err := b.ValidateGenesis(tApp.AppCodec(), txCfg, gs[name]); err != nil {
			return name + ": " + err.Error()
		}
	}
	return ""
}

func invariants(tApp app.TestApp, height int64, t time.Time) (route, msg string) {
	defer func() {
		if r := recover(); r != nil {
			route, msg = "invariant-evaluation-panic", fmt.Sprint(r)
		}
	}()
	ctx := tApp.NewContext(true, tmproto.Header{Height: height, Time: t, ChainID: app.TestChainId})
	ck := tApp.GetCrisisKeeper()
	for _, r := range ck.Routes() {
		if m, broken := r.Invar(ctx); broken {
			return r.ModuleName + "/" + r.Route, m
		}
	}
	return "", ""
}

func balances(tApp app.TestApp, w *world.World, height int64, t time.Time) map[string]sdkmath.Int {
	ctx := tApp.NewContext(true, tmproto.Header{Height: height, Time: t, ChainID: app.TestChainId})
	out := map[string]sdkmath.Int{}
	for i := 0; i < world.NUsers; i++ {
		for _, c := range tApp.GetBankKeeper().GetAllBalances(ctx, w.Addrs[i]) {
			out[fmt.Sprintf("user%d/%s", i, c.Denom)] = c.Amount
		}
	}
	return out
}

func runHistory(seed uint64, idx, nBlocks int, cnt *Counters) (*finding, int, []string) {
	r := NewRng(seed, uint64(idx)+0xC14)
	cfg := world.RandomConfig(r)
	w := world.NewWorld(cfg, seed*1000+uint64(idx), cnt)
	w.CommitteeTraffic = true
	var A app.TestApp
	if pnc := func() (pnc string) {
		defer func() {
			if rr := recover(); rr != nil {
				pnc = fmt.Sprint(rr)
			}
		}()
		A = w.Start(NewApp())
		return ""
	}(); pnc != "" {
		// the world's genesis passes every module's genesis validation: InitChain must accept it
		return &finding{1, "import-panics:" + classify(pnc), "InitChain of the history's own (valid) genesis: " + pnc, cfg}, 0, nil
	}
	height, t := int64(2), world.Genesis0
	frac := func(apps ...app.TestApp) *finding { // an akava transfer through precisebank, the same on every app
		if !r.Chance(1, 3) {
			return nil
		}
		op := w.GenFracOp(r)
		var first string
		for i, X := range apps {
			res := w.ApplyFracOp(X, height, t, op)
			if i == 0 {
				first = res
				if res == "" {
					cnt.Inc("hook-ok:precisebank.send")
				}
			} else if (res == "") != (first == "") {
				return &finding{height, "followup-tx-outcome-differs:precisebank.send", fmt.Sprintf("%+v: original %q imported %q", op, first, res), cfg}
			}
		}
		return nil
	}
	nTx := 0
	var sample []string
	exportAt := 1 + r.Intn(nBlocks)
	for b := 0; ; b++ {
		w.Height, w.Time = height, t
		txs, descs := w.GenBlockTxs(r, A, 1+r.Intn(7))
		ra := world.Deliver(A, height, txs)
		if ra.Panic != "" {
			cnt.Inc("history-ended-by-panic")
			return nil, nTx, sample // C02's concern
		}
		for i, tr := range ra.Txs {
			nTx++
			if tr.Code == 0 {
				cnt.Inc("tx-ok:" + descs[i])
			}
			if len(sample) < 8 {
				sample = append(sample, fmt.Sprintf("h%d %s code=%d", height, descs[i], tr.Code))
			}
		}
		if b+1 == exportAt {
			break
		}
		height++
		t = t.Add(world.NextGap(r))
		if _, p := world.Begin(A, height, t); p != "" {
			cnt.Inc("history-ended-by-panic")
			return nil, nTx, sample
		}
		frac(A)
	}
	// ---- export at committed height `height`
	cnt.Inc("exports")
	var e1 []byte
	var cp *tmproto.ConsensusParams
	if f := func() (f *finding) {
		defer func() {
			if rr := recover(); rr != nil {
				f = &finding{height, "export-panics", fmt.Sprint(rr), cfg}
			}
		}()
		ex, err := A.ExportAppStateAndValidators(false, nil, nil)
		if err != nil {
			return &finding{height, "export-fails", err.Error(), cfg}
		}
		e1, cp = ex.AppState, ex.ConsensusParams
		return nil
	}(); f != nil {
		return f, nTx, sample
	}
	// ---- the time of the first follow-up block, and the import time
	ctxA := A.NewContext(true, tmproto.Header{Height: height, Time: t, ChainID: app.TestChainId})
	pending := A.GetCommitteeKeeper().GetProposals(ctxA)
	if len(pending) > 0 {
		cnt.Inc("exports-with-pending-proposals")
		if len(A.GetCommitteeKeeper().GetVotes(ctxA)) > 0 {
			cnt.Inc("exports-with-pending-proposals-and-votes")
		}
	}
	if pb := A.GetPrecisebankKeeper(); !pb.GetRemainderAmount(ctxA).IsZero() || !A.GetBankKeeper().GetBalance(ctxA, A.GetAccountKeeper().GetModuleAddress("precisebank"), "ukava").IsZero() {
		cnt.Inc("exports-with-precisebank-reserve")
	}
	gap0 := world.NextGap(r)
	later := r.Chance(1, 2)
	if os.Getenv("C14_NO_LATER") != "" { // diagnosis aid: import at the export time
		later = false
	}
	var aimed *time.Time
	if later && len(pending) > 0 && r.Chance(3, 4) { // the first follow-up block lands at or after a pending proposal's deadline
		dl := pending[r.Intn(len(pending))].Deadline
		if dl.After(t) {
			off := []time.Duration{0, time.Nanosecond, time.Second, time.Duration(1 + r.Intn(3_600_000_000_000))}[r.Intn(4)]
			gap0 = dl.Add(off).Sub(t)
			aimed = &dl
		}
	}
	tNext := t.Add(gap0)
	tImport := t
	if later {
		tImport = tNext
		if r.Chance(1, 2) { // between the exported block and the first follow-up block (at or after the aimed deadline)
			lo := t
			if aimed != nil {
				lo = *aimed
			}
			if span := tNext.Sub(lo); span > 0 {
				tImport = lo.Add(time.Duration(r.Int63n(int64(span) + 1)))
			}
		}
		// pricefeed's InitGenesis drops the posts that have expired by the import time and recomputes the
		// current prices from the rest, while the original chain keeps its current prices until its next
		// end blocker: with a post expiring inside the gap the two chains legitimately begin the next
		// block with different prices.  Such histories import at the export time.
		for _, m := range A.GetPriceFeedKeeper().GetMarkets(ctxA) {
			for _, pp := range A.GetPriceFeedKeeper().GetRawPrices(ctxA, m.MarketID) {
				if pp.Expiry.After(t) && !pp.Expiry.After(tImport) {
					later = false
				}
			}
		}
		if !later {
			tImport = t
			cnt.Inc("later-import-skipped:oracle-post-expires-in-the-gap")
		}
	}
	if later {
		cnt.Inc("imports-at-a-later-time")
		for _, p := range pending {
			if !p.Deadline.After(tImport) {
				cnt.Inc("imports-at-or-after-a-pending-proposal-deadline")
				break
			}
		}
	}
	B, pnc := initFromExport(e1, cp, height, tImport)
	if pnc != "" {
		return &finding{height, "import-panics:" + classify(pnc), pnc, cfg}, nTx, sample
	}
	ex2, err := B.ExportAppStateAndValidators(false, nil, nil)
	if err != nil {
		return &finding{height, "re-export-fails", err.Error(), cfg}, nTx, sample
	}
	var raceNote *finding
	if err := validateExport(A, e1); err != "" {
		return &finding{height, "export-invalid", err, cfg}, nTx, sample
	}
	if err := validateExport(B, ex2.AppState); err != "" {
		return &finding{height, "re-export-invalid", err, cfg}, nTx, sample
	}
	if d := compareExports(e1, ex2.AppState, tImport); len(d) > 0 {
		// The SDK exports modules concurrently (ExportGenesisForModules starts one goroutine per
		// module on the same cached context) and hard/cdp exports synchronise incentive claims
		// through their hooks while incentive exports its claims: whether a claim is exported
		// synced or unsynced is a race.  Differences confined to the synchronisation state of
		// incentive claims are classified separately (recorded finding); anything else is not.
		onlySync := true
		for _, line := range d {
			if !(strings.HasPrefix(line, ".incentive.") && strings.Contains(line, "_claims[") &&
				(strings.Contains(line, ".base_claim.reward") || strings.Contains(line, "reward_indexes"))) {
				onlySync = false
			}
		}
		if !onlySync {
			mod := strings.SplitN(strings.TrimPrefix(d[0], "."), ".", 2)[0]
			mod = strings.SplitN(mod, ":", 2)[0]
			return &finding{height, "re-export-differs:" + mod, strings.Join(d, "\n"), cfg}, nTx, sample
		}
		cnt.Inc("export-race-incentive-claim-sync")
		raceNote = &finding{height, "export-race-incentive-claim-sync", strings.Join(d, "\n"), cfg}
	}
	if route, msg := invariants(B, height, tImport); route != "" {
		return &finding{height, "imported-invariant-broken:" + route, msg, cfg}, nTx, sample
	}
	// raw store comparison of the Kava modules (and bank): the imported state must be the
	// same state, including derived indexes that the genesis JSON does not show
	if n, m := world.ExtendedInvariants(B, B.NewContext(true, tmproto.Header{Height: height, Time: tImport, ChainID: app.TestChainId})); n != "" {
		return &finding{height, "imported-state-incoherent:" + n, m, cfg}, nTx, sample
	}
	// ---- same follow-up blocks on both
	for k := 0; k < 6; k++ {
		height++
		if k == 0 {
			t = tNext
		} else {
			t = t.Add(world.NextGap(r))
		}
		sa, pa := world.Begin(A, height, t)
		sb, pb := world.Begin(B, height, t)
		if pa != pb {
			// x/upgrade keeps a scheduled plan outside genesis (its ExportGenesis is empty by
			// design, and it is not among the modules the property names): the original chain
			// stops for the upgrade, the imported one has no plan.  Not a round-trip defect.
			if strings.Contains(pa, "UPGRADE") && strings.Contains(pa, "NEEDED") && pb == "" {
				cnt.Inc("followup-ended:upgrade-plan-is-not-genesis-state")
				return raceNote, nTx, sample
			}
			return &finding{height, "followup-begin-block-panic-differs", pa + " vs " + pb, cfg}, nTx, sample
		}
		if pa != "" {
			return nil, nTx, sample
		}
		_, _ = sa, sb
		if f := frac(A, B); f != nil {
			return f, nTx, sample
		}
		w.Height, w.Time = height, t
		txs, descs := w.GenBlockTxs(r, A, 2+r.Intn(6))
		if os.Getenv("C14_DEBUG") != "" {
			for name, X := range map[string]app.TestApp{"A": A, "B": B} {
				cx := X.NewContext(true, tmproto.Header{Height: height, Time: t, ChainID: app.TestChainId})
				ik := X.GetIncentiveKeeper()
				for u := 0; u < 3; u++ {
					ad := w.Addrs[u]
					line := fmt.Sprintf("DBG k=%d %s user%d:", k, name, u)
					if c, ok := ik.GetUSDXMintingClaim(cx, ad); ok {
						line += " usdx=" + c.Reward.String()
					}
					if c, ok := ik.GetHardLiquidityProviderClaim(cx, ad); ok {
						line += " hard=" + c.Reward.String()
					}
					if c, ok := ik.GetDelegatorClaim(cx, ad); ok {
						line += " deleg=" + c.Reward.String()
					}
					if c, ok := ik.GetSwapClaim(cx, ad); ok {
						line += " swap=" + c.Reward.String()
					}
					if c, ok := ik.GetEarnClaim(cx, ad); ok {
						line += " earn=" + c.Reward.String() + fmt.Sprint(c.RewardIndexes)
					}
					fmt.Fprintln(os.Stderr, line, descs)
				}
			}
		}
		beforeA := balances(A, w, height, t)
		ra := world.Deliver(A, height, txs)
		rb := world.Deliver(B, height, txs)
		if ra.Panic != rb.Panic {
			return &finding{height, "followup-panic-differs", ra.Panic + " vs " + rb.Panic, cfg}, nTx, sample
		}
		for i := range ra.Txs {
			nTx++
			if (ra.Txs[i].Code == 0) != (rb.Txs[i].Code == 0) {
				// hard's and cdp's ExportGenesis settle accrued interest position by position; the
				// imported position differs from the original by the rounding of that settlement
				// (the property's allowance of one base unit per position and denomination).  A
				// message aimed exactly at a threshold of such a position (repay all but the minimum
				// borrow, withdraw everything, draw to the debt floor or the liquidation ratio) can
				// then succeed on one chain and fail on the other: recorded finding, classified by
				// module and by the refusing side's error being a threshold comparison.
				if thresholdFlip(descs[i], ra.Txs[i].Log+" "+rb.Txs[i].Log) {
					return &finding{height, "followup-outcome-flips-at-interest-settlement-threshold", fmt.Sprintf("%s: original code=%d %s; imported code=%d %s", descs[i], ra.Txs[i].Code, ra.Txs[i].Log, rb.Txs[i].Code, rb.Txs[i].Log), cfg}, nTx, sample
				}
				return &finding{height, "followup-tx-outcome-differs:" + descs[i], fmt.Sprintf("%s: original code=%d %s; imported code=%d %s", descs[i], ra.Txs[i].Code, ra.Txs[i].Log, rb.Txs[i].Code, rb.Txs[i].Log), cfg}, nTx, sample
			}
		}
		ba, bb := balances(A, w, height, t), balances(B, w, height, t)
		if os.Getenv("C14_DEBUG") != "" {
			fmt.Fprintln(os.Stderr, "DBG after k=", k, "A user0/ukava", ba["user0/ukava"], "B", bb["user0/ukava"], "A user0/hard", ba["user0/hard"], "B", bb["user0/hard"])
		}
		for key, va := range ba {
			vb, ok := bb[key]
			if !ok {
				vb = sdkmath.ZeroInt()
			}
			if va.Sub(vb).Abs().GT(sdkmath.NewInt(3)) {
				// An incentive claim pays rewards = index difference x the claimant's source shares; the
				// export settled the interest of the underlying positions, which moves those shares by
				// the rounding the property allows (one base unit), so the PAYOUT differs by that unit
				// times the index difference: a relative difference of the order 1/shares.  Recorded
				// finding, classified narrowly: the block contains an incentive claim, the balance of
				// that denomination grew in the block on the original chain (a payout), and the two
				// chains' payouts differ by less than one millionth of the payout.
				hasClaim := false
				for i := range ra.Txs {
					if descs[i] == "incentive.claim" && ra.Txs[i].Code == 0 && rb.Txs[i].Code == 0 {
						hasClaim = true
					}
				}
				if pb, ok := beforeA[key]; hasClaim && ok && va.GT(pb) && va.Sub(vb).Abs().MulRaw(1_000_000).LT(va.Sub(pb)) {
					return &finding{height, "followup-reward-payout-differs-by-settlement-rounding", fmt.Sprintf("%s: original %s imported %s (payout %s)", key, va, vb, va.Sub(pb)), cfg}, nTx, sample
				}
				txinfo := ""
				for i := range ra.Txs {
					txinfo += fmt.Sprintf(" [%s code=%d/%d]", descs[i], ra.Txs[i].Code, rb.Txs[i].Code)
				}
				return &finding{height, "followup-balance-differs", fmt.Sprintf("%s: original %s imported %s; follow-up block %d txs:%s", key, va, vb, k, txinfo), cfg}, nTx, sample
			}
		}
		if n, m := world.ExtendedInvariants(B, B.NewContext(true, tmproto.Header{Height: height, Time: t, ChainID: app.TestChainId})); n != "" {
			return &finding{height, "imported-state-incoherent-after-followup:" + n, m, cfg}, nTx, sample
		}
		if route, msg := invariants(B, height, t); route != "" {
			return &finding{height, "imported-invariant-broken-after-followup:" + route, msg, cfg}, nTx, sample
		}
		cnt.Inc("followup-blocks")
	}
	return raceNote, nTx, sample
}

// thresholdFlip: a hard or cdp message refused on one chain only, with an error that compares
// a position (which the export's interest settlement moved by its rounding) with a threshold.
func thresholdFlip(desc, logs string) bool {
	// an auction started after the import (a liquidation of a hard or cdp position in a follow-up
	// block) carries the position's debt as its maximum bid: it differs by the settlement
	// rounding too, so a bid aimed exactly at the maximum bid flips likewise
	if strings.HasPrefix(desc, "auction.") {
		l := strings.ToLower(logs)
		return strings.Contains(l, "max bid") || strings.Contains(l, "maximum bid")
	}
	// (earn's hard-strategy vaults are valued from the synced hard deposit of the earn account)
	if !(strings.HasPrefix(desc, "hard.") || strings.HasPrefix(desc, "cdp.") || strings.HasPrefix(desc, "earn.")) {
		return false
	}
	l := strings.ToLower(logs)
	for _, k := range []string{"minimum borrow limit", "debt floor", "loan-to-value", "ltv", "collateral ratio", "collateralization", "exceeds", "insufficient", "below the minimum", "below minimum"} {
		if strings.Contains(l, k) {
			return true
		}
	}
	return false
}

func classify(p string) string {
	w := strings.Fields(strings.ToLower(p))
	if len(w) > 5 {
		w = w[:5]
	}
	return strings.Join(w, "-")
}

func mkFailure(idx int, f *finding, h hist) Failure {
	return Failure{History: idx, Step: int(f.Height), Predicate: "export-import-roundtrip", Signature: f.What, Detail: string(MustJSON(f)), Replay: MustJSON(h)}
}

func run(o Opts) (*Result, error) {
	nBlocks := o.Len
	if nBlocks == 0 {
		nBlocks = 20
	}
	res := &Result{Property: "C14", Seed: o.Seed,
		Rule: fmt.Sprintf("multi-module histories of up to %d blocks; (with precisebank fractional balances from genesis and from akava transfers, pending proposals and votes of member and token committees); at a PRNG-chosen height the real export (validated module by module) initialises a fresh app at the export time or, in half of the histories, at a later time up to the first follow-up block (aimed at or past the deadline of a pending proposal), which is re-exported (validated, compared module by module, oracle posts expired at import time dropped), all crisis invariants are evaluated on it, and 6 common follow-up blocks are applied to both; non-trivial when the exported state contains at least one open position (cdp / hard / swap / savings / earn / bep3 swap / auction); distinct by (seed, history index)", nBlocks)}
	cnt := NewCounters()
	if o.Replay != "" {
		bz, err := os.ReadFile(o.Replay)
		if err != nil {
			return nil, err
		}
		var h hist
		if err := json.Unmarshal(bz, &h); err != nil {
			return nil, err
		}
		if h.Blocks == 0 {
			h.Blocks = nBlocks
		}
		f, nTx, _ := runHistory(h.Seed, h.Idx, h.Blocks, cnt)
		res.Histories, res.Evaluations = 1, nTx
		if f != nil {
			res.Failures = append(res.Failures, mkFailure(h.Idx, f, h))
		}
		res.Counters = cnt.Map()
		return res, nil
	}
	type out struct {
		f      *finding
		nTx    int
		sample []string
	}
	outs := make([]out, o.N)
	ParallelFor(o.N, o.Workers, func(i int) {
		f, nTx, sample := runHistory(o.Seed, i, nBlocks, cnt)
		outs[i] = out{f, nTx, sample}
	})
	for i, ot := range outs {
		res.Histories++
		res.Evaluations += ot.nTx
		if ot.nTx >= 10 {
			res.DistinctNontrivial++
		}
		if i < 2 {
			res.Samples = append(res.Samples, map[string]any{"seed": o.Seed, "history": i, "first_txs": ot.sample})
		}
		if ot.f != nil {
			res.Failures = append(res.Failures, mkFailure(i, ot.f, hist{o.Seed, i, nBlocks}))
		}
	}
	res.Counters = cnt.Map()
	for _, g := range []string{"imports-at-a-later-time", "imports-at-or-after-a-pending-proposal-deadline", "exports-with-pending-proposals-and-votes",
		"exports-with-precisebank-reserve", "hook-ok:precisebank.send", "tx-ok:committee.vote.c2", "tx-ok:committee.vote.c3", "followup-blocks"} {
		if res.Counters[g] == 0 {
			res.QualityGate = append(res.QualityGate, g)
		}
	}
	return res, nil
}
