package world

// Malformed parameter changes: the second stream of committee ParameterChangeProposals.
// Every entry takes the value currently stored under ONE key of one module's subspace and
// breaks exactly one field of it in a way that the module's own validation of that key
// (the validator function of the ParamSetPair, which is all the params proposal handler
// runs) refuses: end before start, negative or out-of-range decimals, zero amounts,
// duplicates, blank / invalid identifiers.  The entries are malformed BY CONSTRUCTION:
// the list does not ask the tree under test what it thinks of them.
//
// Expected behaviour on the chain: the submission is refused (the committee dry-runs the
// handler) or the proposal is closed as invalid at enactment; never stored, never a halt.
// Monitors: the halt monitor of the drivers, StoredParamsInvalid after every block and
// WouldStoreInvalidParams before every begin blocker with pending proposals.

import (
	"encoding/json"
	"fmt"
	"reflect"
	"time"

	sdkmath "cosmossdk.io/math"
	tmproto "github.com/cometbft/cometbft/proto/tendermint/types"
	sdk "github.com/cosmos/cosmos-sdk/types"
	paramsproposal "github.com/cosmos/cosmos-sdk/x/params/types/proposal"

	"github.com/kava-labs/kava/app"
	auctiontypes "github.com/kava-labs/kava/x/auction/types"
	bep3types "github.com/kava-labs/kava/x/bep3/types"
	cdptypes "github.com/kava-labs/kava/x/cdp/types"
	"github.com/kava-labs/kava/x/committee"
	earntypes "github.com/kava-labs/kava/x/earn/types"
	evmutiltypes "github.com/kava-labs/kava/x/evmutil/types"
	hardtypes "github.com/kava-labs/kava/x/hard/types"
	incentivetypes "github.com/kava-labs/kava/x/incentive/types"
	issuancetypes "github.com/kava-labs/kava/x/issuance/types"
	kavadisttypes "github.com/kava-labs/kava/x/kavadist/types"
	pricefeedtypes "github.com/kava-labs/kava/x/pricefeed/types"
	savingstypes "github.com/kava-labs/kava/x/savings/types"
	swaptypes "github.com/kava-labs/kava/x/swap/types"

	abci "github.com/cometbft/cometbft/abci/types"
)

// Malformation is one malformed single-key parameter change.
type Malformation struct {
	Module string
	What   string
	// Build returns the change against the current state (nil when the state offers nothing to break).
	Build func(w *World, tApp app.TestApp, ctx sdk.Context) []paramsproposal.ParamChange
}

func one(ch paramsproposal.ParamChange) []paramsproposal.ParamChange {
	return []paramsproposal.ParamChange{ch}
}

// Malformations is the fixed list (order is part of the replay format of the directed scenario).
var Malformations []Malformation

func addM(module, what string, build func(w *World, tApp app.TestApp, ctx sdk.Context) []paramsproposal.ParamChange) {
	Malformations = append(Malformations, Malformation{module, what, build})
}

func init() {
	// ------------------------------------------------------------ incentive
	type multiKey struct {
		name string
		key  []byte
		get  func(p incentivetypes.Params) incentivetypes.MultiRewardPeriods
	}
	multis := []multiKey{
		{"hard-supply", incentivetypes.KeyHardSupplyRewardPeriods, func(p incentivetypes.Params) incentivetypes.MultiRewardPeriods {
			return p.HardSupplyRewardPeriods
		}},
		{"hard-borrow", incentivetypes.KeyHardBorrowRewardPeriods, func(p incentivetypes.Params) incentivetypes.MultiRewardPeriods {
			return p.HardBorrowRewardPeriods
		}},
		{"delegator", incentivetypes.KeyDelegatorRewardPeriods, func(p incentivetypes.Params) incentivetypes.MultiRewardPeriods {
			return p.DelegatorRewardPeriods
		}},
		{"swap", incentivetypes.KeySwapRewardPeriods, func(p incentivetypes.Params) incentivetypes.MultiRewardPeriods { return p.SwapRewardPeriods }},
		{"savings", incentivetypes.KeySavingsRewardPeriods, func(p incentivetypes.Params) incentivetypes.MultiRewardPeriods {
			return p.SavingsRewardPeriods
		}},
		{"earn", incentivetypes.KeyEarnRewardPeriods, func(p incentivetypes.Params) incentivetypes.MultiRewardPeriods { return p.EarnRewardPeriods }},
	}
	for _, mk := range multis {
		mk := mk
		mut := func(what string, f func(ps incentivetypes.MultiRewardPeriods, now time.Time) incentivetypes.MultiRewardPeriods) {
			addM("incentive", mk.name+"-periods-"+what, func(w *World, tApp app.TestApp, ctx sdk.Context) []paramsproposal.ParamChange {
				cur := mk.get(tApp.GetIncentiveKeeper().GetParams(ctx))
				ps := append(incentivetypes.MultiRewardPeriods{}, cur...)
				if len(ps) == 0 {
					ps = incentivetypes.MultiRewardPeriods{incentivetypes.NewMultiRewardPeriod(true, "usdx", Genesis0, Genesis0.Add(1000*time.Hour), cs(c("hard", 5)))}
				}
				return one(pc(tApp, incentivetypes.ModuleName, mk.key, f(ps, ctx.BlockTime())))
			})
		}
		for _, active := range []bool{true, false} {
			active := active
			name := map[bool]string{true: "active", false: "inactive"}[active]
			// the period is running (start in the past) and its end is put before its start
			mut("end-before-start-"+name, func(ps incentivetypes.MultiRewardPeriods, now time.Time) incentivetypes.MultiRewardPeriods {
				ps[0].Active = active
				ps[0].Start = now.Add(-time.Hour)
				ps[0].End = now.Add(-2 * time.Hour)
				return ps
			})
			mut("end-far-before-start-"+name, func(ps incentivetypes.MultiRewardPeriods, now time.Time) incentivetypes.MultiRewardPeriods {
				i := len(ps) - 1
				ps[i].Active = active
				ps[i].Start, ps[i].End = now.Add(1000*time.Hour), now.Add(time.Second)
				return ps
			})
		}
		mut("duplicate-type", func(ps incentivetypes.MultiRewardPeriods, now time.Time) incentivetypes.MultiRewardPeriods {
			return append(ps, ps[0])
		})
		mut("zero-reward-coin", func(ps incentivetypes.MultiRewardPeriods, now time.Time) incentivetypes.MultiRewardPeriods {
			ps[0].RewardsPerSecond = sdk.Coins{sdk.Coin{Denom: "hard", Amount: sdkmath.ZeroInt()}}
			return ps
		})
		mut("negative-reward-coin", func(ps incentivetypes.MultiRewardPeriods, now time.Time) incentivetypes.MultiRewardPeriods {
			ps[0].RewardsPerSecond = sdk.Coins{sdk.Coin{Denom: "hard", Amount: sdkmath.NewInt(-5)}}
			return ps
		})
		mut("blank-type", func(ps incentivetypes.MultiRewardPeriods, now time.Time) incentivetypes.MultiRewardPeriods {
			ps[0].CollateralType = "  "
			return ps
		})
		mut("zero-start", func(ps incentivetypes.MultiRewardPeriods, now time.Time) incentivetypes.MultiRewardPeriods {
			ps[0].Start = time.Time{}
			return ps
		})
		mut("zero-end", func(ps incentivetypes.MultiRewardPeriods, now time.Time) incentivetypes.MultiRewardPeriods {
			ps[0].End = time.Time{}
			return ps
		})
	}
	usdx := func(what string, f func(ps incentivetypes.RewardPeriods, now time.Time) incentivetypes.RewardPeriods) {
		addM("incentive", "usdx-minting-periods-"+what, func(w *World, tApp app.TestApp, ctx sdk.Context) []paramsproposal.ParamChange {
			ps := append(incentivetypes.RewardPeriods{}, tApp.GetIncentiveKeeper().GetParams(ctx).USDXMintingRewardPeriods...)
			if len(ps) == 0 {
				ps = incentivetypes.RewardPeriods{incentivetypes.NewRewardPeriod(true, "bnb-a", Genesis0, Genesis0.Add(1000*time.Hour), c("ukava", 5))}
			}
			return one(pc(tApp, incentivetypes.ModuleName, incentivetypes.KeyUSDXMintingRewardPeriods, f(ps, ctx.BlockTime())))
		})
	}
	for _, active := range []bool{true, false} {
		active := active
		usdx("end-before-start-"+map[bool]string{true: "active", false: "inactive"}[active], func(ps incentivetypes.RewardPeriods, now time.Time) incentivetypes.RewardPeriods {
			ps[0].Active, ps[0].Start, ps[0].End = active, now.Add(-time.Hour), now.Add(-2*time.Hour)
			return ps
		})
	}
	usdx("duplicate-type", func(ps incentivetypes.RewardPeriods, now time.Time) incentivetypes.RewardPeriods {
		return append(ps, ps[0])
	})
	usdx("zero-reward", func(ps incentivetypes.RewardPeriods, now time.Time) incentivetypes.RewardPeriods {
		ps[0].RewardsPerSecond = c("ukava", 0)
		return ps
	})
	usdx("wrong-reward-denom", func(ps incentivetypes.RewardPeriods, now time.Time) incentivetypes.RewardPeriods {
		ps[0].RewardsPerSecond = c("hard", 7)
		return ps
	})
	usdx("blank-type", func(ps incentivetypes.RewardPeriods, now time.Time) incentivetypes.RewardPeriods {
		ps[0].CollateralType = ""
		return ps
	})
	usdx("zero-end", func(ps incentivetypes.RewardPeriods, now time.Time) incentivetypes.RewardPeriods {
		ps[0].End = time.Unix(0, 0).UTC()
		return ps
	})
	mults := func(what string, f func(ms incentivetypes.MultipliersPerDenoms) incentivetypes.MultipliersPerDenoms) {
		addM("incentive", "multipliers-"+what, func(w *World, tApp app.TestApp, ctx sdk.Context) []paramsproposal.ParamChange {
			var ms incentivetypes.MultipliersPerDenoms
			for _, m := range tApp.GetIncentiveKeeper().GetParams(ctx).ClaimMultipliers {
				ms = append(ms, incentivetypes.MultipliersPerDenom{Denom: m.Denom, Multipliers: append(incentivetypes.Multipliers{}, m.Multipliers...)})
			}
			if len(ms) == 0 || len(ms[0].Multipliers) == 0 {
				return nil
			}
			return one(pc(tApp, incentivetypes.ModuleName, incentivetypes.KeyMultipliers, f(ms)))
		})
	}
	mults("negative-factor", func(ms incentivetypes.MultipliersPerDenoms) incentivetypes.MultipliersPerDenoms {
		ms[0].Multipliers[0].Factor = d("-0.25")
		return ms
	})
	mults("negative-lockup", func(ms incentivetypes.MultipliersPerDenoms) incentivetypes.MultipliersPerDenoms {
		ms[0].Multipliers[0].MonthsLockup = -1
		return ms
	})
	mults("empty-name", func(ms incentivetypes.MultipliersPerDenoms) incentivetypes.MultipliersPerDenoms {
		ms[0].Multipliers[0].Name = ""
		return ms
	})
	mults("duplicate-denom", func(ms incentivetypes.MultipliersPerDenoms) incentivetypes.MultipliersPerDenoms {
		return append(ms, ms[0])
	})
	mults("invalid-denom", func(ms incentivetypes.MultipliersPerDenoms) incentivetypes.MultipliersPerDenoms {
		ms[0].Denom = "1x"
		return ms
	})
	addM("incentive", "claim-end-zero", func(w *World, tApp app.TestApp, ctx sdk.Context) []paramsproposal.ParamChange {
		return one(pc(tApp, incentivetypes.ModuleName, incentivetypes.KeyClaimEnd, time.Unix(0, 0).UTC()))
	})

	// ------------------------------------------------------------ cdp
	col := func(what string, f func(cps cdptypes.CollateralParams) cdptypes.CollateralParams) {
		addM("cdp", "collateral-"+what, func(w *World, tApp app.TestApp, ctx sdk.Context) []paramsproposal.ParamChange {
			cps := append(cdptypes.CollateralParams{}, tApp.GetCDPKeeper().GetParams(ctx).CollateralParams...)
			if len(cps) == 0 {
				return nil
			}
			return one(pc(tApp, cdptypes.ModuleName, cdptypes.KeyCollateralParams, f(cps)))
		})
	}
	col("penalty-above-one", func(cps cdptypes.CollateralParams) cdptypes.CollateralParams {
		cps[0].LiquidationPenalty = d("1.000000000000000001")
		return cps
	})
	col("penalty-negative", func(cps cdptypes.CollateralParams) cdptypes.CollateralParams {
		cps[0].LiquidationPenalty = d("-0.05")
		return cps
	})
	col("ratio-zero", func(cps cdptypes.CollateralParams) cdptypes.CollateralParams {
		cps[0].LiquidationRatio = d("0")
		return cps
	})
	col("ratio-negative", func(cps cdptypes.CollateralParams) cdptypes.CollateralParams {
		cps[len(cps)-1].LiquidationRatio = d("-1.5")
		return cps
	})
	col("auction-size-zero", func(cps cdptypes.CollateralParams) cdptypes.CollateralParams {
		cps[0].AuctionSize = sdkmath.ZeroInt()
		return cps
	})
	col("stability-fee-below-one", func(cps cdptypes.CollateralParams) cdptypes.CollateralParams {
		cps[0].StabilityFee = d("0.999999999999999999")
		return cps
	})
	col("stability-fee-huge", func(cps cdptypes.CollateralParams) cdptypes.CollateralParams {
		cps[0].StabilityFee = d("2.5")
		return cps
	})
	col("keeper-reward-above-one", func(cps cdptypes.CollateralParams) cdptypes.CollateralParams {
		cps[0].KeeperRewardPercentage = d("1.01")
		return cps
	})
	col("keeper-reward-negative", func(cps cdptypes.CollateralParams) cdptypes.CollateralParams {
		cps[0].KeeperRewardPercentage = d("-0.01")
		return cps
	})
	col("check-count-negative", func(cps cdptypes.CollateralParams) cdptypes.CollateralParams {
		cps[0].CheckCollateralizationIndexCount = sdkmath.NewInt(-1)
		return cps
	})
	col("duplicate-type", func(cps cdptypes.CollateralParams) cdptypes.CollateralParams { return append(cps, cps[0]) })
	col("blank-spot-market", func(cps cdptypes.CollateralParams) cdptypes.CollateralParams { cps[0].SpotMarketID = " "; return cps })
	col("blank-liquidation-market", func(cps cdptypes.CollateralParams) cdptypes.CollateralParams {
		cps[0].LiquidationMarketID = ""
		return cps
	})
	col("blank-type", func(cps cdptypes.CollateralParams) cdptypes.CollateralParams { cps[len(cps)-1].Type = ""; return cps })
	col("invalid-denom", func(cps cdptypes.CollateralParams) cdptypes.CollateralParams {
		cps[len(cps)-1].Denom = "1x"
		return cps
	})
	col("debt-limit-negative", func(cps cdptypes.CollateralParams) cdptypes.CollateralParams {
		cps[0].DebtLimit = sdk.Coin{Denom: "usdx", Amount: sdkmath.NewInt(-1)}
		return cps
	})
	addM("cdp", "global-debt-limit-negative", func(w *World, tApp app.TestApp, ctx sdk.Context) []paramsproposal.ParamChange {
		return one(pc(tApp, cdptypes.ModuleName, cdptypes.KeyGlobalDebtLimit, sdk.Coin{Denom: "usdx", Amount: sdkmath.NewInt(-1_000_000)}))
	})
	addM("cdp", "debt-param-invalid-denom", func(w *World, tApp app.TestApp, ctx sdk.Context) []paramsproposal.ParamChange {
		dp := tApp.GetCDPKeeper().GetParams(ctx).DebtParam
		dp.Denom = "1x"
		return one(pc(tApp, cdptypes.ModuleName, cdptypes.KeyDebtParam, dp))
	})
	for _, e := range []struct {
		what string
		key  []byte
		v    int64
	}{{"surplus-threshold-zero", cdptypes.KeySurplusThreshold, 0}, {"surplus-lot-zero", cdptypes.KeySurplusLot, 0},
		{"surplus-lot-negative", cdptypes.KeySurplusLot, -10}, {"debt-threshold-negative", cdptypes.KeyDebtThreshold, -1},
		{"debt-lot-zero", cdptypes.KeyDebtLot, 0}} {
		e := e
		addM("cdp", e.what, func(w *World, tApp app.TestApp, ctx sdk.Context) []paramsproposal.ParamChange {
			return one(pc(tApp, cdptypes.ModuleName, e.key, sdkmath.NewInt(e.v)))
		})
	}
	addM("cdp", "liquidation-interval-zero", func(w *World, tApp app.TestApp, ctx sdk.Context) []paramsproposal.ParamChange {
		return one(pc(tApp, cdptypes.ModuleName, cdptypes.KeyBeginBlockerExecutionBlockInterval, int64(0)))
	})

	// ------------------------------------------------------------ hard
	mm := func(what string, f func(m *hardtypes.MoneyMarket)) {
		addM("hard", "market-"+what, func(w *World, tApp app.TestApp, ctx sdk.Context) []paramsproposal.ParamChange {
			mms := append(hardtypes.MoneyMarkets{}, tApp.GetHardKeeper().GetParams(ctx).MoneyMarkets...)
			if len(mms) == 0 {
				return nil
			}
			i := len(what) % len(mms)
			f(&mms[i])
			return one(pc(tApp, hardtypes.ModuleName, hardtypes.KeyMoneyMarkets, mms))
		})
	}
	mm("ltv-above-one", func(m *hardtypes.MoneyMarket) { m.BorrowLimit.LoanToValue = d("1.000000000000000001") })
	mm("ltv-negative", func(m *hardtypes.MoneyMarket) { m.BorrowLimit.LoanToValue = d("-0.5") })
	mm("max-limit-negative", func(m *hardtypes.MoneyMarket) { m.BorrowLimit.MaximumLimit = d("-1") })
	mm("conversion-factor-zero", func(m *hardtypes.MoneyMarket) { m.ConversionFactor = sdkmath.ZeroInt() })
	mm("reserve-factor-above-one", func(m *hardtypes.MoneyMarket) { m.ReserveFactor = d("1.5") })
	mm("reserve-factor-negative", func(m *hardtypes.MoneyMarket) { m.ReserveFactor = d("-0.1") })
	mm("keeper-reward-above-one", func(m *hardtypes.MoneyMarket) { m.KeeperRewardPercentage = d("2") })
	mm("keeper-reward-negative", func(m *hardtypes.MoneyMarket) { m.KeeperRewardPercentage = d("-0.05") })
	mm("base-apy-above-one", func(m *hardtypes.MoneyMarket) { m.InterestRateModel.BaseRateAPY = d("1.1") })
	mm("base-apy-negative", func(m *hardtypes.MoneyMarket) { m.InterestRateModel.BaseRateAPY = d("-0.01") })
	mm("base-multiplier-negative", func(m *hardtypes.MoneyMarket) { m.InterestRateModel.BaseMultiplier = d("-2") })
	mm("kink-above-one", func(m *hardtypes.MoneyMarket) { m.InterestRateModel.Kink = d("1.2") })
	mm("jump-multiplier-negative", func(m *hardtypes.MoneyMarket) { m.InterestRateModel.JumpMultiplier = d("-10") })
	mm("invalid-denom", func(m *hardtypes.MoneyMarket) { m.Denom = "1x" })
	addM("hard", "min-borrow-negative", func(w *World, tApp app.TestApp, ctx sdk.Context) []paramsproposal.ParamChange {
		return one(pc(tApp, hardtypes.ModuleName, hardtypes.KeyMinimumBorrowUSDValue, d("-0.000001")))
	})

	// ------------------------------------------------------------ auction
	for _, e := range []struct {
		what string
		key  []byte
	}{{"forward-duration-negative", auctiontypes.KeyForwardBidDuration}, {"reverse-duration-negative", auctiontypes.KeyReverseBidDuration},
		{"max-duration-negative", auctiontypes.KeyMaxAuctionDuration}} {
		e := e
		addM("auction", e.what, func(w *World, tApp app.TestApp, ctx sdk.Context) []paramsproposal.ParamChange {
			return one(pc(tApp, auctiontypes.ModuleName, e.key, -time.Second))
		})
	}
	for _, e := range []struct {
		what string
		key  []byte
	}{{"increment-surplus-negative", auctiontypes.KeyIncrementSurplus}, {"increment-debt-negative", auctiontypes.KeyIncrementDebt},
		{"increment-collateral-negative", auctiontypes.KeyIncrementCollateral}} {
		e := e
		addM("auction", e.what, func(w *World, tApp app.TestApp, ctx sdk.Context) []paramsproposal.ParamChange {
			return one(pc(tApp, auctiontypes.ModuleName, e.key, d("-0.05")))
		})
	}

	// ------------------------------------------------------------ bep3
	asset := func(what string, f func(as bep3types.AssetParams) bep3types.AssetParams) {
		addM("bep3", "asset-"+what, func(w *World, tApp app.TestApp, ctx sdk.Context) []paramsproposal.ParamChange {
			as := append(bep3types.AssetParams{}, tApp.GetBep3Keeper().GetParams(ctx).AssetParams...)
			if len(as) == 0 {
				return nil
			}
			return one(pc(tApp, bep3types.ModuleName, bep3types.KeyAssetParams, f(as)))
		})
	}
	asset("coin-id-negative", func(as bep3types.AssetParams) bep3types.AssetParams { as[0].CoinID = -1; return as })
	asset("limit-negative", func(as bep3types.AssetParams) bep3types.AssetParams {
		as[0].SupplyLimit.Limit = sdkmath.NewInt(-1)
		return as
	})
	asset("time-limit-negative", func(as bep3types.AssetParams) bep3types.AssetParams {
		as[0].SupplyLimit.TimeBasedLimit = sdkmath.NewInt(-1)
		return as
	})
	asset("time-limit-above-limit", func(as bep3types.AssetParams) bep3types.AssetParams {
		as[0].SupplyLimit.TimeBasedLimit = as[0].SupplyLimit.Limit.AddRaw(1)
		return as
	})
	asset("duplicate-denom", func(as bep3types.AssetParams) bep3types.AssetParams { return append(as, as[0]) })
	asset("empty-deputy", func(as bep3types.AssetParams) bep3types.AssetParams { as[0].DeputyAddress = nil; return as })
	asset("fixed-fee-negative", func(as bep3types.AssetParams) bep3types.AssetParams { as[0].FixedFee = sdkmath.NewInt(-1); return as })
	asset("min-lock-above-max", func(as bep3types.AssetParams) bep3types.AssetParams {
		as[0].MinBlockLock = as[0].MaxBlockLock + 1
		return as
	})
	asset("min-swap-zero", func(as bep3types.AssetParams) bep3types.AssetParams {
		as[0].MinSwapAmount = sdkmath.ZeroInt()
		return as
	})
	asset("max-swap-zero", func(as bep3types.AssetParams) bep3types.AssetParams {
		as[0].MaxSwapAmount = sdkmath.ZeroInt()
		return as
	})
	asset("min-swap-above-max", func(as bep3types.AssetParams) bep3types.AssetParams {
		as[0].MinSwapAmount = as[0].MaxSwapAmount.AddRaw(1)
		return as
	})
	asset("invalid-denom", func(as bep3types.AssetParams) bep3types.AssetParams { as[0].Denom = "1x"; return as })

	// ------------------------------------------------------------ kavadist
	addM("kavadist", "period-end-before-start", func(w *World, tApp app.TestApp, ctx sdk.Context) []paramsproposal.ParamChange {
		now := ctx.BlockTime()
		ps := []kavadisttypes.Period{{Start: now.Add(-time.Hour), End: now.Add(-2 * time.Hour), Inflation: d("1.000000001547125958")}}
		return one(pc(tApp, kavadisttypes.ModuleName, kavadisttypes.KeyPeriods, ps))
	})
	addM("kavadist", "periods-not-chronological", func(w *World, tApp app.TestApp, ctx sdk.Context) []paramsproposal.ParamChange {
		now := ctx.BlockTime()
		ps := []kavadisttypes.Period{{Start: now.Add(time.Hour), End: now.Add(3 * time.Hour), Inflation: d("1.000000001547125958")},
			{Start: now.Add(2 * time.Hour), End: now.Add(5 * time.Hour), Inflation: d("1.000000001547125958")}}
		return one(pc(tApp, kavadisttypes.ModuleName, kavadisttypes.KeyPeriods, ps))
	})
	addM("kavadist", "period-zero-start", func(w *World, tApp app.TestApp, ctx sdk.Context) []paramsproposal.ParamChange {
		ps := []kavadisttypes.Period{{Start: time.Unix(0, 0).UTC(), End: ctx.BlockTime().Add(time.Hour), Inflation: d("1.000000001547125958")}}
		return one(pc(tApp, kavadisttypes.ModuleName, kavadisttypes.KeyPeriods, ps))
	})
	addM("kavadist", "infra-period-end-before-start", func(w *World, tApp app.TestApp, ctx sdk.Context) []paramsproposal.ParamChange {
		now := ctx.BlockTime()
		ip := tApp.GetKavadistKeeper().GetParams(ctx).InfrastructureParams
		ip.InfrastructurePeriods = kavadisttypes.Periods{{Start: now.Add(-time.Hour), End: now.Add(-2 * time.Hour), Inflation: d("1.000000001547125958")}}
		return one(pc(tApp, kavadisttypes.ModuleName, kavadisttypes.KeyInfra, ip))
	})

	// ------------------------------------------------------------ pricefeed
	mkt := func(what string, f func(ms pricefeedtypes.Markets) pricefeedtypes.Markets) {
		addM("pricefeed", "market-"+what, func(w *World, tApp app.TestApp, ctx sdk.Context) []paramsproposal.ParamChange {
			var ms pricefeedtypes.Markets
			for _, m := range tApp.GetPriceFeedKeeper().GetParams(ctx).Markets {
				m.Oracles = append([]sdk.AccAddress{}, m.Oracles...)
				ms = append(ms, m)
			}
			if len(ms) == 0 {
				return nil
			}
			return one(pc(tApp, pricefeedtypes.ModuleName, pricefeedtypes.KeyMarkets, f(ms)))
		})
	}
	mkt("blank-id", func(ms pricefeedtypes.Markets) pricefeedtypes.Markets { ms[len(ms)-1].MarketID = " "; return ms })
	mkt("invalid-base-asset", func(ms pricefeedtypes.Markets) pricefeedtypes.Markets { ms[len(ms)-1].BaseAsset = "1x"; return ms })
	mkt("invalid-quote-asset", func(ms pricefeedtypes.Markets) pricefeedtypes.Markets { ms[len(ms)-1].QuoteAsset = ""; return ms })
	mkt("empty-oracle", func(ms pricefeedtypes.Markets) pricefeedtypes.Markets {
		ms[len(ms)-1].Oracles = append(ms[len(ms)-1].Oracles, sdk.AccAddress{})
		return ms
	})
	mkt("duplicate-oracle", func(ms pricefeedtypes.Markets) pricefeedtypes.Markets {
		if len(ms[0].Oracles) == 0 {
			ms[0].MarketID = ""
			return ms
		}
		ms[0].Oracles = append(ms[0].Oracles, ms[0].Oracles[0])
		return ms
	})
	mkt("duplicate-id", func(ms pricefeedtypes.Markets) pricefeedtypes.Markets { return append(ms, ms[0]) })

	// ------------------------------------------------------------ savings
	addM("savings", "duplicate-denom", func(w *World, tApp app.TestApp, ctx sdk.Context) []paramsproposal.ParamChange {
		ds := append([]string{}, tApp.GetSavingsKeeper().GetParams(ctx).SupportedDenoms...)
		if len(ds) == 0 {
			ds = []string{"ukava"}
		}
		return one(pc(tApp, savingstypes.ModuleName, savingstypes.KeySupportedDenoms, append(ds, ds[0])))
	})

	// ------------------------------------------------------------ swap
	addM("swap", "fee-one", func(w *World, tApp app.TestApp, ctx sdk.Context) []paramsproposal.ParamChange {
		return one(pc(tApp, swaptypes.ModuleName, swaptypes.KeySwapFee, d("1.0")))
	})
	addM("swap", "fee-negative", func(w *World, tApp app.TestApp, ctx sdk.Context) []paramsproposal.ParamChange {
		return one(pc(tApp, swaptypes.ModuleName, swaptypes.KeySwapFee, d("-0.003")))
	})
	pool := func(what string, f func(ps swaptypes.AllowedPools) swaptypes.AllowedPools) {
		addM("swap", "pools-"+what, func(w *World, tApp app.TestApp, ctx sdk.Context) []paramsproposal.ParamChange {
			ps := append(swaptypes.AllowedPools{}, tApp.GetSwapKeeper().GetParams(ctx).AllowedPools...)
			if len(ps) == 0 {
				return nil
			}
			return one(pc(tApp, swaptypes.ModuleName, swaptypes.KeyAllowedPools, f(ps)))
		})
	}
	pool("same-tokens", func(ps swaptypes.AllowedPools) swaptypes.AllowedPools {
		return append(ps, swaptypes.AllowedPool{TokenA: "xrp", TokenB: "xrp"})
	})
	pool("wrong-order", func(ps swaptypes.AllowedPools) swaptypes.AllowedPools {
		return append(ps, swaptypes.AllowedPool{TokenA: "xrp", TokenB: "hard"})
	})
	pool("invalid-denom", func(ps swaptypes.AllowedPools) swaptypes.AllowedPools {
		return append(ps, swaptypes.AllowedPool{TokenA: "1x", TokenB: "xrp"})
	})
	pool("duplicate", func(ps swaptypes.AllowedPools) swaptypes.AllowedPools { return append(ps, ps[0]) })

	// ------------------------------------------------------------ earn
	vault := func(what string, f func(vs earntypes.AllowedVaults, w *World) earntypes.AllowedVaults) {
		addM("earn", "vaults-"+what, func(w *World, tApp app.TestApp, ctx sdk.Context) []paramsproposal.ParamChange {
			vs := append(earntypes.AllowedVaults{}, tApp.GetEarnKeeper().GetParams(ctx).AllowedVaults...)
			if len(vs) == 0 {
				return nil
			}
			return one(pc(tApp, earntypes.ModuleName, earntypes.KeyAllowedVaults, f(vs, w)))
		})
	}
	vault("duplicate-denom", func(vs earntypes.AllowedVaults, w *World) earntypes.AllowedVaults { return append(vs, vs[0]) })
	vault("private-without-depositors", func(vs earntypes.AllowedVaults, w *World) earntypes.AllowedVaults {
		return append(vs, earntypes.NewAllowedVault("xrp", earntypes.StrategyTypes{earntypes.STRATEGY_TYPE_HARD}, true, nil))
	})
	vault("public-with-depositors", func(vs earntypes.AllowedVaults, w *World) earntypes.AllowedVaults {
		return append(vs, earntypes.NewAllowedVault("xrp", earntypes.StrategyTypes{earntypes.STRATEGY_TYPE_HARD}, false, []sdk.AccAddress{w.Addrs[0]}))
	})
	vault("invalid-denom", func(vs earntypes.AllowedVaults, w *World) earntypes.AllowedVaults {
		return append(vs, earntypes.NewAllowedVault("1x", earntypes.StrategyTypes{earntypes.STRATEGY_TYPE_HARD}, false, nil))
	})
	vault("no-strategy", func(vs earntypes.AllowedVaults, w *World) earntypes.AllowedVaults {
		return append(vs, earntypes.NewAllowedVault("xrp", earntypes.StrategyTypes{}, false, nil))
	})
	vault("unspecified-strategy", func(vs earntypes.AllowedVaults, w *World) earntypes.AllowedVaults {
		return append(vs, earntypes.NewAllowedVault("xrp", earntypes.StrategyTypes{earntypes.STRATEGY_TYPE_UNSPECIFIED}, false, nil))
	})

	// ------------------------------------------------------------ issuance
	iss := func(what string, f func(as []issuancetypes.Asset, w *World) []issuancetypes.Asset) {
		addM("issuance", "asset-"+what, func(w *World, tApp app.TestApp, ctx sdk.Context) []paramsproposal.ParamChange {
			as := append([]issuancetypes.Asset{}, tApp.GetIssuanceKeeper().GetParams(ctx).Assets...)
			if len(as) == 0 {
				return nil
			}
			as[0].BlockedAddresses = append([]string{}, as[0].BlockedAddresses...)
			return one(pc(tApp, issuancetypes.ModuleName, issuancetypes.KeyAssets, f(as, w)))
		})
	}
	iss("empty-owner", func(as []issuancetypes.Asset, w *World) []issuancetypes.Asset { as[0].Owner = ""; return as })
	iss("owner-blocked", func(as []issuancetypes.Asset, w *World) []issuancetypes.Asset {
		as[0].BlockedAddresses = append(as[0].BlockedAddresses, as[0].Owner)
		return as
	})
	iss("empty-blocked-address", func(as []issuancetypes.Asset, w *World) []issuancetypes.Asset {
		as[0].BlockedAddresses = append(as[0].BlockedAddresses, "")
		return as
	})
	iss("blocked-list-on-unblockable", func(as []issuancetypes.Asset, w *World) []issuancetypes.Asset {
		as[0].Blockable = false
		as[0].BlockedAddresses = []string{w.Addrs[3].String()}
		return as
	})
	iss("duplicate-denom", func(as []issuancetypes.Asset, w *World) []issuancetypes.Asset { return append(as, as[0]) })
	iss("invalid-denom", func(as []issuancetypes.Asset, w *World) []issuancetypes.Asset { as[0].Denom = "1x"; return as })

	// ------------------------------------------------------------ evmutil
	addr20 := func(b byte) []byte {
		a := make([]byte, 20)
		a[19] = b
		return a
	}
	evp := func(what string, pairs evmutiltypes.ConversionPairs) {
		addM("evmutil", "conversion-pairs-"+what, func(w *World, tApp app.TestApp, ctx sdk.Context) []paramsproposal.ParamChange {
			cur := append(evmutiltypes.ConversionPairs{}, tApp.GetEvmutilKeeper().GetParams(ctx).EnabledConversionPairs...)
			return one(pc(tApp, evmutiltypes.ModuleName, evmutiltypes.KeyEnabledConversionPairs, append(cur, pairs...)))
		})
	}
	evp("zero-address", evmutiltypes.ConversionPairs{{KavaERC20Address: addr20(0), Denom: "erc20/aaa"}})
	evp("short-address", evmutiltypes.ConversionPairs{{KavaERC20Address: addr20(7)[:19], Denom: "erc20/aaa"}})
	evp("invalid-denom", evmutiltypes.ConversionPairs{{KavaERC20Address: addr20(7), Denom: "1x"}})
	evp("duplicate-denom", evmutiltypes.ConversionPairs{{KavaERC20Address: addr20(7), Denom: "erc20/aaa"}, {KavaERC20Address: addr20(8), Denom: "erc20/aaa"}})
	evp("duplicate-address", evmutiltypes.ConversionPairs{{KavaERC20Address: addr20(7), Denom: "erc20/aaa"}, {KavaERC20Address: addr20(7), Denom: "erc20/bbb"}})
	evt := func(what string, toks evmutiltypes.AllowedCosmosCoinERC20Tokens) {
		addM("evmutil", "cosmos-denoms-"+what, func(w *World, tApp app.TestApp, ctx sdk.Context) []paramsproposal.ParamChange {
			cur := append(evmutiltypes.AllowedCosmosCoinERC20Tokens{}, tApp.GetEvmutilKeeper().GetParams(ctx).AllowedCosmosDenoms...)
			return one(pc(tApp, evmutiltypes.ModuleName, evmutiltypes.KeyAllowedCosmosDenoms, append(cur, toks...)))
		})
	}
	evt("empty-name", evmutiltypes.AllowedCosmosCoinERC20Tokens{{CosmosDenom: "xrp", Name: "", Symbol: "XRP", Decimals: 6}})
	evt("empty-symbol", evmutiltypes.AllowedCosmosCoinERC20Tokens{{CosmosDenom: "xrp", Name: "xrp", Symbol: "", Decimals: 6}})
	evt("decimals-256", evmutiltypes.AllowedCosmosCoinERC20Tokens{{CosmosDenom: "xrp", Name: "xrp", Symbol: "XRP", Decimals: 256}})
	evt("invalid-denom", evmutiltypes.AllowedCosmosCoinERC20Tokens{{CosmosDenom: "1x", Name: "xrp", Symbol: "XRP", Decimals: 6}})
	evt("duplicate-denom", evmutiltypes.AllowedCosmosCoinERC20Tokens{{CosmosDenom: "xrp", Name: "xrp", Symbol: "XRP", Decimals: 6}, {CosmosDenom: "xrp", Name: "xrp2", Symbol: "XRP2", Decimals: 6}})
	evt("duplicate-symbol", evmutiltypes.AllowedCosmosCoinERC20Tokens{{CosmosDenom: "xrp", Name: "xrp", Symbol: "XRP", Decimals: 6}, {CosmosDenom: "bnb", Name: "bnb", Symbol: "XRP", Decimals: 8}})
}

// genMalformedParamChange signs the submission of one PRNG-chosen malformation by a member of committee 1.
func (w *World) genMalformedParamChange(r interface{ Intn(int) int }, tApp app.TestApp, ctx sdk.Context, used map[int]bool) ([]byte, string) {
	signer := []int{w.Member, 0}[r.Intn(2)]
	if used[signer] {
		return nil, ""
	}
	m := Malformations[r.Intn(len(Malformations))]
	changes := m.Build(w, tApp, ctx)
	if len(changes) == 0 {
		return nil, ""
	}
	used[signer] = true
	w.RecordMalformed(m, changes)
	return w.SubmitParamChange(tApp, signer, changes), "committee.submit.malformed:" + m.Module
}

// MalformedRec is a malformed change that was submitted to the chain.
type MalformedRec struct {
	Module, What string
	Changes      []paramsproposal.ParamChange
}

// RecordMalformed remembers a malformed change handed to the chain (see MalformedStored).
func (w *World) RecordMalformed(m Malformation, changes []paramsproposal.ParamChange) {
	for _, rec := range w.Malformed {
		if rec.Module == m.Module && rec.What == m.What && len(rec.Changes) == len(changes) && rec.Changes[0].Value == changes[0].Value {
			return
		}
	}
	w.Malformed = append(w.Malformed, MalformedRec{m.Module, m.What, changes})
}

func sameJSON(a, b []byte) bool {
	var x, y interface{}
	if json.Unmarshal(a, &x) != nil || json.Unmarshal(b, &y) != nil {
		return false
	}
	return reflect.DeepEqual(x, y)
}

// MalformedStored: "never stored", stated without any validation code of the tree under test -
// the value stored under a parameter key equals a malformed value that was proposed.
func (w *World) MalformedStored(tApp app.TestApp, ctx sdk.Context) (module, msg string) {
	defer func() {
		if r := recover(); r != nil {
			module, msg = "", ""
		}
	}()
	for _, rec := range w.Malformed {
		for _, ch := range rec.Changes {
			ss, ok := tApp.GetParamsKeeper().GetSubspace(ch.Subspace)
			if !ok || !ss.Has(ctx, []byte(ch.Key)) {
				continue
			}
			if sameJSON(ss.GetRaw(ctx, []byte(ch.Key)), []byte(ch.Value)) {
				return rec.Module, fmt.Sprintf("the malformed value proposed for %s/%s (%s) is stored: %s", ch.Subspace, ch.Key, rec.What, truncate(ch.Value, 400))
			}
		}
	}
	return "", ""
}

func truncate(s string, n int) string {
	if len(s) > n {
		return s[:n] + "…"
	}
	return s
}

// ---------------------------------------------------------------- monitors

// StoredParamsInvalid returns the first Kava module whose stored parameters do not pass the
// module's own Params.Validate(), called directly on GetParams ("" when all pass).  List
// parameters are additionally validated element by element with the element type's own
// Validate(), so that the verdict does not hinge on the list-level loop alone.
func StoredParamsInvalid(tApp app.TestApp, ctx sdk.Context) (module, msg string) {
	cur := ""
	defer func() {
		if r := recover(); r != nil {
			module, msg = cur, fmt.Sprintf("reading or validating the stored parameters panics: %v", r)
		}
	}()
	bad := func(m string, err error) bool {
		if err != nil {
			module, msg = m, err.Error()
			return true
		}
		return false
	}
	cur = "incentive"
	ip := tApp.GetIncentiveKeeper().GetParams(ctx)
	if bad(cur, ip.Validate()) {
		return
	}
	for _, rp := range ip.USDXMintingRewardPeriods {
		if bad(cur, rp.Validate()) {
			return
		}
	}
	for _, ps := range []incentivetypes.MultiRewardPeriods{ip.HardSupplyRewardPeriods, ip.HardBorrowRewardPeriods, ip.DelegatorRewardPeriods, ip.SwapRewardPeriods, ip.SavingsRewardPeriods, ip.EarnRewardPeriods} {
		seen := map[string]bool{}
		for _, rp := range ps {
			if bad(cur, rp.Validate()) {
				return
			}
			if seen[rp.CollateralType] {
				return cur, "duplicated reward period with collateral type " + rp.CollateralType
			}
			seen[rp.CollateralType] = true
		}
	}
	for _, m := range ip.ClaimMultipliers {
		if bad(cur, m.Multipliers.Validate()) {
			return
		}
	}
	cur = "cdp"
	if bad(cur, tApp.GetCDPKeeper().GetParams(ctx).Validate()) {
		return
	}
	cur = "hard"
	hp := tApp.GetHardKeeper().GetParams(ctx)
	if bad(cur, hp.Validate()) {
		return
	}
	for _, m := range hp.MoneyMarkets {
		if bad(cur, m.Validate()) {
			return
		}
	}
	cur = "auction"
	if bad(cur, tApp.GetAuctionKeeper().GetParams(ctx).Validate()) {
		return
	}
	cur = "bep3"
	if bad(cur, tApp.GetBep3Keeper().GetParams(ctx).Validate()) {
		return
	}
	cur = "kavadist"
	kp := tApp.GetKavadistKeeper().GetParams(ctx)
	if bad(cur, kp.Validate()) {
		return
	}
	for _, p := range append(append([]kavadisttypes.Period{}, kp.Periods...), kp.InfrastructureParams.InfrastructurePeriods...) {
		if p.End.Before(p.Start) {
			return cur, fmt.Sprintf("end time for period is before start time: %s", p)
		}
	}
	cur = "pricefeed"
	pp := tApp.GetPriceFeedKeeper().GetParams(ctx)
	if bad(cur, pp.Validate()) {
		return
	}
	for _, m := range pp.Markets {
		if bad(cur, m.Validate()) {
			return
		}
	}
	cur = "savings"
	if bad(cur, tApp.GetSavingsKeeper().GetParams(ctx).Validate()) {
		return
	}
	cur = "swap"
	sp := tApp.GetSwapKeeper().GetParams(ctx)
	if bad(cur, sp.Validate()) {
		return
	}
	for _, p := range sp.AllowedPools {
		if bad(cur, p.Validate()) {
			return
		}
	}
	cur = "earn"
	ep := tApp.GetEarnKeeper().GetParams(ctx)
	if bad(cur, ep.Validate()) {
		return
	}
	for i := range ep.AllowedVaults {
		if bad(cur, ep.AllowedVaults[i].Validate()) {
			return
		}
	}
	cur = "issuance"
	isp := tApp.GetIssuanceKeeper().GetParams(ctx)
	if bad(cur, isp.Validate()) {
		return
	}
	for _, a := range isp.Assets {
		if bad(cur, a.Validate()) {
			return
		}
	}
	cur = "evmutil"
	evp := tApp.GetEvmutilKeeper().GetParams(ctx)
	if bad(cur, evp.Validate()) {
		return
	}
	cur = "community"
	if cp, found := tApp.GetCommunityKeeper().GetParams(ctx); found {
		if bad(cur, cp.Validate()) {
			return
		}
	}
	return "", ""
}

// WouldStoreInvalidParams runs the committee begin blocker of the block (height, t) on a
// branch of the committed state (it is the first begin blocker that writes parameters and
// runs before every blocker that reads them) and evaluates StoredParamsInvalid on the
// result: the parameter sets that the real BeginBlock is about to store.  Only evaluated
// when proposals are pending.  A panic of the committee begin blocker itself is left to the
// real BeginBlock.
func WouldStoreInvalidParams(w *World, tApp app.TestApp, height int64, t time.Time) (module, msg string) {
	ctx := tApp.NewContext(true, tmproto.Header{Height: height, Time: t, ChainID: app.TestChainId})
	if len(tApp.GetCommitteeKeeper().GetProposals(ctx)) == 0 {
		return "", ""
	}
	cctx, _ := ctx.CacheContext()
	ok := func() (ok bool) {
		defer func() {
			if r := recover(); r != nil {
				ok = false
			}
		}()
		committee.BeginBlocker(cctx, abci.RequestBeginBlock{}, tApp.GetCommitteeKeeper())
		return true
	}()
	if !ok {
		return "", ""
	}
	if w != nil {
		if m, e := w.MalformedStored(tApp, cctx); m != "" {
			return m, e
		}
	}
	return StoredParamsInvalid(tApp, cctx)
}
