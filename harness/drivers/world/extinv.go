package world

// Extended state predicates evaluated on the real app in addition to the
// invariant routes registered with the crisis keeper: coherence of derived
// indexes and custody equations that no registered invariant covers (cdp has
// none registered) and that the genesis JSON does not show.

import (
	"bytes"
	"fmt"
	"math"
	"sort"
	"time"

	sdkmath "cosmossdk.io/math"
	"github.com/cosmos/cosmos-sdk/store/prefix"
	sdk "github.com/cosmos/cosmos-sdk/types"

	"github.com/kava-labs/kava/app"
	bep3types "github.com/kava-labs/kava/x/bep3/types"
	cdptypes "github.com/kava-labs/kava/x/cdp/types"
)

// ExtendedInvariants returns the first violated predicate ("" when all hold).
func ExtendedInvariants(tApp app.TestApp, ctx sdk.Context) (name, msg string) {
	defer func() {
		if r := recover(); r != nil {
			name, msg = "extended-invariant-evaluation-panic", fmt.Sprint(r)
		}
	}()
	if n, m := cdpCoherence(tApp, ctx); n != "" {
		return n, m
	}
	if n, m := auctionIndex(tApp, ctx); n != "" {
		return n, m
	}
	if n, m := bep3Index(tApp, ctx); n != "" {
		return n, m
	}
	return "", ""
}

func cdpCoherence(tApp app.TestApp, ctx sdk.Context) (string, string) {
	k := tApp.GetCDPKeeper()
	cdps := k.GetAllCdps(ctx)
	sumByDenom := map[string]sdkmath.Int{}
	type key struct {
		ctype string
		id    uint64
	}
	expected := map[key]sdk.Dec{}
	ownerCount := map[string]map[uint64]int{}
	for _, c := range cdps {
		deps := k.GetDeposits(ctx, c.ID)
		sum := sdkmath.ZeroInt()
		for _, d := range deps {
			if !d.Amount.Amount.IsPositive() {
				return "cdp/zero-deposit-record", fmt.Sprintf("cdp %d has a deposit record of %s by %s", c.ID, d.Amount, d.Depositor)
			}
			if d.Amount.Denom != c.Collateral.Denom {
				return "cdp/deposit-denom", fmt.Sprintf("cdp %d deposit %s", c.ID, d.Amount)
			}
			sum = sum.Add(d.Amount.Amount)
		}
		if !sum.Equal(c.Collateral.Amount) {
			return "cdp/collateral-not-sum-of-deposits", fmt.Sprintf("cdp %d collateral %s but deposits sum to %s", c.ID, c.Collateral, sum)
		}
		cur, ok := sumByDenom[c.Collateral.Denom]
		if !ok {
			cur = sdkmath.ZeroInt()
		}
		sumByDenom[c.Collateral.Denom] = cur.Add(sum)
		expected[key{c.Type, c.ID}] = k.CalculateCollateralToDebtRatio(ctx, c.Collateral, c.Type, c.GetTotalPrincipal())
		ids, _ := k.GetCdpIdsByOwner(ctx, c.Owner)
		if ownerCount[c.Owner.String()] == nil {
			ownerCount[c.Owner.String()] = map[uint64]int{}
			for _, id := range ids {
				ownerCount[c.Owner.String()][id]++
			}
		}
		if ownerCount[c.Owner.String()][c.ID] != 1 {
			return "cdp/owner-index", fmt.Sprintf("cdp %d appears %d times in the owner index of %s", c.ID, ownerCount[c.Owner.String()][c.ID], c.Owner)
		}
	}
	// every id in every owner index must be a stored cdp of that owner
	byID := map[uint64]cdptypes.CDP{}
	for _, c := range cdps {
		byID[c.ID] = c
	}
	for owner, ids := range ownerCount {
		for id := range ids {
			if c, ok := byID[id]; !ok || c.Owner.String() != owner {
				return "cdp/owner-index", fmt.Sprintf("owner index of %s lists cdp %d which is not a stored cdp of that owner", owner, id)
			}
		}
	}
	// module account custody
	macc := tApp.GetAccountKeeper().GetModuleAddress(cdptypes.ModuleName)
	denoms := make([]string, 0, len(sumByDenom))
	for d := range sumByDenom {
		denoms = append(denoms, d)
	}
	sort.Strings(denoms)
	for _, d := range denoms {
		bal := tApp.GetBankKeeper().GetBalance(ctx, macc, d).Amount
		if !bal.Equal(sumByDenom[d]) {
			return "cdp/module-balance-not-sum-of-deposits", fmt.Sprintf("%s: module account holds %s, deposits sum to %s", d, bal, sumByDenom[d])
		}
	}
	// raw collateral-ratio index: exactly one entry per cdp, keyed by the ratio recomputed from the stored record
	store := prefix.NewStore(ctx.KVStore(tApp.GetKVStoreKey(cdptypes.StoreKey)), cdptypes.CollateralRatioIndexPrefix)
	it := store.Iterator(nil, nil)
	defer it.Close()
	seen := map[key]bool{}
	n := 0
	for ; it.Valid(); it.Next() {
		ctype, id, ratio := cdptypes.SplitCollateralRatioKey(it.Key())
		n++
		kk := key{ctype, id}
		exp, ok := expected[kk]
		if !ok {
			return "cdp/ratio-index-stale-entry", fmt.Sprintf("ratio index has an entry (%s, %s, %d) for a cdp that does not exist", ctype, ratio, id)
		}
		if seen[kk] {
			return "cdp/ratio-index-duplicate", fmt.Sprintf("cdp %d indexed twice under %s", id, ctype)
		}
		seen[kk] = true
		want, _, _ := func() (sdk.Dec, uint64, string) {
			_, _, r := cdptypes.SplitCollateralRatioKey(cdptypes.CollateralRatioKey(ctype, id, exp))
			return r, 0, ""
		}()
		if !ratio.Equal(want) {
			return "cdp/ratio-index-wrong-ratio", fmt.Sprintf("cdp %d (%s) indexed under ratio %s but its stored record gives %s", id, ctype, ratio, want)
		}
	}
	if n != len(cdps) {
		return "cdp/ratio-index-missing-entry", fmt.Sprintf("%d cdps but %d ratio index entries", len(cdps), n)
	}
	return "", ""
}

func auctionIndex(tApp app.TestApp, ctx sdk.Context) (string, string) {
	k := tApp.GetAuctionKeeper()
	ids := map[uint64]int{}
	k.IterateAuctionsByTime(ctx, time.Date(9000, 1, 1, 0, 0, 0, 0, time.UTC), func(id uint64) bool {
		ids[id]++
		return false
	})
	auctions := k.GetAllAuctions(ctx)
	for _, a := range auctions {
		if ids[a.GetID()] != 1 {
			return "auction/by-time-index", fmt.Sprintf("auction %d appears %d times in the by-time index", a.GetID(), ids[a.GetID()])
		}
	}
	if len(ids) != len(auctions) {
		return "auction/by-time-index", fmt.Sprintf("%d auctions but %d index entries", len(auctions), len(ids))
	}
	return "", ""
}

func bep3Index(tApp app.TestApp, ctx sdk.Context) (string, string) {
	k := tApp.GetBep3Keeper()
	open := map[string]int{}
	k.IterateAtomicSwapsByBlock(ctx, math.MaxInt64, func(id []byte) bool {
		open[string(id)]++
		return false
	})
	nOpen := 0
	for _, s := range k.GetAllAtomicSwaps(ctx) {
		if s.Status == bep3types.SWAP_STATUS_OPEN {
			nOpen++
			if open[string(s.GetSwapID())] != 1 {
				return "bep3/by-block-index", fmt.Sprintf("open swap %x appears %d times in the by-block index", s.GetSwapID(), open[string(s.GetSwapID())])
			}
		}
	}
	if nOpen != len(open) {
		return "bep3/by-block-index", fmt.Sprintf("%d open swaps but %d by-block index entries", nOpen, len(open))
	}
	_ = bytes.Equal
	return "", ""
}
