package world

// Extended state predicates evaluated on the real app in addition to the
// invariant routes registered with the crisis keeper: coherence of derived
// indexes and custody equations that no registered invariant covers (cdp has
// none registered) and that the genesis JSON does not show.

import (
	"bytes"
	"fmt"
	"math"
	"sort"
	"time"

	sdkmath "cosmossdk.io/math"
	"github.com/cosmos/cosmos-sdk/store/prefix"
	sdk "github.com/cosmos/cosmos-sdk/types"

	"github.com/kava-labs/kava/app"
	auctionkeeper "github.com/kava-labs/kava/x/auction/keeper"
	auctiontypes "github.com/kava-labs/kava/x/auction/types"
	bep3types "github.com/kava-labs/kava/x/bep3/types"
	cdptypes "github.com/kava-labs/kava/x/cdp/types"
	hardtypes "github.com/kava-labs/kava/x/hard/types"
)

// ExtendedInvariants returns the first violated predicate ("" when all hold).
func ExtendedInvariants(tApp app.TestApp, ctx sdk.Context) (name, msg string) {
	defer func() {
		if r := recover(); r != nil {
			name, msg = "extended-invariant-evaluation-panic", fmt.Sprint(r)
		}
	}()
	if n, m := cdpCoherence(tApp, ctx); n != "" {
		return n, m
	}
	if n, m := auctionIndex(tApp, ctx); n != "" {
		return n, m
	}
	if n, m := bep3Index(tApp, ctx); n != "" {
		return n, m
	}
	if n, m := auctionInvariants(tApp, ctx); n != "" {
		return n, m
	}
	if n, m := hardInterestFactors(tApp, ctx); n != "" {
		return n, m
	}
	if n, m := bep3Supply(tApp, ctx); n != "" {
		return n, m
	}
	return "", ""
}

// auctionInvariants evaluates the three invariants that x/auction defines in
// keeper/invariants.go but never registers with the crisis keeper (module-account
// custody, every stored auction passes Validate(), by-time index <-> store), and
// Validate() of every stored auction directly.
func auctionInvariants(tApp app.TestApp, ctx sdk.Context) (string, string) {
	k := tApp.GetAuctionKeeper()
	for _, a := range k.GetAllAuctions(ctx) {
		ga, ok := a.(auctiontypes.GenesisAuction)
		if !ok {
			return "auction/stored-auction-type", fmt.Sprintf("auction %d of type %T is not a GenesisAuction", a.GetID(), a)
		}
		if err := ga.Validate(); err != nil {
			return "auction/stored-auction-invalid", fmt.Sprintf("auction %d: %v", a.GetID(), err)
		}
	}
	if m, broken := auctionkeeper.ModuleAccountInvariants(k)(ctx); broken {
		return "auction/module-account", m
	}
	if m, broken := auctionkeeper.ValidAuctionInvariant(k)(ctx); broken {
		return "auction/valid-auctions", m
	}
	if m, broken := auctionkeeper.ValidIndexInvariant(k)(ctx); broken {
		return "auction/valid-index", m
	}
	return "", ""
}

// hardInterestFactors: for every money market in the store the global supply and
// borrow interest factors, when set, are >= 1, and so is every per-position index of
// a denom whose market exists.
func hardInterestFactors(tApp app.TestApp, ctx sdk.Context) (string, string) {
	k := tApp.GetHardKeeper()
	one := sdk.OneDec()
	have := map[string]bool{}
	for _, mm := range k.GetAllMoneyMarkets(ctx) {
		have[mm.Denom] = true
		if f, ok := k.GetBorrowInterestFactor(ctx, mm.Denom); ok && f.LT(one) {
			return "hard/borrow-interest-factor-below-one", fmt.Sprintf("%s: %s", mm.Denom, f)
		}
		if f, ok := k.GetSupplyInterestFactor(ctx, mm.Denom); ok && f.LT(one) {
			return "hard/supply-interest-factor-below-one", fmt.Sprintf("%s: %s", mm.Denom, f)
		}
	}
	var name, msg string
	k.IterateDeposits(ctx, func(dep hardtypes.Deposit) bool {
		for _, ix := range dep.Index {
			if have[ix.Denom] && ix.Value.LT(one) {
				name, msg = "hard/deposit-index-below-one", fmt.Sprintf("%s %s: %s", dep.Depositor, ix.Denom, ix.Value)
				return true
			}
		}
		for _, c := range dep.Amount {
			if c.Amount.IsNegative() {
				name, msg = "hard/negative-deposit", fmt.Sprintf("%s %s", dep.Depositor, c)
				return true
			}
		}
		return false
	})
	if name != "" {
		return name, msg
	}
	k.IterateBorrows(ctx, func(b hardtypes.Borrow) bool {
		for _, ix := range b.Index {
			if have[ix.Denom] && ix.Value.LT(one) {
				name, msg = "hard/borrow-index-below-one", fmt.Sprintf("%s %s: %s", b.Borrower, ix.Denom, ix.Value)
				return true
			}
		}
		for _, c := range b.Amount {
			if c.Amount.IsNegative() {
				name, msg = "hard/negative-borrow", fmt.Sprintf("%s %s", b.Borrower, c)
				return true
			}
		}
		return false
	})
	return name, msg
}

// bep3Supply: the module account holds exactly the outgoing swaps that are not yet
// closed, and the recorded incoming / outgoing supplies equal the sums over the swap
// records (the counters of C13, on the whole-chain state).
func bep3Supply(tApp app.TestApp, ctx sdk.Context) (string, string) {
	k := tApp.GetBep3Keeper()
	inc, out := map[string]sdkmath.Int{}, map[string]sdkmath.Int{}
	add := func(m map[string]sdkmath.Int, c sdk.Coin) {
		cur, ok := m[c.Denom]
		if !ok {
			cur = sdkmath.ZeroInt()
		}
		m[c.Denom] = cur.Add(c.Amount)
	}
	for _, s := range k.GetAllAtomicSwaps(ctx) {
		if s.Status == bep3types.SWAP_STATUS_COMPLETED {
			continue
		}
		for _, c := range s.Amount {
			if s.Direction == bep3types.SWAP_DIRECTION_INCOMING {
				add(inc, c)
			} else {
				add(out, c)
			}
		}
	}
	macc := tApp.GetAccountKeeper().GetModuleAddress(bep3types.ModuleName)
	for _, sp := range k.GetAllAssetSupplies(ctx) {
		dn := sp.GetDenom()
		get := func(m map[string]sdkmath.Int) sdkmath.Int {
			if v, ok := m[dn]; ok {
				return v
			}
			return sdkmath.ZeroInt()
		}
		if !sp.IncomingSupply.Amount.Equal(get(inc)) {
			return "bep3/incoming-supply-differs-from-swaps", fmt.Sprintf("%s: incoming supply %s, live incoming swaps %s", dn, sp.IncomingSupply.Amount, get(inc))
		}
		if !sp.OutgoingSupply.Amount.Equal(get(out)) {
			return "bep3/outgoing-supply-differs-from-swaps", fmt.Sprintf("%s: outgoing supply %s, live outgoing swaps %s", dn, sp.OutgoingSupply.Amount, get(out))
		}
		if bal := tApp.GetBankKeeper().GetBalance(ctx, macc, dn).Amount; !bal.Equal(get(out)) {
			return "bep3/module-balance-differs-from-open-outgoing", fmt.Sprintf("%s: module account holds %s, outgoing swaps not yet closed sum to %s", dn, bal, get(out))
		}
		if sp.OutgoingSupply.Amount.GT(sp.CurrentSupply.Amount) || sp.CurrentSupply.Amount.IsNegative() || sp.IncomingSupply.Amount.IsNegative() {
			return "bep3/supply-counter-out-of-range", sp.String()
		}
	}
	return "", ""
}

func cdpCoherence(tApp app.TestApp, ctx sdk.Context) (string, string) {
	k := tApp.GetCDPKeeper()
	cdps := k.GetAllCdps(ctx)
	sumByDenom := map[string]sdkmath.Int{}
	type key struct {
		ctype string
		id    uint64
	}
	expected := map[key]sdk.Dec{}
	ownerCount := map[string]map[uint64]int{}
	for _, c := range cdps {
		deps := k.GetDeposits(ctx, c.ID)
		sum := sdkmath.ZeroInt()
		for _, d := range deps {
			if !d.Amount.Amount.IsPositive() {
				return "cdp/zero-deposit-record", fmt.Sprintf("cdp %d has a deposit record of %s by %s", c.ID, d.Amount, d.Depositor)
			}
			if d.Amount.Denom != c.Collateral.Denom {
				return "cdp/deposit-denom", fmt.Sprintf("cdp %d deposit %s", c.ID, d.Amount)
			}
			sum = sum.Add(d.Amount.Amount)
		}
		if !sum.Equal(c.Collateral.Amount) {
			return "cdp/collateral-not-sum-of-deposits", fmt.Sprintf("cdp %d collateral %s but deposits sum to %s", c.ID, c.Collateral, sum)
		}
		cur, ok := sumByDenom[c.Collateral.Denom]
		if !ok {
			cur = sdkmath.ZeroInt()
		}
		sumByDenom[c.Collateral.Denom] = cur.Add(sum)
		expected[key{c.Type, c.ID}] = k.CalculateCollateralToDebtRatio(ctx, c.Collateral, c.Type, c.GetTotalPrincipal())
		ids, _ := k.GetCdpIdsByOwner(ctx, c.Owner)
		if ownerCount[c.Owner.String()] == nil {
			ownerCount[c.Owner.String()] = map[uint64]int{}
			for _, id := range ids {
				ownerCount[c.Owner.String()][id]++
			}
		}
		if ownerCount[c.Owner.String()][c.ID] != 1 {
			return "cdp/owner-index", fmt.Sprintf("cdp %d appears %d times in the owner index of %s", c.ID, ownerCount[c.Owner.String()][c.ID], c.Owner)
		}
	}
	// every id in every owner index must be a stored cdp of that owner
	byID := map[uint64]cdptypes.CDP{}
	for _, c := range cdps {
		byID[c.ID] = c
	}
	for owner, ids := range ownerCount {
		for id := range ids {
			if c, ok := byID[id]; !ok || c.Owner.String() != owner {
				return "cdp/owner-index", fmt.Sprintf("owner index of %s lists cdp %d which is not a stored cdp of that owner", owner, id)
			}
		}
	}
	// module account custody
	macc := tApp.GetAccountKeeper().GetModuleAddress(cdptypes.ModuleName)
	denoms := make([]string, 0, len(sumByDenom))
	for d := range sumByDenom {
		denoms = append(denoms, d)
	}
	sort.Strings(denoms)
	for _, d := range denoms {
		bal := tApp.GetBankKeeper().GetBalance(ctx, macc, d).Amount
		if !bal.Equal(sumByDenom[d]) {
			return "cdp/module-balance-not-sum-of-deposits", fmt.Sprintf("%s: module account holds %s, deposits sum to %s", d, bal, sumByDenom[d])
		}
	}
	// raw collateral-ratio index: exactly one entry per cdp, keyed by the ratio recomputed from the stored record
	store := prefix.NewStore(ctx.KVStore(tApp.GetKVStoreKey(cdptypes.StoreKey)), cdptypes.CollateralRatioIndexPrefix)
	it := store.Iterator(nil, nil)
	defer it.Close()
	seen := map[key]bool{}
	n := 0
	for ; it.Valid(); it.Next() {
		ctype, id, ratio := cdptypes.SplitCollateralRatioKey(it.Key())
		n++
		kk := key{ctype, id}
		exp, ok := expected[kk]
		if !ok {
			return "cdp/ratio-index-stale-entry", fmt.Sprintf("ratio index has an entry (%s, %s, %d) for a cdp that does not exist", ctype, ratio, id)
		}
		if seen[kk] {
			return "cdp/ratio-index-duplicate", fmt.Sprintf("cdp %d indexed twice under %s", id, ctype)
		}
		seen[kk] = true
		want, _, _ := func() (sdk.Dec, uint64, string) {
			_, _, r := cdptypes.SplitCollateralRatioKey(cdptypes.CollateralRatioKey(ctype, id, exp))
			return r, 0, ""
		}()
		if !ratio.Equal(want) {
			return "cdp/ratio-index-wrong-ratio", fmt.Sprintf("cdp %d (%s) indexed under ratio %s but its stored record gives %s", id, ctype, ratio, want)
		}
	}
	if n != len(cdps) {
		return "cdp/ratio-index-missing-entry", fmt.Sprintf("%d cdps but %d ratio index entries", len(cdps), n)
	}
	return "", ""
}

func auctionIndex(tApp app.TestApp, ctx sdk.Context) (string, string) {
	k := tApp.GetAuctionKeeper()
	ids := map[uint64]int{}
	k.IterateAuctionsByTime(ctx, time.Date(9000, 1, 1, 0, 0, 0, 0, time.UTC), func(id uint64) bool {
		ids[id]++
		return false
	})
	auctions := k.GetAllAuctions(ctx)
	for _, a := range auctions {
		if ids[a.GetID()] != 1 {
			return "auction/by-time-index", fmt.Sprintf("auction %d appears %d times in the by-time index", a.GetID(), ids[a.GetID()])
		}
	}
	if len(ids) != len(auctions) {
		return "auction/by-time-index", fmt.Sprintf("%d auctions but %d index entries", len(auctions), len(ids))
	}
	return "", ""
}

func bep3Index(tApp app.TestApp, ctx sdk.Context) (string, string) {
	k := tApp.GetBep3Keeper()
	open := map[string]int{}
	k.IterateAtomicSwapsByBlock(ctx, math.MaxInt64, func(id []byte) bool {
		open[string(id)]++
		return false
	})
	nOpen := 0
	for _, s := range k.GetAllAtomicSwaps(ctx) {
		if s.Status == bep3types.SWAP_STATUS_OPEN {
			nOpen++
			if open[string(s.GetSwapID())] != 1 {
				return "bep3/by-block-index", fmt.Sprintf("open swap %x appears %d times in the by-block index", s.GetSwapID(), open[string(s.GetSwapID())])
			}
		}
	}
	if nOpen != len(open) {
		return "bep3/by-block-index", fmt.Sprintf("%d open swaps but %d by-block index entries", nOpen, len(open))
	}
	_ = bytes.Equal
	return "", ""
}
