package world

// Branch counters: which blocker branches a run exercised.  Events of the three
// block phases are counted by type (with the distinguishing attribute), and a
// Probe taken before BeginBlock is compared with the state after it for the
// branches that emit no event (netting of surplus and debt, money markets added
// to / removed from the store, the phase an auction was closed in, reward
// periods that ended inside the block gap).

import (
	. "kavaverif/lib"

	"fmt"
	"time"

	abci "github.com/cometbft/cometbft/abci/types"
	tmproto "github.com/cometbft/cometbft/proto/tendermint/types"
	sdk "github.com/cosmos/cosmos-sdk/types"

	"github.com/kava-labs/kava/app"
	auctiontypes "github.com/kava-labs/kava/x/auction/types"
	cdptypes "github.com/kava-labs/kava/x/cdp/types"
	incentivetypes "github.com/kava-labs/kava/x/incentive/types"
)

var countedEvents = map[string]string{ // event type -> attribute that splits it ("" = none)
	"auction_start": "auction_type", "auction_close": "", "auction_bid": "",
	"cdp_liquidation": "", "hard_liquidation": "", "proposal_close": "proposal_outcome",
	"swaps_expired": "", "kavadist": "", "inflation_stop": "", "staking_rewards_paid": "",
	"seize_coins_from_blocked_address": "", "no_valid_prices": "", "market_price_updated": "",
	"claim_reward": "", "create_atomic_swap": "", "claim_atomic_swap": "", "refund_atomic_swap": "",
}

// CountEvents adds the interesting events of one phase to the counters.
func CountEvents(cnt *Counters, phase string, evs []abci.Event) {
	if cnt == nil {
		return
	}
	for _, e := range evs {
		attr, ok := countedEvents[e.Type]
		if !ok {
			continue
		}
		k := phase + ":" + e.Type
		if e.Type == "swaps_expired" { // emitted by every bep3 begin blocker: count the non-empty ones
			empty := false
			for _, a := range e.Attributes {
				if a.Key == "atomic_swap_ids" && a.Value == "[]" {
					empty = true
				}
			}
			if empty {
				continue
			}
		}
		if attr != "" {
			for _, a := range e.Attributes {
				if a.Key == attr {
					k += ":" + a.Value
				}
			}
		}
		cnt.Inc(k)
	}
}

// BeginC is Begin with event counting.
func BeginC(tApp app.TestApp, height int64, t time.Time, cnt *Counters) (sum string, pnc string) {
	defer func() {
		if r := recover(); r != nil {
			pnc = fmt.Sprintf("BeginBlock panic: %v", r)
		}
	}()
	res := tApp.BeginBlock(abci.RequestBeginBlock{Header: tmproto.Header{Height: height, Time: t, ChainID: app.TestChainId}})
	CountEvents(cnt, "begin", res.Events)
	return eventsDigest(res.Events), ""
}

type auctionInfo struct {
	kind    string
	hasBids bool
	end     time.Time
	maxEnd  time.Time
}

// Probe is the part of the state before BeginBlock that the branch counters need.
type Probe struct {
	auctions      map[uint64]auctionInfo
	surplus, debt sdk.Coin
	markets       map[string]bool
	prevTime      time.Time
}

// TakeProbe reads the committed state (call after Commit, before the next BeginBlock).
func TakeProbe(tApp app.TestApp, height int64, t time.Time) *Probe {
	ctx := tApp.NewContext(true, tmproto.Header{Height: height, Time: t, ChainID: app.TestChainId})
	p := &Probe{auctions: map[uint64]auctionInfo{}, markets: map[string]bool{}, prevTime: t}
	for _, a := range tApp.GetAuctionKeeper().GetAllAuctions(ctx) {
		kind := a.GetType()
		if ca, ok := a.(*auctiontypes.CollateralAuction); ok {
			kind += "-" + ca.GetPhase()
		}
		p.auctions[a.GetID()] = auctionInfo{kind: kind, hasBids: hasBids(a), end: a.GetEndTime(), maxEnd: a.GetMaxEndTime()}
	}
	liq := tApp.GetAccountKeeper().GetModuleAddress(cdptypes.LiquidatorMacc)
	p.surplus = tApp.GetBankKeeper().GetBalance(ctx, liq, "usdx")
	p.debt = tApp.GetBankKeeper().GetBalance(ctx, liq, "debt")
	for _, m := range tApp.GetHardKeeper().GetAllMoneyMarkets(ctx) {
		p.markets[m.Denom] = true
	}
	return p
}

func ends(ps incentivetypes.MultiRewardPeriods) []time.Time {
	var out []time.Time
	for _, x := range ps {
		out = append(out, x.End)
	}
	return out
}

func hasBids(a auctiontypes.Auction) bool {
	switch x := a.(type) {
	case *auctiontypes.CollateralAuction:
		return x.HasReceivedBids
	case *auctiontypes.DebtAuction:
		return x.HasReceivedBids
	case *auctiontypes.SurplusAuction:
		return x.HasReceivedBids
	}
	return false
}

// After compares the probe with the deliver state after BeginBlock of (height, t).
func (p *Probe) After(tApp app.TestApp, height int64, t time.Time, cnt *Counters) {
	if p == nil || cnt == nil {
		return
	}
	ctx := tApp.NewContext(false, tmproto.Header{Height: height, Time: t, ChainID: app.TestChainId})
	open := map[uint64]bool{}
	for _, a := range tApp.GetAuctionKeeper().GetAllAuctions(ctx) {
		open[a.GetID()] = true
	}
	for id, info := range p.auctions {
		if !open[id] {
			k := "branch:auction-closed:" + info.kind
			if info.hasBids {
				k += ":with-bids"
				if info.end.Equal(info.maxEnd) {
					cnt.Inc("branch:auction-closed-at-max-end-time")
				}
			} else {
				k += ":no-bids"
			}
			cnt.Inc(k)
		}
	}
	if p.surplus.IsPositive() && p.debt.IsPositive() {
		cnt.Inc("branch:cdp-net-surplus-and-debt")
	}
	now := map[string]bool{}
	for _, m := range tApp.GetHardKeeper().GetAllMoneyMarkets(ctx) {
		now[m.Denom] = true
		if !p.markets[m.Denom] {
			cnt.Inc("branch:hard-market-added-to-store")
			if _, ok := tApp.GetHardKeeper().GetBorrowInterestFactor(ctx, m.Denom); ok {
				cnt.Inc("branch:hard-market-readded-with-history")
			}
		}
	}
	for dn := range p.markets {
		if !now[dn] {
			cnt.Inc("branch:hard-market-removed-from-store")
			if bc, ok := tApp.GetHardKeeper().GetBorrowedCoins(ctx); ok && bc.AmountOf(dn).IsPositive() {
				cnt.Inc("branch:hard-market-removed-with-open-borrows")
			}
		}
	}
	ip := tApp.GetIncentiveKeeper().GetParams(ctx)
	ended := func(end time.Time) {
		if end.After(p.prevTime) && !end.After(t) {
			cnt.Inc("branch:incentive-period-ended-in-block-gap")
		}
	}
	for _, rp := range ip.USDXMintingRewardPeriods {
		ended(rp.End)
	}
	for _, ps := range [][]time.Time{ends(ip.HardSupplyRewardPeriods), ends(ip.HardBorrowRewardPeriods), ends(ip.DelegatorRewardPeriods), ends(ip.SwapRewardPeriods), ends(ip.SavingsRewardPeriods), ends(ip.EarnRewardPeriods)} {
		for _, e := range ps {
			ended(e)
		}
	}
	if ip.ClaimEnd.After(p.prevTime) && !ip.ClaimEnd.After(t) {
		cnt.Inc("branch:incentive-claim-end-passed")
	}
}
