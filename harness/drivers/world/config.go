package world

// Wide configuration space: module parameters drawn from wide but VALID ranges
// (every module's Params.Validate passes; the genesis is validated by InitChain).
// The legacy fields of Config keep their meaning (bnb-a / xrp-a collateral ratios,
// common stability fee, base hard LTV / reserve factor …); the Wide part adds
// further collateral types, per-market hard parameters, cdp auction thresholds,
// auction durations, bep3 limits, incentive / kavadist periods, infrastructure
// partner lists, earn / savings / swap sets.
//
// Ranges deliberately respect the environment hypotheses of the C02 theorems that
// Params.Validate does NOT enforce (props/C02.json): cdp DebtAuctionLot <=
// DebtAuctionThreshold, conversion factors in [0,18], CheckCollateralizationIndexCount
// small, kavadist inflation >= 1.0, partner rewards covered by the infrastructure
// coins minted (C19), hard interest models whose APY converts to an SPY.

type CollateralCfg struct {
	Denom        string `json:"denom"`
	Type         string `json:"type"`
	Market       string `json:"market"`
	ConvFactor   int64  `json:"conversion_factor"`
	LiqRatio     string `json:"liquidation_ratio"`
	Penalty      string `json:"liquidation_penalty"`
	StabilityFee string `json:"stability_fee"`
	KeeperReward string `json:"keeper_reward"`
	AuctionSize  int64  `json:"auction_size"`
	DebtLimit    int64  `json:"debt_limit"`
	CheckCount   int64  `json:"check_count"`
}

type MarketCfg struct {
	Denom         string    `json:"denom"`
	Market        string    `json:"market"`
	ConvFactor    int64     `json:"conversion_factor"`
	LTV           string    `json:"ltv"`
	ReserveFactor string    `json:"reserve_factor"`
	KeeperReward  string    `json:"keeper_reward"`
	HasMaxLimit   bool      `json:"has_max_limit"`
	MaxLimitUSD   string    `json:"max_limit_usd"`
	IRM           [4]string `json:"interest_rate_model"` // base APY, base multiplier, kink, jump multiplier
}

type Bep3Cfg struct {
	MinLock, MaxLock uint64
	Limit            int64
	TimeLimited      bool
	TimeLimit        int64
	PeriodSec        int64
	FixedFee         int64
	MinSwap, MaxSwap int64
}

type PeriodCfg struct {
	StartSec  int64  `json:"start_s"` // seconds after Genesis0 (may be negative)
	EndSec    int64  `json:"end_s"`
	Inflation string `json:"inflation"`
}

type WideConfig struct {
	Collaterals      []CollateralCfg `json:"collaterals"` // all collateral types, bnb-a and xrp-a first
	SurplusThreshold int64           `json:"surplus_threshold"`
	SurplusLot       int64           `json:"surplus_lot"`
	DebtThreshold    int64           `json:"debt_threshold"`
	DebtLot          int64           `json:"debt_lot"`
	LiqInterval      int64           `json:"liquidation_block_interval"`
	DebtFloor        int64           `json:"debt_floor"`
	HardMarkets      []MarketCfg     `json:"hard_markets"`
	MinBorrowUSD     string          `json:"min_borrow_usd"`
	AuctionFwdSec    int64           `json:"auction_forward_s"`
	AuctionRevSec    int64           `json:"auction_reverse_s"`
	AuctionMaxSec    int64           `json:"auction_max_s"`
	IncSurplus       string          `json:"increment_surplus"`
	IncDebt          string          `json:"increment_debt"`
	IncCollateral    string          `json:"increment_collateral"`
	Bep3             Bep3Cfg         `json:"bep3"`
	IncentiveStart   int64           `json:"incentive_start_s"`
	IncentiveEnds    []int64         `json:"incentive_end_s"` // one per reward-period class (7), seconds after Genesis0
	ClaimEndSec      int64           `json:"claim_end_s"`
	KavadistPeriods  []PeriodCfg     `json:"kavadist_periods"`
	InfraPeriods     []PeriodCfg     `json:"infra_periods"`
	PartnerRates     []int64         `json:"partner_rates"` // ukava per second, paid to users 2,3,…
	CoreWeights      []string        `json:"core_weights"`  // paid to users 4,5,…
	DisableInflSec   int64           `json:"disable_inflation_s"`
	UpgradeStakingRw string          `json:"upgrade_staking_rewards"`
	SwapPools        [][2]string     `json:"swap_pools"`
	EarnVaults       []string        `json:"earn_vaults"` // "denom:strategy[:private]"
	SavingsDenoms    []string        `json:"savings_denoms"`
	ProposalDurSec   int64           `json:"committee_proposal_duration_s"`
	// BkavaEarnRate > 0 adds an incentive earn reward period for collateral type "bkava"
	// (ukava per second, shared by all bkava-<validator> vaults in proportion to their value).
	BkavaEarnRate int64 `json:"bkava_earn_rate,omitempty"`
	// TokenCommitteeDurSec > 0 adds committee 3: a token committee tallied at the deadline (hard holders vote).
	TokenCommitteeDurSec int64  `json:"token_committee_duration_s,omitempty"`
	TokenCommitteeQuorum string `json:"token_committee_quorum,omitempty"`
	// Fractional: sub-ukava (akava) balances of users 0,1,… in the precisebank genesis, backed by a
	// matching reserve in the precisebank module account (remainder = what completes the sum to whole ukava).
	Fractional []int64 `json:"fractional_akava,omitempty"`
}

func pickS(r interface{ Intn(int) int }, xs ...string) string { return xs[r.Intn(len(xs))] }
func pickI(r interface{ Intn(int) int }, xs ...int64) int64   { return xs[r.Intn(len(xs))] }

// randomWide draws the wide part.  All values are within what the modules' own
// validation accepts; see the header for the hypotheses respected on top.
func randomWide(r interface {
	Intn(int) int
	Chance(int, int) bool
}, cfg *Config) *WideConfig {
	w := &WideConfig{}
	fees := []string{"1.0", "1.000000001547125958", "1.000000004431822130", "1.000000000782997", "1.000000012857214317", "1.000000051034942716"}
	col := func(denom, ctype, market string, cf int64, ratio string) CollateralCfg {
		return CollateralCfg{Denom: denom, Type: ctype, Market: market, ConvFactor: cf, LiqRatio: ratio,
			Penalty:      pickS(r, "0.05", "0", "0.075", "0.13", "0.25", "1"),
			StabilityFee: cfg.StabilityFee,
			KeeperReward: pickS(r, "0.01", "0", "0.05", "0.5", "1"),
			// not smaller: a liquidation starts collateral/AuctionSize auctions inside the begin blocker
			// (a tiny auction size is valid and merely makes that block arbitrarily slow)
			AuctionSize: pickI(r, 500_000_000, 777_777_777, 5_000_000_000, 50_000_000_000, 1_000_000_000_000),
			DebtLimit:   pickI(r, 1_000_000_000_000, 300_000_000_000, 20_000_000_000, 2_000_000_000),
			CheckCount:  pickI(r, 10, 0, 1, 3, 1000),
		}
	}
	// the two legacy types keep the legacy ratio / fee fields (the drivers' directed scenarios set them)
	w.Collaterals = []CollateralCfg{col("bnb", "bnb-a", "bnb:usd", 8, ""), col("xrp", "xrp-a", "xrp:usd", 6, "")}
	if r.Chance(2, 3) { // a second type for the same denom with its own ratio, fee and penalty
		c := col("bnb", "bnb-b", "bnb:usd", 8, pickS(r, "1.1", "1.01", "3.0", "1.666666666666666667"))
		c.StabilityFee = fees[r.Intn(len(fees))]
		w.Collaterals = append(w.Collaterals, c)
	}
	if r.Chance(1, 2) {
		c := col("busd", "busd-a", "busd:usd", 8, pickS(r, "1.01", "1.05", "1.5"))
		c.StabilityFee = fees[r.Intn(len(fees))]
		w.Collaterals = append(w.Collaterals, c)
	}
	if r.Chance(1, 2) {
		c := col("ukava", "ukava-a", "kava:usd", 6, pickS(r, "2.0", "1.5", "2.5"))
		c.StabilityFee = fees[r.Intn(len(fees))]
		w.Collaterals = append(w.Collaterals, c)
	}
	if r.Chance(1, 3) {
		c := col("hard", "hard-a", "hard:usd", pickI(r, 6, 0, 18), pickS(r, "2.0", "1.5"))
		c.StabilityFee = fees[r.Intn(len(fees))]
		w.Collaterals = append(w.Collaterals, c)
	}
	// cdp auction thresholds: small enough to be reached by fees / liquidations within a
	// history, lot above and below the threshold (debt lot never above its threshold: stated
	// environment hypothesis, C02_cdp_begin_block_refuted_params)
	w.SurplusThreshold = pickI(r, 500_000_000_000, 1, 100, 10_000, 1_000_000, 50_000_000)
	w.SurplusLot = pickI(r, 10_000_000_000, 1, 50, 5_000, 2_000_000, 1_000_000_000)
	w.DebtThreshold = pickI(r, 100_000_000_000, 1_000_000, 10_000_000, 25_000_000, 400_000_000)
	w.DebtLot = pickI(r, 10_000_000_000, 1, 1_000_000, 10_000_000, 25_000_000)
	if w.DebtLot > w.DebtThreshold {
		w.DebtLot = w.DebtThreshold
	}
	w.LiqInterval = pickI(r, 1, 1, 1, 2, 3, 7, 1000)
	w.DebtFloor = pickI(r, 10_000_000, 10_000_000, 1, 1_000_000, 200_000_000)
	// hard
	irms := [][4]string{{"0.05", "2", "0.8", "10"}, {"0", "0", "0", "0"}, {"0", "0.1", "1", "0"}, {"1", "0.5", "0.5", "5"}, {"0.02", "0.3", "0", "1"}, {"0.1", "1", "0.9", "20"}}
	mk := func(denom, market string, cf int64) MarketCfg {
		return MarketCfg{Denom: denom, Market: market, ConvFactor: cf,
			LTV:           pickS(r, "", "", "0", "0.5", "0.9", "1"),
			ReserveFactor: pickS(r, "", "", "0", "1", "0.5"),
			KeeperReward:  pickS(r, "0.05", "0", "0.2", "1"),
			HasMaxLimit:   r.Chance(1, 5),
			MaxLimitUSD:   pickS(r, "1000000000000000", "100", "5000", "0"),
			IRM:           irms[r.Intn(len(irms))],
		}
	}
	w.HardMarkets = []MarketCfg{mk("usdx", "usdx:usd", 1e6), mk("bnb", "bnb:usd", 1e8), mk("ukava", "kava:usd", 1e6), mk("busd", "busd:usd", 1e8)}
	if r.Chance(1, 2) {
		w.HardMarkets = append(w.HardMarkets, mk("xrp", "xrp:usd", 1e6))
	}
	if r.Chance(1, 3) {
		w.HardMarkets = append(w.HardMarkets, mk("hard", "hard:usd", 1e6))
	}
	if r.Chance(1, 4) { // a market with conversion factor one
		w.HardMarkets = append(w.HardMarkets, mk("swp", "swp:usd", 1))
	}
	w.MinBorrowUSD = pickS(r, "0.000001", "0", "10", "0.5")
	// auction: durations short enough that expiries and bids near MaxEndTime happen in 25 blocks
	w.AuctionFwdSec = pickI(r, 1200, 1, 10, 60, 600, 3600, 6*3600)
	w.AuctionRevSec = pickI(r, 600, 1, 5, 60, 1800, 3*3600)
	max := w.AuctionFwdSec
	if w.AuctionRevSec > max {
		max = w.AuctionRevSec
	}
	w.AuctionMaxSec = max * pickI(r, 1, 2, 3, 6, 10)
	if r.Chance(1, 4) {
		w.AuctionMaxSec = 48 * 3600
		if max > w.AuctionMaxSec {
			w.AuctionMaxSec = max
		}
	}
	w.IncSurplus = pickS(r, "0.05", "0", "0.01", "0.5")
	w.IncDebt = pickS(r, "0.05", "0", "0.01", "0.5")
	w.IncCollateral = pickS(r, "0.05", "0", "0.01", "0.5")
	// bep3
	w.Bep3 = Bep3Cfg{MinLock: uint64(pickI(r, 3, 1, 2, 5)), Limit: pickI(r, 350_000_000_000_000, 2_000_000_000, 50_000_000_000),
		TimeLimited: r.Chance(2, 3), PeriodSec: pickI(r, 3600, 1, 60, 86400), FixedFee: pickI(r, 1000, 0, 1, 50_000),
		MaxSwap: pickI(r, 1_000_000_000_000, 500_000_000, 50_000_000_000)}
	w.Bep3.MaxLock = w.Bep3.MinLock + uint64(pickI(r, 9, 0, 1, 20))
	w.Bep3.TimeLimit = w.Bep3.Limit / pickI(r, 7000, 1, 2, 100)
	w.Bep3.MinSwap = w.Bep3.FixedFee + pickI(r, 1, 1, 1000)
	if w.Bep3.MinSwap > w.Bep3.MaxSwap {
		w.Bep3.MinSwap = w.Bep3.MaxSwap
	}
	// incentive: periods that start before / at / after genesis and end mid-history or far away
	w.IncentiveStart = pickI(r, 600, -86400, 0, 1, 7200)
	ends := []int64{400 * 86400, 400 * 86400, 3600, 6 * 3600, 86400, 5 * 86400, 30 * 86400}
	for i := 0; i < 7; i++ {
		e := ends[r.Intn(len(ends))]
		if e < w.IncentiveStart {
			e = w.IncentiveStart
		}
		w.IncentiveEnds = append(w.IncentiveEnds, e)
	}
	w.ClaimEndSec = pickI(r, 500*86400, 500*86400, 2*86400, 3600, 20*86400)
	// kavadist: minting periods (contiguous, separated, ended before genesis) and infrastructure periods
	infl := []string{"1.000000002293273137", "1.000000001547125958", "1.0", "1.000000005781378656", "1.000000000000000001"}
	switch r.Intn(4) {
	case 0:
		w.KavadistPeriods = []PeriodCfg{{1800, 3 * 3600, infl[0]}, {5 * 3600, 300 * 86400, infl[1]}}
	case 1: // contiguous seam, first one started before genesis
		w.KavadistPeriods = []PeriodCfg{{-86400, 7200, infl[r.Intn(len(infl))]}, {7200, 2 * 86400, infl[r.Intn(len(infl))]}, {2 * 86400, 400 * 86400, infl[r.Intn(len(infl))]}}
	case 2: // short periods that open and close inside one long block gap
		w.KavadistPeriods = []PeriodCfg{{600, 601, infl[r.Intn(len(infl))]}, {3600, 3660, infl[r.Intn(len(infl))]}, {86400, 10 * 86400, infl[r.Intn(len(infl))]}}
	default:
		w.KavadistPeriods = nil
	}
	// infrastructure inflation strictly above one and large enough to cover the partner rates:
	// total ukava supply >= 10^12, so >= 1547 ukava are minted per second of an infrastructure period
	iinfl := []string{"1.000000001547125958", "1.000000002293273137", "1.000000005781378656"}
	switch r.Intn(4) {
	case 0:
		w.InfraPeriods = nil
	case 1:
		w.InfraPeriods = []PeriodCfg{{3600, 400 * 86400, iinfl[r.Intn(3)]}}
	case 2:
		w.InfraPeriods = []PeriodCfg{{-3600, 1800, iinfl[r.Intn(3)]}, {1800, 86400, iinfl[r.Intn(3)]}, {3 * 86400, 40 * 86400, iinfl[r.Intn(3)]}}
	default:
		w.InfraPeriods = []PeriodCfg{{10, 20, iinfl[r.Intn(3)]}, {7200, 7260, iinfl[r.Intn(3)]}, {86400, 400 * 86400, iinfl[r.Intn(3)]}}
	}
	for i, n := 0, r.Intn(3); i < n; i++ {
		w.PartnerRates = append(w.PartnerRates, pickI(r, 1, 7, 50, 180))
	}
	switch r.Intn(4) {
	case 0:
	case 1:
		w.CoreWeights = []string{"1.0"}
	case 2:
		w.CoreWeights = []string{"0.5", "0.5"}
	default:
		w.CoreWeights = []string{"0.333333333333333333", "0.1", "0"}
	}
	w.DisableInflSec = pickI(r, 6*3600, 0, 60, 86400, 500*86400)
	w.UpgradeStakingRw = pickS(r, "500.25", "0", "0.000000000000000001", "1000000")
	// swap, earn, savings
	w.SwapPools = [][2]string{{"bnb", "usdx"}, {"ukava", "usdx"}}
	if r.Chance(1, 2) {
		w.SwapPools = append(w.SwapPools, [2]string{"busd", "usdx"})
	}
	if r.Chance(1, 3) {
		w.SwapPools = append(w.SwapPools, [2]string{"hard", "swp"})
	}
	w.EarnVaults = []string{"usdx:hard", "bkava:savings", "busd:savings"}
	switch r.Intn(4) {
	case 0:
		w.EarnVaults = []string{"usdx:hard", "bkava:savings", "busd:hard"}
	case 1:
		w.EarnVaults = []string{"usdx:hard:private", "bkava:savings", "busd:savings", "ukava:hard"}
	case 2:
		w.EarnVaults = []string{"usdx:hard", "busd:savings:private", "bnb:hard"}
	}
	w.SavingsDenoms = []string{"ukava", "bkava", "busd"}
	switch r.Intn(3) {
	case 0:
		w.SavingsDenoms = []string{"ukava", "bkava", "busd", "usdx", "hard"}
	case 1:
		w.SavingsDenoms = []string{"busd", "bkava"}
	}
	w.ProposalDurSec = pickI(r, 7*86400, 3600, 60, 30*86400)
	w.BkavaEarnRate = pickI(r, 1000, 1, 190_000, 55, 0)
	w.TokenCommitteeDurSec = pickI(r, 60, 3600, 86400, 7*86400, 600, 0)
	w.TokenCommitteeQuorum = pickS(r, "0", "0.000001", "0.1", "0.5")
	if r.Chance(1, 3) {
		for i, n := 0, 1+r.Intn(3); i < n; i++ {
			w.Fractional = append(w.Fractional, pickI(r, 1, 250_000_000_000, 999_999_999_999, 500_000_000_000, 123_456_789_012, 1_000_000))
		}
	}
	return w
}
