// Package world builds a multi-module Kava chain (genesis with cdp, hard, swap,
// savings, earn, bep3, pricefeed, incentive, committee, kavadist, community,
// issuance, liquid …) and generates blocks of signed transactions from a PRNG.
// Blocks are executed through the full ABCI cycle (BeginBlock / DeliverTx /
// EndBlock / Commit).  Shared by the C01, C02 and C14 drivers.
package world

import (
	. "kavaverif/lib"

	"crypto/sha256"
	"encoding/hex"
	"encoding/json"
	"fmt"
	"math/rand"
	"sort"
	"strings"
	"time"

	sdkmath "cosmossdk.io/math"
	abci "github.com/cometbft/cometbft/abci/types"
	tmbytes "github.com/cometbft/cometbft/libs/bytes"
	tmproto "github.com/cometbft/cometbft/proto/tendermint/types"
	"github.com/cosmos/cosmos-sdk/client"
	"github.com/cosmos/cosmos-sdk/codec"
	cryptotypes "github.com/cosmos/cosmos-sdk/crypto/types"
	"github.com/cosmos/cosmos-sdk/testutil/sims"
	sdk "github.com/cosmos/cosmos-sdk/types"
	vestingtypes "github.com/cosmos/cosmos-sdk/x/auth/vesting/types"
	banktypes "github.com/cosmos/cosmos-sdk/x/bank/types"
	govv1 "github.com/cosmos/cosmos-sdk/x/gov/types/v1"
	govv1beta1 "github.com/cosmos/cosmos-sdk/x/gov/types/v1beta1"
	paramsproposal "github.com/cosmos/cosmos-sdk/x/params/types/proposal"
	stakingtypes "github.com/cosmos/cosmos-sdk/x/staking/types"
	upgradetypes "github.com/cosmos/cosmos-sdk/x/upgrade/types"

	"github.com/kava-labs/kava/app"
	auctiontypes "github.com/kava-labs/kava/x/auction/types"
	bep3types "github.com/kava-labs/kava/x/bep3/types"
	cdptypes "github.com/kava-labs/kava/x/cdp/types"
	committeetypes "github.com/kava-labs/kava/x/committee/types"
	communitytypes "github.com/kava-labs/kava/x/community/types"
	earntypes "github.com/kava-labs/kava/x/earn/types"
	hardtypes "github.com/kava-labs/kava/x/hard/types"
	incentivetypes "github.com/kava-labs/kava/x/incentive/types"
	issuancetypes "github.com/kava-labs/kava/x/issuance/types"
	kavadisttypes "github.com/kava-labs/kava/x/kavadist/types"
	liquidtypes "github.com/kava-labs/kava/x/liquid/types"
	pricefeedtypes "github.com/kava-labs/kava/x/pricefeed/types"
	savingstypes "github.com/kava-labs/kava/x/savings/types"
	swaptypes "github.com/kava-labs/kava/x/swap/types"
)

const (
	NUsers   = 6
	NOracles = 3
)

var Genesis0 = time.Date(2024, 3, 1, 12, 0, 0, 0, time.UTC)

// Config is the PRNG-chosen parameterisation of the genesis.
type Config struct {
	LiqRatioBnb     string
	LiqRatioXrp     string
	SwapFee         string
	StabilityFee    string
	BnbPrice        string
	XrpPrice        string
	KavaPrice       string
	HardLTV         string
	ReserveFactor   string
	KavadistActive  bool
	StakingRewards  string // community staking rewards per second
	IssuanceLimited bool
}

func RandomConfig(r *Rng) Config {
	pick := func(xs ...string) string { return xs[r.Intn(len(xs))] }
	return Config{
		LiqRatioBnb:     pick("1.5", "2.0", "1.25", "1.333333333333333333"),
		LiqRatioXrp:     pick("1.5", "1.75", "2.25"),
		SwapFee:         pick("0.003", "0", "0.0015", "0.01"),
		StabilityFee:    pick("1.000000001547125958", "1.0", "1.000000004431822130", "1.000000000782997"),
		BnbPrice:        pick("5.0", "12.5", "3.333333333333333333", "0.5"),
		XrpPrice:        pick("0.25", "0.5", "1.0", "0.337"),
		KavaPrice:       pick("2.0", "0.75", "1.234567890123456789"),
		HardLTV:         pick("0.6", "0.5", "0.8"),
		ReserveFactor:   pick("0.05", "0.0", "0.25"),
		KavadistActive:  r.Chance(1, 2),
		StakingRewards:  pick("0", "744191", "1000.5"),
		IssuanceLimited: r.Chance(1, 2),
	}
}

// World is the generator-side view of one chain: keys, addresses and the
// primary replica used to read state while generating transactions.
type World struct {
	Cfg            Config
	Keys           []cryptotypes.PrivKey
	Addrs          []sdk.AccAddress // users 0..NUsers-1, then oracles, then deputy, then committee member
	Oracles        []int
	Deputy         int
	Member         int
	ValAddr        sdk.ValAddress
	GenState       app.GenesisState
	GenBytes       []byte
	Enc            sdk.TxEncoder
	TxCfg          client.TxConfig
	txr            *rand.Rand
	Swaps          []bep3Swap
	Height         int64
	Time           time.Time
	Counters       *Counters
	memoN          int
	basicValidOnly bool
}

type bep3Swap struct {
	ID     tmbytes.HexBytes
	Secret tmbytes.HexBytes
	Sender int
}

type Block struct {
	Height int64     `json:"height"`
	Time   time.Time `json:"time"`
	Txs    [][]byte  `json:"-"`
	Descs  []string  `json:"txs"`
}

func d(s string) sdk.Dec                 { return sdk.MustNewDecFromStr(s) }
func c(denom string, amt int64) sdk.Coin { return sdk.NewInt64Coin(denom, amt) }
func cs(coins ...sdk.Coin) sdk.Coins     { return sdk.NewCoins(coins...) }

// NewWorld builds the genesis for a configuration.
func NewWorld(cfg Config, seed uint64, cnt *Counters) *World {
	keys, addrs := app.GeneratePrivKeyAddressPairs(NUsers + NOracles + 2)
	w := &World{Cfg: cfg, Keys: keys, Addrs: addrs, Deputy: NUsers + NOracles, Member: NUsers + NOracles + 1,
		txr: rand.New(rand.NewSource(int64(seed))), Counters: cnt}
	for i := 0; i < NOracles; i++ {
		w.Oracles = append(w.Oracles, NUsers+i)
	}
	return w
}

// BuildGenesis returns the genesis state for a given (fresh) app's codec.
func (w *World) BuildGenesis(cdc codec.JSONCodec) app.GenesisState {
	cfg := w.Cfg
	gs := app.GenesisState{}
	// ---- auth + bank
	ab := app.NewAuthBankGenesisBuilder()
	funds := cs(c("ukava", 5_000_000_000), c("bnb", 50_000_000_000), c("xrp", 80_000_000_000), c("usdx", 20_000_000_000),
		c("busd", 10_000_000_000), c("hard", 1_000_000_000), c("swp", 1_000_000_000))
	for i := 0; i < NUsers-1; i++ {
		ab.WithSimpleAccount(w.Addrs[i], funds)
	}
	// one periodic vesting user
	ab.WithSimplePeriodicVestingAccount(w.Addrs[NUsers-1], funds, vestingtypes.Periods{
		{Length: 3600, Amount: cs(c("ukava", 1_000_000_000), c("busd", 1_000_000_000))},
		{Length: 86400 * 30, Amount: cs(c("ukava", 2_000_000_000), c("busd", 3_000_000_000))},
	}, Genesis0.Unix())
	for _, o := range w.Oracles {
		ab.WithSimpleAccount(w.Addrs[o], cs(c("ukava", 1_000_000)))
	}
	ab.WithSimpleAccount(w.Addrs[w.Deputy], cs(c("ukava", 1_000_000), c("bnb", 1_000_000_000)))
	ab.WithSimpleAccount(w.Addrs[w.Member], cs(c("ukava", 1_000_000)))
	// incentive module needs reward coins; kavadist/community pools
	ab.WithSimpleModuleAccount(incentivetypes.IncentiveMacc, cs(c("hard", 1_000_000_000_000), c("swp", 1_000_000_000_000), c("ukava", 1_000_000_000_000)), "minter") // IncentiveMacc is the kavadist module account
	ab.WithSimpleModuleAccount(communitytypes.ModuleAccountName, cs(c("ukava", 50_000_000_000)))
	for k, v := range ab.BuildMarshalled(cdc) {
		gs[k] = v
	}
	// ---- pricefeed
	var oracles []sdk.AccAddress
	for _, o := range w.Oracles {
		oracles = append(oracles, w.Addrs[o])
	}
	mk := func(id, base string) pricefeedtypes.Market {
		return pricefeedtypes.Market{MarketID: id, BaseAsset: base, QuoteAsset: "usd", Oracles: oracles, Active: true}
	}
	far := Genesis0.Add(24 * 365 * time.Hour)
	post := func(id, p string) pricefeedtypes.PostedPrice {
		return pricefeedtypes.PostedPrice{MarketID: id, OracleAddress: oracles[0], Price: d(p), Expiry: far}
	}
	pf := pricefeedtypes.GenesisState{
		Params: pricefeedtypes.Params{Markets: []pricefeedtypes.Market{
			mk("bnb:usd", "bnb"), mk("xrp:usd", "xrp"), mk("kava:usd", "kava"), mk("usdx:usd", "usdx"), mk("busd:usd", "busd"),
		}},
		PostedPrices: []pricefeedtypes.PostedPrice{
			post("bnb:usd", cfg.BnbPrice), post("xrp:usd", cfg.XrpPrice), post("kava:usd", cfg.KavaPrice), post("usdx:usd", "1.0"), post("busd:usd", "1.0"),
		},
	}
	gs[pricefeedtypes.ModuleName] = cdc.MustMarshalJSON(&pf)
	// ---- cdp
	cp := func(denom, ctype, ratio, market string, cf int64) cdptypes.CollateralParam {
		return cdptypes.CollateralParam{
			Denom: denom, Type: ctype, LiquidationRatio: d(ratio), DebtLimit: c("usdx", 1_000_000_000_000),
			StabilityFee: d(cfg.StabilityFee), LiquidationPenalty: d("0.05"), AuctionSize: sdkmath.NewInt(50_000_000),
			SpotMarketID: market, LiquidationMarketID: market, KeeperRewardPercentage: d("0.01"),
			CheckCollateralizationIndexCount: sdkmath.NewInt(10), ConversionFactor: sdkmath.NewInt(cf),
		}
	}
	cdpGen := cdptypes.GenesisState{
		Params: cdptypes.Params{
			GlobalDebtLimit: c("usdx", 2_000_000_000_000), SurplusAuctionThreshold: cdptypes.DefaultSurplusThreshold,
			SurplusAuctionLot: cdptypes.DefaultSurplusLot, DebtAuctionThreshold: cdptypes.DefaultDebtThreshold,
			DebtAuctionLot: cdptypes.DefaultDebtLot, LiquidationBlockInterval: 1,
			CollateralParams: cdptypes.CollateralParams{cp("bnb", "bnb-a", cfg.LiqRatioBnb, "bnb:usd", 8), cp("xrp", "xrp-a", cfg.LiqRatioXrp, "xrp:usd", 6)},
			DebtParam:        cdptypes.DebtParam{Denom: "usdx", ReferenceAsset: "usd", ConversionFactor: sdkmath.NewInt(6), DebtFloor: sdkmath.NewInt(10_000_000)},
		},
		StartingCdpID: cdptypes.DefaultCdpStartingID, DebtDenom: cdptypes.DefaultDebtDenom, GovDenom: cdptypes.DefaultGovDenom,
		CDPs: cdptypes.CDPs{},
		PreviousAccumulationTimes: cdptypes.GenesisAccumulationTimes{
			cdptypes.NewGenesisAccumulationTime("bnb-a", time.Time{}, sdk.OneDec()),
			cdptypes.NewGenesisAccumulationTime("xrp-a", time.Time{}, sdk.OneDec()),
		},
		TotalPrincipals: cdptypes.GenesisTotalPrincipals{
			cdptypes.NewGenesisTotalPrincipal("bnb-a", sdk.ZeroInt()), cdptypes.NewGenesisTotalPrincipal("xrp-a", sdk.ZeroInt()),
		},
	}
	gs[cdptypes.ModuleName] = cdc.MustMarshalJSON(&cdpGen)
	// ---- hard
	mm := func(denom, market string, cf int64) hardtypes.MoneyMarket {
		return hardtypes.NewMoneyMarket(denom, hardtypes.NewBorrowLimit(false, sdk.NewDec(1e15), d(cfg.HardLTV)), market, sdkmath.NewInt(cf),
			hardtypes.NewInterestRateModel(d("0.05"), d("2"), d("0.8"), d("10")), d(cfg.ReserveFactor), d("0.05"))
	}
	hardGen := hardtypes.DefaultGenesisState()
	hardGen.Params.MoneyMarkets = hardtypes.MoneyMarkets{mm("usdx", "usdx:usd", 1e6), mm("bnb", "bnb:usd", 1e8), mm("ukava", "kava:usd", 1e6), mm("busd", "busd:usd", 1e8)}
	hardGen.Params.MinimumBorrowUSDValue = d("0.000001")
	gs[hardtypes.ModuleName] = cdc.MustMarshalJSON(&hardGen)
	// ---- swap
	swapGen := swaptypes.DefaultGenesisState()
	swapGen.Params = swaptypes.NewParams(swaptypes.AllowedPools{swaptypes.NewAllowedPool("bnb", "usdx"), swaptypes.NewAllowedPool("ukava", "usdx")}, d(cfg.SwapFee))
	gs[swaptypes.ModuleName] = cdc.MustMarshalJSON(&swapGen)
	// ---- savings
	savGen := savingstypes.DefaultGenesisState()
	savGen.Params.SupportedDenoms = []string{"ukava", "bkava", "busd"}
	gs[savingstypes.ModuleName] = cdc.MustMarshalJSON(&savGen)
	// ---- earn
	earnGen := earntypes.DefaultGenesisState()
	earnGen.Params.AllowedVaults = earntypes.AllowedVaults{
		earntypes.NewAllowedVault("usdx", earntypes.StrategyTypes{earntypes.STRATEGY_TYPE_HARD}, false, nil),
		earntypes.NewAllowedVault("bkava", earntypes.StrategyTypes{earntypes.STRATEGY_TYPE_SAVINGS}, false, nil),
		earntypes.NewAllowedVault("busd", earntypes.StrategyTypes{earntypes.STRATEGY_TYPE_SAVINGS}, false, nil),
	}
	gs[earntypes.ModuleName] = cdc.MustMarshalJSON(&earnGen)
	// ---- bep3
	bep3Gen := bep3types.GenesisState{
		Params: bep3types.Params{AssetParams: bep3types.AssetParams{{
			Denom: "bnb", CoinID: 714,
			SupplyLimit: bep3types.SupplyLimit{Limit: sdkmath.NewInt(350_000_000_000_000), TimeLimited: true, TimeBasedLimit: sdkmath.NewInt(50_000_000_000), TimePeriod: time.Hour},
			Active:      true, DeputyAddress: w.Addrs[w.Deputy], FixedFee: sdkmath.NewInt(1000), MinSwapAmount: sdkmath.NewInt(1001),
			MaxSwapAmount: sdkmath.NewInt(1_000_000_000_000), MinBlockLock: 3, MaxBlockLock: 12,
		}}},
		Supplies:          bep3types.AssetSupplies{bep3types.NewAssetSupply(c("bnb", 0), c("bnb", 0), c("bnb", 0), c("bnb", 0), time.Duration(0))},
		PreviousBlockTime: bep3types.DefaultPreviousBlockTime,
	}
	gs[bep3types.ModuleName] = cdc.MustMarshalJSON(&bep3Gen)
	// ---- incentive
	rpStart, rpEnd := Genesis0.Add(10*time.Minute), Genesis0.Add(400*24*time.Hour)
	mrp := func(ctype string, coins ...sdk.Coin) incentivetypes.MultiRewardPeriod {
		return incentivetypes.NewMultiRewardPeriod(true, ctype, rpStart, rpEnd, cs(coins...))
	}
	mult := incentivetypes.MultipliersPerDenoms{
		{Denom: "hard", Multipliers: incentivetypes.Multipliers{incentivetypes.NewMultiplier("small", 1, d("0.25")), incentivetypes.NewMultiplier("large", 12, d("1.0"))}},
		{Denom: "swp", Multipliers: incentivetypes.Multipliers{incentivetypes.NewMultiplier("small", 1, d("0.25")), incentivetypes.NewMultiplier("large", 12, d("1.0"))}},
		{Denom: "ukava", Multipliers: incentivetypes.Multipliers{incentivetypes.NewMultiplier("small", 1, d("0.2")), incentivetypes.NewMultiplier("large", 12, d("1.0"))}},
	}
	incParams := incentivetypes.NewParams(
		incentivetypes.RewardPeriods{incentivetypes.NewRewardPeriod(true, "bnb-a", rpStart, rpEnd, c("ukava", 122354))},
		incentivetypes.MultiRewardPeriods{mrp("bnb", c("hard", 31234)), mrp("usdx", c("hard", 1000), c("swp", 77))},
		incentivetypes.MultiRewardPeriods{mrp("usdx", c("hard", 5321))},
		incentivetypes.MultiRewardPeriods{mrp("ukava", c("hard", 2111), c("swp", 9))},
		incentivetypes.MultiRewardPeriods{mrp("bnb:usdx", c("swp", 44123))},
		incentivetypes.MultiRewardPeriods{mrp("busd", c("hard", 17))},
		incentivetypes.MultiRewardPeriods{mrp("usdx", c("hard", 901))},
		mult, Genesis0.Add(500*24*time.Hour),
	)
	incGen := incentivetypes.DefaultGenesisState()
	incGen.Params = incParams
	gs[incentivetypes.ModuleName] = cdc.MustMarshalJSON(&incGen)
	// ---- committee: a member committee that may change cdp / hard params, FPTP
	com := committeetypes.MustNewMemberCommittee(1, "params committee", []sdk.AccAddress{w.Addrs[w.Member], w.Addrs[0]},
		[]committeetypes.Permission{&committeetypes.GodPermission{}}, d("0.5"), 7*24*time.Hour, committeetypes.TALLY_OPTION_FIRST_PAST_THE_POST)
	comGen := committeetypes.NewGenesisState(1, []committeetypes.Committee{com}, committeetypes.Proposals{}, []committeetypes.Vote{})
	gs[committeetypes.ModuleName] = cdc.MustMarshalJSON(comGen)
	// ---- kavadist
	kdGen := kavadisttypes.DefaultGenesisState()
	kdGen.Params = kavadisttypes.Params{Active: cfg.KavadistActive,
		Periods: []kavadisttypes.Period{
			{Start: Genesis0.Add(30 * time.Minute), End: Genesis0.Add(3 * time.Hour), Inflation: d("1.000000002293273137")},
			{Start: Genesis0.Add(5 * time.Hour), End: Genesis0.Add(300 * 24 * time.Hour), Inflation: d("1.000000001547125958")},
		},
		InfrastructureParams: kavadisttypes.DefaultInfraParams,
	}
	kdGen.PreviousBlockTime = Genesis0
	gs[kavadisttypes.ModuleName] = cdc.MustMarshalJSON(kdGen)
	// ---- community
	comm := communitytypes.DefaultGenesisState()
	comm.Params.UpgradeTimeDisableInflation = Genesis0.Add(6 * time.Hour)
	comm.Params.StakingRewardsPerSecond = d(cfg.StakingRewards)
	comm.Params.UpgradeTimeSetStakingRewardsPerSecond = d("500.25")
	gs[communitytypes.ModuleName] = cdc.MustMarshalJSON(&comm)
	// ---- issuance
	issGen := issuancetypes.DefaultGenesisState()
	issGen.Params.Assets = []issuancetypes.Asset{issuancetypes.NewAsset(w.Addrs[1].String(), "busd", []string{w.Addrs[4].String()}, false, true,
		func() issuancetypes.RateLimit {
			if cfg.IssuanceLimited {
				return issuancetypes.NewRateLimit(true, sdkmath.NewInt(5_000_000_000), 24*time.Hour)
			}
			return issuancetypes.NewRateLimit(false, sdk.ZeroInt(), time.Duration(0))
		}())}
	issGen.Supplies = []issuancetypes.AssetSupply{issuancetypes.NewAssetSupply(c("busd", 0), time.Duration(0))}
	gs[issuancetypes.ModuleName] = cdc.MustMarshalJSON(&issGen)
	// ---- auction
	aucGen := auctiontypes.DefaultGenesisState()
	aucGen.Params.ForwardBidDuration = 20 * time.Minute
	aucGen.Params.ReverseBidDuration = 10 * time.Minute
	aucGen.Params.MaxAuctionDuration = 2 * time.Hour
	gs[auctiontypes.ModuleName] = cdc.MustMarshalJSON(aucGen)
	w.GenState = gs
	return gs
}

// GenesisBytes returns the complete genesis (all modules, with one validator) as JSON.
// The validator key of the test helper is random, so the bytes are produced once per
// history and shared by all replicas.
func (w *World) GenesisBytes(tApp app.TestApp) []byte {
	if w.GenBytes != nil {
		return w.GenBytes
	}
	gs := app.NewDefaultGenesisState()
	for k, v := range w.BuildGenesis(tApp.AppCodec()) {
		gs[k] = v
	}
	gs = app.GenesisStateWithSingleValidator(&tApp, gs)
	bz, err := json.Marshal(gs)
	if err != nil {
		panic(err)
	}
	w.GenBytes = bz
	return bz
}

// StartFrom initialises an app from genesis bytes and leaves it at the beginning of
// block 2 (block 1 committed, BeginBlock of block 2 done) — the same sequence as
// app.TestApp.InitializeFromGenesisStates.
func (w *World) StartFrom(tApp app.TestApp, genesis []byte, t0 time.Time) app.TestApp {
	tApp.InitChain(abci.RequestInitChain{
		Time: t0, Validators: []abci.ValidatorUpdate{}, AppStateBytes: genesis, ChainId: app.TestChainId,
		ConsensusParams: &tmproto.ConsensusParams{Block: &tmproto.BlockParams{MaxBytes: 200000, MaxGas: 20000000}},
		InitialHeight:   1,
	})
	tApp.Commit()
	tApp.BeginBlock(abci.RequestBeginBlock{Header: tmproto.Header{Height: tApp.LastBlockHeight() + 1, Time: t0, ChainID: app.TestChainId}})
	w.Height, w.Time = tApp.LastBlockHeight()+1, t0
	if w.ValAddr == nil {
		ctx := tApp.NewContext(false, tmproto.Header{Height: w.Height, Time: t0})
		vals := tApp.GetStakingKeeper().GetAllValidators(ctx)
		w.ValAddr = vals[0].GetOperator()
	}
	if w.TxCfg == nil {
		w.TxCfg = app.MakeEncodingConfig().TxConfig
	}
	w.Enc = w.TxCfg.TxEncoder()
	return tApp
}

// Start initialises an app from the world's genesis.
func (w *World) Start(tApp app.TestApp) app.TestApp {
	return w.StartFrom(tApp, w.GenesisBytes(tApp), Genesis0)
}

// ---------------------------------------------------------------- transactions

func (w *World) Sign(tApp app.TestApp, signer int, msgs ...sdk.Msg) []byte {
	if w.basicValidOnly {
		for _, m := range msgs {
			if m.ValidateBasic() != nil {
				return nil
			}
		}
	}
	ctx := tApp.NewContext(false, tmproto.Header{Height: w.Height, Time: w.Time})
	acc := tApp.GetAccountKeeper().GetAccount(ctx, w.Addrs[signer])
	var num, seq uint64
	if acc != nil {
		num, seq = acc.GetAccountNumber(), acc.GetSequence()
	}
	tx, err := sims.GenSignedMockTx(w.txr, w.TxCfg, msgs, sdk.NewCoins(), 5_000_000, app.TestChainId,
		[]uint64{num}, []uint64{seq}, w.Keys[signer])
	if err != nil {
		panic(err)
	}
	bz, err := w.Enc(tx)
	if err != nil {
		panic(err)
	}
	return bz
}

func amt(r *Rng, max int64) int64 {
	switch r.Pick(3, 3, 2, 1) {
	case 0:
		return 1 + r.Int63n(max)
	case 1:
		return 1 + r.Int63n(max/100+1)
	case 2:
		p := int64(1)
		for i := r.Intn(10); i > 0; i-- {
			p *= 10
		}
		return p + int64(r.Intn(3)) - 1 + 1
	default:
		return int64(r.Intn(4))
	}
}

// GenTx generates one signed transaction (valid or not) against the current state of tApp.
// pending tracks signers already used in this block (their sequence would be stale).
func (w *World) GenTx(r *Rng, tApp app.TestApp, used map[int]bool) ([]byte, string) {
	var u int
	for tries := 0; ; tries++ {
		u = r.Intn(NUsers)
		if !used[u] || tries > 20 {
			break
		}
	}
	if used[u] {
		return nil, ""
	}
	used[u] = true
	A := w.Addrs[u]
	other := w.Addrs[(u+1+r.Intn(NUsers-1))%NUsers]
	ctx := tApp.NewContext(false, tmproto.Header{Height: w.Height, Time: w.Time})
	dl := w.Time.Add(time.Hour).Unix()
	ctypes := []string{"bnb-a", "xrp-a"}
	cdenom := map[string]string{"bnb-a": "bnb", "xrp-a": "xrp"}
	ct := ctypes[r.Intn(2)]
	var msg sdk.Msg
	var desc string
	kind := r.Pick(6, 10, 4, 4, 5, 5, 3, 8, 5, 5, 4, 6, 4, 3, 3, 4, 4, 3, 3, 3, 3, 3, 2, 2, 3, 2)
	switch kind {
	case 0:
		m := banktypes.NewMsgSend(A, other, cs(c([]string{"ukava", "bnb", "usdx", "xrp"}[r.Intn(4)], amt(r, 1_000_000_000))))
		msg, desc = m, "bank.send"
	case 1:
		col := amt(r, 20_000_000_000)
		m := cdptypes.NewMsgCreateCDP(A, c(cdenom[ct], col), c("usdx", 10_000_000+amt(r, 2_000_000_000)), ct)
		msg, desc = &m, "cdp.create"
	case 2:
		m := cdptypes.NewMsgDeposit(pickOwner(r, w, A), A, c(cdenom[ct], amt(r, 5_000_000_000)), ct)
		msg, desc = &m, "cdp.deposit"
	case 3:
		owner := pickOwner(r, w, A)
		a := amt(r, 5_000_000_000)
		if cdp, ok := tApp.GetCDPKeeper().GetCdpByOwnerAndCollateralType(ctx, owner, ct); ok && r.Chance(1, 2) {
			if dep, ok := tApp.GetCDPKeeper().GetDeposit(ctx, cdp.ID, A); ok {
				a = dep.Amount.Amount.Int64() - int64(r.Intn(2)) // the whole deposit, or all but one unit
			}
		}
		if a <= 0 {
			a = 1
		}
		m := cdptypes.NewMsgWithdraw(owner, A, c(cdenom[ct], a), ct)
		msg, desc = &m, "cdp.withdraw"
	case 4:
		m := cdptypes.NewMsgDrawDebt(A, ct, c("usdx", amt(r, 1_000_000_000)))
		msg, desc = &m, "cdp.draw"
	case 5:
		a := amt(r, 3_000_000_000)
		if cdp, ok := tApp.GetCDPKeeper().GetCdpByOwnerAndCollateralType(ctx, A, ct); ok && r.Chance(1, 2) {
			a = cdp.GetTotalPrincipal().Amount.Int64() + int64(r.Intn(3)) - 1 // exact debt, one less, one more
		}
		if a <= 0 {
			a = 1
		}
		m := cdptypes.NewMsgRepayDebt(A, ct, c("usdx", a))
		msg, desc = &m, "cdp.repay"
	case 6:
		m := cdptypes.NewMsgLiquidate(A, other, ct)
		msg, desc = &m, "cdp.liquidate"
	case 7:
		dn := []string{"usdx", "bnb", "ukava", "busd"}[r.Intn(4)]
		m := hardtypes.NewMsgDeposit(A, cs(c(dn, amt(r, 5_000_000_000))))
		msg, desc = &m, "hard.deposit"
	case 8:
		dn := []string{"usdx", "bnb", "ukava", "busd"}[r.Intn(4)]
		m := hardtypes.NewMsgBorrow(A, cs(c(dn, amt(r, 2_000_000_000))))
		msg, desc = &m, "hard.borrow"
	case 9:
		dn := []string{"usdx", "bnb", "ukava", "busd"}[r.Intn(4)]
		if r.Chance(1, 2) {
			a := amt(r, 5_000_000_000)
			if dep, ok := tApp.GetHardKeeper().GetSyncedDeposit(ctx, A); ok && r.Chance(1, 2) && dep.Amount.AmountOf(dn).IsPositive() {
				a = dep.Amount.AmountOf(dn).Int64() + int64(r.Intn(3)) - 1
			}
			if a <= 0 {
				a = 1
			}
			m := hardtypes.NewMsgWithdraw(A, cs(c(dn, a)))
			msg, desc = &m, "hard.withdraw"
		} else {
			owner := pickOwner(r, w, A)
			a := amt(r, 2_000_000_000)
			if bor, ok := tApp.GetHardKeeper().GetSyncedBorrow(ctx, owner); ok && r.Chance(1, 2) && bor.Amount.AmountOf(dn).IsPositive() {
				a = bor.Amount.AmountOf(dn).Int64() + int64(r.Intn(3)) - 1
			}
			if a <= 0 {
				a = 1
			}
			m := hardtypes.NewMsgRepay(A, owner, cs(c(dn, a)))
			msg, desc = &m, "hard.repay"
		}
	case 10:
		m := hardtypes.NewMsgLiquidate(A, other)
		msg, desc = &m, "hard.liquidate"
	case 11:
		pair := [][2]string{{"bnb", "usdx"}, {"ukava", "usdx"}}[r.Intn(2)]
		msg = swaptypes.NewMsgDeposit(A.String(), c(pair[0], amt(r, 2_000_000_000)), c(pair[1], amt(r, 2_000_000_000)), d([]string{"1.0", "0.5", "0.01"}[r.Intn(3)]), dl)
		desc = "swap.deposit"
	case 12:
		pair := [][2]string{{"bnb", "usdx"}, {"ukava", "usdx"}}[r.Intn(2)]
		if r.Chance(1, 2) {
			pair[0], pair[1] = pair[1], pair[0]
		}
		if r.Chance(1, 2) {
			msg = swaptypes.NewMsgSwapExactForTokens(A.String(), c(pair[0], amt(r, 100_000_000)), c(pair[1], 1), d("0.99"), dl)
			desc = "swap.exactfor"
		} else {
			msg = swaptypes.NewMsgSwapForExactTokens(A.String(), c(pair[0], amt(r, 500_000_000)), c(pair[1], amt(r, 50_000_000)), d("0.99"), dl)
			desc = "swap.forexact"
		}
	case 13:
		pair := [][2]string{{"bnb", "usdx"}, {"ukava", "usdx"}}[r.Intn(2)]
		sh := sdkmath.NewInt(amt(r, 1_000_000_000))
		if rec, ok := tApp.GetSwapKeeper().GetDepositorShares(ctx, A, swaptypes.PoolID(pair[0], pair[1])); ok && r.Chance(1, 2) {
			sh = rec.SharesOwned.SubRaw(int64(r.Intn(2)))
			if !sh.IsPositive() {
				sh = sdkmath.OneInt()
			}
		}
		msg = swaptypes.NewMsgWithdraw(A.String(), sh, c(pair[0], 1), c(pair[1], 1), dl)
		desc = "swap.withdraw"
	case 14:
		dn := []string{"ukava", "busd"}[r.Intn(2)]
		if r.Chance(2, 3) {
			m := savingstypes.NewMsgDeposit(A, cs(c(dn, amt(r, 1_000_000_000))))
			msg, desc = &m, "savings.deposit"
		} else {
			a := amt(r, 1_000_000_000)
			if dep, ok := tApp.GetSavingsKeeper().GetDeposit(ctx, A); ok && r.Chance(1, 2) && dep.Amount.AmountOf(dn).IsPositive() {
				a = dep.Amount.AmountOf(dn).Int64() + int64(r.Intn(3)) - 1
			}
			if a <= 0 {
				a = 1
			}
			m := savingstypes.NewMsgWithdraw(A, cs(c(dn, a)))
			msg, desc = &m, "savings.withdraw"
		}
	case 15:
		dn, st := "usdx", earntypes.STRATEGY_TYPE_HARD
		if r.Chance(1, 3) {
			dn, st = "busd", earntypes.STRATEGY_TYPE_SAVINGS
		}
		if r.Chance(2, 3) {
			msg, desc = earntypes.NewMsgDeposit(A.String(), c(dn, amt(r, 1_000_000_000)), st), "earn.deposit"
		} else {
			a := amt(r, 1_000_000_000)
			ek := tApp.GetEarnKeeper()
			if v, err := ek.GetVaultAccountValue(ctx, dn, A); err == nil && v.Amount.IsPositive() && r.Chance(2, 3) {
				a = v.Amount.Int64() - int64(r.Intn(4)) // whole value, or leaving 1..3 units (dust sweep territory)
			}
			if a <= 0 {
				a = 1
			}
			msg, desc = earntypes.NewMsgWithdraw(A.String(), c(dn, a), st), "earn.withdraw"
		}
	case 16: // bep3 create (outgoing by user, or incoming by deputy — deputy is not in the user range, so sign as deputy)
		secret := sha256.Sum256([]byte(fmt.Sprintf("secret-%d-%d", w.Height, r.Next())))
		ts := w.Time.Unix()
		hash := bep3types.CalculateRandomHash(secret[:], ts)
		span := uint64(3 + r.Intn(10))
		if r.Chance(1, 2) {
			// outgoing: user -> deputy
			m := bep3types.NewMsgCreateAtomicSwap(A.String(), w.Addrs[w.Deputy].String(), "0xrecipient", "0xsender", hash, ts, cs(c("bnb", 1001+amt(r, 1_000_000_000))), span)
			msg, desc = &m, "bep3.create.out"
			id := bep3types.CalculateSwapID(hash, A, "0xsender")
			w.Swaps = append(w.Swaps, bep3Swap{id, secret[:], u})
		} else {
			delete(used, u)
			if used[w.Deputy] {
				return nil, ""
			}
			used[w.Deputy] = true
			m := bep3types.NewMsgCreateAtomicSwap(w.Addrs[w.Deputy].String(), A.String(), "0xrecipient", "0xsender", hash, ts, cs(c("bnb", 1001+amt(r, 100_000_000))), span)
			id := bep3types.CalculateSwapID(hash, w.Addrs[w.Deputy], "0xsender")
			w.Swaps = append(w.Swaps, bep3Swap{id, secret[:], u})
			return w.Sign(tApp, w.Deputy, &m), "bep3.create.in"
		}
	case 17:
		if len(w.Swaps) == 0 {
			delete(used, u)
			return nil, ""
		}
		s := w.Swaps[r.Intn(len(w.Swaps))]
		if r.Chance(2, 3) {
			sec := s.Secret
			if r.Chance(1, 5) {
				sec = tmbytes.HexBytes(strings.Repeat("a", 32))
			}
			m := bep3types.NewMsgClaimAtomicSwap(A.String(), s.ID, sec)
			msg, desc = &m, "bep3.claim"
		} else {
			m := bep3types.NewMsgRefundAtomicSwap(A.String(), s.ID)
			msg, desc = &m, "bep3.refund"
		}
	case 18: // price post by an oracle
		delete(used, u)
		o := w.Oracles[r.Intn(len(w.Oracles))]
		if used[o] {
			return nil, ""
		}
		used[o] = true
		market := []string{"bnb:usd", "xrp:usd", "kava:usd"}[r.Intn(3)]
		base := map[string]string{"bnb:usd": w.Cfg.BnbPrice, "xrp:usd": w.Cfg.XrpPrice, "kava:usd": w.Cfg.KavaPrice}[market]
		p := d(base).Mul(d([]string{"1.0", "0.9", "0.6", "0.35", "1.2", "1.000000000000000001"}[r.Intn(6)]))
		exp := w.Time.Add(time.Duration(1+r.Intn(48)) * time.Hour)
		return w.Sign(tApp, o, pricefeedtypes.NewMsgPostPrice(w.Addrs[o].String(), market, p, exp)), "pricefeed.post"
	case 19: // auction bid on some open auction
		auctions := tApp.GetAuctionKeeper().GetAllAuctions(ctx)
		if len(auctions) == 0 {
			delete(used, u)
			return nil, ""
		}
		a := auctions[r.Intn(len(auctions))]
		var bid sdk.Coin
		switch au := a.(type) {
		case *auctiontypes.CollateralAuction:
			if au.IsReversePhase() {
				bid = sdk.NewCoin(au.Lot.Denom, au.Lot.Amount.MulRaw(int64(80+r.Intn(20))).QuoRaw(100))
			} else {
				bid = sdk.NewCoin(au.Bid.Denom, au.Bid.Amount.MulRaw(int64(100+r.Intn(30))).QuoRaw(100).AddRaw(int64(r.Intn(1000))))
				if r.Chance(1, 3) {
					bid = au.MaxBid
				}
			}
		case *auctiontypes.DebtAuction:
			bid = sdk.NewCoin(au.Lot.Denom, au.Lot.Amount.MulRaw(int64(80+r.Intn(20))).QuoRaw(100))
		case *auctiontypes.SurplusAuction:
			bid = sdk.NewCoin(au.Bid.Denom, au.Bid.Amount.MulRaw(int64(100+r.Intn(30))).QuoRaw(100).AddRaw(int64(1+r.Intn(1000))))
		}
		m := auctiontypes.NewMsgPlaceBid(a.GetID(), A.String(), bid)
		msg, desc = &m, "auction.bid"
	case 20: // incentive claims
		sel := incentivetypes.Selections{incentivetypes.NewSelection("hard", "small"), incentivetypes.NewSelection("swp", "large")}
		switch r.Intn(5) {
		case 0:
			m := incentivetypes.NewMsgClaimHardReward(A.String(), sel)
			msg = &m
		case 1:
			m := incentivetypes.NewMsgClaimSwapReward(A.String(), incentivetypes.Selections{incentivetypes.NewSelection("swp", "small")})
			msg = &m
		case 2:
			m := incentivetypes.NewMsgClaimUSDXMintingReward(A.String(), []string{"small", "large"}[r.Intn(2)])
			msg = &m
		case 3:
			m := incentivetypes.NewMsgClaimDelegatorReward(A.String(), sel)
			msg = &m
		default:
			m := incentivetypes.NewMsgClaimEarnReward(A.String(), incentivetypes.Selections{incentivetypes.NewSelection("hard", "large")})
			msg = &m
		}
		desc = "incentive.claim"
	case 21: // staking
		switch r.Intn(3) {
		case 0:
			msg, desc = stakingtypes.NewMsgDelegate(A, w.ValAddr, c("ukava", amt(r, 500_000_000))), "staking.delegate"
		case 1:
			msg, desc = stakingtypes.NewMsgUndelegate(A, w.ValAddr, c("ukava", amt(r, 200_000_000))), "staking.undelegate"
		default:
			m := liquidtypes.NewMsgMintDerivative(A, w.ValAddr, c("ukava", amt(r, 200_000_000)))
			msg, desc = &m, "liquid.mint"
		}
	case 22:
		m := liquidtypes.NewMsgBurnDerivative(A, w.ValAddr, c("bkava-"+w.ValAddr.String(), amt(r, 100_000_000)))
		msg, desc = &m, "liquid.burn"
	case 23: // gov text proposal + vote
		if r.Chance(1, 2) {
			content := govv1beta1.NewTextProposal("t", "d")
			m, err := govv1beta1.NewMsgSubmitProposal(content, cs(c("ukava", 10_000_000)), A)
			if err != nil {
				panic(err)
			}
			msg, desc = m, "gov.submit"
		} else {
			msg, desc = govv1.NewMsgVote(A, uint64(1+r.Intn(3)), govv1.VoteOption(1+r.Intn(4)), ""), "gov.vote"
		}
	case 24: // committee param change proposal + vote by members
		delete(used, u)
		signer := []int{w.Member, 0}[r.Intn(2)]
		if used[signer] {
			return nil, ""
		}
		used[signer] = true
		if r.Chance(1, 2) {
			prop := committeetypes.NewCommitteeDeleteProposal("x", "y", 99)
			_ = prop
			var content committeetypes.PubProposal = govv1beta1.NewTextProposal("committee text", "nothing")
			switch r.Intn(3) {
			case 0: // an upgrade plan a few blocks ahead: stale by the time the deciding vote arrives
				content = upgradetypes.NewSoftwareUpgradeProposal("up", "plan", upgradetypes.Plan{Name: fmt.Sprintf("plan-%d", w.Height), Height: w.Height + int64(1+r.Intn(4))})
			case 1: // a parameter change
				content = paramsproposal.NewParameterChangeProposal("p", "change", []paramsproposal.ParamChange{
					{Subspace: "auction", Key: "MaxAuctionDuration", Value: fmt.Sprintf("\"%d\"", (1+r.Intn(48))*3600_000_000_000)}})
			}
			m, err := committeetypes.NewMsgSubmitProposal(content, w.Addrs[signer], 1)
			if err != nil {
				panic(err)
			}
			return w.Sign(tApp, signer, m), "committee.submit"
		}
		return w.Sign(tApp, signer, committeetypes.NewMsgVote(w.Addrs[signer], uint64(1+r.Intn(3)), committeetypes.VOTE_TYPE_YES)), "committee.vote"
	default: // issuance by the asset owner (user 1) or an impostor
		if u != 1 && !used[1] && r.Chance(1, 2) {
			delete(used, u)
			u = 1
			used[1] = true
			A = w.Addrs[1]
		}
		tok := c("busd", amt(r, 1_000_000_000))
		switch r.Intn(5) {
		case 0, 1:
			msg, desc = issuancetypes.NewMsgIssueTokens(A.String(), tok, other.String()), "issuance.issue"
		case 2:
			msg, desc = issuancetypes.NewMsgRedeemTokens(A.String(), tok), "issuance.redeem"
		case 3:
			msg, desc = issuancetypes.NewMsgBlockAddress(A.String(), "busd", other.String()), "issuance.block"
		default:
			msg, desc = issuancetypes.NewMsgUnblockAddress(A.String(), "busd", other.String()), "issuance.unblock"
		}
	}
	if msg == nil {
		delete(used, u)
		return nil, ""
	}
	return w.Sign(tApp, u, msg), desc
}

// InvalidBasicTx returns a properly signed transaction whose message fails ValidateBasic.
func (w *World) InvalidBasicTx(tApp app.TestApp) []byte {
	m := swaptypes.NewMsgDeposit(w.Addrs[0].String(), sdk.Coin{Denom: "bnb", Amount: sdkmath.ZeroInt()}, c("usdx", 5), d("0.5"), w.Time.Add(time.Hour).Unix())
	return w.Sign(tApp, 0, m)
}

func pickOwner(r *Rng, w *World, self sdk.AccAddress) sdk.AccAddress {
	if r.Chance(2, 3) {
		return self
	}
	return w.Addrs[r.Intn(NUsers)]
}

// GenBlock generates the next block's transactions against tApp's current (deliver) state.
// It must be called after BeginBlock of that block on tApp.
func (w *World) GenBlockTxs(r *Rng, tApp app.TestApp, n int) ([][]byte, []string) {
	return w.GenBlockTxsFiltered(r, tApp, n, false)
}

// GenBlockTxsFiltered is GenBlockTxs; with basicValidOnly it drops transactions whose
// message fails ValidateBasic (see the C01 known finding about re-opened nodes).
func (w *World) GenBlockTxsFiltered(r *Rng, tApp app.TestApp, n int, basicValidOnly bool) ([][]byte, []string) {
	w.basicValidOnly = basicValidOnly
	defer func() { w.basicValidOnly = false }()
	used := map[int]bool{}
	var txs [][]byte
	var descs []string
	for i := 0; i < n; i++ {
		bz, desc := w.GenTx(r, tApp, used)
		if bz == nil {
			continue
		}
		if r.Chance(1, 40) && !basicValidOnly { // malformed stream: corrupt the bytes
			bz = append([]byte{}, bz...)
			bz[len(bz)/2] ^= 0x55
			desc += "(corrupt)"
		}
		txs = append(txs, bz)
		descs = append(descs, desc)
	}
	return txs, descs
}

// NextGap draws a block-time gap: sub-second to multi-day.
func NextGap(r *Rng) time.Duration {
	switch r.Pick(30, 30, 20, 10, 5, 5) {
	case 0:
		return time.Duration(1+r.Intn(10)) * time.Second
	case 1:
		return time.Duration(1+r.Intn(30)) * time.Minute
	case 2:
		return time.Duration(1+r.Intn(12)) * time.Hour
	case 3:
		return time.Duration(1+r.Intn(1000)) * time.Millisecond
	case 4:
		return time.Duration(1+r.Intn(20)) * 24 * time.Hour
	default:
		return time.Duration(1 + r.Intn(1_000_000_000))
	}
}

// ---------------------------------------------------------------- block execution

type TxResult struct {
	Code      uint32 `json:"code"`
	Codespace string `json:"codespace"`
	GasUsed   int64  `json:"gas_used"`
	EventsSum string `json:"events"`
	Log       string `json:"log,omitempty"`
}

type BlockResult struct {
	Height    int64      `json:"height"`
	AppHash   string     `json:"app_hash"`
	BeginSum  string     `json:"begin_events"`
	EndSum    string     `json:"end_events"`
	ValUpdSum string     `json:"validator_updates"`
	Txs       []TxResult `json:"txs"`
	Panic     string     `json:"panic,omitempty"`
}

func eventsDigest(evs []abci.Event) string {
	h := sha256.New()
	for _, e := range evs {
		h.Write([]byte(e.Type))
		h.Write([]byte{0})
		for _, a := range e.Attributes {
			h.Write([]byte(a.Key))
			h.Write([]byte{1})
			h.Write([]byte(a.Value))
			h.Write([]byte{2})
		}
	}
	return hex.EncodeToString(h.Sum(nil))[:16]
}

// Begin runs BeginBlock of the block (height, t) and returns its events digest; panics are caught.
func Begin(tApp app.TestApp, height int64, t time.Time) (sum string, pnc string) {
	defer func() {
		if r := recover(); r != nil {
			pnc = fmt.Sprintf("BeginBlock panic: %v", r)
		}
	}()
	res := tApp.BeginBlock(abci.RequestBeginBlock{Header: tmproto.Header{Height: height, Time: t, ChainID: app.TestChainId}})
	return eventsDigest(res.Events), ""
}

// Deliver runs the transactions, EndBlock and Commit.
func Deliver(tApp app.TestApp, height int64, txs [][]byte) (out BlockResult) {
	out.Height = height
	defer func() {
		if r := recover(); r != nil {
			out.Panic = fmt.Sprintf("panic: %v", r)
		}
	}()
	for _, bz := range txs {
		r := tApp.DeliverTx(abci.RequestDeliverTx{Tx: bz})
		out.Txs = append(out.Txs, TxResult{Code: r.Code, Codespace: r.Codespace, GasUsed: r.GasUsed, EventsSum: eventsDigest(r.Events), Log: firstLine(r.Log, r.Code)})
	}
	eb := tApp.EndBlock(abci.RequestEndBlock{Height: height})
	out.EndSum = eventsDigest(eb.Events)
	var vu []string
	for _, v := range eb.ValidatorUpdates {
		vu = append(vu, fmt.Sprintf("%x:%d", v.PubKey.GetEd25519(), v.Power))
	}
	sort.Strings(vu)
	out.ValUpdSum = strings.Join(vu, ",")
	c := tApp.Commit()
	out.AppHash = hex.EncodeToString(c.Data)
	return out
}

func firstLine(s string, code uint32) string {
	if code == 0 {
		return ""
	}
	if i := strings.IndexByte(s, '\n'); i >= 0 {
		s = s[:i]
	}
	if len(s) > 160 {
		s = s[:160]
	}
	return s
}
