// Package world builds a multi-module Kava chain (genesis with cdp, hard, swap,
// savings, earn, bep3, pricefeed, incentive, committee, kavadist, community,
// issuance, liquid …) and generates blocks of signed transactions from a PRNG.
// Blocks are executed through the full ABCI cycle (BeginBlock / DeliverTx /
// EndBlock / Commit).  Shared by the C01, C02 and C14 drivers.
package world

import (
	authtypes "github.com/cosmos/cosmos-sdk/x/auth/types"
	. "kavaverif/lib"

	"crypto/sha256"
	"encoding/hex"
	"encoding/json"
	"fmt"
	"math/rand"
	"regexp"
	"sort"
	"strings"
	"time"

	sdkmath "cosmossdk.io/math"
	abci "github.com/cometbft/cometbft/abci/types"
	tmbytes "github.com/cometbft/cometbft/libs/bytes"
	tmproto "github.com/cometbft/cometbft/proto/tendermint/types"
	"github.com/cosmos/cosmos-sdk/client"
	"github.com/cosmos/cosmos-sdk/codec"
	cryptotypes "github.com/cosmos/cosmos-sdk/crypto/types"
	"github.com/cosmos/cosmos-sdk/testutil/sims"
	sdk "github.com/cosmos/cosmos-sdk/types"
	vestingtypes "github.com/cosmos/cosmos-sdk/x/auth/vesting/types"
	banktypes "github.com/cosmos/cosmos-sdk/x/bank/types"
	govv1 "github.com/cosmos/cosmos-sdk/x/gov/types/v1"
	govv1beta1 "github.com/cosmos/cosmos-sdk/x/gov/types/v1beta1"
	paramsproposal "github.com/cosmos/cosmos-sdk/x/params/types/proposal"
	stakingtypes "github.com/cosmos/cosmos-sdk/x/staking/types"
	upgradetypes "github.com/cosmos/cosmos-sdk/x/upgrade/types"

	"github.com/kava-labs/kava/app"
	auctiontypes "github.com/kava-labs/kava/x/auction/types"
	bep3types "github.com/kava-labs/kava/x/bep3/types"
	cdptypes "github.com/kava-labs/kava/x/cdp/types"
	committeetypes "github.com/kava-labs/kava/x/committee/types"
	communitytypes "github.com/kava-labs/kava/x/community/types"
	earntypes "github.com/kava-labs/kava/x/earn/types"
	hardtypes "github.com/kava-labs/kava/x/hard/types"
	incentivetypes "github.com/kava-labs/kava/x/incentive/types"
	issuancetypes "github.com/kava-labs/kava/x/issuance/types"
	kavadisttypes "github.com/kava-labs/kava/x/kavadist/types"
	liquidtypes "github.com/kava-labs/kava/x/liquid/types"
	precisebanktypes "github.com/kava-labs/kava/x/precisebank/types"
	pricefeedtypes "github.com/kava-labs/kava/x/pricefeed/types"
	savingstypes "github.com/kava-labs/kava/x/savings/types"
	swaptypes "github.com/kava-labs/kava/x/swap/types"
)

const (
	NUsers   = 6
	NOracles = 3
)

var Genesis0 = time.Date(2024, 3, 1, 12, 0, 0, 0, time.UTC)

// Config is the PRNG-chosen parameterisation of the genesis.
type Config struct {
	LiqRatioBnb     string
	LiqRatioXrp     string
	SwapFee         string
	StabilityFee    string
	BnbPrice        string
	XrpPrice        string
	KavaPrice       string
	HardLTV         string
	ReserveFactor   string
	KavadistActive  bool
	StakingRewards  string // community staking rewards per second
	IssuanceLimited bool
	// Wide, when set, widens the genesis (see config.go); nil reproduces the narrow legacy genesis.
	Wide *WideConfig `json:"wide,omitempty"`
}

func RandomConfig(r *Rng) Config {
	pick := func(xs ...string) string { return xs[r.Intn(len(xs))] }
	cfg := Config{
		LiqRatioBnb:     pick("1.5", "2.0", "1.25", "1.333333333333333333", "1.000000000000000001", "4.0"),
		LiqRatioXrp:     pick("1.5", "1.75", "2.25", "1.1"),
		SwapFee:         pick("0.003", "0", "0.0015", "0.01", "0.3", "0.9", "0.999999999999999999"),
		StabilityFee:    pick("1.000000001547125958", "1.0", "1.000000004431822130", "1.000000000782997", "1.000000012857214317", "1.000000051034942716"),
		BnbPrice:        pick("5.0", "12.5", "3.333333333333333333", "0.5"),
		XrpPrice:        pick("0.25", "0.5", "1.0", "0.337"),
		KavaPrice:       pick("2.0", "0.75", "1.234567890123456789"),
		HardLTV:         pick("0.6", "0.5", "0.8"),
		ReserveFactor:   pick("0.05", "0.0", "0.25"),
		KavadistActive:  r.Chance(2, 3),
		StakingRewards:  pick("0", "744191", "1000.5", "0.000000000000000001", "25000000"),
		IssuanceLimited: r.Chance(1, 2),
	}
	cfg.Wide = randomWide(r, &cfg)
	return cfg
}

// World is the generator-side view of one chain: keys, addresses and the
// primary replica used to read state while generating transactions.
type World struct {
	Cfg            Config
	Keys           []cryptotypes.PrivKey
	Addrs          []sdk.AccAddress // users 0..NUsers-1, then oracles, then deputy, then committee member
	Oracles        []int
	Deputy         int
	Member         int
	ValAddr        sdk.ValAddress
	GenState       app.GenesisState
	GenBytes       []byte
	Enc            sdk.TxEncoder
	TxCfg          client.TxConfig
	txr            *rand.Rand
	Swaps          []bep3Swap
	Height         int64
	Time           time.Time
	Counters       *Counters
	memoN          int
	basicValidOnly bool
	// ParamChanges makes the generator submit (and vote through) committee parameter-change
	// proposals for cdp, hard, incentive, pricefeed, auction, swap, kavadist and bep3 with VALID
	// values (the resulting full parameter set passes the module's Params.Validate).  Off by
	// default: the C01 / C14 drivers keep their transaction mix.
	ParamChanges bool
	// CommitteeTraffic adds text proposals to the deadline-tallied member committee (2) and the
	// token committee (3) and votes on them: proposals with votes stay pending until their deadline.
	CommitteeTraffic bool
	// MalformedParams adds the malformed stream (malformed.go) to the parameter-change proposals.
	MalformedParams bool
	// Malformed lists the malformed changes handed to the chain so far (MalformedStored).
	Malformed []MalformedRec
}

type bep3Swap struct {
	ID     tmbytes.HexBytes
	Secret tmbytes.HexBytes
	Sender int
}

type Block struct {
	Height int64     `json:"height"`
	Time   time.Time `json:"time"`
	Txs    [][]byte  `json:"-"`
	Descs  []string  `json:"txs"`
}

func d(s string) sdk.Dec                 { return sdk.MustNewDecFromStr(s) }
func c(denom string, amt int64) sdk.Coin { return sdk.NewInt64Coin(denom, amt) }
func cs(coins ...sdk.Coin) sdk.Coins     { return sdk.NewCoins(coins...) }

// NewWorld builds the genesis for a configuration.
func NewWorld(cfg Config, seed uint64, cnt *Counters) *World {
	keys, addrs := app.GeneratePrivKeyAddressPairs(NUsers + NOracles + 2)
	w := &World{Cfg: cfg, Keys: keys, Addrs: addrs, Deputy: NUsers + NOracles, Member: NUsers + NOracles + 1,
		txr: rand.New(rand.NewSource(int64(seed))), Counters: cnt}
	for i := 0; i < NOracles; i++ {
		w.Oracles = append(w.Oracles, NUsers+i)
	}
	return w
}

// BuildGenesis returns the genesis state for a given (fresh) app's codec.
func (w *World) BuildGenesis(cdc codec.JSONCodec) app.GenesisState {
	cfg := w.Cfg
	wd := cfg.Wide
	at := func(sec int64) time.Time { return Genesis0.Add(time.Duration(sec) * time.Second) }
	gs := app.GenesisState{}
	// ---- auth + bank
	ab := app.NewAuthBankGenesisBuilder()
	funds := cs(c("ukava", 5_000_000_000), c("bnb", 50_000_000_000), c("xrp", 80_000_000_000), c("usdx", 20_000_000_000),
		c("busd", 10_000_000_000), c("hard", 1_000_000_000), c("swp", 1_000_000_000))
	for i := 0; i < NUsers-1; i++ {
		ab.WithSimpleAccount(w.Addrs[i], funds)
	}
	// one periodic vesting user
	ab.WithSimplePeriodicVestingAccount(w.Addrs[NUsers-1], funds, vestingtypes.Periods{
		{Length: 3600, Amount: cs(c("ukava", 1_000_000_000), c("busd", 1_000_000_000))},
		{Length: 86400 * 30, Amount: cs(c("ukava", 2_000_000_000), c("busd", 3_000_000_000))},
	}, Genesis0.Unix())
	for _, o := range w.Oracles {
		ab.WithSimpleAccount(w.Addrs[o], cs(c("ukava", 1_000_000)))
	}
	ab.WithSimpleAccount(w.Addrs[w.Deputy], cs(c("ukava", 1_000_000), c("bnb", 1_000_000_000)))
	ab.WithSimpleAccount(w.Addrs[w.Member], cs(c("ukava", 1_000_000)))
	// incentive module needs reward coins; kavadist/community pools
	ab.WithSimpleModuleAccount(incentivetypes.IncentiveMacc, cs(c("hard", 1_000_000_000_000), c("swp", 1_000_000_000_000), c("ukava", 1_000_000_000_000)), "minter") // IncentiveMacc is the kavadist module account
	ab.WithSimpleModuleAccount(communitytypes.ModuleAccountName, cs(c("ukava", 50_000_000_000)))
	if wd != nil && len(wd.Fractional) > 0 {
		// precisebank: fractional balances, the remainder that completes them to whole ukava, and the reserve backing both
		conv := precisebanktypes.ConversionFactor()
		sum := sdkmath.ZeroInt()
		var fb precisebanktypes.FractionalBalances
		for i, f := range wd.Fractional {
			fb = append(fb, precisebanktypes.NewFractionalBalance(w.Addrs[i].String(), sdkmath.NewInt(f)))
			sum = sum.AddRaw(f)
		}
		rem := conv.Sub(sum.Mod(conv)).Mod(conv)
		reserve := sum.Add(rem).Quo(conv)
		pbGen := precisebanktypes.NewGenesisState(fb, rem)
		if err := pbGen.Validate(); err != nil {
			panic("world: generated precisebank genesis invalid: " + err.Error())
		}
		gs[precisebanktypes.ModuleName] = cdc.MustMarshalJSON(pbGen)
		ab.WithSimpleModuleAccount(precisebanktypes.ModuleName, cs(sdk.NewCoin("ukava", reserve)), "minter", "burner")
	}
	for k, v := range ab.BuildMarshalled(cdc) {
		gs[k] = v
	}
	// ---- pricefeed
	var oracles []sdk.AccAddress
	for _, o := range w.Oracles {
		oracles = append(oracles, w.Addrs[o])
	}
	mk := func(id, base string) pricefeedtypes.Market {
		return pricefeedtypes.Market{MarketID: id, BaseAsset: base, QuoteAsset: "usd", Oracles: oracles, Active: true}
	}
	far := Genesis0.Add(24 * 365 * time.Hour)
	post := func(id, p string) pricefeedtypes.PostedPrice {
		return pricefeedtypes.PostedPrice{MarketID: id, OracleAddress: oracles[0], Price: d(p), Expiry: far}
	}
	pf := pricefeedtypes.GenesisState{
		Params: pricefeedtypes.Params{Markets: []pricefeedtypes.Market{
			mk("bnb:usd", "bnb"), mk("xrp:usd", "xrp"), mk("kava:usd", "kava"), mk("usdx:usd", "usdx"), mk("busd:usd", "busd"),
		}},
		PostedPrices: []pricefeedtypes.PostedPrice{
			post("bnb:usd", cfg.BnbPrice), post("xrp:usd", cfg.XrpPrice), post("kava:usd", cfg.KavaPrice), post("usdx:usd", "1.0"), post("busd:usd", "1.0"),
		},
	}
	if wd != nil {
		pf.Params.Markets = append(pf.Params.Markets, mk("hard:usd", "hard"), mk("swp:usd", "swp"))
		pf.PostedPrices = append(pf.PostedPrices, post("hard:usd", "0.25"), post("swp:usd", "0.1"))
	}
	gs[pricefeedtypes.ModuleName] = cdc.MustMarshalJSON(&pf)
	// ---- cdp
	cp := func(denom, ctype, ratio, market string, cf int64) cdptypes.CollateralParam {
		return cdptypes.CollateralParam{
			Denom: denom, Type: ctype, LiquidationRatio: d(ratio), DebtLimit: c("usdx", 1_000_000_000_000),
			StabilityFee: d(cfg.StabilityFee), LiquidationPenalty: d("0.05"), AuctionSize: sdkmath.NewInt(50_000_000),
			SpotMarketID: market, LiquidationMarketID: market, KeeperRewardPercentage: d("0.01"),
			CheckCollateralizationIndexCount: sdkmath.NewInt(10), ConversionFactor: sdkmath.NewInt(cf),
		}
	}
	cdpParams := cdptypes.Params{
		GlobalDebtLimit: c("usdx", 2_000_000_000_000), SurplusAuctionThreshold: cdptypes.DefaultSurplusThreshold,
		SurplusAuctionLot: cdptypes.DefaultSurplusLot, DebtAuctionThreshold: cdptypes.DefaultDebtThreshold,
		DebtAuctionLot: cdptypes.DefaultDebtLot, LiquidationBlockInterval: 1,
		CollateralParams: cdptypes.CollateralParams{cp("bnb", "bnb-a", cfg.LiqRatioBnb, "bnb:usd", 8), cp("xrp", "xrp-a", cfg.LiqRatioXrp, "xrp:usd", 6)},
		DebtParam:        cdptypes.DebtParam{Denom: "usdx", ReferenceAsset: "usd", ConversionFactor: sdkmath.NewInt(6), DebtFloor: sdkmath.NewInt(10_000_000)},
	}
	if wd != nil {
		cdpParams.CollateralParams = nil
		total := int64(0)
		for _, cc := range wd.Collaterals {
			ratio, fee := cc.LiqRatio, cc.StabilityFee
			switch cc.Type { // the legacy fields stay authoritative for the two legacy types
			case "bnb-a":
				ratio, fee = cfg.LiqRatioBnb, cfg.StabilityFee
			case "xrp-a":
				ratio, fee = cfg.LiqRatioXrp, cfg.StabilityFee
			}
			cdpParams.CollateralParams = append(cdpParams.CollateralParams, cdptypes.CollateralParam{
				Denom: cc.Denom, Type: cc.Type, LiquidationRatio: d(ratio), DebtLimit: c("usdx", cc.DebtLimit),
				StabilityFee: d(fee), LiquidationPenalty: d(cc.Penalty), AuctionSize: sdkmath.NewInt(cc.AuctionSize),
				SpotMarketID: cc.Market, LiquidationMarketID: cc.Market, KeeperRewardPercentage: d(cc.KeeperReward),
				CheckCollateralizationIndexCount: sdkmath.NewInt(cc.CheckCount), ConversionFactor: sdkmath.NewInt(cc.ConvFactor),
			})
			total += cc.DebtLimit
		}
		cdpParams.GlobalDebtLimit = c("usdx", total+int64(len(wd.Collaterals)))
		cdpParams.SurplusAuctionThreshold, cdpParams.SurplusAuctionLot = sdkmath.NewInt(wd.SurplusThreshold), sdkmath.NewInt(wd.SurplusLot)
		cdpParams.DebtAuctionThreshold, cdpParams.DebtAuctionLot = sdkmath.NewInt(wd.DebtThreshold), sdkmath.NewInt(wd.DebtLot)
		cdpParams.LiquidationBlockInterval = wd.LiqInterval
		cdpParams.DebtParam.DebtFloor = sdkmath.NewInt(wd.DebtFloor)
	}
	if err := cdpParams.Validate(); err != nil {
		panic("world: generated cdp params invalid: " + err.Error())
	}
	cdpGen := cdptypes.GenesisState{
		Params:        cdpParams,
		StartingCdpID: cdptypes.DefaultCdpStartingID, DebtDenom: cdptypes.DefaultDebtDenom, GovDenom: cdptypes.DefaultGovDenom,
		CDPs: cdptypes.CDPs{},
	}
	for _, p := range cdpParams.CollateralParams {
		cdpGen.PreviousAccumulationTimes = append(cdpGen.PreviousAccumulationTimes, cdptypes.NewGenesisAccumulationTime(p.Type, time.Time{}, sdk.OneDec()))
		cdpGen.TotalPrincipals = append(cdpGen.TotalPrincipals, cdptypes.NewGenesisTotalPrincipal(p.Type, sdk.ZeroInt()))
	}
	gs[cdptypes.ModuleName] = cdc.MustMarshalJSON(&cdpGen)
	// ---- hard
	mm := func(denom, market string, cf int64) hardtypes.MoneyMarket {
		return hardtypes.NewMoneyMarket(denom, hardtypes.NewBorrowLimit(false, sdk.NewDec(1e15), d(cfg.HardLTV)), market, sdkmath.NewInt(cf),
			hardtypes.NewInterestRateModel(d("0.05"), d("2"), d("0.8"), d("10")), d(cfg.ReserveFactor), d("0.05"))
	}
	hardGen := hardtypes.DefaultGenesisState()
	hardGen.Params.MoneyMarkets = hardtypes.MoneyMarkets{mm("usdx", "usdx:usd", 1e6), mm("bnb", "bnb:usd", 1e8), mm("ukava", "kava:usd", 1e6), mm("busd", "busd:usd", 1e8)}
	hardGen.Params.MinimumBorrowUSDValue = d("0.000001")
	if wd != nil {
		hardGen.Params.MoneyMarkets = nil
		for _, m := range wd.HardMarkets {
			hardGen.Params.MoneyMarkets = append(hardGen.Params.MoneyMarkets, w.MoneyMarket(m))
		}
		hardGen.Params.MinimumBorrowUSDValue = d(wd.MinBorrowUSD)
	}
	if err := hardGen.Params.Validate(); err != nil {
		panic("world: generated hard params invalid: " + err.Error())
	}
	gs[hardtypes.ModuleName] = cdc.MustMarshalJSON(&hardGen)
	// ---- swap
	swapGen := swaptypes.DefaultGenesisState()
	pools := swaptypes.AllowedPools{swaptypes.NewAllowedPool("bnb", "usdx"), swaptypes.NewAllowedPool("ukava", "usdx")}
	if wd != nil {
		pools = nil
		for _, p := range wd.SwapPools {
			pools = append(pools, swaptypes.NewAllowedPool(p[0], p[1]))
		}
	}
	swapGen.Params = swaptypes.NewParams(pools, d(cfg.SwapFee))
	if err := swapGen.Params.Validate(); err != nil {
		panic("world: generated swap params invalid: " + err.Error())
	}
	gs[swaptypes.ModuleName] = cdc.MustMarshalJSON(&swapGen)
	// ---- savings
	savGen := savingstypes.DefaultGenesisState()
	savGen.Params.SupportedDenoms = []string{"ukava", "bkava", "busd"}
	if wd != nil {
		savGen.Params.SupportedDenoms = wd.SavingsDenoms
	}
	gs[savingstypes.ModuleName] = cdc.MustMarshalJSON(&savGen)
	// ---- earn
	earnGen := earntypes.DefaultGenesisState()
	earnGen.Params.AllowedVaults = earntypes.AllowedVaults{
		earntypes.NewAllowedVault("usdx", earntypes.StrategyTypes{earntypes.STRATEGY_TYPE_HARD}, false, nil),
		earntypes.NewAllowedVault("bkava", earntypes.StrategyTypes{earntypes.STRATEGY_TYPE_SAVINGS}, false, nil),
		earntypes.NewAllowedVault("busd", earntypes.StrategyTypes{earntypes.STRATEGY_TYPE_SAVINGS}, false, nil),
	}
	if wd != nil {
		earnGen.Params.AllowedVaults = nil
		for _, v := range w.EarnVaults() {
			var dep []sdk.AccAddress
			if v.Private {
				dep = []sdk.AccAddress{w.Addrs[0], w.Addrs[2]}
			}
			earnGen.Params.AllowedVaults = append(earnGen.Params.AllowedVaults, earntypes.NewAllowedVault(v.Denom, earntypes.StrategyTypes{v.Strategy}, v.Private, dep))
		}
	}
	if err := earnGen.Params.Validate(); err != nil {
		panic("world: generated earn params invalid: " + err.Error())
	}
	gs[earntypes.ModuleName] = cdc.MustMarshalJSON(&earnGen)
	// ---- bep3
	asset := bep3types.AssetParam{
		Denom: "bnb", CoinID: 714,
		SupplyLimit: bep3types.SupplyLimit{Limit: sdkmath.NewInt(350_000_000_000_000), TimeLimited: true, TimeBasedLimit: sdkmath.NewInt(50_000_000_000), TimePeriod: time.Hour},
		Active:      true, DeputyAddress: w.Addrs[w.Deputy], FixedFee: sdkmath.NewInt(1000), MinSwapAmount: sdkmath.NewInt(1001),
		MaxSwapAmount: sdkmath.NewInt(1_000_000_000_000), MinBlockLock: 3, MaxBlockLock: 12,
	}
	if wd != nil {
		b := wd.Bep3
		asset.SupplyLimit = bep3types.SupplyLimit{Limit: sdkmath.NewInt(b.Limit), TimeLimited: b.TimeLimited, TimeBasedLimit: sdkmath.NewInt(b.TimeLimit), TimePeriod: time.Duration(b.PeriodSec) * time.Second}
		asset.FixedFee, asset.MinSwapAmount, asset.MaxSwapAmount = sdkmath.NewInt(b.FixedFee), sdkmath.NewInt(b.MinSwap), sdkmath.NewInt(b.MaxSwap)
		asset.MinBlockLock, asset.MaxBlockLock = b.MinLock, b.MaxLock
	}
	bep3Gen := bep3types.GenesisState{
		Params:            bep3types.Params{AssetParams: bep3types.AssetParams{asset}},
		Supplies:          bep3types.AssetSupplies{bep3types.NewAssetSupply(c("bnb", 0), c("bnb", 0), c("bnb", 0), c("bnb", 0), time.Duration(0))},
		PreviousBlockTime: bep3types.DefaultPreviousBlockTime,
	}
	if err := bep3Gen.Params.Validate(); err != nil {
		panic("world: generated bep3 params invalid: " + err.Error())
	}
	gs[bep3types.ModuleName] = cdc.MustMarshalJSON(&bep3Gen)
	// ---- incentive
	rpStart := Genesis0.Add(10 * time.Minute)
	rpEnds := make([]time.Time, 7)
	for i := range rpEnds {
		rpEnds[i] = Genesis0.Add(400 * 24 * time.Hour)
	}
	claimEnd := Genesis0.Add(500 * 24 * time.Hour)
	if wd != nil {
		rpStart = at(wd.IncentiveStart)
		for i := range rpEnds {
			rpEnds[i] = at(wd.IncentiveEnds[i])
		}
		claimEnd = at(wd.ClaimEndSec)
	}
	mrp := func(class int, ctype string, coins ...sdk.Coin) incentivetypes.MultiRewardPeriod {
		return incentivetypes.NewMultiRewardPeriod(true, ctype, rpStart, rpEnds[class], cs(coins...))
	}
	mult := incentivetypes.MultipliersPerDenoms{
		{Denom: "hard", Multipliers: incentivetypes.Multipliers{incentivetypes.NewMultiplier("small", 1, d("0.25")), incentivetypes.NewMultiplier("large", 12, d("1.0"))}},
		{Denom: "swp", Multipliers: incentivetypes.Multipliers{incentivetypes.NewMultiplier("small", 1, d("0.25")), incentivetypes.NewMultiplier("large", 12, d("1.0"))}},
		{Denom: "ukava", Multipliers: incentivetypes.Multipliers{incentivetypes.NewMultiplier("small", 1, d("0.2")), incentivetypes.NewMultiplier("large", 12, d("1.0"))}},
	}
	usdxPeriods := incentivetypes.RewardPeriods{incentivetypes.NewRewardPeriod(true, "bnb-a", rpStart, rpEnds[0], c("ukava", 122354))}
	if wd != nil {
		for i, cc := range wd.Collaterals {
			if cc.Type != "bnb-a" && i%2 == 0 {
				usdxPeriods = append(usdxPeriods, incentivetypes.NewRewardPeriod(true, cc.Type, rpStart, rpEnds[0], c("ukava", 9973)))
			}
		}
	}
	earnPeriods := incentivetypes.MultiRewardPeriods{mrp(6, "usdx", c("hard", 901))}
	if wd != nil && wd.BkavaEarnRate > 0 {
		// the aggregate period for every bkava-<validator> earn vault: the incentive begin blocker then
		// collects the liquid module account's staking rewards for each derivative vault it knows
		earnPeriods = append(earnPeriods, mrp(6, "bkava", c("ukava", wd.BkavaEarnRate)))
	}
	incParams := incentivetypes.NewParams(
		usdxPeriods,
		incentivetypes.MultiRewardPeriods{mrp(1, "bnb", c("hard", 31234)), mrp(1, "usdx", c("hard", 1000), c("swp", 77))},
		incentivetypes.MultiRewardPeriods{mrp(2, "usdx", c("hard", 5321))},
		incentivetypes.MultiRewardPeriods{mrp(3, "ukava", c("hard", 2111), c("swp", 9))},
		incentivetypes.MultiRewardPeriods{mrp(4, "bnb:usdx", c("swp", 44123))},
		incentivetypes.MultiRewardPeriods{mrp(5, "busd", c("hard", 17))},
		earnPeriods,
		mult, claimEnd,
	)
	if wd != nil {
		// NewParams ignores its earn argument (x/incentive/types/params.go): set the field
		incParams.EarnRewardPeriods = earnPeriods
	}
	if err := incParams.Validate(); err != nil {
		panic("world: generated incentive params invalid: " + err.Error())
	}
	incGen := incentivetypes.DefaultGenesisState()
	incGen.Params = incParams
	gs[incentivetypes.ModuleName] = cdc.MustMarshalJSON(&incGen)
	// ---- committee: a member committee that may change cdp / hard params, FPTP; a second one that
	// proposals may delete or change (a proposal valid at submission can fail at enactment)
	propDur := 7 * 24 * time.Hour
	if wd != nil {
		propDur = time.Duration(wd.ProposalDurSec) * time.Second
	}
	com := committeetypes.MustNewMemberCommittee(1, "params committee", []sdk.AccAddress{w.Addrs[w.Member], w.Addrs[0]},
		[]committeetypes.Permission{&committeetypes.GodPermission{}}, d("0.5"), propDur, committeetypes.TALLY_OPTION_FIRST_PAST_THE_POST)
	coms := []committeetypes.Committee{com}
	if wd != nil {
		coms = append(coms, committeetypes.MustNewMemberCommittee(2, "text committee", []sdk.AccAddress{w.Addrs[1], w.Addrs[2], w.Addrs[3]},
			[]committeetypes.Permission{&committeetypes.TextPermission{}}, d("0.667"), propDur, committeetypes.TALLY_OPTION_DEADLINE))
	}
	if wd != nil && wd.TokenCommitteeDurSec > 0 {
		// a token committee (votes weighted by the hard balance of any account, tallied at the deadline)
		coms = append(coms, committeetypes.MustNewTokenCommittee(3, "token committee", []sdk.AccAddress{w.Addrs[4], w.Addrs[5]},
			[]committeetypes.Permission{&committeetypes.TextPermission{}}, d("0.5"), time.Duration(wd.TokenCommitteeDurSec)*time.Second,
			committeetypes.TALLY_OPTION_DEADLINE, d(wd.TokenCommitteeQuorum), "hard"))
	}
	comGen := committeetypes.NewGenesisState(1, coms, committeetypes.Proposals{}, []committeetypes.Vote{})
	gs[committeetypes.ModuleName] = cdc.MustMarshalJSON(comGen)
	// ---- kavadist
	kdGen := kavadisttypes.DefaultGenesisState()
	kdGen.Params = kavadisttypes.Params{Active: cfg.KavadistActive,
		Periods: []kavadisttypes.Period{
			{Start: Genesis0.Add(30 * time.Minute), End: Genesis0.Add(3 * time.Hour), Inflation: d("1.000000002293273137")},
			{Start: Genesis0.Add(5 * time.Hour), End: Genesis0.Add(300 * 24 * time.Hour), Inflation: d("1.000000001547125958")},
		},
		InfrastructureParams: kavadisttypes.DefaultInfraParams,
	}
	if wd != nil {
		kdGen.Params.Periods = nil
		for _, p := range wd.KavadistPeriods {
			kdGen.Params.Periods = append(kdGen.Params.Periods, kavadisttypes.Period{Start: at(p.StartSec), End: at(p.EndSec), Inflation: d(p.Inflation)})
		}
		var infra kavadisttypes.InfrastructureParams
		for _, p := range wd.InfraPeriods {
			infra.InfrastructurePeriods = append(infra.InfrastructurePeriods, kavadisttypes.Period{Start: at(p.StartSec), End: at(p.EndSec), Inflation: d(p.Inflation)})
		}
		for i, rate := range wd.PartnerRates {
			infra.PartnerRewards = append(infra.PartnerRewards, kavadisttypes.NewPartnerReward(w.Addrs[2+i], c("ukava", rate)))
		}
		for i, wt := range wd.CoreWeights {
			infra.CoreRewards = append(infra.CoreRewards, kavadisttypes.NewCoreReward(w.Addrs[(4+i)%NUsers], d(wt)))
		}
		kdGen.Params.InfrastructureParams = infra
	}
	if err := kdGen.Params.Validate(); err != nil {
		panic("world: generated kavadist params invalid: " + err.Error())
	}
	kdGen.PreviousBlockTime = Genesis0
	gs[kavadisttypes.ModuleName] = cdc.MustMarshalJSON(kdGen)
	// ---- community
	comm := communitytypes.DefaultGenesisState()
	comm.Params.UpgradeTimeDisableInflation = Genesis0.Add(6 * time.Hour)
	comm.Params.StakingRewardsPerSecond = d(cfg.StakingRewards)
	comm.Params.UpgradeTimeSetStakingRewardsPerSecond = d("500.25")
	if wd != nil {
		comm.Params.UpgradeTimeDisableInflation = at(wd.DisableInflSec)
		comm.Params.UpgradeTimeSetStakingRewardsPerSecond = d(wd.UpgradeStakingRw)
	}
	if err := comm.Params.Validate(); err != nil {
		panic("world: generated community params invalid: " + err.Error())
	}
	gs[communitytypes.ModuleName] = cdc.MustMarshalJSON(&comm)
	// ---- issuance
	issGen := issuancetypes.DefaultGenesisState()
	issGen.Params.Assets = []issuancetypes.Asset{issuancetypes.NewAsset(w.Addrs[1].String(), "busd", []string{w.Addrs[4].String()}, false, true,
		func() issuancetypes.RateLimit {
			if cfg.IssuanceLimited {
				return issuancetypes.NewRateLimit(true, sdkmath.NewInt(5_000_000_000), 24*time.Hour)
			}
			return issuancetypes.NewRateLimit(false, sdk.ZeroInt(), time.Duration(0))
		}())}
	issGen.Supplies = []issuancetypes.AssetSupply{issuancetypes.NewAssetSupply(c("busd", 0), time.Duration(0))}
	gs[issuancetypes.ModuleName] = cdc.MustMarshalJSON(&issGen)
	// ---- auction
	aucGen := auctiontypes.DefaultGenesisState()
	aucGen.Params.ForwardBidDuration = 20 * time.Minute
	aucGen.Params.ReverseBidDuration = 10 * time.Minute
	aucGen.Params.MaxAuctionDuration = 2 * time.Hour
	if wd != nil {
		aucGen.Params.ForwardBidDuration = time.Duration(wd.AuctionFwdSec) * time.Second
		aucGen.Params.ReverseBidDuration = time.Duration(wd.AuctionRevSec) * time.Second
		aucGen.Params.MaxAuctionDuration = time.Duration(wd.AuctionMaxSec) * time.Second
		aucGen.Params.IncrementSurplus, aucGen.Params.IncrementDebt, aucGen.Params.IncrementCollateral = d(wd.IncSurplus), d(wd.IncDebt), d(wd.IncCollateral)
	}
	if err := aucGen.Params.Validate(); err != nil {
		panic("world: generated auction params invalid: " + err.Error())
	}
	gs[auctiontypes.ModuleName] = cdc.MustMarshalJSON(aucGen)
	w.GenState = gs
	return gs
}

// MoneyMarket builds the hard money market of a market configuration (empty LTV / reserve
// factor fall back to the legacy common fields).
func (w *World) MoneyMarket(m MarketCfg) hardtypes.MoneyMarket {
	ltv, rf := m.LTV, m.ReserveFactor
	if ltv == "" {
		ltv = w.Cfg.HardLTV
	}
	if rf == "" {
		rf = w.Cfg.ReserveFactor
	}
	return hardtypes.NewMoneyMarket(m.Denom, hardtypes.NewBorrowLimit(m.HasMaxLimit, d(m.MaxLimitUSD), d(ltv)), m.Market, sdkmath.NewInt(m.ConvFactor),
		hardtypes.NewInterestRateModel(d(m.IRM[0]), d(m.IRM[1]), d(m.IRM[2]), d(m.IRM[3])), d(rf), d(m.KeeperReward))
}

// VaultCfg is one earn vault of the configuration.
type VaultCfg struct {
	Denom    string
	Strategy earntypes.StrategyType
	Private  bool
}

// EarnVaults decodes the configured earn vault set.
func (w *World) EarnVaults() []VaultCfg {
	names := []string{"usdx:hard", "bkava:savings", "busd:savings"}
	if w.Cfg.Wide != nil {
		names = w.Cfg.Wide.EarnVaults
	}
	var out []VaultCfg
	for _, n := range names {
		p := strings.Split(n, ":")
		v := VaultCfg{Denom: p[0], Strategy: earntypes.STRATEGY_TYPE_HARD, Private: len(p) > 2}
		if p[1] == "savings" {
			v.Strategy = earntypes.STRATEGY_TYPE_SAVINGS
		}
		out = append(out, v)
	}
	return out
}

// CollateralTypes returns the configured (collateral type, denom) pairs.
func (w *World) CollateralTypes() (types []string, denomOf map[string]string) {
	denomOf = map[string]string{"bnb-a": "bnb", "xrp-a": "xrp"}
	types = []string{"bnb-a", "xrp-a"}
	if w.Cfg.Wide != nil {
		types, denomOf = nil, map[string]string{}
		for _, cc := range w.Cfg.Wide.Collaterals {
			types = append(types, cc.Type)
			denomOf[cc.Type] = cc.Denom
		}
	}
	return
}

// HardDenoms returns the denoms of the configured hard money markets.
func (w *World) HardDenoms() []string {
	if w.Cfg.Wide == nil {
		return []string{"usdx", "bnb", "ukava", "busd"}
	}
	var out []string
	for _, m := range w.Cfg.Wide.HardMarkets {
		out = append(out, m.Denom)
	}
	return out
}

// SwapPools returns the configured swap pools.
func (w *World) SwapPools() [][2]string {
	if w.Cfg.Wide == nil {
		return [][2]string{{"bnb", "usdx"}, {"ukava", "usdx"}}
	}
	return w.Cfg.Wide.SwapPools
}

// GenesisBytes returns the complete genesis (all modules, with one validator) as JSON.
// The validator key of the test helper is random, so the bytes are produced once per
// history and shared by all replicas.
func (w *World) GenesisBytes(tApp app.TestApp) []byte {
	if w.GenBytes != nil {
		return w.GenBytes
	}
	gs := app.NewDefaultGenesisState()
	for k, v := range w.BuildGenesis(tApp.AppCodec()) {
		gs[k] = v
	}
	gs = app.GenesisStateWithSingleValidator(&tApp, gs)
	bz, err := json.Marshal(gs)
	if err != nil {
		panic(err)
	}
	w.GenBytes = bz
	return bz
}

// StartFrom initialises an app from genesis bytes and leaves it at the beginning of
// block 2 (block 1 committed, BeginBlock of block 2 done) — the same sequence as
// app.TestApp.InitializeFromGenesisStates.
func (w *World) StartFrom(tApp app.TestApp, genesis []byte, t0 time.Time) app.TestApp {
	tApp.InitChain(abci.RequestInitChain{
		Time: t0, Validators: []abci.ValidatorUpdate{}, AppStateBytes: genesis, ChainId: app.TestChainId,
		ConsensusParams: &tmproto.ConsensusParams{Block: &tmproto.BlockParams{MaxBytes: 200000, MaxGas: 20000000}},
		InitialHeight:   1,
	})
	tApp.Commit()
	tApp.BeginBlock(abci.RequestBeginBlock{Header: tmproto.Header{Height: tApp.LastBlockHeight() + 1, Time: t0, ChainID: app.TestChainId}})
	w.Height, w.Time = tApp.LastBlockHeight()+1, t0
	if w.ValAddr == nil {
		ctx := tApp.NewContext(false, tmproto.Header{Height: w.Height, Time: t0})
		vals := tApp.GetStakingKeeper().GetAllValidators(ctx)
		w.ValAddr = vals[0].GetOperator()
	}
	if w.TxCfg == nil {
		w.TxCfg = app.MakeEncodingConfig().TxConfig
	}
	w.Enc = w.TxCfg.TxEncoder()
	return tApp
}

// Start initialises an app from the world's genesis.
func (w *World) Start(tApp app.TestApp) app.TestApp {
	return w.StartFrom(tApp, w.GenesisBytes(tApp), Genesis0)
}

// ---------------------------------------------------------------- transactions

func (w *World) Sign(tApp app.TestApp, signer int, msgs ...sdk.Msg) []byte {
	if w.basicValidOnly {
		for _, m := range msgs {
			if m.ValidateBasic() != nil {
				return nil
			}
		}
	}
	ctx := tApp.NewContext(false, tmproto.Header{Height: w.Height, Time: w.Time})
	acc := tApp.GetAccountKeeper().GetAccount(ctx, w.Addrs[signer])
	var num, seq uint64
	if acc != nil {
		num, seq = acc.GetAccountNumber(), acc.GetSequence()
	}
	tx, err := sims.GenSignedMockTx(w.txr, w.TxCfg, msgs, sdk.NewCoins(), 5_000_000, app.TestChainId,
		[]uint64{num}, []uint64{seq}, w.Keys[signer])
	if err != nil {
		panic(err)
	}
	bz, err := w.Enc(tx)
	if err != nil {
		panic(err)
	}
	return bz
}

func amt(r *Rng, max int64) int64 {
	switch r.Pick(3, 3, 2, 1) {
	case 0:
		return 1 + r.Int63n(max)
	case 1:
		return 1 + r.Int63n(max/100+1)
	case 2:
		p := int64(1)
		for i := r.Intn(10); i > 0; i-- {
			p *= 10
		}
		return p + int64(r.Intn(3)) - 1 + 1
	default:
		return int64(r.Intn(4))
	}
}

// GenTx generates one signed transaction (valid or not) against the current state of tApp.
// pending tracks signers already used in this block (their sequence would be stale).
func (w *World) GenTx(r *Rng, tApp app.TestApp, used map[int]bool) ([]byte, string) {
	var u int
	for tries := 0; ; tries++ {
		u = r.Intn(NUsers)
		if !used[u] || tries > 20 {
			break
		}
	}
	if used[u] {
		return nil, ""
	}
	used[u] = true
	A := w.Addrs[u]
	other := w.Addrs[(u+1+r.Intn(NUsers-1))%NUsers]
	ctx := tApp.NewContext(false, tmproto.Header{Height: w.Height, Time: w.Time})
	dl := w.Time.Add(time.Hour).Unix()
	ctypes, cdenom := w.CollateralTypes()
	ct := ctypes[r.Intn(len(ctypes))]
	hardDenoms := w.HardDenoms()
	hdn := func() string { return hardDenoms[r.Intn(len(hardDenoms))] }
	pools := w.SwapPools()
	var msg sdk.Msg
	var desc string
	// prefer positions that exist: the user's own CDP type for cdp messages
	var myCdps, allCdps cdptypes.CDPs
	cdpsLoaded := false
	loadCdps := func() {
		if cdpsLoaded {
			return
		}
		cdpsLoaded = true
		allCdps = tApp.GetCDPKeeper().GetAllCdps(ctx)
		for _, x := range allCdps {
			if x.Owner.Equals(A) {
				myCdps = append(myCdps, x)
			}
		}
	}
	ownCt := func() {
		loadCdps()
		if len(myCdps) > 0 && r.Chance(4, 5) {
			ct = myCdps[r.Intn(len(myCdps))].Type
		}
	}
	cdpOwner := func() sdk.AccAddress { // owner of the CDP to deposit to / withdraw from
		loadCdps()
		if r.Chance(2, 3) || len(allCdps) == 0 {
			ownCt()
			return A
		}
		x := allCdps[r.Intn(len(allCdps))]
		ct = x.Type
		return x.Owner
	}
	kind := r.Pick(6, 10, 4, 4, 5, 5, 3, 8, 8, 5, 4, 6, 4, 3, 3, 4, 4, 3, 4, 8, 3, 3, 2, 2, 4, 2)
	if w.ParamChanges && r.Chance(1, 14) {
		delete(used, u)
		return w.genParamChange(r, tApp, ctx, used)
	}
	if w.CommitteeTraffic && w.Cfg.Wide != nil && r.Chance(1, 9) {
		delete(used, u)
		return w.genCommitteeTraffic(r, tApp, ctx, used)
	}
	switch kind {
	case 0:
		to, d := other, "bank.send"
		if r.Chance(1, 4) {
			// a plain transfer addressed to a module account: refused for every module account that is
			// not explicitly allowed to receive funds (app.go loadBlockedMaccAddrs) — an accepted one
			// puts coins into a module account behind the module's back (its solvency invariant breaks)
			names := make([]string, 0, len(app.GetMaccPerms()))
			for n := range app.GetMaccPerms() {
				names = append(names, n)
			}
			sort.Strings(names)
			n := names[r.Intn(len(names))]
			to, d = authtypes.NewModuleAddress(n), "bank.send.to-module:"+n
		}
		m := banktypes.NewMsgSend(A, to, cs(c([]string{"ukava", "bnb", "usdx", "xrp"}[r.Intn(4)], amt(r, 1_000_000_000))))
		msg, desc = m, d
	case 1:
		bal := tApp.GetBankKeeper().GetBalance(ctx, A, cdenom[ct]).Amount
		max := int64(20_000_000_000)
		if bal.IsInt64() && bal.Int64() > 0 && bal.Int64() < max {
			max = bal.Int64()
		}
		col := amt(r, max)
		floor := tApp.GetCDPKeeper().GetParams(ctx).DebtParam.DebtFloor.Int64()
		debt := floor + amt(r, 2_000_000_000)
		if r.Chance(1, 2) { // close to the liquidation boundary: a later price move liquidates it
			if lim, ok := w.maxDebt(tApp, ctx, ct, col); ok {
				debt = lim * int64(70+r.Intn(31)) / 100
				if r.Chance(1, 4) {
					debt = lim + int64(r.Intn(3)) - 1
				}
				if debt < floor && r.Chance(3, 4) {
					debt = floor
				}
			}
		}
		if debt <= 0 {
			debt = 1
		}
		m := cdptypes.NewMsgCreateCDP(A, c(cdenom[ct], col), c("usdx", debt), ct)
		msg, desc = &m, "cdp.create"
	case 2:
		owner := cdpOwner()
		if r.Chance(1, 10) {
			owner = pickOwner(r, w, A)
		}
		m := cdptypes.NewMsgDeposit(owner, A, c(cdenom[ct], amt(r, 5_000_000_000)), ct)
		msg, desc = &m, "cdp.deposit"
	case 3:
		owner := cdpOwner()
		if r.Chance(1, 10) {
			owner = pickOwner(r, w, A)
		}
		a := amt(r, 5_000_000_000)
		if cdp, ok := tApp.GetCDPKeeper().GetCdpByOwnerAndCollateralType(ctx, owner, ct); ok && r.Chance(1, 2) {
			if dep, ok := tApp.GetCDPKeeper().GetDeposit(ctx, cdp.ID, A); ok {
				a = dep.Amount.Amount.Int64() - int64(r.Intn(2)) // the whole deposit, or all but one unit
			}
		}
		if a <= 0 {
			a = 1
		}
		m := cdptypes.NewMsgWithdraw(owner, A, c(cdenom[ct], a), ct)
		msg, desc = &m, "cdp.withdraw"
	case 4:
		ownCt()
		a := amt(r, 1_000_000_000)
		if cdp, ok := tApp.GetCDPKeeper().GetCdpByOwnerAndCollateralType(ctx, A, ct); ok && r.Chance(1, 2) {
			if lim, ok := w.maxDebt(tApp, ctx, ct, cdp.Collateral.Amount.Int64()); ok { // up to the liquidation boundary
				room := lim - cdp.GetTotalPrincipal().Amount.Int64()
				if room > 0 {
					a = room - int64(r.Intn(3))
					if r.Chance(1, 2) {
						a = 1 + r.Int63n(room)
					}
				}
			}
		}
		if a <= 0 {
			a = 1
		}
		m := cdptypes.NewMsgDrawDebt(A, ct, c("usdx", a))
		msg, desc = &m, "cdp.draw"
	case 5:
		ownCt()
		a := amt(r, 3_000_000_000)
		if cdp, ok := tApp.GetCDPKeeper().GetCdpByOwnerAndCollateralType(ctx, A, ct); ok && r.Chance(1, 2) {
			a = cdp.GetTotalPrincipal().Amount.Int64() + int64(r.Intn(3)) - 1 // exact debt, one less, one more
		}
		if a <= 0 {
			a = 1
		}
		m := cdptypes.NewMsgRepayDebt(A, ct, c("usdx", a))
		msg, desc = &m, "cdp.repay"
	case 6:
		target, tct := other, ct
		if cdps := tApp.GetCDPKeeper().GetAllCdps(ctx); len(cdps) > 0 && r.Chance(3, 4) { // an existing position
			x := cdps[r.Intn(len(cdps))]
			target, tct = x.Owner, x.Type
		}
		m := cdptypes.NewMsgLiquidate(A, target, tct)
		msg, desc = &m, "cdp.liquidate"
	case 7:
		dn := hdn()
		m := hardtypes.NewMsgDeposit(A, cs(c(dn, amt(r, 5_000_000_000))))
		msg, desc = &m, "hard.deposit"
	case 8:
		dn := hdn()
		if _, ok := tApp.GetHardKeeper().GetDeposit(ctx, A); !ok && r.Chance(4, 5) { // nothing to borrow against yet
			m := hardtypes.NewMsgDeposit(A, cs(c(dn, amt(r, 5_000_000_000))))
			msg, desc = &m, "hard.deposit"
			break
		}
		a := amt(r, 2_000_000_000)
		if r.Chance(1, 2) { // within the module's cash
			cash := tApp.GetBankKeeper().GetBalance(ctx, tApp.GetAccountKeeper().GetModuleAddress(hardtypes.ModuleName), dn).Amount
			if cash.IsInt64() && cash.Int64() > 0 {
				a = 1 + r.Int63n(cash.Int64())
				if r.Chance(1, 2) {
					a = 1 + a/int64(1+r.Intn(50))
				}
			}
		}
		if r.Chance(3, 4) { // the largest amount the keeper would accept (bisection), then close to it: a price move makes it liquidatable
			cctx, _ := ctx.CacheContext()
			okAmt := func(x int64) bool {
				if x <= 0 {
					return false
				}
				ok := false
				func() {
					defer func() { _ = recover() }()
					ok = tApp.GetHardKeeper().ValidateBorrow(cctx, A, cs(c(dn, x))) == nil
				}()
				return ok
			}
			lo, hi := int64(0), a
			if okAmt(hi) {
				lo = hi
			} else {
				for i := 0; i < 12 && hi-lo > 1; i++ {
					mid := lo + (hi-lo)/2
					if okAmt(mid) {
						lo = mid
					} else {
						hi = mid
					}
				}
			}
			if lo > 0 {
				a = lo
				if r.Chance(1, 2) {
					a = 1 + lo*int64(50+r.Intn(51))/100
				}
			}
		}
		m := hardtypes.NewMsgBorrow(A, cs(c(dn, a)))
		msg, desc = &m, "hard.borrow"
	case 9:
		dn := hdn()
		if r.Chance(1, 2) {
			a := amt(r, 5_000_000_000)
			if dep, ok := tApp.GetHardKeeper().GetDeposit(ctx, A); ok && len(dep.Amount) > 0 && r.Chance(4, 5) { // a denom actually deposited
				dn = dep.Amount[r.Intn(len(dep.Amount))].Denom
			}
			if dep, ok := tApp.GetHardKeeper().GetSyncedDeposit(ctx, A); ok && r.Chance(1, 2) && dep.Amount.AmountOf(dn).IsPositive() {
				a = dep.Amount.AmountOf(dn).Int64() + int64(r.Intn(3)) - 1
			}
			if a <= 0 {
				a = 1
			}
			m := hardtypes.NewMsgWithdraw(A, cs(c(dn, a)))
			msg, desc = &m, "hard.withdraw"
		} else {
			owner := pickOwner(r, w, A)
			if r.Chance(4, 5) { // an existing borrow, preferably the signer's own
				var bs []hardtypes.Borrow
				tApp.GetHardKeeper().IterateBorrows(ctx, func(b hardtypes.Borrow) bool { bs = append(bs, b); return false })
				for _, b := range bs {
					if b.Borrower.Equals(A) && r.Chance(3, 4) {
						bs = []hardtypes.Borrow{b}
						break
					}
				}
				if len(bs) > 0 {
					b := bs[r.Intn(len(bs))]
					owner = b.Borrower
					if len(b.Amount) > 0 {
						dn = b.Amount[r.Intn(len(b.Amount))].Denom
					}
				}
			}
			a := amt(r, 2_000_000_000)
			if bor, ok := tApp.GetHardKeeper().GetSyncedBorrow(ctx, owner); ok && r.Chance(1, 2) && bor.Amount.AmountOf(dn).IsPositive() {
				a = bor.Amount.AmountOf(dn).Int64() + int64(r.Intn(3)) - 1
			}
			if a <= 0 {
				a = 1
			}
			m := hardtypes.NewMsgRepay(A, owner, cs(c(dn, a)))
			msg, desc = &m, "hard.repay"
		}
	case 10:
		target := other
		if r.Chance(3, 4) { // an existing borrower
			var bs []sdk.AccAddress
			tApp.GetHardKeeper().IterateBorrows(ctx, func(b hardtypes.Borrow) bool { bs = append(bs, b.Borrower); return false })
			if len(bs) > 0 {
				target = bs[r.Intn(len(bs))]
			}
		}
		m := hardtypes.NewMsgLiquidate(A, target)
		msg, desc = &m, "hard.liquidate"
	case 11:
		pair := pools[r.Intn(len(pools))]
		msg = swaptypes.NewMsgDeposit(A.String(), c(pair[0], amt(r, 2_000_000_000)), c(pair[1], amt(r, 2_000_000_000)), d([]string{"1.0", "0.5", "0.01"}[r.Intn(3)]), dl)
		desc = "swap.deposit"
	case 12:
		pair := pools[r.Intn(len(pools))]
		if r.Chance(1, 2) {
			pair[0], pair[1] = pair[1], pair[0]
		}
		if r.Chance(1, 2) {
			msg = swaptypes.NewMsgSwapExactForTokens(A.String(), c(pair[0], amt(r, 100_000_000)), c(pair[1], 1), d("0.99"), dl)
			desc = "swap.exactfor"
		} else {
			msg = swaptypes.NewMsgSwapForExactTokens(A.String(), c(pair[0], amt(r, 500_000_000)), c(pair[1], amt(r, 50_000_000)), d("0.99"), dl)
			desc = "swap.forexact"
		}
	case 13:
		pair := pools[r.Intn(len(pools))]
		sh := sdkmath.NewInt(amt(r, 1_000_000_000))
		if rec, ok := tApp.GetSwapKeeper().GetDepositorShares(ctx, A, swaptypes.PoolID(pair[0], pair[1])); ok && r.Chance(1, 2) {
			sh = rec.SharesOwned.SubRaw(int64(r.Intn(2)))
			if !sh.IsPositive() {
				sh = sdkmath.OneInt()
			}
		}
		msg = swaptypes.NewMsgWithdraw(A.String(), sh, c(pair[0], 1), c(pair[1], 1), dl)
		desc = "swap.withdraw"
	case 14:
		dn := []string{"ukava", "busd"}[r.Intn(2)]
		if w.Cfg.Wide != nil && r.Chance(1, 3) {
			dn = w.Cfg.Wide.SavingsDenoms[r.Intn(len(w.Cfg.Wide.SavingsDenoms))]
			if dn == "bkava" {
				dn = "bkava-" + w.ValAddr.String()
			}
		}
		if r.Chance(2, 3) {
			a := amt(r, 1_000_000_000)
			if strings.HasPrefix(dn, "bkava-") { // derivative amounts are small: stay within the balance
				if bal := tApp.GetBankKeeper().GetBalance(ctx, A, dn).Amount; bal.IsPositive() && bal.IsInt64() && r.Chance(4, 5) {
					a = 1 + r.Int63n(bal.Int64())
				}
			}
			m := savingstypes.NewMsgDeposit(A, cs(c(dn, a)))
			msg, desc = &m, "savings.deposit"
		} else {
			a := amt(r, 1_000_000_000)
			if dep, ok := tApp.GetSavingsKeeper().GetDeposit(ctx, A); ok && r.Chance(1, 2) && dep.Amount.AmountOf(dn).IsPositive() {
				a = dep.Amount.AmountOf(dn).Int64() + int64(r.Intn(3)) - 1
			}
			if a <= 0 {
				a = 1
			}
			m := savingstypes.NewMsgWithdraw(A, cs(c(dn, a)))
			msg, desc = &m, "savings.withdraw"
		}
	case 15:
		dn, st := "usdx", earntypes.STRATEGY_TYPE_HARD
		if r.Chance(1, 3) {
			dn, st = "busd", earntypes.STRATEGY_TYPE_SAVINGS
		}
		if vs := w.EarnVaults(); w.Cfg.Wide != nil && r.Chance(2, 3) {
			v := vs[r.Intn(len(vs))]
			dn, st = v.Denom, v.Strategy
			if dn == "bkava" {
				dn = "bkava-" + w.ValAddr.String()
			}
		}
		bk := "bkava-" + w.ValAddr.String()
		ek0 := tApp.GetEarnKeeper()
		if w.Cfg.Wide != nil && r.Chance(1, 4) { // derivative held or deposited: use it
			if tApp.GetBankKeeper().GetBalance(ctx, A, bk).Amount.IsPositive() {
				dn, st = bk, earntypes.STRATEGY_TYPE_SAVINGS
			} else if v, err := ek0.GetVaultAccountValue(ctx, bk, A); err == nil && v.Amount.IsPositive() {
				msg, desc = earntypes.NewMsgWithdraw(A.String(), sdk.NewCoin(bk, v.Amount.SubRaw(int64(r.Intn(2))*int64(r.Intn(2)))), earntypes.STRATEGY_TYPE_SAVINGS), "earn.withdraw"
				break
			}
		}
		if r.Chance(2, 3) {
			a := amt(r, 1_000_000_000)
			if dn == bk {
				if bal := tApp.GetBankKeeper().GetBalance(ctx, A, dn).Amount; bal.IsPositive() && bal.IsInt64() && r.Chance(5, 6) {
					a = bal.Int64()
					if r.Chance(1, 3) {
						a = 1 + r.Int63n(bal.Int64())
					}
				}
			}
			msg, desc = earntypes.NewMsgDeposit(A.String(), c(dn, a), st), "earn.deposit"
		} else {
			a := amt(r, 1_000_000_000)
			ek := tApp.GetEarnKeeper()
			if v, err := ek.GetVaultAccountValue(ctx, dn, A); err == nil && v.Amount.IsPositive() && r.Chance(2, 3) {
				a = v.Amount.Int64() - int64(r.Intn(4))*int64(r.Intn(2)) // whole value, or leaving 1..3 units (dust sweep territory)
			}
			if a <= 0 {
				a = 1
			}
			msg, desc = earntypes.NewMsgWithdraw(A.String(), c(dn, a), st), "earn.withdraw"
		}
	case 16: // bep3 create (outgoing by user, or incoming by deputy — deputy is not in the user range, so sign as deputy)
		secret := sha256.Sum256([]byte(fmt.Sprintf("secret-%d-%d", w.Height, r.Next())))
		ts := w.Time.Unix()
		hash := bep3types.CalculateRandomHash(secret[:], ts)
		span := uint64(3 + r.Intn(10))
		minSwap := int64(1001)
		if w.Cfg.Wide != nil {
			b := w.Cfg.Wide.Bep3
			span = b.MinLock + uint64(r.Intn(int(b.MaxLock-b.MinLock)+1))
			if r.Chance(1, 12) {
				span = b.MaxLock + 1
			}
			minSwap = b.MinSwap
		}
		if r.Chance(1, 2) {
			// outgoing: user -> deputy
			out := minSwap + amt(r, 1_000_000_000)
			if sup, ok := tApp.GetBep3Keeper().GetAssetSupply(ctx, "bnb"); ok && r.Chance(2, 3) { // within the available supply
				if avail := sup.CurrentSupply.Amount.Sub(sup.OutgoingSupply.Amount); avail.IsPositive() && avail.IsInt64() {
					out = 1 + r.Int63n(avail.Int64())
					if r.Chance(1, 4) {
						out = avail.Int64() + int64(r.Intn(2))
					}
				}
			}
			m := bep3types.NewMsgCreateAtomicSwap(A.String(), w.Addrs[w.Deputy].String(), "0xrecipient", "0xsender", hash, ts, cs(c("bnb", out)), span)
			msg, desc = &m, "bep3.create.out"
			id := bep3types.CalculateSwapID(hash, A, "0xsender")
			w.Swaps = append(w.Swaps, bep3Swap{id, secret[:], u})
		} else {
			delete(used, u)
			if used[w.Deputy] {
				return nil, ""
			}
			used[w.Deputy] = true
			m := bep3types.NewMsgCreateAtomicSwap(w.Addrs[w.Deputy].String(), A.String(), "0xrecipient", "0xsender", hash, ts, cs(c("bnb", minSwap+amt(r, 100_000_000))), span)
			id := bep3types.CalculateSwapID(hash, w.Addrs[w.Deputy], "0xsender")
			w.Swaps = append(w.Swaps, bep3Swap{id, secret[:], u})
			return w.Sign(tApp, w.Deputy, &m), "bep3.create.in"
		}
	case 17:
		if len(w.Swaps) == 0 {
			delete(used, u)
			return nil, ""
		}
		s := w.Swaps[r.Intn(len(w.Swaps))]
		wantOpen := r.Chance(2, 3)
		if r.Chance(3, 4) { // prefer a swap in the state the message needs (open to claim, expired to refund)
			var cands []bep3Swap
			for _, x := range w.Swaps {
				if sw, ok := tApp.GetBep3Keeper().GetAtomicSwap(ctx, x.ID); ok && (sw.Status == bep3types.SWAP_STATUS_OPEN) == wantOpen && sw.Status != bep3types.SWAP_STATUS_COMPLETED {
					cands = append(cands, x)
				}
			}
			if len(cands) > 0 {
				s = cands[r.Intn(len(cands))]
			}
		}
		if wantOpen {
			sec := s.Secret
			if r.Chance(1, 5) {
				sec = tmbytes.HexBytes(strings.Repeat("a", 32))
			}
			m := bep3types.NewMsgClaimAtomicSwap(A.String(), s.ID, sec)
			msg, desc = &m, "bep3.claim"
		} else {
			m := bep3types.NewMsgRefundAtomicSwap(A.String(), s.ID)
			msg, desc = &m, "bep3.refund"
		}
	case 18: // price post by an oracle
		delete(used, u)
		o := w.Oracles[r.Intn(len(w.Oracles))]
		if used[o] {
			return nil, ""
		}
		used[o] = true
		market := []string{"bnb:usd", "xrp:usd", "kava:usd"}[r.Intn(3)]
		if w.Cfg.Wide != nil && r.Chance(1, 6) {
			market = []string{"busd:usd", "usdx:usd", "hard:usd", "swp:usd"}[r.Intn(4)]
		}
		base := w.basePrice(market)
		p := d(base).Mul(d([]string{"1.0", "0.9", "0.6", "0.35", "1.2", "1.000000000000000001"}[r.Intn(6)]))
		exp := w.Time.Add(time.Duration(1+r.Intn(48)) * time.Hour)
		return w.Sign(tApp, o, pricefeedtypes.NewMsgPostPrice(w.Addrs[o].String(), market, p, exp)), "pricefeed.post"
	case 19: // auction bid on some open auction
		auctions := tApp.GetAuctionKeeper().GetAllAuctions(ctx)
		if len(auctions) == 0 {
			delete(used, u)
			return nil, ""
		}
		a := auctions[r.Intn(len(auctions))]
		var bid sdk.Coin
		lateFwd := false
		if r.Chance(1, 2) { // a forward collateral auction late in its life: convert it now
			rev := tApp.GetAuctionKeeper().GetParams(ctx).ReverseBidDuration
			for _, x := range auctions {
				if ca, ok := x.(*auctiontypes.CollateralAuction); ok && !ca.IsReversePhase() && ca.HasReceivedBids && w.Time.Add(rev).After(ca.MaxEndTime) {
					a, lateFwd = x, true
					break
				}
			}
		}
		switch au := a.(type) {
		case *auctiontypes.CollateralAuction:
			if lateFwd {
				bid = au.MaxBid
			} else if au.IsReversePhase() {
				bid = sdk.NewCoin(au.Lot.Denom, au.Lot.Amount.MulRaw(int64(80+r.Intn(20))).QuoRaw(100))
			} else {
				bid = sdk.NewCoin(au.Bid.Denom, au.Bid.Amount.MulRaw(int64(100+r.Intn(30))).QuoRaw(100).AddRaw(int64(r.Intn(1000))))
				if r.Chance(1, 3) {
					bid = au.MaxBid
				}
			}
		case *auctiontypes.DebtAuction:
			bid = sdk.NewCoin(au.Lot.Denom, au.Lot.Amount.MulRaw(int64(80+r.Intn(20))).QuoRaw(100))
		case *auctiontypes.SurplusAuction:
			bid = sdk.NewCoin(au.Bid.Denom, au.Bid.Amount.MulRaw(int64(100+r.Intn(30))).QuoRaw(100).AddRaw(int64(1+r.Intn(1000))))
		}
		m := auctiontypes.NewMsgPlaceBid(a.GetID(), A.String(), bid)
		msg, desc = &m, "auction.bid"
	case 20: // incentive claims
		sel := incentivetypes.Selections{incentivetypes.NewSelection("hard", "small"), incentivetypes.NewSelection("swp", "large")}
		switch r.Intn(5) {
		case 0:
			m := incentivetypes.NewMsgClaimHardReward(A.String(), sel)
			msg = &m
		case 1:
			m := incentivetypes.NewMsgClaimSwapReward(A.String(), incentivetypes.Selections{incentivetypes.NewSelection("swp", "small")})
			msg = &m
		case 2:
			m := incentivetypes.NewMsgClaimUSDXMintingReward(A.String(), []string{"small", "large"}[r.Intn(2)])
			msg = &m
		case 3:
			m := incentivetypes.NewMsgClaimDelegatorReward(A.String(), sel)
			msg = &m
		default:
			m := incentivetypes.NewMsgClaimEarnReward(A.String(), incentivetypes.Selections{incentivetypes.NewSelection("hard", "large")})
			msg = &m
		}
		desc = "incentive.claim"
	case 21: // staking
		switch r.Intn(3) {
		case 0:
			msg, desc = stakingtypes.NewMsgDelegate(A, w.ValAddr, c("ukava", amt(r, 500_000_000))), "staking.delegate"
		case 1:
			msg, desc = stakingtypes.NewMsgUndelegate(A, w.ValAddr, c("ukava", amt(r, 200_000_000))), "staking.undelegate"
		default:
			a := amt(r, 200_000_000)
			del, found := tApp.GetStakingKeeper().GetDelegation(ctx, A, w.ValAddr)
			if !found && r.Chance(2, 3) { // nothing to convert yet: delegate first (whole shares of the genesis validator)
				msg, desc = stakingtypes.NewMsgDelegate(A, w.ValAddr, c("ukava", int64(1+r.Intn(400))*1_000_000)), "staking.delegate"
				break
			}
			if val, ok := tApp.GetStakingKeeper().GetValidator(ctx, w.ValAddr); ok && found && r.Chance(4, 5) { // within the delegation
				if tok := val.TokensFromShares(del.Shares).TruncateInt(); tok.IsPositive() && tok.IsInt64() {
					a = 1 + r.Int63n(tok.Int64())
					if r.Chance(1, 2) {
						a = tok.Int64() // the whole delegation
					}
				}
			}
			m := liquidtypes.NewMsgMintDerivative(A, w.ValAddr, c("ukava", a))
			msg, desc = &m, "liquid.mint"
		}
	case 22:
		dn := "bkava-" + w.ValAddr.String()
		a := amt(r, 100_000_000)
		if bal := tApp.GetBankKeeper().GetBalance(ctx, A, dn).Amount; bal.IsPositive() && bal.IsInt64() && r.Chance(5, 6) {
			a = bal.Int64() // everything the signer holds
			if r.Chance(1, 3) {
				a = 1 + r.Int63n(bal.Int64())
			}
		} else if w.Cfg.Wide != nil && r.Chance(5, 6) { // holds none: take it out of earn / savings first
			ek1 := tApp.GetEarnKeeper()
			if v, err := ek1.GetVaultAccountValue(ctx, dn, A); err == nil && v.Amount.IsPositive() {
				msg, desc = earntypes.NewMsgWithdraw(A.String(), v, earntypes.STRATEGY_TYPE_SAVINGS), "earn.withdraw"
				break
			}
			if dep, ok := tApp.GetSavingsKeeper().GetDeposit(ctx, A); ok && dep.Amount.AmountOf(dn).IsPositive() {
				m := savingstypes.NewMsgWithdraw(A, cs(sdk.NewCoin(dn, dep.Amount.AmountOf(dn))))
				msg, desc = &m, "savings.withdraw"
				break
			}
			// no derivative anywhere: get some (convert the delegation, or delegate first)
			if del, found := tApp.GetStakingKeeper().GetDelegation(ctx, A, w.ValAddr); found {
				if val, ok := tApp.GetStakingKeeper().GetValidator(ctx, w.ValAddr); ok {
					if tok := val.TokensFromShares(del.Shares).TruncateInt(); tok.IsPositive() && tok.IsInt64() {
						x := tok.Int64()
						if r.Chance(1, 2) {
							x = 1 + r.Int63n(tok.Int64())
						}
						m := liquidtypes.NewMsgMintDerivative(A, w.ValAddr, c("ukava", x))
						msg, desc = &m, "liquid.mint"
						break
					}
				}
			} else {
				msg, desc = stakingtypes.NewMsgDelegate(A, w.ValAddr, c("ukava", int64(1+r.Intn(400))*1_000_000)), "staking.delegate"
				break
			}
		}
		m := liquidtypes.NewMsgBurnDerivative(A, w.ValAddr, c(dn, a))
		msg, desc = &m, "liquid.burn"
	case 23: // gov text proposal + vote
		if r.Chance(1, 2) {
			content := govv1beta1.NewTextProposal("t", "d")
			m, err := govv1beta1.NewMsgSubmitProposal(content, cs(c("ukava", 10_000_000)), A)
			if err != nil {
				panic(err)
			}
			msg, desc = m, "gov.submit"
		} else {
			msg, desc = govv1.NewMsgVote(A, uint64(1+r.Intn(3)), govv1.VoteOption(1+r.Intn(4)), ""), "gov.vote"
		}
	case 24: // committee param change proposal + vote by members
		delete(used, u)
		signer := []int{w.Member, 0}[r.Intn(2)]
		if used[signer] {
			return nil, ""
		}
		used[signer] = true
		if r.Chance(1, 2) {
			prop := committeetypes.NewCommitteeDeleteProposal("x", "y", 99)
			_ = prop
			var content committeetypes.PubProposal = govv1beta1.NewTextProposal("committee text", "nothing")
			switch r.Intn(w.nProposalKinds()) {
			case 0: // an upgrade plan a few blocks ahead: stale by the time the deciding vote arrives
				content = upgradetypes.NewSoftwareUpgradeProposal("up", "plan", upgradetypes.Plan{Name: fmt.Sprintf("plan-%d", w.Height), Height: w.Height + int64(1+r.Intn(4))})
			case 1: // a parameter change (the three durations together: every enactment order leaves a set that passes Params.Validate)
				ap := tApp.GetAuctionKeeper().GetParams(ctx)
				longest := ap.ForwardBidDuration
				if ap.ReverseBidDuration > longest {
					longest = ap.ReverseBidDuration
				}
				content = paramsproposal.NewParameterChangeProposal("p", "change", []paramsproposal.ParamChange{
					pc(tApp, auctiontypes.ModuleName, auctiontypes.KeyForwardBidDuration, ap.ForwardBidDuration),
					pc(tApp, auctiontypes.ModuleName, auctiontypes.KeyReverseBidDuration, ap.ReverseBidDuration),
					pc(tApp, auctiontypes.ModuleName, auctiontypes.KeyMaxAuctionDuration, longest+time.Duration(r.Intn(48))*time.Hour)})
			}
			m, err := committeetypes.NewMsgSubmitProposal(content, w.Addrs[signer], 1)
			if err != nil {
				panic(err)
			}
			return w.Sign(tApp, signer, m), "committee.submit"
		}
		pid := uint64(1 + r.Intn(3))
		if props := tApp.GetCommitteeKeeper().GetProposals(ctx); len(props) > 0 && r.Chance(4, 5) {
			pid = props[r.Intn(len(props))].ID
		}
		return w.Sign(tApp, signer, committeetypes.NewMsgVote(w.Addrs[signer], pid, committeetypes.VOTE_TYPE_YES)), "committee.vote"
	default: // issuance by the asset owner (user 1) or an impostor
		if u != 1 && !used[1] && r.Chance(1, 2) {
			delete(used, u)
			u = 1
			used[1] = true
			A = w.Addrs[1]
		}
		tok := c("busd", amt(r, 1_000_000_000))
		switch r.Intn(5) {
		case 0, 1:
			msg, desc = issuancetypes.NewMsgIssueTokens(A.String(), tok, other.String()), "issuance.issue"
		case 2:
			msg, desc = issuancetypes.NewMsgRedeemTokens(A.String(), tok), "issuance.redeem"
		case 3:
			msg, desc = issuancetypes.NewMsgBlockAddress(A.String(), "busd", other.String()), "issuance.block"
		default:
			msg, desc = issuancetypes.NewMsgUnblockAddress(A.String(), "busd", other.String()), "issuance.unblock"
		}
	}
	if msg == nil {
		delete(used, u)
		return nil, ""
	}
	return w.Sign(tApp, u, msg), desc
}

func (w *World) basePrice(market string) string {
	switch market {
	case "bnb:usd":
		return w.Cfg.BnbPrice
	case "xrp:usd":
		return w.Cfg.XrpPrice
	case "kava:usd":
		return w.Cfg.KavaPrice
	case "hard:usd":
		return "0.25"
	case "swp:usd":
		return "0.1"
	}
	return "1.0"
}

func (w *World) nProposalKinds() int { return 3 }

// maxDebt returns the largest principal (in usdx base units) that keeps `collateral` base units
// of the collateral type at its liquidation ratio under the current spot price.
func (w *World) maxDebt(tApp app.TestApp, ctx sdk.Context, ctype string, collateral int64) (int64, bool) {
	cp, ok := tApp.GetCDPKeeper().GetCollateral(ctx, ctype)
	if !ok {
		return 0, false
	}
	price, err := tApp.GetPriceFeedKeeper().GetCurrentPrice(ctx, cp.SpotMarketID)
	if err != nil || !price.Price.IsPositive() {
		return 0, false
	}
	v := sdk.NewDec(collateral).Mul(price.Price).Quo(cp.LiquidationRatio) // collateral units worth of usd, per ratio
	scale := sdk.NewDec(1)
	for i := int64(0); i < cp.ConversionFactor.Int64(); i++ {
		scale = scale.MulInt64(10)
	}
	lim := v.Quo(scale).MulInt64(1_000_000).TruncateInt()
	if !lim.IsInt64() || lim.Int64() > 1_000_000_000_000 {
		return 1_000_000_000_000, true
	}
	return lim.Int64(), true
}

// InvalidBasicTx returns a properly signed transaction whose message fails ValidateBasic.
func (w *World) InvalidBasicTx(tApp app.TestApp) []byte {
	m := swaptypes.NewMsgDeposit(w.Addrs[0].String(), sdk.Coin{Denom: "bnb", Amount: sdkmath.ZeroInt()}, c("usdx", 5), d("0.5"), w.Time.Add(time.Hour).Unix())
	return w.Sign(tApp, 0, m)
}

func pickOwner(r *Rng, w *World, self sdk.AccAddress) sdk.AccAddress {
	if r.Chance(2, 3) {
		return self
	}
	return w.Addrs[r.Intn(NUsers)]
}

// GenBlock generates the next block's transactions against tApp's current (deliver) state.
// It must be called after BeginBlock of that block on tApp.
func (w *World) GenBlockTxs(r *Rng, tApp app.TestApp, n int) ([][]byte, []string) {
	return w.GenBlockTxsFiltered(r, tApp, n, false)
}

// GenBlockTxsFiltered is GenBlockTxs; with basicValidOnly it drops transactions whose
// message fails ValidateBasic (see the C01 known finding about re-opened nodes).
func (w *World) GenBlockTxsFiltered(r *Rng, tApp app.TestApp, n int, basicValidOnly bool) ([][]byte, []string) {
	w.basicValidOnly = basicValidOnly
	defer func() { w.basicValidOnly = false }()
	used := map[int]bool{}
	var txs [][]byte
	var descs []string
	if w.Cfg.Wide != nil && r.Chance(1, 7) { // a price move agreed by every oracle (a single post only shifts the median)
		market := []string{"bnb:usd", "xrp:usd", "kava:usd", "busd:usd", "hard:usd"}[r.Pick(4, 4, 3, 1, 1)]
		p := d(w.basePrice(market)).Mul(d([]string{"1.0", "0.8", "0.5", "0.3", "0.1", "1.5", "3"}[r.Intn(7)]))
		exp := w.Time.Add(time.Duration(1+r.Intn(72)) * time.Hour)
		for _, o := range w.Oracles {
			used[o] = true
			txs = append(txs, w.Sign(tApp, o, pricefeedtypes.NewMsgPostPrice(w.Addrs[o].String(), market, p, exp)))
			descs = append(descs, "pricefeed.post")
		}
	}
	for i := 0; i < n; i++ {
		bz, desc := w.GenTx(r, tApp, used)
		if bz == nil {
			continue
		}
		if r.Chance(1, 40) && !basicValidOnly { // malformed stream: corrupt the bytes
			bz = append([]byte{}, bz...)
			bz[len(bz)/2] ^= 0x55
			desc += "(corrupt)"
		}
		txs = append(txs, bz)
		descs = append(descs, desc)
	}
	if w.ParamChanges && r.Chance(1, 2) { // a member votes: the newest proposal of this block, else a pending one
		signer := w.Member
		if used[signer] {
			signer = 0
		}
		if !used[signer] {
			ctx := tApp.NewContext(false, tmproto.Header{Height: w.Height, Time: w.Time})
			submitted := uint64(0)
			for _, dsc := range descs {
				if strings.HasPrefix(dsc, "committee.submit") && !strings.HasSuffix(dsc, "(corrupt)") {
					submitted++
				}
			}
			next, err := tApp.GetCommitteeKeeper().GetNextProposalID(ctx)
			props := tApp.GetCommitteeKeeper().GetProposals(ctx)
			pid := uint64(0)
			switch {
			case err == nil && submitted > 0:
				pid = next + submitted - 1
			case len(props) > 0:
				pid = props[r.Intn(len(props))].ID
			}
			if pid > 0 {
				used[signer] = true
				txs = append(txs, w.Sign(tApp, signer, committeetypes.NewMsgVote(w.Addrs[signer], pid, committeetypes.VOTE_TYPE_YES)))
				descs = append(descs, "committee.vote")
			}
		}
	}
	return txs, descs
}

// NextGap draws a block-time gap: sub-second to multi-day.
func NextGap(r *Rng) time.Duration {
	switch r.Pick(30, 30, 20, 10, 5, 5) {
	case 0:
		return time.Duration(1+r.Intn(10)) * time.Second
	case 1:
		return time.Duration(1+r.Intn(30)) * time.Minute
	case 2:
		return time.Duration(1+r.Intn(12)) * time.Hour
	case 3:
		return time.Duration(1+r.Intn(1000)) * time.Millisecond
	case 4:
		return time.Duration(1+r.Intn(20)) * 24 * time.Hour
	default:
		return time.Duration(1 + r.Intn(1_000_000_000))
	}
}

// NextGapAware is NextGap, except that one time in three (when the state has any) the next block
// lands at or next to an instant at which a blocker changes behaviour: an auction's EndTime or
// MaxEndTime, the last ReverseBidDuration before a MaxEndTime, the end of an incentive reward
// period or of a kavadist period.
func NextGapAware(r *Rng, tApp app.TestApp, height int64, t time.Time) time.Duration {
	gap := NextGap(r)
	if !r.Chance(1, 3) {
		return gap
	}
	ctx := tApp.NewContext(true, tmproto.Header{Height: height, Time: t, ChainID: app.TestChainId})
	var instants []time.Time
	add := func(x time.Time) {
		if x.After(t) && x.Before(t.Add(60*24*time.Hour)) {
			instants = append(instants, x)
		}
	}
	rev := tApp.GetAuctionKeeper().GetParams(ctx).ReverseBidDuration
	for _, a := range tApp.GetAuctionKeeper().GetAllAuctions(ctx) {
		add(a.GetEndTime())
		add(a.GetMaxEndTime())
		add(a.GetMaxEndTime().Add(-rev / 2))
		add(a.GetMaxEndTime().Add(-rev))
	}
	ip := tApp.GetIncentiveKeeper().GetParams(ctx)
	for _, p := range ip.USDXMintingRewardPeriods {
		add(p.End)
	}
	for _, p := range ip.HardBorrowRewardPeriods {
		add(p.End)
	}
	for _, p := range ip.HardSupplyRewardPeriods {
		add(p.End)
	}
	for _, p := range tApp.GetKavadistKeeper().GetParams(ctx).Periods {
		add(p.Start)
		add(p.End)
	}
	for _, p := range tApp.GetKavadistKeeper().GetParams(ctx).InfrastructureParams.InfrastructurePeriods {
		add(p.Start)
		add(p.End)
	}
	for _, p := range tApp.GetCommitteeKeeper().GetProposals(ctx) {
		add(p.Deadline)
	}
	if len(instants) == 0 {
		return gap
	}
	x := instants[r.Intn(len(instants))]
	off := []time.Duration{0, -time.Nanosecond, time.Nanosecond, -time.Second, time.Second, -time.Duration(1 + r.Intn(1_000_000_000))}[r.Intn(6)]
	if g := x.Add(off).Sub(t); g > 0 {
		return g
	}
	return gap
}

// ---------------------------------------------------------------- block execution

type TxResult struct {
	Code      uint32 `json:"code"`
	Codespace string `json:"codespace"`
	GasUsed   int64  `json:"gas_used"`
	EventsSum string `json:"events"`
	Log       string `json:"log,omitempty"`
}

type BlockResult struct {
	Height    int64      `json:"height"`
	AppHash   string     `json:"app_hash"`
	BeginSum  string     `json:"begin_events"`
	EndSum    string     `json:"end_events"`
	ValUpdSum string     `json:"validator_updates"`
	Txs       []TxResult `json:"txs"`
	Panic     string     `json:"panic,omitempty"`
}

func eventsDigest(evs []abci.Event) string {
	h := sha256.New()
	for _, e := range evs {
		h.Write([]byte(e.Type))
		h.Write([]byte{0})
		for _, a := range e.Attributes {
			h.Write([]byte(a.Key))
			h.Write([]byte{1})
			h.Write([]byte(a.Value))
			h.Write([]byte{2})
		}
	}
	return hex.EncodeToString(h.Sum(nil))[:16]
}

// Begin runs BeginBlock of the block (height, t) and returns its events digest; panics are caught.
func Begin(tApp app.TestApp, height int64, t time.Time) (sum string, pnc string) {
	defer func() {
		if r := recover(); r != nil {
			pnc = fmt.Sprintf("BeginBlock panic: %v", r)
		}
	}()
	res := tApp.BeginBlock(abci.RequestBeginBlock{Header: tmproto.Header{Height: height, Time: t, ChainID: app.TestChainId}})
	return eventsDigest(res.Events), ""
}

// Deliver runs the transactions, EndBlock and Commit.
func Deliver(tApp app.TestApp, height int64, txs [][]byte) (out BlockResult) {
	return DeliverC(tApp, height, txs, nil)
}

// DeliverC is Deliver with event counting.
func DeliverC(tApp app.TestApp, height int64, txs [][]byte, cnt *Counters) (out BlockResult) {
	out.Height = height
	defer func() {
		if r := recover(); r != nil {
			out.Panic = fmt.Sprintf("panic: %v", r)
		}
	}()
	for _, bz := range txs {
		r := tApp.DeliverTx(abci.RequestDeliverTx{Tx: bz})
		out.Txs = append(out.Txs, TxResult{Code: r.Code, Codespace: r.Codespace, GasUsed: r.GasUsed, EventsSum: eventsDigest(r.Events), Log: firstLine(r.Log, r.Code)})
		if r.Code == 0 {
			CountEvents(cnt, "tx", r.Events)
		}
	}
	eb := tApp.EndBlock(abci.RequestEndBlock{Height: height})
	CountEvents(cnt, "end", eb.Events)
	out.EndSum = eventsDigest(eb.Events)
	var vu []string
	for _, v := range eb.ValidatorUpdates {
		vu = append(vu, fmt.Sprintf("%x:%d", v.PubKey.GetEd25519(), v.Power))
	}
	sort.Strings(vu)
	out.ValUpdSum = strings.Join(vu, ",")
	c := tApp.Commit()
	out.AppHash = hex.EncodeToString(c.Data)
	return out
}

// x/bep3 formats an sdkmath.Int with %d ("amount {824713463328} outside range"): the braces hold
// the address of the big.Int, which differs between processes and replicas.  The log of a
// failed transaction is not consensus data; the host-dependent part is masked before any
// comparison.
var ptrInLog = regexp.MustCompile(`\{[0-9]+\}`)

func firstLine(s string, code uint32) string {
	if code == 0 {
		return ""
	}
	s = ptrInLog.ReplaceAllString(s, "{ptr}")
	if i := strings.IndexByte(s, '\n'); i >= 0 {
		s = s[:i]
	}
	if len(s) > 160 {
		s = s[:160]
	}
	return s
}

// ---------------------------------------------------------------- precisebank traffic

// FracOp is a transfer of an akava amount (18 decimals; x/evm's unit) between two users through
// the precisebank keeper - what an EVM value transfer does.  It is applied by the driver on the
// deliver state right after BeginBlock (a harness hook: the world signs no Ethereum
// transactions), identically on every replica of the chain.
type FracOp struct {
	From, To int
	Akava    sdkmath.Int
}

// GenFracOp draws a transfer: amounts that are not multiples of 10^12 leave fractional
// balances, a reserve and (through borrow / carry) exercise both directions of the integer part.
func (w *World) GenFracOp(r *Rng) FracOp {
	from := r.Intn(NUsers)
	to := (from + 1 + r.Intn(NUsers-1)) % NUsers
	var a sdkmath.Int
	switch r.Intn(4) {
	case 0:
		a = sdkmath.NewInt(1 + r.Int63n(999_999_999_999)) // fractional part only
	case 1:
		a = sdkmath.NewInt(1 + r.Int63n(5_000_000)).MulRaw(1_000_000_000_000).AddRaw(r.Int63n(1_000_000_000_000))
	case 2:
		a = sdkmath.NewInt([]int64{1, 999_999_999_999, 1_000_000_000_001, 500_000_000_000}[r.Intn(4)])
	default:
		a = sdkmath.NewInt(1 + r.Int63n(3_000_000_000_000))
	}
	return FracOp{from, to, a}
}

// ApplyFracOp performs the transfer on tApp's deliver state (call between BeginBlock and the
// block's transactions).  Returns the keeper's error text ("" on success); a panic is returned
// as "panic: …".
func (w *World) ApplyFracOp(tApp app.TestApp, height int64, t time.Time, op FracOp) (res string) {
	defer func() {
		if r := recover(); r != nil {
			res = fmt.Sprintf("panic: %v", r)
		}
	}()
	ctx := tApp.NewContext(false, tmproto.Header{Height: height, Time: t, ChainID: app.TestChainId})
	err := tApp.GetPrecisebankKeeper().SendCoins(ctx, w.Addrs[op.From], w.Addrs[op.To], sdk.NewCoins(sdk.NewCoin(precisebanktypes.ExtendedCoinDenom, op.Akava)))
	if err != nil {
		return err.Error()
	}
	return ""
}

// genCommitteeTraffic: a text proposal to committee 2 (members: users 1-3, yes votes counted at the
// deadline) or 3 (token committee, members users 4-5, any hard holder votes), or a vote on a
// pending proposal by someone entitled to it.
func (w *World) genCommitteeTraffic(r *Rng, tApp app.TestApp, ctx sdk.Context, used map[int]bool) ([]byte, string) {
	free := func(cands ...int) int {
		var fs []int
		for _, c := range cands {
			if !used[c] {
				fs = append(fs, c)
			}
		}
		if len(fs) == 0 {
			return -1
		}
		return fs[r.Intn(len(fs))]
	}
	props := tApp.GetCommitteeKeeper().GetProposals(ctx)
	if len(props) > 0 && r.Chance(3, 5) {
		p := props[r.Intn(len(props))]
		voter, vt := -1, committeetypes.VOTE_TYPE_YES
		switch p.CommitteeID {
		case 2:
			voter = free(1, 2, 3)
		case 3:
			voter = free(0, 1, 2, 3, 4, 5)
			vt = []committeetypes.VoteType{committeetypes.VOTE_TYPE_YES, committeetypes.VOTE_TYPE_YES, committeetypes.VOTE_TYPE_NO, committeetypes.VOTE_TYPE_ABSTAIN}[r.Intn(4)]
		default:
			voter = free(w.Member, 0)
		}
		if voter < 0 {
			return nil, ""
		}
		used[voter] = true
		return w.Sign(tApp, voter, committeetypes.NewMsgVote(w.Addrs[voter], p.ID, vt)), fmt.Sprintf("committee.vote.c%d", p.CommitteeID)
	}
	com, signer := uint64(2), free(1, 2, 3)
	if w.Cfg.Wide.TokenCommitteeDurSec > 0 && r.Chance(1, 2) {
		com, signer = 3, free(4, 5)
	}
	if signer < 0 {
		return nil, ""
	}
	used[signer] = true
	m, err := committeetypes.NewMsgSubmitProposal(govv1beta1.NewTextProposal(fmt.Sprintf("text %d", w.Height), "nothing"), w.Addrs[signer], com)
	if err != nil {
		panic(err)
	}
	return w.Sign(tApp, signer, m), fmt.Sprintf("committee.submit.c%d", com)
}
