package world

// Mid-history parameter changes through the real proposal path: a member of the
// params committee submits a ParameterChangeProposal (x/params handler ->
// Subspace.Update -> the module's per-key validator), a member votes, the
// committee begin blocker enacts it.  Only VALID values are proposed: the full
// parameter set that results passes the module's own Params.Validate (the
// per-key validators do not check cross-field conditions) and the environment
// hypotheses listed in config.go.  A halt after such a change is a violation.

import (
	. "kavaverif/lib"

	"time"

	sdkmath "cosmossdk.io/math"
	sdk "github.com/cosmos/cosmos-sdk/types"
	paramsproposal "github.com/cosmos/cosmos-sdk/x/params/types/proposal"

	"github.com/kava-labs/kava/app"
	auctiontypes "github.com/kava-labs/kava/x/auction/types"
	bep3types "github.com/kava-labs/kava/x/bep3/types"
	cdptypes "github.com/kava-labs/kava/x/cdp/types"
	committeetypes "github.com/kava-labs/kava/x/committee/types"
	hardtypes "github.com/kava-labs/kava/x/hard/types"
	incentivetypes "github.com/kava-labs/kava/x/incentive/types"
	kavadisttypes "github.com/kava-labs/kava/x/kavadist/types"
	pricefeedtypes "github.com/kava-labs/kava/x/pricefeed/types"
	swaptypes "github.com/kava-labs/kava/x/swap/types"
)

func pc(tApp app.TestApp, subspace string, key []byte, v interface{}) paramsproposal.ParamChange {
	bz, err := tApp.LegacyAmino().MarshalJSON(v)
	if err != nil {
		panic(err)
	}
	return paramsproposal.ParamChange{Subspace: subspace, Key: string(key), Value: string(bz)}
}

// HardMarketsChange returns the change that installs the given money markets (nil when invalid).
func HardMarketsChange(tApp app.TestApp, ctx sdk.Context, mms hardtypes.MoneyMarkets) []paramsproposal.ParamChange {
	p := tApp.GetHardKeeper().GetParams(ctx)
	p.MoneyMarkets = mms
	if p.Validate() != nil {
		return nil
	}
	if mms == nil {
		mms = hardtypes.MoneyMarkets{}
	}
	return []paramsproposal.ParamChange{pc(tApp, hardtypes.ModuleName, hardtypes.KeyMoneyMarkets, mms)}
}

// SubmitParamChange signs the committee submission of a parameter change by a member of committee 1.
func (w *World) SubmitParamChange(tApp app.TestApp, signer int, changes []paramsproposal.ParamChange) []byte {
	content := paramsproposal.NewParameterChangeProposal("p", "change", changes)
	m, err := committeetypes.NewMsgSubmitProposal(content, w.Addrs[signer], 1)
	if err != nil {
		panic(err)
	}
	return w.Sign(tApp, signer, m)
}

func (w *World) genParamChange(r *Rng, tApp app.TestApp, ctx sdk.Context, used map[int]bool) ([]byte, string) {
	signer := []int{w.Member, 0}[r.Intn(2)]
	if used[signer] {
		return nil, ""
	}
	// half of the time: vote a pending proposal through instead of submitting another one
	if props := tApp.GetCommitteeKeeper().GetProposals(ctx); len(props) > 0 && r.Chance(1, 2) {
		used[signer] = true
		pid := props[r.Intn(len(props))].ID
		return w.Sign(tApp, signer, committeetypes.NewMsgVote(w.Addrs[signer], pid, committeetypes.VOTE_TYPE_YES)), "committee.vote"
	}
	if w.MalformedParams && r.Chance(1, 4) {
		return w.genMalformedParamChange(r, tApp, ctx, used)
	}
	var changes []paramsproposal.ParamChange
	var desc string
	kind := r.Pick(5, 5, 3, 3, 2, 2, 1, 1, 2)
	if w.Cfg.Wide != nil && len(tApp.GetHardKeeper().GetParams(ctx).MoneyMarkets) < len(w.Cfg.Wide.HardMarkets) && r.Chance(1, 2) {
		kind = 0 // a removed money market is waiting to be added back
	}
	switch kind {
	case 0:
		changes, desc = w.hardChange(r, tApp, ctx)
	case 1:
		changes, desc = w.cdpCollateralChange(r, tApp, ctx)
	case 2:
		changes, desc = w.cdpAuctionChange(r, tApp, ctx)
	case 3:
		changes, desc = w.incentiveChange(r, tApp, ctx)
	case 4:
		changes, desc = w.pricefeedChange(r, tApp, ctx)
	case 5:
		changes, desc = w.auctionChange(r, tApp, ctx)
	case 6:
		changes, desc = w.swapChange(r, tApp, ctx)
	case 7:
		p := tApp.GetKavadistKeeper().GetParams(ctx)
		changes, desc = []paramsproposal.ParamChange{pc(tApp, kavadisttypes.ModuleName, kavadisttypes.KeyActive, !p.Active)}, "kavadist-active"
	default:
		changes, desc = w.bep3Change(r, tApp, ctx)
	}
	if len(changes) == 0 {
		return nil, ""
	}
	used[signer] = true
	return w.SubmitParamChange(tApp, signer, changes), "committee.submit.param:" + desc
}

func (w *World) hardChange(r *Rng, tApp app.TestApp, ctx sdk.Context) ([]paramsproposal.ParamChange, string) {
	cur := tApp.GetHardKeeper().GetParams(ctx).MoneyMarkets
	have := map[string]bool{}
	for _, m := range cur {
		have[m.Denom] = true
	}
	var missing []MarketCfg
	if w.Cfg.Wide != nil {
		for _, m := range w.Cfg.Wide.HardMarkets {
			if !have[m.Denom] {
				missing = append(missing, m)
			}
		}
	}
	mms := append(hardtypes.MoneyMarkets{}, cur...)
	desc := ""
	switch {
	case len(missing) > 0 && r.Chance(2, 3): // add a removed market back (same or different parameters)
		m := missing[r.Intn(len(missing))]
		if r.Chance(1, 2) {
			m.LTV, m.ReserveFactor = pickS(r, "0", "0.5", "0.8"), pickS(r, "0", "0.1", "1")
		}
		mms, desc = append(mms, w.MoneyMarket(m)), "hard-readd-market"
	case len(cur) > 1 && r.Chance(1, 2): // remove a market (positions in it stay)
		i := r.Intn(len(cur))
		if bc, ok := tApp.GetHardKeeper().GetBorrowedCoins(ctx); ok && r.Chance(2, 3) { // prefer a market with open borrows
			for j, m := range cur {
				if bc.AmountOf(m.Denom).IsPositive() && r.Chance(1, 2) {
					i = j
					break
				}
			}
		}
		mms, desc = append(mms[:i:i], mms[i+1:]...), "hard-remove-market"
	case len(cur) > 0:
		i := r.Intn(len(cur))
		m := mms[i]
		switch r.Intn(4) {
		case 0:
			m.BorrowLimit.LoanToValue = d(pickS(r, "0", "0.25", "0.5", "0.8", "1"))
		case 1:
			m.ReserveFactor = d(pickS(r, "0", "0.05", "0.5", "1"))
		case 2:
			m.InterestRateModel = hardtypes.NewInterestRateModel(d(pickS(r, "0", "0.05", "1")), d(pickS(r, "0", "0.5", "2")), d(pickS(r, "0", "0.8", "1")), d(pickS(r, "0", "1", "10")))
		default:
			m.KeeperRewardPercentage = d(pickS(r, "0", "0.05", "1"))
		}
		mms[i], desc = m, "hard-change-market"
	default:
		return nil, ""
	}
	return HardMarketsChange(tApp, ctx, mms), desc
}

func (w *World) cdpCollateralChange(r *Rng, tApp app.TestApp, ctx sdk.Context) ([]paramsproposal.ParamChange, string) {
	p := tApp.GetCDPKeeper().GetParams(ctx)
	if len(p.CollateralParams) == 0 {
		return nil, ""
	}
	cps := append(cdptypes.CollateralParams{}, p.CollateralParams...)
	i := r.Intn(len(cps))
	c := cps[i]
	switch r.Intn(7) {
	case 0:
		c.LiquidationRatio = d(pickS(r, "1.01", "1.25", "1.5", "2.0", "3.0"))
	case 1:
		c.LiquidationPenalty = d(pickS(r, "0", "0.05", "0.2", "1"))
	case 2:
		c.AuctionSize = sdkmath.NewInt(pickI(r, 500_000_000, 1_234_567_890, 50_000_000_000, 100_000_000_000))
	case 3:
		c.StabilityFee = d(pickS(r, "1.0", "1.000000001547125958", "1.000000012857214317", "1.000000051034942716"))
	case 4:
		c.KeeperRewardPercentage = d(pickS(r, "0", "0.01", "0.3", "1"))
	case 5:
		c.CheckCollateralizationIndexCount = sdkmath.NewInt(pickI(r, 0, 1, 10, 500))
	default: // lower or restore the debt limit (never above what the global limit leaves room for)
		c.DebtLimit = sdk.NewCoin(c.DebtLimit.Denom, sdkmath.NewInt(pickI(r, 1, 50_000_000, 2_000_000_000, c.DebtLimit.Amount.Int64())))
	}
	cps[i] = c
	p.CollateralParams = cps
	if p.Validate() != nil {
		return nil, ""
	}
	return []paramsproposal.ParamChange{pc(tApp, cdptypes.ModuleName, cdptypes.KeyCollateralParams, cps)}, "cdp-collateral"
}

func (w *World) cdpAuctionChange(r *Rng, tApp app.TestApp, ctx sdk.Context) ([]paramsproposal.ParamChange, string) {
	p := tApp.GetCDPKeeper().GetParams(ctx)
	p.SurplusAuctionThreshold = sdkmath.NewInt(pickI(r, 1, 1000, 1_000_000, 50_000_000, 500_000_000_000))
	p.SurplusAuctionLot = sdkmath.NewInt(pickI(r, 1, 5000, 2_000_000, 10_000_000_000))
	p.DebtAuctionThreshold = sdkmath.NewInt(pickI(r, 1_000_000, 10_000_000, 400_000_000, 100_000_000_000))
	p.DebtAuctionLot = sdkmath.NewInt(pickI(r, 1, 1_000_000, 10_000_000, 10_000_000_000))
	if p.DebtAuctionLot.GT(p.DebtAuctionThreshold) { // environment hypothesis of the cdp no-halt theorem
		p.DebtAuctionLot = p.DebtAuctionThreshold
	}
	if p.Validate() != nil {
		return nil, ""
	}
	return []paramsproposal.ParamChange{
		pc(tApp, cdptypes.ModuleName, cdptypes.KeySurplusThreshold, p.SurplusAuctionThreshold),
		pc(tApp, cdptypes.ModuleName, cdptypes.KeySurplusLot, p.SurplusAuctionLot),
		pc(tApp, cdptypes.ModuleName, cdptypes.KeyDebtThreshold, p.DebtAuctionThreshold),
		pc(tApp, cdptypes.ModuleName, cdptypes.KeyDebtLot, p.DebtAuctionLot),
	}, "cdp-auction-thresholds"
}

func (w *World) incentiveChange(r *Rng, tApp app.TestApp, ctx sdk.Context) ([]paramsproposal.ParamChange, string) {
	p := tApp.GetIncentiveKeeper().GetParams(ctx)
	now := ctx.BlockTime()
	newEnd := func(start, end time.Time) time.Time {
		e := now.Add(time.Duration(pickI(r, 1, 60, 3600, 86400, 30*86400)) * time.Second)
		if r.Chance(1, 4) {
			e = now.Add(-time.Second)
		}
		if e.Before(start) {
			e = start
		}
		return e
	}
	mutMulti := func(ps incentivetypes.MultiRewardPeriods) incentivetypes.MultiRewardPeriods {
		out := append(incentivetypes.MultiRewardPeriods{}, ps...)
		if len(out) == 0 {
			return out
		}
		i := r.Intn(len(out))
		x := out[i]
		switch r.Intn(4) {
		case 0:
			x.End = newEnd(x.Start, x.End)
		case 1:
			x.Active = !x.Active
		case 2:
			var cs2 sdk.Coins
			for _, c0 := range x.RewardsPerSecond {
				cs2 = cs2.Add(sdk.NewCoin(c0.Denom, sdkmath.NewInt(pickI(r, 1, 100, 50_000, 3_000_000))))
			}
			x.RewardsPerSecond = cs2
		default:
			if len(out) > 1 {
				return append(out[:i:i], out[i+1:]...)
			}
			x.End = newEnd(x.Start, x.End)
		}
		out[i] = x
		return out
	}
	var ch paramsproposal.ParamChange
	switch r.Intn(7) {
	case 0:
		out := append(incentivetypes.RewardPeriods{}, p.USDXMintingRewardPeriods...)
		if len(out) == 0 {
			return nil, ""
		}
		i := r.Intn(len(out))
		switch r.Intn(3) {
		case 0:
			out[i].End = newEnd(out[i].Start, out[i].End)
		case 1:
			out[i].Active = !out[i].Active
		default:
			out[i].RewardsPerSecond = sdk.NewCoin(out[i].RewardsPerSecond.Denom, sdkmath.NewInt(pickI(r, 1, 1000, 122354, 5_000_000)))
		}
		p.USDXMintingRewardPeriods = out
		ch = pc(tApp, incentivetypes.ModuleName, incentivetypes.KeyUSDXMintingRewardPeriods, out)
	case 1:
		p.HardSupplyRewardPeriods = mutMulti(p.HardSupplyRewardPeriods)
		ch = pc(tApp, incentivetypes.ModuleName, incentivetypes.KeyHardSupplyRewardPeriods, p.HardSupplyRewardPeriods)
	case 2:
		p.HardBorrowRewardPeriods = mutMulti(p.HardBorrowRewardPeriods)
		ch = pc(tApp, incentivetypes.ModuleName, incentivetypes.KeyHardBorrowRewardPeriods, p.HardBorrowRewardPeriods)
	case 3:
		p.DelegatorRewardPeriods = mutMulti(p.DelegatorRewardPeriods)
		ch = pc(tApp, incentivetypes.ModuleName, incentivetypes.KeyDelegatorRewardPeriods, p.DelegatorRewardPeriods)
	case 4:
		p.SwapRewardPeriods = mutMulti(p.SwapRewardPeriods)
		ch = pc(tApp, incentivetypes.ModuleName, incentivetypes.KeySwapRewardPeriods, p.SwapRewardPeriods)
	case 5:
		p.SavingsRewardPeriods = mutMulti(p.SavingsRewardPeriods)
		ch = pc(tApp, incentivetypes.ModuleName, incentivetypes.KeySavingsRewardPeriods, p.SavingsRewardPeriods)
	default:
		p.EarnRewardPeriods = mutMulti(p.EarnRewardPeriods)
		ch = pc(tApp, incentivetypes.ModuleName, incentivetypes.KeyEarnRewardPeriods, p.EarnRewardPeriods)
	}
	if p.Validate() != nil {
		return nil, ""
	}
	return []paramsproposal.ParamChange{ch}, "incentive-periods"
}

func (w *World) pricefeedChange(r *Rng, tApp app.TestApp, ctx sdk.Context) ([]paramsproposal.ParamChange, string) {
	p := tApp.GetPriceFeedKeeper().GetParams(ctx)
	if len(p.Markets) == 0 {
		return nil, ""
	}
	ms := append([]pricefeedtypes.Market{}, p.Markets...)
	i := r.Intn(len(ms))
	ms[i].Active = !ms[i].Active
	p.Markets = ms
	if p.Validate() != nil {
		return nil, ""
	}
	return []paramsproposal.ParamChange{pc(tApp, pricefeedtypes.ModuleName, pricefeedtypes.KeyMarkets, ms)}, "pricefeed-toggle-market"
}

func (w *World) auctionChange(r *Rng, tApp app.TestApp, ctx sdk.Context) ([]paramsproposal.ParamChange, string) {
	p := tApp.GetAuctionKeeper().GetParams(ctx)
	fwd := pickI(r, 1, 10, 60, 600, 3600, 6*3600)
	rev := pickI(r, 1, 5, 60, 1800, 3*3600)
	max := fwd
	if rev > max {
		max = rev
	}
	max *= pickI(r, 1, 2, 3, 10)
	p.ForwardBidDuration, p.ReverseBidDuration, p.MaxAuctionDuration = time.Duration(fwd)*time.Second, time.Duration(rev)*time.Second, time.Duration(max)*time.Second
	if p.Validate() != nil {
		return nil, ""
	}
	return []paramsproposal.ParamChange{
		pc(tApp, auctiontypes.ModuleName, auctiontypes.KeyForwardBidDuration, p.ForwardBidDuration),
		pc(tApp, auctiontypes.ModuleName, auctiontypes.KeyReverseBidDuration, p.ReverseBidDuration),
		pc(tApp, auctiontypes.ModuleName, auctiontypes.KeyMaxAuctionDuration, p.MaxAuctionDuration),
	}, "auction-durations"
}

func (w *World) swapChange(r *Rng, tApp app.TestApp, ctx sdk.Context) ([]paramsproposal.ParamChange, string) {
	p := tApp.GetSwapKeeper().GetParams(ctx)
	p.SwapFee = d(pickS(r, "0", "0.003", "0.05", "0.5", "0.999999999999999999"))
	if p.Validate() != nil {
		return nil, ""
	}
	return []paramsproposal.ParamChange{pc(tApp, swaptypes.ModuleName, swaptypes.KeySwapFee, p.SwapFee)}, "swap-fee"
}

func (w *World) bep3Change(r *Rng, tApp app.TestApp, ctx sdk.Context) ([]paramsproposal.ParamChange, string) {
	p := tApp.GetBep3Keeper().GetParams(ctx)
	if len(p.AssetParams) == 0 {
		return nil, ""
	}
	as := append(bep3types.AssetParams{}, p.AssetParams...)
	a := as[0]
	switch r.Intn(3) {
	case 0:
		a.Active = !a.Active
	case 1:
		a.SupplyLimit.TimeLimited = !a.SupplyLimit.TimeLimited
	default:
		a.MinBlockLock = uint64(pickI(r, 1, 2, 3))
		a.MaxBlockLock = a.MinBlockLock + uint64(pickI(r, 0, 3, 15))
	}
	as[0] = a
	p.AssetParams = as
	if p.Validate() != nil {
		return nil, ""
	}
	return []paramsproposal.ParamChange{pc(tApp, bep3types.ModuleName, bep3types.KeyAssetParams, as)}, "bep3-asset"
}
