package main

import (
	_ "kavaverif/drivers/c14a"
	"kavaverif/lib"
)

func main() { lib.Main("C14a") }
