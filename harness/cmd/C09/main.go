package main

import (
	_ "kavaverif/drivers/c09"
	"kavaverif/lib"
)

func main() { lib.Main("C09") }
