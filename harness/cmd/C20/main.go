package main

import (
	_ "kavaverif/drivers/c20"
	"kavaverif/lib"
)

func main() { lib.Main("C20") }
