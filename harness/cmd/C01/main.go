package main

import (
	_ "kavaverif/drivers/c01"
	"kavaverif/lib"
)

func main() { lib.Main("C01") }
