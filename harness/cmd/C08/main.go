package main

import (
	_ "kavaverif/drivers/c08"
	"kavaverif/lib"
)

func main() { lib.Main("C08") }
