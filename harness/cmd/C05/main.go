package main

import (
	_ "kavaverif/drivers/c05"
	"kavaverif/lib"
)

func main() { lib.Main("C05") }
