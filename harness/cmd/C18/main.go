package main

import (
	_ "kavaverif/drivers/c18"
	"kavaverif/lib"
)

func main() { lib.Main("C18") }
