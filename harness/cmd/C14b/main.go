package main

import (
	_ "kavaverif/drivers/c14b"
	"kavaverif/lib"
)

func main() { lib.Main("C14b") }
