package main

import (
	_ "kavaverif/drivers/c11"
	"kavaverif/lib"
)

func main() { lib.Main("C11") }
