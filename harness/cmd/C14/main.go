package main

import (
	_ "kavaverif/drivers/c14"
	"kavaverif/lib"
)

func main() { lib.Main("C14") }
