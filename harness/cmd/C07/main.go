package main

import (
	_ "kavaverif/drivers/c07"
	"kavaverif/lib"
)

func main() { lib.Main("C07") }
