package main

import (
	_ "kavaverif/drivers/dec"
	"kavaverif/lib"
)

func main() { lib.Main("DEC") }
