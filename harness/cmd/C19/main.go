package main

import (
	_ "kavaverif/drivers/c19"
	"kavaverif/lib"
)

func main() { lib.Main("C19") }
