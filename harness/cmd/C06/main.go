package main

import (
	_ "kavaverif/drivers/c06"
	"kavaverif/lib"
)

func main() { lib.Main("C06") }
