package main

import (
	_ "kavaverif/drivers/c16"
	"kavaverif/lib"
)

func main() { lib.Main("C16") }
