package main

import (
	_ "kavaverif/drivers/c10"
	"kavaverif/lib"
)

func main() { lib.Main("C10") }
