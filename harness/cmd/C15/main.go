package main

import (
	_ "kavaverif/drivers/c15"
	"kavaverif/lib"
)

func main() { lib.Main("C15") }
