// kvh: correspondence harness driver.
//   kvh <property> -seed S -n N [-len L] -out DIR [-replay FILE] [-tier quick|thorough] [-workers W]
package main

import (
	"flag"
	"fmt"
	"os"
	"runtime"

	"kavaverif/drivers"
)

func main() {
	if len(os.Args) < 2 {
		fmt.Fprintln(os.Stderr, "usage: kvh <property> [flags]")
		os.Exit(2)
	}
	prop := os.Args[1]
	fs := flag.NewFlagSet("kvh", flag.ExitOnError)
	seed := fs.Uint64("seed", 1, "PRNG seed")
	n := fs.Int("n", 10, "number of histories")
	l := fs.Int("len", 0, "operations per history (0 = driver default)")
	out := fs.String("out", ".", "output directory")
	replay := fs.String("replay", "", "replay file")
	tier := fs.String("tier", "quick", "tier")
	workers := fs.Int("workers", runtime.NumCPU(), "parallel workers")
	_ = fs.Parse(os.Args[2:])
	d, ok := drivers.Registry[prop]
	if !ok {
		fmt.Fprintf(os.Stderr, "no driver for %s\n", prop)
		os.Exit(2)
	}
	if err := os.MkdirAll(*out, 0o755); err != nil {
		fmt.Fprintln(os.Stderr, err)
		os.Exit(2)
	}
	res, err := d(drivers.Opts{Seed: *seed, N: *n, Len: *l, OutDir: *out, Replay: *replay, Tier: *tier, Workers: *workers})
	if err != nil {
		fmt.Fprintln(os.Stderr, "driver error:", err)
		os.Exit(2)
	}
	if err := drivers.WriteResult(*out, res); err != nil {
		fmt.Fprintln(os.Stderr, err)
		os.Exit(2)
	}
	fmt.Printf("kvh %s: histories=%d evaluations=%d failures=%d shards=%d\n", prop, res.Histories, res.Evaluations, len(res.Failures), len(res.Shards))
}
