package main

import (
	_ "kavaverif/drivers/c17"
	"kavaverif/lib"
)

func main() { lib.Main("C17") }
