package main

import (
	_ "kavaverif/drivers/c13"
	"kavaverif/lib"
)

func main() { lib.Main("C13") }
