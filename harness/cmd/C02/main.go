package main

import (
	_ "kavaverif/drivers/c02"
	"kavaverif/lib"
)

func main() { lib.Main("C02") }
