package main

import (
	_ "kavaverif/drivers/c04"
	"kavaverif/lib"
)

func main() { lib.Main("C04") }
