package main

import (
	_ "kavaverif/drivers/c12"
	"kavaverif/lib"
)

func main() { lib.Main("C12") }
