package main

import (
	_ "kavaverif/drivers/c03"
	"kavaverif/lib"
)

func main() { lib.Main("C03") }
