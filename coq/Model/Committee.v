(* Model of x/committee: types/permissions.go (ParamsChangePermission.Allows,
   allowsParamChange, allowsMultiParamsChange, validateParamChangesAreAllowed),
   keeper/proposal.go (SubmitProposal, AddVote, ValidatePubProposal,
   ProcessProposals, tallies, enactProposal, CloseProposal), abci.go, the gov-side
   committee change/delete handlers (proposal_handler.go), and of what the
   committee router reaches: x/params handleParameterChangeProposal ->
   Subspace.Update (load current, amino-decode the proposed value onto it,
   validate, store), x/upgrade ScheduleUpgrade and the x/community proposal
   handler (NewCommunityPoolProposalHandler: four proposal types, their
   ValidateBasic exactly, the keeper calls behind them as a recorded outcome).
   Definitions only. *)
From Kava Require Import Base.Prelude Base.Dec Model.Json.
Local Open Scope string_scope.
Local Open Scope list_scope.
Local Open Scope Z_scope.

(** * Permission check (types/permissions.go) *)

(* which (subspace, key) a change or rule names *)
Inductive pref :=
| PKnown (i : nat)        (* a registered, set parameter: index into the slot table *)
| PNoSubspace             (* a subspace name that does not exist *)
| PNoKey.                 (* an existing subspace and a key on which Subspace.Update panics: a key that is
                             not registered (a string panic) or - for permissions without sub-parameter
                             rules only - a registered scalar Int / Dec parameter proposed as JSON null
                             (cdp/SurplusThreshold, hard/MinimumBorrowUSDValue: a nil dereference in the
                             registered validator, a runtime-error panic) *)

Definition pref_eqb (a b : pref) : bool :=
  match a, b with
  | PKnown i, PKnown j => Nat.eqb i j
  | PNoSubspace, PNoSubspace | PNoKey, PNoKey => true
  | _, _ => false
  end.

Record subreq := mkReq { sr_key : string; sr_val : jstr; sr_attrs : list string }.
Record allowed_change := mkAC { ac_param : pref; ac_single : list string; ac_multi : list subreq }.

(* the seven permission types of types/permissions.go *)
Inductive permission :=
| PermGod
| PermText
| PermParams (acs : list allowed_change)
| PermUpgrade             (* SoftwareUpgradePermission *)
| PermCdpRepay            (* CommunityCDPRepayDebtPermission *)
| PermCdpWithdraw         (* CommunityCDPWithdrawCollateralPermission *)
| PermLendWithdraw.       (* CommunityPoolLendWithdrawPermission *)
Notation PermOther := PermUpgrade (only parsing).

(* sdk.Coins / sdk.Coin as written in a proposal: denominations are plain strings *)
Definition coin : Type := (string * Z)%type.

(* The contents the committee router can be asked to handle.  The [ok] component
   of the four x/community proposals is a ghost: what the keeper calls behind the
   handler (x/distribution, x/hard, x/cdp - not modelled here) answer on the
   state in which the handler is run next; the driver records it from the
   implementation ([OOracle] refreshes it on stored proposals). *)
Inductive content :=
| CText
| CParam (changes : list (pref * option json))   (* value None: text that is not JSON *)
| CUpgrade (h : Z)        (* SoftwareUpgradeProposal with plan height h *)
| CCommitteeChange        (* routed to "committee", which the committee router does not have *)
| CCancelUpgrade          (* CancelSoftwareUpgradeProposal: same route and handler as CUpgrade *)
| CPoolSpend              (* distribution CommunityPoolSpendProposal: a registered proposal type without a route *)
| CLendDeposit (amt : list coin) (ok : bool)          (* CommunityPoolLendDepositProposal *)
| CLendWithdraw (amt : list coin) (ok : bool)         (* CommunityPoolLendWithdrawProposal *)
| CCdpRepay (ctype : string) (pay : coin) (ok : bool)       (* CommunityCDPRepayDebtProposal *)
| CCdpWithdraw (ctype : string) (coll : coin) (ok : bool)   (* CommunityCDPWithdrawCollateralProposal *)
| CBadMeta (c : content). (* c with a title or description that govv1beta1.ValidateAbstract refuses *)

(* the Go value behind a content: title and description play no part in type switches *)
Fixpoint body (c : content) : content :=
  match c with CBadMeta c' => body c' | _ => c end.

Definition str_in (k : string) (l : list string) : bool := existsb (String.eqb k) l.

(* validateParamChangesAreAllowed: lengths equal; every key OF THE CURRENT MAP is
   present in the incoming map, and is either in the allow-list or has a
   DeepEqual incoming value *)
Definition validate_changes (cur inc : jmap) (allow : list string) : bool :=
  Nat.eqb (List.length cur) (List.length inc)
  && forallb (fun kv => has_key (fst kv) inc
                        && (str_in (fst kv) allow || jeq (snd kv) (mget (fst kv) inc))) cur.

(* current[v.Key] == v.Val : an interface value compared with a string *)
Definition val_is (m : jmap) (k : string) (s : jstr) : bool :=
  match oget k m with Some (JStr x) => jstr_eqb x s | _ => false end.

(* the first incoming record that is not yet paired and carries the key value;
   returns its index (counted from i) and the record *)
Fixpoint find_unmatched (k : string) (s : jstr) (incs : list jmap) (matched : list bool) (i : nat)
  : option (nat * jmap) :=
  match incs, matched with
  | im :: r, m :: mr =>
      if negb m && val_is im k s then Some (i, im) else find_unmatched k s r mr (S i)
  | _, _ => None
  end.

Fixpoint set_nth {A} (i : nat) (v : A) (l : list A) : list A :=
  match l, i with
  | [], _ => []
  | _ :: r, O => v :: r
  | x :: r, S k => x :: set_nth k v r
  end.

(* the loop over the current records of allowsMultiParamsChange; [matched] marks
   the incoming records that are already the counterpart of a current record *)
Fixpoint allows_multi_from (reqs : list subreq) (curs incs : list jmap) (matched : list bool) : bool :=
  match curs with
  | [] => true
  | c :: rest =>
      match find (fun r => val_is c (sr_key r) (sr_val r)) reqs with
      | None => false
      | Some r =>
          match find_unmatched (sr_key r) (sr_val r) incs matched 0 with
          | None => false
          | Some (j, i) =>
              validate_changes c i (sr_attrs r)
              && allows_multi_from reqs rest incs (set_nth j true matched)
          end
      end
  end.

Definition allows_multi (reqs : list subreq) (curs incs : list jmap) : bool :=
  Nat.eqb (List.length curs) (List.length incs)
  && allows_multi_from reqs curs incs (repeat false (List.length incs)).

Inductive rawval := RNoSub | RNil | RVal (j : json).

Definition get_raw (ps : list json) (p : pref) : rawval :=
  match p with
  | PKnown i => match nth_error ps i with Some j => RVal j | None => RNoSub end
  | PNoSubspace => RNoSub
  | PNoKey => RNil
  end.

Definition is_nil {A} (l : list A) : bool := match l with [] => true | _ => false end.

(* allowsParamChange; None = panic *)
Definition allows_change (ac : allowed_change) (raw : rawval) (v : option json) : option bool :=
  if is_nil (ac_single ac) && is_nil (ac_multi ac) then Some true else
  match raw with
  | RNoSub => Some false
  | RNil =>
      match v with
      | None => Some false
      | Some inc => match to_map inc with None => Some false | Some _ => None end
      end
  | RVal cur =>
      match cur with
      | JArr _ =>
          match v with
          | None => Some false
          | Some inc =>
              match to_multi inc with
              | None => Some false
              | Some incs =>
                  match to_multi cur with
                  | None => None
                  | Some curs => Some (allows_multi (ac_multi ac) curs incs)
                  end
              end
          end
      | _ =>
          match v with
          | None => Some false
          | Some inc =>
              match to_map inc with
              | None => Some false
              | Some i =>
                  match to_map cur with
                  | None => None
                  | Some c => Some (validate_changes c i (ac_single ac))
                  end
              end
          end
      end
  end.

Fixpoint any_allows (acs : list allowed_change) (raw : rawval) (v : option json) : option bool :=
  match acs with
  | [] => Some false
  | ac :: r =>
      match allows_change ac raw v with
      | None => None
      | Some true => Some true
      | Some false => any_allows r raw v
      end
  end.

Fixpoint all_changes_allowed (acs : list allowed_change) (ps : list json)
         (chs : list (pref * option json)) : option bool :=
  match chs with
  | [] => Some true
  | (p, v) :: r =>
      match any_allows (filter (fun ac => pref_eqb (ac_param ac) p) acs) (get_raw ps p) v with
      | None => None
      | Some false => Some false
      | Some true => all_changes_allowed acs ps r
      end
  end.

(* the Allows methods, one per permission type: a type assertion on the proposal *)
Definition perm_allows (pm : permission) (ps : list json) (c : content) : option bool :=
  match pm with
  | PermGod => Some true
  | PermText => Some (match body c with CText => true | _ => false end)
  | PermUpgrade => Some (match body c with CUpgrade _ => true | _ => false end)
  | PermCdpRepay => Some (match body c with CCdpRepay _ _ _ => true | _ => false end)
  | PermCdpWithdraw => Some (match body c with CCdpWithdraw _ _ _ => true | _ => false end)
  | PermLendWithdraw => Some (match body c with CLendWithdraw _ _ => true | _ => false end)
  | PermParams acs =>
      match body c with
      | CParam chs => all_changes_allowed acs ps chs
      | _ => Some false
      end
  end.

(* the two type tables the permission matrix is stated over *)
Inductive ptype := PTGod | PTText | PTParams | PTUpgrade | PTCdpRepay | PTCdpWithdraw | PTLendWithdraw.
Inductive ctype := TText | TParam | TUpgrade | TCommitteeChange | TLendDeposit | TLendWithdraw | TCdpRepay | TCdpWithdraw
                 | TCancelUpgrade | TPoolSpend.

Definition ptype_of (pm : permission) : ptype :=
  match pm with
  | PermGod => PTGod | PermText => PTText | PermParams _ => PTParams | PermUpgrade => PTUpgrade
  | PermCdpRepay => PTCdpRepay | PermCdpWithdraw => PTCdpWithdraw | PermLendWithdraw => PTLendWithdraw
  end.

Definition ctype_of (c : content) : ctype :=
  match body c with
  | CText => TText | CParam _ => TParam | CUpgrade _ => TUpgrade | CCommitteeChange => TCommitteeChange
  | CCancelUpgrade => TCancelUpgrade | CPoolSpend => TPoolSpend
  | CLendDeposit _ _ => TLendDeposit | CLendWithdraw _ _ => TLendWithdraw
  | CCdpRepay _ _ _ => TCdpRepay | CCdpWithdraw _ _ _ => TCdpWithdraw
  | CBadMeta _ => TText   (* unreachable: body never returns CBadMeta *)
  end.

Definition ctype_eqb (a b : ctype) : bool :=
  match a, b with
  | TText, TText | TParam, TParam | TUpgrade, TUpgrade | TCommitteeChange, TCommitteeChange
  | TLendDeposit, TLendDeposit | TLendWithdraw, TLendWithdraw | TCdpRepay, TCdpRepay
  | TCdpWithdraw, TCdpWithdraw | TCancelUpgrade, TCancelUpgrade | TPoolSpend, TPoolSpend => true
  | _, _ => false
  end.

(* which content type a permission type can allow at all (for ParamsChangePermission:
   subject to the field-level check) *)
Definition type_allows (p : ptype) (c : ctype) : bool :=
  match p, c with
  | PTGod, _ => true
  | PTText, TText => true
  | PTParams, TParam => true
  | PTUpgrade, TUpgrade => true
  | PTCdpRepay, TCdpRepay => true
  | PTCdpWithdraw, TCdpWithdraw => true
  | PTLendWithdraw, TLendWithdraw => true
  | _, _ => false
  end.

(* BaseCommittee.HasPermissionsFor: the OR of all permissions *)
Fixpoint has_perms (pms : list permission) (ps : list json) (c : content) : option bool :=
  match pms with
  | [] => Some false
  | pm :: r =>
      match perm_allows pm ps c with
      | None => None
      | Some true => Some true
      | Some false => has_perms r ps c
      end
  end.

(** * The params handler (x/params Subspace.Update) *)

Inductive ares := AOk (j : json) | AErr | APanic.

Definition apply_single (sch : schema) (vf : jmap -> bool) (cur inc : json) : ares :=
  match dec_struct sch (zero_rec sch) cur with     (* GetIfExists *)
  | None => APanic
  | Some base =>
      match dec_struct sch base inc with            (* legacyAmino.UnmarshalJSON(value, dest) *)
      | None => AErr
      | Some r => if vf r then AOk (enc_struct sch r) else AErr
      end
  end.

Definition apply_multi (sch : schema) (vf : list jmap -> bool) (cur inc : json) : ares :=
  match dec_slice sch cur with
  | None => APanic
  | Some _ =>
      match dec_slice sch inc with
      | None => AErr
      | Some rs => if vf rs then AOk (enc_slice sch rs) else AErr
      end
  end.

(** ** the registered validation functions of the three modelled parameters *)

Definition gstr (r : jmap) (k : string) : jstr :=
  match bget k r JNull with JStr s => s | _ => SText EmptyString end.
Definition gint (r : jmap) (k : string) : option Z :=        (* None: nil Int (any use panics) *)
  match bget k r JNull with JStr (SInt z) => Some z | _ => None end.
Definition gdec (r : jmap) (k : string) : option Z :=
  match bget k r JNull with JStr (SDec m) => Some m | _ => None end.
Definition gobj (r : jmap) (k : string) : jmap :=
  match bget k r JNull with JObj b => b | _ => [] end.
Definition gz (r : jmap) (k : string) : Z := match gint r k with Some z => z | None => 0 end.

Definition is_alpha (c : ascii) : bool :=
  let n := nat_of_ascii c in
  ((Nat.leb 65 n && Nat.leb n 90) || (Nat.leb 97 n && Nat.leb n 122))%bool.
Definition is_dnm_char (c : ascii) : bool :=
  let n := nat_of_ascii c in
  (is_alpha c || (Nat.leb 48 n && Nat.leb n 57)
   || Nat.eqb n 47 || Nat.eqb n 58 || Nat.eqb n 46 || Nat.eqb n 95 || Nat.eqb n 45)%bool.
Fixpoint all_chars (p : ascii -> bool) (s : string) : bool :=
  match s with EmptyString => true | String c r => p c && all_chars p r end.
(* sdk.ValidateDenom: ^[a-zA-Z][a-zA-Z0-9/:._-]{2,127}$ *)
Definition denom_ok (s : jstr) : bool :=
  match s with
  | SText (String c r) =>
      is_alpha c && all_chars is_dnm_char r && Nat.leb 2 (String.length r) && Nat.leb (String.length r) 127
  | SAddr _ => true          (* a bech32 address is lower-case alphanumeric, 43 characters *)
  | _ => false
  end.
Definition is_space (c : ascii) : bool :=
  let n := nat_of_ascii c in ((Nat.leb 9 n && Nat.leb n 13) || Nat.eqb n 32)%bool.
(* strings.TrimSpace(s) == "" *)
Definition blank (s : jstr) : bool :=
  match s with SText t => all_chars is_space t | _ => false end.

Definition opt_le (a b : option Z) : bool :=
  match a, b with Some x, Some y => x <=? y | _, _ => false end.
Definition opt_lt (a b : option Z) : bool :=
  match a, b with Some x, Some y => x <? y | _, _ => false end.

(* bep3 validateAssetParams; a nil Int makes the function panic, i.e. not valid *)
Definition asset_ok (r : jmap) : bool :=
  let sl := gobj r "supply_limit" in
  denom_ok (gstr r "denom")
  && (0 <=? gz r "coin_id")
  && opt_le (Some 0) (gint sl "limit")
  && opt_le (Some 0) (gint sl "time_based_limit")
  && opt_le (gint sl "time_based_limit") (gint sl "limit")
  && negb (json_eqb (bget "deputy_address" r JNull) (JStr (SText EmptyString)))
  && opt_le (Some 0) (gint r "fixed_fee")
  && (gz r "min_block_lock" <=? gz r "max_block_lock")
  && opt_lt (Some 0) (gint r "min_swap_amount")
  && opt_lt (Some 0) (gint r "max_swap_amount")
  && opt_le (gint r "min_swap_amount") (gint r "max_swap_amount").

Fixpoint nodup_by (key : jmap -> jstr) (l : list jmap) : bool :=
  match l with
  | [] => true
  | r :: t => negb (existsb (fun x => jstr_eqb (key x) (key r)) t) && nodup_by key t
  end.

Definition valid_assets (l : list jmap) : bool :=
  forallb asset_ok l && nodup_by (fun r => gstr r "denom") l.

Definition STABILITY_FEE_MAX : Z := 1000000051034942716.

Definition collateral_ok (r : jmap) : bool :=
  let dl := gobj r "debt_limit" in
  denom_ok (gstr r "denom")
  && negb (blank (gstr r "spot_market_id"))
  && negb (blank (gstr r "type"))
  && negb (blank (gstr r "liquidation_market_id"))
  && denom_ok (gstr dl "denom") && opt_le (Some 0) (gint dl "amount")
  && opt_lt (Some 0) (gdec r "liquidation_ratio")
  && opt_le (Some 0) (gdec r "liquidation_penalty") && opt_le (gdec r "liquidation_penalty") (Some PREC)
  && opt_lt (Some 0) (gint r "auction_size")
  && opt_le (Some PREC) (gdec r "stability_fee") && opt_le (gdec r "stability_fee") (Some STABILITY_FEE_MAX)
  && opt_le (Some 0) (gdec r "keeper_reward_percentage") && opt_le (gdec r "keeper_reward_percentage") (Some PREC)
  && opt_le (Some 0) (gint r "check_collateralization_index_count").

Definition valid_collaterals (l : list jmap) : bool :=
  forallb collateral_ok l && nodup_by (fun r => gstr r "type") l.

Definition valid_debt (r : jmap) : bool := denom_ok (gstr r "denom").

(* validator ids: 0 bep3/AssetParams, 1 cdp/CollateralParams, 2 cdp/DebtParam *)
Definition valid_multi (vid : nat) (l : list jmap) : bool :=
  match vid with 0%nat => valid_assets l | 1%nat => valid_collaterals l | _ => true end.
Definition valid_single (vid : nat) (r : jmap) : bool :=
  match vid with 2%nat => valid_debt r | _ => true end.

Record slot := mkSlot { sl_schema : schema; sl_multi : bool; sl_vid : nat }.

Definition apply_slot (sl : slot) (cur inc : json) : ares :=
  if sl_multi sl then apply_multi (sl_schema sl) (valid_multi (sl_vid sl)) cur inc
  else apply_single (sl_schema sl) (valid_single (sl_vid sl)) cur inc.

(* handleParameterChangeProposal *)
Fixpoint run_changes (sls : list slot) (ps : list json) (chs : list (pref * option json))
  : outcome (list json) unit :=
  match chs with
  | [] => Ok ps tt
  | (p, v) :: r =>
      match p with
      | PNoSubspace => Err
      | PNoKey => Panic                      (* Subspace.Update: "parameter %s not registered", or the validator's nil dereference *)
      | PKnown i =>
          match nth_error sls i, nth_error ps i with
          | Some sl, Some cur =>
              match v with
              | None => Err
              | Some inc =>
                  match apply_slot sl cur inc with
                  | AOk j => run_changes sls (set_nth i j ps) r
                  | AErr => Err
                  | APanic => Panic
                  end
              end
          | _, _ => Err
          end
      end
  end.

(** ** proposal contents: ValidateBasic *)

(* sdk.Coins.Validate on a non-empty list: every denomination valid, amounts
   positive, denominations strictly ascending *)
Fixpoint coins_sorted_from (low : string) (l : list coin) : bool :=
  match l with
  | [] => true
  | (d, a) :: r => denom_ok (SText d) && String.ltb low d && (0 <? a) && coins_sorted_from d r
  end.
Definition coins_valid (l : list coin) : bool :=
  match l with
  | [] => true
  | (d, a) :: r => denom_ok (SText d) && (0 <? a) && coins_sorted_from d r
  end.
Definition coins_zero (l : list coin) : bool := forallb (fun c => snd c =? 0) l.
(* sdk.Coin.IsValid && !IsZero *)
Definition coin_pos (c : coin) : bool := denom_ok (SText (fst c)) && (0 <=? snd c) && negb (snd c =? 0).

(* the content's own ValidateBasic (title and description aside) *)
Definition validate_basic (c : content) : bool :=
  match c with
  | CText => true
  | CParam chs => negb (is_nil chs)
  | CUpgrade h => 0 <? h                                  (* Plan.ValidateBasic *)
  | CCommitteeChange | CCancelUpgrade | CPoolSpend => true
  | CLendDeposit amt _ | CLendWithdraw amt _ => coins_valid amt && negb (coins_zero amt)
  | CCdpRepay ct x _ | CCdpWithdraw ct x _ => negb (blank (SText ct)) && coin_pos x
  | CBadMeta _ => false                                   (* govv1beta1.ValidateAbstract *)
  end.

(* committeeGovRouter of app.go: gov (text), community, params, upgrade *)
Definition has_route (c : content) : bool :=
  match body c with CCommitteeChange | CPoolSpend => false | _ => true end.

(* types/codec.go RegisterInterfaces: the proposal types a MsgSubmitProposal can carry
   (its Any is unpacked against PubProposal when the transaction is decoded).  The
   committee's own change proposal and the community lend-deposit proposal are not among them. *)
Definition decodable (c : content) : bool :=
  match body c with CCommitteeChange | CLendDeposit _ _ => false | _ => true end.

(* the routed handler at block height [ht]; CCommitteeChange has no route and is
   never run.  The upgrade handler (x/upgrade ScheduleUpgrade) refuses a plan
   whose height is below the current block height; its effect, the stored plan, is applied
   by [enact_state] below.  The community handler dispatches on the proposal type
   to one keeper call each, whose verdict is the ghost [ok]. *)
Definition run_handler (sls : list slot) (ht : Z) (ps : list json) (c : content) : outcome (list json) unit :=
  match body c with
  | CText => Ok ps tt
  | CParam chs => run_changes sls ps chs
  | CUpgrade h => if (h <=? 0) || (h <? ht) then Err else Ok ps tt
  | CCancelUpgrade => Ok ps tt                       (* ClearUpgradePlan *)
  | CLendDeposit _ ok | CLendWithdraw _ ok | CCdpRepay _ _ ok | CCdpWithdraw _ _ ok =>
      if ok then Ok ps tt else Err
  | CCommitteeChange | CPoolSpend | CBadMeta _ => Err
  end.

(* keeper.ValidatePubProposal: ValidateBasic, route exists, dry run on a cached
   context with panics recovered *)
Definition validate_pub (sls : list slot) (ht : Z) (ps : list json) (c : content) : bool :=
  validate_basic c && has_route c
  && match run_handler sls ht ps c with Ok _ _ => true | _ => false end.

(** * Committees, proposals, votes *)

Inductive tally_opt := FPTP | AtDeadline.
Inductive ckind := CMember | CToken (quorum : Z).

Record committee := mkCom {
  c_id : nat;
  c_kind : ckind;
  c_members : list nat;
  c_perms : list permission;
  c_threshold : Z;             (* Dec mantissa *)
  c_duration : Z;              (* time.Duration: nanoseconds *)
  c_tally : tally_opt
}.

Record proposal := mkProp { p_id : nat; p_com : nat; p_deadline : Z; p_content : content }.

(* v_time is a ghost field: the block time at which the vote was cast *)
Record vote := mkVote { v_pid : nat; v_voter : nat; v_type : Z; v_time : Z }.

Inductive poutcome := Passed | Failed | Invalid.

Record state := mkState {
  params : list json;          (* stored amino-JSON documents, one per slot *)
  coms : list committee;       (* ascending id *)
  props : list proposal;       (* ascending id *)
  votes : list vote;           (* ascending (proposal id, voter) *)
  next_id : nat;
  bals : list Z;               (* tally-denom balance per account *)
  supply : Z;                  (* tally-denom supply *)
  now : Z;                     (* block time: an instant in nanoseconds (the driver counts from genesis);
                                  deadlines are instants too and are compared as such (time.Before),
                                  never by their whole seconds *)
  height : Z;                  (* block height *)
  plan : Z;                    (* height of the scheduled upgrade plan, 0 = none *)
  enacted : list Z             (* how often each x/community handler ran for good:
                                  lend deposit, lend withdraw, cdp repay, cdp withdraw *)
}.

Definition set_params (s : state) (ps : list json) : state :=
  mkState ps (coms s) (props s) (votes s) (next_id s) (bals s) (supply s) (now s) (height s) (plan s) (enacted s).
Definition set_pv (s : state) (pr : list proposal) (vs : list vote) : state :=
  mkState (params s) (coms s) pr vs (next_id s) (bals s) (supply s) (now s) (height s) (plan s) (enacted s).
Definition set_coms (s : state) (cs : list committee) : state :=
  mkState (params s) cs (props s) (votes s) (next_id s) (bals s) (supply s) (now s) (height s) (plan s) (enacted s).
Definition set_bals (s : state) (bs : list Z) : state :=
  mkState (params s) (coms s) (props s) (votes s) (next_id s) bs (supply s) (now s) (height s) (plan s) (enacted s).

(* which of the four counters a content's enactment moves *)
Definition community_idx (c : content) : option nat :=
  match body c with
  | CLendDeposit _ _ => Some 0%nat | CLendWithdraw _ _ => Some 1%nat
  | CCdpRepay _ _ _ => Some 2%nat | CCdpWithdraw _ _ _ => Some 3%nat
  | _ => None
  end.
Definition bump (c : content) (l : list Z) : list Z :=
  match community_idx c with Some i => set_nth i (nth i l 0 + 1) l | None => l end.

(* what a successful handler run leaves behind *)
Definition enact_state (s : state) (c : content) (ps : list json) : state :=
  mkState ps (coms s) (props s) (votes s) (next_id s) (bals s) (supply s) (now s) (height s)
          (match body c with CUpgrade h => h | CCancelUpgrade => 0 | _ => plan s end)
          (bump c (enacted s)).

Definition find_com (s : state) (id : nat) : option committee :=
  find (fun c => Nat.eqb (c_id c) id) (coms s).
Definition find_prop (s : state) (id : nat) : option proposal :=
  find (fun p => Nat.eqb (p_id p) id) (props s).
Definition mem_nat (x : nat) (l : list nat) : bool := existsb (Nat.eqb x) l.

Definition votes_of (s : state) (pid : nat) : list vote :=
  filter (fun v => Nat.eqb (v_pid v) pid) (votes s).

Definition bal_of (s : state) (a : nat) : Z := nth a (bals s) 0.

(* GetMemberCommitteeProposalResult / GetTokenCommitteeProposalResult *)
Definition sum_votes (s : state) (f : vote -> bool) (vs : list vote) : Z :=
  zsum (map (fun v => if f v then dec_of_int (bal_of s (v_voter v)) else 0) vs).

(* the whole-token weight of the votes selected by [f] (specification side: the tally
   restated in integers, see token_tally_exact) *)
Definition weight (s : state) (f : vote -> bool) (vs : list vote) : Z :=
  zsum (map (fun v => if f v then bal_of s (v_voter v) else 0) vs).

Definition tally (s : state) (c : committee) (pid : nat) : bool :=
  let vs := votes_of s pid in
  match c_kind c with
  | CMember =>
      dec_mul (c_threshold c) (dec_of_int (Z.of_nat (List.length (c_members c))))
        <=? dec_of_int (Z.of_nat (List.length vs))
  | CToken quorum =>
      let yes := sum_votes s (fun v => v_type v =? 1) vs in
      let no := sum_votes s (fun v => v_type v =? 2) vs in
      let total := sum_votes s (fun _ => true) vs in
      (dec_mul quorum (dec_of_int (supply s)) <=? total)
      && (dec_mul (yes + no) (c_threshold c) <=? yes)
  end.

(* DeleteProposalAndVotes *)
Definition close (s : state) (pid : nat) : state :=
  set_pv s (filter (fun p => negb (Nat.eqb (p_id p) pid)) (props s))
           (filter (fun v => negb (Nat.eqb (v_pid v) pid)) (votes s)).

(* attemptEnactProposal / enactProposal *)
Definition attempt_enact (sls : list slot) (s : state) (p : proposal) : outcome state poutcome :=
  match find_com s (p_com p) with
  | None => Ok s Invalid
  | Some c =>
      match has_perms (c_perms c) (params s) (p_content p) with
      | None => Panic
      | Some false => Ok s Invalid
      | Some true =>
          (* the dry run on a cached context ... *)
          if negb (validate_pub sls (height s) (params s) (p_content p)) then Ok s Invalid
          else
            (* ... then the real run, whose failure would be a panic *)
            match run_handler sls (height s) (params s) (p_content p) with
            | Ok ps _ => Ok (enact_state s (p_content p) ps) Passed
            | _ => Panic                      (* "unexpected handler error" *)
            end
      end
  end.

(* the body of the ProcessProposals callback for one proposal *)
Definition process_one (sls : list slot) (s : state) (p : proposal) : outcome state (option poutcome) :=
  match find_com s (p_com p) with
  | None => Ok (close s (p_id p)) (Some Failed)
  | Some c =>
      if now s <? p_deadline p then
        match c_tally c with
        | FPTP =>
            if tally s c (p_id p) then
              match attempt_enact sls s p with
              | Ok s1 oc => Ok (close s1 (p_id p)) (Some oc)
              | _ => Panic
              end
            else Ok s None
        | AtDeadline => Ok s None
        end
      else
        if tally s c (p_id p) then
          match attempt_enact sls s p with
          | Ok s1 oc => Ok (close s1 (p_id p)) (Some oc)
          | _ => Panic
          end
        else Ok (close s (p_id p)) (Some Failed)
  end.

Fixpoint process_all (sls : list slot) (s : state) (l : list proposal) : outcome state (list (nat * poutcome)) :=
  match l with
  | [] => Ok s []
  | p :: r =>
      match process_one sls s p with
      | Ok s1 oc =>
          match process_all sls s1 r with
          | Ok s2 evs => Ok s2 (match oc with Some x => (p_id p, x) :: evs | None => evs end)
          | _ => Panic
          end
      | _ => Panic
      end
  end.

Definition process_proposals (sls : list slot) (s : state) := process_all sls s (props s).

Definition vote_lt (v w : vote) : bool :=
  Nat.ltb (v_pid v) (v_pid w) || (Nat.eqb (v_pid v) (v_pid w) && Nat.ltb (v_voter v) (v_voter w)).

Fixpoint vote_put (v : vote) (l : list vote) : list vote :=
  match l with
  | [] => [v]
  | w :: r =>
      if Nat.eqb (v_pid w) (v_pid v) && Nat.eqb (v_voter w) (v_voter v) then v :: r
      else if vote_lt v w then v :: w :: r
      else w :: vote_put v r
  end.

Fixpoint com_put (c : committee) (l : list committee) : list committee :=
  match l with
  | [] => [c]
  | d :: r =>
      if Nat.eqb (c_id d) (c_id c) then c :: r
      else if Nat.ltb (c_id c) (c_id d) then c :: d :: r
      else d :: com_put c r
  end.

Fixpoint nodup_nat (l : list nat) : bool :=
  match l with [] => true | x :: r => negb (mem_nat x r) && nodup_nat r end.

(* BaseCommittee.Validate / TokenCommittee.Validate *)
Definition committee_valid (c : committee) : bool :=
  negb (is_nil (c_members c)) && nodup_nat (c_members c)
  && (0 <=? c_duration c)
  && (0 <? c_threshold c) && (c_threshold c <=? PREC)
  && match c_kind c with CMember => true | CToken q => (0 <=? q) && (q <=? PREC) end.

Inductive op :=
| OAllows (pm : permission) (c : content)           (* Permission.Allows, a query *)
| OApply (c : content)                              (* the routed handler called directly (as x/gov would), panics recovered *)
| OSubmit (proposer com : nat) (c : content)        (* MsgSubmitProposal *)
| OVote (pid voter : nat) (vt : Z)                  (* MsgVote *)
| OBegin (t : Z)                                    (* next block at time t: committee BeginBlocker *)
| OTransfer (a b : nat) (x : Z)                     (* bank send of the tally denom *)
| OSetCommittee (c : committee)                     (* gov: CommitteeChangeProposal handler *)
| ODeleteCommittee (id : nat)                       (* gov: CommitteeDeleteProposal handler *)
| OOracle (l : list (nat * bool)).                  (* ghost: what the community keeper calls of stored
                                                       proposals will answer when they are run next *)

Inductive out :=
| OutNone
| OutBool (b : bool)
| OutId (n : nat)
| OutClosed (l : list (nat * poutcome)).

Definition close_all_of (s : state) (cid : nat) : state * list (nat * poutcome) :=
  let mine := filter (fun p => Nat.eqb (p_com p) cid) (props s) in
  (fold_left (fun st p => close st (p_id p)) mine s, map (fun p => (p_id p, Failed)) mine).

Definition set_ok (c : content) (b : bool) : content :=
  match c with
  | CLendDeposit a _ => CLendDeposit a b
  | CLendWithdraw a _ => CLendWithdraw a b
  | CCdpRepay t x _ => CCdpRepay t x b
  | CCdpWithdraw t x _ => CCdpWithdraw t x b
  | _ => c
  end.

Definition oracle_prop (l : list (nat * bool)) (p : proposal) : proposal :=
  match find (fun e => Nat.eqb (fst e) (p_id p)) l with
  | Some e => mkProp (p_id p) (p_com p) (p_deadline p) (set_ok (p_content p) (snd e))
  | None => p
  end.

Definition step (sls : list slot) (s : state) (o : op) : outcome state out :=
  match o with
  | OAllows pm c =>
      match perm_allows pm (params s) c with
      | None => Panic
      | Some b => Ok s (OutBool b)
      end
  | OApply c =>
      match body c with
      | CCommitteeChange | CPoolSpend | CUpgrade _ | CCancelUpgrade => Err   (* the upgrade handler is not driven directly *)
      | _ => if validate_pub sls (height s) (params s) c
             then match run_handler sls (height s) (params s) c with
                  | Ok ps _ => Ok (enact_state s c ps) OutNone
                  | _ => Err
                  end
             else Err
      end
  | OSubmit proposer cid c =>
      (* decoding of the transaction, then MsgSubmitProposal.ValidateBasic, before the message reaches the keeper *)
      if negb (decodable c) then Err else
      if negb (validate_basic c) then Err else
      match find_com s cid with
      | None => Err
      | Some cm =>
          if negb (mem_nat proposer (c_members cm)) then Err else
          match has_perms (c_perms cm) (params s) c with
          | None => Panic
          | Some false => Err
          | Some true =>
              if negb (validate_pub sls (height s) (params s) c) then Err else
              let p := mkProp (next_id s) cid (now s + c_duration cm) c in
              Ok (mkState (params s) (coms s) (props s ++ [p]) (votes s) (S (next_id s))
                          (bals s) (supply s) (now s) (height s) (plan s) (enacted s))
                 (OutId (next_id s))
          end
      end
  | OVote pid voter vt =>
      if negb ((1 <=? vt) && (vt <=? 3)) then Err else
      match find_prop s pid with
      | None => Err
      | Some p =>
          if p_deadline p <=? now s then Err else
          match find_com s (p_com p) with
          | None => Err
          | Some cm =>
              let refused :=
                match c_kind cm with
                | CMember => negb (mem_nat voter (c_members cm)) || negb (vt =? 1)
                | CToken _ => false
                end in
              if refused then Err
              else Ok (set_pv s (props s) (vote_put (mkVote pid voter vt (now s)) (votes s))) OutNone
          end
      end
  | OBegin t =>
      if t <? now s then Err else
      let s0 := mkState (params s) (coms s) (props s) (votes s) (next_id s) (bals s) (supply s) t (height s + 1) (plan s) (enacted s) in
      match process_proposals sls s0 with
      | Ok s1 evs => Ok s1 (OutClosed evs)
      | _ => Panic
      end
  | OTransfer a b x =>
      if (0 <? x) && (x <=? bal_of s a) && Nat.ltb a (List.length (bals s)) && Nat.ltb b (List.length (bals s)) then
        let b1 := set_nth a (bal_of s a - x) (bals s) in
        let b2 := set_nth b (nth b b1 0 + x) b1 in
        Ok (set_bals s b2) OutNone
      else Err
  | OSetCommittee c =>
      if negb (committee_valid c) then Err else
      let '(s1, evs) := close_all_of s (c_id c) in
      Ok (set_coms s1 (com_put c (coms s1))) (OutClosed evs)
  | ODeleteCommittee id =>
      let '(s1, evs) := close_all_of s id in
      Ok (set_coms s1 (filter (fun c => negb (Nat.eqb (c_id c) id)) (coms s1))) (OutClosed evs)
  | OOracle l =>
      Ok (set_pv s (map (oracle_prop l) (props s)) (votes s)) OutNone
  end.

Definition step' (sls : list slot) (s : state) (o : op) : state :=
  match step sls s o with Ok s' _ => s' | _ => s end.

Definition run (sls : list slot) (s : state) (ops : list op) : state :=
  fold_left (step' sls) ops s.

(** * The schema table the proofs were written against (compared on every run
      with the table the driver derives by reflection from the Go types) *)

Definition supply_limit_fields : list sfield :=
  [("limit", KInt, false); ("time_limited", KBool, true); ("time_period", KI64, false);
   ("time_based_limit", KInt, false)]%string.

Definition asset_schema : schema :=
  [mkField "denom" (KS KStr) true; mkField "coin_id" (KS KI64) true;
   mkField "supply_limit" (KObj supply_limit_fields) false; mkField "active" (KS KBool) true;
   mkField "deputy_address" (KS KAddr) true; mkField "fixed_fee" (KS KInt) false;
   mkField "min_swap_amount" (KS KInt) false; mkField "max_swap_amount" (KS KInt) false;
   mkField "min_block_lock" (KS KU64) true; mkField "max_block_lock" (KS KU64) true]%string.

Definition coin_fields : list sfield := [("denom", KStr, true); ("amount", KInt, false)]%string.

Definition collateral_schema : schema :=
  [mkField "denom" (KS KStr) true; mkField "type" (KS KStr) true;
   mkField "liquidation_ratio" (KS KDec) false; mkField "debt_limit" (KObj coin_fields) false;
   mkField "stability_fee" (KS KDec) false; mkField "auction_size" (KS KInt) false;
   mkField "liquidation_penalty" (KS KDec) false; mkField "spot_market_id" (KS KStr) true;
   mkField "liquidation_market_id" (KS KStr) true; mkField "keeper_reward_percentage" (KS KDec) false;
   mkField "check_collateralization_index_count" (KS KInt) false;
   mkField "conversion_factor" (KS KInt) false]%string.

Definition debt_schema : schema :=
  [mkField "denom" (KS KStr) true; mkField "reference_asset" (KS KStr) true;
   mkField "conversion_factor" (KS KInt) false; mkField "debt_floor" (KS KInt) false]%string.

Definition std_slots : list slot :=
  [mkSlot asset_schema true 0; mkSlot collateral_schema true 1; mkSlot debt_schema false 2].

(** * Correspondence-check support *)

Inductive rclass := ROk | RErr | RPanic.
Definition rclass_eqb (a b : rclass) : bool :=
  match a, b with ROk, ROk | RErr, RErr | RPanic, RPanic => true | _, _ => false end.
Definition class_of {S O} (r : outcome S O) : rclass :=
  match r with Ok _ _ => ROk | Err => RErr | Panic => RPanic end.

Fixpoint list_eqb {A B} (eqb : A -> B -> bool) (l1 : list A) (l2 : list B) : bool :=
  match l1, l2 with
  | [], [] => true
  | x :: r1, y :: r2 => eqb x y && list_eqb eqb r1 r2
  | _, _ => false
  end.

Definition poutcome_eqb (a b : poutcome) : bool :=
  match a, b with Passed, Passed | Failed, Failed | Invalid, Invalid => true | _, _ => false end.

Definition out_eqb (a b : out) : bool :=
  match a, b with
  | OutNone, OutNone => true
  | OutBool x, OutBool y => Bool.eqb x y
  | OutId x, OutId y => Nat.eqb x y
  | OutClosed x, OutClosed y =>
      list_eqb (fun p q => Nat.eqb (fst p) (fst q) && poutcome_eqb (snd p) (snd q)) x y
  | _, _ => false
  end.

(* what the harness records after each operation *)
Record obs := mkObs {
  o_class : rclass;
  o_out : out;                          (* verdict / new id / proposal_close events in order *)
  o_params : list (nat * json);         (* stored documents that changed: (slot, new raw value) *)
  o_props : list (nat * nat * Z);       (* raw proposal store: (id, committee, deadline) *)
  o_votes : list (nat * nat * Z);       (* raw vote store: (proposal, voter, type), sorted *)
  o_next : nat;
  o_bals : list Z;
  o_plan : Z;                           (* height of the stored upgrade plan, 0 = none *)
  o_ctypes : list nat;                  (* Go type of each stored proposal's content, in store order *)
  o_enacted : list Z                    (* community keeper calls committed so far, by kind (from the keepers' events) *)
}.

Definition ctype_tag (t : ctype) : nat :=
  match t with
  | TText => 0 | TParam => 1 | TUpgrade => 2 | TCommitteeChange => 3
  | TLendDeposit => 4 | TLendWithdraw => 5 | TCdpRepay => 6 | TCdpWithdraw => 7
  | TCancelUpgrade => 8 | TPoolSpend => 9
  end%nat.

Definition field_eqb (a b : field) : bool :=
  String.eqb (f_name a) (f_name b) && Bool.eqb (f_omit a) (f_omit b)
  && match f_kind a, f_kind b with
     | KS x, KS y => skind_eqb x y
     | KObj x, KObj y =>
         list_eqb (fun p q => String.eqb (fst (fst p)) (fst (fst q)) && skind_eqb (snd (fst p)) (snd (fst q))
                              && Bool.eqb (snd p) (snd q)) x y
     | _, _ => false
     end.
Definition slot_eqb (a b : slot) : bool :=
  list_eqb field_eqb (sl_schema a) (sl_schema b) && Bool.eqb (sl_multi a) (sl_multi b)
  && Nat.eqb (sl_vid a) (sl_vid b).

Fixpoint sorted_ids (lo : option nat) (l : list nat) : bool :=
  match l with
  | [] => true
  | x :: r => (match lo with None => true | Some p => Nat.ltb p x end) && sorted_ids (Some x) r
  end.

(* boolean form of the store invariants (evaluated on every model state) *)
Definition inv_b (s : state) : bool :=
  sorted_ids None (map p_id (props s))
  && forallb (fun p => Nat.ltb (p_id p) (next_id s)) (props s)
  && forallb (fun v => match find_prop s (v_pid v) with
                       | Some p => v_time v <? p_deadline p
                       | None => false
                       end) (votes s)
  && sorted_ids None (map c_id (coms s)).

Definition proj_ok (s : state) (sh : list json) (ob : obs) : bool :=
  list_eqb json_eqb (params s) sh
  && list_eqb (fun p q => Nat.eqb (p_id p) (fst (fst q)) && Nat.eqb (p_com p) (snd (fst q)) && (p_deadline p =? snd q))
       (props s) (o_props ob)
  && list_eqb (fun v q => Nat.eqb (v_pid v) (fst (fst q)) && Nat.eqb (v_voter v) (snd (fst q)) && (v_type v =? snd q))
       (votes s) (o_votes ob)
  && Nat.eqb (next_id s) (o_next ob)
  && list_eqb Z.eqb (bals s) (o_bals ob)
  && (plan s =? o_plan ob)
  && list_eqb Nat.eqb (map (fun p => ctype_tag (ctype_of (p_content p))) (props s)) (o_ctypes ob)
  && list_eqb Z.eqb (enacted s) (o_enacted ob).

Fixpoint first_mismatch (sls : list slot) (s : state) (sh : list json) (h : list (op * obs)) (i : nat) : option nat :=
  match h with
  | [] => None
  | (o, ob) :: r =>
      let res := step sls s o in
      let s' := match res with Ok s1 _ => s1 | _ => s end in
      let sh' := fold_left (fun l p => set_nth (fst p) (snd p) l) (o_params ob) sh in
      let out_ok := match res with Ok _ x => out_eqb x (o_out ob) | _ => true end in
      if rclass_eqb (class_of res) (o_class ob) && out_ok && proj_ok s' sh' ob && inv_b s'
      then first_mismatch sls s' sh' r (S i)
      else Some i
  end.

Record history := mkHist {
  h_slots : list slot;       (* derived by the driver from the Go types by reflection *)
  h_init : state;
  h_steps : list (op * obs)
}.

Definition check_history (h : history) : option nat :=
  if list_eqb slot_eqb (h_slots h) std_slots && forallb (fun sl => schema_ok (sl_schema sl)) (h_slots h)
     && inv_b (h_init h) && Nat.eqb (List.length (enacted (h_init h))) 4
  then first_mismatch (h_slots h) (h_init h) (params (h_init h)) (h_steps h) 0
  else Some 0%nat.

Fixpoint mismatches_from (i : nat) (hs : list history) : list (nat * nat) :=
  match hs with
  | [] => []
  | h :: r =>
      match check_history h with
      | None => mismatches_from (S i) r
      | Some k => (i, k) :: mismatches_from (S i) r
      end
  end.
Definition mismatches := mismatches_from 0.
