(* Model of x/pricefeed (keeper/keeper.go, keeper/msg_server.go, keeper/params.go,
   abci.go, types/msgs.go ValidateBasic) and of the price guards the consumers
   run before acting: x/cdp (ValidateCollateral + the market-status flags kept by
   UpdatePricefeedStatus in the begin blocker, CalculateCollateralizationRatio,
   ValidateLiquidation, LiquidateCdps) and x/hard (ValidateBorrow,
   IsWithinValidLtvRange / LoadLiquidationData).  Definitions only.

   Markets are numbered 0 .. nmarkets-1 and oracle addresses 0 .. noracles-1 (the
   finite universe of identifiers that occur in a history).  Prices are LegacyDec
   mantissas, times are Unix nanoseconds. *)
From Kava Require Import Base.Prelude Base.Dec.
Local Open Scope Z_scope.

(** * CalculateMedianPrice *)

(* sort.Slice(prices, LT): any sorting algorithm gives the same list of values
   (Proofs/Pricefeed.v: sorted_perm_unique); insertion sort is the executable one *)
Fixpoint insert (x : Z) (l : list Z) : list Z :=
  match l with
  | [] => [x]
  | y :: r => if x <=? y then x :: l else y :: insert x r
  end.
Fixpoint isort (l : list Z) : list Z :=
  match l with [] => [] | x :: r => insert x (isort r) end.

(* calculateMeanPrice: sum.Quo(sdk.NewDec(2)) *)
Definition mean_price (a b : Z) : Z := dec_quo (dec_add a b) (dec_of_int 2).

(* the middle of a sorted slice: prices[l/2] for odd l, mean of prices[l/2-1], prices[l/2] for even l *)
Definition middle (s : list Z) : Z :=
  let n := length s in
  if Nat.even n then mean_price (nth (n / 2 - 1) s 0) (nth (n / 2) s 0)
  else nth (n / 2) s 0.

Definition median (l : list Z) : Z :=
  match l with
  | [x] => x                       (* l == 1: returned immediately *)
  | _ => middle (isort l)
  end.

(* None: Go indexes prices[-1] of an empty slice and panics; both callers test
   len(notExpiredPrices) == 0 first *)
Definition calculate_median_price (l : list Z) : option Z :=
  match l with [] => None | _ => Some (median l) end.

(** * State *)

Record market := mkMarket { m_id : nat; m_active : bool; m_oracles : list nat }.

Record env := mkEnv {
  nmarkets : nat;
  noracles : nat;
  collaterals : list (nat * nat)     (* cdp collateral types: (SpotMarketID, LiquidationMarketID) *)
}.

Record state := mkState {
  now : Z;                                  (* ctx.BlockTime() *)
  markets : list market;                    (* params.Markets *)
  raw : nat -> nat -> option (Z * Z);       (* RawPriceFeedPrefix | market | oracle -> (price, expiry) *)
  cur : nat -> option Z;                    (* CurrentPricePrefix | market -> price (entry present or not) *)
  status : nat -> bool                      (* x/cdp PricefeedStatusKeyPrefix | market *)
}.

Definition with_now (s : state) (t : Z) := mkState t (markets s) (raw s) (cur s) (status s).
Definition with_markets (s : state) (ms : list market) := mkState (now s) ms (raw s) (cur s) (status s).
Definition with_raw (s : state) (r : nat -> nat -> option (Z * Z)) := mkState (now s) (markets s) r (cur s) (status s).
Definition with_cur (s : state) (c : nat -> option Z) := mkState (now s) (markets s) (raw s) c (status s).
Definition with_status (s : state) (st : nat -> bool) := mkState (now s) (markets s) (raw s) (cur s) st.

(* params.go GetMarket / GetOracles: the first market with that id *)
Fixpoint find_market (m : nat) (ms : list market) : option market :=
  match ms with
  | [] => None
  | k :: r => if Nat.eqb (m_id k) m then Some k else find_market m r
  end.

Definition mem (x : nat) (l : list nat) : bool := existsb (Nat.eqb x) l.

(** * GetCurrentPrice: a missing entry and a zero price are both "no valid price" *)
Definition get_current_price (s : state) (m : nat) : option Z :=
  match cur s m with
  | None => None
  | Some p => if p =? 0 then None else Some p
  end.

Definition avail (s : state) (m : nat) : bool :=
  match get_current_price s m with Some _ => true | None => false end.

(** * MsgPostPrice: ValidateBasic, msg server PostPrice, keeper SetPrice *)
Definition NS : Z := 1000000000.

Definition post (s : state) (o m : nat) (price expiry : Z) : outcome state (list Z) :=
  if price <? 0 then Err                          (* ValidateBasic: price cannot be negative *)
  else if expiry / NS <=? 0 then Err              (* ValidateBasic: Expiry.Unix() <= 0 *)
  else match find_market m (markets s) with
       | None => Err                              (* GetOracles: ErrInvalidMarket *)
       | Some k =>
           if negb (mem o (m_oracles k)) then Err (* GetOracle: ErrInvalidOracle *)
           else if expiry <=? now s then Err      (* SetPrice: !expiry.After(blockTime) => ErrExpired *)
           else Ok (with_raw s (upd2 (raw s) m o (Some (price, expiry)))) []
       end.

(** * Expiry filter *)
Definition live_of (t : Z) (r : option (Z * Z)) : list Z :=
  match r with
  | Some (p, ex) => if t <? ex then [p] else []   (* v.Expiry.After(ctx.BlockTime()) *)
  | None => []
  end.

(* the unexpired prices of a market, in store (oracle address) order *)
Definition live (e : env) (s : state) (m : nat) : list Z :=
  flat_map (fun o => live_of (now s) (raw s m o)) (seq 0 (noracles e)).

(* the value both implementations store: zero when nothing is live, else the median;
   None would be the Go panic of CalculateMedianPrice on an empty slice *)
Definition market_price (e : env) (s : state) (m : nat) : option Z :=
  match live e s m with
  | [] => Some 0
  | l => calculate_median_price l
  end.

(** * SetCurrentPricesForAllMarkets (EndBlocker) *)
Definition active_ids (ms : list market) : list nat := map m_id (filter m_active ms).

Fixpoint set_all_loop (e : env) (s0 : state) (ids : list nat) (c : nat -> option Z) : option (nat -> option Z) :=
  match ids with
  | [] => Some c
  | m :: r =>
      match market_price e s0 m with
      | Some p => set_all_loop e s0 r (upd c m (Some p))
      | None => None
      end
  end.

Definition set_all (e : env) (s : state) : outcome state (list Z) :=
  match set_all_loop e s (active_ids (markets s)) (cur s) with
  | Some c => Ok (with_cur s c) []
  | None => Panic
  end.

(** * SetCurrentPrices(marketID) (genesis; exported to x/cdp).  The function writes
    the zero price and *then* returns ErrNoValidPrice, so the state after the call
    and the result class are returned separately. *)
Inductive rclass := ROk | RErr | RPanic.

Definition set_one (e : env) (s : state) (m : nat) : state * rclass :=
  match find_market m (markets s) with
  | None => (s, RErr)
  | Some _ =>
      match live e s m with
      | [] => (with_cur s (upd (cur s) m (Some 0)), RErr)
      | l => match calculate_median_price l with
             | Some p => (with_cur s (upd (cur s) m (Some p)), ROk)
             | None => (s, RPanic)
             end
      end
  end.

(** * x/cdp begin blocker: the pricefeed-status part *)
Definition update_status (s : state) (m : nat) : state * bool :=   (* UpdatePricefeedStatus *)
  let ok := avail s m in (with_status s (upd (status s) m ok), ok).

(* for every collateral param: spot, then liquidation; `continue` on the first that is
   down; the flag says whether the loop body went on to interest accumulation,
   synchronisation and LiquidateCdps *)
Fixpoint begin_loop (s : state) (cps : list (nat * nat)) : state * list bool :=
  match cps with
  | [] => (s, [])
  | (sp, lq) :: r =>
      let '(s1, ok1) := update_status s sp in
      if negb ok1 then let '(s', fl) := begin_loop s1 r in (s', false :: fl)
      else
        let '(s2, ok2) := update_status s1 lq in
        let '(s', fl) := begin_loop s2 r in (s', ok2 :: fl)
  end.

Definition begin_block (e : env) (s : state) (t : Z) : state * list bool :=
  begin_loop (with_now s t) (collaterals e).

(** * Consumer guards: what the cdp and hard entry points look at before acting *)
Inductive consumer :=
| CdpCreate (ct : nat)                          (* AddCdp *)
| CdpDeposit (ct : nat)                         (* DepositCollateral *)
| CdpWithdraw (ct : nat) (rest_zero : bool)     (* WithdrawCollateral; rest_zero: the remaining collateral is zero *)
| CdpDraw (ct : nat) (coll_zero : bool)         (* AddPrincipal; coll_zero: cdp.Collateral is zero *)
| CdpLiquidate (ct : nat) (coll_zero : bool)    (* AttemptKeeperLiquidation *)
| HardBorrow (needed : list nat)                (* ValidateBorrow: markets of requested, deposited and borrowed denoms *)
| HardWithdraw (needed : list nat)              (* IsWithinValidLtvRange(proposed deposit, borrow) *)
| HardLiquidate (needed : list nat).            (* IsWithinValidLtvRange(deposit, borrow), LoadLiquidationData *)

(* (market statuses consulted by ValidateCollateral, prices read with GetCurrentPrice);
   None: unknown collateral type *)
Definition needs (e : env) (c : consumer) : option (list nat * list nat) :=
  let coll ct := nth_error (collaterals e) ct in
  match c with
  | CdpCreate ct => match coll ct with Some (sp, lq) => Some ([sp; lq], [sp]) | None => None end
  | CdpDeposit ct => match coll ct with Some (sp, lq) => Some ([sp; lq], []) | None => None end
  | CdpWithdraw ct rz => match coll ct with Some (sp, lq) => Some ([sp; lq], if rz then [] else [sp]) | None => None end
  | CdpDraw ct cz => match coll ct with Some (sp, lq) => Some ([], if cz then [] else [sp]) | None => None end
  | CdpLiquidate ct cz => match coll ct with Some (sp, lq) => Some ([], if cz then [] else [lq]) | None => None end
  | HardBorrow l => Some ([], l)
  | HardWithdraw l => Some ([], l)
  | HardLiquidate l => Some ([], l)
  end.

(* [rest] is the result class of everything the entry point does apart from the
   price guards (taken from the implementation): the operation can only get that
   far when every consulted status is up and every needed price is available *)
Definition consume (e : env) (s : state) (c : consumer) (rest : rclass) : outcome state (list Z) :=
  match needs e c with
  | None => Err
  | Some (sts, prs) =>
      if forallb (status s) sts && forallb (avail s) prs
      then match rest with ROk => Ok s [] | RErr => Err | RPanic => Panic end
      else Err
  end.

(** * Parameter changes (governance / committee: keeper.SetParams) *)
Fixpoint nodup_nat (l : list nat) : bool :=
  match l with [] => true | x :: r => negb (mem x r) && nodup_nat r end.

(* Markets.Validate: no duplicated market, no duplicated oracle within a market *)
Definition markets_valid (ms : list market) : bool :=
  nodup_nat (map m_id ms) && forallb (fun k => nodup_nat (m_oracles k)) ms.

Definition in_universe (e : env) (ms : list market) : bool :=
  forallb (fun k => Nat.ltb (m_id k) (nmarkets e) && forallb (fun o => Nat.ltb o (noracles e)) (m_oracles k)) ms.

Definition set_markets (e : env) (s : state) (ms : list market) : outcome state (list Z) :=
  if negb (in_universe e ms) then Err             (* outside the identifiers of this history: not generated *)
  else if negb (markets_valid ms) then Panic      (* paramSubspace.SetParamSet panics on a validation error *)
  else Ok (with_markets s ms) [].

(** * Operations *)
Inductive op :=
| BeginBlock (t : Z)
| EndBlock
| Post (o m : nat) (price expiry : Z)
| SetMarkets (ms : list market)
| ProbeOne (m : nat)               (* SetCurrentPrices(m) on a branch of the store that is discarded *)
| Consume (c : consumer) (rest : rclass).

Definition rcode (r : rclass) : Z := match r with ROk => 0 | RErr => 1 | RPanic => 2 end.
Definition optz (o : option Z) : Z := match o with Some p => p | None => -1 end.
Definition b2z (b : bool) : Z := if b then 1 else 0.

Definition step (e : env) (s : state) (o : op) : outcome state (list Z) :=
  match o with
  | BeginBlock t => let '(s', fl) := begin_block e s t in Ok s' (map b2z fl)
  | EndBlock => set_all e s
  | Post o m p ex => if Nat.ltb o (noracles e) && Nat.ltb m (nmarkets e) then post s o m p ex else Err
  | SetMarkets ms => set_markets e s ms
  | ProbeOne m => let '(s', r) := set_one e s m in Ok s [rcode r; optz (cur s' m)]
  | Consume c rest => consume e s c rest
  end.

Definition step' (e : env) (s : state) (o : op) : state :=
  match step e s o with Ok s' _ => s' | _ => s end.

Definition run (e : env) (s : state) (ops : list op) : state := fold_left (step' e) ops s.

(** * Correspondence-check support *)
Definition rclass_eqb (a b : rclass) : bool :=
  match a, b with ROk, ROk | RErr, RErr | RPanic, RPanic => true | _, _ => false end.
Definition class_of {S O} (r : outcome S O) : rclass :=
  match r with Ok _ _ => ROk | Err => RErr | Panic => RPanic end.
Definition out_of {S} (r : outcome S (list Z)) : list Z :=
  match r with Ok _ o => o | _ => [] end.

(* what the harness records after each operation; store contents as changes
   relative to the previous observation (raw store reads, not keeper getters) *)
Record obs := mkObs {
  o_class : rclass;
  o_out : list Z;
  o_draw : list (nat * nat * Z * Z);     (* raw-price entries written: market, oracle, price, expiry *)
  o_dcur : list (nat * Z);               (* current-price entries written *)
  o_status : list bool;                  (* cdp market status, every market *)
  o_get : list (option Z)                (* keeper.GetCurrentPrice, every market *)
}.

Fixpoint list_eqb {A} (eqb : A -> A -> bool) (l1 l2 : list A) : bool :=
  match l1, l2 with
  | [], [] => true
  | x :: r1, y :: r2 => eqb x y && list_eqb eqb r1 r2
  | _, _ => false
  end.

Definition optz_eqb (a b : option Z) : bool :=
  match a, b with Some x, Some y => x =? y | None, None => true | _, _ => false end.
Definition optzz_eqb (a b : option (Z * Z)) : bool :=
  match a, b with
  | Some (x, y), Some (x', y') => (x =? x') && (y =? y')
  | None, None => true
  | _, _ => false
  end.

Definition project (e : env) (s : state) : list (list (option (Z * Z))) * list (option Z) * list bool :=
  (map (fun m => map (fun o => raw s m o) (seq 0 (noracles e))) (seq 0 (nmarkets e)),
   map (cur s) (seq 0 (nmarkets e)),
   map (status s) (seq 0 (nmarkets e))).

Definition proj_eqb (p q : list (list (option (Z * Z))) * list (option Z) * list bool) : bool :=
  let '(r, c, st) := p in
  let '(r', c', st') := q in
  list_eqb (list_eqb optzz_eqb) r r' && list_eqb optz_eqb c c' && list_eqb Bool.eqb st st'.

Definition nthB (l : list bool) (i : nat) : bool := nth i l false.

Definition apply_obs (sh : state) (o : obs) : state :=
  let r := fold_left (fun f x => let '(m, a, p, ex) := x in upd2 f m a (Some (p, ex))) (o_draw o) (raw sh) in
  let c := fold_left (fun f x => upd f (fst x) (Some (snd x))) (o_dcur o) (cur sh) in
  mkState (now sh) (markets sh) r c (nthB (o_status o)).

(* boolean invariant evaluated on every model state: no negative raw or current price *)
Definition inv_b (e : env) (s : state) : bool :=
  forallb (fun m =>
    forallb (fun o => match raw s m o with Some (p, _) => 0 <=? p | None => true end) (seq 0 (noracles e))
    && match cur s m with Some p => 0 <=? p | None => true end) (seq 0 (nmarkets e)).

Fixpoint first_mismatch (e : env) (s sh : state) (h : list (op * obs)) (i : nat) : option nat :=
  match h with
  | [] => None
  | (o, ob) :: r =>
      let res := step e s o in
      let s' := match res with Ok s1 _ => s1 | _ => s end in
      let sh' := apply_obs sh ob in
      if rclass_eqb (class_of res) (o_class ob)
         && list_eqb Z.eqb (out_of res) (o_out ob)
         && proj_eqb (project e s') (project e sh')
         && list_eqb optz_eqb (map (get_current_price s') (seq 0 (nmarkets e))) (o_get ob)
         && inv_b e s'
      then first_mismatch e s' sh' r (S i)
      else Some i
  end.

Definition mk_state (t : Z) (ms : list market) (rw : list (nat * nat * Z * Z)) (cu : list (nat * Z)) (st : list bool) : state :=
  mkState t ms
    (fold_left (fun f x => let '(m, a, p, ex) := x in upd2 f m a (Some (p, ex))) rw (fun _ _ => None))
    (fold_left (fun f x => upd f (fst x) (Some (snd x))) cu (fun _ => None))
    (nthB st).

Record history := mkHist {
  h_env : env;
  h_init : state;
  h_steps : list (op * obs)
}.

Definition check_history (h : history) : option nat :=
  if inv_b (h_env h) (h_init h)
  then first_mismatch (h_env h) (h_init h) (h_init h) (h_steps h) 0
  else Some 0%nat.

Fixpoint mismatches_from (i : nat) (hs : list history) : list (nat * nat) :=
  match hs with
  | [] => []
  | h :: r =>
      match check_history h with
      | None => mismatches_from (S i) r
      | Some k => (i, k) :: mismatches_from (S i) r
      end
  end.
Definition mismatches := mismatches_from 0.
