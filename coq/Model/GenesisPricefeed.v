(* x/pricefeed/genesis.go (ExportGenesis, InitGenesis) and types/genesis.go,
   types/market.go (GenesisState.Validate, Markets.Validate, PostedPrices.Validate)
   over the state of Model/Pricefeed.v.  Definitions only.

   The genesis state of the module holds the params (markets) and the posted prices;
   the current prices are NOT exported: InitGenesis recomputes them.  The cdp market
   status flags live in x/cdp's store and are untouched by a pricefeed import. *)
From Kava Require Import Base.Prelude Base.Dec Model.Pricefeed.
Local Open Scope Z_scope.

(* PostedPrice: market, oracle, price mantissa, expiry (unix ns) *)
Definition ppost := (nat * nat * Z * Z)%type.

Record genesis := mkGen { g_markets : list market; g_posts : list ppost }.

(** * ExportGenesis *)

(* keeper.GetRawPrices(market): the prefix iterator over RawPriceFeedPrefix | len | market | ..,
   in oracle-address order *)
Definition raw_prices (e : env) (s : state) (m : nat) : list ppost :=
  flat_map (fun o => match raw s m o with Some (p, ex) => [(m, o, p, ex)] | None => [] end)
           (seq 0 (noracles e)).

(* for _, market := range k.GetMarkets(ctx) { postedPrices = append(postedPrices, k.GetRawPrices(ctx, market.MarketID)...) }
   - posts of a market that is no longer in the params are not exported *)
Definition export_genesis (e : env) (s : state) : genesis :=
  mkGen (markets s) (flat_map (fun k => raw_prices e s (m_id k)) (markets s)).

(** * GenesisState.Validate *)

Definition pair_eqb (a b : nat * nat) : bool := Nat.eqb (fst a) (fst b) && Nat.eqb (snd a) (snd b).

(* PostedPrices.Validate: seenPrices[MarketID + OracleAddress] *)
Fixpoint nodup_pairs (seen : list (nat * nat)) (l : list ppost) : bool :=
  match l with
  | [] => true
  | (m, o, _, _) :: r => negb (existsb (pair_eqb (m, o)) seen) && nodup_pairs ((m, o) :: seen) r
  end.

(* PostedPrice.Validate: price not negative, Expiry.Unix() > 0 (identifiers are never blank here) *)
Definition post_valid (x : ppost) : bool :=
  let '(_, _, p, ex) := x in (0 <=? p) && (0 <? ex / NS).

Definition validate_genesis (g : genesis) : bool :=
  markets_valid (g_markets g) && forallb post_valid (g_posts g) && nodup_pairs [] (g_posts g).

(** * InitGenesis *)

(* for _, pp := range gs.PostedPrices { if pp.Expiry.After(ctx.BlockTime()) { SetPrice(...) ; err => panic } }
   keeper.SetPrice only fails with ErrExpired, which the guard excludes: the branch that
   panics is kept (None) so that a change of either condition shows *)
Fixpoint import_posts (t : Z) (r : nat -> nat -> option (Z * Z)) (l : list ppost) : option (nat -> nat -> option (Z * Z)) :=
  match l with
  | [] => Some r
  | (m, o, p, ex) :: rest =>
      if t <? ex                                   (* pp.Expiry.After(ctx.BlockTime()) *)
      then if ex <=? t then None                   (* SetPrice: !expiry.After(blockTime) => ErrExpired => panic *)
           else import_posts t (upd2 r m o (Some (p, ex))) rest
      else import_posts t r rest
  end.

Definition has_raw (e : env) (s : state) (m : nat) : bool :=
  match raw_prices e s m with [] => false | _ => true end.

(* for _, market := range params.Markets { if !Active continue; if len(GetRawPrices) == 0 continue;
   err := SetCurrentPrices(id); err => panic } *)
Fixpoint init_cur_loop (e : env) (s : state) (ms : list market) : option state :=
  match ms with
  | [] => Some s
  | k :: r =>
      if negb (m_active k) then init_cur_loop e s r
      else if negb (has_raw e s (m_id k)) then init_cur_loop e s r
      else match set_one e s (m_id k) with
           | (s', ROk) => init_cur_loop e s' r
           | _ => None
           end
  end.

(* [t], [st]: block time of the context and the cdp status flags (another module's store);
   the pricefeed store is empty when InitGenesis starts *)
Definition init_genesis (e : env) (t : Z) (st : nat -> bool) (g : genesis) : outcome state (list Z) :=
  if negb (markets_valid (g_markets g)) then Panic       (* k.SetParams: SetParamSet panics on invalid markets *)
  else match import_posts t (fun _ _ => None) (g_posts g) with
       | None => Panic
       | Some r =>
           let s0 := mkState t (g_markets g) r (fun _ => None) st in
           match init_cur_loop e s0 (g_markets g) with
           | Some s' => Ok s' []
           | None => Panic
           end
       end.

(** * The wrapper machine: ordinary operations and in-place re-import *)

Inductive gop :=
| GOp (o : op)
| GReimport
| GProbe (g : genesis).   (* a (perturbed) genesis state validated, and imported on a discarded branch *)

Definition reimport (e : env) (s : state) : outcome state (list Z) :=
  let g := export_genesis e s in
  match init_genesis e (now s) (status s) g with
  | Ok s' _ => Ok s' [b2z (validate_genesis g)]
  | Err => Err
  | Panic => Panic
  end.

(* GenesisState.Validate() of an arbitrary genesis state and the result class of InitGenesis
   on an emptied store (state discarded), which the implementation runs on every probed state.
   x/pricefeed's InitGenesis does NOT call GenesisState.Validate: what it refuses is what
   SetParams, SetPrice and SetCurrentPrices refuse (see [init_genesis]) *)
Definition probe (e : env) (s : state) (g : genesis) : list Z :=
  [(if validate_genesis g then 1 else 0); rcode (class_of (init_genesis e (now s) (status s) g))].

Definition gstep (e : env) (s : state) (o : gop) : outcome state (list Z) :=
  match o with
  | GOp x => step e s x
  | GReimport => reimport e s
  | GProbe g => Ok s (probe e s g)
  end.

Definition gstep' (e : env) (s : state) (o : gop) : state :=
  match gstep e s o with Ok s' _ => s' | _ => s end.

Definition grun (e : env) (s : state) (ops : list gop) : state := fold_left (gstep' e) ops s.

(** * Correspondence-check support *)

(* after a re-import the harness records the store in full (entries may have disappeared),
   and the genesis state the real ExportGenesis produced *)
Inductive gobs :=
| ObsStep (o : obs)
| ObsFull (o : obs) (g : genesis).     (* o_draw / o_dcur of [o] list ALL entries of the store *)

Definition market_eqb (a b : market) : bool :=
  Nat.eqb (m_id a) (m_id b) && Bool.eqb (m_active a) (m_active b) && list_eqb Nat.eqb (m_oracles a) (m_oracles b).

Definition ppost_eqb (a b : ppost) : bool :=
  let '(m, o, p, ex) := a in let '(m', o', p', ex') := b in
  Nat.eqb m m' && Nat.eqb o o' && (p =? p') && (ex =? ex').

Definition genesis_eqb (a b : genesis) : bool :=
  list_eqb market_eqb (g_markets a) (g_markets b) && list_eqb ppost_eqb (g_posts a) (g_posts b).

Definition the_obs (o : gobs) : obs := match o with ObsStep x => x | ObsFull x _ => x end.

Definition gapply_obs (sh : state) (o : gobs) : state :=
  match o with
  | ObsStep x => apply_obs sh x
  | ObsFull x _ => apply_obs (mkState (now sh) (markets sh) (fun _ _ => None) (fun _ => None) (status sh)) x
  end.

Definition export_matches (e : env) (s : state) (o : gop) (ob : gobs) : bool :=
  match o, ob with
  | GReimport, ObsFull _ g => genesis_eqb (export_genesis e s) g
  | GReimport, ObsStep _ => false
  | GOp _, _ => true
  | GProbe _, _ => true
  end.

Fixpoint gfirst_mismatch (e : env) (s sh : state) (h : list (gop * gobs)) (i : nat) : option nat :=
  match h with
  | [] => None
  | (o, ob) :: r =>
      let res := gstep e s o in
      let s' := match res with Ok s1 _ => s1 | _ => s end in
      let sh' := gapply_obs sh ob in
      if rclass_eqb (class_of res) (o_class (the_obs ob))
         && list_eqb Z.eqb (out_of res) (o_out (the_obs ob))
         && export_matches e s o ob
         && proj_eqb (project e s') (project e sh')
         && list_eqb optz_eqb (map (get_current_price s') (seq 0 (nmarkets e))) (o_get (the_obs ob))
         && inv_b e s'
      then gfirst_mismatch e s' sh' r (S i)
      else Some i
  end.

Record ghistory := mkGHist {
  gh_env : env;
  gh_init : state;
  gh_steps : list (gop * gobs)
}.

Definition gcheck_history (h : ghistory) : option nat :=
  if inv_b (gh_env h) (gh_init h)
  then gfirst_mismatch (gh_env h) (gh_init h) (gh_init h) (gh_steps h) 0
  else Some 0%nat.

Fixpoint gmismatches_from (i : nat) (hs : list ghistory) : list (nat * nat) :=
  match hs with
  | [] => []
  | h :: r =>
      match gcheck_history h with
      | None => gmismatches_from (S i) r
      | Some k => (i, k) :: gmismatches_from (S i) r
      end
  end.
Definition gmismatches := gmismatches_from 0.
