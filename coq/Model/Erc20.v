(* Abstract ERC20 ledgers: the behaviour assumed of the deployed bytecode.

   [Oz]     OpenZeppelin 4.x ERC20 as compiled into x/evmutil/types/ethermint_json
            (ERC20MintableBurnable for EVM-native pairs, ERC20KavaWrappedCosmosCoin
            for the module-deployed wrappers): balances, total supply, allowances;
            every entry point refuses the zero address; an allowance of 2^256-1 is
            "infinite" and is not spent by transferFrom.
   [Refund] an adversarial token (test data of the harness: hand-assembled
            bytecode) whose transfer() also grants the sender an allowance of the
            amount over the recipient's balance and announces it with an Approval
            event; no zero-address checks, unchecked (wrapping) additions, no total
            supply, mint open to anybody, no approve/burn entry points.

   "Modelled, not verified": the correspondence check observes balanceOf /
   totalSupply / allowances of the real contracts in the real EVM after every
   step of every history.  Definitions only. *)
From Kava Require Import Base.Prelude.

(* uint256 arguments: go-ethereum's abi.Pack encodes a *big.Int with
   math.U256Bytes, i.e. reduces it modulo 2^256 (negative values wrap). *)
Definition U256 : Z := 2 ^ 256.
Definition u256 (x : Z) : Z := x mod U256.

Inductive ckind := Oz | Refund.

Record ledger := mkLedger {
  ebal : nat -> Z;            (* _balances *)
  etot : Z;                   (* _totalSupply *)
  eallow : nat -> nat -> Z    (* _allowances: owner, spender *)
}.

Definition empty_ledger : ledger := mkLedger (fun _ => 0) 0 (fun _ _ => 0).

(** * OpenZeppelin ERC20 ([z] is the zero address) *)

(* ERC20._transfer(from, to, amount): reverts for the zero address on either
   side and when the sender's balance is smaller than the amount; a transfer to
   oneself nets to no change. *)
Definition erc_transfer (z : nat) (l : ledger) (f t : nat) (x : Z) : option ledger :=
  if Nat.eqb f z || Nat.eqb t z then None else
  let v := u256 x in
  if v <=? ebal l f then
    let b1 := upd (ebal l) f (ebal l f - v) in
    Some (mkLedger (upd b1 t (b1 t + v)) (etot l) (eallow l))
  else None.

(* ERC20._mint(to, amount): not to the zero address; checked addition on the total supply. *)
Definition erc_mint (z : nat) (l : ledger) (t : nat) (x : Z) : option ledger :=
  if Nat.eqb t z then None else
  let v := u256 x in
  if etot l + v <? U256 then
    Some (mkLedger (upd (ebal l) t (ebal l t + v)) (etot l + v) (eallow l))
  else None.

(* ERC20._burn(from, amount) *)
Definition erc_burn (z : nat) (l : ledger) (f : nat) (x : Z) : option ledger :=
  if Nat.eqb f z then None else
  let v := u256 x in
  if v <=? ebal l f then
    Some (mkLedger (upd (ebal l) f (ebal l f - v)) (etot l - v) (eallow l))
  else None.

(* ERC20.approve(spender, amount) called by owner [o] *)
Definition erc_approve (z : nat) (l : ledger) (o sp : nat) (x : Z) : option ledger :=
  if Nat.eqb o z || Nat.eqb sp z then None else
  Some (mkLedger (ebal l) (etot l) (upd2 (eallow l) o sp (u256 x))).

(* ERC20.transferFrom(from, to, amount) called by spender [sp]:
   _spendAllowance (skipped for the infinite allowance), then _transfer *)
Definition erc_transfer_from (z : nat) (l : ledger) (sp f t : nat) (x : Z) : option ledger :=
  let v := u256 x in
  let a := eallow l f sp in
  let spent :=
    if a =? U256 - 1 then Some l else
    if v <=? a then erc_approve z l f sp (a - v) else None in
  match spent with
  | None => None
  | Some l1 => erc_transfer z l1 f t x
  end.

(** * the adversarial "refundable transfer" token *)

Definition rf_mint (l : ledger) (t : nat) (x : Z) : ledger :=
  mkLedger (upd (ebal l) t (u256 (ebal l t + u256 x))) (etot l) (eallow l).

(* transfer(to, amt) by [f]: moves the tokens and sets allowance[to][f] = amt *)
Definition rf_transfer (l : ledger) (f t : nat) (x : Z) : option ledger :=
  let v := u256 x in
  if ebal l f <? v then None else
  let b1 := upd (ebal l) f (ebal l f - v) in
  Some (mkLedger (upd b1 t (u256 (b1 t + v))) (etot l) (upd2 (eallow l) t f v)).

(* transferFrom(from, to, amt) by [sp] *)
Definition rf_transfer_from (l : ledger) (sp f t : nat) (x : Z) : option ledger :=
  let v := u256 x in
  let a := eallow l f sp in
  if a <? v then None else
  if ebal l f <? v then None else
  let b1 := upd (ebal l) f (ebal l f - v) in
  Some (mkLedger (upd b1 t (u256 (b1 t + v))) (etot l) (upd2 (eallow l) f sp (a - v))).
