(* Abstract ERC20 ledger: the behaviour assumed of the deployed bytecode
   (OpenZeppelin ERC20 as compiled into x/evmutil/types/ethermint_json:
   ERC20MintableBurnable for EVM-native pairs, ERC20KavaWrappedCosmosCoin for
   the module-deployed wrappers).  "Modelled, not verified": the correspondence
   check observes balanceOf/totalSupply of the real contracts in the real EVM
   after every step of every history.  Definitions only. *)
From Kava Require Import Base.Prelude.

(* uint256 arguments: go-ethereum's abi.Pack encodes a *big.Int with
   math.U256Bytes, i.e. reduces it modulo 2^256 (negative values wrap). *)
Definition U256 : Z := 2 ^ 256.
Definition u256 (x : Z) : Z := x mod U256.

Record ledger := mkLedger {
  ebal : nat -> Z;      (* _balances *)
  etot : Z              (* _totalSupply *)
}.

Definition empty_ledger : ledger := mkLedger (fun _ => 0) 0.

(* ERC20._transfer(from, to, amount): reverts when the sender's balance is
   smaller than the amount; a transfer to oneself nets to no change. *)
Definition erc_transfer (l : ledger) (f t : nat) (x : Z) : option ledger :=
  let v := u256 x in
  if v <=? ebal l f then
    let b1 := upd (ebal l) f (ebal l f - v) in
    Some (mkLedger (upd b1 t (b1 t + v)) (etot l))
  else None.

(* ERC20._mint(to, amount): checked addition on the total supply. *)
Definition erc_mint (l : ledger) (t : nat) (x : Z) : option ledger :=
  let v := u256 x in
  if etot l + v <? U256 then
    Some (mkLedger (upd (ebal l) t (ebal l t + v)) (etot l + v))
  else None.

(* ERC20._burn(from, amount) *)
Definition erc_burn (l : ledger) (f : nat) (x : Z) : option ledger :=
  let v := u256 x in
  if v <=? ebal l f then
    Some (mkLedger (upd (ebal l) f (ebal l f - v)) (etot l - v))
  else None.
