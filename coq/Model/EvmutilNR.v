(* A third kind of pair token: an OLD-STYLE ERC20 whose transfer() does not revert when the sender's
   balance is too small — it returns false and moves nothing.  (Test data of the harness: a
   hand-assembled token with balanceOf / totalSupply / mint / transfer; like OpenZeppelin's it refuses
   the zero address as recipient and checks the total supply on mint, so that no balance can
   overflow; it has no approve / transferFrom / burn entry points: those calls revert.)

   LockERC20Tokens / UnlockERC20Tokens call transfer() and then compare the balance before and
   after: for such a token THE BALANCE-DELTA CHECK is what refuses a conversion whose transfer moved
   nothing.

   Model/Evmutil.v's [ckind] is not extended (no constructor is added): this file wraps its [step].
   [nr c] marks the table contracts with this bytecode; for every operation that reaches such a
   contract [xstep] runs the semantics below, every other operation is the [step] of
   Model/Evmutil.v.  (The base environment's [pkind] of such a contract is Oz: apart from the
   differences spelled out here the two bytecodes agree, which is what Proofs/EvmutilNR.v uses to
   carry the theorems of Model/Evmutil.v over.)  Definitions only + correspondence-check support. *)
From Kava Require Import Base.Prelude Model.Erc20 Model.Evmutil.

(** * the token *)

(* transfer(to, amt) by [f]: to the zero address reverts (None); a balance that is too small: returns
   false, nothing moved (Some of the unchanged ledger); otherwise the tokens move (as in
   OpenZeppelin's; balances cannot overflow because mint checks the total supply) *)
Definition nr_transfer (z : nat) (l : ledger) (f t : nat) (x : Z) : option ledger :=
  if Nat.eqb f z || Nat.eqb t z then None else
  let v := u256 x in
  if v <=? ebal l f then
    let b1 := upd (ebal l) f (ebal l f - v) in
    Some (mkLedger (upd b1 t (b1 t + v)) (etot l) (eallow l))
  else Some l.

(* mint(to, amt), open to anybody: not to the zero address, checked addition on the total supply *)
Definition nr_mint (z : nat) (l : ledger) (t : nat) (x : Z) : option ledger := erc_mint z l t x.

(** * the two conversions through a pair whose token is of this kind (conversion_evm_native.go; the
      token logs no Approval event) *)

Definition conv_erc20_to_coin_nr (e : env) (s : state) (i r c : nat) (x : Z) : outcome state unit :=
  match pair_of_ctr s c with
  | None => Err
  | Some d =>
    let mint := if is_bep3 e d then x / K10 else x in
    let lock := if is_bep3 e d then (x / K10) * K10 else x in
    if is_bep3 e d && (mint =? 0) then Err else
    if Nat.leb (next s) c then Err else
    let l := erc s c in
    let start := ebal l i in
    match nr_transfer (zacc e) l i (macc e) lock with
    | None => Err
    | Some l1 =>
      (* LockERC20Tokens: expectedEndBal = start - amount must be the balance read back *)
      if negb (start - lock =? ebal l1 i) then Err else
      let s1 := set_erc s c l1 in
      let s2 := bank_mint e s1 d mint in
      match send_mod_to_acc e s2 r d mint with
      | None => Err
      | Some s3 => Ok s3 tt
      end
    end
  end.

Definition conv_coin_to_erc20_nr (e : env) (s : state) (i r d c : nat) (x : Z) : outcome state unit :=
  match bank_send s i (macc e) d x with
  | None => Err
  | Some s1 =>
    match bank_burn e s1 d x with
    | None => Err
    | Some s2 =>
      let unlock := if is_bep3 e d then x * K10 else x in
      if Nat.leb (next s2) c then Err else
      let l := erc s2 c in
      let start := ebal l r in
      match nr_transfer (zacc e) l (macc e) r unlock with
      | None => Err
      | Some l1 =>
        if negb (start + unlock =? ebal l1 r) then Err else
        Ok (set_erc s2 c l1) tt
      end
    end
  end.

(* LockERC20Tokens with the expected end balance clamped at zero ("balances are uint256"): NOT the
   model of /repo; used to show what the exact comparison protects against
   (Proofs/EvmutilNR.v clamped_check_mints_unbacked) *)
Definition conv_erc20_to_coin_nr_clamped (e : env) (s : state) (i r c : nat) (x : Z) : outcome state unit :=
  match pair_of_ctr s c with
  | None => Err
  | Some d =>
    let mint := if is_bep3 e d then x / K10 else x in
    let lock := if is_bep3 e d then (x / K10) * K10 else x in
    if is_bep3 e d && (mint =? 0) then Err else
    if Nat.leb (next s) c then Err else
    let l := erc s c in
    let start := ebal l i in
    match nr_transfer (zacc e) l i (macc e) lock with
    | None => Err
    | Some l1 =>
      if negb (Z.max 0 (start - lock) =? ebal l1 i) then Err else
      let s1 := set_erc s c l1 in
      let s2 := bank_mint e s1 d mint in
      match send_mod_to_acc e s2 r d mint with
      | None => Err
      | Some s3 => Ok s3 tt
      end
    end
  end.

(** * operations *)

Definition xstep (e : env) (nr : nat -> bool) (s : state) (o : op) : outcome state unit :=
  match o with
  | ConvERC20ToCoin dr i r c x =>
      if nr c then (if amount_ok dr x then conv_erc20_to_coin_nr e s i r c x else Err) else step e s o
  | ConvCoinToERC20 dr i r d x =>
      match pair_of_denom s d with
      | Some c => if nr c then (if amount_ok dr x then conv_coin_to_erc20_nr e s i r d c x else Err) else step e s o
      | None => step e s o
      end
  | ErcTransfer c f t x =>
      if nr c && Nat.ltb c (next s) then
        match nr_transfer (zacc e) (erc s c) f t x with
        | Some l => Ok (set_erc s c l) tt       (* also when transfer() returned false *)
        | None => Err
        end
      else step e s o
  | ErcMint c t x =>
      if nr c && Nat.ltb c (next s) then
        match nr_mint (zacc e) (erc s c) t x with
        | Some l => Ok (set_erc s c l) tt
        | None => Err
        end
      else step e s o
  | ErcApprove c _ _ _ | ErcTransferFrom c _ _ _ _ =>
      if nr c && Nat.ltb c (next s) then Err        (* no such entry point: the dispatcher reverts *)
      else step e s o
  | _ => step e s o
  end.

Definition xstep' (e : env) (nr : nat -> bool) (s : state) (o : op) : state :=
  match xstep e nr s o with Ok s' _ => s' | _ => s end.

Definition xrun (e : env) (nr : nat -> bool) (s : state) (ops : list op) : state :=
  fold_left (xstep' e nr) ops s.

Fixpoint xtx_step (e : env) (nr : nat -> bool) (s : state) (tx : list op) : outcome state unit :=
  match tx with
  | [] => Ok s tt
  | o :: r =>
      match xstep e nr s o with
      | Ok s1 _ => xtx_step e nr s1 r
      | Err => Err
      | Panic => Panic
      end
  end.

Definition xtx_step' (e : env) (nr : nat -> bool) (s : state) (tx : list op) : state :=
  match xtx_step e nr s tx with Ok s' _ => s' | _ => s end.

Definition xrun_txs (e : env) (nr : nat -> bool) (s : state) (txs : list (list op)) : state :=
  fold_left (xtx_step' e nr) txs s.

(** * correspondence-check support *)
Fixpoint first_mismatch_x (e : env) (nr : nat -> bool) (s sh : state) (h : list (list op * obs)) (i : nat) : option nat :=
  match h with
  | [] => None
  | (tx, ob) :: r =>
      let res := xtx_step e nr s tx in
      let s' := match res with Ok s1 _ => s1 | _ => s end in
      let sh' := apply_obs sh ob in
      if rclass_eqb (class_of res) (o_class ob)
         && zll_eqb (project e s') (project e sh')
         && inv_b e s'
      then first_mismatch_x e nr s' sh' r (S i)
      else Some i
  end.

Record xhistory := mkHistX {
  xh_env : env;
  xh_nr : list bool;          (* the table contracts with the old-style bytecode *)
  xh_init : state;
  xh_steps : list (list op * obs)
}.

Definition check_xhistory (h : xhistory) : option nat :=
  if inv_b (xh_env h) (xh_init h)
  then first_mismatch_x (xh_env h) (nthB (xh_nr h)) (xh_init h) (xh_init h) (xh_steps h) 0
  else Some 0%nat.

Fixpoint xmismatches_from (i : nat) (hs : list xhistory) : list (nat * nat) :=
  match hs with
  | [] => []
  | h :: r =>
      match check_xhistory h with
      | None => xmismatches_from (S i) r
      | Some k => (i, k) :: xmismatches_from (S i) r
      end
  end.
Definition mismatches_x := xmismatches_from 0.
