(* Model of the parts of cosmos-sdk x/staking (fork v0.47.10-kava.1) that
   x/liquid and app/tally_handler.go call: types/validator.go share arithmetic
   (AddTokensFromDel, RemoveDelShares, TokensFromShares(Truncated),
   SharesFromTokens(Truncated)), keeper/delegation.go (Delegate, Unbond,
   ValidateUnbondAmount, Undelegate, BeginRedelegation), slash.go (Slash at the
   current height, Jail, Unjail) and the validator-set / maturity part of the end
   blocker (val_state_change.go, validator.go UnbondAllMatureValidators).
   The state also carries the bank balances the property talks about (ukava of
   each account, the liquid-staking derivative denoms in wallet / savings / earn
   and their supplies).  Definitions only. *)
From Kava Require Import Base.Prelude Base.Dec.
Local Open Scope Z_scope.

Definition POWER_RED : Z := 1000000.        (* sdk.DefaultPowerReduction *)

Inductive vstatus := Unbonded | Unbonding | Bonded.
Definition vstatus_eqb (a b : vstatus) : bool :=
  match a, b with Unbonded, Unbonded | Unbonding, Unbonding | Bonded, Bonded => true | _, _ => false end.

Record validator := mkVal {
  v_exists : bool;      (* present in the validator store *)
  v_tokens : Z;         (* Tokens (sdkmath.Int) *)
  v_shares : Z;         (* DelegatorShares (LegacyDec mantissa) *)
  v_status : vstatus;
  v_jailed : bool;
  v_minself : Z         (* MinSelfDelegation *)
}.

Definition set_ts (v : validator) (t s : Z) : validator :=
  mkVal (v_exists v) t s (v_status v) (v_jailed v) (v_minself v).
Definition set_jailed (v : validator) (j : bool) : validator :=
  mkVal (v_exists v) (v_tokens v) (v_shares v) (v_status v) j (v_minself v).
Definition set_status (v : validator) (st : vstatus) : validator :=
  mkVal (v_exists v) (v_tokens v) (v_shares v) st (v_jailed v) (v_minself v).
Definition set_exists (v : validator) (x : bool) : validator :=
  mkVal x (v_tokens v) (v_shares v) (v_status v) (v_jailed v) (v_minself v).

Record env := mkEnv {
  nacc : nat;             (* accounts are 0 .. nacc-1 *)
  nval : nat;             (* validators are 0 .. nval-1 *)
  liq : nat;              (* the module account "liquid" *)
  oper : nat -> nat;      (* validator -> account with the same address bytes (its operator) *)
  e_quorum : Z;           (* gov tally params (LegacyDec mantissas) *)
  e_threshold : Z;
  e_veto : Z;
  e_burn_quorum : bool;
  e_burn_veto : bool
}.

Record state := mkState {
  vals : nat -> validator;
  del : nat -> nat -> option Z;   (* delegator, validator -> shares (mantissa); None = no delegation record *)
  bal : nat -> Z;                 (* ukava balance *)
  dbal : nat -> nat -> Z;         (* derivative bkava-<validator> in the wallet: account, validator *)
  sav : nat -> nat -> Z;          (* ... deposited in x/savings *)
  ern : nat -> nat -> Z;          (* ... deposited in the x/earn bkava vault (value) *)
  dsup : nat -> Z;                (* bank supply of bkava-<validator> *)
  redel : nat -> nat -> bool;     (* HasReceivingRedelegation(delegator, validator) *)
  ubd : nat -> Z                  (* tokens in the delegator's unbonding delegations *)
}.

Definition set_vals s f := mkState f (del s) (bal s) (dbal s) (sav s) (ern s) (dsup s) (redel s) (ubd s).
Definition set_val s i v := set_vals s (upd (vals s) i v).
Definition set_del s a i d := mkState (vals s) (upd2 (del s) a i d) (bal s) (dbal s) (sav s) (ern s) (dsup s) (redel s) (ubd s).
Definition set_bal s a x := mkState (vals s) (del s) (upd (bal s) a x) (dbal s) (sav s) (ern s) (dsup s) (redel s) (ubd s).
Definition set_dbal s a i x := mkState (vals s) (del s) (bal s) (upd2 (dbal s) a i x) (sav s) (ern s) (dsup s) (redel s) (ubd s).
Definition set_sav s a i x := mkState (vals s) (del s) (bal s) (dbal s) (upd2 (sav s) a i x) (ern s) (dsup s) (redel s) (ubd s).
Definition set_ern s a i x := mkState (vals s) (del s) (bal s) (dbal s) (sav s) (upd2 (ern s) a i x) (dsup s) (redel s) (ubd s).
Definition set_dsup s i x := mkState (vals s) (del s) (bal s) (dbal s) (sav s) (ern s) (upd (dsup s) i x) (redel s) (ubd s).
Definition set_redel s f := mkState (vals s) (del s) (bal s) (dbal s) (sav s) (ern s) (dsup s) f (ubd s).
Definition set_ubd s f := mkState (vals s) (del s) (bal s) (dbal s) (sav s) (ern s) (dsup s) (redel s) f.

Definition dshares (s : state) (a i : nat) : Z := match del s a i with Some d => d | None => 0 end.

(** * types/validator.go *)

(* InvalidExRate *)
Definition invalid_ex_rate (v : validator) : bool := (v_tokens v =? 0) && (0 <? v_shares v).

(* TokensFromShares: shares.MulInt(Tokens).Quo(DelegatorShares); the caller must
   exclude DelegatorShares = 0 (big.Int division by zero panics) *)
Definition tokens_from_shares (v : validator) (sh : Z) : Z := dec_quo (sh * v_tokens v) (v_shares v).
(* TokensFromSharesTruncated *)
Definition tokens_from_shares_trunc (v : validator) (sh : Z) : Z := dec_quo_trunc (sh * v_tokens v) (v_shares v).
(* SharesFromTokens (Tokens <> 0 checked by the caller): DelegatorShares.MulInt(amt).QuoInt(Tokens) *)
Definition shares_from_tokens (v : validator) (amt : Z) : Z := dec_quo_int (v_shares v * amt) (v_tokens v).
(* SharesFromTokensTruncated: DelegatorShares.MulInt(amt).QuoTruncate(NewDecFromInt(Tokens)) *)
Definition shares_from_tokens_trunc (v : validator) (amt : Z) : Z :=
  dec_quo_trunc (v_shares v * amt) (dec_of_int (v_tokens v)).

(* AddTokensFromDel: None = panic (SharesFromTokens error with shares > 0, tokens = 0) *)
Definition add_tokens_from_del (v : validator) (amt : Z) : option (validator * Z) :=
  if v_shares v =? 0 then Some (set_ts v (v_tokens v + amt) (v_shares v + dec_of_int amt), dec_of_int amt)
  else if v_tokens v =? 0 then None
  else let sh := shares_from_tokens v amt in
       Some (set_ts v (v_tokens v + amt) (v_shares v + sh), sh).

(* RemoveDelShares: None = panic (division by zero / negative tokens) *)
Definition remove_del_shares (v : validator) (sh : Z) : option (validator * Z) :=
  let remaining := v_shares v - sh in
  if remaining =? 0 then Some (set_ts v 0 remaining, v_tokens v)
  else if v_shares v =? 0 then None
  else let issued := dec_trunc_int (tokens_from_shares v sh) in
       if v_tokens v - issued <? 0 then None
       else Some (set_ts v (v_tokens v - issued) remaining, issued).

(** * keeper/delegation.go *)

(* Delegate(ctx, delAddr, bondAmt, tokenSrc, validator, subtractAccount): the
   pools are not modelled; with [sub] the delegator's balance pays *)
Definition delegate (s : state) (a i : nat) (amt : Z) (sub : bool) : outcome state Z :=
  let v := vals s i in
  if invalid_ex_rate v then Err else
  if sub && (bal s a <? amt) then Err else
  let s1 := if sub then set_bal s a (bal s a - amt) else s in
  match add_tokens_from_del v amt with
  | None => Panic
  | Some (v', sh) => Ok (set_del (set_val s1 i v') a i (Some (dshares s a i + sh))) sh
  end.

(* Unbond: returns the tokens removed from the validator *)
Definition unbond (e : env) (s : state) (a i : nat) (sh : Z) : outcome state Z :=
  match del s a i with
  | None => Err
  | Some d =>
    if d <? sh then Err else
    let v := vals s i in
    if negb (v_exists v) then Err else
    let d' := d - sh in
    (* the operator going below MinSelfDelegation jails the validator *)
    let jail_check := Nat.eqb a (oper e i) && negb (v_jailed v) in
    if jail_check && (v_shares v =? 0) then Panic else
    let v1 := if jail_check && (dec_trunc_int (tokens_from_shares v d') <? v_minself v)
              then set_jailed v true else v in
    let s1 := set_del s a i (if d' =? 0 then None else Some d') in
    match remove_del_shares v1 sh with
    | None => Panic
    | Some (v2, issued) =>
        let v3 := if (v_shares v2 =? 0) && vstatus_eqb (v_status v2) Unbonded
                  then set_exists v2 false else v2 in
        Ok (set_val s1 i v3) issued
    end
  end.

(* ValidateUnbondAmount: None = error *)
Definition validate_unbond_amount (s : state) (a i : nat) (amt : Z) : option Z :=
  let v := vals s i in
  if negb (v_exists v) then None else
  match del s a i with
  | None => None
  | Some d =>
    if v_tokens v =? 0 then None else
    let sh := shares_from_tokens v amt in
    let sht := shares_from_tokens_trunc v amt in
    if d <? sht then None else
    Some (if d <? sh then d else sh)
  end.

(* MsgUndelegate (ValidateBasic: amount positive; MaxEntries is set out of reach) *)
Definition undelegate (e : env) (s : state) (a i : nat) (amt : Z) : outcome state unit :=
  if amt <=? 0 then Err else
  match validate_unbond_amount s a i amt with
  | None => Err
  | Some sh =>
    match unbond e s a i sh with
    | Ok s1 issued => Ok (set_ubd s1 (upd (ubd s1) a (ubd s1 a + issued))) tt
    | Err => Err
    | Panic => Panic
    end
  end.

(* MsgBeginRedelegate *)
Definition redelegate (e : env) (s : state) (a src dst : nat) (amt : Z) : outcome state unit :=
  if amt <=? 0 then Err else
  match validate_unbond_amount s a src amt with
  | None => Err
  | Some sh =>
    if Nat.eqb src dst then Err else
    if negb (v_exists (vals s dst)) then Err else
    if redel s a src then Err else           (* transitive redelegation *)
    match unbond e s a src sh with
    | Err => Err
    | Panic => Panic
    | Ok s1 issued =>
      if issued =? 0 then Err else           (* ErrTinyRedelegationAmount *)
      match delegate s1 a dst issued false with
      | Err => Err
      | Panic => Panic
      | Ok s2 _ =>
        let vs := vals s2 src in
        if v_exists vs && vstatus_eqb (v_status vs) Unbonded then Ok s2 tt   (* completes at once *)
        else Ok (set_redel s2 (upd2 (redel s2) a dst true)) tt
      end
    end
  end.

(* MsgDelegate (ValidateBasic: amount positive) *)
Definition msg_delegate (s : state) (a i : nat) (amt : Z) : outcome state unit :=
  if amt <=? 0 then Err else
  if negb (v_exists (vals s i)) then Err else
  match delegate s a i amt true with
  | Ok s1 _ => Ok s1 tt
  | Err => Err
  | Panic => Panic
  end.

(** * keeper/slash.go (infraction height = current height: unbonding
      delegations and redelegations are not scanned) *)
Definition slash (s : state) (i : nat) (power factor : Z) : outcome state unit :=
  if factor <? 0 then Panic else
  let v := vals s i in
  if negb (v_exists v) then Ok s tt else
  if vstatus_eqb (v_status v) Unbonded then Panic else
  let amount := power * POWER_RED in
  let slash_amt := dec_trunc_int (dec_mul (dec_of_int amount) factor) in
  let burn := Z.max (Z.min slash_amt (v_tokens v)) 0 in
  Ok (set_val s i (set_ts v (v_tokens v - burn) (v_shares v))) tt.

Definition jail (s : state) (i : nat) : outcome state unit :=
  let v := vals s i in
  if negb (v_exists v) then Panic else
  if v_jailed v then Panic else Ok (set_val s i (set_jailed v true)) tt.

(* Unjail as reached through x/slashing MsgUnjail: its stateful checks on the staking side
   (validator exists, the operator's self delegation exists and is worth at least
   MinSelfDelegation, the validator is jailed), then staking Unjail *)
Definition unjail (e : env) (s : state) (i : nat) : outcome state unit :=
  let v := vals s i in
  if negb (v_exists v) then Err else
  match del s (oper e i) i with
  | None => Err
  | Some d =>
    if v_shares v =? 0 then Panic else
    if dec_trunc_int (tokens_from_shares v d) <? v_minself v then Err else
    if negb (v_jailed v) then Err else Ok (set_val s i (set_jailed v false)) tt
  end.

(** * end blocker: ApplyAndReturnValidatorSetUpdates (MaxValidators is out of
      reach: a validator is in the set iff it is not jailed and has consensus
      power > 0), then, when [mature] (the block time has moved past every
      pending completion time), UnbondAllMatureValidators and the completion of
      all unbonding delegations and redelegations *)
Definition eligible (v : validator) : bool :=
  v_exists v && negb (v_jailed v) && (0 <? Z.quot (v_tokens v) POWER_RED).

Definition end_block_val (mature : bool) (v : validator) : validator :=
  if negb (v_exists v) then v else
  if eligible v then set_status v Bonded else
  match v_status v with
  | Bonded => set_status v Unbonding
  | Unbonding =>
      if mature then
        let v1 := set_status v Unbonded in
        if v_shares v1 =? 0 then set_exists v1 false else v1
      else v
  | Unbonded => v
  end.

Definition end_block (s : state) (mature : bool) : state :=
  let s1 := set_vals s (fun i => end_block_val mature (vals s i)) in
  if mature then
    mkState (vals s1) (del s1) (fun a => bal s1 a + ubd s1 a) (dbal s1) (sav s1) (ern s1) (dsup s1)
            (fun _ _ => false) (fun _ => 0)
  else s1.
